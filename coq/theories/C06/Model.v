(* C06 model: x/lockup keeper + msg server over a small bank.
   Mirrors /repo/x/lockup/keeper/{lock.go, lock_refs.go, store.go, iterator.go, utils.go, msg_server.go},
   /repo/x/lockup/types/{lock.go, msgs.go (ValidateBasic)} and /repo/x/lockup/abci.go, function by function.
   Abstractions (see Corr.v / STATUS.md):
   - accounts, denominations are integers (account 0 = the lockup module account; denomination 0 = the empty
     string, which AddTokensToLockByID uses as the "synthetic denom" of a lock without synthetic lock);
   - times are integer nanoseconds, 0 = Go's zero time.Time (all block times are > 0);
   - a lock holds a single coin (MsgLockTokens.ValidateBasic enforces it; AddTokensToLockByID is only ever
     called with the lock's own denomination);
   - the reference indexes are the set of store entries (index key, lock id), index keys as tagged tuples
     (unlocking?, key family, account, denomination, duration-or-end-time) - one tuple per real index key;
     iteration order = (value, id), which is the byte order of the real keys inside one family/account/denom;
   - the accumulation store of a denomination is a sorted map duration-key -> amount with "sum over keys >= k"
     (the real one is a sum-tree on which lockup only calls Increase/Decrease/SubsetAccumulation(k, nil));
   - superfluid / synthetic locks and concentrated-liquidity share denominations are out of scope (none exist).
   No proofs in this file. *)
From Coq Require Import ZArith List Bool.
Import ListNotations.
From Osmo Require Import Gen.C06_consts.
Open Scope Z_scope.

Inductive err :=
| EInvalid | ENotFound | ENotOwner | EInsufficient | EExceeds | EAlreadyUnlocking | ENotUnlocking | ENotMatured
| EExtendUnlocking | EExtendNotGreater | ENotAllowed | ESameReceiver | ERefExists | EPanic | ESplitUnlocking.

Inductive result (A : Type) := Ok (a : A) | Err (e : err).
Arguments Ok {A} a.
Arguments Err {A} e.
Definition bind {A B} (r : result A) (f : A -> result B) : result B :=
  match r with Ok a => f a | Err e => Err e end.
Notation "'do' x <- r ; k" := (bind r (fun x => k)) (at level 200, x name, r at level 100, k at level 200).

Record lock := mkLock {
  l_id : Z; l_owner : Z; l_denom : Z; l_amt : Z; l_dur : Z;
  l_end : Z;      (* 0 = not unlocking *)
  l_rr : Z }.     (* reward receiver; 0 = "" = the owner *)

Inductive kind := KLockDur | KAccDur | KDenomDur | KAccDenomDur | KLockTs | KAccTs | KDenomTs | KAccDenomTs.
Record rkey := mkKey { k_unl : bool; k_kind : kind; k_acc : Z; k_denom : Z; k_val : Z }.

Record state := mkState {
  s_now : Z;                       (* ctx.BlockTime() *)
  s_bal : Z -> Z -> Z;             (* bank: account -> denomination -> amount *)
  s_locks : list lock;             (* KeyPrefixPeriodLock: the lock records *)
  s_last : Z;                      (* KeyLastLockID *)
  s_refs : list (rkey * Z);        (* lock reference entries: (index key, lock id) *)
  s_acc : list (Z * Z * Z);        (* accumulation stores: (denomination, duration key, amount), sorted *)
  s_allowed : list Z }.            (* params.ForceUnlockAllowedAddresses *)

Definition set_now s v := mkState v (s_bal s) (s_locks s) (s_last s) (s_refs s) (s_acc s) (s_allowed s).
Definition set_bal s v := mkState (s_now s) v (s_locks s) (s_last s) (s_refs s) (s_acc s) (s_allowed s).
Definition set_locks s v := mkState (s_now s) (s_bal s) v (s_last s) (s_refs s) (s_acc s) (s_allowed s).
Definition set_last s v := mkState (s_now s) (s_bal s) (s_locks s) v (s_refs s) (s_acc s) (s_allowed s).
Definition set_refs s v := mkState (s_now s) (s_bal s) (s_locks s) (s_last s) v (s_acc s) (s_allowed s).
Definition set_acc s v := mkState (s_now s) (s_bal s) (s_locks s) (s_last s) (s_refs s) v (s_allowed s).

Definition module_acc : Z := 0.

(* ---------------------------------------------------------------- bank *)
Definition bal_add (b : Z -> Z -> Z) (a dn x : Z) : Z -> Z -> Z :=
  fun a' dn' => if a' =? a then if dn' =? dn then b a' dn' + x else b a' dn' else b a' dn'.

(* bank SendCoins of the single coin (dn, amt), amt >= 0 *)
Definition send (s : state) (from to dn amt : Z) : result state :=
  if s_bal s from dn <? amt then Err EInsufficient
  else Ok (set_bal s (bal_add (bal_add (s_bal s) from dn (- amt)) to dn amt)).

(* ---------------------------------------------------------------- types/lock.go *)
Definition is_unlocking (l : lock) : bool := negb (l_end l =? 0).
Definition norm_rr (owner rr : Z) : Z := if rr =? owner then 0 else rr.
(* NewPeriodLock *)
Definition new_period_lock (id owner rr dur endt dn amt : Z) : lock :=
  mkLock id owner dn amt dur endt (norm_rr owner rr).

Definition with_amt (l : lock) (v : Z) := mkLock (l_id l) (l_owner l) (l_denom l) v (l_dur l) (l_end l) (l_rr l).
Definition with_dur (l : lock) (v : Z) := mkLock (l_id l) (l_owner l) (l_denom l) (l_amt l) v (l_end l) (l_rr l).
Definition with_end (l : lock) (v : Z) := mkLock (l_id l) (l_owner l) (l_denom l) (l_amt l) (l_dur l) v (l_rr l).
Definition with_rr (l : lock) (v : Z) := mkLock (l_id l) (l_owner l) (l_denom l) (l_amt l) (l_dur l) (l_end l) v.

(* ---------------------------------------------------------------- store.go: lock records *)
Fixpoint get_lock (ls : list lock) (id : Z) : option lock :=
  match ls with
  | [] => None
  | l :: r => if l_id l =? id then Some l else get_lock r id
  end.
(* GetLockByID *)
Definition get_lock_by_id (s : state) (id : Z) : result lock :=
  match get_lock (s_locks s) id with Some l => Ok l | None => Err ENotFound end.
(* setLock: store.Set on the record key - replace the record with this id, or add it *)
Fixpoint put_lock (ls : list lock) (l : lock) : list lock :=
  match ls with
  | [] => [l]
  | x :: r => if l_id x =? l_id l then l :: r else x :: put_lock r l
  end.
Definition set_lock (s : state) (l : lock) : state := set_locks s (put_lock (s_locks s) l).
(* deleteLock *)
Definition delete_lock (s : state) (id : Z) : state :=
  set_locks s (filter (fun l => negb (l_id l =? id)) (s_locks s)).

(* ---------------------------------------------------------------- utils.go: reference keys *)
Definition kind_eqb (a b : kind) : bool :=
  match a, b with
  | KLockDur, KLockDur | KAccDur, KAccDur | KDenomDur, KDenomDur | KAccDenomDur, KAccDenomDur
  | KLockTs, KLockTs | KAccTs, KAccTs | KDenomTs, KDenomTs | KAccDenomTs, KAccDenomTs => true
  | _, _ => false
  end.
Definition key_eqb (a b : rkey) : bool :=
  if kind_eqb (k_kind a) (k_kind b) then
    if Bool.eqb (k_unl a) (k_unl b) then
      if k_val a =? k_val b then
        if k_acc a =? k_acc b then k_denom a =? k_denom b else false
      else false
    else false
  else false.

(* getDurationKey: negative durations are clamped to 0 *)
Definition dur_key (d : Z) : Z := if d <? 0 then 0 else d.
(* accumulationKey: uint64(duration), no clamping *)
Definition acc_key (d : Z) : Z := if d <? 0 then d + 2 ^ 64 else d.

(* durationLockRefKeys, under the prefix [unl] *)
Definition duration_ref_keys (unl : bool) (l : lock) : list rkey :=
  let dk := dur_key (l_dur l) in
  [ mkKey unl KLockDur 0 0 dk;
    mkKey unl KAccDur (l_owner l) 0 dk;
    mkKey unl KDenomDur 0 (l_denom l) dk;
    mkKey unl KAccDenomDur (l_owner l) (l_denom l) dk ].
(* lockRefKeys, under the prefix [unl] *)
Definition lock_ref_keys (unl : bool) (l : lock) : list rkey :=
  duration_ref_keys unl l ++
  [ mkKey unl KLockTs 0 0 (l_end l);
    mkKey unl KAccTs (l_owner l) 0 (l_end l);
    mkKey unl KDenomTs 0 (l_denom l) (l_end l);
    mkKey unl KAccDenomTs (l_owner l) (l_denom l) (l_end l) ].

(* ---------------------------------------------------------------- store.go / lock_refs.go: reference entries *)
Definition entry_is (k : rkey) (id : Z) (e : rkey * Z) : bool :=
  if snd e =? id then key_eqb (fst e) k else false.
Definition ref_has (refs : list (rkey * Z)) (k : rkey) (id : Z) : bool := existsb (entry_is k id) refs.
(* addLockRefByKey *)
Definition ref_add (refs : list (rkey * Z)) (k : rkey) (id : Z) : result (list (rkey * Z)) :=
  if ref_has refs k id then Err ERefExists else Ok ((k, id) :: refs).
(* deleteLockRefByKey *)
Definition ref_del (refs : list (rkey * Z)) (k : rkey) (id : Z) : list (rkey * Z) :=
  filter (fun e => negb (entry_is k id e)) refs.

Fixpoint ref_add_all (refs : list (rkey * Z)) (ks : list rkey) (id : Z) : result (list (rkey * Z)) :=
  match ks with
  | [] => Ok refs
  | k :: r => do refs1 <- ref_add refs k id; ref_add_all refs1 r id
  end.
Definition ref_del_all (refs : list (rkey * Z)) (ks : list rkey) (id : Z) : list (rkey * Z) :=
  fold_left (fun rs k => ref_del rs k id) ks refs.

(* the keys under which a lock is referenced *)
Definition ref_keys (l : lock) : list rkey :=
  if is_unlocking l then lock_ref_keys true l else duration_ref_keys false l.
(* addLockRefs *)
Definition add_lock_refs (s : state) (l : lock) : result state :=
  do refs <- ref_add_all (s_refs s) (ref_keys l) (l_id l); Ok (set_refs s refs).
(* deleteLockRefs with prefix [unl] *)
Definition delete_lock_refs (s : state) (unl : bool) (l : lock) : state :=
  set_refs s (ref_del_all (s_refs s) (lock_ref_keys unl l) (l_id l)).

(* ---------------------------------------------------------------- accumulation store (sum-tree abstraction) *)
Fixpoint acc_increase (acc : list (Z * Z * Z)) (dn k amt : Z) : list (Z * Z * Z) :=
  match acc with
  | [] => [(dn, k, amt)]
  | (dn', k', v) :: r =>
      if dn =? dn' then
        if k =? k' then (dn', k', v + amt) :: r
        else if k <? k' then (dn, k, amt) :: acc
        else (dn', k', v) :: acc_increase r dn k amt
      else if dn <? dn' then (dn, k, amt) :: acc
      else (dn', k', v) :: acc_increase r dn k amt
  end.
Definition acc_decrease acc dn k amt := acc_increase acc dn k (- amt).
(* SubsetAccumulation(k, nil) on the store of denomination dn *)
Fixpoint acc_from (acc : list (Z * Z * Z)) (dn k : Z) : Z :=
  match acc with
  | [] => 0
  | (dn', k', v) :: r => (if dn' =? dn then if k <=? k' then v else 0 else 0) + acc_from r dn k
  end.
(* GetPeriodLocksAccumulation *)
Definition get_period_locks_accumulation (s : state) (dn d : Z) : Z := acc_from (s_acc s) dn (acc_key d).
Definition inc_acc (s : state) (dn d amt : Z) : state := set_acc s (acc_increase (s_acc s) dn (acc_key d) amt).
Definition dec_acc (s : state) (dn d amt : Z) : state := set_acc s (acc_decrease (s_acc s) dn (acc_key d) amt).

(* ---------------------------------------------------------------- iterator.go *)
Definition in_group (unl : bool) (kd : kind) (acc dn : Z) (k : rkey) : bool :=
  if kind_eqb (k_kind k) kd then
    if Bool.eqb (k_unl k) unl then
      if k_acc k =? acc then k_denom k =? dn else false
    else false
  else false.

(* store order inside a group: by value, then by id *)
Definition vi_leb (a b : Z * Z) : bool :=
  if fst a <? fst b then true else if fst a =? fst b then snd a <=? snd b else false.
Fixpoint vi_insert (x : Z * Z) (l : list (Z * Z)) : list (Z * Z) :=
  match l with
  | [] => [x]
  | y :: r => if vi_leb x y then x :: l else y :: vi_insert x r
  end.
Definition vi_sort (l : list (Z * Z)) : list (Z * Z) := fold_right vi_insert [] l.

(* the ids of the entries of one group whose value satisfies p, in store order *)
Definition iterate (refs : list (rkey * Z)) (unl : bool) (kd : kind) (acc dn : Z) (p : Z -> bool) : list Z :=
  map snd (vi_sort (map (fun e => (k_val (fst e), snd e))
    (filter (fun e => if in_group unl kd acc dn (fst e) then p (k_val (fst e)) else false) refs))).

Definition p_all (v : Z) : bool := true.
Definition p_after (t v : Z) : bool := t <? v.             (* iteratorAfterTime: end time strictly after t *)
Definition p_before (t v : Z) : bool := v <=? t.           (* iteratorBeforeTime: end time <= t *)
Definition p_dur (d v : Z) : bool := v =? dur_key d.       (* iteratorDuration *)
Definition p_longer (d v : Z) : bool := dur_key d <=? v.   (* iteratorLongerDuration: >= *)
Definition p_shorter (d v : Z) : bool := v <? dur_key d.   (* iteratorShorterDuration: < *)

Definition it_lock_after_time s t := iterate (s_refs s) true KLockTs 0 0 (p_after t).
Definition it_lock_before_time s t := iterate (s_refs s) true KLockTs 0 0 (p_before t).
Definition it_lock s unl := iterate (s_refs s) unl KLockDur 0 0 p_all.
Definition it_lock_after_time_denom s dn t := iterate (s_refs s) true KDenomTs 0 dn (p_after t).
Definition it_lock_before_time_denom s dn t := iterate (s_refs s) true KDenomTs 0 dn (p_before t).
Definition it_lock_longer_duration_denom s unl dn d := iterate (s_refs s) unl KDenomDur 0 dn (p_longer d).
Definition it_lock_denom s unl dn := iterate (s_refs s) unl KDenomDur 0 dn p_all.
Definition it_acc_after_time s a t := iterate (s_refs s) true KAccTs a 0 (p_after t).
Definition it_acc_before_time s a t := iterate (s_refs s) true KAccTs a 0 (p_before t).
Definition it_acc s unl a := iterate (s_refs s) unl KAccDur a 0 p_all.
Definition it_acc_after_time_denom s a dn t := iterate (s_refs s) true KAccDenomTs a dn (p_after t).
Definition it_acc_before_time_denom s a dn t := iterate (s_refs s) true KAccDenomTs a dn (p_before t).
Definition it_acc_denom s unl a dn := iterate (s_refs s) unl KAccDenomDur a dn p_all.
Definition it_acc_longer_duration s unl a d := iterate (s_refs s) unl KAccDur a 0 (p_longer d).
Definition it_acc_duration s unl a d := iterate (s_refs s) unl KAccDur a 0 (p_dur d).
Definition it_acc_shorter_duration s unl a d := iterate (s_refs s) unl KAccDur a 0 (p_shorter d).
Definition it_acc_longer_duration_denom s unl a dn d := iterate (s_refs s) unl KAccDenomDur a dn (p_longer d).
Definition it_acc_duration_denom s unl a dn d := iterate (s_refs s) unl KAccDenomDur a dn (p_dur d).

(* getLocksFromIterator: panics when a reference points to a missing lock *)
Fixpoint locks_of_ids (s : state) (ids : list Z) : result (list lock) :=
  match ids with
  | [] => Ok []
  | id :: r =>
      match get_lock (s_locks s) id with
      | None => Err EPanic
      | Some l => do ls <- locks_of_ids s r; Ok (l :: ls)
      end
  end.
(* getCoinsFromLocks, as amount per denomination *)
Fixpoint coins_of (ls : list lock) (dn : Z) : Z :=
  match ls with
  | [] => 0
  | l :: r => (if l_denom l =? dn then l_amt l else 0) + coins_of r dn
  end.

(* ---------------------------------------------------------------- store.go queries *)
Definition past_duration (s : state) (t : Z) : Z := if s_now s <? t then t - s_now s else 0.

Definition q_account_unlockable_coins s a := locks_of_ids s (it_acc_before_time s a (s_now s)).
Definition q_account_unlocking_coins s a := locks_of_ids s (it_acc_after_time s a (s_now s)).
Definition q_account_locked_coins s a :=
  do nu <- locks_of_ids s (it_acc s false a);
  do un <- locks_of_ids s (it_acc_after_time s a (s_now s)); Ok (nu ++ un).
Definition q_account_locked_past_time s a t :=
  do un <- locks_of_ids s (it_acc_after_time s a t);
  do nu <- locks_of_ids s (it_acc_longer_duration s false a (past_duration s t)); Ok (nu ++ un).
Definition q_account_locked_past_time_not_unlocking_only s a t :=
  locks_of_ids s (it_acc_longer_duration s false a (past_duration s t)).
Definition q_account_unlocked_before_time s a t :=
  do un <- locks_of_ids s (it_acc_before_time s a t);
  if t <? s_now s then Ok un else
  do nu <- locks_of_ids s (it_acc_shorter_duration s false a (t - s_now s)); Ok (nu ++ un).
Definition q_account_locked_past_time_denom s a dn t :=
  do un <- locks_of_ids s (it_acc_after_time_denom s a dn t);
  do nu <- locks_of_ids s (it_acc_longer_duration_denom s false a dn (past_duration s t)); Ok (nu ++ un).
Definition q_account_locked_duration_not_unlocking_only s a dn d :=
  locks_of_ids s (it_acc_duration_denom s false a dn d).
Definition q_account_locked_longer_duration s a d :=
  do un <- locks_of_ids s (it_acc_longer_duration s true a d);
  do nu <- locks_of_ids s (it_acc_longer_duration s false a d); Ok (nu ++ un).
Definition q_account_locked_duration s a d :=
  do un <- locks_of_ids s (it_acc_duration s true a d);
  do nu <- locks_of_ids s (it_acc_duration s false a d); Ok (un ++ nu).
Definition q_account_locked_longer_duration_not_unlocking_only s a d :=
  locks_of_ids s (it_acc_longer_duration s false a d).
Definition q_account_locked_longer_duration_denom s a dn d :=
  do un <- locks_of_ids s (it_acc_longer_duration_denom s true a dn d);
  do nu <- locks_of_ids s (it_acc_longer_duration_denom s false a dn d); Ok (nu ++ un).
Definition q_account_locked_longer_duration_denom_not_unlocking_only s a dn d :=
  locks_of_ids s (it_acc_longer_duration_denom s false a dn d).
Definition q_locks_past_time_denom s dn t :=
  do un <- locks_of_ids s (it_lock_after_time_denom s dn t);
  do nu <- locks_of_ids s (it_lock_longer_duration_denom s false dn (past_duration s t)); Ok (nu ++ un).
Definition q_locks_longer_than_duration_denom s dn d :=
  do un <- locks_of_ids s (it_lock_longer_duration_denom s true dn d);
  do nu <- locks_of_ids s (it_lock_longer_duration_denom s false dn d); Ok (nu ++ un).
Definition q_locks_denom s dn := q_locks_longer_than_duration_denom s dn 0.
Definition q_period_locks s :=
  do un <- locks_of_ids s (it_lock s true);
  do nu <- locks_of_ids s (it_lock s false); Ok (nu ++ un).
Definition q_account_period_locks s a :=
  do un <- locks_of_ids s (it_acc s true a);
  do nu <- locks_of_ids s (it_acc s false a); Ok (nu ++ un).
(* GetModuleLockedCoins *)
Definition q_module_locked_coins s :=
  do nu <- locks_of_ids s (it_lock s false);
  do un <- locks_of_ids s (it_lock_after_time s (s_now s)); Ok (nu ++ un).
(* HasLock *)
Definition has_lock s a dn d : result bool :=
  do ls <- q_account_locked_duration_not_unlocking_only s a dn d;
  Ok (match ls with [] => false | _ => true end).
(* GetLockRewardReceiver *)
Definition reward_receiver (l : lock) : Z := if l_rr l =? 0 then l_owner l else l_rr l.

(* ---------------------------------------------------------------- lock.go *)
(* k.lock: store the record, add the newly locked amount to the accumulation store *)
Definition lock_internal (s : state) (l : lock) (amt : Z) : state :=
  let s1 := set_lock s l in
  if amt =? 0 then s1 else inc_acc s1 (l_denom l) (l_dur l) amt.

(* CreateLock = SendCoinsFromAccountToModule + CreateLockNoSend *)
Definition create_lock (s : state) (owner dn amt dur : Z) : result state :=
  do s1 <- send s owner module_acc dn amt;
  let id := s_last s1 + 1 in
  let l := new_period_lock id owner 0 dur 0 dn amt in
  let s2 := lock_internal s1 l amt in
  do s3 <- add_lock_refs s2 l;
  Ok (set_last s3 id).

(* AddTokensToLockByID, called with the lock's own denomination *)
Definition add_tokens_to_lock_by_id (s : state) (id owner amt : Z) : result state :=
  do l <- get_lock_by_id s id;
  if negb (l_owner l =? owner) then Err ENotOwner else
  let l' := with_amt l (l_amt l + amt) in
  do s1 <- send s owner module_acc (l_denom l) amt;
  let s2 := lock_internal s1 l' amt in
  (* no synthetic lock: SynthDenom = "" and Duration = 0 *)
  Ok (inc_acc s2 0 0 amt).

(* AddToExistingLock *)
Definition add_to_existing_lock (s : state) (owner dn amt dur : Z) : result state :=
  do ls <- q_account_locked_duration_not_unlocking_only s owner dn dur;
  match ls with
  | [] => Err ENotFound
  | l :: _ => add_tokens_to_lock_by_id s (l_id l) owner amt
  end.

(* SplitLock *)
Definition split_lock (s : state) (l : lock) (amt : Z) (force : bool) : result (state * lock) :=
  if (if force then false else is_unlocking l) then Err ESplitUnlocking else
  let l1 := with_amt l (l_amt l - amt) in
  let s1 := set_lock s l1 in
  let id := s_last s1 + 1 in
  let s2 := set_last s1 id in
  let l2 := new_period_lock id (l_owner l1) (l_rr l1) (l_dur l1) (l_end l1) (l_denom l1) amt in
  Ok (set_lock s2 l2, l2).

(* coins argument of the unlock messages: (dn, amt), amt = 0 for the empty coins *)
Definition all_lte (dn amt : Z) (l : lock) : bool :=
  if amt =? 0 then true else if dn =? l_denom l then amt <=? l_amt l else false.
Definition is_partial (dn amt : Z) (l : lock) : bool :=
  if amt =? 0 then false else negb (if dn =? l_denom l then amt =? l_amt l else false).

(* beginUnlock *)
Definition begin_unlock_internal (s : state) (l : lock) (dn amt : Z) : result state :=
  if negb (all_lte dn amt l) then Err EExceeds else
  if is_unlocking l then Err EAlreadyUnlocking else
  do sl <- (if is_partial dn amt l then split_lock s l amt false else Ok (s, l));
  let '(s1, l1) := sl in
  let s2 := delete_lock_refs s1 false l1 in
  let l2 := with_end l1 (s_now s + l_dur l1) in
  let s3 := set_lock s2 l2 in
  add_lock_refs s3 l2.

(* BeginUnlock (no synthetic locks) *)
Definition begin_unlock (s : state) (id dn amt : Z) : result state :=
  do l <- get_lock_by_id s id;
  begin_unlock_internal s l dn amt.

(* beginUnlockFromIterator *)
Fixpoint begin_unlock_list (s : state) (ls : list lock) : result state :=
  match ls with
  | [] => Ok s
  | l :: r => do s1 <- begin_unlock s (l_id l) 0 0; begin_unlock_list s1 r
  end.
(* BeginUnlockAllNotUnlockings *)
Definition begin_unlock_all_not_unlockings (s : state) (owner : Z) : result state :=
  do ls <- locks_of_ids s (it_acc s false owner);
  begin_unlock_list s ls.

(* unlockMaturedLockInternalLogic *)
Definition unlock_internal (s : state) (l : lock) : result state :=
  do s1 <- send s module_acc (l_owner l) (l_denom l) (l_amt l);
  let s2 := delete_lock s1 (l_id l) in
  let s3 := delete_lock_refs s2 true l in
  Ok (dec_acc s3 (l_denom l) (l_dur l) (l_amt l)).

(* UnlockMaturedLock *)
Definition unlock_matured_lock (s : state) (id : Z) : result state :=
  do l <- get_lock_by_id s id;
  if negb (is_unlocking l) then Err ENotUnlocking else
  if s_now s <? l_end l then Err ENotMatured else
  unlock_internal s l.

(* unlockFromIterator: an error of UnlockMaturedLock is a panic *)
Fixpoint unlock_list (s : state) (n count : Z) (ls : list lock) : result state :=
  match ls with
  | [] => Ok s
  | l :: r =>
      if (if 0 <? n then n <=? count else false) then Ok s else
      match unlock_matured_lock s (l_id l) with
      | Err _ => Err EPanic
      | Ok s1 => unlock_list s1 n (count + 1) r
      end
  end.
(* WithdrawMaturedLocks *)
Definition withdraw_matured_locks (s : state) (n : Z) : result state :=
  do ls <- locks_of_ids s (it_lock_before_time s (s_now s));
  unlock_list s n 0 ls.
(* abci.go EndBlocker (no synthetic locks); the two literals come from Gen/C06_consts.v *)
Definition end_blocker (s : state) (height : Z) : result state :=
  if Z.rem height endblock_period =? 0 then withdraw_matured_locks s num_locks_to_delete else Ok s.

(* ForceUnlock (keeper) *)
Definition force_unlock (s : state) (l : lock) : result state :=
  do s1 <- (if negb (is_unlocking l) then begin_unlock s (l_id l) 0 0 else Ok s);
  do l' <- get_lock_by_id s1 (l_id l);
  unlock_internal s1 l'.
(* PartialForceUnlock *)
Definition partial_force_unlock (s : state) (l : lock) (dn amt : Z) : result state :=
  if negb (all_lte dn amt l) then Err EExceeds else
  do sl <- (if is_partial dn amt l then split_lock s l amt true else Ok (s, l));
  let '(s1, l1) := sl in
  force_unlock s1 l1.

(* SetLockRewardReceiverAddress *)
Definition set_lock_reward_receiver (s : state) (id owner rr : Z) : result state :=
  do l <- get_lock_by_id s id;
  if negb (l_owner l =? owner) then Err ENotOwner else
  let rr' := if l_owner l =? rr then 0 else rr in
  if l_rr l =? rr' then Err ESameReceiver else
  Ok (set_lock s (with_rr l rr')).

(* ExtendLockup (keeper) *)
Definition extend_lockup (s : state) (id owner dur : Z) : result state :=
  do l <- get_lock_by_id s id;
  if negb (l_owner l =? owner) then Err ENotOwner else
  if is_unlocking l then Err EExtendUnlocking else
  let s1 := delete_lock_refs s (is_unlocking l) l in
  do sl <- (if dur =? 0 then Ok (s1, l) else
            if dur <=? l_dur l then Err EExtendNotGreater else
            Ok (inc_acc (dec_acc s1 (l_denom l) (l_dur l) (l_amt l)) (l_denom l) dur (l_amt l), with_dur l dur));
  let '(s2, l2) := sl in
  do s3 <- add_lock_refs s2 l2;
  Ok (set_lock s3 l2).

(* ---------------------------------------------------------------- msg_server.go (+ ValidateBasic of msgs.go) *)
Inductive op :=
| OLock (o dn amt dur : Z)          (* MsgLockTokens *)
| OAdd (o id amt : Z)               (* keeper.AddTokensToLockByID with the lock's denomination *)
| OExtend (o id dur : Z)            (* MsgExtendLockup *)
| OBegin (o id dn amt : Z)          (* MsgBeginUnlocking, amt = 0: empty coins *)
| OBeginAll (o : Z)                 (* MsgBeginUnlockingAll *)
| OUnlock (id : Z)                  (* keeper.UnlockMaturedLock *)
| OWithdraw (n : Z)                 (* keeper.WithdrawMaturedLocks *)
| OEndBlock (h : Z)                 (* lockup.EndBlocker at block height h *)
| OSetRR (o id rr : Z)              (* MsgSetRewardReceiverAddress *)
| OForce (o id dn amt : Z)          (* MsgForceUnlock *)
| OTime (t : Z).                    (* next block time *)

Definition msg_lock_tokens (s : state) (o dn amt dur : Z) : result state :=
  if dur <=? 0 then Err EInvalid else
  if amt <=? 0 then Err EInvalid else
  do ex <- has_lock s o dn dur;
  if ex then add_to_existing_lock s o dn amt dur else create_lock s o dn amt dur.

Definition msg_begin_unlocking (s : state) (o id dn amt : Z) : result state :=
  if id =? 0 then Err EInvalid else
  if amt <? 0 then Err EInvalid else
  do l <- get_lock_by_id s id;
  if negb (l_owner l =? o) then Err ENotOwner else
  begin_unlock s (l_id l) dn amt.

Definition msg_begin_unlocking_all (s : state) (o : Z) : result state :=
  begin_unlock_all_not_unlockings s o.

Definition msg_extend_lockup (s : state) (o id dur : Z) : result state :=
  if id =? 0 then Err EInvalid else
  if dur <=? 0 then Err EInvalid else
  do s1 <- extend_lockup s id o dur;
  do _ <- get_lock_by_id s1 id;
  Ok s1.

Definition msg_force_unlock (s : state) (o id dn amt : Z) : result state :=
  if id =? 0 then Err EInvalid else
  if amt <? 0 then Err EInvalid else
  do l <- get_lock_by_id s id;
  if negb (l_owner l =? o) then Err ENotOwner else
  if negb (existsb (fun a => a =? o) (s_allowed s)) then Err ENotAllowed else
  partial_force_unlock s l dn amt.

Definition msg_set_reward_receiver (s : state) (o id rr : Z) : result state :=
  if id =? 0 then Err EInvalid else
  set_lock_reward_receiver s id o rr.

Definition handle (s : state) (o : op) : result state :=
  match o with
  | OLock a dn amt dur => msg_lock_tokens s a dn amt dur
  | OAdd a id amt => if amt <? 0 then Err EInvalid else add_tokens_to_lock_by_id s id a amt
  | OExtend a id dur => msg_extend_lockup s a id dur
  | OBegin a id dn amt => msg_begin_unlocking s a id dn amt
  | OBeginAll a => msg_begin_unlocking_all s a
  | OUnlock id => unlock_matured_lock s id
  | OWithdraw n => withdraw_matured_locks s n
  | OEndBlock h => end_blocker s h
  | OSetRR a id rr => msg_set_reward_receiver s a id rr
  | OForce a id dn amt => msg_force_unlock s a id dn amt
  | OTime t => if t <? s_now s then Err EInvalid else Ok (set_now s t)
  end.

Definition err_code (e : err) : Z :=
  match e with
  | EInvalid => 1 | ENotFound => 2 | ENotOwner => 3 | EInsufficient => 4 | EExceeds => 5
  | EAlreadyUnlocking => 6 | ENotUnlocking => 7 | ENotMatured => 8 | EExtendUnlocking => 9
  | EExtendNotGreater => 10 | ENotAllowed => 11 | ESameReceiver => 12 | ERefExists => 14
  | EPanic => 15 | ESplitUnlocking => 16
  end.

(* baseapp atomicity (DESIGN 1.5): a failing handler leaves the state unchanged *)
Definition step (s : state) (o : op) : state * Z :=
  match handle s o with
  | Ok s' => (s', 0)
  | Err e => (s, err_code e)
  end.

Definition run (s : state) (ops : list op) : state := fold_left (fun st o => fst (step st o)) ops s.

(* genesis: funded accounts, nothing locked *)
Definition init_state (t0 : Z) (fund : Z -> Z -> Z) (allowed : list Z) : state :=
  mkState t0 (fun a dn => if a =? module_acc then 0 else fund a dn) [] 0 [] [] allowed.

(* ---------------------------------------------------------------- genesis and maintenance entry points of lock.go *)
(* setLockAndAddLockRefs *)
Definition set_lock_and_add_lock_refs (s : state) (l : lock) : result state :=
  add_lock_refs (set_lock s l) l.
(* InitializeAllLocks: records and reference entries lock by lock, then one Increase per (denomination, duration) with the summed
   amount - the same store as one Increase per lock *)
Fixpoint initialize_all_locks (s : state) (ls : list lock) : result state :=
  match ls with
  | [] => Ok s
  | l :: r => do s1 <- set_lock_and_add_lock_refs s l;
              initialize_all_locks (inc_acc s1 (l_denom l) (l_dur l) (l_amt l)) r
  end.
(* genesis: bank balances (the module account holds the genesis locks' coins), keeper.InitGenesis = SetLastLockID + InitializeAllLocks *)
Definition fund_module (b : Z -> Z -> Z) (ls : list lock) : Z -> Z -> Z :=
  fold_left (fun b l => bal_add b module_acc (l_denom l) (l_amt l)) ls b.
Definition genesis_state (t0 : Z) (fund : Z -> Z -> Z) (allowed : list Z) (last : Z) (ls : list lock) : result state :=
  let s0 := init_state t0 fund allowed in
  initialize_all_locks (set_last (set_bal s0 (fund_module (s_bal s0) ls)) last) ls.

(* RebuildAccumulationStoreForDenom (upgrade handlers): clear the denomination's store, re-add every lock GetLocksDenom returns *)
Definition rebuild_accumulation_store_for_denom (s : state) (dn : Z) : result state :=
  do ls <- q_locks_denom s dn;
  let acc0 := filter (fun e => negb (fst (fst e) =? dn)) (s_acc s) in
  Ok (set_acc s (fold_left (fun acc l => acc_increase acc dn (acc_key (l_dur l)) (if l_denom l =? dn then l_amt l else 0)) ls acc0)).

(* ---------------------------------------------------------------- definitional views used by the theorems *)
Definition locked_sum (ls : list lock) (p : lock -> bool) : Z :=
  fold_right (fun l acc => (if p l then l_amt l else 0) + acc) 0 ls.
