(* C06 proofs, part 5: conservation - for every ordinary account and denomination, balance + locked amount is constant. *)
From Coq Require Import ZArith List Bool Lia.
Import ListNotations.
From Osmo Require Import C06.Model C06.Proofs C06.ProofsAcc.
Open Scope Z_scope.

Definition co (a dn : Z) (l : lock) : Z :=
  if l_owner l =? a then if l_denom l =? dn then l_amt l else 0 else 0.
(* what account a owns of denomination dn: liquid balance plus the coins of its live locks *)
Definition wealth (s : state) (a dn : Z) : Z := s_bal s a dn + lsum (co a dn) (s_locks s).

Lemma send_in_bal : forall s a0 dn0 amt s', a0 <> module_acc -> send s a0 module_acc dn0 amt = Ok s' ->
  forall a dn, a <> module_acc -> s_bal s' a dn = s_bal s a dn - (if a =? a0 then if dn =? dn0 then amt else 0 else 0).
Proof.
  intros s a0 dn0 amt s' Ha H a dn Hm. unfold send in H. destruct (s_bal s a0 dn0 <? amt); [discriminate|].
  injection H as <-. ssimpl. rewrite (bal_add_other _ module_acc) by (left; assumption).
  unfold bal_add. destruct (a =? a0); [|lia]. destruct (dn =? dn0); lia.
Qed.
Lemma send_out_bal : forall s a0 dn0 amt s', a0 <> module_acc -> send s module_acc a0 dn0 amt = Ok s' ->
  forall a dn, a <> module_acc -> s_bal s' a dn = s_bal s a dn + (if a =? a0 then if dn =? dn0 then amt else 0 else 0).
Proof.
  intros s a0 dn0 amt s' Ha H a dn Hm. unfold send in H. destruct (s_bal s module_acc dn0 <? amt); [discriminate|].
  injection H as <-. ssimpl. unfold bal_add at 1. destruct (a =? a0) eqn:E1.
  - destruct (dn =? dn0); rewrite (bal_add_other _ module_acc) by (left; assumption); lia.
  - rewrite (bal_add_other _ module_acc) by (left; assumption). lia.
Qed.

Ltac cases_eqb :=
  repeat match goal with
  | |- context [if ?b then _ else _] => destruct b eqn:?
  end; zb; try lia.

Section Account.
Variables (a dn : Z).
Hypothesis Ha : a <> module_acc.

Lemma create_lock_wealth : forall dl s o dn0 amt dur s',
  Inv0d dl s -> o <> module_acc -> create_lock s o dn0 amt dur = Ok s' -> wealth s' a dn = wealth s a dn.
Proof.
  intros dl s o dn0 amt dur s' I Ho H. unfold create_lock, bind in H. mon H. injection H as <-. rename a0 into s1.
  destruct (send_fields _ _ _ _ _ _ E) as [F1 [F2 _]]. pose proof (send_in_bal _ _ _ _ _ Ho E a dn Ha) as B.
  apply add_lock_refs_core in E0. destruct E0 as [refs ->].
  destruct (lock_internal_core s1 (new_period_lock (s_last s1 + 1) o 0 dur 0 dn0 amt) amt) as [L1 [L2 _]].
  unfold wealth. ssimpl. rewrite L1, L2, lsum_put, B, F1, F2. lsimpl. rewrite (fresh_absent _ _ I). unfold co; lsimpl. cases_eqb.
Qed.

Lemma add_tokens_wealth : forall dl s id o amt s',
  Inv0d dl s -> add_tokens_to_lock_by_id s id o amt = Ok s' -> wealth s' a dn = wealth s a dn.
Proof.
  intros dl s id o amt s' I H. unfold add_tokens_to_lock_by_id, bind in H. mon H. injection H as <-. rename a0 into l, a1 into s1. zb.
  destruct (get_by_id_ok _ _ _ E) as [G [Hin Hid]].
  assert (Ho : o <> module_acc) by (rewrite <- E0; apply (i_own _ _ I); assumption).
  destruct (send_fields _ _ _ _ _ _ E1) as [F1 [F2 _]]. pose proof (send_in_bal _ _ _ _ _ Ho E1 a dn Ha) as B.
  destruct (lock_internal_core s1 (with_amt l (l_amt l + amt)) amt) as [L1 [L2 _]].
  unfold wealth. ssimpl. rewrite L1, L2, lsum_put, B, F1. lsimpl. rewrite Hid, G. unfold co; lsimpl. cases_eqb.
Qed.

Lemma split_lock_wealth : forall dl s l amt force s' l2,
  Inv0d dl s -> get_lock (s_locks s) (l_id l) = Some l -> split_lock s l amt force = Ok (s', l2) -> wealth s' a dn = wealth s a dn.
Proof.
  intros dl s l amt force s' l2 I G H. unfold split_lock in H. mon H. injection H as <- <-.
  unfold wealth. ssimpl. rewrite !lsum_put, get_put. lsimpl. rewrite G.
  destruct (get_lock_In _ _ _ G) as [Hin _]. pose proof (i_ids _ _ I _ Hin).
  destruct (l_id l =? s_last s + 1) eqn:E1; [zb; lia|]. rewrite (fresh_absent _ _ I). unfold co; lsimpl. cases_eqb.
Qed.

Lemma begin_unlock_internal_wealth : forall dl s l dn0 amt s',
  Inv0d dl s -> get_lock (s_locks s) (l_id l) = Some l -> begin_unlock_internal s l dn0 amt = Ok s' -> wealth s' a dn = wealth s a dn.
Proof.
  intros dl s l dn0 amt s' I G H. unfold begin_unlock_internal, bind in H. mon H. rename s0 into s1, l0 into l1.
  assert (K : get_lock (s_locks s1) (l_id l1) = Some l1 /\ wealth s1 a dn = wealth s a dn).
  { destruct (is_partial dn0 amt l).
    - destruct (split_lock_Inv0d _ _ _ _ _ _ _ I G E1) as [_ [G1 _]]. split; [assumption|]. eapply split_lock_wealth; eassumption.
    - injection E1 as <- <-. auto. }
  destruct K as [G1 <-]. apply add_lock_refs_core in H. destruct H as [refs ->].
  unfold wealth. ssimpl. rewrite lsum_put. lsimpl. rewrite G1. unfold co; lsimpl. lia.
Qed.

Lemma begin_unlock_wealth : forall dl s id dn0 amt s',
  Inv0d dl s -> begin_unlock s id dn0 amt = Ok s' -> wealth s' a dn = wealth s a dn.
Proof.
  intros dl s id dn0 amt s' I H. unfold begin_unlock, bind in H. mon H.
  destruct (get_by_id_ok _ _ _ E) as [G [_ Hid]]. rewrite <- Hid in G.
  eapply begin_unlock_internal_wealth; eassumption.
Qed.

Lemma begin_unlock_list_wealth : forall dl ls s s',
  Inv0d dl s -> begin_unlock_list s ls = Ok s' -> wealth s' a dn = wealth s a dn.
Proof.
  induction ls as [|l r IH]; cbn [begin_unlock_list]; intros s s' I H.
  - injection H as <-. reflexivity.
  - unfold bind in H. mon H. destruct (begin_unlock_Inv0d _ _ _ _ _ _ I E) as [I1 _].
    rewrite (IH _ _ I1 H). eapply begin_unlock_wealth; [exact I|exact E].
Qed.

Lemma unlock_internal_wealth : forall dl s l s',
  Inv0d dl s -> get_lock (s_locks s) (l_id l) = Some l -> unlock_internal s l = Ok s' -> wealth s' a dn = wealth s a dn.
Proof.
  intros dl s l s' I G H. unfold unlock_internal, bind in H. mon H. injection H as <-. rename a0 into s1.
  destruct (get_lock_In _ _ _ G) as [Hin _]. pose proof (i_own _ _ I _ Hin) as Ho.
  destruct (send_fields _ _ _ _ _ _ E) as [F1 [F2 _]]. pose proof (send_out_bal _ _ _ _ _ Ho E a dn Ha) as B.
  assert (ND : NoDup (ids (s_locks s1))) by (rewrite F1; apply I).
  unfold wealth. ssimpl. fold (del (s_locks s1) (l_id l)). rewrite lsum_del by assumption. rewrite B, F1, G. unfold co. cases_eqb.
Qed.

Lemma unlock_matured_wealth : forall dl s id s',
  Inv0d dl s -> unlock_matured_lock s id = Ok s' -> wealth s' a dn = wealth s a dn.
Proof.
  intros dl s id s' I H. unfold unlock_matured_lock, bind in H. mon H.
  destruct (get_by_id_ok _ _ _ E) as [G [_ Hid]]. rewrite <- Hid in G.
  eapply unlock_internal_wealth; eassumption.
Qed.

Lemma unlock_list_wealth : forall dl ls s n c s',
  Inv0d dl s -> unlock_list s n c ls = Ok s' -> wealth s' a dn = wealth s a dn.
Proof.
  induction ls as [|l r IH]; cbn [unlock_list]; intros s n c s' I H.
  - injection H as <-. reflexivity.
  - mon H; [injection H as <-; reflexivity|].
    rewrite (IH _ _ _ _ (unlock_matured_Inv0d _ _ _ _ I E0) H). eapply unlock_matured_wealth; [exact I|exact E0].
Qed.

Lemma withdraw_wealth : forall dl s n s',
  Inv0d dl s -> withdraw_matured_locks s n = Ok s' -> wealth s' a dn = wealth s a dn.
Proof.
  intros dl s n s' I H. unfold withdraw_matured_locks, bind in H. mon H. eapply unlock_list_wealth; eassumption.
Qed.

Lemma force_unlock_wealth : forall dl s l s',
  Inv0d dl s -> get_lock (s_locks s) (l_id l) = Some l -> force_unlock s l = Ok s' -> wealth s' a dn = wealth s a dn.
Proof.
  intros dl s l s' I G H. unfold force_unlock, bind in H. mon H. rename a0 into s1, a1 into l'.
  assert (K : Inv0d dl s1 /\ wealth s1 a dn = wealth s a dn).
  { destruct (negb (is_unlocking l)).
    - split; [eapply begin_unlock_Inv0d; eassumption|eapply begin_unlock_wealth; [exact I|exact E]].
    - injection E as <-; auto. }
  destruct K as [I1 <-]. destruct (get_by_id_ok _ _ _ E0) as [G' [_ Hid]]. rewrite <- Hid in G'.
  eapply unlock_internal_wealth; [exact I1|exact G'|exact H].
Qed.

Lemma partial_force_unlock_wealth : forall dl s l dn0 amt s',
  Inv0d dl s -> get_lock (s_locks s) (l_id l) = Some l -> partial_force_unlock s l dn0 amt = Ok s' -> wealth s' a dn = wealth s a dn.
Proof.
  intros dl s l dn0 amt s' I G H. unfold partial_force_unlock, bind in H. mon H. rename s0 into s1, l0 into l1.
  assert (K : Inv0d dl s1 /\ get_lock (s_locks s1) (l_id l1) = Some l1 /\ wealth s1 a dn = wealth s a dn).
  { destruct (is_partial dn0 amt l).
    - destruct (split_lock_Inv0d _ _ _ _ _ _ _ I G E0) as [I1 [G1 _]]. split; [assumption|split; [assumption|]]. eapply split_lock_wealth; eassumption.
    - injection E0 as <- <-. auto. }
  destruct K as [I1 [G1 <-]]. eapply force_unlock_wealth; eassumption.
Qed.

Lemma set_rr_wealth : forall s id o rr s', set_lock_reward_receiver s id o rr = Ok s' -> wealth s' a dn = wealth s a dn.
Proof.
  intros s id o rr s' H. unfold set_lock_reward_receiver, bind in H. mon H. injection H as <-. rename a0 into l.
  destruct (get_by_id_ok _ _ _ E) as [G [_ Hid]].
  unfold wealth. ssimpl. rewrite lsum_put. lsimpl. rewrite Hid, G. unfold co; lsimpl. lia.
Qed.

Lemma extend_wealth : forall s id o dur s', extend_lockup s id o dur = Ok s' -> wealth s' a dn = wealth s a dn.
Proof.
  intros s id o dur s' H. unfold extend_lockup, bind in H. mon H. injection H as <-. rename l into l2. rename a0 into l, s0 into s2, a1 into s3.
  destruct (get_by_id_ok _ _ _ E) as [G [_ Hid]].
  apply add_lock_refs_core in E3. destruct E3 as [refs ->].
  destruct (dur =? 0).
  - injection E2 as <- <-. unfold wealth. ssimpl. rewrite lsum_put, Hid, G. lia.
  - destruct (dur <=? l_dur l); [discriminate|]. injection E2 as <- <-.
    unfold wealth. ssimpl. rewrite lsum_put. lsimpl. rewrite Hid, G. unfold co; lsimpl. lia.
Qed.

Lemma handle_wealth : forall s o s', Inv0 s -> op_sender_ok o -> handle s o = Ok s' -> wealth s' a dn = wealth s a dn.
Proof.
  intros s o s' I W H. unfold Inv0 in *. destruct o; cbn [handle op_sender_ok] in *.
  - unfold msg_lock_tokens, bind in H. mon H.
    + unfold add_to_existing_lock, bind in H. mon H. eapply add_tokens_wealth; eassumption.
    + eapply create_lock_wealth; eassumption.
  - mon H. eapply add_tokens_wealth; eassumption.
  - unfold msg_extend_lockup, bind in H. mon H. injection H as <-. eapply extend_wealth; eassumption.
  - unfold msg_begin_unlocking, bind in H. mon H. eapply begin_unlock_wealth; eassumption.
  - unfold msg_begin_unlocking_all, begin_unlock_all_not_unlockings, bind in H. mon H. eapply begin_unlock_list_wealth; eassumption.
  - eapply unlock_matured_wealth; eassumption.
  - eapply withdraw_wealth; eassumption.
  - unfold end_blocker in H. mon H; [eapply withdraw_wealth; eassumption|injection H as <-; reflexivity].
  - unfold msg_set_reward_receiver in H. mon H. eapply set_rr_wealth; eassumption.
  - unfold msg_force_unlock, bind in H. mon H.
    destruct (get_by_id_ok _ _ _ E1) as [G [_ Hid]]. rewrite <- Hid in G.
    eapply partial_force_unlock_wealth; eassumption.
  - mon H. injection H as <-. reflexivity.
Qed.
End Account.

(* conservation: one step, and along a whole history (there are no transfers other than lock / unlock in a history) *)
Lemma step_conservation : forall s o a dn, Inv0 s -> op_sender_ok o -> a <> module_acc ->
  wealth (fst (step s o)) a dn = wealth s a dn.
Proof.
  intros s o a dn I W Ha. unfold step. destruct (handle s o) eqn:E; cbn [fst]; [|reflexivity].
  eapply handle_wealth; eassumption.
Qed.

Lemma conservation : forall t0 fund allowed ops a dn, Forall op_sender_ok ops -> a <> module_acc ->
  let s := run (init_state t0 fund allowed) ops in
  s_bal s a dn + lsum (co a dn) (s_locks s) = fund a dn.
Proof.
  intros t0 fund allowed ops a dn W Ha s. subst s.
  assert (K : forall ops s, Inv0 s -> Forall op_sender_ok ops -> wealth (run s ops) a dn = wealth s a dn).
  { induction ops0 as [|o r IH]; intros s I W0; [reflexivity|].
    inversion W0; subst. unfold run; cbn [fold_left]. fold (run (fst (step s o)) r).
    rewrite IH by (try apply step_Inv0; assumption). apply step_conservation; assumption. }
  specialize (K ops _ (init_Inv0 t0 fund allowed) W). unfold wealth in K. rewrite K.
  cbn [init_state s_bal s_locks lsum]. destruct (a =? module_acc) eqn:E; [zb; contradiction|]. lia.
Qed.
