(* C06 correspondence glue: run the model on a harness case and flatten its observables exactly the way
   harness/c06drv does; after every operation the observation vector is folded into a 50-bit digest (the driver
   computes the same digest over the implementation's vector), so that the generated case files stay small. *)
From Coq Require Import ZArith List Bool.
Import ListNotations.
From Osmo Require Import Base.Obs C06.Model.
Open Scope Z_scope.

Record qspec := mkQ { q_a : list Z; q_n : list Z; q_d : list Z; q_t : list Z }.

(* operations of a case: the property's operations, plus the maintenance entry point RebuildAccumulationStoreForDenom *)
Inductive xop := XOp (o : op) | XRebuild (dn : Z).
Definition xstep (s : state) (x : xop) : state * Z :=
  match x with
  | XOp o => step s o
  | XRebuild dn => match rebuild_accumulation_store_for_denom s dn with Ok s' => (s', 0) | Err e => (s, err_code e) end
  end.

Record case := mkCase {
  c_t0 : Z;                          (* first block time *)
  c_nd : Z;                          (* denominations 1..c_nd *)
  c_nacc : Z;                        (* accounts 1..c_nacc *)
  c_fund : list (list Z);            (* initial balances: account-major *)
  c_force : list Z;                  (* ForceUnlockAllowedAddresses *)
  c_adurs : list Z;                  (* durations of the accumulation observations *)
  c_glast : Z;                       (* genesis: last lock id *)
  c_gen : list lock;                 (* genesis: locks *)
  c_ops : list (xop * option qspec);
  c_expect : list Z }.               (* per op: result code, digest *)

Definition mask50 : Z := 2 ^ 50 - 1.
Definition mix (h x : Z) : Z := Z.land (h + Z.shiftl h 5 + Z.shiftl h 17 + x + 1) mask50.
Definition digest (l : list Z) : Z := fold_left mix l 0.

Fixpoint zrange_from (lo : Z) (n : nat) : list Z :=
  match n with O => [] | S k => lo :: zrange_from (lo + 1) k end.
Definition zrange (lo hi : Z) : list Z := zrange_from lo (Z.to_nat (hi - lo + 1)).   (* lo..hi inclusive *)

Fixpoint z_insert (x : Z) (l : list Z) : list Z :=
  match l with [] => [x] | y :: r => if x <=? y then x :: l else y :: z_insert x r end.
Definition z_sort (l : list Z) : list Z := fold_right z_insert [] l.

Definition fund_of (tbl : list (list Z)) (a dn : Z) : Z :=
  if (a <=? 0) || (dn <=? 0) then 0 else nth (Z.to_nat (dn - 1)) (nth (Z.to_nat (a - 1)) tbl []) 0.

(* ---- state part *)
Definition flat_lock (s : state) (id : Z) : list Z :=
  match get_lock (s_locks s) id with
  | None => [0]
  | Some l => [1; l_owner l; l_denom l; l_amt l; l_dur l; l_end l; l_rr l; reward_receiver l]
  end.
Definition flat_state (c : case) (s : state) : list Z :=
  let dns := zrange 1 (c_nd c) in
  [s_last s] ++ map (fun n => s_bal s module_acc n) dns
  ++ [Z.of_nat (length (filter (fun n => negb (s_bal s module_acc n =? 0)) dns))]
  ++ flat_map (fun a => map (fun n => s_bal s a n) dns) (zrange 1 (c_nacc c))
  ++ flat_map (flat_lock s) (zrange 1 (s_last s + 1))
  ++ flat_map (fun n => map (fun d => get_period_locks_accumulation s n d) (c_adurs c)) (zrange 0 (c_nd c)).

(* ---- query sweep *)
Definition ids_out (l : list Z) : list Z := Z.of_nat (length l) :: z_sort l.
Definition locks_out (r : result (list lock)) : list Z :=
  match r with Ok ls => ids_out (map l_id ls) | Err _ => [-1] end.
Definition coins_out (c : case) (r : result (list lock)) : list Z :=
  match r with Ok ls => map (coins_of ls) (zrange 1 (c_nd c)) ++ [0] | Err _ => [-1] end.

Record family := mkFam {
  f_u : bool; f_a : bool; f_n : bool; f_d : bool; f_t : bool;
  f_run : case -> state -> bool -> Z -> Z -> Z -> Z -> list Z }.   (* u a n d t *)

Definition families : list family := [
  mkFam false false false false true (fun c s u a n d t => ids_out (it_lock_after_time s t));
  mkFam false false false false true (fun c s u a n d t => ids_out (it_lock_before_time s t));
  mkFam true false false false false (fun c s u a n d t => ids_out (it_lock s u));
  mkFam false false true false true (fun c s u a n d t => ids_out (it_lock_after_time_denom s n t));
  mkFam false false true false true (fun c s u a n d t => ids_out (it_lock_before_time_denom s n t));
  mkFam true false true true false (fun c s u a n d t => ids_out (it_lock_longer_duration_denom s u n d));
  mkFam true false true false false (fun c s u a n d t => ids_out (it_lock_denom s u n));
  mkFam false true false false true (fun c s u a n d t => ids_out (it_acc_after_time s a t));
  mkFam false true false false true (fun c s u a n d t => ids_out (it_acc_before_time s a t));
  mkFam true true false false false (fun c s u a n d t => ids_out (it_acc s u a));
  mkFam false true true false true (fun c s u a n d t => ids_out (it_acc_after_time_denom s a n t));
  mkFam false true true false true (fun c s u a n d t => ids_out (it_acc_before_time_denom s a n t));
  mkFam true true true false false (fun c s u a n d t => ids_out (it_acc_denom s u a n));
  mkFam true true false true false (fun c s u a n d t => ids_out (it_acc_longer_duration s u a d));
  mkFam true true false true false (fun c s u a n d t => ids_out (it_acc_duration s u a d));
  mkFam true true false true false (fun c s u a n d t => ids_out (it_acc_shorter_duration s u a d));
  mkFam true true true true false (fun c s u a n d t => ids_out (it_acc_longer_duration_denom s u a n d));
  mkFam true true true true false (fun c s u a n d t => ids_out (it_acc_duration_denom s u a n d));
  (* store.go *)
  mkFam false true false false false (fun c s u a n d t => coins_out c (q_account_unlockable_coins s a));
  mkFam false true false false false (fun c s u a n d t => coins_out c (q_account_unlocking_coins s a));
  mkFam false true false false false (fun c s u a n d t => coins_out c (q_account_locked_coins s a));
  mkFam false true false false true (fun c s u a n d t => locks_out (q_account_locked_past_time s a t));
  mkFam false true false false true (fun c s u a n d t => locks_out (q_account_locked_past_time_not_unlocking_only s a t));
  mkFam false true false false true (fun c s u a n d t => locks_out (q_account_unlocked_before_time s a t));
  mkFam false true true false true (fun c s u a n d t => locks_out (q_account_locked_past_time_denom s a n t));
  mkFam false true true true false (fun c s u a n d t => locks_out (q_account_locked_duration_not_unlocking_only s a n d));
  mkFam false true false true false (fun c s u a n d t => locks_out (q_account_locked_longer_duration s a d));
  mkFam false true false true false (fun c s u a n d t => locks_out (q_account_locked_duration s a d));
  mkFam false true false true false (fun c s u a n d t => locks_out (q_account_locked_longer_duration_not_unlocking_only s a d));
  mkFam false true true true false (fun c s u a n d t => locks_out (q_account_locked_longer_duration_denom s a n d));
  mkFam false true true true false (fun c s u a n d t => locks_out (q_account_locked_longer_duration_denom_not_unlocking_only s a n d));
  mkFam false false true false true (fun c s u a n d t => locks_out (q_locks_past_time_denom s n t));
  mkFam false false true false false (fun c s u a n d t => locks_out (q_locks_denom s n));
  mkFam false false true true false (fun c s u a n d t => locks_out (q_locks_longer_than_duration_denom s n d));
  mkFam false false false false false (fun c s u a n d t => locks_out (q_period_locks s));
  mkFam false true false false false (fun c s u a n d t => locks_out (q_account_period_locks s a));
  mkFam false false false false false (fun c s u a n d t => coins_out c (q_module_locked_coins s));
  mkFam false true true true false (fun c s u a n d t =>
     match has_lock s a n d with Ok b => [b2z b] | Err _ => [-1] end);
  mkFam false false true true false (fun c s u a n d t => [get_period_locks_accumulation s n d])
].

Definition run_family (c : case) (s : state) (q : qspec) (f : family) : list Z :=
  let us := if f_u f then [false; true] else [false] in
  let as_ := if f_a f then q_a q else [0] in
  let ns := if f_n f then q_n q else [0] in
  let ds := if f_d f then q_d q else [0] in
  let ts := if f_t f then q_t q else [0] in
  flat_map (fun u => flat_map (fun a => flat_map (fun n => flat_map (fun d => flat_map (fun t =>
    f_run f c s u a n d t) ts) ds) ns) as_) us.

Definition sweep (c : case) (s : state) (q : option qspec) : list Z :=
  match q with None => [] | Some q => flat_map (run_family c s q) families end.

Definition flat_obs (c : case) (s : state) (q : option qspec) : list Z :=
  [s_now s] ++ flat_state c s ++ sweep c s q.

Definition init_of (c : case) : state :=
  match genesis_state (c_t0 c) (fund_of (c_fund c)) (c_force c) (c_glast c) (c_gen c) with
  | Ok s => s
  | Err _ => init_state (c_t0 c) (fund_of (c_fund c)) (c_force c)    (* malformed genesis: never generated *)
  end.

(* per operation: result code, digest of the observation vector *)
Fixpoint scan (c : case) (s : state) (ops : list (xop * option qspec)) : list Z :=
  match ops with
  | [] => []
  | (o, q) :: r => let '(s1, code) := xstep s o in code :: digest (flat_obs c s1 q) :: scan c s1 r
  end.
Definition model_obs (c : case) : list Z := scan c (init_of c) (c_ops c).

(* full vectors, for debugging a disagreement *)
Fixpoint scan_full (c : case) (s : state) (ops : list (xop * option qspec)) : list (list Z) :=
  match ops with
  | [] => []
  | (o, q) :: r => let '(s1, code) := xstep s o in (code :: flat_obs c s1 q) :: scan_full c s1 r
  end.
Definition model_full (c : case) : list (list Z) := scan_full c (init_of c) (c_ops c).

(* result codes agree; code 13 of the implementation = "some error the driver could not classify" *)
Definition code_ok (m i : Z) : bool := (m =? i) || ((i =? 13) && negb (m =? 0)).
Fixpoint obs_eqb (m e : list Z) : bool :=
  match m, e with
  | [], [] => true
  | mc :: mh :: m', ec :: eh :: e' => code_ok mc ec && (mh =? eh) && obs_eqb m' e'
  | _, _ => false
  end.
Definition case_ok (c : case) : bool := obs_eqb (model_obs c) (c_expect c).
