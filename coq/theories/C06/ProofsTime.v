(* C06 proofs, part 6: coins leave the module only to a lock's owner and only when the lock has matured. *)
From Coq Require Import ZArith List Bool Lia.
Import ListNotations.
From Osmo Require Import C06.Model C06.Proofs C06.ProofsAcc C06.ProofsRefs C06.ProofsCons.
Open Scope Z_scope.

(* ------------------------------------------------------------------ amounts of live locks are positive *)
Definition amt_pos (s : state) : Prop := forall l, In l (s_locks s) -> 0 < l_amt l.

Lemma amt_pos_put : forall s s' l', amt_pos s -> s_locks s' = put_lock (s_locks s) l' -> 0 < l_amt l' -> amt_pos s'.
Proof. intros s s' l' D HL Hp l Hi. rewrite HL in Hi. apply In_put in Hi. destruct Hi as [->|Hi]; auto. Qed.
Lemma amt_pos_del : forall s s' id, amt_pos s -> s_locks s' = del (s_locks s) id -> amt_pos s'.
Proof. intros s s' id D HL l Hi. rewrite HL in Hi. apply In_del in Hi. apply D; tauto. Qed.
Lemma amt_pos_ext : forall s s', amt_pos s -> s_locks s' = s_locks s -> amt_pos s'.
Proof. intros s s' D HL l Hi. rewrite HL in Hi. auto. Qed.

Lemma partial_bounds : forall dn amt l, 0 <= amt -> all_lte dn amt l = true -> is_partial dn amt l = true -> 0 < amt < l_amt l.
Proof.
  intros dn amt l Ha H1 H2. unfold all_lte, is_partial in *. destruct (amt =? 0) eqn:E0; [discriminate|].
  destruct (dn =? l_denom l); [|discriminate]. zb. lia.
Qed.

Lemma create_lock_amt_pos : forall s o dn amt dur s', amt_pos s -> 0 < amt -> create_lock s o dn amt dur = Ok s' -> amt_pos s'.
Proof.
  intros s o dn amt dur s' D Hd H. unfold create_lock, bind in H. mon H. injection H as <-.
  destruct (send_fields _ _ _ _ _ _ E) as [F1 _]. apply add_lock_refs_core in E0. destruct E0 as [refs ->].
  destruct (lock_internal_core a (new_period_lock (s_last a + 1) o 0 dur 0 dn amt) amt) as [_ [L2 _]].
  eapply amt_pos_put with (s := a); [eapply amt_pos_ext; eassumption|ssimpl; exact L2|lsimpl; assumption].
Qed.

Lemma add_tokens_amt_pos : forall s id o amt s', amt_pos s -> 0 <= amt -> add_tokens_to_lock_by_id s id o amt = Ok s' -> amt_pos s'.
Proof.
  intros s id o amt s' D Ha H. unfold add_tokens_to_lock_by_id, bind in H. mon H. injection H as <-. rename a into l, a0 into s1.
  destruct (get_by_id_ok _ _ _ E) as [G [Hin Hid]]. destruct (send_fields _ _ _ _ _ _ E1) as [F1 _].
  destruct (lock_internal_core s1 (with_amt l (l_amt l + amt)) amt) as [_ [L2 _]].
  eapply amt_pos_put with (s := s1); [eapply amt_pos_ext; eassumption|ssimpl; exact L2|lsimpl; pose proof (D _ Hin); lia].
Qed.

Lemma split_lock_amt_pos : forall s l amt force s' l2, amt_pos s -> 0 < amt < l_amt l -> split_lock s l amt force = Ok (s', l2) -> amt_pos s'.
Proof.
  intros s l amt force s' l2 D Hb H. unfold split_lock in H. mon H. injection H as <- <-.
  eapply amt_pos_put with (s := set_last (set_lock s (with_amt l (l_amt l - amt))) (s_last s + 1)); [|reflexivity|lsimpl; lia].
  eapply amt_pos_put with (s := s); [assumption|reflexivity|lsimpl; lia].
Qed.

Lemma begin_unlock_internal_amt_pos : forall dl s l dn amt s',
  Inv0d dl s -> amt_pos s -> 0 <= amt -> get_lock (s_locks s) (l_id l) = Some l -> begin_unlock_internal s l dn amt = Ok s' -> amt_pos s'.
Proof.
  intros dl s l dn amt s' I D Ha G H. unfold begin_unlock_internal, bind in H. mon H. rename s0 into s1, l0 into l1. zb.
  destruct (get_lock_In _ _ _ G) as [Hin _].
  assert (K : amt_pos s1 /\ In l1 (s_locks s1)).
  { destruct (is_partial dn amt l) eqn:P.
    - destruct (split_lock_Inv0d _ _ _ _ _ _ _ I G E1) as [_ [G1 _]]. split; [|apply get_lock_In in G1; tauto].
      eapply split_lock_amt_pos; [exact D| |exact E1]. apply (partial_bounds dn); assumption.
    - injection E1 as <- <-. auto. }
  destruct K as [D1 Hin1]. apply add_lock_refs_core in H. destruct H as [refs ->].
  eapply amt_pos_put with (s := s1); [assumption|reflexivity|lsimpl; auto].
Qed.

Lemma begin_unlock_amt_pos : forall dl s id dn amt s', Inv0d dl s -> amt_pos s -> 0 <= amt -> begin_unlock s id dn amt = Ok s' -> amt_pos s'.
Proof.
  intros dl s id dn amt s' I D Ha H. unfold begin_unlock, bind in H. mon H.
  destruct (get_by_id_ok _ _ _ E) as [G [_ Hid]]. rewrite <- Hid in G.
  eapply begin_unlock_internal_amt_pos; eassumption.
Qed.

Lemma begin_unlock_list_amt_pos : forall dl ls s s', Inv0d dl s -> amt_pos s -> begin_unlock_list s ls = Ok s' -> amt_pos s'.
Proof.
  induction ls as [|l r IH]; cbn [begin_unlock_list]; intros s s' I D H.
  - injection H as <-. assumption.
  - unfold bind in H. mon H. destruct (begin_unlock_Inv0d _ _ _ _ _ _ I E) as [I1 _].
    eapply IH; [exact I1| |exact H]. eapply begin_unlock_amt_pos with (amt := 0); [exact I|exact D|lia|exact E].
Qed.

Lemma unlock_internal_amt_pos : forall s l s', amt_pos s -> unlock_internal s l = Ok s' -> amt_pos s'.
Proof.
  intros s l s' D H. unfold unlock_internal, bind in H. mon H. injection H as <-.
  destruct (send_fields _ _ _ _ _ _ E) as [F1 _].
  eapply amt_pos_del with (s := a) (id := l_id l); [eapply amt_pos_ext; eassumption|reflexivity].
Qed.
Lemma unlock_matured_amt_pos : forall s id s', amt_pos s -> unlock_matured_lock s id = Ok s' -> amt_pos s'.
Proof. intros s id s' D H. unfold unlock_matured_lock, bind in H. mon H. eapply unlock_internal_amt_pos; eassumption. Qed.
Lemma unlock_list_amt_pos : forall ls s n c s', amt_pos s -> unlock_list s n c ls = Ok s' -> amt_pos s'.
Proof.
  induction ls as [|l r IH]; cbn [unlock_list]; intros s n c s' D H.
  - injection H as <-. assumption.
  - mon H; [injection H as <-; assumption|]. eapply IH; [|exact H]. eapply unlock_matured_amt_pos; eassumption.
Qed.

Lemma partial_force_unlock_amt_pos : forall dl s l dn amt s',
  Inv0d dl s -> amt_pos s -> 0 <= amt -> get_lock (s_locks s) (l_id l) = Some l -> partial_force_unlock s l dn amt = Ok s' -> amt_pos s'.
Proof.
  intros dl s l dn amt s' I D Ha G H. unfold partial_force_unlock, bind in H. mon H. rename s0 into s1, l0 into l1. zb.
  assert (K : Inv0d dl s1 /\ amt_pos s1).
  { destruct (is_partial dn amt l) eqn:P.
    - destruct (split_lock_Inv0d _ _ _ _ _ _ _ I G E0) as [I1 _]. split; [assumption|].
      eapply split_lock_amt_pos; [exact D| |exact E0]. apply (partial_bounds dn); assumption.
    - injection E0 as <- <-. auto. }
  destruct K as [I1 D1]. unfold force_unlock, bind in H. mon H.
  assert (D2 : amt_pos a).
  { destruct (negb (is_unlocking l1)); [eapply begin_unlock_amt_pos with (amt := 0); [exact I1|exact D1|lia|exact E1]|injection E1 as <-; assumption]. }
  eapply unlock_internal_amt_pos; eassumption.
Qed.

Lemma extend_amt_pos : forall s id o dur s', amt_pos s -> extend_lockup s id o dur = Ok s' -> amt_pos s'.
Proof.
  intros s id o dur s' D H. unfold extend_lockup, bind in H. mon H. injection H as <-. rename l into l2. rename a into l, s0 into s2, a0 into s3.
  destruct (get_by_id_ok _ _ _ E) as [G [Hin Hid]]. apply add_lock_refs_core in E3. destruct E3 as [refs ->].
  assert (K : s_locks s2 = s_locks s /\ l_amt l2 = l_amt l).
  { destruct (dur =? 0); [injection E2 as <- <-; split; reflexivity|].
    destruct (dur <=? l_dur l) eqn:Ed; [discriminate|]. injection E2 as <- <-. split; reflexivity. }
  destruct K as [K1 K2]. eapply amt_pos_put with (s := s2); [eapply amt_pos_ext; eassumption|reflexivity|rewrite K2; auto].
Qed.

Lemma set_rr_amt_pos : forall s id o rr s', amt_pos s -> set_lock_reward_receiver s id o rr = Ok s' -> amt_pos s'.
Proof.
  intros s id o rr s' D H. unfold set_lock_reward_receiver, bind in H. mon H. injection H as <-.
  destruct (get_by_id_ok _ _ _ E) as [G [Hin Hid]].
  eapply amt_pos_put with (s := s); [assumption|reflexivity|lsimpl; auto].
Qed.

Lemma handle_amt_pos : forall s o s', Inv0 s -> amt_pos s -> handle s o = Ok s' -> amt_pos s'.
Proof.
  intros s o s' I D H. unfold Inv0 in *. destruct o; cbn [handle] in *.
  - unfold msg_lock_tokens, bind in H. mon H; zb.
    + unfold add_to_existing_lock, bind in H. mon H. eapply add_tokens_amt_pos with (amt := amt); [exact D|lia|exact H].
    + eapply create_lock_amt_pos with (amt := amt); [exact D|lia|exact H].
  - mon H. zb. eapply add_tokens_amt_pos; eassumption.
  - unfold msg_extend_lockup, bind in H. mon H. injection H as <-. eapply extend_amt_pos; eassumption.
  - unfold msg_begin_unlocking, bind in H. mon H. zb. eapply begin_unlock_amt_pos; eassumption.
  - unfold msg_begin_unlocking_all, begin_unlock_all_not_unlockings, bind in H. mon H. eapply begin_unlock_list_amt_pos; eassumption.
  - eapply unlock_matured_amt_pos; eassumption.
  - unfold withdraw_matured_locks, bind in H. mon H. eapply unlock_list_amt_pos; eassumption.
  - unfold end_blocker in H. mon H; [|injection H as <-; assumption].
    unfold withdraw_matured_locks, bind in H. mon H. eapply unlock_list_amt_pos; eassumption.
  - unfold msg_set_reward_receiver in H. mon H. eapply set_rr_amt_pos; eassumption.
  - unfold msg_force_unlock, bind in H. mon H. zb.
    destruct (get_by_id_ok _ _ _ E1) as [G [_ Hid]]. rewrite <- Hid in G.
    eapply partial_force_unlock_amt_pos; eassumption.
  - mon H. injection H as <-. assumption.
Qed.

(* ------------------------------------------------------------------ the not-yet-matured locked amount never shrinks *)
Definition matured_b (now : Z) (l : lock) : bool := if is_unlocking l then l_end l <=? now else false.
(* contribution of a lock to "coins of account a, denomination dn, locked and not yet matured at time now" *)
Definition um (a dn now : Z) (l : lock) : Z :=
  if l_owner l =? a then if l_denom l =? dn then if matured_b now l then 0 else l_amt l else 0 else 0.
Definition mt (a dn now : Z) (l : lock) : Z :=
  if l_owner l =? a then if l_denom l =? dn then if matured_b now l then l_amt l else 0 else 0 else 0.

Ltac cases_eqb :=
  repeat match goal with
  | |- context [if ?b then _ else _] => destruct b eqn:?
  end; zb; try lia.

Section Unmatured.
Variables (a dn now : Z).
Definition U (s : state) : Z := lsum (um a dn now) (s_locks s).

Lemma create_lock_U : forall dl s o dn0 amt dur s',
  Inv0d dl s -> 0 <= amt -> create_lock s o dn0 amt dur = Ok s' -> U s <= U s'.
Proof.
  intros dl s o dn0 amt dur s' I Ha H. unfold create_lock, bind in H. mon H. injection H as <-. rename a0 into s1.
  destruct (send_fields _ _ _ _ _ _ E) as [F1 [F2 _]]. apply add_lock_refs_core in E0. destruct E0 as [refs ->].
  destruct (lock_internal_core s1 (new_period_lock (s_last s1 + 1) o 0 dur 0 dn0 amt) amt) as [_ [L2 _]].
  unfold U. ssimpl. rewrite L2, lsum_put, F1, F2. lsimpl. rewrite (fresh_absent _ _ I). unfold um, matured_b, is_unlocking; lsimpl. cases_eqb.
Qed.

Lemma add_tokens_U : forall s id o amt s', 0 <= amt -> add_tokens_to_lock_by_id s id o amt = Ok s' -> U s <= U s'.
Proof.
  intros s id o amt s' Ha H. unfold add_tokens_to_lock_by_id, bind in H. mon H. injection H as <-. rename a0 into l, a1 into s1.
  destruct (get_by_id_ok _ _ _ E) as [G [Hin Hid]]. destruct (send_fields _ _ _ _ _ _ E1) as [F1 _].
  destruct (lock_internal_core s1 (with_amt l (l_amt l + amt)) amt) as [_ [L2 _]].
  unfold U. ssimpl. rewrite L2, lsum_put, F1. lsimpl. rewrite Hid, G. unfold um, matured_b, is_unlocking; lsimpl. cases_eqb.
Qed.

Lemma split_lock_U : forall dl s l amt force s' l2,
  Inv0d dl s -> get_lock (s_locks s) (l_id l) = Some l -> split_lock s l amt force = Ok (s', l2) -> U s' = U s.
Proof.
  intros dl s l amt force s' l2 I G H. unfold split_lock in H. mon H. injection H as <- <-.
  unfold U. ssimpl. rewrite !lsum_put, get_put. lsimpl. rewrite G.
  destruct (get_lock_In _ _ _ G) as [Hin _]. pose proof (i_ids _ _ I _ Hin).
  destruct (l_id l =? s_last s + 1) eqn:E1; [zb; lia|]. rewrite (fresh_absent _ _ I).
  unfold um, matured_b, is_unlocking; lsimpl. cases_eqb.
Qed.

Lemma split_lock_dur : forall s l amt force s' l2, split_lock s l amt force = Ok (s', l2) -> l_dur l2 = l_dur l /\ s_now s' = s_now s.
Proof. intros s l amt force s' l2 H. unfold split_lock in H. mon H. injection H as <- <-. split; reflexivity. Qed.

Lemma um_begin : forall l, is_unlocking l = false -> 0 < l_dur l -> um a dn now (with_end l (now + l_dur l)) = um a dn now l.
Proof.
  intros l Hu Hd. unfold um, matured_b. rewrite Hu. lsimpl.
  destruct (is_unlocking (with_end l (now + l_dur l))); [|reflexivity].
  rewrite (proj2 (Z.leb_gt _ _)) by lia. reflexivity.
Qed.

Lemma begin_unlock_internal_U : forall dl s l dn0 amt s',
  Inv0d dl s -> s_now s = now -> 0 < l_dur l -> get_lock (s_locks s) (l_id l) = Some l ->
  begin_unlock_internal s l dn0 amt = Ok s' -> U s <= U s'.
Proof.
  intros dl s l dn0 amt s' I Hn Hd G H. unfold begin_unlock_internal, bind in H. mon H. rename s0 into s1, l0 into l1.
  assert (K : get_lock (s_locks s1) (l_id l1) = Some l1 /\ U s1 = U s /\ l_dur l1 = l_dur l /\ is_unlocking l1 = false).
  { destruct (is_partial dn0 amt l).
    - destruct (split_lock_Inv0d _ _ _ _ _ _ _ I G E1) as [_ [G1 [_ [_ [_ [_ [_ K4]]]]]]].
      split; [assumption|split; [eapply split_lock_U; eassumption|split; [eapply split_lock_dur; eassumption|]]].
      unfold is_unlocking in *. rewrite K4. assumption.
    - injection E1 as <- <-. auto. }
  destruct K as [G1 [<- [Hd1 U1]]]. apply add_lock_refs_core in H. destruct H as [refs ->].
  unfold U. ssimpl. rewrite lsum_put. lsimpl. rewrite G1, Hn, um_begin by (assumption || lia). lia.
Qed.

Lemma begin_unlock_U : forall dl s id dn0 amt s',
  Inv0d dl s -> dur_pos s -> s_now s = now -> begin_unlock s id dn0 amt = Ok s' -> U s <= U s'.
Proof.
  intros dl s id dn0 amt s' I D Hn H. unfold begin_unlock, bind in H. mon H.
  destruct (get_by_id_ok _ _ _ E) as [G [Hin Hid]]. rewrite <- Hid in G.
  eapply begin_unlock_internal_U; try eassumption. apply D; assumption.
Qed.

Lemma begin_unlock_list_U : forall dl ls s s',
  Inv0d dl s -> dur_pos s -> s_now s = now -> begin_unlock_list s ls = Ok s' -> U s <= U s'.
Proof.
  induction ls as [|l r IH]; cbn [begin_unlock_list]; intros s s' I D Hn H.
  - injection H as <-. lia.
  - unfold bind in H. mon H. destruct (begin_unlock_Inv0d _ _ _ _ _ _ I E) as [I1 _].
    pose proof (begin_unlock_U _ _ _ _ _ _ I D Hn E).
    assert (U a0 <= U s'); [|lia]. eapply IH; [exact I1| | |exact H].
    + eapply begin_unlock_dur_pos; [exact I|exact D|exact E].
    + destruct (begin_unlock_frame _ _ _ _ _ E). congruence.
Qed.

Lemma unlock_internal_U : forall dl s l s',
  Inv0d dl s -> get_lock (s_locks s) (l_id l) = Some l -> (matured_b now l = true \/ l_owner l <> a) ->
  unlock_internal s l = Ok s' -> U s' = U s.
Proof.
  intros dl s l s' I G Hm H. unfold unlock_internal, bind in H. mon H. injection H as <-. rename a0 into s1.
  destruct (send_fields _ _ _ _ _ _ E) as [F1 _].
  assert (ND : NoDup (ids (s_locks s1))) by (rewrite F1; apply I).
  unfold U. ssimpl. fold (del (s_locks s1) (l_id l)). rewrite lsum_del by assumption. rewrite F1, G.
  unfold um. destruct Hm as [->|Hm]; cases_eqb.
Qed.

Lemma unlock_matured_U : forall dl s id s', Inv0d dl s -> s_now s = now -> unlock_matured_lock s id = Ok s' -> U s' = U s.
Proof.
  intros dl s id s' I Hn H. unfold unlock_matured_lock, bind in H. mon H. zb.
  destruct (get_by_id_ok _ _ _ E) as [G [_ Hid]]. rewrite <- Hid in G.
  eapply unlock_internal_U; [exact I|exact G| |exact H]. left. unfold matured_b. rewrite E0. apply Z.leb_le. lia.
Qed.

Lemma unlock_list_U : forall dl ls s n c s', Inv0d dl s -> s_now s = now -> unlock_list s n c ls = Ok s' -> U s' = U s.
Proof.
  induction ls as [|l r IH]; cbn [unlock_list]; intros s n c s' I Hn H.
  - injection H as <-. reflexivity.
  - mon H; [injection H as <-; reflexivity|].
    assert (Hn1 : s_now a0 = now) by (destruct (unlock_matured_frame _ _ _ E0); congruence).
    rewrite (IH _ _ _ _ (unlock_matured_Inv0d _ _ _ _ I E0) Hn1 H). eapply unlock_matured_U; eassumption.
Qed.

Lemma force_unlock_U : forall dl s l s',
  Inv0d dl s -> dur_pos s -> s_now s = now -> get_lock (s_locks s) (l_id l) = Some l -> l_owner l <> a ->
  force_unlock s l = Ok s' -> U s <= U s'.
Proof.
  intros dl s l s' I D Hn G Ho H. unfold force_unlock, bind in H. mon H. rename a0 into s1, a1 into l'.
  destruct (get_by_id_ok _ _ _ E0) as [G' [_ Hid]]. rewrite <- Hid in G'.
  destruct (is_unlocking l) eqn:Ul; cbn [negb] in E.
  - injection E as <-. rewrite Hid, G in G'. injection G' as <-.
    rewrite (unlock_internal_U _ _ _ _ I G (or_intror Ho) H). lia.
  - pose proof (begin_unlock_U _ _ _ _ _ _ I D Hn E). destruct (begin_unlock_Inv0d _ _ _ _ _ _ I E) as [I1 _].
    pose proof (begin_unlock_full_get _ _ _ _ G E) as G1. rewrite Hid, G1 in G'. injection G' as <-.
    assert (Ho' : l_owner (with_end l (s_now s + l_dur l)) <> a) by (lsimpl; exact Ho).
    rewrite (unlock_internal_U _ _ (with_end l (s_now s + l_dur l)) _ I1 G1 (or_intror Ho') H). lia.
Qed.

Lemma partial_force_unlock_U : forall dl s l dn0 amt s',
  Inv0d dl s -> dur_pos s -> s_now s = now -> get_lock (s_locks s) (l_id l) = Some l -> l_owner l <> a ->
  partial_force_unlock s l dn0 amt = Ok s' -> U s <= U s'.
Proof.
  intros dl s l dn0 amt s' I D Hn G Ho H. unfold partial_force_unlock, bind in H. mon H. rename s0 into s1, l0 into l1.
  destruct (is_partial dn0 amt l).
  - destruct (split_lock_Inv0d _ _ _ _ _ _ _ I G E0) as [I1 [G1 [_ [_ [_ [K1 _]]]]]].
    rewrite <- (split_lock_U _ _ _ _ _ _ _ I G E0). destruct (get_lock_In _ _ _ G) as [Hin _].
    eapply force_unlock_U; [exact I1| | |exact G1|congruence|exact H].
    + eapply split_lock_dur_pos; eassumption.
    + destruct (split_lock_dur _ _ _ _ _ _ E0). congruence.
  - injection E0 as <- <-. eapply force_unlock_U; eassumption.
Qed.

Lemma set_rr_U : forall s id o rr s', set_lock_reward_receiver s id o rr = Ok s' -> U s' = U s.
Proof.
  intros s id o rr s' H. unfold set_lock_reward_receiver, bind in H. mon H. injection H as <-. rename a0 into l.
  destruct (get_by_id_ok _ _ _ E) as [G [_ Hid]].
  unfold U. ssimpl. rewrite lsum_put. lsimpl. rewrite Hid, G. unfold um, matured_b, is_unlocking; lsimpl. lia.
Qed.

Lemma extend_U : forall s id o dur s', extend_lockup s id o dur = Ok s' -> U s' = U s.
Proof.
  intros s id o dur s' H. unfold extend_lockup, bind in H. mon H. injection H as <-. rename l into l2. rename a0 into l, s0 into s2, a1 into s3.
  destruct (get_by_id_ok _ _ _ E) as [G [_ Hid]].
  apply add_lock_refs_core in E3. destruct E3 as [refs ->].
  destruct (dur =? 0).
  - injection E2 as <- <-. unfold U. ssimpl. rewrite lsum_put, Hid, G. lia.
  - destruct (dur <=? l_dur l); [discriminate|]. injection E2 as <- <-.
    unfold U. ssimpl. rewrite lsum_put. lsimpl. rewrite Hid, G. unfold um, matured_b, is_unlocking; lsimpl. lia.
Qed.

(* every operation other than a block-time advance, and other than a force-unlock by account a itself *)
Lemma handle_U : forall s o s', Inv0 s -> dur_pos s -> s_now s = now ->
  (forall t, o <> OTime t) -> (forall id dn0 amt, o <> OForce a id dn0 amt) -> handle s o = Ok s' -> U s <= U s'.
Proof.
  intros s o s' I D Hn NT NF H. unfold Inv0 in *. destruct o; cbn [handle] in *.
  - unfold msg_lock_tokens, bind in H. mon H; zb.
    + unfold add_to_existing_lock, bind in H. mon H. eapply add_tokens_U with (amt := amt); [lia|exact H].
    + eapply create_lock_U with (amt := amt); [exact I|lia|exact H].
  - mon H. zb. eapply add_tokens_U; eassumption.
  - unfold msg_extend_lockup, bind in H. mon H. injection H as <-. rewrite (extend_U _ _ _ _ _ E1). lia.
  - unfold msg_begin_unlocking, bind in H. mon H. eapply begin_unlock_U; eassumption.
  - unfold msg_begin_unlocking_all, begin_unlock_all_not_unlockings, bind in H. mon H. eapply begin_unlock_list_U; eassumption.
  - rewrite (unlock_matured_U _ _ _ _ I Hn H). lia.
  - unfold withdraw_matured_locks, bind in H. mon H. rewrite (unlock_list_U _ _ _ _ _ _ I Hn H). lia.
  - unfold end_blocker in H. mon H; [|injection H as <-; lia].
    unfold withdraw_matured_locks, bind in H. mon H. rewrite (unlock_list_U _ _ _ _ _ _ I Hn H). lia.
  - unfold msg_set_reward_receiver in H. mon H. rewrite (set_rr_U _ _ _ _ _ H). lia.
  - unfold msg_force_unlock, bind in H. mon H. zb.
    destruct (get_by_id_ok _ _ _ E1) as [G [_ Hid]]. rewrite <- Hid in G.
    eapply partial_force_unlock_U; [exact I|exact D|exact Hn|exact G| |exact H].
    intros Ho. apply (NF id dn0 amt). congruence.
  - exfalso. apply (NT t). reflexivity.
Qed.
End Unmatured.

(* ------------------------------------------------------------------ not early, only to the owner *)
Lemma lsum_add : forall f g ls, lsum (fun l => f l + g l) ls = lsum f ls + lsum g ls.
Proof. induction ls; cbn [lsum]; lia. Qed.
Lemma lsum_ext : forall f g ls, (forall l, f l = g l) -> lsum f ls = lsum g ls.
Proof. intros f g ls H. induction ls; cbn [lsum]; [reflexivity|]. rewrite H, IHls. reflexivity. Qed.
Lemma lsum_nonneg : forall f ls, (forall l, In l ls -> 0 <= f l) -> 0 <= lsum f ls.
Proof.
  induction ls as [|x r IH]; cbn [lsum]; intros H; [lia|].
  pose proof (H x (or_introl eq_refl)). assert (0 <= lsum f r) by (apply IH; intros; apply H; right; assumption). lia.
Qed.

Lemma co_split : forall a dn now ls, lsum (co a dn) ls = lsum (um a dn now) ls + lsum (mt a dn now) ls.
Proof.
  intros. rewrite <- lsum_add. apply lsum_ext. intros l. unfold co, um, mt.
  destruct (l_owner l =? a); [|lia]. destruct (l_denom l =? dn); [|lia]. destruct (matured_b now l); lia.
Qed.

Lemma mt_nonneg : forall a dn now s, amt_pos s -> 0 <= lsum (mt a dn now) (s_locks s).
Proof.
  intros a dn now s D. apply lsum_nonneg. intros l Hin. pose proof (D _ Hin). unfold mt.
  destruct (l_owner l =? a); [|lia]. destruct (l_denom l =? dn); [|lia]. destruct (matured_b now l); lia.
Qed.

(* the coins of account a, denomination dn, in locks that have matured by block time [s_now s] *)
Definition matured_amount (s : state) (a dn : Z) : Z := lsum (mt a dn (s_now s)) (s_locks s).

(* in one operation - any operation except a force-unlock sent by a itself - account a's balance grows by at most the coins
   of a's own locks that are unlocking and whose end time has passed *)
Lemma step_not_early : forall s o a dn, Inv s -> amt_pos s -> op_sender_ok o -> a <> module_acc ->
  (forall id dn0 amt, o <> OForce a id dn0 amt) ->
  s_bal (fst (step s o)) a dn <= s_bal s a dn + matured_amount s a dn.
Proof.
  intros s o a dn I D W Ha NF. pose proof (mt_nonneg a dn (s_now s) s D) as M0. unfold matured_amount.
  unfold step. destruct (handle s o) as [s'|e] eqn:E; cbn [fst]; [|lia].
  assert (NTcase : (exists t, o = OTime t) \/ (forall t, o <> OTime t)) by (destruct o; try (right; intros; discriminate); left; eauto).
  destruct NTcase as [[t ->]|NT].
  - cbn [handle] in E. mon E. injection E as <-. ssimpl. lia.
  - pose proof (handle_wealth a dn Ha _ _ _ (inv0 _ I) W E) as C.
    pose proof (handle_U a dn (s_now s) _ _ _ (inv0 _ I) (inv_dur _ I) eq_refl NT NF E) as Um.
    pose proof (mt_nonneg a dn (s_now s) s' (handle_amt_pos _ _ _ (inv0 _ I) D E)) as M1.
    unfold wealth in C. rewrite (co_split a dn (s_now s) (s_locks s')), (co_split a dn (s_now s) (s_locks s)) in C.
    unfold U in Um. lia.
Qed.

(* a force-unlock succeeds only for the owner of the lock, and only if the owner is on the allowed list *)
Lemma force_only_allowed : forall s a id dn amt s', handle s (OForce a id dn amt) = Ok s' ->
  In a (s_allowed s) /\ exists l, get_lock (s_locks s) id = Some l /\ l_owner l = a.
Proof.
  intros s a id dn amt s' H. cbn [handle] in H. unfold msg_force_unlock, bind in H. mon H. zb.
  destruct (get_by_id_ok _ _ _ E1) as [G _]. split; [|eauto].
  apply existsb_exists in E3. destruct E3 as [x [Hx Ex]]. zb. subst. assumption.
Qed.

(* UnlockMaturedLock is refused before the end time *)
Lemma unlock_refused_early : forall s id l, get_lock (s_locks s) id = Some l -> s_now s < l_end l ->
  exists e, unlock_matured_lock s id = Err e.
Proof.
  intros s id l G Hlt. unfold unlock_matured_lock, get_lock_by_id, bind. rewrite G.
  destruct (negb (is_unlocking l)); [eauto|]. rewrite (proj2 (Z.ltb_lt _ _) Hlt). eauto.
Qed.

(* ------------------------------------------------------------------ begin-unlock: end time and split *)
(* MsgBeginUnlocking with the whole amount (or no coins): the lock keeps its id and coins, end time = block time + duration *)
Lemma begin_full_spec : forall s o id dn amt s' l,
  msg_begin_unlocking s o id dn amt = Ok s' -> get_lock (s_locks s) id = Some l -> is_partial dn amt l = false ->
  l_owner l = o /\ is_unlocking l = false /\ s_last s' = s_last s /\ s_bal s' = s_bal s /\
  forall i, get_lock (s_locks s') i = if id =? i then Some (with_end l (s_now s + l_dur l)) else get_lock (s_locks s) i.
Proof.
  intros s o id dn amt s' l H G P. unfold msg_begin_unlocking, bind in H. mon H. zb.
  destruct (get_by_id_ok _ _ _ E1) as [G1 [_ Hid]]. rewrite G in G1. injection G1 as <-.
  unfold begin_unlock, get_lock_by_id, bind in H. rewrite Hid, G in H.
  unfold begin_unlock_internal, bind in H. rewrite P in H. mon H.
  apply add_lock_refs_core in H. destruct H as [refs ->]. ssimpl.
  repeat (split; [solve [reflexivity|assumption]|]).
  intros i. rewrite get_put. lsimpl. rewrite Hid. reflexivity.
Qed.

(* MsgBeginUnlocking with part of the coins: the lock is split - the old id keeps owner, duration and the remaining coins and stays
   locked; a fresh id (lastLockID + 1, not in use) gets the requested coins, same owner and duration, end time = block time + duration *)
Lemma split_preserves : forall s o id dn amt s' l, Inv0 s ->
  msg_begin_unlocking s o id dn amt = Ok s' -> get_lock (s_locks s) id = Some l -> is_partial dn amt l = true ->
  let id2 := s_last s + 1 in
  let rest := with_amt l (l_amt l - amt) in
  let part := mkLock id2 (l_owner l) (l_denom l) amt (l_dur l) (s_now s + l_dur l) (norm_rr (l_owner l) (l_rr l)) in
  l_owner l = o /\ is_unlocking l = false /\ 0 < amt < l_amt l /\ l_amt rest + l_amt part = l_amt l /\
  get_lock (s_locks s) id2 = None /\ s_last s' = id2 /\ s_bal s' = s_bal s /\
  forall i, get_lock (s_locks s') i = if id2 =? i then Some part else if id =? i then Some rest else get_lock (s_locks s) i.
Proof.
  intros s o id dn amt s' l I H G P id2 rest part. unfold msg_begin_unlocking, bind in H. mon H. zb.
  destruct (get_by_id_ok _ _ _ E1) as [G1 [_ Hid]]. rewrite G in G1. injection G1 as <-.
  unfold begin_unlock, get_lock_by_id, bind in H. rewrite Hid, G in H.
  unfold begin_unlock_internal, bind in H. rewrite P in H. mon H. zb.
  unfold split_lock in E5. rewrite E4 in E5. cbn in E5. injection E5 as <- <-.
  apply add_lock_refs_core in H. destruct H as [refs ->]. ssimpl. lsimpl.
  pose proof (partial_bounds dn amt l E0 E3 P) as Hb.
  repeat (split; [solve [reflexivity|assumption|subst rest part; lsimpl; lia|apply (fresh_absent _ _ I)]|]).
  intros i. rewrite !get_put. lsimpl. subst id2 rest part. unfold is_unlocking in E4. zb. rewrite E4, Hid.
  destruct (s_last s + 1 =? i); reflexivity.
Qed.

(* ------------------------------------------------------------------ along histories *)
Lemma run_amt_pos : forall ops s, Inv0 s -> amt_pos s -> Forall op_sender_ok ops -> amt_pos (run s ops).
Proof.
  induction ops as [|o r IH]; intros s I D W; [assumption|].
  inversion W; subst. unfold run; cbn [fold_left]. fold (run (fst (step s o)) r).
  apply IH; [apply step_Inv0; assumption| |assumption].
  unfold step. destruct (handle s o) eqn:E; cbn [fst]; [|assumption]. eapply handle_amt_pos; eassumption.
Qed.

Lemma not_early : forall t0 fund allowed ops o a dn, 0 < t0 -> Forall op_sender_ok ops -> op_sender_ok o ->
  a <> module_acc -> (forall id dn0 amt, o <> OForce a id dn0 amt) ->
  let s := reachable t0 fund allowed ops in
  s_bal (fst (step s o)) a dn <= s_bal s a dn + matured_amount s a dn.
Proof.
  intros t0 fund allowed ops o a dn Ht W Wo Ha NF s. apply step_not_early; try assumption.
  - apply reachable_Inv; assumption.
  - apply run_amt_pos; [apply init_Inv0|intros l []|assumption].
Qed.
