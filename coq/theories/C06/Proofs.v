(* C06 proofs, part 1: the lock table as a finite map, sums over it, and the first invariant
   (ids unique and bounded by lastLockID, module balance = sum of the live locks' coins). *)
From Coq Require Import ZArith List Bool Lia.
Import ListNotations.
From Osmo Require Import C06.Model.
Open Scope Z_scope.

(* ------------------------------------------------------------------ generic tactics *)
Ltac mon H :=
  repeat match type of H with
  | (let '(a, b) := ?p in _) = Ok _ => destruct p
  | match ?x with _ => _ end = Ok _ => let E := fresh "E" in destruct x eqn:E; try discriminate H
  | Err _ = Ok _ => discriminate H
  end.

Ltac ssimpl :=
  cbn [s_now s_bal s_locks s_last s_refs s_acc s_allowed set_now set_bal set_locks set_last set_refs set_acc
       set_lock delete_lock inc_acc dec_acc delete_lock_refs] in *.

Ltac lsimpl :=
  cbn [with_amt with_dur with_end with_rr new_period_lock l_id l_owner l_denom l_amt l_dur l_end l_rr] in *.

Ltac zb :=
  repeat match goal with
  | H : (_ =? _) = true |- _ => apply Z.eqb_eq in H
  | H : (_ =? _) = false |- _ => apply Z.eqb_neq in H
  | H : (_ <? _) = true |- _ => apply Z.ltb_lt in H
  | H : (_ <? _) = false |- _ => apply Z.ltb_ge in H
  | H : (_ <=? _) = true |- _ => apply Z.leb_le in H
  | H : (_ <=? _) = false |- _ => apply Z.leb_gt in H
  | H : negb _ = true |- _ => apply negb_true_iff in H
  | H : negb _ = false |- _ => apply negb_false_iff in H
  end.

(* ------------------------------------------------------------------ the lock table as a finite map *)
Definition ids (ls : list lock) : list Z := map l_id ls.
Definition del (ls : list lock) (id : Z) : list lock := filter (fun l => negb (l_id l =? id)) ls.
Fixpoint lsum (f : lock -> Z) (ls : list lock) : Z :=
  match ls with [] => 0 | l :: r => f l + lsum f r end.

Lemma get_lock_In : forall ls id l, get_lock ls id = Some l -> In l ls /\ l_id l = id.
Proof.
  induction ls as [|x r IH]; cbn; intros id l H; [discriminate|].
  destruct (l_id x =? id) eqn:E.
  - injection H as <-. zb. auto.
  - destruct (IH _ _ H); auto.
Qed.

Lemma get_lock_none : forall ls id, get_lock ls id = None <-> ~ In id (ids ls).
Proof.
  induction ls as [|x r IH]; cbn; intros id; [tauto|].
  destruct (l_id x =? id) eqn:E; zb.
  - split; [discriminate|]. intros H; exfalso; apply H; auto.
  - rewrite IH. split; intros H; [intros [?|?]; [lia|auto]|auto].
Qed.

Lemma In_get_lock : forall ls l, NoDup (ids ls) -> In l ls -> get_lock ls (l_id l) = Some l.
Proof.
  induction ls as [|x r IH]; cbn; intros l ND H; [tauto|].
  inversion ND as [|? ? Hn ND']; subst.
  destruct H as [->|H]; [rewrite Z.eqb_refl; reflexivity|].
  destruct (l_id x =? l_id l) eqn:E; zb; [|auto].
  exfalso; apply Hn. rewrite E. apply in_map; auto.
Qed.

Lemma get_put : forall ls l id, get_lock (put_lock ls l) id = if l_id l =? id then Some l else get_lock ls id.
Proof.
  induction ls as [|x r IH]; cbn; intros l id; [reflexivity|].
  destruct (l_id x =? l_id l) eqn:E; cbn.
  - zb. rewrite E. destruct (l_id l =? id); reflexivity.
  - rewrite IH. destruct (l_id x =? id) eqn:E2; [|reflexivity]. zb.
    destruct (l_id l =? id) eqn:E3; [zb; lia|reflexivity].
Qed.

Lemma In_put : forall ls l x, In x (put_lock ls l) -> x = l \/ In x ls.
Proof.
  induction ls as [|y r IH]; cbn; intros l x H; [destruct H as [<-|[]]; auto|].
  destruct (l_id y =? l_id l); cbn in H; [destruct H as [<-|H]; auto|].
  destruct H as [H|H]; [auto|]. destruct (IH _ _ H); auto.
Qed.

Lemma In_put_l : forall ls l, In l (put_lock ls l).
Proof.
  induction ls as [|y r IH]; cbn; intros l; [auto|].
  destruct (l_id y =? l_id l); cbn; auto.
Qed.

Lemma In_put_old : forall ls l x, In x ls -> l_id x <> l_id l -> In x (put_lock ls l).
Proof.
  induction ls as [|y r IH]; cbn; intros l x H Hn; [tauto|].
  destruct (l_id y =? l_id l) eqn:E; cbn.
  - zb. destruct H as [->|H]; [lia|auto].
  - destruct H; auto.
Qed.

Lemma ids_put : forall ls l,
  ids (put_lock ls l) = if existsb (fun i => i =? l_id l) (ids ls) then ids ls else ids ls ++ [l_id l].
Proof.
  induction ls as [|y r IH]; cbn; intros l; [reflexivity|].
  destruct (l_id y =? l_id l) eqn:E; cbn; [zb; rewrite E; reflexivity|].
  unfold ids in *. rewrite IH. destruct (existsb _ _); reflexivity.
Qed.

Lemma existsb_ids : forall l id, existsb (fun i => i =? id) l = true <-> In id l.
Proof.
  intros l id. rewrite existsb_exists. split.
  - intros [x [H E]]. zb. subst; auto.
  - intros H. exists id. rewrite Z.eqb_refl; auto.
Qed.

Lemma NoDup_snoc : forall (l : list Z) x, NoDup l -> ~ In x l -> NoDup (l ++ [x]).
Proof.
  induction l as [|y r IH]; cbn; intros x H Hn; [repeat constructor; cbn; tauto|].
  inversion H; subst. constructor; [|apply IH; tauto].
  rewrite in_app_iff; cbn. intros [?|[?|[]]]; [tauto|subst; tauto].
Qed.

Lemma NoDup_put : forall ls l, NoDup (ids ls) -> NoDup (ids (put_lock ls l)).
Proof.
  intros ls l H. rewrite ids_put. destruct (existsb _ _) eqn:E; [assumption|].
  assert (~ In (l_id l) (ids ls)) by (rewrite <- existsb_ids, E; discriminate).
  apply NoDup_snoc; assumption.
Qed.

Lemma lsum_put : forall f ls l,
  lsum f (put_lock ls l) = lsum f ls - match get_lock ls (l_id l) with Some l0 => f l0 | None => 0 end + f l.
Proof.
  induction ls as [|y r IH]; cbn; intros l; [lia|].
  destruct (l_id y =? l_id l) eqn:E; cbn; [lia|]. rewrite IH. lia.
Qed.

Lemma get_del : forall ls id id', get_lock (del ls id) id' = if id =? id' then None else get_lock ls id'.
Proof.
  unfold del. induction ls as [|y r IH]; cbn [filter get_lock]; intros id id'; [destruct (id =? id'); reflexivity|].
  destruct (l_id y =? id) eqn:E; cbn [negb get_lock].
  - rewrite IH. zb. subst. destruct (l_id y =? id'); reflexivity.
  - rewrite IH. destruct (l_id y =? id') eqn:E2; [|reflexivity]. zb.
    destruct (id =? id') eqn:E3; [zb; lia|reflexivity].
Qed.

Lemma In_del : forall ls id x, In x (del ls id) <-> In x ls /\ l_id x <> id.
Proof.
  intros. unfold del. rewrite filter_In. split; intros [H1 H2]; split; auto; zb; auto.
  apply negb_true_iff, Z.eqb_neq; auto.
Qed.

Lemma NoDup_del : forall ls id, NoDup (ids ls) -> NoDup (ids (del ls id)).
Proof.
  induction ls as [|y r IH]; intros id H; [constructor|].
  inversion H as [|? ? Hn ND]; subst.
  unfold del; cbn [filter]. fold (del r id).
  destruct (negb (l_id y =? id)); [|auto].
  cbn. constructor; [|apply IH; assumption]. intros Hi. apply Hn.
  unfold ids in *. apply in_map_iff in Hi. destruct Hi as [x [E Hx]]. apply In_del in Hx.
  rewrite <- E. apply in_map; tauto.
Qed.

Lemma del_absent : forall ls id, ~ In id (ids ls) -> del ls id = ls.
Proof.
  induction ls as [|z r IH]; intros id Hn; [reflexivity|].
  unfold del; cbn [filter]. fold (del r id). cbn in Hn.
  destruct (l_id z =? id) eqn:E2; zb; cbn.
  - exfalso; apply Hn; left; lia.
  - f_equal. apply IH. tauto.
Qed.

Lemma lsum_del : forall f ls id, NoDup (ids ls) ->
  lsum f (del ls id) = lsum f ls - match get_lock ls id with Some l0 => f l0 | None => 0 end.
Proof.
  induction ls as [|y r IH]; intros id H; [cbn; lia|].
  inversion H as [|? ? Hn ND]; subst.
  unfold del; cbn [filter get_lock]. fold (del r id).
  destruct (l_id y =? id) eqn:E; cbn [negb lsum].
  - zb. subst. rewrite del_absent by assumption. lia.
  - rewrite IH by assumption. lia.
Qed.

(* ------------------------------------------------------------------ coins *)
Definition cb (dn : Z) (l : lock) : Z := if l_denom l =? dn then l_amt l else 0.
Lemma coins_of_lsum : forall ls dn, coins_of ls dn = lsum (cb dn) ls.
Proof. induction ls; cbn; intros; [reflexivity|]. rewrite IHls. reflexivity. Qed.

(* ------------------------------------------------------------------ invariant, part 1 *)
(* [Inv0d dl s]: ids unique and bounded, owners are ordinary accounts, and the module account holds the live locks' coins
   plus [dl] (the coins in flight in the middle of a handler); the invariant proper is [Inv0 = Inv0d 0] *)
Record Inv0d (dl : Z -> Z) (s : state) : Prop := {
  i_nodup : NoDup (ids (s_locks s));
  i_last : 0 <= s_last s;
  i_ids : forall l, In l (s_locks s) -> 0 < l_id l <= s_last s;
  i_own : forall l, In l (s_locks s) -> l_owner l <> module_acc;
  i_bal : forall dn, s_bal s module_acc dn = lsum (cb dn) (s_locks s) + dl dn }.
Definition Inv0 (s : state) : Prop := Inv0d (fun _ => 0) s.

Lemma fresh_absent : forall dl s, Inv0d dl s -> get_lock (s_locks s) (s_last s + 1) = None.
Proof.
  intros dl s I. destruct (get_lock (s_locks s) (s_last s + 1)) eqn:E; [|reflexivity].
  apply get_lock_In in E. destruct E as [Hi He]. apply (i_ids _ s I) in Hi. lia.
Qed.

(* the senders of a well-formed operation are ordinary accounts *)
Definition op_sender_ok (o : op) : Prop :=
  match o with
  | OLock a _ _ _ | OAdd a _ _ | OExtend a _ _ | OBegin a _ _ _ | OBeginAll a | OSetRR a _ _ | OForce a _ _ _ => a <> module_acc
  | _ => True
  end.

Lemma bal_add_same : forall b a dn x, bal_add b a dn x a dn = b a dn + x.
Proof. intros. unfold bal_add. rewrite !Z.eqb_refl. reflexivity. Qed.
Lemma bal_add_other : forall b a dn x a' dn', (a' <> a \/ dn' <> dn) -> bal_add b a dn x a' dn' = b a' dn'.
Proof.
  intros. unfold bal_add. destruct (a' =? a) eqn:E1; [|reflexivity].
  destruct (dn' =? dn) eqn:E2; [|reflexivity]. zb. lia.
Qed.

(* module balance after a send between the module account and an ordinary account *)
Lemma send_in : forall s a dn amt s', a <> module_acc -> send s a module_acc dn amt = Ok s' ->
  s' = set_bal s (s_bal s') /\ amt <= s_bal s a dn /\
  forall dn', s_bal s' module_acc dn' = s_bal s module_acc dn' + (if dn' =? dn then amt else 0).
Proof.
  intros s a dn amt s' Ha H. unfold send in H. destruct (s_bal s a dn <? amt) eqn:E; [discriminate|].
  injection H as <-. zb. split; [reflexivity|]. split; [assumption|]. intros dn'. ssimpl.
  destruct (dn' =? dn) eqn:E2; zb.
  - subst. rewrite bal_add_same. rewrite bal_add_other by (left; unfold module_acc in *; lia). lia.
  - rewrite !bal_add_other by (right; assumption). lia.
Qed.

Lemma send_out : forall s a dn amt s', a <> module_acc -> send s module_acc a dn amt = Ok s' ->
  s' = set_bal s (s_bal s') /\ amt <= s_bal s module_acc dn /\
  forall dn', s_bal s' module_acc dn' = s_bal s module_acc dn' - (if dn' =? dn then amt else 0).
Proof.
  intros s a dn amt s' Ha H. unfold send in H. destruct (s_bal s module_acc dn <? amt) eqn:E; [discriminate|].
  injection H as <-. zb. split; [reflexivity|]. split; [assumption|]. intros dn'. ssimpl.
  destruct (dn' =? dn) eqn:E2; zb.
  - subst. rewrite bal_add_other by (left; unfold module_acc in *; lia). rewrite bal_add_same. lia.
  - rewrite !bal_add_other by (right; assumption). lia.
Qed.

(* ------------------------------------------------------------------ Inv0d under the three kinds of table update *)
Lemma Inv0d_put : forall dl dl' s s' l',
  Inv0d dl s -> s_locks s' = put_lock (s_locks s) l' -> l_owner l' <> module_acc ->
  0 < l_id l' <= s_last s' -> s_last s <= s_last s' ->
  (forall dn, s_bal s' module_acc dn - dl' dn = s_bal s module_acc dn - dl dn
     - match get_lock (s_locks s) (l_id l') with Some l0 => cb dn l0 | None => 0 end + cb dn l') ->
  Inv0d dl' s'.
Proof.
  intros dl dl' s s' l' I HL Ho Hid Hl Hb. constructor.
  - rewrite HL. apply NoDup_put, I.
  - pose proof (i_last _ s I); lia.
  - intros l Hi. rewrite HL in Hi. apply In_put in Hi. destruct Hi as [->|Hi]; [assumption|].
    apply (i_ids _ s I) in Hi. lia.
  - intros l Hi. rewrite HL in Hi. apply In_put in Hi. destruct Hi as [->|Hi]; [assumption|]. apply (i_own _ s I); assumption.
  - intros dn. specialize (Hb dn). rewrite HL, lsum_put. rewrite (i_bal _ s I) in Hb. lia.
Qed.

Lemma Inv0d_del : forall dl dl' s s' id,
  Inv0d dl s -> s_locks s' = del (s_locks s) id -> s_last s <= s_last s' ->
  (forall dn, s_bal s' module_acc dn - dl' dn = s_bal s module_acc dn - dl dn
     - match get_lock (s_locks s) id with Some l0 => cb dn l0 | None => 0 end) ->
  Inv0d dl' s'.
Proof.
  intros dl dl' s s' id I HL Hl Hb. constructor.
  - rewrite HL. apply NoDup_del, I.
  - pose proof (i_last _ s I); lia.
  - intros l Hi. rewrite HL in Hi. apply In_del in Hi. destruct Hi as [Hi _]. apply (i_ids _ s I) in Hi. lia.
  - intros l Hi. rewrite HL in Hi. apply In_del in Hi. apply (i_own _ s I); tauto.
  - intros dn. specialize (Hb dn). rewrite HL, lsum_del by apply I. rewrite (i_bal _ s I) in Hb. lia.
Qed.

Lemma Inv0d_same : forall dl dl' s s',
  Inv0d dl s -> s_locks s' = s_locks s -> s_last s <= s_last s' ->
  (forall dn, s_bal s' module_acc dn - dl' dn = s_bal s module_acc dn - dl dn) -> Inv0d dl' s'.
Proof.
  intros dl dl' s s' I HL Hl Hb. constructor.
  - rewrite HL. apply I.
  - pose proof (i_last _ s I); lia.
  - intros l Hi. rewrite HL in Hi. apply (i_ids _ s I) in Hi. lia.
  - intros l Hi. rewrite HL in Hi. apply (i_own _ s I); assumption.
  - intros dn. specialize (Hb dn). rewrite HL. rewrite (i_bal _ s I) in Hb. lia.
Qed.

(* add_lock_refs only touches the reference entries *)
Lemma add_lock_refs_core : forall s l s', add_lock_refs s l = Ok s' -> exists refs, s' = set_refs s refs.
Proof.
  intros s l s' H. unfold add_lock_refs, bind in H. mon H. injection H as <-. eauto.
Qed.

Lemma send_fields : forall s f t dn amt s', send s f t dn amt = Ok s' ->
  s_locks s' = s_locks s /\ s_last s' = s_last s /\ s_refs s' = s_refs s /\ s_acc s' = s_acc s /\
  s_now s' = s_now s /\ s_allowed s' = s_allowed s.
Proof.
  intros s f t dn amt s' H. unfold send in H. destruct (s_bal s f dn <? amt); [discriminate|].
  injection H as <-. ssimpl. repeat split.
Qed.

Lemma Inv0d_send_in : forall dl s a dn amt s', Inv0d dl s -> a <> module_acc -> send s a module_acc dn amt = Ok s' ->
  Inv0d (fun dn' => dl dn' + (if dn' =? dn then amt else 0)) s'.
Proof.
  intros dl s a dn amt s' I Ha H. destruct (send_in _ _ _ _ _ Ha H) as [_ [_ Hb]].
  destruct (send_fields _ _ _ _ _ _ H) as [L1 [L2 _]].
  eapply Inv0d_same; [exact I|assumption|lia|]. intros dn'. rewrite Hb. lia.
Qed.

Lemma Inv0d_send_out : forall dl s a dn amt s', Inv0d dl s -> a <> module_acc -> send s module_acc a dn amt = Ok s' ->
  Inv0d (fun dn' => dl dn' - (if dn' =? dn then amt else 0)) s'.
Proof.
  intros dl s a dn amt s' I Ha H. destruct (send_out _ _ _ _ _ Ha H) as [_ [_ Hb]].
  destruct (send_fields _ _ _ _ _ _ H) as [L1 [L2 _]].
  eapply Inv0d_same; [exact I|assumption|lia|]. intros dn'. rewrite Hb. lia.
Qed.

(* ------------------------------------------------------------------ Inv0 is preserved by every handler *)
Lemma lock_internal_core : forall s l amt,
  s_bal (lock_internal s l amt) = s_bal s /\ s_locks (lock_internal s l amt) = put_lock (s_locks s) l /\
  s_last (lock_internal s l amt) = s_last s /\ s_refs (lock_internal s l amt) = s_refs s /\
  s_now (lock_internal s l amt) = s_now s /\ s_allowed (lock_internal s l amt) = s_allowed s.
Proof. intros. unfold lock_internal. destruct (amt =? 0); ssimpl; repeat split. Qed.

Lemma create_lock_Inv0 : forall s o dn amt dur s',
  Inv0 s -> o <> module_acc -> create_lock s o dn amt dur = Ok s' -> Inv0 s'.
Proof.
  intros s o dn amt dur s' I Ho H. unfold create_lock, bind in H. mon H.
  injection H as <-.
  pose proof (Inv0d_send_in _ _ _ _ _ _ I Ho E) as I1.
  destruct (send_fields _ _ _ _ _ _ E) as [F1 [F2 _]].
  apply add_lock_refs_core in E0. destruct E0 as [refs ->].
  pose proof (lock_internal_core a (new_period_lock (s_last a + 1) o 0 dur 0 dn amt) amt) as [L1 [L2 [L3 _]]].
  pose proof (i_last _ _ I1).
  eapply Inv0d_put with (s := a) (l' := new_period_lock (s_last a + 1) o 0 dur 0 dn amt); ssimpl;
    rewrite ?L1, ?L2, ?L3; try reflexivity; try exact I1; try exact Ho; cbn [new_period_lock l_id]; try lia.
  intros dn'. rewrite (fresh_absent _ a I1). unfold cb, new_period_lock; cbn [l_denom l_amt]. rewrite (Z.eqb_sym dn dn'). lia.
Qed.

Lemma get_by_id_ok : forall s id l, get_lock_by_id s id = Ok l -> get_lock (s_locks s) id = Some l /\ In l (s_locks s) /\ l_id l = id.
Proof.
  intros s id l H. unfold get_lock_by_id in H. destruct (get_lock (s_locks s) id) eqn:E; [|discriminate].
  injection H as <-. split; [reflexivity|]. apply get_lock_In; assumption.
Qed.

Lemma add_tokens_Inv0 : forall s id o amt s',
  Inv0 s -> add_tokens_to_lock_by_id s id o amt = Ok s' -> Inv0 s'.
Proof.
  intros s id o amt s' I H. unfold add_tokens_to_lock_by_id, bind in H. mon H.
  injection H as <-. rename a into l, a0 into s1. zb.
  destruct (get_by_id_ok _ _ _ E) as [G [Hin Hid]].
  assert (Ho : o <> module_acc) by (rewrite <- E0; apply (i_own _ _ I); assumption).
  pose proof (Inv0d_send_in _ _ _ _ _ _ I Ho E1) as I1.
  destruct (send_fields _ _ _ _ _ _ E1) as [F1 [F2 _]].
  pose proof (lock_internal_core s1 (with_amt l (l_amt l + amt)) amt) as [L1 [L2 [L3 _]]].
  eapply Inv0d_put with (s := s1) (l' := with_amt l (l_amt l + amt)); ssimpl;
    rewrite ?L1, ?L2, ?L3; try reflexivity; try exact I1; cbn [with_amt l_id l_owner]; try lia.
  - rewrite F2. apply (i_ids _ _ I); assumption.
  - intros dn'. rewrite F1, Hid, G. unfold cb; lsimpl. destruct (l_denom l =? dn') eqn:Ed; zb.
    + subst dn'. rewrite Z.eqb_refl. lia.
    + rewrite (proj2 (Z.eqb_neq dn' (l_denom l))) by lia. lia.
Qed.

(* replacing a stored lock by one with the same owner, denomination and amount *)
Lemma Inv0d_put_same : forall dl s s' l0 l',
  Inv0d dl s -> get_lock (s_locks s) (l_id l') = Some l0 ->
  l_owner l' = l_owner l0 -> l_denom l' = l_denom l0 -> l_amt l' = l_amt l0 ->
  s_locks s' = put_lock (s_locks s) l' -> s_last s' = s_last s ->
  (forall dn, s_bal s' module_acc dn = s_bal s module_acc dn) -> Inv0d dl s'.
Proof.
  intros dl s s' l0 l' I G Ho Hd Ha HL Hl Hb.
  destruct (get_lock_In _ _ _ G) as [Hin Hid].
  eapply Inv0d_put; [exact I|exact HL| | | |].
  - rewrite Ho. apply (i_own _ _ I); assumption.
  - rewrite Hl, <- Hid. apply (i_ids _ _ I); assumption.
  - lia.
  - intros dn. rewrite G, Hb. unfold cb. rewrite Hd, Ha. lia.
Qed.

Lemma split_lock_Inv0d : forall dl s l amt force s' l2,
  Inv0d dl s -> get_lock (s_locks s) (l_id l) = Some l -> split_lock s l amt force = Ok (s', l2) ->
  Inv0d dl s' /\ get_lock (s_locks s') (l_id l2) = Some l2 /\ l_id l2 = s_last s + 1 /\ s_last s' = s_last s + 1 /\
  s_bal s' = s_bal s /\ l_owner l2 = l_owner l /\ l_denom l2 = l_denom l /\ l_end l2 = l_end l.
Proof.
  intros dl s l amt force s' l2 I G H. unfold split_lock in H. mon H. injection H as <- <-. ssimpl. lsimpl.
  destruct (get_lock_In _ _ _ G) as [Hin Hid].
  pose proof (i_last _ _ I) as Hl. pose proof (i_ids _ _ I _ Hin) as Hi. pose proof (i_own _ _ I _ Hin) as Ho.
  assert (I1 : Inv0d (fun dn => dl dn + (if l_denom l =? dn then amt else 0)) (set_lock s (with_amt l (l_amt l - amt)))).
  { eapply Inv0d_put with (s := s) (l' := with_amt l (l_amt l - amt)); ssimpl; lsimpl; try reflexivity; try exact I; try assumption; try lia.
    intros dn. rewrite G. unfold cb; lsimpl. destruct (l_denom l =? dn); lia. }
  split; [|repeat split].
  - eapply Inv0d_put with (s := set_lock s (with_amt l (l_amt l - amt)))
      (l' := new_period_lock (s_last s + 1) (l_owner l) (l_rr l) (l_dur l) (l_end l) (l_denom l) amt); ssimpl; lsimpl; try reflexivity; try exact I1; try assumption; try lia.
    intros dn. rewrite get_put. lsimpl. destruct (l_id l =? s_last s + 1) eqn:E1; [zb; lia|].
    rewrite (fresh_absent _ _ I). unfold cb; lsimpl. destruct (l_denom l =? dn); lia.
  - rewrite get_put. lsimpl. rewrite Z.eqb_refl. reflexivity.
Qed.

Lemma begin_unlock_internal_Inv0d : forall dl s l dn amt s',
  Inv0d dl s -> get_lock (s_locks s) (l_id l) = Some l -> begin_unlock_internal s l dn amt = Ok s' ->
  Inv0d dl s' /\ s_bal s' = s_bal s.
Proof.
  intros dl s l dn amt s' I G H. unfold begin_unlock_internal, bind in H. mon H.
  rename s0 into s1, l0 into l1.
  assert (K : Inv0d dl s1 /\ get_lock (s_locks s1) (l_id l1) = Some l1 /\ s_bal s1 = s_bal s).
  { destruct (is_partial dn amt l).
    - destruct (split_lock_Inv0d _ _ _ _ _ _ _ I G E1) as [I1 [G1 [_ [_ [B _]]]]]. auto.
    - injection E1 as <- <-. auto. }
  destruct K as [I1 [G1 B1]].
  apply add_lock_refs_core in H. destruct H as [refs ->]. ssimpl. split; [|assumption].
  eapply Inv0d_put_same with (s := s1) (l' := with_end l1 (s_now s + l_dur l1)); ssimpl; lsimpl; try reflexivity; try eassumption.
Qed.

Lemma begin_unlock_Inv0d : forall dl s id dn amt s',
  Inv0d dl s -> begin_unlock s id dn amt = Ok s' -> Inv0d dl s' /\ s_bal s' = s_bal s.
Proof.
  intros dl s id dn amt s' I H. unfold begin_unlock, bind in H. mon H.
  destruct (get_by_id_ok _ _ _ E) as [G [_ Hid]]. rewrite <- Hid in G.
  eapply begin_unlock_internal_Inv0d; eassumption.
Qed.

Lemma begin_unlock_list_Inv0d : forall dl ls s s',
  Inv0d dl s -> begin_unlock_list s ls = Ok s' -> Inv0d dl s' /\ s_bal s' = s_bal s.
Proof.
  induction ls as [|l r IH]; cbn [begin_unlock_list]; intros s s' I H.
  - injection H as <-. auto.
  - unfold bind in H. mon H. destruct (begin_unlock_Inv0d _ _ _ _ _ _ I E) as [I1 B1].
    destruct (IH _ _ I1 H) as [I2 B2]. split; [assumption|congruence].
Qed.

Lemma unlock_internal_Inv0d : forall dl s l s',
  Inv0d dl s -> get_lock (s_locks s) (l_id l) = Some l -> unlock_internal s l = Ok s' -> Inv0d dl s'.
Proof.
  intros dl s l s' I G H. unfold unlock_internal, bind in H. mon H. injection H as <-. rename a into s1.
  destruct (get_lock_In _ _ _ G) as [Hin _]. pose proof (i_own _ _ I _ Hin) as Ho.
  pose proof (Inv0d_send_out _ _ _ _ _ _ I Ho E) as I1.
  destruct (send_fields _ _ _ _ _ _ E) as [F1 [F2 _]].
  eapply Inv0d_del with (s := s1) (id := l_id l); ssimpl; try reflexivity; try exact I1; try lia.
  intros dn. rewrite F1, G. unfold cb. rewrite (Z.eqb_sym dn). lia.
Qed.

Lemma unlock_matured_Inv0d : forall dl s id s', Inv0d dl s -> unlock_matured_lock s id = Ok s' -> Inv0d dl s'.
Proof.
  intros dl s id s' I H. unfold unlock_matured_lock, bind in H. mon H.
  destruct (get_by_id_ok _ _ _ E) as [G [_ Hid]]. rewrite <- Hid in G.
  eapply unlock_internal_Inv0d; eassumption.
Qed.

Lemma unlock_list_Inv0d : forall dl ls s n c s', Inv0d dl s -> unlock_list s n c ls = Ok s' -> Inv0d dl s'.
Proof.
  induction ls as [|l r IH]; cbn [unlock_list]; intros s n c s' I H.
  - injection H as <-. assumption.
  - mon H; [injection H as <-; assumption|]. eapply IH; [|exact H]. eapply unlock_matured_Inv0d; eassumption.
Qed.

Lemma withdraw_Inv0d : forall dl s n s', Inv0d dl s -> withdraw_matured_locks s n = Ok s' -> Inv0d dl s'.
Proof.
  intros dl s n s' I H. unfold withdraw_matured_locks, bind in H. mon H. eapply unlock_list_Inv0d; eassumption.
Qed.

Lemma force_unlock_Inv0d : forall dl s l s',
  Inv0d dl s -> get_lock (s_locks s) (l_id l) = Some l -> force_unlock s l = Ok s' -> Inv0d dl s'.
Proof.
  intros dl s l s' I G H. unfold force_unlock, bind in H. mon H. rename a into s1, a0 into l'.
  assert (I1 : Inv0d dl s1).
  { destruct (negb (is_unlocking l)); [eapply begin_unlock_Inv0d; eassumption|injection E as <-; assumption]. }
  destruct (get_by_id_ok _ _ _ E0) as [G' [_ Hid]]. rewrite <- Hid in G'.
  eapply unlock_internal_Inv0d; eassumption.
Qed.

Lemma partial_force_unlock_Inv0d : forall dl s l dn amt s',
  Inv0d dl s -> get_lock (s_locks s) (l_id l) = Some l -> partial_force_unlock s l dn amt = Ok s' -> Inv0d dl s'.
Proof.
  intros dl s l dn amt s' I G H. unfold partial_force_unlock, bind in H. mon H. rename s0 into s1, l0 into l1.
  assert (K : Inv0d dl s1 /\ get_lock (s_locks s1) (l_id l1) = Some l1).
  { destruct (is_partial dn amt l).
    - destruct (split_lock_Inv0d _ _ _ _ _ _ _ I G E0) as [I1 [G1 _]]. auto.
    - injection E0 as <- <-. auto. }
  destruct K. eapply force_unlock_Inv0d; eassumption.
Qed.

Lemma set_rr_Inv0d : forall dl s id o rr s', Inv0d dl s -> set_lock_reward_receiver s id o rr = Ok s' -> Inv0d dl s'.
Proof.
  intros dl s id o rr s' I H. unfold set_lock_reward_receiver, bind in H. mon H. injection H as <-. rename a into l.
  destruct (get_by_id_ok _ _ _ E) as [G [_ Hid]]. rewrite <- Hid in G.
  eapply Inv0d_put_same with (s := s) (l' := with_rr l (if l_owner l =? rr then 0 else rr)); ssimpl; lsimpl; try reflexivity; eassumption.
Qed.

Lemma extend_Inv0d : forall dl s id o dur s', Inv0d dl s -> extend_lockup s id o dur = Ok s' -> Inv0d dl s'.
Proof.
  intros dl s id o dur s' I H. unfold extend_lockup, bind in H. mon H. injection H as <-. rename l into l2. rename a into l, s0 into s2, a0 into s3.
  destruct (get_by_id_ok _ _ _ E) as [G [_ Hid]]. rewrite <- Hid in G.
  apply add_lock_refs_core in E3. destruct E3 as [refs ->].
  assert (K : s_bal s2 = s_bal s /\ s_locks s2 = s_locks s /\ s_last s2 = s_last s /\ l_id l2 = l_id l /\
              l_owner l2 = l_owner l /\ l_denom l2 = l_denom l /\ l_amt l2 = l_amt l).
  { destruct (dur =? 0); [injection E2 as <- <-; ssimpl; repeat split|].
    destruct (dur <=? l_dur l); [discriminate|]. injection E2 as <- <-. ssimpl. lsimpl. repeat split. }
  destruct K as [K1 [K2 [K3 [K4 [K5 [K6 K7]]]]]].
  eapply Inv0d_put_same with (s := s) (l' := l2) (l0 := l); ssimpl; try assumption.
  - rewrite K4; assumption.
  - rewrite K2; reflexivity.
  - intros; rewrite K1; reflexivity.
Qed.

Lemma handle_Inv0 : forall s o s', Inv0 s -> op_sender_ok o -> handle s o = Ok s' -> Inv0 s'.
Proof.
  intros s o s' I W H. unfold Inv0 in *. destruct o; cbn [handle op_sender_ok] in *.
  - (* OLock *) unfold msg_lock_tokens, bind in H. mon H.
    + unfold add_to_existing_lock, bind in H. mon H. eapply add_tokens_Inv0; eassumption.
    + eapply create_lock_Inv0; eassumption.
  - (* OAdd *) mon H. eapply add_tokens_Inv0; eassumption.
  - (* OExtend *) unfold msg_extend_lockup, bind in H. mon H. injection H as <-. eapply extend_Inv0d; eassumption.
  - (* OBegin *) unfold msg_begin_unlocking, bind in H. mon H. eapply begin_unlock_Inv0d; eassumption.
  - (* OBeginAll *) unfold msg_begin_unlocking_all, begin_unlock_all_not_unlockings, bind in H. mon H.
    eapply begin_unlock_list_Inv0d; eassumption.
  - (* OUnlock *) eapply unlock_matured_Inv0d; eassumption.
  - (* OWithdraw *) eapply withdraw_Inv0d; eassumption.
  - (* OEndBlock *) unfold end_blocker in H. mon H; [eapply withdraw_Inv0d; eassumption|injection H as <-; assumption].
  - (* OSetRR *) unfold msg_set_reward_receiver in H. mon H. eapply set_rr_Inv0d; eassumption.
  - (* OForce *) unfold msg_force_unlock, bind in H. mon H.
    destruct (get_by_id_ok _ _ _ E1) as [G [_ Hid]]. rewrite <- Hid in G.
    eapply partial_force_unlock_Inv0d; eassumption.
  - (* OTime *) mon H. injection H as <-. eapply Inv0d_same; [exact I|reflexivity|ssimpl; lia|reflexivity].
Qed.

Lemma step_Inv0 : forall s o, Inv0 s -> op_sender_ok o -> Inv0 (fst (step s o)).
Proof.
  intros s o I W. unfold step. destruct (handle s o) eqn:E; cbn [fst]; [|assumption].
  eapply handle_Inv0; eassumption.
Qed.

Lemma run_Inv0 : forall ops s, Inv0 s -> Forall op_sender_ok ops -> Inv0 (run s ops).
Proof.
  induction ops as [|o r IH]; intros s I W; [assumption|].
  inversion W; subst. unfold run; cbn [fold_left]. apply IH; [|assumption]. apply step_Inv0; assumption.
Qed.

Lemma init_Inv0 : forall t0 fund allowed, Inv0 (init_state t0 fund allowed).
Proof.
  intros. constructor; cbn; try tauto; try lia; try constructor; reflexivity.
Qed.

(* module balance = sum of the live locks' coins, after every history *)
Lemma module_balance_eq_sum_locks : forall t0 fund allowed ops dn, Forall op_sender_ok ops ->
  let s := run (init_state t0 fund allowed) ops in
  s_bal s module_acc dn = coins_of (s_locks s) dn.
Proof.
  intros. subst s. rewrite coins_of_lsum. pose proof (run_Inv0 ops _ (init_Inv0 t0 fund allowed) H) as I.
  rewrite (i_bal _ _ I). lia.
Qed.
