(* C06 proofs, part 9: a well-formed genesis (keeper.InitGenesis = SetLastLockID + InitializeAllLocks, module account funded with
   the genesis locks' coins) establishes every invariant, so all statements hold for histories from any such genesis. *)
From Coq Require Import ZArith List Bool Lia.
Import ListNotations.
From Osmo Require Import C06.Model C06.Proofs C06.ProofsAcc C06.ProofsRefs C06.ProofsCons C06.ProofsTime C06.ProofsEvol.
Open Scope Z_scope.

Definition lock_ok (last : Z) (l : lock) : Prop :=
  0 < l_id l <= last /\ l_owner l <> module_acc /\ 0 < l_dur l /\ 0 < l_amt l.
Definition genesis_ok (last : Z) (ls : list lock) : Prop := NoDup (ids ls) /\ Forall (lock_ok last) ls.

(* everything the history theorems need about a start state *)
Record Start (s : state) : Prop := {
  st_inv : Inv s; st_amt : amt_pos s; st_acc : forall dn k, dn <> 0 -> adefect s dn k = 0 }.

Lemma lsum_cb_fund : forall ls b dn, fund_module b ls module_acc dn = b module_acc dn + lsum (cb dn) ls.
Proof.
  induction ls as [|l r IH]; intros b dn; cbn [fund_module fold_left lsum]; [lia|].
  fold (fund_module (bal_add b module_acc (l_denom l) (l_amt l)) r). rewrite IH. unfold cb.
  destruct (l_denom l =? dn) eqn:E; zb.
  - subst. rewrite bal_add_same. lia.
  - rewrite bal_add_other by (right; lia). lia.
Qed.

Lemma fund_module_other : forall ls b a dn, a <> module_acc -> fund_module b ls a dn = b a dn.
Proof.
  induction ls as [|l r IH]; intros b a dn Ha; cbn [fund_module fold_left]; [reflexivity|].
  fold (fund_module (bal_add b module_acc (l_denom l) (l_amt l)) r). rewrite IH by assumption. apply bal_add_other. left; assumption.
Qed.

(* loop invariant of InitializeAllLocks: the module account already holds the coins of the locks still to be installed *)
Lemma initialize_all_locks_Start : forall r s s',
  Inv0d (fun dn => lsum (cb dn) r) s -> InvR s -> dur_pos s -> amt_pos s -> now_pos s ->
  (forall dn k, dn <> 0 -> adefect s dn k = 0) ->
  NoDup (ids r) -> Forall (lock_ok (s_last s)) r -> (forall l, In l r -> get_lock (s_locks s) (l_id l) = None) ->
  initialize_all_locks s r = Ok s' -> Start s' /\ s_last s' = s_last s /\ s_now s' = s_now s /\
  (forall a dn, a <> module_acc -> wealth s' a dn = wealth s a dn + lsum (co a dn) r).
Proof.
  induction r as [|l r IH]; intros s s' I R D A Hn Ac ND Ok_r Fresh H; cbn [initialize_all_locks] in H.
  - injection H as <-. split; [constructor; [constructor|..]; assumption|]. repeat split; try reflexivity. intros; cbn [lsum]; lia.
  - unfold bind, set_lock_and_add_lock_refs in H. mon H. rename a into s1.
    apply add_lock_refs_spec in E. destruct E as [refs [Ar ->]]. ssimpl.
    inversion ND as [|? ? Hni ND']; subst. inversion Ok_r as [|? ? [Hid [Ho [Hd Ha]]] Ok_r']; subst.
    pose proof (Fresh l (or_introl eq_refl)) as G.
    set (s2 := inc_acc (set_refs (set_lock s l) refs) (l_denom l) (l_dur l) (l_amt l)) in *.
    assert (I2 : Inv0d (fun dn => lsum (cb dn) r) s2).
    { eapply Inv0d_put with (s := s) (l' := l); [exact I|reflexivity|assumption|subst s2; ssimpl; assumption|subst s2; ssimpl; lia|].
      intros dn. subst s2. ssimpl. rewrite G. cbn [lsum]. lia. }
    assert (R2 : InvR s2).
    { eapply InvRx_reindex with (s := s) (ex := None) (ks0 := []) (l' := l); [exact R|left; reflexivity| |rewrite ref_del_all_nil; exact Ar|reflexivity|reflexivity].
      unfold keys_of, excluded. rewrite G. apply incl_refl. }
    assert (D2 : dur_pos s2) by (eapply dur_pos_put with (s := s); [exact D|reflexivity|assumption]).
    assert (A2 : amt_pos s2) by (eapply amt_pos_put with (s := s); [exact A|reflexivity|assumption]).
    assert (Ac2 : forall dn k, dn <> 0 -> adefect s2 dn k = 0).
    { intros dn k Hdn. subst s2. rewrite adefect_inc. unfold adefect at 1. ssimpl. rewrite lsum_put, G.
      specialize (Ac dn k Hdn). unfold adefect in Ac. remember (lsum (ca dn k) (s_locks s)) as L. unfold ca.
      destruct (l_denom l =? dn); destruct (k <=? acc_key (l_dur l)); lia. }
    assert (Fresh2 : forall x, In x r -> get_lock (s_locks s2) (l_id x) = None).
    { intros x Hx. subst s2. ssimpl. rewrite get_put. destruct (l_id l =? l_id x) eqn:E; [|apply Fresh; right; assumption].
      zb. exfalso. apply Hni. rewrite E. apply in_map. assumption. }
    destruct (IH s2 s' I2 R2 D2 A2 Hn Ac2 ND' Ok_r' Fresh2 H) as [St [L1 [L2 W]]].
    split; [assumption|]. split; [exact L1|split; [exact L2|]].
    intros a dn Hm. rewrite (W a dn Hm). subst s2. unfold wealth. ssimpl. rewrite lsum_put, G. cbn [lsum]. lia.
Qed.

Lemma genesis_Start : forall t0 fund allowed last ls s,
  0 < t0 -> 0 <= last -> genesis_ok last ls -> genesis_state t0 fund allowed last ls = Ok s ->
  Start s /\ forall a dn, a <> module_acc -> wealth s a dn = fund a dn + lsum (co a dn) ls.
Proof.
  intros t0 fund allowed last ls s Ht Hl [ND Okl] H. unfold genesis_state in H.
  set (s0 := set_last (set_bal (init_state t0 fund allowed) (fund_module (s_bal (init_state t0 fund allowed)) ls)) last) in *.
  assert (I0 : Inv0d (fun dn => lsum (cb dn) ls) s0).
  { constructor; subst s0; ssimpl; cbn [init_state s_locks s_last s_bal]; try (intros l []); [constructor|lia|].
    intros dn. rewrite lsum_cb_fund. cbn. lia. }
  assert (R0 : InvR s0) by (split; [constructor|]; intros k id; cbn; tauto).
  assert (D0 : dur_pos s0) by (intros l []).
  assert (A0 : amt_pos s0) by (intros l []).
  assert (Hn0 : now_pos s0) by exact Ht.
  assert (Ac0 : forall dn k, dn <> 0 -> adefect s0 dn k = 0) by (intros; reflexivity).
  assert (Fresh0 : forall l, In l ls -> get_lock (s_locks s0) (l_id l) = None) by (intros; reflexivity).
  destruct (initialize_all_locks_Start ls s0 s I0 R0 D0 A0 Hn0 Ac0 ND Okl Fresh0 H) as [St [L1 [L2 W]]].
  split; [assumption|]. intros a dn Ha. rewrite (W a dn Ha). unfold wealth. subst s0. ssimpl.
  rewrite fund_module_other by assumption. cbn [init_state s_bal s_locks lsum].
  destruct (a =? module_acc) eqn:E; [zb; contradiction|]. lia.
Qed.

(* ------------------------------------------------------------------ the history statements from any such start *)
Section FromStart.
Variable s0 : state.
Hypothesis St : Start s0.
Variable ops : list op.
Hypothesis W : Forall op_sender_ok ops.

Lemma start_run_Inv : Inv (run s0 ops).
Proof. apply run_Inv; [apply St|assumption]. Qed.

Lemma start_run_Start : Start (run s0 ops).
Proof.
  constructor; [apply start_run_Inv|apply run_amt_pos; [apply St|apply St|assumption]|].
  intros dn k Hdn. rewrite run_adefect by (try apply St; assumption). apply St; assumption.
Qed.

Lemma start_module_balance : forall dn, s_bal (run s0 ops) module_acc dn = coins_of (s_locks (run s0 ops)) dn.
Proof. intros dn. rewrite coins_of_lsum, (i_bal _ _ (inv0 _ start_run_Inv)). lia. Qed.

Lemma start_accum_eq : forall dn d, dn <> 0 -> 0 <= d ->
  get_period_locks_accumulation (run s0 ops) dn d = locked_longer (s_locks (run s0 ops)) dn d.
Proof.
  intros dn d Hdn Hd. unfold get_period_locks_accumulation.
  pose proof (st_acc _ start_run_Start dn (acc_key d) Hdn) as A. unfold adefect in A.
  assert (E : acc_from (s_acc (run s0 ops)) dn (acc_key d) = lsum (ca dn (acc_key d)) (s_locks (run s0 ops))) by lia. rewrite E.
  pose proof (inv_dur _ start_run_Inv) as D. unfold locked_longer. revert D. unfold dur_pos. generalize (s_locks (run s0 ops)).
  induction l as [|x r IH]; intros D; [reflexivity|]. cbn [lsum]. rewrite IH by (intros; apply D; right; assumption).
  f_equal. unfold ca, acc_key. pose proof (D x (or_introl eq_refl)).
  destruct (d <? 0) eqn:E1; [zb; lia|]. destruct (l_dur x <? 0) eqn:E2; [zb; lia|]. reflexivity.
Qed.

End FromStart.

Lemma run_conservation : forall ops s a dn, Inv0 s -> Forall op_sender_ok ops -> a <> module_acc ->
  wealth (run s ops) a dn = wealth s a dn.
Proof.
  induction ops as [|o r IH]; intros s a dn I W Ha; [reflexivity|].
  inversion W; subst. unfold run; cbn [fold_left]. fold (run (fst (step s o)) r).
  rewrite IH by (try apply step_Inv0; assumption). apply step_conservation; assumption.
Qed.

(* the statements of Properties/C06.v for a history from any well-formed genesis *)
Lemma from_genesis : forall t0 fund allowed last ls s0 ops,
  0 < t0 -> 0 <= last -> genesis_ok last ls -> genesis_state t0 fund allowed last ls = Ok s0 -> Forall op_sender_ok ops ->
  let s := run s0 ops in
  Inv s /\ amt_pos s /\
  (forall dn, s_bal s module_acc dn = coins_of (s_locks s) dn) /\
  (forall dn d, dn <> 0 -> 0 <= d -> get_period_locks_accumulation s dn d = locked_longer (s_locks s) dn d) /\
  (forall a dn, a <> module_acc -> wealth s a dn = fund a dn + lsum (co a dn) ls) /\
  (forall o a dn, op_sender_ok o -> a <> module_acc -> (forall id dn0 amt, o <> OForce a id dn0 amt) ->
     s_bal (fst (step s o)) a dn <= s_bal s a dn + matured_amount s a dn) /\
  (forall o, Evol s (fst (step s o))).
Proof.
  intros t0 fund allowed last ls s0 ops Ht Hl G H W s.
  destruct (genesis_Start _ _ _ _ _ _ Ht Hl G H) as [St Wl].
  pose proof (start_run_Start s0 St ops W) as S. fold s in S.
  split; [apply S|]. split; [apply S|]. split; [apply (start_module_balance s0 St ops W)|].
  split; [apply (start_accum_eq s0 St ops W)|].
  split; [intros a dn Ha; subst s; rewrite run_conservation by (try apply St; assumption); apply Wl; assumption|].
  split; [intros o a dn Wo Ha NF; apply step_not_early; try assumption; apply S|].
  intros o. apply step_Evol. apply S.
Qed.
