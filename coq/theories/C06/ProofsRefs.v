(* C06 proofs, part 3: the reference entries are exactly (key, id) for the keys of the live lock id. *)
From Coq Require Import ZArith List Bool Lia.
Import ListNotations.
From Osmo Require Import C06.Model C06.Proofs C06.ProofsAcc.
Open Scope Z_scope.

(* ------------------------------------------------------------------ keys and entries *)
Lemma kind_eqb_eq : forall a b, kind_eqb a b = true <-> a = b.
Proof. destruct a, b; cbn; split; intros H; try reflexivity; discriminate. Qed.

Lemma key_eqb_eq : forall a b, key_eqb a b = true <-> a = b.
Proof.
  intros [u1 k1 a1 d1 v1] [u2 k2 a2 d2 v2]. unfold key_eqb; cbn [k_unl k_kind k_acc k_denom k_val]. split.
  - intros H. destruct (kind_eqb k1 k2) eqn:E1; [|discriminate]. apply kind_eqb_eq in E1.
    destruct (Bool.eqb u1 u2) eqn:E2; [|discriminate]. apply Bool.eqb_prop in E2.
    destruct (v1 =? v2) eqn:E3; [|discriminate]. destruct (a1 =? a2) eqn:E4; [|discriminate]. zb. subst. reflexivity.
  - intros H. injection H as -> -> -> -> ->. rewrite (proj2 (kind_eqb_eq k2 k2) eq_refl), Bool.eqb_reflx, !Z.eqb_refl. reflexivity.
Qed.

Lemma entry_is_eq : forall k id e, entry_is k id e = true <-> e = (k, id).
Proof.
  intros k id [k' id']. unfold entry_is; cbn [fst snd]. split.
  - intros H. destruct (id' =? id) eqn:E; [|discriminate]. zb. apply key_eqb_eq in H. subst. reflexivity.
  - intros H. injection H as -> ->. rewrite Z.eqb_refl. apply key_eqb_eq. reflexivity.
Qed.

Lemma ref_has_In : forall refs k id, ref_has refs k id = true <-> In (k, id) refs.
Proof.
  intros. unfold ref_has. rewrite existsb_exists. split.
  - intros [e [Hi He]]. apply entry_is_eq in He. subst. assumption.
  - intros H. exists (k, id). split; [assumption|apply entry_is_eq; reflexivity].
Qed.

Lemma ref_del_In : forall refs k id e, In e (ref_del refs k id) <-> In e refs /\ e <> (k, id).
Proof.
  intros. unfold ref_del. rewrite filter_In. split; intros [H1 H2]; split; auto.
  - intros ->. rewrite (proj2 (entry_is_eq k id (k, id)) eq_refl) in H2. discriminate.
  - destruct (entry_is k id e) eqn:E; [|reflexivity]. apply entry_is_eq in E. contradiction.
Qed.

Lemma ref_del_NoDup : forall refs k id, NoDup refs -> NoDup (ref_del refs k id).
Proof. intros. unfold ref_del. apply NoDup_filter. assumption. Qed.

Lemma ref_del_all_In : forall ks refs id e,
  In e (ref_del_all refs ks id) <-> In e refs /\ ~ (snd e = id /\ In (fst e) ks).
Proof.
  unfold ref_del_all. induction ks as [|k r IH]; cbn [fold_left]; intros refs id e.
  - cbn. tauto.
  - rewrite IH, ref_del_In. destruct e as [k' i']. cbn [fst snd In]. split.
    + intros [[H1 H2] H3]. split; [assumption|]. intros [Hi [Hk|Hk]]; [subst; apply H2; reflexivity|tauto].
    + intros [H1 H2]. split; [split; [assumption|]|].
      * intros E. injection E as -> ->. apply H2. auto.
      * intros [Hi Hk]. apply H2. auto.
Qed.

Lemma ref_del_all_NoDup : forall ks refs id, NoDup refs -> NoDup (ref_del_all refs ks id).
Proof.
  unfold ref_del_all. induction ks as [|k r IH]; cbn [fold_left]; intros refs id H; [assumption|].
  apply IH, ref_del_NoDup, H.
Qed.

Lemma ref_add_all_spec : forall ks refs id refs', ref_add_all refs ks id = Ok refs' ->
  (forall e, In e refs' <-> In e refs \/ (snd e = id /\ In (fst e) ks)) /\ (NoDup refs -> NoDup refs').
Proof.
  induction ks as [|k r IH]; cbn [ref_add_all]; intros refs id refs' H.
  - injection H as <-. split; [intros e; cbn; tauto|auto].
  - unfold bind, ref_add in H. destruct (ref_has refs k id) eqn:E; [discriminate|].
    destruct (IH _ _ _ H) as [H1 H2]. split.
    + intros [k' i']. rewrite H1. cbn [In fst snd]. split.
      * intros [[Hc|Hc]|[Hi Hk]]; [injection Hc as <- <-; right; auto|auto|auto].
      * intros [Hc|[Hi [Hk|Hk]]]; [auto|subst; left; left; reflexivity|auto].
    + intros ND. apply H2. constructor; [|assumption]. intros Hc. apply ref_has_In in Hc. congruence.
Qed.

(* ------------------------------------------------------------------ reference keys of a lock *)
Lemma ref_keys_with_amt : forall l x, ref_keys (with_amt l x) = ref_keys l.
Proof. reflexivity. Qed.
Lemma ref_keys_with_rr : forall l x, ref_keys (with_rr l x) = ref_keys l.
Proof. reflexivity. Qed.

Lemma ref_keys_incl_lock_ref_keys : forall l, incl (ref_keys l) (lock_ref_keys (is_unlocking l) l).
Proof.
  intros l. unfold ref_keys. destruct (is_unlocking l); [apply incl_refl|].
  unfold lock_ref_keys. apply incl_appl, incl_refl.
Qed.

(* ------------------------------------------------------------------ the invariant *)
(* [ex = Some id]: lock id is stored without reference entries (the freshly split-off lock inside a handler) *)
Definition excluded (ex : option Z) (id : Z) : bool := match ex with Some x => x =? id | None => false end.
Definition keys_of (ex : option Z) (ls : list lock) (id : Z) : list rkey :=
  if excluded ex id then [] else match get_lock ls id with Some l => ref_keys l | None => [] end.
Definition InvRx (ex : option Z) (s : state) : Prop :=
  NoDup (s_refs s) /\ forall k id, In (k, id) (s_refs s) <-> In k (keys_of ex (s_locks s) id).
Definition InvR (s : state) : Prop := InvRx None s.

Definition ex_ok (ex : option Z) (id : Z) : Prop := ex = None \/ ex = Some id.

Lemma keys_of_other : forall ex ls id i, ex_ok ex id -> i <> id -> keys_of ex ls i = keys_of None ls i.
Proof.
  intros ex ls id i [->| ->] Hn; [reflexivity|]. unfold keys_of, excluded.
  destruct (id =? i) eqn:E; [zb; lia|reflexivity].
Qed.

(* R1: replace a stored lock by one with the same reference keys *)
Lemma InvRx_put_same_keys : forall ex s s' l0 l',
  InvRx ex s -> get_lock (s_locks s) (l_id l') = Some l0 -> ref_keys l' = ref_keys l0 ->
  s_locks s' = put_lock (s_locks s) l' -> s_refs s' = s_refs s -> InvRx ex s'.
Proof.
  intros ex s s' l0 l' [ND H] G K HL HR. split; [rewrite HR; assumption|].
  intros k id. rewrite HR, H, HL. unfold keys_of. rewrite get_put.
  destruct (l_id l' =? id) eqn:E; [|tauto]. zb. subst id. rewrite G, K. tauto.
Qed.

(* R2: store a fresh lock without reference entries *)
Lemma InvRx_put_fresh_norefs : forall s s' l',
  InvRx None s -> get_lock (s_locks s) (l_id l') = None ->
  s_locks s' = put_lock (s_locks s) l' -> s_refs s' = s_refs s -> InvRx (Some (l_id l')) s'.
Proof.
  intros s s' l' [ND H] G HL HR. split; [rewrite HR; assumption|].
  intros k id. rewrite HR, H, HL. unfold keys_of, excluded. rewrite get_put.
  destruct (l_id l' =? id) eqn:E; [|tauto]. zb. subst id. rewrite G. tauto.
Qed.

(* R3: re-index lock id: delete entries under keys ks0 (covering its present keys), store l', add its keys *)
Lemma InvRx_reindex : forall ex s s' l' ks0 refs',
  InvRx ex s -> ex_ok ex (l_id l') -> incl (keys_of ex (s_locks s) (l_id l')) ks0 ->
  ref_add_all (ref_del_all (s_refs s) ks0 (l_id l')) (ref_keys l') (l_id l') = Ok refs' ->
  s_locks s' = put_lock (s_locks s) l' -> s_refs s' = refs' -> InvRx None s'.
Proof.
  intros ex s s' l' ks0 refs' [ND H] Hex Hincl Hadd HL HR.
  destruct (ref_add_all_spec _ _ _ _ Hadd) as [A1 A2]. split.
  - rewrite HR. apply A2, ref_del_all_NoDup, ND.
  - intros k id. rewrite HR, A1, ref_del_all_In, HL. cbn [fst snd]. unfold keys_of at 1, excluded. rewrite get_put.
    destruct (l_id l' =? id) eqn:E; zb.
    + subst id. rewrite H. split; [intros [[Hk Hn]|[_ Hk]]; [exfalso; apply Hn; split; [reflexivity|apply Hincl; assumption]|assumption]|auto].
    + rewrite H, (keys_of_other ex _ (l_id l') id Hex) by lia. unfold keys_of, excluded. split; [intros [[Hk _]|[Hc _]]; [assumption|lia]|intros Hk; left; split; [assumption|intros [Hc _]; lia]].
Qed.

(* R5: delete lock id together with its entries *)
Lemma InvRx_delete : forall ex s s' id ks0,
  InvRx ex s -> ex_ok ex id -> incl (keys_of ex (s_locks s) id) ks0 ->
  s_locks s' = del (s_locks s) id -> s_refs s' = ref_del_all (s_refs s) ks0 id -> InvRx None s'.
Proof.
  intros ex s s' id ks0 [ND H] Hex Hincl HL HR. split.
  - rewrite HR. apply ref_del_all_NoDup, ND.
  - intros k i. rewrite HR, ref_del_all_In, HL. cbn [fst snd]. unfold keys_of at 1, excluded. rewrite get_del.
    destruct (id =? i) eqn:E; zb.
    + subst i. rewrite H. split; [intros [Hk Hn]; exfalso; apply Hn; split; [reflexivity|apply Hincl; assumption]|intros []].
    + rewrite H, (keys_of_other ex _ id i Hex) by lia. unfold keys_of, excluded. split; [tauto|intros Hk; split; [assumption|intros [Hc _]; lia]].
Qed.

Lemma InvRx_ext : forall ex s s', InvRx ex s -> s_locks s' = s_locks s -> s_refs s' = s_refs s -> InvRx ex s'.
Proof. intros ex s s' [ND H] HL HR. split; [rewrite HR; assumption|]. intros. rewrite HR, HL. apply H. Qed.

(* ------------------------------------------------------------------ handlers *)
Lemma add_lock_refs_spec : forall s l s', add_lock_refs s l = Ok s' ->
  exists refs, ref_add_all (s_refs s) (ref_keys l) (l_id l) = Ok refs /\ s' = set_refs s refs.
Proof. intros s l s' H. unfold add_lock_refs, bind in H. mon H. injection H as <-. eauto. Qed.

Lemma ref_del_all_nil : forall refs id, ref_del_all refs [] id = refs.
Proof. reflexivity. Qed.

Lemma create_lock_InvR : forall dl s o dn amt dur s',
  Inv0d dl s -> InvR s -> create_lock s o dn amt dur = Ok s' -> InvR s'.
Proof.
  intros dl s o dn amt dur s' I R H. unfold create_lock, bind in H. mon H. injection H as <-. rename a into s1.
  destruct (send_fields _ _ _ _ _ _ E) as [F1 [F2 [F3 _]]].
  apply add_lock_refs_spec in E0. destruct E0 as [refs [A ->]].
  destruct (lock_internal_core s1 (new_period_lock (s_last s1 + 1) o 0 dur 0 dn amt) amt) as [_ [L2 [_ [L4 _]]]].
  rewrite L4, F3 in A.
  eapply InvRx_reindex with (s := s) (ex := None) (ks0 := []) (l' := new_period_lock (s_last s1 + 1) o 0 dur 0 dn amt); ssimpl; lsimpl.
  - exact R.
  - left; reflexivity.
  - unfold keys_of, excluded. rewrite F2, (fresh_absent _ _ I). apply incl_refl.
  - rewrite ref_del_all_nil. exact A.
  - rewrite L2, F1. reflexivity.
  - reflexivity.
Qed.

Lemma add_tokens_InvR : forall ex s id o amt s',
  InvRx ex s -> add_tokens_to_lock_by_id s id o amt = Ok s' -> InvRx ex s'.
Proof.
  intros ex s id o amt s' R H. unfold add_tokens_to_lock_by_id, bind in H. mon H. injection H as <-. rename a into l, a0 into s1.
  destruct (get_by_id_ok _ _ _ E) as [G [_ Hid]]. destruct (send_fields _ _ _ _ _ _ E1) as [F1 [F2 [F3 _]]].
  destruct (lock_internal_core s1 (with_amt l (l_amt l + amt)) amt) as [_ [L2 [_ [L4 _]]]].
  eapply InvRx_put_same_keys with (s := s) (l' := with_amt l (l_amt l + amt)) (l0 := l); ssimpl; lsimpl.
  - exact R.
  - rewrite Hid; exact G.
  - reflexivity.
  - rewrite L2, F1. reflexivity.
  - rewrite L4, F3. reflexivity.
Qed.

Lemma split_lock_InvR : forall dl s l amt force s' l2,
  Inv0d dl s -> InvR s -> get_lock (s_locks s) (l_id l) = Some l -> split_lock s l amt force = Ok (s', l2) ->
  InvRx (Some (l_id l2)) s'.
Proof.
  intros dl s l amt force s' l2 I R G H. unfold split_lock in H. mon H. injection H as <- <-.
  destruct (get_lock_In _ _ _ G) as [Hin _]. pose proof (i_ids _ _ I _ Hin).
  eapply InvRx_put_fresh_norefs with (s := set_last (set_lock s (with_amt l (l_amt l - amt))) (s_last s + 1)); ssimpl; lsimpl; try reflexivity.
  - eapply InvRx_put_same_keys with (s := s) (l' := with_amt l (l_amt l - amt)) (l0 := l); ssimpl; lsimpl; try reflexivity; assumption.
  - rewrite get_put. lsimpl. destruct (l_id l =? s_last s + 1) eqn:E1; [zb; lia|]. apply (fresh_absent _ _ I).
Qed.

Lemma begin_unlock_internal_InvR : forall dl ex s l dn amt s',
  Inv0d dl s -> InvRx ex s -> ex_ok ex (l_id l) -> (ex = None \/ is_partial dn amt l = false) ->
  get_lock (s_locks s) (l_id l) = Some l -> begin_unlock_internal s l dn amt = Ok s' -> InvRx None s'.
Proof.
  intros dl ex s l dn amt s' I R Hex Hp G H. unfold begin_unlock_internal, bind in H. mon H. rename s0 into s1, l0 into l1.
  apply add_lock_refs_spec in H. destruct H as [refs [A ->]]. ssimpl. lsimpl.
  destruct (is_partial dn amt l) eqn:P.
  - destruct Hp as [->|Hp]; [|discriminate].
    pose proof (split_lock_InvR _ _ _ _ _ _ _ I R G E1) as R1.
    eapply InvRx_reindex with (s := s1) (ex := Some (l_id l1)) (ks0 := lock_ref_keys false l1) (l' := with_end l1 (s_now s + l_dur l1)); ssimpl; lsimpl.
    + exact R1.
    + right; reflexivity.
    + unfold keys_of, excluded. rewrite Z.eqb_refl. intros x [].
    + exact A.
    + reflexivity.
    + reflexivity.
  - injection E1 as <- <-.
    eapply InvRx_reindex with (s := s) (ex := ex) (ks0 := lock_ref_keys false l) (l' := with_end l (s_now s + l_dur l)); ssimpl; lsimpl.
    + exact R.
    + exact Hex.
    + unfold keys_of. destruct (excluded ex (l_id l)); [intros x []|]. rewrite G.
      pose proof (ref_keys_incl_lock_ref_keys l) as K. rewrite E0 in K. exact K.
    + exact A.
    + reflexivity.
    + reflexivity.
Qed.

Lemma begin_unlock_InvR : forall dl ex s id dn amt s',
  Inv0d dl s -> InvRx ex s -> ex_ok ex id -> (ex = None \/ amt = 0) ->
  begin_unlock s id dn amt = Ok s' -> InvRx None s'.
Proof.
  intros dl ex s id dn amt s' I R Hex Hp H. unfold begin_unlock, bind in H. mon H.
  destruct (get_by_id_ok _ _ _ E) as [G [_ Hid]]. rewrite <- Hid in G, Hex.
  eapply begin_unlock_internal_InvR; try eassumption.
  destruct Hp as [->| ->]; [left; reflexivity|right; reflexivity].
Qed.

Lemma begin_unlock_list_InvR : forall dl ls s s',
  Inv0d dl s -> InvR s -> begin_unlock_list s ls = Ok s' -> InvR s'.
Proof.
  induction ls as [|l r IH]; cbn [begin_unlock_list]; intros s s' I R H.
  - injection H as <-. assumption.
  - unfold bind in H. mon H. destruct (begin_unlock_Inv0d _ _ _ _ _ _ I E) as [I1 _].
    eapply IH; [exact I1| |exact H]. eapply begin_unlock_InvR; [exact I|exact R|left; reflexivity|left; reflexivity|exact E].
Qed.

Lemma unlock_internal_InvR : forall ex s l s',
  InvRx ex s -> ex_ok ex (l_id l) -> get_lock (s_locks s) (l_id l) = Some l ->
  (is_unlocking l = true \/ ex = Some (l_id l)) -> unlock_internal s l = Ok s' -> InvRx None s'.
Proof.
  intros ex s l s' R Hex G Hu H. unfold unlock_internal, bind in H. mon H. injection H as <-. rename a into s1.
  destruct (send_fields _ _ _ _ _ _ E) as [F1 [F2 [F3 _]]].
  eapply InvRx_delete with (s := s) (ex := ex) (id := l_id l) (ks0 := lock_ref_keys true l); ssimpl.
  - exact R.
  - exact Hex.
  - unfold keys_of. destruct Hu as [Hu| ->].
    + destruct (excluded ex (l_id l)); [intros x []|]. rewrite G.
      pose proof (ref_keys_incl_lock_ref_keys l) as K. rewrite Hu in K. exact K.
    + unfold excluded. rewrite Z.eqb_refl. intros x [].
  - rewrite F1. reflexivity.
  - rewrite F3. reflexivity.
Qed.

Lemma unlock_matured_InvR : forall s id s', InvR s -> unlock_matured_lock s id = Ok s' -> InvR s'.
Proof.
  intros s id s' R H. unfold unlock_matured_lock, bind in H. mon H. zb.
  destruct (get_by_id_ok _ _ _ E) as [G [_ Hid]]. rewrite <- Hid in G.
  eapply unlock_internal_InvR; [exact R|left; reflexivity|exact G|left; assumption|exact H].
Qed.

Lemma unlock_list_InvR : forall ls s n c s', InvR s -> unlock_list s n c ls = Ok s' -> InvR s'.
Proof.
  induction ls as [|l r IH]; cbn [unlock_list]; intros s n c s' R H.
  - injection H as <-. assumption.
  - mon H; [injection H as <-; assumption|]. eapply IH; [|exact H]. eapply unlock_matured_InvR; eassumption.
Qed.

Lemma withdraw_InvR : forall s n s', InvR s -> withdraw_matured_locks s n = Ok s' -> InvR s'.
Proof. intros s n s' R H. unfold withdraw_matured_locks, bind in H. mon H. eapply unlock_list_InvR; eassumption. Qed.

(* after a full begin-unlock the stored lock is the old one with its end time set *)
Lemma begin_unlock_full_get : forall s id l s', get_lock (s_locks s) id = Some l ->
  begin_unlock s id 0 0 = Ok s' -> get_lock (s_locks s') id = Some (with_end l (s_now s + l_dur l)).
Proof.
  intros s id l s' G H. unfold begin_unlock, get_lock_by_id, bind in H. rewrite G in H.
  unfold begin_unlock_internal, bind in H. cbn [is_partial all_lte negb Z.eqb] in H. mon H.
  apply add_lock_refs_spec in H. destruct H as [refs [_ ->]]. ssimpl. rewrite get_put. lsimpl.
  apply get_lock_In in G. destruct G as [_ ->]. rewrite Z.eqb_refl. reflexivity.
Qed.

Definition now_pos (s : state) : Prop := 0 < s_now s.

Lemma force_unlock_InvR : forall dl ex s l s',
  Inv0d dl s -> now_pos s -> 0 < l_dur l -> InvRx ex s -> ex_ok ex (l_id l) -> get_lock (s_locks s) (l_id l) = Some l ->
  force_unlock s l = Ok s' -> InvRx None s'.
Proof.
  intros dl ex s l s' I Hn Hd R Hex G H. unfold force_unlock, bind in H. mon H. rename a into s1, a0 into l'.
  destruct (get_by_id_ok _ _ _ E0) as [G' [_ Hid]].
  destruct (is_unlocking l) eqn:U; cbn [negb] in E.
  - injection E as <-. rewrite G in G'. injection G' as <-.
    eapply unlock_internal_InvR; [exact R|exact Hex|exact G|left; exact U|exact H].
  - pose proof (begin_unlock_full_get _ _ _ _ G E) as G1. rewrite G1 in G'. injection G' as <-.
    eapply unlock_internal_InvR with (ex := None) (l := with_end l (s_now s + l_dur l)); [|left; reflexivity|exact G1| |exact H].
    + eapply begin_unlock_InvR; [exact I|exact R|exact Hex|right; reflexivity|exact E].
    + left. unfold is_unlocking; lsimpl. unfold now_pos in Hn. apply negb_true_iff, Z.eqb_neq. lia.
Qed.

Lemma partial_force_unlock_InvR : forall dl s l dn amt s',
  Inv0d dl s -> now_pos s -> 0 < l_dur l -> InvR s -> get_lock (s_locks s) (l_id l) = Some l ->
  partial_force_unlock s l dn amt = Ok s' -> InvR s'.
Proof.
  intros dl s l dn amt s' I Hn Hd R G H. unfold partial_force_unlock, bind in H. mon H. rename s0 into s1, l0 into l1.
  destruct (is_partial dn amt l).
  - destruct (split_lock_Inv0d _ _ _ _ _ _ _ I G E0) as [I1 [G1 _]].
    pose proof (split_lock_InvR _ _ _ _ _ _ _ I R G E0) as R1.
    assert (Hn1 : now_pos s1 /\ l_dur l1 = l_dur l).
    { unfold split_lock in E0. mon E0. injection E0 as <- <-. split; [exact Hn|reflexivity]. }
    destruct Hn1 as [Hn1 Hd1].
    eapply force_unlock_InvR with (l := l1) (ex := Some (l_id l1)); [exact I1|exact Hn1|lia|exact R1|right; reflexivity|exact G1|exact H].
  - injection E0 as <- <-. eapply force_unlock_InvR with (l := l) (ex := None); [exact I|exact Hn|exact Hd|exact R|left; reflexivity|exact G|exact H].
Qed.

Lemma set_rr_InvR : forall ex s id o rr s', InvRx ex s -> set_lock_reward_receiver s id o rr = Ok s' -> InvRx ex s'.
Proof.
  intros ex s id o rr s' R H. unfold set_lock_reward_receiver, bind in H. mon H. injection H as <-. rename a into l.
  destruct (get_by_id_ok _ _ _ E) as [G [_ Hid]].
  eapply InvRx_put_same_keys with (s := s) (l' := with_rr l (if l_owner l =? rr then 0 else rr)) (l0 := l); ssimpl; lsimpl; try reflexivity; try assumption.
  rewrite Hid; exact G.
Qed.

Lemma extend_InvR : forall s id o dur s', InvR s -> extend_lockup s id o dur = Ok s' -> InvR s'.
Proof.
  intros s id o dur s' R H. unfold extend_lockup, bind in H. mon H. injection H as <-. rename l into l2. rename a into l, s0 into s2, a0 into s3.
  destruct (get_by_id_ok _ _ _ E) as [G [_ Hid]].
  apply add_lock_refs_spec in E3. destruct E3 as [refs [A ->]].
  assert (K : s_locks s2 = s_locks s /\ s_refs s2 = ref_del_all (s_refs s) (lock_ref_keys false l) (l_id l) /\ l_id l2 = l_id l).
  { destruct (dur =? 0); [injection E2 as <- <-; ssimpl; repeat split|].
    destruct (dur <=? l_dur l); [discriminate|]. injection E2 as <- <-. ssimpl. lsimpl. repeat split. }
  destruct K as [K1 [K2 K3]]. rewrite K2, K3 in A.
  eapply InvRx_reindex with (s := s) (ex := None) (ks0 := lock_ref_keys false l) (l' := l2); ssimpl.
  - exact R.
  - left; reflexivity.
  - rewrite K3. unfold keys_of, excluded. rewrite Hid, G. pose proof (ref_keys_incl_lock_ref_keys l) as K. rewrite E1 in K. exact K.
  - rewrite K3. exact A.
  - rewrite K1. reflexivity.
  - reflexivity.
Qed.

(* ------------------------------------------------------------------ frame: block time and parameters *)
Definition frame (s s' : state) : Prop := s_now s' = s_now s /\ s_allowed s' = s_allowed s.
Lemma frame_refl : forall s, frame s s. Proof. split; reflexivity. Qed.
Lemma frame_trans : forall a b c, frame a b -> frame b c -> frame a c.
Proof. intros a b c [H1 H2] [H3 H4]. split; congruence. Qed.

Lemma send_frame : forall s f t dn amt s', send s f t dn amt = Ok s' -> frame s s'.
Proof. intros. destruct (send_fields _ _ _ _ _ _ H) as [_ [_ [_ [_ [H1 H2]]]]]. split; assumption. Qed.
Lemma add_lock_refs_frame : forall s l s', add_lock_refs s l = Ok s' -> frame s s'.
Proof. intros s l s' H. apply add_lock_refs_spec in H. destruct H as [refs [_ ->]]. split; reflexivity. Qed.
Lemma lock_internal_frame : forall s l amt, frame s (lock_internal s l amt).
Proof. intros. destruct (lock_internal_core s l amt) as [_ [_ [_ [_ [H1 H2]]]]]. split; assumption. Qed.

Ltac fr := repeat match goal with
  | H : send _ _ _ _ _ = Ok _ |- _ => apply send_frame in H
  | H : add_lock_refs _ _ = Ok _ |- _ => apply add_lock_refs_frame in H
  end.

Lemma create_lock_frame : forall s o dn amt dur s', create_lock s o dn amt dur = Ok s' -> frame s s'.
Proof.
  intros s o dn amt dur s' H. unfold create_lock, bind in H. mon H. injection H as <-. fr.
  eapply frame_trans; [exact E|]. eapply frame_trans; [apply lock_internal_frame|]. eapply frame_trans; [exact E0|]. split; reflexivity.
Qed.
Lemma add_tokens_frame : forall s id o amt s', add_tokens_to_lock_by_id s id o amt = Ok s' -> frame s s'.
Proof.
  intros s id o amt s' H. unfold add_tokens_to_lock_by_id, bind in H. mon H. injection H as <-. fr.
  eapply frame_trans; [exact E1|]. eapply frame_trans; [apply lock_internal_frame|]. split; reflexivity.
Qed.
Lemma split_lock_frame : forall s l amt force s' l2, split_lock s l amt force = Ok (s', l2) -> frame s s'.
Proof. intros s l amt force s' l2 H. unfold split_lock in H. mon H. injection H as <- <-. split; reflexivity. Qed.
Lemma begin_unlock_internal_frame : forall s l dn amt s', begin_unlock_internal s l dn amt = Ok s' -> frame s s'.
Proof.
  intros s l dn amt s' H. unfold begin_unlock_internal, bind in H. mon H. fr.
  assert (K : frame s s0) by (destruct (is_partial dn amt l); [eapply split_lock_frame; eassumption|injection E1 as <- <-; apply frame_refl]).
  eapply frame_trans; [exact K|]. eapply frame_trans; [|exact H]. split; reflexivity.
Qed.
Lemma begin_unlock_frame : forall s id dn amt s', begin_unlock s id dn amt = Ok s' -> frame s s'.
Proof. intros s id dn amt s' H. unfold begin_unlock, bind in H. mon H. eapply begin_unlock_internal_frame; eassumption. Qed.
Lemma begin_unlock_list_frame : forall ls s s', begin_unlock_list s ls = Ok s' -> frame s s'.
Proof.
  induction ls as [|l r IH]; cbn [begin_unlock_list]; intros s s' H; [injection H as <-; apply frame_refl|].
  unfold bind in H. mon H. eapply frame_trans; [eapply begin_unlock_frame; eassumption|apply IH; assumption].
Qed.
Lemma unlock_internal_frame : forall s l s', unlock_internal s l = Ok s' -> frame s s'.
Proof.
  intros s l s' H. unfold unlock_internal, bind in H. mon H. injection H as <-. fr.
  eapply frame_trans; [exact E|]. split; reflexivity.
Qed.
Lemma unlock_matured_frame : forall s id s', unlock_matured_lock s id = Ok s' -> frame s s'.
Proof. intros s id s' H. unfold unlock_matured_lock, bind in H. mon H. eapply unlock_internal_frame; eassumption. Qed.
Lemma unlock_list_frame : forall ls s n c s', unlock_list s n c ls = Ok s' -> frame s s'.
Proof.
  induction ls as [|l r IH]; cbn [unlock_list]; intros s n c s' H; [injection H as <-; apply frame_refl|].
  mon H; [injection H as <-; apply frame_refl|]. eapply frame_trans; [eapply unlock_matured_frame; eassumption|eapply IH; eassumption].
Qed.
Lemma withdraw_frame : forall s n s', withdraw_matured_locks s n = Ok s' -> frame s s'.
Proof. intros s n s' H. unfold withdraw_matured_locks, bind in H. mon H. eapply unlock_list_frame; eassumption. Qed.
Lemma force_unlock_frame : forall s l s', force_unlock s l = Ok s' -> frame s s'.
Proof.
  intros s l s' H. unfold force_unlock, bind in H. mon H.
  assert (K : frame s a) by (destruct (negb (is_unlocking l)); [eapply begin_unlock_frame; eassumption|injection E as <-; apply frame_refl]).
  eapply frame_trans; [exact K|eapply unlock_internal_frame; eassumption].
Qed.
Lemma partial_force_unlock_frame : forall s l dn amt s', partial_force_unlock s l dn amt = Ok s' -> frame s s'.
Proof.
  intros s l dn amt s' H. unfold partial_force_unlock, bind in H. mon H.
  assert (K : frame s s0) by (destruct (is_partial dn amt l); [eapply split_lock_frame; eassumption|injection E0 as <- <-; apply frame_refl]).
  eapply frame_trans; [exact K|eapply force_unlock_frame; eassumption].
Qed.
Lemma set_rr_frame : forall s id o rr s', set_lock_reward_receiver s id o rr = Ok s' -> frame s s'.
Proof. intros s id o rr s' H. unfold set_lock_reward_receiver, bind in H. mon H. injection H as <-. split; reflexivity. Qed.
Lemma extend_frame : forall s id o dur s', extend_lockup s id o dur = Ok s' -> frame s s'.
Proof.
  intros s id o dur s' H. unfold extend_lockup, bind in H. mon H. injection H as <-. fr.
  assert (K : frame s s0).
  { destruct (dur =? 0); [injection E2 as <- <-; split; reflexivity|]. destruct (dur <=? l_dur a); [discriminate|]. injection E2 as <- <-. split; reflexivity. }
  eapply frame_trans; [exact K|]. eapply frame_trans; [exact E3|]. split; reflexivity.
Qed.

(* every handler except the block-time advance leaves block time and parameters alone *)
Lemma handle_frame : forall s o s', handle s o = Ok s' ->
  s_allowed s' = s_allowed s /\ match o with OTime t => s_now s <= t /\ s_now s' = t | _ => s_now s' = s_now s end.
Proof.
  intros s o s' H.
  assert (F : (match o with OTime _ => True | _ => frame s s' end)).
  { destruct o; cbn [handle] in H; try exact I.
    - unfold msg_lock_tokens, bind in H. mon H.
      + unfold add_to_existing_lock, bind in H. mon H. eapply add_tokens_frame; eassumption.
      + eapply create_lock_frame; eassumption.
    - mon H. eapply add_tokens_frame; eassumption.
    - unfold msg_extend_lockup, bind in H. mon H. injection H as <-. eapply extend_frame; eassumption.
    - unfold msg_begin_unlocking, bind in H. mon H. eapply begin_unlock_frame; eassumption.
    - unfold msg_begin_unlocking_all, begin_unlock_all_not_unlockings, bind in H. mon H. eapply begin_unlock_list_frame; eassumption.
    - eapply unlock_matured_frame; eassumption.
    - eapply withdraw_frame; eassumption.
    - unfold end_blocker in H. mon H; [eapply withdraw_frame; eassumption|injection H as <-; apply frame_refl].
    - unfold msg_set_reward_receiver in H. mon H. eapply set_rr_frame; eassumption.
    - unfold msg_force_unlock, bind in H. mon H. eapply partial_force_unlock_frame; eassumption. }
  destruct o; try (destruct F as [F1 F2]; split; assumption).
  cbn [handle] in H. mon H. injection H as <-. zb. ssimpl. split; [reflexivity|split; [assumption|reflexivity]].
Qed.

Lemma handle_now_pos : forall s o s', now_pos s -> handle s o = Ok s' -> now_pos s'.
Proof.
  intros s o s' Hn H. destruct (handle_frame _ _ _ H) as [_ F]. unfold now_pos in *. destruct o; try (rewrite F; assumption).
  destruct F as [F1 F2]. lia.
Qed.

(* ------------------------------------------------------------------ the reference invariant under every handler *)
Lemma handle_InvR : forall s o s', Inv0 s -> dur_pos s -> now_pos s -> InvR s -> handle s o = Ok s' -> InvR s'.
Proof.
  intros s o s' I D Hn R H. unfold Inv0, InvR in *. destruct o; cbn [handle] in *.
  - unfold msg_lock_tokens, bind in H. mon H.
    + unfold add_to_existing_lock, bind in H. mon H. eapply add_tokens_InvR; eassumption.
    + eapply create_lock_InvR; eassumption.
  - mon H. eapply add_tokens_InvR; eassumption.
  - unfold msg_extend_lockup, bind in H. mon H. injection H as <-. eapply extend_InvR; eassumption.
  - unfold msg_begin_unlocking, bind in H. mon H. eapply begin_unlock_InvR; [exact I|exact R|left; reflexivity|left; reflexivity|exact H].
  - unfold msg_begin_unlocking_all, begin_unlock_all_not_unlockings, bind in H. mon H. eapply begin_unlock_list_InvR; eassumption.
  - eapply unlock_matured_InvR; eassumption.
  - eapply withdraw_InvR; eassumption.
  - unfold end_blocker in H. mon H; [eapply withdraw_InvR; eassumption|injection H as <-; assumption].
  - unfold msg_set_reward_receiver in H. mon H. eapply set_rr_InvR; eassumption.
  - unfold msg_force_unlock, bind in H. mon H.
    destruct (get_by_id_ok _ _ _ E1) as [G [Hin Hid]]. rewrite <- Hid in G.
    eapply partial_force_unlock_InvR; [exact I|exact Hn|exact (D _ Hin)|exact R|exact G|exact H].
  - mon H. injection H as <-. eapply InvRx_ext; [exact R|reflexivity|reflexivity].
Qed.

(* all invariants together, along a history *)
Record Inv (s : state) : Prop := {
  inv0 : Inv0 s; inv_dur : dur_pos s; inv_now : now_pos s; inv_refs : InvR s }.

Lemma step_Inv : forall s o, Inv s -> op_sender_ok o -> Inv (fst (step s o)).
Proof.
  intros s o [I D Hn R] W. unfold step. destruct (handle s o) eqn:E; cbn [fst]; [|constructor; assumption].
  constructor; [eapply handle_Inv0|eapply handle_dur_pos|eapply handle_now_pos|eapply handle_InvR]; eassumption.
Qed.

Lemma run_Inv : forall ops s, Inv s -> Forall op_sender_ok ops -> Inv (run s ops).
Proof.
  induction ops as [|o r IH]; intros s I W; [assumption|].
  inversion W; subst. unfold run; cbn [fold_left]. apply IH; [apply step_Inv|]; assumption.
Qed.

Lemma init_Inv : forall t0 fund allowed, 0 < t0 -> Inv (init_state t0 fund allowed).
Proof.
  intros. constructor; [apply init_Inv0|intros l []|exact H|].
  split; [constructor|]. intros k id. cbn. tauto.
Qed.

(* the state after a history *)
Definition reachable (t0 : Z) (fund : Z -> Z -> Z) (allowed : list Z) (ops : list op) : state :=
  run (init_state t0 fund allowed) ops.

Lemma reachable_Inv : forall t0 fund allowed ops, 0 < t0 -> Forall op_sender_ok ops -> Inv (reachable t0 fund allowed ops).
Proof. intros. apply run_Inv; [apply init_Inv; assumption|assumption]. Qed.
