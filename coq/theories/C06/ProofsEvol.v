(* C06 proofs, part 7: how a lock record may change in one operation - owner and denomination never, duration only upwards
   and not while unlocking, end time only from "not unlocking" to block time + duration, and then never again. *)
From Coq Require Import ZArith List Bool Lia.
Import ListNotations.
From Osmo Require Import C06.Model C06.Proofs C06.ProofsAcc C06.ProofsRefs.
Open Scope Z_scope.

(* x = record of an id before, x' = record of the same id after *)
Definition ev (now last : Z) (x x' : option lock) : Prop :=
  match x' with
  | None => True                                          (* released: see not_early *)
  | Some l' =>
      match x with
      | Some l => l_owner l' = l_owner l /\ l_denom l' = l_denom l /\ l_dur l <= l_dur l' /\
                  (is_unlocking l = true -> l_end l' = l_end l /\ l_dur l' = l_dur l) /\
                  (is_unlocking l = false -> l_end l' = 0 \/ l_end l' = now + l_dur l')
      | None => last < l_id l' /\ (l_end l' = 0 \/ l_end l' = now + l_dur l')     (* a fresh id *)
      end
  end.
Definition Evol (s s' : state) : Prop :=
  forall i, ev (s_now s) (s_last s) (get_lock (s_locks s) i) (get_lock (s_locks s') i).

Lemma not_unlocking_end : forall l, is_unlocking l = false <-> l_end l = 0.
Proof. intros. unfold is_unlocking. rewrite negb_false_iff, Z.eqb_eq. tauto. Qed.

Lemma ev_refl : forall now last x, ev now last x x.
Proof.
  intros now last [l|]; cbn; [|exact I]. repeat split; try reflexivity; try lia.
  intros H. left. apply not_unlocking_end. assumption.
Qed.

Lemma ev_same_fields : forall now last l l', l_owner l' = l_owner l -> l_denom l' = l_denom l -> l_dur l' = l_dur l ->
  l_end l' = l_end l -> ev now last (Some l) (Some l').
Proof.
  intros now last l l' H1 H2 H3 H4. cbn. split; [assumption|split; [assumption|split; [lia|split]]].
  - intros _. split; assumption.
  - intros U. left. rewrite H4. apply not_unlocking_end. assumption.
Qed.

Lemma Evol_refl_locks : forall s s', s_locks s' = s_locks s -> Evol s s'.
Proof. intros s s' H i. rewrite H. apply ev_refl. Qed.

Lemma Evol_put : forall s s' l', s_locks s' = put_lock (s_locks s) l' ->
  ev (s_now s) (s_last s) (get_lock (s_locks s) (l_id l')) (Some l') -> Evol s s'.
Proof.
  intros s s' l' HL H i. rewrite HL, get_put. destruct (l_id l' =? i) eqn:E; [zb; subst i; assumption|apply ev_refl].
Qed.

Lemma Evol_del : forall s s' id, s_locks s' = del (s_locks s) id -> Evol s s'.
Proof. intros s s' id HL i. rewrite HL, get_del. destruct (id =? i); [exact I|apply ev_refl]. Qed.

Lemma Evol_trans : forall dl s s1 s2, Inv0d dl s -> s_now s1 = s_now s -> s_last s <= s_last s1 ->
  Evol s s1 -> Evol s1 s2 -> Evol s s2.
Proof.
  intros dl s s1 s2 I Hn Hl E1 E2 i. specialize (E1 i). specialize (E2 i). rewrite Hn in E2. unfold ev in *.
  destruct (get_lock (s_locks s2) i) as [l2|] eqn:G2; [|exact Logic.I].
  destruct (get_lock_In _ _ _ G2) as [_ Hid2].
  destruct (get_lock (s_locks s1) i) as [l1|] eqn:G1.
  - destruct E2 as [A1 [A2 [A3 [A4 A5]]]].
    assert (T : l_end l1 = 0 \/ l_end l1 = s_now s + l_dur l1 -> l_end l2 = 0 \/ l_end l2 = s_now s + l_dur l2).
    { intros T. destruct (is_unlocking l1) eqn:U1.
      - destruct (A4 eq_refl) as [B1 B2]. apply negb_true_iff, Z.eqb_neq in U1. right. destruct T; lia.
      - apply A5. reflexivity. }
    destruct (get_lock (s_locks s) i) as [l|] eqn:G.
    + destruct E1 as [B1 [B2 [B3 [B4 B5]]]]. split; [congruence|split; [congruence|split; [lia|split]]].
      * intros Ul. destruct (B4 Ul) as [C1 C2].
        assert (U1 : is_unlocking l1 = true) by (unfold is_unlocking in *; rewrite C1; assumption).
        destruct (A4 U1). split; congruence.
      * intros Ul. apply T, B5, Ul.
    + destruct E1 as [B1 B2]. destruct (get_lock_In _ _ _ G1) as [_ Hid1]. split; [lia|]. apply T, B2.
  - destruct E2 as [A1 A2]. destruct (get_lock (s_locks s) i) as [l|] eqn:G.
    + exfalso. destruct (get_lock_In _ _ _ G) as [Hin Hid]. pose proof (i_ids _ _ I _ Hin). lia.
    + split; [lia|assumption].
Qed.

(* ------------------------------------------------------------------ handlers: (Evol, last lock id only grows) *)
Definition Ev2 (s s' : state) : Prop := Evol s s' /\ s_last s <= s_last s' /\ s_now s' = s_now s.

Lemma Ev2_trans : forall dl s s1 s2, Inv0d dl s -> Ev2 s s1 -> Ev2 s1 s2 -> Ev2 s s2.
Proof.
  intros dl s s1 s2 I [A1 [A2 A3]] [B1 [B2 B3]]. split; [eapply Evol_trans; eassumption|split; [lia|congruence]].
Qed.
Lemma Ev2_refl : forall s, Ev2 s s.
Proof. intros. split; [apply Evol_refl_locks; reflexivity|split; [lia|reflexivity]]. Qed.

Lemma create_lock_Ev2 : forall dl s o dn amt dur s', Inv0d dl s -> create_lock s o dn amt dur = Ok s' -> Ev2 s s'.
Proof.
  intros dl s o dn amt dur s' I H. pose proof (create_lock_frame _ _ _ _ _ _ H) as [Fn _].
  unfold create_lock, bind in H. mon H. injection H as <-. rename a into s1.
  destruct (send_fields _ _ _ _ _ _ E) as [F1 [F2 _]]. apply add_lock_refs_core in E0. destruct E0 as [refs ->].
  destruct (lock_internal_core s1 (new_period_lock (s_last s1 + 1) o 0 dur 0 dn amt) amt) as [_ [L2 _]].
  split; [|split; [ssimpl; lia|exact Fn]].
  eapply Evol_put with (l' := new_period_lock (s_last s + 1) o 0 dur 0 dn amt).
  - ssimpl. rewrite L2, F1, F2. reflexivity.
  - lsimpl. rewrite (fresh_absent _ _ I). cbn. split; [lia|left; reflexivity].
Qed.

Lemma add_tokens_Ev2 : forall s id o amt s', add_tokens_to_lock_by_id s id o amt = Ok s' -> Ev2 s s'.
Proof.
  intros s id o amt s' H. pose proof (add_tokens_frame _ _ _ _ _ H) as [Fn _].
  unfold add_tokens_to_lock_by_id, bind in H. mon H. injection H as <-. rename a into l, a0 into s1.
  destruct (get_by_id_ok _ _ _ E) as [G [Hin Hid]]. destruct (send_fields _ _ _ _ _ _ E1) as [F1 [F2 _]].
  destruct (lock_internal_core s1 (with_amt l (l_amt l + amt)) amt) as [_ [L2 [L3 _]]].
  split; [|split; [ssimpl; rewrite L3; lia|exact Fn]].
  eapply Evol_put with (l' := with_amt l (l_amt l + amt)).
  - ssimpl. rewrite L2, F1. reflexivity.
  - lsimpl. rewrite Hid, G. apply ev_same_fields; reflexivity.
Qed.

Lemma split_lock_get : forall s l amt force s' l2, split_lock s l amt force = Ok (s', l2) ->
  l2 = new_period_lock (s_last s + 1) (l_owner l) (l_rr l) (l_dur l) (l_end l) (l_denom l) amt /\
  s_last s' = s_last s + 1 /\ s_now s' = s_now s /\
  forall i, get_lock (s_locks s') i =
    if s_last s + 1 =? i then Some l2 else if l_id l =? i then Some (with_amt l (l_amt l - amt)) else get_lock (s_locks s) i.
Proof.
  intros s l amt force s' l2 H. unfold split_lock in H. mon H. injection H as <- <-. ssimpl. lsimpl.
  repeat (split; [reflexivity|]). intros i. rewrite !get_put. lsimpl. reflexivity.
Qed.

Lemma unlock_internal_get : forall s l s', unlock_internal s l = Ok s' ->
  s_last s' = s_last s /\ s_now s' = s_now s /\
  forall i, get_lock (s_locks s') i = if l_id l =? i then None else get_lock (s_locks s) i.
Proof.
  intros s l s' H. unfold unlock_internal, bind in H. mon H. injection H as <-.
  destruct (send_fields _ _ _ _ _ _ E) as [F1 [F2 [_ [_ [F5 _]]]]]. ssimpl.
  split; [assumption|split; [assumption|]]. intros i. fold (del (s_locks a) (l_id l)). rewrite get_del, F1. reflexivity.
Qed.

(* splitting a lock that is not unlocking *)
Lemma split_lock_Ev2 : forall dl s l amt force s' l2, Inv0d dl s -> get_lock (s_locks s) (l_id l) = Some l ->
  is_unlocking l = false -> split_lock s l amt force = Ok (s', l2) -> Ev2 s s'.
Proof.
  intros dl s l amt force s' l2 I G U H. destruct (split_lock_get _ _ _ _ _ _ H) as [-> [K2 [K3 K4]]].
  split; [|split; [lia|assumption]]. intros i. rewrite K4.
  destruct (get_lock_In _ _ _ G) as [Hin _]. pose proof (i_ids _ _ I _ Hin).
  destruct (s_last s + 1 =? i) eqn:E1; zb.
  - subst i. rewrite (fresh_absent _ _ I). cbn. split; [lia|]. left. apply not_unlocking_end. assumption.
  - destruct (l_id l =? i) eqn:E2; [|apply ev_refl]. zb. subst i. rewrite G. apply ev_same_fields; reflexivity.
Qed.

Lemma begin_unlock_internal_Ev2 : forall dl s l dn amt s',
  Inv0d dl s -> get_lock (s_locks s) (l_id l) = Some l -> begin_unlock_internal s l dn amt = Ok s' -> Ev2 s s'.
Proof.
  intros dl s l dn amt s' I G H. unfold begin_unlock_internal, bind in H. mon H. rename s0 into s1, l0 into l1.
  assert (K : Inv0d dl s1 /\ Ev2 s s1 /\ get_lock (s_locks s1) (l_id l1) = Some l1 /\ is_unlocking l1 = false).
  { destruct (is_partial dn amt l).
    - destruct (split_lock_Inv0d _ _ _ _ _ _ _ I G E1) as [I1 [G1 [_ [_ [_ [_ [_ K4]]]]]]].
      split; [assumption|split; [eapply split_lock_Ev2; eassumption|split; [assumption|]]].
      unfold is_unlocking in *. rewrite K4. assumption.
    - injection E1 as <- <-. split; [assumption|split; [apply Ev2_refl|auto]]. }
  destruct K as [I1 [V1 [G1 U1]]]. apply add_lock_refs_core in H. destruct H as [refs ->].
  eapply Ev2_trans; [exact I|exact V1|]. split; [|split; [ssimpl; lia|reflexivity]].
  eapply Evol_put with (l' := with_end l1 (s_now s + l_dur l1)); [reflexivity|]. lsimpl. rewrite G1. cbn. lsimpl.
  destruct V1 as [_ [_ Vn]]. rewrite Vn.
  split; [reflexivity|split; [reflexivity|split; [lia|split]]]; [intros C; congruence|intros _; right; reflexivity].
Qed.

Lemma begin_unlock_Ev2 : forall dl s id dn amt s', Inv0d dl s -> begin_unlock s id dn amt = Ok s' -> Ev2 s s'.
Proof.
  intros dl s id dn amt s' I H. unfold begin_unlock, bind in H. mon H.
  destruct (get_by_id_ok _ _ _ E) as [G [_ Hid]]. rewrite <- Hid in G.
  eapply begin_unlock_internal_Ev2; eassumption.
Qed.

Lemma begin_unlock_list_Ev2 : forall dl ls s s', Inv0d dl s -> begin_unlock_list s ls = Ok s' -> Ev2 s s'.
Proof.
  induction ls as [|l r IH]; cbn [begin_unlock_list]; intros s s' I H.
  - injection H as <-. apply Ev2_refl.
  - unfold bind in H. mon H. destruct (begin_unlock_Inv0d _ _ _ _ _ _ I E) as [I1 _].
    eapply Ev2_trans; [exact I|eapply begin_unlock_Ev2; [exact I|exact E]|apply IH; assumption].
Qed.

Lemma unlock_internal_Ev2 : forall s l s', unlock_internal s l = Ok s' -> Ev2 s s'.
Proof.
  intros s l s' H. destruct (unlock_internal_get _ _ _ H) as [K1 [K2 K3]]. split; [|split; [lia|assumption]].
  intros i. rewrite K3. destruct (l_id l =? i); [exact I|apply ev_refl].
Qed.

Lemma unlock_matured_Ev2 : forall s id s', unlock_matured_lock s id = Ok s' -> Ev2 s s'.
Proof. intros s id s' H. unfold unlock_matured_lock, bind in H. mon H. eapply unlock_internal_Ev2; eassumption. Qed.

Lemma unlock_list_Ev2 : forall dl ls s n c s', Inv0d dl s -> unlock_list s n c ls = Ok s' -> Ev2 s s'.
Proof.
  induction ls as [|l r IH]; cbn [unlock_list]; intros s n c s' I H.
  - injection H as <-. apply Ev2_refl.
  - mon H; [injection H as <-; apply Ev2_refl|].
    eapply Ev2_trans; [exact I|eapply unlock_matured_Ev2; exact E0|eapply IH; [|exact H]].
    eapply unlock_matured_Inv0d; eassumption.
Qed.

Lemma force_unlock_Ev2 : forall dl s l s', Inv0d dl s -> force_unlock s l = Ok s' -> Ev2 s s'.
Proof.
  intros dl s l s' I H. unfold force_unlock, bind in H. mon H. rename a into s1.
  assert (K : Ev2 s s1).
  { destruct (negb (is_unlocking l)); [eapply begin_unlock_Ev2; eassumption|injection E as <-; apply Ev2_refl]. }
  eapply Ev2_trans; [exact I|exact K|eapply unlock_internal_Ev2; exact H].
Qed.

Lemma partial_force_unlock_Ev2 : forall dl s l dn amt s',
  Inv0d dl s -> get_lock (s_locks s) (l_id l) = Some l -> partial_force_unlock s l dn amt = Ok s' -> Ev2 s s'.
Proof.
  intros dl s l dn amt s' I G H. unfold partial_force_unlock, bind in H. mon H. rename s0 into s1, l0 into l1.
  destruct (is_partial dn amt l); [|injection E0 as <- <-; eapply force_unlock_Ev2; eassumption].
  destruct (is_unlocking l) eqn:Ul.
  - (* the split-off part of an unlocking lock carries the old end time; it is released within the same handler *)
    destruct (split_lock_get _ _ _ _ _ _ E0) as [K1 [K2 [K3 K4]]].
    destruct (split_lock_Inv0d _ _ _ _ _ _ _ I G E0) as [I1 [G1 [Hid1 _]]].
    unfold force_unlock, bind in H. mon H.
    assert (U1 : is_unlocking l1 = true) by (rewrite K1; unfold is_unlocking in *; lsimpl; assumption).
    rewrite U1 in E1. cbn [negb] in E1. injection E1 as <-.
    destruct (get_by_id_ok _ _ _ E2) as [G' [_ Hid']]. rewrite G1 in G'. injection G' as <-.
    destruct (unlock_internal_get _ _ _ H) as [J1 [J2 J3]].
    split; [|split; [lia|congruence]]. intros i. rewrite J3, K4, Hid1.
    destruct (get_lock_In _ _ _ G) as [Hin _]. pose proof (i_ids _ _ I _ Hin).
    destruct (s_last s + 1 =? i) eqn:E3; [exact Logic.I|].
    destruct (l_id l =? i) eqn:E4; [|apply ev_refl]. zb. subst i. rewrite G. apply ev_same_fields; reflexivity.
  - destruct (split_lock_Inv0d _ _ _ _ _ _ _ I G E0) as [I1 _].
    eapply Ev2_trans; [exact I|eapply split_lock_Ev2; eassumption|eapply force_unlock_Ev2; eassumption].
Qed.

Lemma set_rr_Ev2 : forall s id o rr s', set_lock_reward_receiver s id o rr = Ok s' -> Ev2 s s'.
Proof.
  intros s id o rr s' H. unfold set_lock_reward_receiver, bind in H. mon H. injection H as <-. rename a into l.
  destruct (get_by_id_ok _ _ _ E) as [G [_ Hid]]. split; [|split; [ssimpl; lia|reflexivity]].
  eapply Evol_put with (l' := with_rr l (if l_owner l =? rr then 0 else rr)); [reflexivity|].
  lsimpl. rewrite Hid, G. apply ev_same_fields; reflexivity.
Qed.

Lemma extend_Ev2 : forall s id o dur s', extend_lockup s id o dur = Ok s' -> Ev2 s s'.
Proof.
  intros s id o dur s' H. pose proof (extend_frame _ _ _ _ _ H) as [Fn _].
  unfold extend_lockup, bind in H. mon H. injection H as <-. rename l into l2. rename a into l, s0 into s2, a0 into s3.
  destruct (get_by_id_ok _ _ _ E) as [G [_ Hid]]. apply add_lock_refs_core in E3. destruct E3 as [refs ->].
  assert (K : s_locks s2 = s_locks s /\ s_last s2 = s_last s /\ (l2 = l \/ (l2 = with_dur l dur /\ l_dur l < dur))).
  { destruct (dur =? 0); [injection E2 as <- <-; ssimpl; auto|].
    destruct (dur <=? l_dur l) eqn:Ed; [discriminate|]. injection E2 as <- <-. zb. ssimpl. auto. }
  destruct K as [K1 [K2 K3]]. split; [|split; [ssimpl; lia|exact Fn]].
  eapply Evol_put with (l' := l2); [ssimpl; rewrite K1; reflexivity|].
  destruct K3 as [->|[-> Hd]]; [rewrite Hid, G; apply ev_same_fields; reflexivity|].
  lsimpl. rewrite Hid, G. cbn. lsimpl. split; [reflexivity|split; [reflexivity|split; [lia|split]]]; [intros C; congruence|].
  intros _. left. apply not_unlocking_end. assumption.
Qed.

Lemma handle_Ev2 : forall s o s', Inv0 s -> (forall t, o <> OTime t) -> handle s o = Ok s' -> Ev2 s s'.
Proof.
  intros s o s' I NT H. unfold Inv0 in *. destruct o; cbn [handle] in *.
  - unfold msg_lock_tokens, bind in H. mon H.
    + unfold add_to_existing_lock, bind in H. mon H. eapply add_tokens_Ev2; eassumption.
    + eapply create_lock_Ev2; eassumption.
  - mon H. eapply add_tokens_Ev2; eassumption.
  - unfold msg_extend_lockup, bind in H. mon H. injection H as <-. eapply extend_Ev2; eassumption.
  - unfold msg_begin_unlocking, bind in H. mon H. eapply begin_unlock_Ev2; eassumption.
  - unfold msg_begin_unlocking_all, begin_unlock_all_not_unlockings, bind in H. mon H. eapply begin_unlock_list_Ev2; eassumption.
  - eapply unlock_matured_Ev2; eassumption.
  - unfold withdraw_matured_locks, bind in H. mon H. eapply unlock_list_Ev2; eassumption.
  - unfold end_blocker in H. mon H; [|injection H as <-; apply Ev2_refl].
    unfold withdraw_matured_locks, bind in H. mon H. eapply unlock_list_Ev2; eassumption.
  - unfold msg_set_reward_receiver in H. mon H. eapply set_rr_Ev2; eassumption.
  - unfold msg_force_unlock, bind in H. mon H.
    destruct (get_by_id_ok _ _ _ E1) as [G [_ Hid]]. rewrite <- Hid in G.
    eapply partial_force_unlock_Ev2; eassumption.
  - exfalso. apply (NT t). reflexivity.
Qed.

(* one step of any history: every lock record evolves lawfully (a block-time advance changes no record at all) *)
Lemma step_Evol : forall s o, Inv0 s -> Evol s (fst (step s o)).
Proof.
  intros s o I. unfold step. destruct (handle s o) as [s'|e] eqn:E; cbn [fst]; [|apply Evol_refl_locks; reflexivity].
  assert (NTcase : (exists t, o = OTime t) \/ (forall t, o <> OTime t)) by (destruct o; try (right; intros; discriminate); left; eauto).
  destruct NTcase as [[t ->]|NT].
  - cbn [handle] in E. mon E. injection E as <-. apply Evol_refl_locks. reflexivity.
  - apply (handle_Ev2 _ _ _ I NT E).
Qed.

Lemma lock_evolution : forall t0 fund allowed ops o, Forall op_sender_ok ops ->
  let s := reachable t0 fund allowed ops in Evol s (fst (step s o)).
Proof. intros. apply step_Evol. apply run_Inv0; [apply init_Inv0|assumption]. Qed.
