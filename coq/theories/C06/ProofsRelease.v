(* C06 proofs, part 8: a lock disappears (outside a force-unlock) only when it is unlocking and its end time has passed; with the
   evolution rule this gives: a release never comes before the block time at which the lock began unlocking plus its duration. *)
From Coq Require Import ZArith List Bool Lia.
Import ListNotations.
From Osmo Require Import C06.Model C06.Proofs C06.ProofsAcc C06.ProofsRefs C06.ProofsTime C06.ProofsEvol.
Open Scope Z_scope.

(* ------------------------------------------------------------------ handlers that never delete a record *)
Definition Keep (s s' : state) : Prop := forall i, get_lock (s_locks s) i <> None -> get_lock (s_locks s') i <> None.
Lemma Keep_refl : forall s s', s_locks s' = s_locks s -> Keep s s'.
Proof. intros s s' H i. rewrite H. auto. Qed.
Lemma Keep_trans : forall a b c, Keep a b -> Keep b c -> Keep a c.
Proof. intros a b c H1 H2 i H. auto. Qed.
Lemma Keep_put : forall s s' l', s_locks s' = put_lock (s_locks s) l' -> Keep s s'.
Proof. intros s s' l' H i Hi. rewrite H, get_put. destruct (l_id l' =? i); [discriminate|assumption]. Qed.

Lemma create_lock_Keep : forall s o dn amt dur s', create_lock s o dn amt dur = Ok s' -> Keep s s'.
Proof.
  intros s o dn amt dur s' H. unfold create_lock, bind in H. mon H. injection H as <-. rename a into s1.
  destruct (send_fields _ _ _ _ _ _ E) as [F1 _]. apply add_lock_refs_core in E0. destruct E0 as [refs ->].
  destruct (lock_internal_core s1 (new_period_lock (s_last s1 + 1) o 0 dur 0 dn amt) amt) as [_ [L2 _]].
  eapply Keep_put. ssimpl. rewrite L2, F1. reflexivity.
Qed.
Lemma add_tokens_Keep : forall s id o amt s', add_tokens_to_lock_by_id s id o amt = Ok s' -> Keep s s'.
Proof.
  intros s id o amt s' H. unfold add_tokens_to_lock_by_id, bind in H. mon H. injection H as <-. rename a into l, a0 into s1.
  destruct (send_fields _ _ _ _ _ _ E1) as [F1 _].
  destruct (lock_internal_core s1 (with_amt l (l_amt l + amt)) amt) as [_ [L2 _]].
  eapply Keep_put. ssimpl. rewrite L2, F1. reflexivity.
Qed.
Lemma split_lock_Keep : forall s l amt force s' l2, split_lock s l amt force = Ok (s', l2) -> Keep s s'.
Proof.
  intros s l amt force s' l2 H. unfold split_lock in H. mon H. injection H as <- <-.
  eapply Keep_trans; [eapply Keep_put with (s' := set_lock s (with_amt l (l_amt l - amt))); reflexivity|].
  eapply Keep_put. reflexivity.
Qed.
Lemma begin_unlock_internal_Keep : forall s l dn amt s', begin_unlock_internal s l dn amt = Ok s' -> Keep s s'.
Proof.
  intros s l dn amt s' H. unfold begin_unlock_internal, bind in H. mon H. rename s0 into s1, l0 into l1.
  assert (K : Keep s s1) by (destruct (is_partial dn amt l); [eapply split_lock_Keep; eassumption|injection E1 as <- <-; apply Keep_refl; reflexivity]).
  apply add_lock_refs_core in H. destruct H as [refs ->].
  eapply Keep_trans; [exact K|]. eapply Keep_put. reflexivity.
Qed.
Lemma begin_unlock_Keep : forall s id dn amt s', begin_unlock s id dn amt = Ok s' -> Keep s s'.
Proof. intros s id dn amt s' H. unfold begin_unlock, bind in H. mon H. eapply begin_unlock_internal_Keep; eassumption. Qed.
Lemma begin_unlock_list_Keep : forall ls s s', begin_unlock_list s ls = Ok s' -> Keep s s'.
Proof.
  induction ls as [|l r IH]; cbn [begin_unlock_list]; intros s s' H; [injection H as <-; apply Keep_refl; reflexivity|].
  unfold bind in H. mon H. eapply Keep_trans; [eapply begin_unlock_Keep; eassumption|apply IH; assumption].
Qed.
Lemma set_rr_Keep : forall s id o rr s', set_lock_reward_receiver s id o rr = Ok s' -> Keep s s'.
Proof. intros s id o rr s' H. unfold set_lock_reward_receiver, bind in H. mon H. injection H as <-. eapply Keep_put. reflexivity. Qed.
Lemma extend_Keep : forall s id o dur s', extend_lockup s id o dur = Ok s' -> Keep s s'.
Proof.
  intros s id o dur s' H. unfold extend_lockup, bind in H. mon H. injection H as <-. rename l into l2. rename a into l, s0 into s2, a0 into s3.
  apply add_lock_refs_core in E3. destruct E3 as [refs ->].
  assert (K : s_locks s2 = s_locks s).
  { destruct (dur =? 0); [injection E2 as <- <-; reflexivity|]. destruct (dur <=? l_dur l); [discriminate|]. injection E2 as <- <-. reflexivity. }
  eapply Keep_put. ssimpl. rewrite K. reflexivity.
Qed.

(* ------------------------------------------------------------------ releases *)
(* Rel now s s': whatever disappears between s and s' had matured by block time now; what stays is the same record *)
Definition Rel (now : Z) (s s' : state) : Prop :=
  forall i l, get_lock (s_locks s) i = Some l ->
    match get_lock (s_locks s') i with None => matured_b now l = true | Some l' => l' = l end.

Lemma unlock_matured_Rel : forall s id s', unlock_matured_lock s id = Ok s' -> Rel (s_now s) s s' /\ s_now s' = s_now s.
Proof.
  intros s id s' H. unfold unlock_matured_lock, bind in H. mon H. zb.
  destruct (get_by_id_ok _ _ _ E) as [G [_ Hid]]. destruct (unlock_internal_get _ _ _ H) as [_ [K2 K3]].
  split; [|assumption]. intros i l Gi. rewrite K3, Hid. destruct (id =? i) eqn:Ei; [|rewrite Gi; reflexivity].
  zb. subst i. rewrite G in Gi. injection Gi as <-. unfold matured_b. rewrite E0. apply Z.leb_le. lia.
Qed.

(* a deleted id does not come back: unlock_list only deletes *)
Lemma unlock_list_no_return : forall r a n c s' i, unlock_list a n c r = Ok s' ->
  get_lock (s_locks a) i = None -> get_lock (s_locks s') i = None.
Proof.
  induction r as [|y r IH]; cbn [unlock_list]; intros a n c s' i H G.
  - injection H as <-. assumption.
  - mon H; [injection H as <-; assumption|]. unfold unlock_matured_lock, bind in E0. mon E0.
    destruct (unlock_internal_get _ _ _ E0) as [_ [_ K3]].
    eapply IH; [exact H|]. rewrite K3. destruct (l_id a1 =? i); [reflexivity|assumption].
Qed.

Lemma unlock_list_Rel : forall ls s n c s', unlock_list s n c ls = Ok s' -> Rel (s_now s) s s'.
Proof.
  induction ls as [|x r IH]; cbn [unlock_list]; intros s n c s' H.
  - injection H as <-. intros i l G. rewrite G. reflexivity.
  - mon H; [injection H as <-; intros i l G; rewrite G; reflexivity|].
    destruct (unlock_matured_Rel _ _ _ E0) as [R1 Hn]. specialize (IH _ _ _ _ H). rewrite Hn in IH.
    intros i l G. specialize (R1 i l G). destruct (get_lock (s_locks a) i) as [l1|] eqn:G1.
    + subst l1. apply (IH i l G1).
    + destruct (get_lock (s_locks s') i) as [l'|] eqn:G'; [|assumption].
      exfalso. rewrite (unlock_list_no_return _ _ _ _ _ i H G1) in G'. discriminate.
Qed.

Lemma handle_release : forall s o s', handle s o = Ok s' -> (forall a id dn amt, o <> OForce a id dn amt) ->
  forall i l, get_lock (s_locks s) i = Some l -> get_lock (s_locks s') i = None ->
  is_unlocking l = true /\ l_end l <= s_now s.
Proof.
  intros s o s' H NF i l G G'.
  assert (M : matured_b (s_now s) l = true -> is_unlocking l = true /\ l_end l <= s_now s).
  { unfold matured_b. destruct (is_unlocking l); [|discriminate]. intros Hm. zb. auto. }
  assert (KeepCase : Keep s s' -> is_unlocking l = true /\ l_end l <= s_now s).
  { intros K. exfalso. apply (K i); [rewrite G; discriminate|assumption]. }
  destruct o; cbn [handle] in H.
  - apply KeepCase. unfold msg_lock_tokens, bind in H. mon H.
    + unfold add_to_existing_lock, bind in H. mon H. eapply add_tokens_Keep; eassumption.
    + eapply create_lock_Keep; eassumption.
  - apply KeepCase. mon H. eapply add_tokens_Keep; eassumption.
  - apply KeepCase. unfold msg_extend_lockup, bind in H. mon H. injection H as <-. eapply extend_Keep; eassumption.
  - apply KeepCase. unfold msg_begin_unlocking, bind in H. mon H. eapply begin_unlock_Keep; eassumption.
  - apply KeepCase. unfold msg_begin_unlocking_all, begin_unlock_all_not_unlockings, bind in H. mon H. eapply begin_unlock_list_Keep; eassumption.
  - apply M. destruct (unlock_matured_Rel _ _ _ H) as [R _]. specialize (R i l G). rewrite G' in R. exact R.
  - apply M. unfold withdraw_matured_locks, bind in H. mon H. pose proof (unlock_list_Rel _ _ _ _ _ H i l G) as R. rewrite G' in R. exact R.
  - unfold end_blocker in H. mon H; [|injection H as <-; congruence].
    apply M. unfold withdraw_matured_locks, bind in H. mon H. pose proof (unlock_list_Rel _ _ _ _ _ H i l G) as R. rewrite G' in R. exact R.
  - apply KeepCase. unfold msg_set_reward_receiver in H. mon H. eapply set_rr_Keep; eassumption.
  - exfalso. apply (NF o id dn amt). reflexivity.
  - mon H. injection H as <-. ssimpl. congruence.
Qed.

(* ------------------------------------------------------------------ begin-unlock times along a history *)
Definition was_unlocking (s : state) (i : Z) : bool :=
  match get_lock (s_locks s) i with Some l => is_unlocking l | None => false end.
(* bt i = block time of the latest operation in which lock i went from "absent or not unlocking" to "unlocking" *)
Definition bt_step (s s' : state) (bt : Z -> Z) : Z -> Z :=
  fun i => if was_unlocking s' i then if was_unlocking s i then bt i else s_now s else bt i.
Fixpoint trace (s : state) (bt : Z -> Z) (ops : list op) : state * (Z -> Z) :=
  match ops with
  | [] => (s, bt)
  | o :: r => let s' := fst (step s o) in trace s' (bt_step s s' bt) r
  end.

Lemma trace_run : forall ops s bt, fst (trace s bt ops) = run s ops.
Proof. induction ops as [|o r IH]; intros; [reflexivity|]. cbn [trace]. rewrite IH. reflexivity. Qed.

(* every unlocking lock ends exactly at its begin-unlock block time + its duration *)
Definition Timed (s : state) (bt : Z -> Z) : Prop :=
  forall i l, get_lock (s_locks s) i = Some l -> is_unlocking l = true -> l_end l = bt i + l_dur l.

Lemma Timed_step : forall s s' bt, Evol s s' -> Timed s bt -> Timed s' (bt_step s s' bt).
Proof.
  intros s s' bt E T i l' G' U'. specialize (E i). rewrite G' in E. unfold bt_step, was_unlocking. rewrite G', U'.
  destruct (get_lock (s_locks s) i) as [l|] eqn:G; cbn in E.
  - destruct E as [_ [_ [_ [E1 E2]]]]. destruct (is_unlocking l) eqn:U.
    + destruct (E1 eq_refl) as [-> ->]. apply (T i l G U).
    + destruct (E2 eq_refl) as [E0|E0]; [|assumption]. apply not_unlocking_end in E0. congruence.
  - destruct E as [_ [E0|E0]]; [|assumption]. apply not_unlocking_end in E0. congruence.
Qed.

Lemma trace_Timed : forall ops s bt, Inv0 s -> Forall op_sender_ok ops -> Timed s bt ->
  Timed (fst (trace s bt ops)) (snd (trace s bt ops)).
Proof.
  induction ops as [|o r IH]; intros s bt I W T; [assumption|]. inversion W; subst. cbn [trace].
  apply IH; [apply step_Inv0; assumption|assumption|]. apply Timed_step; [apply step_Evol; assumption|assumption].
Qed.

(* the time-lock, in one statement: after any history, if an operation other than a force-unlock makes lock i disappear, then
   lock i was unlocking and the block time is at least (the block time at which it began unlocking) + (its duration) *)
Lemma time_lock : forall t0 fund allowed ops o i l, Forall op_sender_ok ops ->
  (forall a id dn amt, o <> OForce a id dn amt) ->
  let s := fst (trace (init_state t0 fund allowed) (fun _ => 0) ops) in
  let bt := snd (trace (init_state t0 fund allowed) (fun _ => 0) ops) in
  get_lock (s_locks s) i = Some l -> get_lock (s_locks (fst (step s o))) i = None ->
  is_unlocking l = true /\ bt i + l_dur l <= s_now s.
Proof.
  intros t0 fund allowed ops o i l W NF s bt G G'.
  assert (T : Timed s bt).
  { apply trace_Timed; [apply init_Inv0|assumption|]. intros j x Gx. cbn in Gx. discriminate. }
  unfold step in G'. destruct (handle s o) as [s'|e] eqn:E; cbn [fst] in G'; [|congruence].
  destruct (handle_release _ _ _ E NF i l G G') as [U Hle]. split; [assumption|]. rewrite <- (T i l G U). assumption.
Qed.
