(* C06 proofs, part 2: the accumulation store of every denomination agrees with the live locks. *)
From Coq Require Import ZArith List Bool Lia.
Import ListNotations.
From Osmo Require Import C06.Model C06.Proofs.
Open Scope Z_scope.

(* contribution of a lock to "amount of denomination dn locked under a duration key >= k" *)
Definition ca (dn k : Z) (l : lock) : Z :=
  if l_denom l =? dn then if k <=? acc_key (l_dur l) then l_amt l else 0 else 0.
Definition adefect (s : state) (dn k : Z) : Z := acc_from (s_acc s) dn k - lsum (ca dn k) (s_locks s).

Lemma acc_from_increase : forall acc dn0 k0 amt dn k,
  acc_from (acc_increase acc dn0 k0 amt) dn k
  = acc_from acc dn k + (if dn0 =? dn then if k <=? k0 then amt else 0 else 0).
Proof.
  induction acc as [|[[dn' k'] v] r IH]; intros dn0 k0 amt dn k; cbn [acc_increase acc_from].
  - destruct (dn0 =? dn); lia.
  - destruct (dn0 =? dn') eqn:E1.
    + zb. subst dn'. destruct (k0 =? k') eqn:E2.
      * zb. subst k'. cbn [acc_from]. destruct (dn0 =? dn); destruct (k <=? k0); lia.
      * destruct (k0 <? k'); cbn [acc_from]; [|rewrite IH]; destruct (dn0 =? dn); destruct (k <=? k0); lia.
    + destruct (dn0 <? dn'); cbn [acc_from]; [|rewrite IH]; destruct (dn0 =? dn); destruct (k <=? k0); lia.
Qed.

Lemma adefect_inc : forall s dn0 d amt dn k,
  adefect (inc_acc s dn0 d amt) dn k = adefect s dn k + (if dn0 =? dn then if k <=? acc_key d then amt else 0 else 0).
Proof. intros. unfold adefect, inc_acc. ssimpl. rewrite acc_from_increase. lia. Qed.
Lemma adefect_dec : forall s dn0 d amt dn k,
  adefect (dec_acc s dn0 d amt) dn k = adefect s dn k - (if dn0 =? dn then if k <=? acc_key d then amt else 0 else 0).
Proof.
  intros. unfold adefect, dec_acc, acc_decrease. ssimpl. rewrite acc_from_increase.
  destruct (dn0 =? dn); destruct (k <=? acc_key d); lia.
Qed.

(* the defect only depends on the lock table and the accumulation store *)
Lemma adefect_ext : forall s s', s_locks s' = s_locks s -> s_acc s' = s_acc s -> forall dn k, adefect s' dn k = adefect s dn k.
Proof. intros s s' H1 H2 dn k. unfold adefect. rewrite H1, H2. reflexivity. Qed.

Lemma adefect_put : forall s s' l' dn k, s_locks s' = put_lock (s_locks s) l' -> s_acc s' = s_acc s ->
  adefect s' dn k = adefect s dn k + match get_lock (s_locks s) (l_id l') with Some l0 => ca dn k l0 | None => 0 end - ca dn k l'.
Proof. intros s s' l' dn k H1 H2. unfold adefect. rewrite H1, H2, lsum_put. lia. Qed.

Lemma adefect_del : forall s s' id dn k, NoDup (ids (s_locks s)) -> s_locks s' = del (s_locks s) id -> s_acc s' = s_acc s ->
  adefect s' dn k = adefect s dn k + match get_lock (s_locks s) id with Some l0 => ca dn k l0 | None => 0 end.
Proof. intros s s' id dn k ND H1 H2. unfold adefect. rewrite H1, H2, lsum_del by assumption. lia. Qed.

Lemma lock_internal_adefect : forall s l amt dn k, 0 <= amt ->
  adefect (lock_internal s l amt) dn k
  = adefect s dn k + match get_lock (s_locks s) (l_id l) with Some l0 => ca dn k l0 | None => 0 end - ca dn k l
    + (if l_denom l =? dn then if k <=? acc_key (l_dur l) then amt else 0 else 0).
Proof.
  intros s l amt dn k Ha. unfold lock_internal. destruct (amt =? 0) eqn:E; zb.
  - rewrite (adefect_put s (set_lock s l) l) by reflexivity. subst. destruct (l_denom l =? dn); destruct (k <=? acc_key (l_dur l)); lia.
  - rewrite adefect_inc. rewrite (adefect_put s (set_lock s l) l) by reflexivity. lia.
Qed.

Ltac cases_eqb :=
  repeat match goal with
  | |- context [if ?b then _ else _] => destruct b eqn:?
  end; zb; try lia.

Lemma create_lock_adefect : forall dl s o dn0 amt dur s',
  Inv0d dl s -> 0 <= amt -> create_lock s o dn0 amt dur = Ok s' -> forall dn k, adefect s' dn k = adefect s dn k.
Proof.
  intros dl s o dn0 amt dur s' I Ha H dn k. unfold create_lock, bind in H. mon H. injection H as <-.
  destruct (send_fields _ _ _ _ _ _ E) as [F1 [F2 [_ [F4 _]]]].
  apply add_lock_refs_core in E0. destruct E0 as [refs ->].
  rewrite (adefect_ext (lock_internal a (new_period_lock (s_last a + 1) o 0 dur 0 dn0 amt) amt)) by reflexivity.
  rewrite lock_internal_adefect by assumption. rewrite (adefect_ext s a) by assumption.
  lsimpl. rewrite F1, F2, (fresh_absent _ _ I). unfold ca; lsimpl. cases_eqb.
Qed.

Lemma add_tokens_adefect : forall s id o amt s',
  0 <= amt -> add_tokens_to_lock_by_id s id o amt = Ok s' -> forall dn k, dn <> 0 -> adefect s' dn k = adefect s dn k.
Proof.
  intros s id o amt s' Ha H dn k Hdn. unfold add_tokens_to_lock_by_id, bind in H. mon H. injection H as <-.
  rename a into l, a0 into s1. destruct (get_by_id_ok _ _ _ E) as [G [_ Hid]].
  destruct (send_fields _ _ _ _ _ _ E1) as [F1 [F2 [_ [F4 _]]]].
  rewrite adefect_inc, lock_internal_adefect by assumption. rewrite (adefect_ext s s1) by assumption.
  lsimpl. rewrite F1, Hid, G. unfold ca; lsimpl. cases_eqb.
Qed.

Lemma split_lock_adefect : forall dl s l amt force s' l2,
  Inv0d dl s -> get_lock (s_locks s) (l_id l) = Some l -> split_lock s l amt force = Ok (s', l2) ->
  forall dn k, adefect s' dn k = adefect s dn k.
Proof.
  intros dl s l amt force s' l2 I G H dn k. unfold split_lock in H. mon H. injection H as <- <-.
  unfold adefect. ssimpl. rewrite !lsum_put, get_put. lsimpl. rewrite G.
  destruct (get_lock_In _ _ _ G) as [Hin _]. pose proof (i_ids _ _ I _ Hin).
  destruct (l_id l =? s_last s + 1) eqn:E1; [zb; lia|]. rewrite (fresh_absent _ _ I).
  unfold ca; lsimpl. cases_eqb.
Qed.

Lemma begin_unlock_internal_adefect : forall dl s l dn0 amt s',
  Inv0d dl s -> get_lock (s_locks s) (l_id l) = Some l -> begin_unlock_internal s l dn0 amt = Ok s' ->
  forall dn k, adefect s' dn k = adefect s dn k.
Proof.
  intros dl s l dn0 amt s' I G H dn k. unfold begin_unlock_internal, bind in H. mon H. rename s0 into s1, l0 into l1.
  assert (K : get_lock (s_locks s1) (l_id l1) = Some l1 /\ adefect s1 dn k = adefect s dn k).
  { destruct (is_partial dn0 amt l).
    - destruct (split_lock_Inv0d _ _ _ _ _ _ _ I G E1) as [_ [G1 _]]. split; [assumption|]. eapply split_lock_adefect; eassumption.
    - injection E1 as <- <-. auto. }
  destruct K as [G1 <-]. apply add_lock_refs_core in H. destruct H as [refs ->].
  unfold adefect. ssimpl. rewrite lsum_put. lsimpl. rewrite G1. unfold ca; lsimpl. lia.
Qed.

Lemma begin_unlock_adefect : forall dl s id dn0 amt s',
  Inv0d dl s -> begin_unlock s id dn0 amt = Ok s' -> forall dn k, adefect s' dn k = adefect s dn k.
Proof.
  intros dl s id dn0 amt s' I H. unfold begin_unlock, bind in H. mon H.
  destruct (get_by_id_ok _ _ _ E) as [G [_ Hid]]. rewrite <- Hid in G.
  eapply begin_unlock_internal_adefect; eassumption.
Qed.

Lemma begin_unlock_list_adefect : forall dl ls s s',
  Inv0d dl s -> begin_unlock_list s ls = Ok s' -> forall dn k, adefect s' dn k = adefect s dn k.
Proof.
  induction ls as [|l r IH]; cbn [begin_unlock_list]; intros s s' I H dn k.
  - injection H as <-. reflexivity.
  - unfold bind in H. mon H. destruct (begin_unlock_Inv0d _ _ _ _ _ _ I E) as [I1 _].
    rewrite (IH _ _ I1 H). eapply begin_unlock_adefect; eassumption.
Qed.

Lemma unlock_internal_adefect : forall dl s l s',
  Inv0d dl s -> get_lock (s_locks s) (l_id l) = Some l -> unlock_internal s l = Ok s' ->
  forall dn k, adefect s' dn k = adefect s dn k.
Proof.
  intros dl s l s' I G H dn k. unfold unlock_internal, bind in H. mon H. injection H as <-. rename a into s1.
  destruct (send_fields _ _ _ _ _ _ E) as [F1 [F2 [_ [F4 _]]]].
  assert (ND : NoDup (ids (s_locks s1))) by (rewrite F1; apply I).
  unfold adefect. ssimpl. unfold acc_decrease. fold (del (s_locks s1) (l_id l)).
  rewrite acc_from_increase, lsum_del by assumption. rewrite F1, F4, G. unfold ca. cases_eqb.
Qed.

Lemma unlock_matured_adefect : forall dl s id s',
  Inv0d dl s -> unlock_matured_lock s id = Ok s' -> forall dn k, adefect s' dn k = adefect s dn k.
Proof.
  intros dl s id s' I H. unfold unlock_matured_lock, bind in H. mon H.
  destruct (get_by_id_ok _ _ _ E) as [G [_ Hid]]. rewrite <- Hid in G.
  eapply unlock_internal_adefect; eassumption.
Qed.

Lemma unlock_list_adefect : forall dl ls s n c s',
  Inv0d dl s -> unlock_list s n c ls = Ok s' -> forall dn k, adefect s' dn k = adefect s dn k.
Proof.
  induction ls as [|l r IH]; cbn [unlock_list]; intros s n c s' I H dn k.
  - injection H as <-. reflexivity.
  - mon H; [injection H as <-; reflexivity|].
    rewrite (IH _ _ _ _ (unlock_matured_Inv0d _ _ _ _ I E0) H). eapply unlock_matured_adefect; eassumption.
Qed.

Lemma withdraw_adefect : forall dl s n s',
  Inv0d dl s -> withdraw_matured_locks s n = Ok s' -> forall dn k, adefect s' dn k = adefect s dn k.
Proof.
  intros dl s n s' I H. unfold withdraw_matured_locks, bind in H. mon H. eapply unlock_list_adefect; eassumption.
Qed.

Lemma force_unlock_adefect : forall dl s l s',
  Inv0d dl s -> get_lock (s_locks s) (l_id l) = Some l -> force_unlock s l = Ok s' ->
  forall dn k, adefect s' dn k = adefect s dn k.
Proof.
  intros dl s l s' I G H dn k. unfold force_unlock, bind in H. mon H. rename a into s1, a0 into l'.
  assert (K : Inv0d dl s1 /\ adefect s1 dn k = adefect s dn k).
  { destruct (negb (is_unlocking l)).
    - split; [eapply begin_unlock_Inv0d; eassumption|eapply begin_unlock_adefect; eassumption].
    - injection E as <-; auto. }
  destruct K as [I1 <-]. destruct (get_by_id_ok _ _ _ E0) as [G' [_ Hid]]. rewrite <- Hid in G'.
  eapply unlock_internal_adefect; eassumption.
Qed.

Lemma partial_force_unlock_adefect : forall dl s l dn0 amt s',
  Inv0d dl s -> get_lock (s_locks s) (l_id l) = Some l -> partial_force_unlock s l dn0 amt = Ok s' ->
  forall dn k, adefect s' dn k = adefect s dn k.
Proof.
  intros dl s l dn0 amt s' I G H dn k. unfold partial_force_unlock, bind in H. mon H. rename s0 into s1, l0 into l1.
  assert (K : Inv0d dl s1 /\ get_lock (s_locks s1) (l_id l1) = Some l1 /\ adefect s1 dn k = adefect s dn k).
  { destruct (is_partial dn0 amt l).
    - destruct (split_lock_Inv0d _ _ _ _ _ _ _ I G E0) as [I1 [G1 _]]. split; [assumption|split; [assumption|]]. eapply split_lock_adefect; eassumption.
    - injection E0 as <- <-. auto. }
  destruct K as [I1 [G1 <-]]. eapply force_unlock_adefect; eassumption.
Qed.

Lemma set_rr_adefect : forall s id o rr s',
  set_lock_reward_receiver s id o rr = Ok s' -> forall dn k, adefect s' dn k = adefect s dn k.
Proof.
  intros s id o rr s' H dn k. unfold set_lock_reward_receiver, bind in H. mon H. injection H as <-. rename a into l.
  destruct (get_by_id_ok _ _ _ E) as [G [_ Hid]].
  unfold adefect. ssimpl. rewrite lsum_put. lsimpl. rewrite Hid, G. unfold ca; lsimpl. lia.
Qed.

Lemma extend_adefect : forall s id o dur s',
  extend_lockup s id o dur = Ok s' -> forall dn k, adefect s' dn k = adefect s dn k.
Proof.
  intros s id o dur s' H dn k. unfold extend_lockup, bind in H. mon H. injection H as <-. rename l into l2. rename a into l, s0 into s2, a0 into s3.
  destruct (get_by_id_ok _ _ _ E) as [G [_ Hid]].
  apply add_lock_refs_core in E3. destruct E3 as [refs ->].
  destruct (dur =? 0).
  - injection E2 as <- <-. unfold adefect. ssimpl. rewrite lsum_put, Hid, G. lia.
  - destruct (dur <=? l_dur l); [discriminate|]. injection E2 as <- <-.
    unfold adefect. ssimpl. unfold acc_decrease. rewrite lsum_put, !acc_from_increase. lsimpl. rewrite Hid, G. unfold ca; lsimpl. cases_eqb.
Qed.

Lemma handle_adefect : forall s o s', Inv0 s -> handle s o = Ok s' -> forall dn k, dn <> 0 -> adefect s' dn k = adefect s dn k.
Proof.
  intros s o s' I H dn k Hdn. unfold Inv0 in *. destruct o; cbn [handle] in *.
  - unfold msg_lock_tokens, bind in H. mon H; zb.
    + unfold add_to_existing_lock, bind in H. mon H. eapply add_tokens_adefect; try eassumption; lia.
    + eapply create_lock_adefect; try eassumption; lia.
  - mon H. zb. eapply add_tokens_adefect; try eassumption; lia.
  - unfold msg_extend_lockup, bind in H. mon H. injection H as <-. eapply extend_adefect; eassumption.
  - unfold msg_begin_unlocking, bind in H. mon H. eapply begin_unlock_adefect; eassumption.
  - unfold msg_begin_unlocking_all, begin_unlock_all_not_unlockings, bind in H. mon H.
    eapply begin_unlock_list_adefect; eassumption.
  - eapply unlock_matured_adefect; eassumption.
  - eapply withdraw_adefect; eassumption.
  - unfold end_blocker in H. mon H; [eapply withdraw_adefect; eassumption|injection H as <-; reflexivity].
  - unfold msg_set_reward_receiver in H. mon H. eapply set_rr_adefect; eassumption.
  - unfold msg_force_unlock, bind in H. mon H.
    destruct (get_by_id_ok _ _ _ E1) as [G [_ Hid]]. rewrite <- Hid in G.
    eapply partial_force_unlock_adefect; eassumption.
  - mon H. injection H as <-. reflexivity.
Qed.

Lemma run_adefect : forall ops s, Inv0 s -> Forall op_sender_ok ops ->
  forall dn k, dn <> 0 -> adefect (run s ops) dn k = adefect s dn k.
Proof.
  induction ops as [|o r IH]; intros s I W dn k Hdn; [reflexivity|].
  inversion W; subst. unfold run; cbn [fold_left]. fold (run (fst (step s o)) r).
  rewrite IH by (try apply step_Inv0; assumption).
  unfold step. destruct (handle s o) eqn:E; cbn [fst]; [|reflexivity]. eapply handle_adefect; eassumption.
Qed.

(* for every denomination and every duration d >= 0: accumulation(>= d) = sum over the live locks with duration >= d
   (durations of live locks are positive, see [run_durations_positive]) *)
Definition locked_longer (ls : list lock) (dn d : Z) : Z :=
  lsum (fun l => if l_denom l =? dn then if d <=? l_dur l then l_amt l else 0 else 0) ls.

Lemma accum_eq_key : forall t0 fund allowed ops dn k, Forall op_sender_ok ops -> dn <> 0 ->
  let s := run (init_state t0 fund allowed) ops in
  acc_from (s_acc s) dn k = lsum (ca dn k) (s_locks s).
Proof.
  intros. subst s. pose proof (run_adefect ops _ (init_Inv0 t0 fund allowed) H dn k H0) as D.
  unfold adefect in D. cbn [init_state s_acc s_locks acc_from lsum] in D. lia.
Qed.

(* ------------------------------------------------------------------ durations of live locks are positive *)
Definition dur_pos (s : state) : Prop := forall l, In l (s_locks s) -> 0 < l_dur l.

Lemma dur_pos_put : forall s s' l', dur_pos s -> s_locks s' = put_lock (s_locks s) l' -> 0 < l_dur l' -> dur_pos s'.
Proof. intros s s' l' D HL Hp l Hi. rewrite HL in Hi. apply In_put in Hi. destruct Hi as [->|Hi]; auto. Qed.
Lemma dur_pos_del : forall s s' id, dur_pos s -> s_locks s' = del (s_locks s) id -> dur_pos s'.
Proof. intros s s' id D HL l Hi. rewrite HL in Hi. apply In_del in Hi. apply D; tauto. Qed.
Lemma dur_pos_ext : forall s s', dur_pos s -> s_locks s' = s_locks s -> dur_pos s'.
Proof. intros s s' D HL l Hi. rewrite HL in Hi. auto. Qed.

Lemma create_lock_dur_pos : forall s o dn amt dur s', dur_pos s -> 0 < dur -> create_lock s o dn amt dur = Ok s' -> dur_pos s'.
Proof.
  intros s o dn amt dur s' D Hd H. unfold create_lock, bind in H. mon H. injection H as <-.
  destruct (send_fields _ _ _ _ _ _ E) as [F1 _]. apply add_lock_refs_core in E0. destruct E0 as [refs ->].
  destruct (lock_internal_core a (new_period_lock (s_last a + 1) o 0 dur 0 dn amt) amt) as [_ [L2 _]].
  eapply dur_pos_put with (s := a); [eapply dur_pos_ext; eassumption|ssimpl; exact L2|lsimpl; assumption].
Qed.

Lemma add_tokens_dur_pos : forall s id o amt s', dur_pos s -> add_tokens_to_lock_by_id s id o amt = Ok s' -> dur_pos s'.
Proof.
  intros s id o amt s' D H. unfold add_tokens_to_lock_by_id, bind in H. mon H. injection H as <-. rename a into l, a0 into s1.
  destruct (get_by_id_ok _ _ _ E) as [G [Hin Hid]]. destruct (send_fields _ _ _ _ _ _ E1) as [F1 _].
  destruct (lock_internal_core s1 (with_amt l (l_amt l + amt)) amt) as [_ [L2 _]].
  eapply dur_pos_put with (s := s1); [eapply dur_pos_ext; eassumption|ssimpl; exact L2|lsimpl; auto].
Qed.

Lemma split_lock_dur_pos : forall s l amt force s' l2, dur_pos s -> In l (s_locks s) -> split_lock s l amt force = Ok (s', l2) -> dur_pos s'.
Proof.
  intros s l amt force s' l2 D Hin H. unfold split_lock in H. mon H. injection H as <- <-.
  eapply dur_pos_put with (s := set_last (set_lock s (with_amt l (l_amt l - amt))) (s_last s + 1)); [|reflexivity|lsimpl; auto].
  eapply dur_pos_put with (s := s); [assumption|reflexivity|lsimpl; auto].
Qed.

Lemma begin_unlock_internal_dur_pos : forall dl s l dn amt s',
  Inv0d dl s -> dur_pos s -> get_lock (s_locks s) (l_id l) = Some l -> begin_unlock_internal s l dn amt = Ok s' -> dur_pos s'.
Proof.
  intros dl s l dn amt s' I D G H. unfold begin_unlock_internal, bind in H. mon H. rename s0 into s1, l0 into l1.
  destruct (get_lock_In _ _ _ G) as [Hin _].
  assert (K : dur_pos s1 /\ In l1 (s_locks s1)).
  { destruct (is_partial dn amt l).
    - destruct (split_lock_Inv0d _ _ _ _ _ _ _ I G E1) as [_ [G1 _]]. split; [eapply split_lock_dur_pos; eassumption|].
      apply get_lock_In in G1; tauto.
    - injection E1 as <- <-. auto. }
  destruct K as [D1 Hin1]. apply add_lock_refs_core in H. destruct H as [refs ->].
  eapply dur_pos_put with (s := s1); [assumption|reflexivity|lsimpl; auto].
Qed.

Lemma begin_unlock_dur_pos : forall dl s id dn amt s', Inv0d dl s -> dur_pos s -> begin_unlock s id dn amt = Ok s' -> dur_pos s'.
Proof.
  intros dl s id dn amt s' I D H. unfold begin_unlock, bind in H. mon H.
  destruct (get_by_id_ok _ _ _ E) as [G [_ Hid]]. rewrite <- Hid in G.
  eapply begin_unlock_internal_dur_pos; eassumption.
Qed.

Lemma begin_unlock_list_dur_pos : forall dl ls s s', Inv0d dl s -> dur_pos s -> begin_unlock_list s ls = Ok s' -> dur_pos s'.
Proof.
  induction ls as [|l r IH]; cbn [begin_unlock_list]; intros s s' I D H.
  - injection H as <-. assumption.
  - unfold bind in H. mon H. destruct (begin_unlock_Inv0d _ _ _ _ _ _ I E) as [I1 _].
    eapply IH; [exact I1| |exact H]. eapply begin_unlock_dur_pos; [exact I|exact D|exact E].
Qed.

Lemma unlock_internal_dur_pos : forall s l s', dur_pos s -> unlock_internal s l = Ok s' -> dur_pos s'.
Proof.
  intros s l s' D H. unfold unlock_internal, bind in H. mon H. injection H as <-.
  destruct (send_fields _ _ _ _ _ _ E) as [F1 _].
  eapply dur_pos_del with (s := a) (id := l_id l); [eapply dur_pos_ext; eassumption|reflexivity].
Qed.

Lemma unlock_matured_dur_pos : forall s id s', dur_pos s -> unlock_matured_lock s id = Ok s' -> dur_pos s'.
Proof. intros s id s' D H. unfold unlock_matured_lock, bind in H. mon H. eapply unlock_internal_dur_pos; eassumption. Qed.

Lemma unlock_list_dur_pos : forall ls s n c s', dur_pos s -> unlock_list s n c ls = Ok s' -> dur_pos s'.
Proof.
  induction ls as [|l r IH]; cbn [unlock_list]; intros s n c s' D H.
  - injection H as <-. assumption.
  - mon H; [injection H as <-; assumption|]. eapply IH; [|exact H]. eapply unlock_matured_dur_pos; eassumption.
Qed.

Lemma partial_force_unlock_dur_pos : forall dl s l dn amt s',
  Inv0d dl s -> dur_pos s -> get_lock (s_locks s) (l_id l) = Some l -> partial_force_unlock s l dn amt = Ok s' -> dur_pos s'.
Proof.
  intros dl s l dn amt s' I D G H. unfold partial_force_unlock, bind in H. mon H. rename s0 into s1, l0 into l1.
  destruct (get_lock_In _ _ _ G) as [Hin _].
  assert (K : Inv0d dl s1 /\ dur_pos s1).
  { destruct (is_partial dn amt l).
    - destruct (split_lock_Inv0d _ _ _ _ _ _ _ I G E0) as [I1 _]. split; [assumption|eapply split_lock_dur_pos; eassumption].
    - injection E0 as <- <-. auto. }
  destruct K as [I1 D1]. unfold force_unlock, bind in H. mon H.
  assert (D2 : dur_pos a).
  { destruct (negb (is_unlocking l1)); [eapply begin_unlock_dur_pos; eassumption|injection E1 as <-; assumption]. }
  eapply unlock_internal_dur_pos; eassumption.
Qed.

Lemma extend_dur_pos : forall s id o dur s', dur_pos s -> extend_lockup s id o dur = Ok s' -> dur_pos s'.
Proof.
  intros s id o dur s' D H. unfold extend_lockup, bind in H. mon H. injection H as <-. rename l into l2. rename a into l, s0 into s2, a0 into s3.
  destruct (get_by_id_ok _ _ _ E) as [G [Hin Hid]]. apply add_lock_refs_core in E3. destruct E3 as [refs ->].
  assert (K : s_locks s2 = s_locks s /\ 0 < l_dur l2).
  { destruct (dur =? 0); [injection E2 as <- <-; split; [reflexivity|auto]|].
    destruct (dur <=? l_dur l) eqn:Ed; [discriminate|]. injection E2 as <- <-. zb. split; [reflexivity|]. lsimpl. pose proof (D _ Hin). lia. }
  destruct K as [K1 K2]. eapply dur_pos_put with (s := s2); [eapply dur_pos_ext; eassumption|reflexivity|assumption].
Qed.

Lemma set_rr_dur_pos : forall s id o rr s', dur_pos s -> set_lock_reward_receiver s id o rr = Ok s' -> dur_pos s'.
Proof.
  intros s id o rr s' D H. unfold set_lock_reward_receiver, bind in H. mon H. injection H as <-.
  destruct (get_by_id_ok _ _ _ E) as [G [Hin Hid]].
  eapply dur_pos_put with (s := s); [assumption|reflexivity|lsimpl; auto].
Qed.

Lemma handle_dur_pos : forall s o s', Inv0 s -> dur_pos s -> handle s o = Ok s' -> dur_pos s'.
Proof.
  intros s o s' I D H. unfold Inv0 in *. destruct o; cbn [handle] in *.
  - unfold msg_lock_tokens, bind in H. mon H; zb.
    + unfold add_to_existing_lock, bind in H. mon H. eapply add_tokens_dur_pos; eassumption.
    + eapply create_lock_dur_pos; [exact D| |exact H]; lia.
  - mon H. eapply add_tokens_dur_pos; eassumption.
  - unfold msg_extend_lockup, bind in H. mon H. injection H as <-. eapply extend_dur_pos; eassumption.
  - unfold msg_begin_unlocking, bind in H. mon H. eapply begin_unlock_dur_pos; eassumption.
  - unfold msg_begin_unlocking_all, begin_unlock_all_not_unlockings, bind in H. mon H.
    eapply begin_unlock_list_dur_pos; eassumption.
  - eapply unlock_matured_dur_pos; eassumption.
  - unfold withdraw_matured_locks, bind in H. mon H. eapply unlock_list_dur_pos; eassumption.
  - unfold end_blocker in H. mon H; [|injection H as <-; assumption].
    unfold withdraw_matured_locks, bind in H. mon H. eapply unlock_list_dur_pos; eassumption.
  - unfold msg_set_reward_receiver in H. mon H. eapply set_rr_dur_pos; eassumption.
  - unfold msg_force_unlock, bind in H. mon H.
    destruct (get_by_id_ok _ _ _ E1) as [G [_ Hid]]. rewrite <- Hid in G.
    eapply partial_force_unlock_dur_pos; eassumption.
  - mon H. injection H as <-. assumption.
Qed.

Lemma run_dur_pos : forall ops s, Inv0 s -> dur_pos s -> Forall op_sender_ok ops -> dur_pos (run s ops).
Proof.
  induction ops as [|o r IH]; intros s I D W; [assumption|].
  inversion W; subst. unfold run; cbn [fold_left]. fold (run (fst (step s o)) r).
  apply IH; [apply step_Inv0; assumption| |assumption].
  unfold step. destruct (handle s o) eqn:E; cbn [fst]; [|assumption]. eapply handle_dur_pos; eassumption.
Qed.

(* for every denomination and every duration d >= 0:
   GetPeriodLocksAccumulation(denom, d) = sum of the coins of the live locks of that denomination with duration >= d *)
Lemma accum_eq : forall t0 fund allowed ops dn d, Forall op_sender_ok ops -> dn <> 0 -> 0 <= d ->
  let s := run (init_state t0 fund allowed) ops in
  get_period_locks_accumulation s dn d = locked_longer (s_locks s) dn d.
Proof.
  intros t0 fund allowed ops dn d W Hdn Hd s. unfold get_period_locks_accumulation. subst s.
  rewrite accum_eq_key by assumption.
  assert (D : dur_pos (run (init_state t0 fund allowed) ops)).
  { apply run_dur_pos; [apply init_Inv0|intros l []|assumption]. }
  unfold locked_longer. revert D. unfold dur_pos. generalize (s_locks (run (init_state t0 fund allowed) ops)).
  induction l as [|x r IH]; intros D; [reflexivity|]. cbn [lsum]. rewrite IH by (intros; apply D; right; assumption).
  f_equal. unfold ca, acc_key. pose proof (D x (or_introl eq_refl)).
  destruct (d <? 0) eqn:E1; [zb; lia|]. destruct (l_dur x <? 0) eqn:E2; [zb; lia|]. reflexivity.
Qed.
