(* C04 - proofs about the integer-only proportional join / exit (C04/Lp.v). Axiom-free. *)
From Coq Require Import ZArith List Bool Lia.
Import ListNotations.
From Osmo Require Import Base.DecModel C04.Common C04.Lp.
Open Scope Z_scope.

(* ---------- generic helpers ---------- *)
Lemma bind_ok {A B} (r : res A) (f : A -> res B) b :
  bind r f = Ok b -> exists a, r = Ok a /\ f a = Ok b.
Proof. destruct r; simpl; intros H; [eauto|discriminate]. Qed.

Lemma d_check_ok z y : d_check z = Ok y -> y = z.
Proof. unfold d_check; destruct (d_in_range z); intros H; inversion H; auto. Qed.
Lemma int_check_ok z y : int_check z = Ok y -> y = z.
Proof. unfold int_check; destruct (int_fits z); intros H; inversion H; auto. Qed.

Lemma mapM_Forall2 {A B} (f : A -> res B) l l' :
  mapM f l = Ok l' -> Forall2 (fun x y => f x = Ok y) l l'.
Proof.
  revert l'; induction l as [|x r IH]; simpl; intros l' H.
  - inversion H; constructor.
  - apply bind_ok in H as (y & Hy & H). apply bind_ok in H as (ys & Hys & H).
    inversion H; subst. constructor; auto.
Qed.

Lemma mapM_int_check l l' : mapM int_check l = Ok l' -> l' = l.
Proof.
  intros H; apply mapM_Forall2 in H. induction H; auto.
  apply int_check_ok in H; subst; f_equal; auto.
Qed.

Lemma P18_pos : 0 < P18. Proof. reflexivity. Qed.

Lemma quot_floor a b : 0 <= a -> 0 < b -> Z.quot a b * b <= a /\ a < (Z.quot a b + 1) * b.
Proof.
  intros Ha Hb. rewrite Z.quot_div_nonneg by lia.
  pose proof (Z.mul_div_le a b Hb). pose proof (Z.mul_succ_div_gt a b Hb). lia.
Qed.
Lemma quot_nonneg a b : 0 <= a -> 0 < b -> 0 <= Z.quot a b.
Proof. intros; apply Z.quot_pos; lia. Qed.

(* Ceil then TruncateInt of a non-negative decimal: the least integer whose decimal is >= u *)
Lemma d_ceil_quot u : 0 <= u ->
  u <= Z.quot (d_ceil u) P18 * P18 /\ Z.quot (d_ceil u) P18 * P18 < u + P18 /\ 0 <= Z.quot (d_ceil u) P18.
Proof.
  intros Hu. unfold d_ceil.
  pose proof P18_pos as Hp.
  pose proof (quot_floor u P18 Hu Hp) as [H1 H2].
  pose proof (quot_nonneg u P18 Hu Hp) as H0.
  pose proof (Z.quot_rem' u P18) as Hqr.
  destruct (0 <? Z.rem u P18) eqn:E.
  - apply Z.ltb_lt in E. rewrite Z.quot_mul by lia. lia.
  - apply Z.ltb_ge in E. rewrite Z.quot_mul by lia.
    assert (0 <= Z.rem u P18) by (apply Z.rem_nonneg; lia). lia.
Qed.

(* ---------- min / max ratio ---------- *)
Lemma fold_min_le l : forall m0, fold_left (fun m x => if x <? m then x else m) l m0 <= m0 /\
  Forall (fun x => fold_left (fun m x => if x <? m then x else m) l m0 <= x) l.
Proof.
  induction l as [|x r IH]; simpl; intros m0; [split; [lia|constructor]|].
  destruct (IH (if x <? m0 then x else m0)) as [H1 H2].
  destruct (x <? m0) eqn:E; [apply Z.ltb_lt in E|apply Z.ltb_ge in E].
  - split; [lia|]. constructor; auto.
  - split; [lia|]. constructor; [lia|auto].
Qed.
Lemma fold_min_in l : forall m0, let m := fold_left (fun m x => if x <? m then x else m) l m0 in m = m0 \/ In m l.
Proof.
  induction l as [|x r IH]; simpl; intros m0; [auto|].
  destruct (IH (if x <? m0 then x else m0)) as [H|H]; [|auto].
  destruct (x <? m0); rewrite H; auto.
Qed.
Lemma min_ratio_le rs : Forall (fun x => min_ratio rs <= x) rs.
Proof. apply fold_min_le. Qed.

(* ---------- MaximalExactRatioJoin ---------- *)
(* what one coin contributes: rem_i with 0 <= rem_i <= a_i and mn * r_i <= (a_i - rem_i) * 10^18 *)
Definition join_coin_ok (mn : Z) (ar : Z * Z) (rem : Z) : Prop :=
  let '(a, r) := ar in 0 <= rem <= a /\ mn * r <= (a - rem) * P18.
(* "tokens needed are rounded up": a coin that is not taken in full contributes the least integer >= ratio * reserve *)
Definition join_coin_ceil (mn : Z) (ar : Z * Z) (rem : Z) : Prop :=
  let '(a, r) := ar in rem = 0 \/ (a - rem) * P18 < mn * r + P18.

Lemma rem_coin_ok mn a r q rem :
  0 < r -> 0 <= a -> 0 <= mn <= q -> q = share_ratio a r ->
  rem_coin mn (a, r, q) = Ok rem -> join_coin_ok mn (a, r) rem /\ join_coin_ceil mn (a, r) rem.
Proof.
  intros Hr Ha Hmn Hq H. unfold rem_coin in H. simpl.
  assert (Hfl : q * r <= a * P18).
  { subst q; unfold share_ratio. apply quot_floor; [pose proof P18_pos; nia|lia]. }
  destruct (q =? mn) eqn:E.
  - apply Z.eqb_eq in E; subst mn. inversion H; subst rem. split; [split; [lia|]|left; reflexivity].
    replace (a - 0) with a by lia. lia.
  - apply bind_ok in H as (used & Hu & H).
    unfold used_amount in Hu. apply bind_ok in Hu as (u & Hu1 & Hu). apply bind_ok in Hu as (c & Hc & Hu).
    apply d_check_ok in Hu1, Hc. inversion Hu; subst used c u; clear Hu.
    destruct (a - Z.quot (d_ceil (mn * r)) P18 <? 0) eqn:En; [discriminate|].
    apply Z.ltb_ge in En. inversion H; subst rem; clear H.
    assert (Hnn : 0 <= mn * r) by nia.
    destruct (d_ceil_quot (mn * r) Hnn) as (H1 & H2 & H3).
    set (used := Z.quot (d_ceil (mn * r)) P18) in *.
    replace (a - (a - used)) with used by lia.
    split; [split; [lia|lia]|right; lia].
Qed.

Lemma zip_length {A B} (a : list A) (b : list B) : length a = length b -> length (zip a b) = length a.
Proof. revert b; induction a; destruct b; simpl; intros; try discriminate; auto. Qed.

Lemma rem_coins_ok mn : forall A R rem,
  Forall (fun r => 0 < r) R -> Forall (fun a => 0 <= a) A -> length A = length R -> 0 <= mn ->
  Forall (fun q => mn <= q) (map (fun ar => share_ratio (fst ar) (snd ar)) (zip A R)) ->
  mapM (rem_coin mn) (zip (zip A R) (map (fun ar => share_ratio (fst ar) (snd ar)) (zip A R))) = Ok rem ->
  Forall2 (fun ar rm => join_coin_ok mn ar rm /\ join_coin_ceil mn ar rm) (zip A R) rem.
Proof.
  induction A as [|a A IH]; intros R rem HR HA Hlen Hmn Hq H.
  - simpl in H. inversion H; constructor.
  - destruct R as [|r R]; [discriminate|]. cbn [zip map mapM fst snd length] in *.
    apply bind_ok in H as (y & Hy & H). apply bind_ok in H as (ys & Hys & H). inversion H; subst rem; clear H.
    inversion HR; inversion HA; inversion Hq; subst.
    constructor.
    + eapply rem_coin_ok; eauto.
    + apply IH; auto.
Qed.

Lemma ratios_nonneg : forall A R, Forall (fun r => 0 < r) R -> Forall (fun a => 0 <= a) A ->
  Forall (fun q => 0 <= q) (map (fun ar => share_ratio (fst ar) (snd ar)) (zip A R)).
Proof.
  induction A as [|a A IH]; intros R HR HA; [constructor|].
  destruct R as [|r R]; [constructor|]. inversion HR; inversion HA; subst. simpl. constructor; auto.
  unfold share_ratio. apply quot_nonneg; [pose proof P18_pos; nia|lia].
Qed.

Lemma min_ratio_nonneg rs : Forall (fun q => 0 <= q) rs -> 0 <= min_ratio rs.
Proof.
  intros H. unfold min_ratio. destruct (fold_min_in rs max_sortable_dec) as [E|E]; simpl in E.
  - rewrite E. unfold max_sortable_dec; pose proof P18_pos; nia.
  - rewrite Forall_forall in H. apply H; exact E.
Qed.

Lemma Forall2_zeros_ok mn : forall A R,
  Forall (fun r => 0 < r) R -> Forall (fun a => 0 <= a) A -> length A = length R ->
  Forall (fun q => mn <= q) (map (fun ar => share_ratio (fst ar) (snd ar)) (zip A R)) ->
  Forall2 (fun ar rm => join_coin_ok mn ar rm /\ join_coin_ceil mn ar rm) (zip A R) (map (fun _ => 0) A).
Proof.
  induction A as [|a A IH]; intros R HR HA Hlen Hq; [constructor|].
  destruct R as [|r R]; [discriminate|]. simpl in *.
  inversion HR; inversion HA; inversion Hq; subst. constructor; [|apply IH; auto].
  split; [|left; reflexivity]. simpl. split; [lia|]. replace (a - 0) with a by lia.
  assert (share_ratio a r * r <= a * P18).
  { unfold share_ratio. apply quot_floor; [pose proof P18_pos; nia|lia]. }
  nia.
Qed.

(* the specification of MaximalExactRatioJoin: some ratio mn (raw 18 decimals) with
   numShares = floor(mn * S / 10^18) and, for every coin, mn * R_i <= joined_i * 10^18 *)
Theorem maximal_exact_ratio_join_spec R S A ns rem :
  Forall (fun r => 0 < r) R -> Forall (fun a => 0 <= a) A -> length A = length R -> 0 <= S ->
  maximal_exact_ratio_join R S A = Ok (ns, rem) ->
  exists mn, 0 <= mn /\ 0 <= ns /\ ns * P18 <= mn * S /\ mn * S < (ns + 1) * P18 /\
    Forall2 (fun ar rm => join_coin_ok mn ar rm /\ join_coin_ceil mn ar rm) (zip A R) rem.
Proof.
  intros HR HA Hlen HS H. unfold maximal_exact_ratio_join in H.
  destruct (existsb (fun r => r =? 0) R); [discriminate|].
  set (ratios := map (fun ar => share_ratio (fst ar) (snd ar)) (zip A R)) in *.
  set (mn := min_ratio ratios) in *.
  destruct (mn =? max_sortable_dec); [discriminate|].
  apply bind_ok in H as (nsr & Hns & H). apply d_check_ok in Hns; subst nsr.
  assert (Hmn0 : 0 <= mn) by (apply min_ratio_nonneg, ratios_nonneg; auto).
  assert (Hle : Forall (fun q => mn <= q) ratios) by apply min_ratio_le.
  assert (Hnn : 0 <= mn * S) by nia.
  pose proof (quot_floor (mn * S) P18 Hnn P18_pos) as [Hf1 Hf2].
  pose proof (quot_nonneg (mn * S) P18 Hnn P18_pos) as Hf0.
  exists mn.
  destruct (mn =? max_ratio ratios).
  - inversion H; subst ns rem. repeat split; auto. apply Forall2_zeros_ok; auto.
  - apply bind_ok in H as (rm & Hrm & H). inversion H; subst ns rem. repeat split; auto.
    apply rem_coins_ok; auto.
Qed.

(* shares minted <= proportional: numShares / S <= joined_i / R_i for every coin *)
Theorem join_shares_le_proportional R S A ns rem :
  Forall (fun r => 0 < r) R -> Forall (fun a => 0 <= a) A -> length A = length R -> 0 <= S ->
  maximal_exact_ratio_join R S A = Ok (ns, rem) ->
  0 <= ns /\
  Forall2 (fun ar rm => 0 <= rm <= fst ar /\ ns * snd ar <= S * (fst ar - rm)) (zip A R) rem.
Proof.
  intros HR HA Hlen HS H.
  destruct (maximal_exact_ratio_join_spec R S A ns rem HR HA Hlen HS H) as (mn & Hmn & Hns0 & Hns & _ & HF).
  split; auto.
  assert (HRz : Forall (fun ar => 0 < snd ar) (zip A R)).
  { clear - HR Hlen. revert R HR Hlen; induction A; destruct R; simpl; intros; try constructor; try discriminate.
    - inversion HR; auto. - inversion HR; apply IHA; auto. }
  clear H.
  induction HF as [|[a r] rm l l' [Hok _] HF IH]; [constructor|].
  inversion HRz; subst. constructor; [|apply IH; auto].
  simpl in *. destruct Hok as [Hrm Hj]. split; [lia|].
  pose proof P18_pos.
  (* ns*P18 <= mn*S and mn*r <= (a-rm)*P18  =>  ns*r*P18 <= mn*S*r <= S*(a-rm)*P18 *)
  assert (ns * r * P18 <= S * (a - rm) * P18) by nia.
  nia.
Qed.

(* ---------- CalcExitPool ---------- *)
Lemma exit_amount_ok ratio r o : 0 <= ratio -> 0 < r -> exit_amount ratio r = Ok o ->
  0 <= o < r /\ o * P18 <= ratio * r /\ ratio * r < (o + 1) * P18.
Proof.
  intros Hq Hr H. unfold exit_amount in H.
  apply bind_ok in H as (m & Hm & H). apply d_check_ok in Hm; subst m.
  assert (Hnn : 0 <= ratio * r) by nia.
  pose proof (quot_floor (ratio * r) P18 Hnn P18_pos) as [Hf1 Hf2].
  pose proof (quot_nonneg (ratio * r) P18 Hnn P18_pos) as Hf0.
  destruct (Z.quot (ratio * r) P18 <=? 0) eqn:E0.
  - apply Z.leb_le in E0. inversion H; subst o. assert (Z.quot (ratio * r) P18 = 0) by lia. lia.
  - destruct (r <=? Z.quot (ratio * r) P18) eqn:E1; [discriminate|].
    apply Z.leb_gt in E0, E1. inversion H; subst o. lia.
Qed.

(* exits pay at most the proportional reserves, after the exit fee:
   out_i * S * 10^18 <= exiting * (10^18 - exit_fee) * R_i, and never the whole reserve *)
Theorem calc_exit_pool_spec R S ex fee outs :
  Forall (fun r => 0 < r) R -> 0 <= ex -> 0 <= fee <= P18 ->
  calc_exit_pool R S ex fee = Ok outs ->
  ex < S /\
  Forall2 (fun r o => 0 <= o < r /\ o * S * P18 <= ex * (P18 - fee) * r) R outs.
Proof.
  intros HR Hex Hfee H. unfold calc_exit_pool in H.
  destruct (S <=? ex) eqn:ES; [discriminate|]. apply Z.leb_gt in ES. split; auto.
  apply bind_ok in H as (refunded & Href & H).
  assert (Hrefv : refunded = ex * (P18 - fee)).
  { destruct (fee =? 0) eqn:Ef.
    - apply Z.eqb_eq in Ef. inversion Href; subst. lia.
    - apply bind_ok in Href as (f & Hf & Href). apply d_check_ok in Hf, Href. subst. lia. }
  destruct (S =? 0); [discriminate|].
  assert (HS : 0 < S) by lia.
  assert (Hrn : 0 <= refunded) by (subst; nia).
  pose proof (quot_floor refunded S Hrn HS) as [Hq1 _].
  pose proof (quot_nonneg refunded S Hrn HS) as Hq0.
  apply mapM_Forall2 in H.
  induction H as [|r o l l' Hro HF IH]; [constructor|].
  inversion HR; subst. constructor; [|apply IH; auto].
  destruct (exit_amount_ok _ _ _ Hq0 H1 Hro) as (Ho & Ho1 & _).
  split; auto.
  pose proof P18_pos.
  (* o*P18 <= ratio*r, ratio*S <= refunded *)
  assert (o * P18 * S <= Z.quot (ex * (P18 - fee)) S * S * r) by nia.
  nia.
Qed.

Corollary exit_le_proportional R S ex fee outs :
  Forall (fun r => 0 < r) R -> 0 <= ex -> 0 <= fee <= P18 ->
  calc_exit_pool R S ex fee = Ok outs ->
  Forall2 (fun r o => 0 <= o < r /\ o * S <= ex * r) R outs.
Proof.
  intros HR Hex Hfee H.
  destruct (calc_exit_pool_spec R S ex fee outs HR Hex Hfee H) as [HS HF].
  clear H.
  induction HF as [|r o l l' [Ho Hp] HF IH]; [constructor|].
  inversion HR; subst. constructor; [|apply IH; auto].
  split; auto. pose proof P18_pos. assert (o * S * P18 <= ex * r * P18) by nia. nia.
Qed.
