(* C04 - own faithful copies of the osmomath / LegacyDec routines the pool math calls:
   LegacyDec checked arithmetic, LegacyDec.Power, ApproxRoot(2) (= ApproxSqrt), osmomath.Pow / PowApprox
   (osmomath/math.go), ErrTolerance.Compare / CompareBigDec, BinarySearch, BinarySearchBigDec
   (osmomath/binary_search.go).  Raw mantissas; loops run on binary fuel taken from the code's own bound.
   (C13 models the same functions for its own property; these copies are tied to the code by C04's own
   correspondence run.)  Definitions only. *)
From Coq Require Import ZArith List Bool.
Import ListNotations.
From Osmo Require Import Base.DecModel C04.Common Gen.C04_consts.
Open Scope Z_scope.

(* ---------- bounded loops: at most p steps, structural on the binary fuel ---------- *)
Section Loop.
  Context {St R : Type} (step : St -> St + R).
  Fixpoint loop_pos (p : positive) (s : St) : St + R :=
    match p with
    | xH => step s
    | xO p' => match loop_pos p' s with inl s' => loop_pos p' s' | inr r => inr r end
    | xI p' => match step s with
               | inl s1 => match loop_pos p' s1 with inl s2 => loop_pos p' s2 | inr r => inr r end
               | inr r => inr r
               end
    end.
End Loop.

(* ---------- LegacyDec with its range assertions ---------- *)
Definition dc_add (a b : Z) : res Z := d_check (a + b).
Definition dc_sub (a b : Z) : res Z := d_check (a - b).
Definition dc_mul (a b : Z) : res Z := d_check (d_mul a b).
Definition dc_quo (a b : Z) : res Z := if b =? 0 then Err e_div_zero else d_check (d_quo a b).
Definition dc_mul_int (a i : Z) : res Z := d_check (a * i).
Definition dc_ceil (a : Z) : res Z := d_check (d_ceil a).

(* LegacyDec.PowerMut(power), power >= 0 (a uint64 in Go) *)
Fixpoint dc_power_loop (fuel : nat) (d tmp i : Z) : res (Z * Z) :=
  match fuel with
  | O => Err e_fuel
  | S f => if 1 <? i then
             do tmp' <- (if Z.odd i then dc_mul tmp d else Ok tmp);
             do d' <- dc_mul d d;
             dc_power_loop f d' tmp' (Z.quot i 2)
           else Ok (d, tmp)
  end.
Definition dc_power (d power : Z) : res Z :=
  if power =? 0 then Ok P18 else
  do '(d', tmp) <- dc_power_loop 65 d P18 power;
  dc_mul d' tmp.

(* LegacyDec.ApproxRoot(2) for d >= 0 (ApproxSqrt); a panic inside is recovered into an error by the Go code,
   which PowApprox turns into a panic again *)
Definition sqrt_step (d : Z) (st : Z * Z) : (Z * Z) + res Z :=       (* state: guess, iterations left is the fuel *)
  let '(guess, _) := st in
  match dc_mul guess P18 with                                        (* guess.Power(1) = guess.MulMut(1) *)
  | Err e => inr (Err e)
  | Ok prev0 =>
    let prev := if prev0 =? 0 then 1 else prev0 in
    match dc_quo d prev with
    | Err e => inr (Err e)
    | Ok q =>
      match dc_sub q guess with
      | Err e => inr (Err e)
      | Ok df =>
        let delta := Z.quot df 2 in                                   (* QuoInt64Mut(2): no range assertion *)
        match dc_add guess delta with
        | Err e => inr (Err e)
        | Ok g' => if Z.abs delta <=? 1 then inr (Ok g') else inl (g', delta)
        end
      end
    end
  end.
Definition max_approx_root_iterations : positive := 300.
Definition approx_sqrt (d : Z) : res Z :=
  if (d =? 0) || (d =? P18) then Ok d else
  match loop_pos (sqrt_step d) max_approx_root_iterations (P18, P18) with
  | inr r => r
  | inl (g, _) => Ok g                                               (* 300 iterations done: the guess is returned *)
  end.

(* ---------- osmomath.PowApprox / Pow ---------- *)
Record pow_st := mkPow { pw_i : Z; pw_term : Z; pw_sum : Z; pw_neg : bool }.

(* one pass of the loop body of PowApprox, entered with term >= precision; i = pw_i st is the value of the loop counter *)
Definition pow_step (x : Z) (xneg : bool) (exp precision : Z) (st : pow_st) : pow_st + res Z :=
  let i := pw_i st in
  let bigk := (i - 1) * P18 in
  let c := if bigk <=? exp then exp - bigk else bigk - exp in       (* AbsDifferenceWithSign(a, bigK) *)
  let cneg := negb (bigk <=? exp) in
  match (do t1 <- dc_mul (pw_term st) c; do t2 <- dc_mul t1 x; dc_quo t2 (i * P18)) with
  | Err e => inr (Err e)
  | Ok term =>
    if term =? 0 then inr (Ok (pw_sum st)) else
    let neg := xorb (xorb (pw_neg st) xneg) cneg in
    match (if neg then dc_sub (pw_sum st) term else dc_add (pw_sum st) term) with
    | Err e => inr (Err e)
    | Ok sum =>
      if i =? powIterationLimit then inr (Err e_pow_iter)
      else if term <? precision then inr (Ok sum)                  (* loop condition of the next pass *)
      else inl (mkPow (i + 1) term sum neg)
    end
  end.

Definition pow_approx (base exp precision : Z) : res Z :=
  if base <=? 0 then Err e_pow_base_le0 else
  if exp =? 0 then Ok P18 else
  if exp =? P18 / 2 then approx_sqrt base else
  let xneg := base <? P18 in
  let x := if xneg then P18 - base else base - P18 in
  if P18 <? precision then Ok P18 else                              (* term = 1 < precision: the loop is not entered *)
  match loop_pos (pow_step x xneg exp precision) (Z.to_pos powIterationLimit) (mkPow 1 P18 P18 false) with
  | inr r => r
  | inl _ => Err e_fuel
  end.

Definition pow (base exp : Z) : res Z :=
  if base <=? 0 then Err e_pow_base_le0 else
  if 2 * P18 <=? base then Err e_pow_base_ge2 else
  if exp <? 0 then Err e_unsupported else                           (* uint64(negative): not reachable from the pool math *)
  let integer := Z.quot exp P18 * P18 in                            (* TruncateDec *)
  let fractional := exp - integer in
  if negb (Z.quot exp P18 <? 2 ^ 63) then Err e_overflow else       (* TruncateInt64: "Int64() out of bound" *)
  do ip <- dc_power base (Z.quot exp P18);
  if fractional =? 0 then Ok ip else
  do fp <- pow_approx base fractional powPrecision;
  dc_mul ip fp.

(* ---------- BigDec with its bit-length assertion ---------- *)
Definition bc_add (a b : Z) : res Z := bd_check (a + b).
Definition bc_sub (a b : Z) : res Z := bd_check (a - b).
Definition bc_mul (a b : Z) : res Z := bd_check (bd_mul a b).
Definition bc_quo (a b : Z) : res Z := if b =? 0 then Err e_div_zero else bd_check (bd_quo a b).
Definition bc_mul_int (a i : Z) : res Z := bd_check (a * i).
Definition bc_quo_round_up (a b : Z) : res Z := if b =? 0 then Err e_div_zero else bd_check (bd_quo_round_up a b).

(* ---------- osmomath.ErrTolerance ---------- *)
Inductive rounding_dir := RoundUnconstrained | RoundUp | RoundDown.
Record err_tolerance := mkTol { tol_additive : option Z;        (* Dec raw; None = nil *)
                                tol_multiplicative : option Z;  (* Dec raw; None = nil *)
                                tol_dir : rounding_dir }.
Definition cmp_sign (expected actual : Z) : Z := if actual <? expected then 1 else if expected <? actual then -1 else 0.

(* CompareBigDec(expected, actual): 0 within tolerance, 1 expected > actual, -1 expected < actual *)
Definition compare_bigdec (t : err_tolerance) (expected actual : Z) : res Z :=
  match tol_dir t, expected <? actual, actual <? expected with
  | RoundDown, true, _ => Ok (-1)
  | RoundUp, _, true => Ok 1
  | _, _, _ =>
    do d <- bc_sub expected actual;
    let diff := Z.abs d in
    let sign := cmp_sign expected actual in
    let add_exceeds :=
      match tol_additive t with
      | None => Some false
      | Some a => if (a =? 0) && (expected =? actual) then None            (* direct compare: equal *)
                  else Some (a * P18 <? diff)
      end in
    match add_exceeds with
    | None => Ok 0
    | Some true => Ok sign
    | Some false =>
      match tol_multiplicative t with
      | None => Ok 0
      | Some m =>
        if m =? 0 then Ok 0 else
        let mn := Z.min (Z.abs expected) (Z.abs actual) in
        if mn =? 0 then Ok sign else
        do e <- bc_quo diff mn;
        if m * P18 <? e then Ok sign else Ok 0
      end
    end
  end.

(* Compare(expected, actual) on Ints (differences taken as LegacyDec) *)
Definition compare_int (t : err_tolerance) (expected actual : Z) : res Z :=
  do d <- dc_sub (expected * P18) (actual * P18);
  let diff := Z.abs d in
  let sign := if actual <? expected then 1 else -1 in
  match tol_dir t, expected <? actual, actual <? expected with
  | RoundDown, true, _ => Ok (-1)
  | RoundUp, _, true => Ok 1
  | _, _, _ =>
    let add_exceeds :=
      match tol_additive t with
      | None => Some false
      | Some a => if (a =? 0) && (expected =? actual) then None else Some (a <? diff)
      end in
    match add_exceeds with
    | None => Ok 0
    | Some true => Ok sign
    | Some false =>
      match tol_multiplicative t with
      | None => Ok 0
      | Some m =>
        if m =? 0 then Ok 0 else
        let mn := Z.min (Z.abs expected) (Z.abs actual) in
        if mn =? 0 then Ok sign else
        do e <- dc_quo diff (mn * P18);
        if m <? e then Ok sign else Ok 0
      end
    end
  end.

(* ---------- BinarySearchBigDec / BinarySearch ---------- *)
Definition bs_bigdec_step (f : Z -> res Z) (t : err_tolerance) (target : Z) (st : Z * Z) : (Z * Z) + res Z :=
  let '(lo, hi) := st in
  match bc_add lo hi with
  | Err e => inr (Err e)
  | Ok s =>
    let cur := Z.shiftr s 1 in                                       (* big.Int Rsh by 1 *)
    match f cur with
    | Err e => inr (Err e)
    | Ok out =>
      match compare_bigdec t target out with
      | Err e => inr (Err e)
      | Ok c => if c <? 0 then inl (lo, cur) else if 0 <? c then inl (cur, hi) else inr (Ok cur)
      end
    end
  end.
Definition binary_search_bigdec (f : Z -> res Z) (lo hi target : Z) (t : err_tolerance) (max_iter : Z) : res Z :=
  if max_iter <=? 0 then Err e_no_converge else
  match loop_pos (bs_bigdec_step f t target) (Z.to_pos max_iter) (lo, hi) with
  | inr r => r
  | inl _ => Err e_no_converge
  end.

Definition bs_int_step (f : Z -> res Z) (t : err_tolerance) (target : Z) (st : Z * Z) : (Z * Z) + res Z :=
  let '(lo, hi) := st in
  match int_check (lo + hi) with
  | Err e => inr (Err e)
  | Ok s =>
    let cur := Z.quot s 2 in                                          (* QuoRaw(2) *)
    match f cur with
    | Err e => inr (Err e)
    | Ok out =>
      match compare_int t target out with
      | Err e => inr (Err e)
      | Ok c => if c <? 0 then inl (lo, cur) else if 0 <? c then inl (cur, hi) else inr (Ok cur)
      end
    end
  end.
Definition binary_search_int (f : Z -> res Z) (lo hi target : Z) (t : err_tolerance) (max_iter : Z) : res Z :=
  if max_iter <=? 0 then Err e_no_converge else
  match loop_pos (bs_int_step f t target) (Z.to_pos max_iter) (lo, hi) with
  | inr r => r
  | inl _ => Err e_no_converge
  end.
