(* C04 correspondence glue: run the model on a harness case and flatten its observables. *)
From Coq Require Import ZArith List Bool.
Import ListNotations.
From Osmo Require Import Base.Obs Base.DecModel C04.Common C04.Balancer C04.Stableswap Gen.C04_consts.
Open Scope Z_scope.

Record case := mkCase {
  c_kind : Z;                   (* 0 = balancer, 1 = stableswap *)
  c_amts : list Z;              (* initial reserves, denom order *)
  c_par : list Z;               (* balancer: user-specified weights; stableswap: scaling factors *)
  c_shares : Z;
  c_fee : Z;                    (* raw 18-decimal *)
  c_exit_fee : Z;
  c_ops : list op;
  c_expect : list Z }.

(* one chunk per operation: the error class, then the result values followed by the pool state *)
Fixpoint run_b (fee ef : Z) (p : bpool) (ops : list op) : list (Z * list Z) :=
  match ops with
  | [] => []
  | o :: r => let '(code, vals, p') := if op_amounts_fit o then b_step fee ef p o else (e_overflow, repeat 0 (nres (b_n p) o), p) in
              (code, vals ++ b_res p' ++ [b_shares p']) :: run_b fee ef p' r
  end.
Fixpoint run_s (fee ef : Z) (p : spool) (ops : list op) : list (Z * list Z) :=
  match ops with
  | [] => []
  | o :: r => let '(code, vals, p') := if op_amounts_fit o then s_step fee ef p o else (e_overflow, repeat 0 (nres (s_n p) o), p) in
              (code, vals ++ s_res p' ++ [s_shares p']) :: run_s fee ef p' r
  end.

Definition model_chunks (c : case) : list (Z * list Z) :=
  if c_kind c =? 0 then
    run_b (c_fee c) (c_exit_fee c)
          (mkB (c_amts c) (map (fun w => w * GuaranteedWeightPrecision) (c_par c)) (c_shares c)) (c_ops c)
  else
    run_s (c_fee c) (c_exit_fee c)
          (mkS (c_amts c) (map (fun s => s * ScalingFactorMultiplier) (c_par c)) (c_shares c)) (c_ops c).

Definition model_obs (c : case) : list Z := flat_map (fun ch => fst ch :: snd ch) (model_chunks c).

(* Error classes are compared text-independently: the driver recognises failure texts only as a diagnostic; a failure whose
   text it does not recognise is reported as the generic class e_generic_failure, which is compatible with ANY failure class the
   model predicts for that operation.  Success versus failure, and every amount / reserve / share total, must agree exactly. *)
Definition e_generic_failure : Z := 99.
Definition code_compat (model impl : Z) : bool :=
  (model =? impl) || ((impl =? e_generic_failure) && negb (model =? 0)).

Fixpoint take_eq (l expect : list Z) : option (list Z) :=       (* expect must start with l; returns the rest *)
  match l, expect with
  | [], _ => Some expect
  | x :: l', y :: e' => if x =? y then take_eq l' e' else None
  | _ :: _, [] => None
  end.
Fixpoint chunks_compat (chunks : list (Z * list Z)) (expect : list Z) : bool :=
  match chunks, expect with
  | [], [] => true
  | (code, l) :: r, c :: e => code_compat code c && match take_eq l e with Some e' => chunks_compat r e' | None => false end
  | _, _ => false
  end.

Definition case_ok (c : case) : bool := chunks_compat (model_chunks c) (c_expect c).
