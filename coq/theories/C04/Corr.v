(* C04 correspondence glue: run the model on a harness case and flatten its observables. *)
From Coq Require Import ZArith List Bool.
Import ListNotations.
From Osmo Require Import Base.Obs Base.DecModel C04.Common C04.Balancer C04.Stableswap Gen.C04_consts.
Open Scope Z_scope.

Record case := mkCase {
  c_kind : Z;                   (* 0 = balancer, 1 = stableswap *)
  c_amts : list Z;              (* initial reserves, denom order *)
  c_par : list Z;               (* balancer: user-specified weights; stableswap: scaling factors *)
  c_shares : Z;
  c_fee : Z;                    (* raw 18-decimal *)
  c_exit_fee : Z;
  c_ops : list op;
  c_expect : list Z }.

Fixpoint run_b (fee ef : Z) (p : bpool) (ops : list op) : list Z :=
  match ops with
  | [] => []
  | o :: r => let '(code, vals, p') := if op_amounts_fit o then b_step fee ef p o else (e_overflow, repeat 0 (nres (b_n p) o), p) in
              (code :: vals) ++ b_res p' ++ [b_shares p'] ++ run_b fee ef p' r
  end.
Fixpoint run_s (fee ef : Z) (p : spool) (ops : list op) : list Z :=
  match ops with
  | [] => []
  | o :: r => let '(code, vals, p') := if op_amounts_fit o then s_step fee ef p o else (e_overflow, repeat 0 (nres (s_n p) o), p) in
              (code :: vals) ++ s_res p' ++ [s_shares p'] ++ run_s fee ef p' r
  end.

Definition model_obs (c : case) : list Z :=
  if c_kind c =? 0 then
    run_b (c_fee c) (c_exit_fee c)
          (mkB (c_amts c) (map (fun w => w * GuaranteedWeightPrecision) (c_par c)) (c_shares c)) (c_ops c)
  else
    run_s (c_fee c) (c_exit_fee c)
          (mkS (c_amts c) (map (fun s => s * ScalingFactorMultiplier) (c_par c)) (c_shares c)) (c_ops c).

Definition case_ok (c : case) : bool := zlist_eqb (model_obs c) (c_expect c).
