(* C04 - balancer value function over the reals (Rpower): what a Pow accuracy bound on the reachable base range buys.
   Uses the standard library's real numbers (axioms: see Print Assumptions in Properties/C04.v). *)
From Coq Require Import ZArith Reals Lra Lia.
From Osmo Require Import Base.DecModel C04.Common C04.MathLib C04.Balancer C04.ProofsBalancer.
Open Scope R_scope.

Definition D18 : R := IZR P18.
Lemma D18_pos : 0 < D18. Proof. unfold D18. apply IZR_lt. reflexivity. Qed.

(* pure real analysis: if the pool pays out at most Bout * (1 - y^(wi/wj) (1 - e)), y = Bin/(Bin + a'), the weighted product
   Bin^wi * Bout^wj falls by at most the factor (1 - e)^wj *)
Lemma value_monotone_abstract Bi Bj a' out wi wj eps :
  0 < Bi -> 0 < Bj -> 0 <= a' -> 0 < wi -> 0 < wj -> 0 <= eps < 1 ->
  out <= Bj * (1 - Rpower (Bi / (Bi + a')) (wi / wj) * (1 - eps)) ->
  Rpower Bi wi * Rpower Bj wj * Rpower (1 - eps) wj <= Rpower (Bi + a') wi * Rpower (Bj - out) wj.
Proof.
  intros HBi HBj Ha Hwi Hwj Heps Hout.
  set (y := Bi / (Bi + a')). set (p := Rpower y (wi / wj)).
  assert (Hy : 0 < y) by (unfold y; apply Rdiv_lt_0_compat; lra).
  assert (Hp : 0 < p) by (unfold p, Rpower; apply exp_pos).
  assert (H1 : 0 < Bj * p * (1 - eps)) by (repeat apply Rmult_lt_0_compat; lra).
  assert (H2 : Bj * p * (1 - eps) <= Bj - out) by (fold y p in Hout; lra).
  assert (H3 : Rpower (Bj * p * (1 - eps)) wj <= Rpower (Bj - out) wj) by (apply Rle_Rpower_l; lra).
  assert (H4 : Rpower (Bj * p * (1 - eps)) wj = Rpower Bj wj * Rpower y wi * Rpower (1 - eps) wj).
  { rewrite <- !Rpower_mult_distr; try lra; [|apply Rmult_lt_0_compat; lra].
    f_equal. f_equal. unfold p. rewrite Rpower_mult. f_equal. field. lra. }
  assert (H5 : Rpower (Bi + a') wi * Rpower y wi = Rpower Bi wi).
  { rewrite Rpower_mult_distr; try lra. f_equal. unfold y. field. lra. }
  assert (H6 : 0 < Rpower (Bi + a') wi) by (unfold Rpower; apply exp_pos).
  rewrite <- H5.
  replace (Rpower (Bi + a') wi * Rpower y wi * Rpower Bj wj * Rpower (1 - eps) wj)
    with (Rpower (Bi + a') wi * (Rpower Bj wj * Rpower y wi * Rpower (1 - eps) wj)) by ring.
  apply Rmult_le_compat_l; [lra|]. rewrite <- H4. exact H3.
Qed.

Section PowAccuracy.
  (* SECTION HYPOTHESIS - the accuracy of osmomath.Pow on the base range [1/2, 1] (where the series' tail is dominated by its
     last term; C13 finding F4 shows it fails below 1/2): the computed power is not below the true power of the 18-decimal
     operands by more than eps *)
  Variable eps : R.
  Hypothesis pow_accurate_from_below : forall b e r : Z,
    (P18 / 2 <= b <= P18)%Z -> (0 <= e)%Z -> (Z.quot e P18 <= 2 ^ 28)%Z -> pow b e = Ok r ->
    Rpower (IZR b / D18) (IZR e / D18) - eps <= IZR r / D18.

  (* exact-in swap, in/out assets with reserves Bi, Bj and weights wi, wj, a tokens in, spread factor fee:
     if the Pow base used by the code lies in [1/2, 1], and the 18-decimal rounding of the two operands costs at most the
     factor (1 - eta) on the power, then Bi^wi Bj^wj does not fall by more than the factor (1 - e')^wj with
     e' = eta + eps / y^(wi/wj),  y = Bi / (Bi + a (1 - fee)) *)
  Theorem swap_out_value_partial p i j a fee out (eta : R) :
    b_calc_out_given_in p i j a fee = Ok out ->
    let Bi := IZR (nthZ (b_res p) i) in let Bj := IZR (nthZ (b_res p) j) in
    let wi := IZR (nthZ (b_w p) i) in let wj := IZR (nthZ (b_w p) j) in
    let a' := IZR a * (1 - IZR fee / D18) in
    let yd := d_quo (dec_of_int (nthZ (b_res p) i)) (d_mul (dec_of_int a) (P18 - fee) + dec_of_int (nthZ (b_res p) i)) in
    let wrd := d_quo (dec_of_int (nthZ (b_w p) i)) (dec_of_int (nthZ (b_w p) j)) in
    let pt := Rpower (Bi / (Bi + a')) (wi / wj) in
    0 < Bi -> 0 < Bj -> 0 <= IZR a -> 0 < wi -> 0 < wj -> 0 <= IZR fee / D18 <= 1 ->
    (P18 / 2 <= yd <= P18)%Z -> (0 <= wrd)%Z -> (Z.quot wrd P18 <= 2 ^ 28)%Z ->   (* the explicit base / exponent range *)
    pt * (1 - eta) <= Rpower (IZR yd / D18) (IZR wrd / D18) ->              (* operand rounding *)
    0 <= eta + eps / pt < 1 ->
    Rpower Bi wi * Rpower Bj wj * Rpower (1 - (eta + eps / pt)) wj
      <= Rpower (Bi + IZR a) wi * Rpower (Bj - IZR out) wj.
  Proof.
    intros H Bi Bj wi wj a' yd wrd pt HBi HBj Ha Hwi Hwj Hfee Hrange Hwr Hwq Hop He.
    apply b_calc_out_floor in H as (y & wr & pw & Hy & Hwr' & Hpw & Hpos & Hfl & _).
    fold yd in Hy. fold wrd in Hwr'. subst y wr.
    pose proof (pow_accurate_from_below yd wrd pw Hrange Hwr Hwq Hpw) as Hacc.
    pose proof D18_pos as HD.
    (* out <= Bj (1 - pw/1e18) *)
    apply IZR_le in Hfl. rewrite !mult_IZR, minus_IZR in Hfl. fold D18 Bj in Hfl.
    assert (Hout : IZR out <= Bj * (1 - IZR pw / D18)).
    { apply Rmult_le_reg_r with D18; [exact HD|]. replace (Bj * (1 - IZR pw / D18) * D18) with ((D18 - IZR pw) * Bj) by (field; lra). exact Hfl. }
    assert (Hpt : 0 < pt) by (unfold pt, Rpower; apply exp_pos).
    assert (Ha' : 0 <= a') by (unfold a'; apply Rmult_le_pos; lra).
    assert (Hle : IZR out <= Bj * (1 - pt * (1 - (eta + eps / pt)))).
    { replace (pt * (1 - (eta + eps / pt))) with (pt * (1 - eta) - eps) by (field; lra).
      assert (pt * (1 - eta) - eps <= IZR pw / D18) by lra.
      assert (Bj * (1 - IZR pw / D18) <= Bj * (1 - (pt * (1 - eta) - eps))) by (apply Rmult_le_compat_l; lra). lra. }
    pose proof (value_monotone_abstract Bi Bj a' (IZR out) wi wj (eta + eps / pt) HBi HBj Ha' Hwi Hwj He Hle) as Hv.
    (* the fee stays in the pool: Bi + a >= Bi + a' *)
    assert (Hmono : Rpower (Bi + a') wi <= Rpower (Bi + IZR a) wi).
    { apply Rle_Rpower_l; [lra|]. split; [lra|]. unfold a'. assert (IZR a * (1 - IZR fee / D18) <= IZR a) by nra. lra. }
    assert (0 <= Rpower (Bj - IZR out) wj) by (unfold Rpower; left; apply exp_pos).
    eapply Rle_trans; [exact Hv|]. apply Rmult_le_compat_r; assumption.
  Qed.
End PowAccuracy.

(* ---------- |result - exact formula| <= eps * reserve (+ one unit), given the Pow error on the operands actually used ---------- *)
Lemma floor_real_bounds (n q : Z) : (0 <= n)%Z -> (q * P18 <= n < (q + 1) * P18)%Z ->
  IZR n / D18 - 1 < IZR q <= IZR n / D18.
Proof.
  intros Hn [H1 H2]. pose proof D18_pos as HD. apply IZR_le in H1. apply IZR_lt in H2.
  rewrite mult_IZR in H1. rewrite mult_IZR, plus_IZR in H2. fold D18 in H1, H2. simpl in H2.
  split.
  - apply Rmult_lt_reg_r with D18; [exact HD|]. replace ((IZR n / D18 - 1) * D18) with (IZR n - D18) by (field; lra). lra.
  - apply Rmult_le_reg_r with D18; [exact HD|]. replace (IZR n / D18 * D18) with (IZR n) by (field; lra). lra.
Qed.

(* exact-in swap: |out - Bout (1 - y^wr)| <= eps Bout + 1 for the 18-decimal operands y, wr the code computes, whenever the
   power it computed is within eps of their true power *)
Theorem swap_out_formula_error p i j a fee out (eps : R) :
  b_calc_out_given_in p i j a fee = Ok out -> (0 <= nthZ (b_res p) j)%Z ->
  exists y wr pw : Z,
    y = d_quo (dec_of_int (nthZ (b_res p) i)) (d_mul (dec_of_int a) (P18 - fee) + dec_of_int (nthZ (b_res p) i)) /\
    wr = d_quo (dec_of_int (nthZ (b_w p) i)) (dec_of_int (nthZ (b_w p) j)) /\ pow y wr = Ok pw /\
    (Rabs (IZR pw / D18 - Rpower (IZR y / D18) (IZR wr / D18)) <= eps ->
     Rabs (IZR out - IZR (nthZ (b_res p) j) * (1 - Rpower (IZR y / D18) (IZR wr / D18))) <= eps * IZR (nthZ (b_res p) j) + 1).
Proof.
  intros H HB. apply b_calc_out_floor in H as (y & wr & pw & Hy & Hwr & Hpw & Hpos & Hfl).
  exists y, wr, pw. repeat split; auto. intros Hacc.
  set (Bj := nthZ (b_res p) j) in *. set (t := Rpower (IZR y / D18) (IZR wr / D18)) in *.
  assert (HP : (0 < P18)%Z) by reflexivity.
  assert (Hn : (0 <= (P18 - pw) * Bj)%Z) by nia.
  pose proof (floor_real_bounds _ _ Hn Hfl) as [Hlo Hhi].
  rewrite mult_IZR, minus_IZR in Hlo, Hhi. fold D18 in Hlo, Hhi.
  pose proof D18_pos as HD. apply IZR_le in HB.
  assert (E : (D18 - IZR pw) * IZR Bj / D18 = IZR Bj * (1 - IZR pw / D18)) by (field; lra).
  rewrite E in Hlo, Hhi.
  assert (Ha1 : IZR pw / D18 - t <= eps) by (eapply Rle_trans; [apply Rle_abs|exact Hacc]).
  assert (Ha2 : - eps <= IZR pw / D18 - t).
  { pose proof (Rle_abs (- (IZR pw / D18 - t))) as Hq. rewrite Rabs_Ropp in Hq. lra. }
  assert (Hb1 : IZR Bj * (IZR pw / D18 - t) <= IZR Bj * eps) by (apply Rmult_le_compat_l; lra).
  assert (Hb2 : IZR Bj * (- eps) <= IZR Bj * (IZR pw / D18 - t)) by (apply Rmult_le_compat_l; lra).
  apply Rabs_le. split; lra.
Qed.

(* ---------- single-asset join: shares minted against the value function ---------- *)
(* pure real analysis: minting at most S ((1+e) y^nw - 1) shares, y = (B + a')/B, lowers B^nw / S by at most the factor 1/(1+e) *)
Lemma join_value_abstract B a' nw S s e :
  0 < B -> 0 <= a' -> 0 < nw -> 0 < S -> 0 <= e -> 0 <= s ->
  s <= S * ((1 + e) * Rpower ((B + a') / B) nw - 1) ->
  Rpower B nw / S <= (1 + e) * (Rpower (B + a') nw / (S + s)).
Proof.
  intros HB Ha Hnw HS He Hs Hle.
  set (y := (B + a') / B). assert (Hy : 0 < y) by (unfold y; apply Rdiv_lt_0_compat; lra).
  assert (Hp : 0 < Rpower y nw) by (unfold Rpower; apply exp_pos).
  assert (HBn : 0 < Rpower B nw) by (unfold Rpower; apply exp_pos).
  assert (E : Rpower (B + a') nw = Rpower B nw * Rpower y nw).
  { rewrite Rpower_mult_distr; try lra. f_equal. unfold y. field. lra. }
  assert (Hss : S + s <= S * ((1 + e) * Rpower y nw)) by (fold y in Hle; lra).
  assert (Hpos : 0 < S + s) by lra.
  rewrite E.
  apply Rmult_le_reg_r with (S * (S + s)); [apply Rmult_lt_0_compat; lra|].
  replace (Rpower B nw / S * (S * (S + s))) with (Rpower B nw * (S + s)) by (field; lra).
  replace ((1 + e) * (Rpower B nw * Rpower y nw / (S + s)) * (S * (S + s))) with (Rpower B nw * (S * ((1 + e) * Rpower y nw))) by (field; lra).
  apply Rmult_le_compat_l; lra.
Qed.

Section PowAccuracyAbove.
  (* SECTION HYPOTHESIS - on bases in [1, 2) (alternating series, error below the last term) the computed power is not ABOVE the
     true power of its 18-decimal operands by more than eps *)
  Variable eps : R.
  Hypothesis eps_nonneg : 0 <= eps.
  Hypothesis pow_accurate_from_above : forall b e r : Z,
    (P18 <= b < 2 * P18)%Z -> (0 <= e < P18)%Z -> pow b e = Ok r ->
    IZR r / D18 <= Rpower (IZR b / D18) (IZR e / D18) + eps.

  (* single-asset join of a tokens into an asset with reserve B and normalised weight nw (18 decimals), share total S:
     B^nw / S (the asset's contribution to the value per share; nothing else changes) falls by at most the factor
     1 / (1 + eta + eps / y^nw), y = (B + a)/B, where eta bounds what the 18-decimal operand rounding adds to the power
     (the spread factor only lowers the base the code uses) *)
  Theorem single_join_value_partial p bal w a fee ts s (eta : R) :
    b_calc_single_asset_join p bal w a fee ts = Ok s ->
    let nwd := d_quo (dec_of_int w) (dec_of_int (b_total_weight p)) in
    forall fr, fee_ratio nwd fee = Ok fr ->
    let yd := d_quo (dec_of_int bal + d_mul (dec_of_int a) fr) (dec_of_int bal) in
    let B := IZR bal in let S := IZR ts in let nw := IZR nwd / D18 in
    let pt := Rpower ((B + IZR a) / B) nw in
    0 < B -> 0 <= IZR a -> 0 < nw -> 0 < S -> (0 <= s)%Z ->
    (P18 <= yd < 2 * P18)%Z -> (0 <= nwd < P18)%Z ->                           (* the explicit base / exponent range *)
    Rpower (IZR yd / D18) nw <= pt * (1 + eta) -> 0 <= eta ->                  (* operand rounding *)
    Rpower B nw / S <= (1 + (eta + eps / pt)) * (Rpower (B + IZR a) nw / (S + IZR s)).
  Proof.
    intros H nwd fr Hfr yd B S nw pt HB Ha Hnw HS Hs Hrange Hnwd Hop Heta.
    apply b_single_asset_join_floor in H as (nw' & fr' & y & pw & Hnw' & Hfr' & Hy & Hpw & Hsv).
    fold nwd in Hnw'. subst nw'. rewrite Hfr in Hfr'. inversion Hfr'; subst fr'. fold yd in Hy. subst y.
    pose proof (pow_accurate_from_above yd nwd pw Hrange Hnwd Hpw) as Hacc. fold nw in Hacc.
    pose proof D18_pos as HD.
    assert (Hpt : 0 < pt) by (unfold pt, Rpower; apply exp_pos).
    assert (Hpt1 : 1 <= pt).
    { unfold pt. rewrite <- (Rpower_O ((B + IZR a) / B)) at 1; [|apply Rdiv_lt_0_compat; lra].
      apply Rle_Rpower; [|lra]. apply Rmult_le_reg_r with B; [lra|]. replace ((B + IZR a) / B * B) with (B + IZR a) by (field; lra). lra. }
    assert (He : 0 <= eta + eps / pt).
    { assert (0 <= eps / pt) by (apply Rmult_le_pos; [assumption|left; apply Rinv_0_lt_compat; assumption]). lra. }
    assert (HP : (0 < P18)%Z) by reflexivity.
    assert (Hs' : 0 <= IZR s) by (apply IZR_le; exact Hs).
    apply join_value_abstract; try lra. fold pt.
    destruct (Z_lt_le_dec ((pw - P18) * ts) 0) as [Hneg|Hnn].
    - (* the truncated product is not positive: nothing was minted *)
      assert ((s <= 0)%Z) by (subst s; apply Z.quot_le_upper_bound; [reflexivity|lia]).
      assert (s = 0%Z) by lia. subst s. rewrite H0.
      assert (0 <= S * ((1 + (eta + eps / pt)) * pt - 1)) by (apply Rmult_le_pos; [lra|nra]). lra.
    - (* s = floor((pw - 1e18) S / 1e18) <= S (pw/1e18 - 1) <= S ((1 + eta + eps/pt) pt - 1) *)
      pose proof (Z.quot_rem' ((pw - P18) * ts) P18) as Hqr. pose proof (Z.rem_bound_pos ((pw - P18) * ts) P18 Hnn HP) as Hr.
      assert (Hfl : (s * P18 <= (pw - P18) * ts)%Z) by (subst s; lia).
      apply IZR_le in Hfl. rewrite !mult_IZR, minus_IZR in Hfl. fold S D18 in Hfl.
      assert (Hsle : IZR s <= S * (IZR pw / D18 - 1)).
      { apply Rmult_le_reg_r with D18; [exact HD|]. replace (S * (IZR pw / D18 - 1) * D18) with ((IZR pw - D18) * S) by (field; lra). exact Hfl. }
      assert (Hup : IZR pw / D18 <= (1 + (eta + eps / pt)) * pt).
      { replace ((1 + (eta + eps / pt)) * pt) with (pt * (1 + eta) + eps) by (field; lra). lra. }
      eapply Rle_trans; [exact Hsle|]. apply Rmult_le_compat_l; lra.
  Qed.
End PowAccuracyAbove.
