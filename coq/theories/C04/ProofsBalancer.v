(* C04 - balancer: the results are the rounded (Truncate out / Ceil in) images of the constant-weighted-product
   formula evaluated with Pow on 18-decimal operands (structural, axiom-free), and witnesses computed in the
   faithful model. *)
From Coq Require Import ZArith List Bool Lia.
Import ListNotations.
From Osmo Require Import Base.DecModel C04.Common C04.Lp C04.MathLib C04.Balancer C04.ProofsLp Gen.C04_consts.
Open Scope Z_scope.

Lemma Ok_inj {A} (a b : A) : @Ok A a = Ok b -> a = b.
Proof. intros H; injection H; auto. Qed.

Lemma dc_ok_add a b r : dc_add a b = Ok r -> r = a + b.
Proof. apply d_check_ok. Qed.
Lemma dc_ok_sub a b r : dc_sub a b = Ok r -> r = a - b.
Proof. apply d_check_ok. Qed.
Lemma dc_ok_mul a b r : dc_mul a b = Ok r -> r = d_mul a b.
Proof. apply d_check_ok. Qed.
Lemma dc_ok_quo a b r : dc_quo a b = Ok r -> b <> 0 /\ r = d_quo a b.
Proof. unfold dc_quo. destruct (b =? 0) eqn:E; [discriminate|]. intros H; apply d_check_ok in H. apply Z.eqb_neq in E. auto. Qed.
Lemma dc_ok_ceil a r : dc_ceil a = Ok r -> r = d_ceil a.
Proof. apply d_check_ok. Qed.

(* solveConstantFunctionInvariant = balanceUnknown * (1 - Pow(fixedBefore / fixedAfter, wFixed / wUnknown)), every operation
   rounded half-even to 18 decimals *)
Definition cfi_image (bfb bfa wf bub wu r : Z) : Prop :=
  exists wr y pw, wu <> 0 /\ bfa <> 0 /\
    wr = d_quo wf wu /\ y = d_quo bfb bfa /\ pow y wr = Ok pw /\ r = d_mul (P18 - pw) bub.

Lemma solve_cfi_image bfb bfa wf bub wu r : solve_cfi bfb bfa wf bub wu = Ok r -> cfi_image bfb bfa wf bub wu r.
Proof.
  unfold solve_cfi. intros H.
  apply bind_ok in H as (wr & Hwr & H). apply bind_ok in H as (y & Hy & H).
  apply bind_ok in H as (pw & Hpw & H). apply bind_ok in H as (par & Hpar & H).
  apply dc_ok_quo in Hwr as [? ?], Hy as [? ?]. apply dc_ok_sub in Hpar. apply dc_ok_mul in H. subst.
  exists (d_quo wf wu), (d_quo bfb bfa), pw. repeat split; auto.
Qed.

(* CalcOutAmtGivenIn: token out = Truncate( Bout * (1 - Pow(Bin / (Bin + in*(1-fee)), wIn/wOut)) ), and it is positive *)
Theorem b_calc_out_rounded_image p i j a fee out :
  b_calc_out_given_in p i j a fee = Ok out ->
  exists r, cfi_image (dec_of_int (nthZ (b_res p) i))
                      (d_mul (dec_of_int a) (P18 - fee) + dec_of_int (nthZ (b_res p) i))
                      (dec_of_int (nthZ (b_w p) i)) (dec_of_int (nthZ (b_res p) j)) (dec_of_int (nthZ (b_w p) j)) r /\
            out = Z.quot r P18 /\ 0 < out.
Proof.
  unfold b_calc_out_given_in. intros H.
  destruct (negb (in_pool p i && in_pool p j)); [discriminate|].
  apply bind_ok in H as (f & Hf & H). apply bind_ok in H as (af & Haf & H).
  apply bind_ok in H as (post & Hpost & H). apply bind_ok in H as (r & Hr & H).
  apply dc_ok_sub in Hf. apply dc_ok_mul in Haf. apply dc_ok_add in Hpost. subst.
  destruct (Z.quot r P18 <=? 0) eqn:E; [discriminate|]. apply Z.leb_gt in E. apply Ok_inj in H; subst out.
  exists r. split; [apply solve_cfi_image; exact Hr|split; [reflexivity|exact E]].
Qed.

(* CalcInAmtGivenOut: token in = Truncate(Ceil( -(Bin * (1 - Pow(Bout/(Bout-out), wOut/wIn))) / (1-fee) )) *)
Theorem b_calc_in_rounded_image p i j o fee tin :
  b_calc_in_given_out p i j o fee = Ok tin ->
  exists r, cfi_image (dec_of_int (nthZ (b_res p) i)) (dec_of_int (nthZ (b_res p) i) - dec_of_int o)
                      (dec_of_int (nthZ (b_w p) i)) (dec_of_int (nthZ (b_res p) j)) (dec_of_int (nthZ (b_w p) j)) r /\
            P18 - fee <> 0 /\ tin = Z.quot (d_ceil (d_quo (- r) (P18 - fee))) P18 /\ 0 < tin.
Proof.
  unfold b_calc_in_given_out. intros H.
  destruct (negb (in_pool p i && in_pool p j)); [discriminate|].
  apply bind_ok in H as (post & Hpost & H). apply bind_ok in H as (r & Hr & H).
  apply bind_ok in H as (f & Hf & H). apply bind_ok in H as (bf & Hbf & H). apply bind_ok in H as (c & Hc & H).
  apply dc_ok_sub in Hpost, Hf. apply dc_ok_quo in Hbf as [Hnz Hbf]. apply dc_ok_ceil in Hc. subst.
  destruct (Z.quot _ P18 <=? 0) eqn:E; [discriminate|]. apply Z.leb_gt in E. apply Ok_inj in H; subst tin.
  exists r. split; [apply solve_cfi_image; exact Hr|]. repeat split; auto.
Qed.

(* single-asset join: shares = Truncate( -(S * (1 - Pow((B + in*feeRatio)/B, w/W))) ) *)
Theorem b_single_asset_join_rounded_image p bal w a fee ts s :
  b_calc_single_asset_join p bal w a fee ts = Ok s ->
  exists nw fr r, b_total_weight p <> 0 /\ nw = d_quo (dec_of_int w) (dec_of_int (b_total_weight p)) /\
    fee_ratio nw fee = Ok fr /\
    cfi_image (dec_of_int bal + d_mul (dec_of_int a) fr) (dec_of_int bal) nw (dec_of_int ts) P18 r /\
    s = Z.quot (- r) P18.
Proof.
  unfold b_calc_single_asset_join. intros H.
  destruct (b_total_weight p =? 0) eqn:Etw; [discriminate|]. apply Z.eqb_neq in Etw.
  apply bind_ok in H as (nw & Hnw & H). apply bind_ok in H as (r0 & Hr0 & H). apply Ok_inj in H; subst s.
  apply dc_ok_quo in Hnw as [_ Hnw].
  unfold calc_pool_shares_out_given_single_asset_in in Hr0.
  apply bind_ok in Hr0 as (fr & Hfr & H). apply bind_ok in H as (af & Haf & H).
  apply bind_ok in H as (after & Hafter & H). apply bind_ok in H as (r & Hr & H). apply Ok_inj in H; subst r0.
  apply dc_ok_mul in Haf. apply dc_ok_add in Hafter. subst af after.
  exists nw, fr, r. repeat split; auto. apply solve_cfi_image; exact Hr.
Qed.

(* single-asset exit: shares burnt = Truncate( S * (1 - Pow((B - out/feeRatio)/B, w/W)) / (1 - exitFee) ) *)
Theorem b_exit_swap_out_rounded_image p i amt fee ef s p' :
  b_exit_swap_out p i amt fee ef = Ok (s, p') ->
  exists nw fr r, nw = d_quo (dec_of_int (nthZ (b_w p) i)) (dec_of_int (b_total_weight p)) /\ fee_ratio nw fee = Ok fr /\ fr <> 0 /\
    cfi_image (dec_of_int (nthZ (b_res p) i) - d_quo (dec_of_int amt) fr) (dec_of_int (nthZ (b_res p) i)) nw (dec_of_int (b_shares p)) P18 r /\
    P18 - ef <> 0 /\ s = Z.quot (d_quo r (P18 - ef)) P18 /\ 0 < s /\ b_shares p' = b_shares p - s /\ 0 <= b_shares p'.
Proof.
  unfold b_exit_swap_out. intros H.
  destruct (negb (in_pool p i)); [discriminate|].
  apply bind_ok in H as (nw & Hnw & H). apply bind_ok in H as (r0 & Hr0 & H).
  apply dc_ok_quo in Hnw as [_ Hnw].
  unfold calc_pool_shares_in_given_single_asset_out in Hr0.
  apply bind_ok in Hr0 as (fr & Hfr & H0). apply bind_ok in H0 as (ofi & Hofi & H0).
  apply bind_ok in H0 as (after & Hafter & H0). apply bind_ok in H0 as (r & Hr & H0).
  apply bind_ok in H0 as (f & Hf & H0).
  apply dc_ok_quo in Hofi as [Hfrnz Hofi]. apply dc_ok_sub in Hafter, Hf. apply dc_ok_quo in H0 as [Hfnz H0]. subst.
  destruct (Z.quot _ P18 <=? 0) eqn:E; [discriminate|]. apply Z.leb_gt in E.
  destruct (_ <? 0); [discriminate|].
  destruct (b_shares p - _ <? 0) eqn:E2; [discriminate|]. apply Z.ltb_ge in E2.
  apply Ok_inj in H. pose proof (f_equal fst H) as Hs. pose proof (f_equal snd H) as Hp'. cbn [fst snd] in Hs, Hp'. clear H. subst s p'. cbn [b_shares].
  eexists _, fr, r. repeat split; eauto. apply solve_cfi_image; exact Hr.
Qed.

(* ---------- witnesses computed in the model (replayed on the Go code, see C04/STATUS.md) ---------- *)
Definition G := GuaranteedWeightPrecision.
(* C04-F1b: the quote takes the WHOLE out-reserve when the power underflows to 0 at 18 decimals (weights 100:1, 60% of the
   heavy reserve in); since the repo's fix e9b34e9409 the executing swap fails *)
Lemma witness_quote_whole_reserve :
  let p := mkB [1000000; 1000000] [100 * G; G] 100000000000000000000 in
  b_calc_out_given_in p 0 1 600000 3000000000000000 = Ok (nthZ (b_res p) 1) /\
  b_swap_out_given_in p 0 1 600000 3000000000000000 = Err e_zero_balance.
Proof. vm_compute. split; reflexivity. Qed.

(* C04-F2: single-asset exit with a Pow base below 1/2. Four equal weights (normalised weight exactly 1/4), zero fees,
   reserve 1.6e12 of which 1.5e12 is withdrawn: base = 1/16 = (1/2)^4, so the exact formula gives shares * (1 - 1/2).
   The code burns 1.27e13 shares fewer: 1.27e-7 of the share total, against the documented precision 1e-8 *)
Definition f2_pool : bpool := mkB [1600000000000; 1000000000000; 1000000000000; 1000000000000] [G; G; G; G] 100000000000000000000.
Lemma witness_exit_precision_value : b_exit_swap_out f2_pool 0 1500000000000 0 0 =
  Ok (49999987255188571500, mkB [100000000000; 1000000000000; 1000000000000; 1000000000000] [G; G; G; G] 50000012744811428500).
Proof. vm_compute. reflexivity. Qed.
Lemma witness_exit_precision :
  let S := 100000000000000000000 in
  exists s p', b_exit_swap_out f2_pool 0 1500000000000 0 0 = Ok (s, p') /\
    4 * nthZ (b_w f2_pool) 0 = b_total_weight f2_pool /\                  (* normalised weight 1/4 *)
    (nthZ (b_res f2_pool) 0 - 1500000000000) * 2 ^ 4 = nthZ (b_res f2_pool) 0 /\   (* base = (1/2)^4, base^(1/4) = 1/2 *)
    S / 2 - s = 12744811428500 /\ S / 2 - s > S / 10 ^ 8.
Proof. eexists _, _. split; [exact witness_exit_precision_value|]. vm_compute. repeat split; reflexivity. Qed.

(* ---------- the integer core of CalcOutAmtGivenIn: out = floor( Bout * (1 - Pow(...)) ) exactly ---------- *)
Lemma chop_round_exact p k : 0 < p -> chop_round p (k * p) = k.
Proof.
  intros Hp. unfold chop_round.
  assert (Hn : forall m, 0 <= m -> chop_round_nonneg p (m * p) = m).
  { intros m Hm. unfold chop_round_nonneg. rewrite Z.quot_mul, Z.rem_mul by lia. reflexivity. }
  destruct (k * p <? 0) eqn:E.
  - apply Z.ltb_lt in E. replace (- (k * p)) with ((- k) * p) by ring. rewrite Hn by nia. lia.
  - apply Z.ltb_ge in E. apply Hn. nia.
Qed.

Lemma d_mul_dec_of_int a b : d_mul a (dec_of_int b) = a * b.
Proof. unfold d_mul, dec_of_int. replace (a * (b * P18)) with ((a * b) * P18) by ring. apply chop_round_exact. reflexivity. Qed.

Theorem b_calc_out_floor p i j a fee out :
  b_calc_out_given_in p i j a fee = Ok out ->
  exists y wr pw,
    y = d_quo (dec_of_int (nthZ (b_res p) i)) (d_mul (dec_of_int a) (P18 - fee) + dec_of_int (nthZ (b_res p) i)) /\
    wr = d_quo (dec_of_int (nthZ (b_w p) i)) (dec_of_int (nthZ (b_w p) j)) /\
    pow y wr = Ok pw /\
    0 < out /\ out * P18 <= (P18 - pw) * nthZ (b_res p) j < (out + 1) * P18.
Proof.
  intros H. apply b_calc_out_rounded_image in H as (r & (wr & y & pw & _ & _ & Hwr & Hy & Hpw & Hr) & Hout & Hpos).
  exists y, wr, pw. repeat split; auto.
  - rewrite d_mul_dec_of_int in Hr. subst r out.
    assert (0 < (P18 - pw) * nthZ (b_res p) j).
    { destruct (Z_lt_le_dec 0 ((P18 - pw) * nthZ (b_res p) j)); auto. exfalso.
      assert (Z.quot ((P18 - pw) * nthZ (b_res p) j) P18 <= 0) by (apply Z.quot_le_upper_bound; [reflexivity|lia]). lia. }
    apply quot_floor; [lia|reflexivity].
  - rewrite d_mul_dec_of_int in Hr. subst r out.
    assert (0 <= (P18 - pw) * nthZ (b_res p) j).
    { destruct (Z_lt_le_dec ((P18 - pw) * nthZ (b_res p) j) 0); [|lia]. exfalso.
      assert (Z.quot ((P18 - pw) * nthZ (b_res p) j) P18 <= 0) by (apply Z.quot_le_upper_bound; [reflexivity|lia]). lia. }
    apply quot_floor; [lia|reflexivity].
Qed.

(* ---------- the integer core of the single-asset join: shares = floor( S * (Pow(y, nw) - 1) ) when Pow >= 1 ---------- *)
Lemma d_quo_one a : d_quo a P18 = a.
Proof.
  unfold d_quo. replace (a * (P18 * P18)) with ((a * P18) * P18) by ring.
  rewrite Z.quot_mul by discriminate. apply chop_round_exact. reflexivity.
Qed.

Theorem b_single_asset_join_floor p bal w a fee ts s :
  b_calc_single_asset_join p bal w a fee ts = Ok s ->
  exists nw fr y pw,
    nw = d_quo (dec_of_int w) (dec_of_int (b_total_weight p)) /\ fee_ratio nw fee = Ok fr /\
    y = d_quo (dec_of_int bal + d_mul (dec_of_int a) fr) (dec_of_int bal) /\
    pow y nw = Ok pw /\ s = Z.quot ((pw - P18) * ts) P18.
Proof.
  intros H. apply b_single_asset_join_rounded_image in H as (nw & fr & r & _ & Hnw & Hfr & (wr & y & pw & _ & _ & Hwr & Hy & Hpw & Hr) & Hs).
  rewrite d_quo_one in Hwr. subst wr. exists nw, fr, y, pw. repeat split; auto.
  rewrite d_mul_dec_of_int in Hr. subst r s. f_equal. ring.
Qed.
