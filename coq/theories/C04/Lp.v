(* C04 - model of x/gamm/pool-models/internal/cfmm_common/lp.go (integer-only part):
   MaximalExactRatioJoin and CalcExitPool, function by function as written.
   A pool is seen through GetTotalPoolLiquidity (reserves R, in denom order) and GetTotalShares (S).
   tokensIn is the amount vector A in the same denom order (the callers have checked that it holds
   exactly the pool's denoms).  Definitions only. *)
From Coq Require Import ZArith List Bool.
Import ListNotations.
From Osmo Require Import Base.DecModel C04.Common.
Open Scope Z_scope.

(* math.LegacyMaxSortableDec = LegacyOneDec().Quo(LegacySmallestDec()) = 10^18, raw 10^36 *)
Definition max_sortable_dec : Z := P18 * P18.

(* coin.Amount.ToLegacyDec().QuoInt(reserve): big.Int.Quo, truncated *)
Definition share_ratio (a r : Z) : Z := Z.quot (a * P18) r.

Definition min_ratio (rs : list Z) : Z := fold_left (fun m x => if x <? m then x else m) rs max_sortable_dec.
Definition max_ratio (rs : list Z) : Z := fold_left (fun m x => if m <? x then x else m) rs 0.

(* remainder of one coin: minShareRatio.MulInt(reserve).Ceil().TruncateInt() is used *)
Definition used_amount (mn r : Z) : res Z :=
  do u <- d_check (mn * r);           (* MulInt asserts the LegacyDec range *)
  do c <- d_check (d_ceil u);         (* Ceil asserts the range *)
  Ok (Z.quot c P18).

Definition rem_coin (mn : Z) (arq : Z * Z * Z) : res Z :=
  let '(a, r, q) := arq in
  if q =? mn then Ok 0 else
  do used <- used_amount mn r;
  let na := a - used in
  if na <? 0 then Err e_neg_coin else Ok na.      (* sdk.Coins.Add panics on a negative coin *)

(* returns (numShares, remCoins as a vector) *)
Definition maximal_exact_ratio_join (R : list Z) (S : Z) (A : list Z) : res (Z * list Z) :=
  if existsb (fun r => r =? 0) R then Err e_div_zero else
  let ratios := map (fun ar => share_ratio (fst ar) (snd ar)) (zip A R) in
  let mn := min_ratio ratios in
  let mx := max_ratio ratios in
  if mn =? max_sortable_dec then Err e_no_ratio else
  do ns <- d_check (mn * S);                               (* minShareRatio.MulInt(totalShares) *)
  let num_shares := Z.quot ns P18 in                       (* TruncateInt *)
  if mn =? mx then Ok (num_shares, map (fun _ => 0) A) else
  do rem <- mapM (rem_coin mn) (zip (zip A R) ratios);
  Ok (num_shares, rem).

(* CalcExitPool; exit amounts as a vector (0 = coin omitted) *)
Definition exit_amount (ratio r : Z) : res Z :=
  do m <- d_check (ratio * r);                             (* shareOutRatio.MulInt(asset.Amount) *)
  let amt := Z.quot m P18 in
  if amt <=? 0 then Ok 0
  else if r <=? amt then Err e_too_many_out
  else Ok amt.

Definition calc_exit_pool (R : list Z) (S : Z) (exiting exit_fee : Z) : res (list Z) :=
  if S <=? exiting then Err e_exit_all else
  do refunded <- (if exit_fee =? 0 then Ok (exiting * P18)
                  else do f <- d_check (P18 - exit_fee); d_check (f * exiting));
  if S =? 0 then Err e_div_zero else
  let ratio := Z.quot refunded S in                        (* QuoInt *)
  mapM (exit_amount ratio) R.
