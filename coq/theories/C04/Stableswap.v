(* C04 - model of x/gamm/pool-models/stableswap (pool.go, amm.go), function by function as written.
   Definitions only. *)
From Coq Require Import ZArith List Bool.
Import ListNotations.
From Osmo Require Import Base.DecModel C04.Common C04.Lp Gen.C04_consts.
Open Scope Z_scope.

Record spool := mkS { s_res : list Z; s_sf : list Z; s_shares : Z }.
Definition s_n (p : spool) : nat := length (s_res p).

(* validatePoolLiquidity (the count / sortedness checks concern the shape, fixed in the model) *)
Definition validate_one (asf : Z * Z) : res unit :=
  let scaled := Z.quot (fst asf) (snd asf) in
  if StableswapMaxScaledAmtPerAsset <? scaled then Err e_max_scaled
  else if scaled <? StableswapMinScaledAmtPerAsset then Err e_min_scaled
  else Ok tt.
Definition validate_pool_liquidity (liq sf : list Z) : res unit :=
  do _ <- mapM validate_one (zip liq sf); Ok tt.

Definition s_calc_join_no_swap (p : spool) (amts : list Z) : res (Z * list Z) :=
  let n := s_n p in
  if negb (all_present n amts) || has_foreign n amts then Err e_shape else
  let A := known_part n amts in
  do '(ns, rem) <- maximal_exact_ratio_join (s_res p) (s_shares p) A;
  Ok (ns, sub_vec A rem).

(* updatePoolForJoin *)
Definition s_update_for_join (p : spool) (tokens : list Z) (sh : Z) : res spool :=
  do r' <- mapM int_check (add_vec (s_res p) tokens);
  do s' <- int_check (s_shares p + sh);
  Ok (mkS r' (s_sf p) s').

Definition s_join_no_swap (p : spool) (amts : list Z) : res (Z * spool) :=
  do '(ns, joined) <- s_calc_join_no_swap p amts;
  do p' <- s_update_for_join p joined ns;
  Ok (ns, p').

Definition s_calc_exit (p : spool) (sh exit_fee : Z) : res (list Z) :=
  calc_exit_pool (s_res p) (s_shares p) sh exit_fee.

Definition s_exit (p : spool) (sh exit_fee : Z) : res (list Z * spool) :=
  do coins <- s_calc_exit p sh exit_fee;
  let r' := sub_vec (s_res p) coins in
  do _ <- validate_pool_liquidity r' (s_sf p);
  do s' <- int_check (s_shares p - sh);
  Ok (coins, mkS r' (s_sf p) s').

Definition s_step (fee exit_fee : Z) (p : spool) (o : op) : Z * list Z * spool :=
  let n := s_n p in
  let fail e := (e, repeat 0 (nres n o), p) in
  match o with
  | OJoinNoSwap amts => match s_join_no_swap p amts with Ok (ns, p') => (0, [ns], p') | Err e => fail e end
  | OCalcJoinNoSwap amts => match s_calc_join_no_swap p amts with Ok (ns, j) => (0, ns :: j, p) | Err e => fail e end
  | OExit sh => match s_exit p sh exit_fee with Ok (c, p') => (0, c, p') | Err e => fail e end
  | OCalcExit sh => match s_calc_exit p sh exit_fee with Ok c => (0, c, p) | Err e => fail e end
  | _ => fail e_unsupported
  end.
