(* C04 - model of x/gamm/pool-models/stableswap (pool.go, amm.go), function by function as written.
   Definitions only. *)
From Coq Require Import ZArith List Bool.
Import ListNotations.
From Osmo Require Import Base.DecModel C04.Common C04.Lp C04.MathLib Gen.C04_consts.
Open Scope Z_scope.

Record spool := mkS { s_res : list Z; s_sf : list Z; s_shares : Z }.
Definition s_n (p : spool) : nat := length (s_res p).

(* validatePoolLiquidity (the count / sortedness checks concern the shape, fixed in the model) *)
Definition validate_one (asf : Z * Z) : res unit :=
  let scaled := Z.quot (fst asf) (snd asf) in
  if StableswapMaxScaledAmtPerAsset <? scaled then Err e_max_scaled
  else if scaled <? StableswapMinScaledAmtPerAsset then Err e_min_scaled
  else Ok tt.
Definition validate_pool_liquidity (liq sf : list Z) : res unit :=
  do _ <- mapM validate_one (zip liq sf); Ok tt.

Definition s_calc_join_no_swap (p : spool) (amts : list Z) : res (Z * list Z) :=
  let n := s_n p in
  if negb (all_present n amts) || has_foreign n amts then Err e_shape else
  let A := known_part n amts in
  do '(ns, rem) <- maximal_exact_ratio_join (s_res p) (s_shares p) A;
  Ok (ns, sub_vec A rem).

(* updatePoolForJoin *)
Definition s_update_for_join (p : spool) (tokens : list Z) (sh : Z) : res spool :=
  do r' <- mapM int_check (add_vec (s_res p) tokens);
  do s' <- int_check (s_shares p + sh);
  Ok (mkS r' (s_sf p) s').

Definition s_join_no_swap (p : spool) (amts : list Z) : res (Z * spool) :=
  do '(ns, joined) <- s_calc_join_no_swap p amts;
  do p' <- s_update_for_join p joined ns;
  Ok (ns, p').

Definition s_calc_exit (p : spool) (sh exit_fee : Z) : res (list Z) :=
  calc_exit_pool (s_res p) (s_shares p) sh exit_fee.

Definition s_exit (p : spool) (sh exit_fee : Z) : res (list Z * spool) :=
  do coins <- s_calc_exit p sh exit_fee;
  let r' := sub_vec (s_res p) coins in
  do _ <- validate_pool_liquidity r' (s_sf p);
  do s' <- int_check (s_shares p - sh);
  Ok (coins, mkS r' (s_sf p) s').

(* ---------- amm.go: the CFMM ---------- *)
(* cfmmConstantMultiNoVY: x (x^2 + y^2 + w) *)
Definition cfmm_novy (x y w : Z) : res Z :=
  if (x <=? 0) || (y <=? 0) || (w <? 0) then Err e_bad_reserves else
  do x2 <- bc_mul x x;
  do y2 <- bc_mul y y;
  do s1 <- bc_add x2 y2;
  do s2 <- bc_add s1 w;
  bc_mul x s2.
(* cfmmConstantMultiNoV: x y (x^2 + y^2 + w) *)
Definition cfmm_nov (x y w : Z) : res Z := do k <- cfmm_novy x y w; bc_mul k y.

Fixpoint sum_squares (rem : list Z) (acc : Z) : res Z :=
  match rem with
  | [] => Ok acc
  | r :: rest => do r2 <- bc_mul r r; do a <- bc_add acc r2; sum_squares rest a
  end.

(* targetKCalculator *)
Definition target_k (x0 y0 w yf : Z) : res Z :=
  do start_k <- cfmm_nov x0 y0 w;
  do yf_removed <- bc_quo start_k yf;
  do yf2 <- bc_mul yf yf;
  do i1 <- bc_add yf2 w;
  do x02 <- bc_mul x0 x0;
  do inner <- bc_add i1 x02;
  do const <- bc_mul inner x0;
  bc_sub yf_removed const.

(* iterKCalculator: coefficients once, then the Horner evaluation per probe *)
Definition iter_k_coeffs (x0 w yf : Z) : res (Z * Z) :=
  do quad <- bc_mul_int x0 3;
  do q1 <- bc_mul quad x0;
  do q2 <- bc_add q1 w;
  do yf2 <- bc_mul yf yf;
  do q3 <- bc_add q2 yf2;
  Ok (quad, - q3).
Definition iter_k (x0 quad lin : Z) (xf : Z) : res Z :=
  do x_out <- bc_sub x0 xf;
  do r1 <- bc_add (- x_out) quad;
  do r2 <- bc_mul r1 x_out;
  do r3 <- bc_add r2 lin;
  bc_mul r3 x_out.

(* deriveUpperLowerXFinalReserveBounds *)
Definition derive_bounds (x y w yf : Z) : res (Z * Z) :=
  do k0 <- cfmm_nov x yf w;
  do k <- cfmm_nov x y w;
  if (k0 =? 0) || (k =? 0) then Err e_k_zero else
  do k_ratio <- bc_quo k0 k;
  if k_ratio <? P36 then
    do q <- bc_quo x k_ratio;
    Ok (x, bd_ceil q)                                   (* Ceil: no bit-length assertion *)
  else if P36 <? k_ratio then Ok (0, x)
  else Ok (x, x).

Definition ss_tolerance : err_tolerance := mkTol None (Some ss_mul_tolerance) RoundUp.

(* solveCFMMBinarySearchMulti: x_out for an input y_in (negative: tokens leave y) *)
Definition solve_cfmm_multi (x y w y_in : Z) : res Z :=
  if (x <=? 0) || (y <=? 0) || (w <? 0) then Err e_bad_reserves else
  if y <=? Z.abs y_in then Err e_input_too_large else
  do yf <- bc_add y y_in;
  do '(lo, hi) <- derive_bounds x y w yf;
  do tk <- target_k x y w yf;
  do '(quad, lin) <- iter_k_coeffs x w yf;
  do x_est <- binary_search_bigdec (iter_k x quad lin) lo hi tk ss_tolerance ss_max_iterations;
  do x_out <- bc_sub x x_est;
  if x <=? Z.abs x_out then Err e_output_too_big else Ok x_out.

Definition solve_cfmm (x y : Z) (rem : list Z) (y_in : Z) : res Z :=
  do w <- sum_squares rem 0;
  solve_cfmm_multi x y w y_in.

(* ---------- pool.go: scaling ---------- *)
(* DivIntByU64ToBigDec *)
Definition scale_down (amt sf : Z) : res Z := if sf =? 0 then Err e_div_zero else Ok (Z.quot (amt * P36) sf).   (* QuoInt64 *)
Definition scale_up (amt sf : Z) : res Z := bc_quo_round_up (amt * P36) (sf * P36).                               (* QuoRoundUp(NewBigDec(u)) *)
(* getDescaledPoolAmt: amount.MulInt64(sf).Dec()  (Dec truncates to 18 decimals, no range check) *)
Definition descale (amt sf : Z) : res Z := do m <- bc_mul_int amt sf; Ok (bd_to_dec m).

Fixpoint remove_two {A} (l : list A) (i j : nat) (k : nat) : list A :=
  match l with
  | [] => []
  | x :: r => if (k =? i)%nat || (k =? j)%nat then remove_two r i j (S k) else x :: remove_two r i j (S k)
  end.
(* scaledSortedPoolReserves(first = i, second = j, RoundDown): [scaled_i; scaled_j; the others in pool order] *)
Definition scaled_sorted_reserves (p : spool) (i j : nat) : res (list Z) :=
  let n := s_n p in
  if negb ((i <? n)%nat && (j <? n)%nat) || (i =? j)%nat then Err e_shape else
  if existsb (fun sf => negb ((0 <? sf) && (sf <? 2 ^ 63))) (s_sf p) then Err e_other_misconfigured else   (* validateScalingFactors *)
  let pairs := zip (s_res p) (s_sf p) in
  let order := nth i pairs (0, 1) :: nth j pairs (0, 1) :: remove_two pairs i j 0 in
  mapM (fun rs => scale_down (fst rs) (snd rs)) order.

Definition one_minus (fee : Z) : Z := (P18 - fee) * P18.               (* BigDecFromDecMut(OneDec().SubMut(spreadFactor)) *)

(* calcOutAmtGivenIn -> Dec; CalcOutAmtGivenIn truncates *)
Definition s_calc_out_given_in (p : spool) (i j : nat) (a fee : Z) : res Z :=
  do rs <- scaled_sorted_reserves p i j;
  match rs with
  | in_supply :: out_supply :: rem =>
    do tin <- scale_down a (nthZ (s_sf p) i);
    do amm_in <- bc_mul tin (one_minus fee);
    do cfmm_out <- solve_cfmm out_supply in_supply rem amm_in;
    do out_dec <- descale cfmm_out (nthZ (s_sf p) j);
    let out_int := Z.quot out_dec P18 in
    if out_int <=? 0 then Err e_not_positive else Ok out_int
  | _ => Err e_shape
  end.

Definition s_calc_in_given_out (p : spool) (i j : nat) (o fee : Z) : res Z :=   (* token i out, token j in *)
  do rs <- scaled_sorted_reserves p j i;
  match rs with
  | in_supply :: out_supply :: rem =>
    do tout <- scale_up o (nthZ (s_sf p) i);
    do cfmm_in <- solve_cfmm in_supply out_supply rem (- tout);
    do in_amt <- bc_quo_round_up (- cfmm_in) (one_minus fee);
    do in_dec <- descale in_amt (nthZ (s_sf p) j);
    do c <- dc_ceil in_dec;
    let in_int := Z.quot c P18 in
    if in_int <=? 0 then Err e_not_positive else Ok in_int
  | _ => Err e_shape
  end.

(* updatePoolLiquidityForSwap: Coins.Add(in).Sub(out); a reserve may neither go negative nor vanish *)
Definition s_update_for_swap (p : spool) (i j : nat) (a_in a_out : Z) : res spool :=
  let ni := nthZ (s_res p) i + a_in in
  let nj := nthZ (s_res p) j - a_out in
  if nj <? 0 then Err e_neg_coin else
  if (nj =? 0) || (ni =? 0) then Err e_other_misconfigured else     (* "changed number of tokens in pool" *)
  do ni' <- int_check ni;
  Ok (mkS (set_nth (set_nth (s_res p) i ni') j nj) (s_sf p) (s_shares p)).

Definition s_swap_out_given_in (p : spool) (i j : nat) (a fee : Z) : res (Z * spool) :=
  if negb (i <? s_n p)%nat then Err e_shape else                    (* Coins.Add of a foreign denom changes the count: count mismatch error *)
  do _ <- validate_pool_liquidity (set_nth (s_res p) i (nthZ (s_res p) i + a)) (s_sf p);
  do out <- s_calc_out_given_in p i j a fee;
  do p' <- s_update_for_swap p i j a out;
  Ok (out, p').

Definition s_swap_in_given_out (p : spool) (i j : nat) (o fee : Z) : res (Z * spool) :=
  do tin <- s_calc_in_given_out p i j o fee;
  do _ <- validate_pool_liquidity (set_nth (s_res p) j (nthZ (s_res p) j + tin)) (s_sf p);
  do p' <- s_update_for_swap p j i tin o;
  Ok (tin, p').

(* ---------- single-asset join by binary search (cfmm_common.BinarySearchSingleAssetJoin) ---------- *)
(* SwapAllCoinsToSingleAsset: swap every exited coin (denom order, zero = absent) into token i at zero spread factor *)
Fixpoint swap_all_to (p : spool) (i : nat) (coins : list Z) (k : nat) (acc : Z) : res Z :=
  match coins with
  | [] => Ok acc
  | c :: rest =>
    if (k =? i)%nat || (c =? 0) then swap_all_to p i rest (S k) acc else
    do '(out, p') <- s_swap_out_given_in p k i c 0;
    do acc' <- int_check (acc + out);
    swap_all_to p' i rest (S k) acc'
  end.

(* estimateCoinOutGivenShares *)
Definition estimate_coin_out (p : spool) (i : nat) (a shares_in : Z) : res Z :=
  do p1 <- s_update_for_join p (set_nth (repeat 0 (s_n p)) i a) shares_in;
  do '(exited, p2) <- s_exit p1 shares_in 0;
  swap_all_to p2 i exited 0 (nthZ exited i).

Definition join_tolerance : err_tolerance := mkTol (Some P18) None RoundDown.

Definition binary_search_single_asset_join (p : spool) (i : nat) (a : Z) : res Z :=
  let existing := nthZ (s_res p) i in
  do m <- int_check (s_shares p * a);
  if existing =? 0 then Err e_div_zero else
  do c <- dc_ceil (Z.quot (m * P18) existing);
  let upper := Z.quot c P18 in
  binary_search_int (estimate_coin_out p i a) 0 upper a join_tolerance join_max_iterations.

(* singleAssetJoinSpreadFactorRatio: 1 - (scaled reserve of the input token / sum of scaled reserves).Dec() *)
Fixpoint sum_bigdec (l : list Z) (acc : Z) : res Z :=
  match l with
  | [] => Ok acc
  | x :: r => do a <- bc_add acc x; sum_bigdec r a
  end.
Definition s_join_spread_factor_ratio (p : spool) (i : nat) : res Z :=
  let j := if (i =? 0)%nat then 1%nat else 0%nat in      (* PoolLiquidity[0], or [1] when [0] is the input token *)
  do rs <- scaled_sorted_reserves p i j;
  do tot <- sum_bigdec rs 0;
  do ratio <- bc_quo (nthZ rs 0) tot;
  dc_sub P18 (bd_to_dec ratio).

Definition s_calc_single_asset_join_shares (p : spool) (i : nat) (a fee : Z) : res Z :=
  do ratio <- s_join_spread_factor_ratio p i;
  do fr <- dc_mul fee ratio;
  do one_minus_sf <- dc_sub P18 fr;
  do af <- dc_mul (a * P18) one_minus_sf;
  binary_search_single_asset_join p i (Z.quot af P18).

Fixpoint first_nonzero (l : list Z) (k : nat) : nat :=
  match l with [] => k | x :: r => if x =? 0 then first_nonzero r (S k) else k end.

(* joinPoolSharesInternal (mutating; CalcJoinPoolShares runs it on a copy) *)
Definition s_join_internal (p : spool) (amts : list Z) (fee : Z) : res (Z * list Z * spool) :=
  let n := s_n p in
  if has_foreign n amts then Err e_shape else
  let A := known_part n amts ++ repeat 0 (n - length (known_part n amts)) in
  do '(ns, joined) <-
    (if (count_nonzero A =? 1)%nat && (1 <? sumZ A) then
       let idx := first_nonzero A 0 in
       do s <- s_calc_single_asset_join_shares p idx (nthZ A idx) fee;
       Ok (s, A)
     else if negb (count_nonzero A =? n)%nat then Err e_shape
     else
       do '(s, rem) <- maximal_exact_ratio_join (s_res p) (s_shares p) A;
       Ok (s, sub_vec A rem));
  do p' <- s_update_for_join p joined ns;
  do _ <- validate_pool_liquidity (s_res p') (s_sf p');
  Ok (ns, joined, p').

Definition s_step (fee exit_fee : Z) (p : spool) (o : op) : Z * list Z * spool :=
  let n := s_n p in
  let fail e := (e, repeat 0 (nres n o), p) in
  match o with
  | OJoinNoSwap amts => match s_join_no_swap p amts with Ok (ns, p') => (0, [ns], p') | Err e => fail e end
  | OCalcJoinNoSwap amts => match s_calc_join_no_swap p amts with Ok (ns, j) => (0, ns :: j, p) | Err e => fail e end
  | OExit sh => match s_exit p sh exit_fee with Ok (c, p') => (0, c, p') | Err e => fail e end
  | OCalcExit sh => match s_calc_exit p sh exit_fee with Ok c => (0, c, p) | Err e => fail e end
  | OSwapOut i j a => match s_swap_out_given_in p i j a fee with Ok (o, p') => (0, [o], p') | Err e => fail e end
  | OCalcOut i j a => match s_calc_out_given_in p i j a fee with Ok o => (0, [o], p) | Err e => fail e end
  | OSwapIn i j a => match s_swap_in_given_out p i j a fee with Ok (o, p') => (0, [o], p') | Err e => fail e end
  | OCalcIn i j a => match s_calc_in_given_out p i j a fee with Ok o => (0, [o], p) | Err e => fail e end
  | OJoin amts => match s_join_internal p amts fee with Ok (ns, _, p') => (0, [ns], p') | Err e => fail e end
  | OCalcJoin amts => match s_join_internal p amts fee with Ok (ns, j, _) => (0, ns :: j, p) | Err e => fail e end
  | _ => fail e_unsupported
  end.
