(* C04 - pool-level consequences of the proportional join / exit lemmas, for both pool kinds:
   the reserve of every token per outstanding share never falls. Axiom-free. *)
From Coq Require Import ZArith List Bool Lia.
Import ListNotations.
From Osmo Require Import Base.DecModel C04.Common C04.Lp C04.ProofsLp C04.Balancer C04.Stableswap.
Open Scope Z_scope.

Lemma Forall_firstn {A} (P : A -> Prop) n l : Forall P l -> Forall P (firstn n l).
Proof. revert l; induction n; destruct l; simpl; intros H; try constructor; inversion H; auto. Qed.

Lemma all_present_length n amts : all_present n amts = true -> length (known_part n amts) = n.
Proof. unfold all_present; intros H; apply andb_prop in H as [H _]; apply Nat.eqb_eq in H; exact H. Qed.

(* every reserve grows, and reserve-per-share does not fall: r / S <= r' / S' *)
Definition per_share_up (R : list Z) (S : Z) (R' : list Z) (S' : Z) : Prop :=
  Forall2 (fun r r' => r <= r' /\ r * S' <= r' * S) R R'.
(* every reserve shrinks but stays positive, and reserve-per-share does not fall *)
Definition per_share_down (R : list Z) (S : Z) (R' : list Z) (S' : Z) : Prop :=
  Forall2 (fun r r' => 0 < r' <= r /\ r * S' <= r' * S) R R'.

Lemma join_state ns S : forall A R rem, length A = length R ->
  Forall2 (fun ar rm => 0 <= rm <= fst ar /\ ns * snd ar <= S * (fst ar - rm)) (zip A R) rem ->
  per_share_up R S (add_vec R (sub_vec A rem)) (S + ns).
Proof.
  unfold per_share_up.
  induction A as [|a A IH]; intros R rem Hlen HF; destruct R as [|r R]; try discriminate; [constructor|].
  simpl in HF. inversion HF as [|x y l l' Hxy HF']; subst. simpl in Hxy.
  unfold add_vec, sub_vec in *. cbn [zip map fst snd]. constructor.
  - split; [lia|nia].
  - apply IH; auto.
Qed.

Lemma exit_state S sh : forall R outs,
  Forall2 (fun r o => 0 <= o < r /\ o * S <= sh * r) R outs ->
  per_share_down R S (sub_vec R outs) (S - sh).
Proof.
  unfold per_share_down. intros R outs HF. induction HF as [|r o l l' [Ho Hp] HF IH]; [constructor|].
  unfold sub_vec in *. cbn [zip map fst snd]. constructor; auto. split; [lia|nia].
Qed.

(* ---- balancer ---- *)
Theorem b_join_no_swap_sound p amts ns p' :
  Forall (fun r => 0 < r) (b_res p) -> 0 <= b_shares p -> Forall (fun a => 0 <= a) amts ->
  b_join_no_swap p amts = Ok (ns, p') ->
  0 <= ns /\ b_shares p' = b_shares p + ns /\ b_w p' = b_w p /\
  per_share_up (b_res p) (b_shares p) (b_res p') (b_shares p').
Proof.
  intros HR HS HA H. unfold b_join_no_swap in H.
  apply bind_ok in H as ([ns0 joined] & Hc & H).
  apply bind_ok in H as (p1 & Hinc & H). inversion H; subst ns0 p1; clear H.
  unfold b_calc_join_no_swap in Hc.
  destruct (has_foreign (b_n p) amts); [discriminate|].
  destruct (all_present (b_n p) amts) eqn:Eall; [|discriminate]. cbn [negb] in Hc.
  apply bind_ok in Hc as ([ns1 rem] & Hm & Hc). inversion Hc; subst ns1 joined; clear Hc.
  pose proof (all_present_length _ _ Eall) as Hlen. unfold b_n in Hlen.
  pose proof (Forall_firstn _ (length (b_res p)) _ HA) as HA'. fold (known_part (length (b_res p)) amts) in HA'.
  destruct (join_shares_le_proportional _ _ _ _ _ HR HA' Hlen HS Hm) as [Hns HF].
  unfold b_increase_liquidity in Hinc.
  apply bind_ok in Hinc as (r' & Hr' & Hinc). apply bind_ok in Hinc as (s' & Hs' & Hinc).
  apply mapM_int_check in Hr'. apply int_check_ok in Hs'. inversion Hinc; subst p' r' s'; clear Hinc.
  cbn [b_res b_shares b_w]. repeat split; auto.
  apply join_state; auto.
Qed.

Theorem b_exit_sound p sh fee coins p' :
  Forall (fun r => 0 < r) (b_res p) -> 0 <= sh -> 0 <= fee <= P18 ->
  b_exit p sh fee = Ok (coins, p') ->
  sh < b_shares p /\ b_shares p' = b_shares p - sh /\ b_w p' = b_w p /\ b_res p' = sub_vec (b_res p) coins /\
  Forall2 (fun r o => 0 <= o < r /\ o * b_shares p <= sh * r) (b_res p) coins /\
  per_share_down (b_res p) (b_shares p) (b_res p') (b_shares p').
Proof.
  intros HR Hsh Hfee H. unfold b_exit in H.
  apply bind_ok in H as (c & Hc & H). apply bind_ok in H as (p1 & Hp & H). inversion H; subst c p1; clear H.
  unfold b_calc_exit in Hc.
  destruct (calc_exit_pool_spec _ _ _ _ _ HR Hsh Hfee Hc) as [Hlt _].
  pose proof (exit_le_proportional _ _ _ _ _ HR Hsh Hfee Hc) as HF.
  unfold b_exit_pool in Hp. destruct (all_pos _); [|discriminate]. cbn [negb] in Hp.
  apply bind_ok in Hp as (s' & Hs' & Hp). apply int_check_ok in Hs'. inversion Hp; subst p' s'; clear Hp.
  cbn [b_res b_shares b_w]. repeat split; auto. apply exit_state; auto.
Qed.

(* ---- stableswap ---- *)
Theorem s_join_no_swap_sound p amts ns p' :
  Forall (fun r => 0 < r) (s_res p) -> 0 <= s_shares p -> Forall (fun a => 0 <= a) amts ->
  s_join_no_swap p amts = Ok (ns, p') ->
  0 <= ns /\ s_shares p' = s_shares p + ns /\ s_sf p' = s_sf p /\
  per_share_up (s_res p) (s_shares p) (s_res p') (s_shares p').
Proof.
  intros HR HS HA H. unfold s_join_no_swap in H.
  apply bind_ok in H as ([ns0 joined] & Hc & H).
  apply bind_ok in H as (p1 & Hinc & H). inversion H; subst ns0 p1; clear H.
  unfold s_calc_join_no_swap in Hc.
  destruct (all_present (s_n p) amts) eqn:Eall; [|discriminate].
  destruct (has_foreign (s_n p) amts); [discriminate|]. cbn [negb orb] in Hc.
  apply bind_ok in Hc as ([ns1 rem] & Hm & Hc). inversion Hc; subst ns1 joined; clear Hc.
  pose proof (all_present_length _ _ Eall) as Hlen. unfold s_n in Hlen.
  pose proof (Forall_firstn _ (length (s_res p)) _ HA) as HA'. fold (known_part (length (s_res p)) amts) in HA'.
  destruct (join_shares_le_proportional _ _ _ _ _ HR HA' Hlen HS Hm) as [Hns HF].
  unfold s_update_for_join in Hinc.
  apply bind_ok in Hinc as (r' & Hr' & Hinc). apply bind_ok in Hinc as (s' & Hs' & Hinc).
  apply mapM_int_check in Hr'. apply int_check_ok in Hs'. inversion Hinc; subst p' r' s'; clear Hinc.
  cbn [s_res s_shares s_sf]. repeat split; auto.
  apply join_state; auto.
Qed.

Theorem s_exit_sound p sh fee coins p' :
  Forall (fun r => 0 < r) (s_res p) -> 0 <= sh -> 0 <= fee <= P18 ->
  s_exit p sh fee = Ok (coins, p') ->
  sh < s_shares p /\ s_shares p' = s_shares p - sh /\ s_sf p' = s_sf p /\ s_res p' = sub_vec (s_res p) coins /\
  Forall2 (fun r o => 0 <= o < r /\ o * s_shares p <= sh * r) (s_res p) coins /\
  per_share_down (s_res p) (s_shares p) (s_res p') (s_shares p').
Proof.
  intros HR Hsh Hfee H. unfold s_exit in H.
  apply bind_ok in H as (c & Hc & H). apply bind_ok in H as (u & Hv & H).
  apply bind_ok in H as (s' & Hs' & H). apply int_check_ok in Hs'. inversion H; subst c p' s'; clear H.
  unfold s_calc_exit in Hc.
  destruct (calc_exit_pool_spec _ _ _ _ _ HR Hsh Hfee Hc) as [Hlt _].
  pose proof (exit_le_proportional _ _ _ _ _ HR Hsh Hfee Hc) as HF.
  cbn [s_res s_shares s_sf]. repeat split; auto. apply exit_state; auto.
Qed.

(* ---------- sequences of proportional operations (balancer pool; the stableswap case is identical) ---------- *)
Definition prop_op_valid (o : op) : Prop :=
  match o with
  | OJoinNoSwap a | OCalcJoinNoSwap a => Forall (fun x => 0 <= x) a
  | OExit s | OCalcExit s => 0 <= s
  | _ => False
  end.
Definition wf_b (p : bpool) : Prop := Forall (fun r => 0 < r) (b_res p) /\ 0 < b_shares p.
(* reserve per share of every token did not fall from p to p' *)
Definition no_dilution (p p' : bpool) : Prop :=
  Forall2 (fun r r' => r * b_shares p' <= r' * b_shares p) (b_res p) (b_res p').

Lemma no_dilution_refl p : no_dilution p p.
Proof. unfold no_dilution. induction (b_res p); constructor; auto; lia. Qed.

Lemma no_dilution_trans p1 p2 p3 : 0 <= b_shares p1 -> 0 < b_shares p2 -> 0 <= b_shares p3 -> Forall (fun r => 0 < r) (b_res p2) ->
  no_dilution p1 p2 -> no_dilution p2 p3 -> no_dilution p1 p3.
Proof.
  unfold no_dilution. intros HS1 HS HS3 HR H12. revert HR. generalize (b_res p3).
  induction H12 as [|r1 r2 l1 l2 H Hl IH]; intros l3 HR H23; inversion H23; subst; constructor.
  - inversion HR; subst.
    (* r1 S2 <= r2 S1, r2 S3 <= y S2  =>  r1 S3 <= y S1 *)
    assert (Ha : r1 * b_shares p2 * b_shares p3 <= r2 * b_shares p1 * b_shares p3) by (apply Z.mul_le_mono_nonneg_r; assumption).
    assert (Hb : r2 * b_shares p3 * b_shares p1 <= y * b_shares p2 * b_shares p1) by (apply Z.mul_le_mono_nonneg_r; assumption).
    assert (Hc : (r1 * b_shares p3) * b_shares p2 <= (y * b_shares p1) * b_shares p2) by lia.
    apply Z.mul_le_mono_pos_r in Hc; assumption.
  - inversion HR; subst. apply IH; auto.
Qed.

Lemma per_share_up_no_dilution R S R' S' (p p' : bpool) :
  b_res p = R -> b_shares p = S -> b_res p' = R' -> b_shares p' = S' -> per_share_up R S R' S' -> no_dilution p p'.
Proof.
  intros; subst. unfold no_dilution, per_share_up in *. induction H3; constructor; auto. lia.
Qed.
Lemma per_share_down_no_dilution R S R' S' (p p' : bpool) :
  b_res p = R -> b_shares p = S -> b_res p' = R' -> b_shares p' = S' -> per_share_down R S R' S' -> no_dilution p p'.
Proof.
  intros; subst. unfold no_dilution, per_share_down in *. induction H3; constructor; auto. lia.
Qed.

Lemma b_step_prop fee ef p o : wf_b p -> prop_op_valid o -> 0 <= ef <= P18 ->
  let p' := snd (b_step fee ef p o) in wf_b p' /\ no_dilution p p'.
Proof.
  intros [HR HS] Hv Hef. cbv zeta.
  destruct o; cbn [prop_op_valid] in Hv; try contradiction; cbn [b_step].
  - (* joinNoSwap *)
    destruct (b_join_no_swap p amts) as [[ns p']|e] eqn:E; cbn [snd]; [|split; [split; auto|apply no_dilution_refl]].
    destruct (b_join_no_swap_sound _ _ _ _ HR ltac:(lia) Hv E) as (Hns & Hsh & _ & Hup).
    split.
    + split; [|lia]. unfold per_share_up in Hup. clear - Hup HR.
      induction Hup; constructor; inversion HR; subst; auto; lia.
    + apply (per_share_up_no_dilution (b_res p) (b_shares p) (b_res p') (b_shares p')); auto.
  - (* calcJoinNoSwap: the pool is not touched *)
    destruct (b_calc_join_no_swap p amts) as [[ns j]|e]; cbn [snd]; (split; [split; auto|apply no_dilution_refl]).
  - (* exit *)
    destruct (b_exit p sh ef) as [[c p']|e] eqn:E; cbn [snd]; [|split; [split; auto|apply no_dilution_refl]].
    destruct (b_exit_sound _ _ _ _ _ HR Hv Hef E) as (Hlt & Hsh & _ & _ & _ & Hdown).
    split.
    + split; [|lia]. unfold per_share_down in Hdown. clear - Hdown.
      induction Hdown; constructor; auto; lia.
    + apply (per_share_down_no_dilution (b_res p) (b_shares p) (b_res p') (b_shares p')); auto.
  - destruct (b_calc_exit p sh ef) as [c|e]; cbn [snd]; (split; [split; auto|apply no_dilution_refl]).
Qed.

Fixpoint b_run (fee ef : Z) (p : bpool) (ops : list op) : bpool :=
  match ops with [] => p | o :: r => b_run fee ef (snd (b_step fee ef p o)) r end.

(* no_profit_sequence (proportional operations, sequences of any length): whatever an actor does with no-swap joins and
   exits, the reserve of every token per outstanding share never falls - the other share holders are never diluted *)
Theorem no_profit_sequence_proportional fee ef ops : forall p,
  wf_b p -> Forall prop_op_valid ops -> 0 <= ef <= P18 ->
  wf_b (b_run fee ef p ops) /\ no_dilution p (b_run fee ef p ops).
Proof.
  induction ops as [|o r IH]; intros p Hwf Hv Hef; cbn [b_run].
  - split; [auto|apply no_dilution_refl].
  - inversion Hv; subst.
    destruct (b_step_prop fee ef p o Hwf H1 Hef) as [Hwf' Hnd].
    destruct (IH _ Hwf' H2 Hef) as [Hwf'' Hnd'].
    split; [exact Hwf''|]. destruct Hwf' as [HR' HS']. destruct Hwf as [_ HS0]. destruct Hwf'' as [_ HS2].
    apply (no_dilution_trans p (snd (b_step fee ef p o))); auto; lia.
Qed.

(* the round trip: join without swap, then exit the minted shares - never more of any token back than was joined *)
Theorem no_profit_join_exit p amts ns p' ef coins p'' :
  wf_b p -> Forall (fun a => 0 <= a) amts -> 0 <= ef <= P18 ->
  b_join_no_swap p amts = Ok (ns, p') -> b_exit p' ns ef = Ok (coins, p'') ->
  Forall2 (fun rr o => o <= snd rr - fst rr) (zip (b_res p) (b_res p')) coins.
Proof.
  intros [HR HS] HA Hef Hj He.
  destruct (b_join_no_swap_sound _ _ _ _ HR ltac:(lia) HA Hj) as (Hns & Hsh & _ & Hup).
  assert (HR' : Forall (fun r => 0 < r) (b_res p')).
  { unfold per_share_up in Hup. clear - Hup HR. induction Hup; constructor; inversion HR; subst; auto; lia. }
  destruct (b_exit_sound _ _ _ _ _ HR' Hns Hef He) as (_ & _ & _ & _ & Hex & _).
  unfold per_share_up in Hup. revert Hex. generalize coins. clear - Hup Hsh HS Hns.
  induction Hup as [|r r' l l' [Hle Hps] Hup IH]; intros cs Hex; inversion Hex; subst; cbn [zip]; constructor.
  - cbn [fst snd]. destruct H1 as [Ho Hp].
    (* o S' <= ns r' and r S' <= r' S with S' = S + ns  =>  o <= r' - r *)
    rewrite Hsh in *. nia.
  - apply IH; auto.
Qed.
