(* C04 - stableswap: what the binary-search solver guarantees, and why that keeps the invariant from falling.
   Axiom-free (Z and Q arithmetic only). *)
From Coq Require Import ZArith List Bool Lia QArith Lqa.
Import ListNotations.
From Osmo Require Import Base.DecModel C04.Common C04.Lp C04.MathLib C04.Stableswap C04.ProofsLp Gen.C04_consts.
Open Scope Z_scope.

(* ---------- the search returns only a probe that passed the tolerance comparison ---------- *)
Lemma loop_pos_inr {St R} (step : St -> St + R) p : forall s r,
  loop_pos step p s = inr r -> exists s', step s' = inr r.
Proof.
  induction p as [p IH|p IH|]; intros s r H; cbn [loop_pos] in H.
  - destruct (step s) as [s1|r1] eqn:E1; [|inversion H; subst; eauto].
    destruct (loop_pos step p s1) as [s2|r2] eqn:E2; [eapply IH; eauto|inversion H; subst; eapply IH; eauto].
  - destruct (loop_pos step p s) as [s1|r1] eqn:E1; [eapply IH; eauto|inversion H; subst; eapply IH; eauto].
  - eauto.
Qed.

Theorem binary_search_bigdec_post f lo hi target t n x :
  binary_search_bigdec f lo hi target t n = Ok x ->
  exists lo' hi' out, x = Z.shiftr (lo' + hi') 1 /\ f x = Ok out /\ compare_bigdec t target out = Ok 0.
Proof.
  unfold binary_search_bigdec. destruct (n <=? 0); [discriminate|].
  destruct (loop_pos _ _ _) as [s|r] eqn:E; [discriminate|]. intros H; subst r.
  apply loop_pos_inr in E as ([lo' hi'] & E). unfold bs_bigdec_step in E.
  destruct (bc_add lo' hi') as [s|e] eqn:Ea; [|discriminate].
  destruct (f (Z.shiftr s 1)) as [out|e] eqn:Ef; [|discriminate].
  destruct (compare_bigdec t target out) as [c|e] eqn:Ec; [|discriminate].
  destruct (c <? 0) eqn:E1; [discriminate|]. destruct (0 <? c) eqn:E2; [discriminate|].
  apply Z.ltb_ge in E1, E2. assert (c = 0) by lia; subst c.
  inversion E; subst x. unfold bc_add, bd_check in Ea. destruct (bd_fits _); inversion Ea; subst s.
  exists lo', hi', out. auto.
Qed.

(* with RoundUp a passed comparison means the target is not above the probe's output *)
Lemma compare_round_up_zero a m expected actual :
  compare_bigdec (mkTol a m RoundUp) expected actual = Ok 0 -> expected <= actual.
Proof.
  unfold compare_bigdec. cbn [tol_dir].
  destruct (expected <? actual) eqn:E1; destruct (actual <? expected) eqn:E2; try discriminate;
    apply Z.ltb_ge in E2; auto.
Qed.

(* ---------- the CFMM in exact integer arithmetic ---------- *)
(* k(x, y) = x y (x^2 + y^2 + w); the solver compares
     iterK(xf)  = -xo^3 + 3 x0 xo^2 - (yf^2 + w + 3 x0^2) xo,  xo = x0 - xf
   with
     targetK    = k(x0, y0)/yf - x0 (yf^2 + w + x0^2):
   yf * (iterK(xf) - targetK) = k(xf, yf) - k(x0, y0) *)
Definition kf (x y w : Z) : Z := x * y * (x * x + y * y + w).
Definition iter_k_exact (x0 w yf xf : Z) : Z :=
  let xo := x0 - xf in - (xo * xo * xo) + 3 * x0 * (xo * xo) - (yf * yf + w + 3 * (x0 * x0)) * xo.

Lemma cfmm_identity x0 y0 w yf xf :
  kf xf yf w - kf x0 y0 w = yf * (iter_k_exact x0 w yf xf + x0 * (yf * yf + w + x0 * x0)) - kf x0 y0 w.
Proof. unfold kf, iter_k_exact. ring. Qed.

(* exact arithmetic: a probe whose iterK is not below the target keeps k from falling *)
Theorem swap_k_nondecreasing_exact x0 y0 w yf xf :
  0 < yf -> kf x0 y0 w <= yf * (iter_k_exact x0 w yf xf + x0 * (yf * yf + w + x0 * x0)) ->
  kf x0 y0 w <= kf xf yf w.
Proof. intros Hy H. pose proof (cfmm_identity x0 y0 w yf xf). lia. Qed.

(* k is increasing in x, at least at the rate y (x^2 + y^2 + w): every bit of output that the integer truncation keeps in
   the pool raises k by at least that much *)
Lemma kf_slack x y w s : 0 <= x -> 0 <= y -> 0 <= w -> 0 <= s ->
  kf x y w + s * (y * (x * x + y * y + w)) <= kf (x + s) y w.
Proof. intros. unfold kf. nia. Qed.

Lemma kf_mono_y x y w t : 0 <= x -> 0 <= y -> 0 <= w -> 0 <= t -> kf x y w <= kf x (y + t) w.
Proof. intros. unfold kf. nia. Qed.

(* ---------- the 36-decimal roundings of the solver: explicit error terms (rational arithmetic) ---------- *)
Lemma chop_round_nonneg_bounds p a : 0 < p -> Z.even p = true -> 0 <= a ->
  2 * a - p <= 2 * p * chop_round_nonneg p a <= 2 * a + p.
Proof.
  intros Hp He Ha. unfold chop_round_nonneg.
  pose proof (Z.quot_rem' a p) as Hqr.
  assert (Hr : 0 <= Z.rem a p < p) by (apply Z.rem_bound_pos; lia).
  assert (Hh : p = 2 * Z.quot p 2).
  { rewrite Z.quot_div_nonneg by lia. apply Zeven_bool_iff in He. destruct (Zeven_ex p He) as [m Hm]. subst p.
    rewrite Z.mul_comm, Z.div_mul by lia. lia. }
  set (q := Z.quot a p) in *. set (r := Z.rem a p) in *. set (h := Z.quot p 2) in *. clearbody q r h.
  assert (Hpq : 2 * p * (q + 1) = 2 * (p * q) + 2 * p) by ring.
  assert (Hpq0 : 2 * p * q = 2 * (p * q)) by ring.
  set (pq := p * q) in *. clearbody pq.
  destruct (r =? 0) eqn:E0; [apply Z.eqb_eq in E0; lia|].
  apply Z.eqb_neq in E0.
  destruct (Z.compare_spec r h) as [Ec|Ec|Ec].
  - destruct (Z.even q); lia.
  - lia.
  - lia.
Qed.

Lemma chop_round_bounds p n : 0 < p -> Z.even p = true ->
  2 * n - p <= 2 * p * chop_round p n <= 2 * n + p.
Proof.
  intros Hp He. unfold chop_round. destruct (n <? 0) eqn:E.
  - apply Z.ltb_lt in E. pose proof (chop_round_nonneg_bounds p (- n) Hp He ltac:(lia)). nia.
  - apply Z.ltb_ge in E. apply chop_round_nonneg_bounds; auto.
Qed.

Lemma P36_pos : 0 < P36. Proof. reflexivity. Qed.
Lemma P36_even : Z.even P36 = true. Proof. reflexivity. Qed.

Open Scope Q_scope.
Definition u : Q := inject_Z P36.
Definition iu : Q := / u.
Notation iz := inject_Z.

Lemma u_pos : 0 < u. Proof. unfold u. change 0 with (inject_Z 0). rewrite <- Zlt_Qlt. reflexivity. Qed.
Lemma iu_pos : 0 < iu. Proof. unfold iu. apply Qinv_lt_0_compat, u_pos. Qed.
Lemma u_iu : u * iu == 1. Proof. unfold iu. apply Qmult_inv_r. pose proof u_pos. lra. Qed.

Ltac push_iz_in H := unfold Z.sub in H; repeat first [rewrite inject_Z_plus in H | rewrite inject_Z_mult in H | rewrite inject_Z_opp in H].
Ltac push_iz := unfold Z.sub; repeat first [rewrite inject_Z_plus | rewrite inject_Z_mult | rewrite inject_Z_opp].

(* a rounded product: exact value plus at most half a unit of the last place *)
Lemma chop_q n : exists th, (iz (chop_round P36 n)) == (iz (n)) * iu + th /\ -(1#2) <= th <= 1#2.
Proof.
  exists ((iz (chop_round P36 n)) - (iz (n)) * iu). split; [ring|].
  pose proof (chop_round_bounds P36 n P36_pos P36_even) as [H1 H2].
  rewrite Zle_Qle in H1, H2.
  push_iz_in H1. push_iz_in H2.
  fold u in H1, H2. pose proof u_pos. pose proof iu_pos. pose proof u_iu.
  change (iz (2%Z)) with 2 in *.
  set (c := (iz (chop_round P36 n))) in *. set (m := (iz (n))) in *.
  assert (m == m * (u * iu)) by (rewrite H3; ring).
  split; nra.
Qed.

Lemma prod_bound t c h m : 0 <= h -> 0 <= m -> -h <= t <= h -> -m <= c <= m -> -(h * m) <= t * c <= h * m.
Proof. intros. split; nra. Qed.

Lemma bd_mul_q a b : exists th, iz (bd_mul a b) == iz a * iz b * iu + th /\ -(1#2) <= th <= 1#2.
Proof. unfold bd_mul. destruct (chop_q (a * b)) as (th & E & B). exists th. rewrite E, inject_Z_mult. split; [ring|exact B]. Qed.

Lemma quot_q m b : (0 < b)%Z -> exists tq, iz (Z.quot m b) * iz b == iz m + tq * iz b /\ -1 <= tq <= 1.
Proof.
  intros Hb. exists (iz (Z.quot m b) - iz m / iz b).
  assert (Hbq : 0 < iz b) by (change 0 with (iz 0); rewrite <- Zlt_Qlt; exact Hb).
  split; [field; lra|].
  pose proof (Z.quot_rem' m b) as Hqr.
  assert (Hr : (- b < Z.rem m b < b)%Z).
  { pose proof (Z.rem_bound_abs m b ltac:(lia)). lia. }
  assert (H1 : (b * Z.quot m b <= m + b)%Z) by lia.
  assert (H2 : (m - b <= b * Z.quot m b)%Z) by lia.
  rewrite Zle_Qle in H1, H2. push_iz_in H1. push_iz_in H2.
  set (q := iz (Z.quot m b)) in *. set (M := iz m) in *. set (B := iz b) in *.
  assert (Hd : M / B * B == M) by (field; lra).
  set (d := M / B) in *. clearbody d.
  split; nra.
Qed.

Lemma P72_uu : iz P72 == u * u.
Proof. unfold u. rewrite <- inject_Z_mult. reflexivity. Qed.

(* a rounded quotient by a positive divisor: exact value plus at most half a unit and one truncated unit of 10^-72 *)
Lemma bd_quo_q a b : (0 < b)%Z -> exists th, iz (bd_quo a b) * iz b == iz a * u + th * iz b /\ -(1#2) - iu <= th <= (1#2) + iu.
Proof.
  intros Hb. unfold bd_quo.
  destruct (chop_q (Z.quot (a * P72) b)) as (th & E & B).
  destruct (quot_q (a * P72) b Hb) as (tq & Eq & Bq).
  exists (tq * iu + th). rewrite E. rewrite inject_Z_mult, P72_uu in Eq.
  pose proof u_iu. pose proof iu_pos.
  split.
  - transitivity (iz (Z.quot (a * P72) b) * iz b * iu + th * iz b); [ring|]. rewrite Eq.
    transitivity (iz a * u * (u * iu) + tq * iz b * iu + th * iz b); [ring|]. rewrite H. ring.
  - split; nra.
Qed.

Lemma bd_check_ok z y : bd_check z = Ok y -> y = z.
Proof. unfold bd_check; destruct (bd_fits z); intros H; inversion H; auto. Qed.
Lemma iz_nonneg z : (0 <= z)%Z -> 0 <= iz z.
Proof. intros H. change 0 with (iz 0). rewrite <- Zle_Qle. exact H. Qed.
Lemma iz_pos z : (0 < z)%Z -> 0 < iz z.
Proof. intros H. change 0 with (iz 0). rewrite <- Zlt_Qlt. exact H. Qed.

(* the invariant and the two sides of the solver's comparison, exactly (raw 10^36 scale: value * 10^36) *)
Definition Khat (x y w : Z) : Q := iz x * iz y * ((iz x * iz x + iz y * iz y) * iu + iz w) * iu * iu.
Definition Aexact (x0 w yf xf : Z) : Q :=
  let xo := iz x0 - iz xf in
  ((- xo + 3 * iz x0) * xo * iu - (3 * iz x0 * iz x0 * iu + iz w + iz yf * iz yf * iu)) * xo * iu.
Definition Texact (x0 y0 w yf : Z) : Q :=
  Khat x0 y0 w * u / iz yf - ((iz yf * iz yf + iz x0 * iz x0) * iu + iz w) * iz x0 * iu.

Lemma k_identity_q x0 y0 w yf xf : (0 < yf)%Z ->
  iz yf * iu * (Aexact x0 w yf xf - Texact x0 y0 w yf) == Khat xf yf w - Khat x0 y0 w.
Proof.
  intros Hy. pose proof (iz_pos _ Hy). pose proof u_pos.
  unfold Aexact, Texact, Khat, iu. field. split; lra.
Qed.

(* rounded iterK against the exact cubic: three products are rounded before the last multiplication by x_out, one after *)
Definition e_iter (x0 : Z) : Q := (3#2) * iz x0 * iu + (1#2).
Lemma iter_k_err x0 w yf xf quad lin ik :
  iter_k_coeffs x0 w yf = Ok (quad, lin) -> iter_k x0 quad lin xf = Ok ik ->
  (0 <= x0)%Z -> (- x0 <= x0 - xf <= x0)%Z ->
  Aexact x0 w yf xf - e_iter x0 <= iz ik <= Aexact x0 w yf xf + e_iter x0.
Proof.
  intros Hc Hi Hx0 Hxo.
  unfold iter_k_coeffs in Hc.
  apply bind_ok in Hc as (qd & Hqd & Hc). apply bind_ok in Hc as (q1 & Hq1 & Hc).
  apply bind_ok in Hc as (q2 & Hq2 & Hc). apply bind_ok in Hc as (yf2 & Hyf2 & Hc).
  apply bind_ok in Hc as (q3 & Hq3 & Hc). inversion Hc; subst quad lin; clear Hc.
  unfold bc_mul_int, bc_mul, bc_add in *.
  apply bd_check_ok in Hqd, Hq1, Hq2, Hyf2, Hq3. subst.
  unfold iter_k in Hi.
  apply bind_ok in Hi as (xo & Hxo' & Hi). apply bind_ok in Hi as (r1 & Hr1 & Hi).
  apply bind_ok in Hi as (r2 & Hr2 & Hi). apply bind_ok in Hi as (r3 & Hr3 & Hi).
  unfold bc_sub, bc_add, bc_mul in *.
  apply bd_check_ok in Hxo', Hr1, Hr2, Hr3, Hi. subst.
  destruct (bd_mul_q (x0 * 3) x0) as (ta & Ea & Ba).
  destruct (bd_mul_q yf yf) as (tb & Eb & Bb).
  destruct (bd_mul_q (- (x0 - xf) + x0 * 3) (x0 - xf)) as (t1 & E1 & B1).
  destruct (bd_mul_q (bd_mul (- (x0 - xf) + x0 * 3) (x0 - xf) + - (bd_mul (x0 * 3) x0 + w + bd_mul yf yf)) (x0 - xf)) as (t2 & E2 & B2).
  rewrite E2. clear E2.
  push_iz. rewrite E1, Ea, Eb. push_iz.
  change (iz 3) with 3.
  set (X0 := iz x0) in *. set (XF := iz xf) in *. set (W := iz w) in *. set (YF := iz yf) in *.
  assert (HX0 : 0 <= X0) by (apply iz_nonneg; exact Hx0).
  assert (Hxoq : - X0 <= X0 - XF <= X0).
  { destruct Hxo as [Ha Hb]. rewrite Zle_Qle in Ha, Hb. push_iz_in Ha. push_iz_in Hb. fold X0 XF in Ha, Hb. split; lra. }
  pose proof iu_pos as Hiu.
  set (c := (X0 - XF) * iu).
  assert (Hc : - (X0 * iu) <= c <= X0 * iu) by (unfold c; split; nra).
  assert (Hm : 0 <= X0 * iu) by nra.
  pose proof (prod_bound t1 c (1#2) (X0 * iu) ltac:(lra) Hm B1 Hc) as P1.
  pose proof (prod_bound ta c (1#2) (X0 * iu) ltac:(lra) Hm Ba Hc) as Pa.
  pose proof (prod_bound tb c (1#2) (X0 * iu) ltac:(lra) Hm Bb Hc) as Pb.
  unfold e_iter, Aexact. fold X0 XF W YF.
  match goal with |- ?lo <= ?e <= ?hi =>
    assert (Eq : e == ((- (X0 - XF) + 3 * X0) * (X0 - XF) * iu - (3 * X0 * X0 * iu + W + YF * YF * iu)) * (X0 - XF) * iu
                      + (t1 * c - ta * c - tb * c) + t2) by (unfold c; ring)
  end.
  rewrite Eq. split; lra.
Qed.

(* rounded k(x0, y0) against the exact one: two squares and two further products are rounded *)
Definition e_k (x y : Z) : Q := iz x * iz y * iu * iu + iz y * iu * (1#2) + (1#2).
Lemma cfmm_nov_err x y w k : cfmm_nov x y w = Ok k -> (0 <= x)%Z -> (0 <= y)%Z ->
  Khat x y w - e_k x y <= iz k <= Khat x y w + e_k x y.
Proof.
  intros H Hx Hy. unfold cfmm_nov, cfmm_novy in H.
  apply bind_ok in H as (ky & Hky & H).
  destruct ((x <=? 0)%Z || (y <=? 0)%Z || (w <? 0)%Z); [discriminate|].
  apply bind_ok in Hky as (x2 & Hx2 & Hky). apply bind_ok in Hky as (y2 & Hy2 & Hky).
  apply bind_ok in Hky as (s1 & Hs1 & Hky). apply bind_ok in Hky as (s2 & Hs2 & Hky).
  unfold bc_mul, bc_add in *. apply bd_check_ok in Hx2, Hy2, Hs1, Hs2, Hky, H. subst.
  destruct (bd_mul_q x x) as (t1 & E1 & B1). destruct (bd_mul_q y y) as (t2 & E2 & B2).
  destruct (bd_mul_q x (bd_mul x x + bd_mul y y + w)) as (t3 & E3 & B3).
  destruct (bd_mul_q (bd_mul x (bd_mul x x + bd_mul y y + w)) y) as (t4 & E4 & B4).
  rewrite E4, E3. push_iz. rewrite E1, E2.
  set (X := iz x) in *. set (Y := iz y) in *. set (W := iz w) in *.
  assert (HX : 0 <= X) by (apply iz_nonneg; exact Hx). assert (HY : 0 <= Y) by (apply iz_nonneg; exact Hy).
  pose proof iu_pos as Hiu.
  set (c := X * Y * iu * iu). set (d := Y * iu).
  assert (Hc : 0 <= c) by (unfold c; repeat apply Qmult_le_0_compat; lra). assert (Hd : 0 <= d) by (unfold d; apply Qmult_le_0_compat; lra).
  pose proof (prod_bound t1 c (1#2) c ltac:(lra) Hc B1 ltac:(lra)) as P1.
  pose proof (prod_bound t2 c (1#2) c ltac:(lra) Hc B2 ltac:(lra)) as P2.
  pose proof (prod_bound t3 d (1#2) d ltac:(lra) Hd B3 ltac:(lra)) as P3.
  unfold Khat, e_k. fold X Y W.
  match goal with |- ?lo <= ?e <= ?hi =>
    assert (Eq : e == X * Y * ((X * X + Y * Y) * iu + W) * iu * iu + (t1 * c + t2 * c) + t3 * d + t4) by (unfold c, d; ring)
  end.
  rewrite Eq. fold c d. split; nra.
Qed.

(* rounded targetK against the exact one *)
Definition e_target (x0 y0 yf : Z) : Q := e_k x0 y0 * u / iz yf + iu + (1#2) + iz x0 * iu + (1#2).
Lemma target_k_err x0 y0 w yf tk : target_k x0 y0 w yf = Ok tk -> (0 <= x0)%Z -> (0 <= y0)%Z -> (0 < yf)%Z ->
  Texact x0 y0 w yf - e_target x0 y0 yf <= iz tk <= Texact x0 y0 w yf + e_target x0 y0 yf.
Proof.
  intros H Hx Hy Hyf. unfold target_k in H.
  apply bind_ok in H as (sk & Hsk & H). apply bind_ok in H as (yr & Hyr & H).
  apply bind_ok in H as (yf2 & Hyf2 & H). apply bind_ok in H as (i1 & Hi1 & H).
  apply bind_ok in H as (x02 & Hx02 & H). apply bind_ok in H as (inner & Hin & H).
  apply bind_ok in H as (cst & Hcst & H).
  pose proof (cfmm_nov_err _ _ _ _ Hsk Hx Hy) as Bk.
  unfold bc_quo in Hyr. destruct (yf =? 0)%Z; [discriminate|].
  unfold bc_mul, bc_add, bc_sub in *. apply bd_check_ok in Hyr, Hyf2, Hi1, Hx02, Hin, Hcst, H. subst.
  destruct (bd_quo_q sk yf Hyf) as (t5 & E5 & B5).
  destruct (bd_mul_q yf yf) as (t6 & E6 & B6). destruct (bd_mul_q x0 x0) as (t7 & E7 & B7).
  destruct (bd_mul_q (bd_mul yf yf + w + bd_mul x0 x0) x0) as (t8 & E8 & B8).
  push_iz. rewrite E8. push_iz. rewrite E6, E7.
  set (X0 := iz x0) in *. set (Y0 := iz y0) in *. set (W := iz w) in *. set (YF := iz yf) in *. set (SK := iz sk) in *.
  set (QR := iz (bd_quo sk yf)) in *.
  assert (HX : 0 <= X0) by (apply iz_nonneg; exact Hx).
  assert (HYF : 0 < YF) by (apply iz_pos; exact Hyf).
  pose proof iu_pos as Hiu. pose proof u_pos as Hu. pose proof u_iu as Hui.
  (* QR = SK * u / YF + t5 *)
  assert (EQR : QR == SK * u / YF + t5).
  { assert (QR * YF / YF == QR) by (field; lra). rewrite <- H. rewrite E5. field. lra. }
  set (d := X0 * iu). assert (Hd : 0 <= d) by (unfold d; nra).
  pose proof (prod_bound t6 d (1#2) d ltac:(lra) Hd B6 ltac:(lra)) as P6.
  pose proof (prod_bound t7 d (1#2) d ltac:(lra) Hd B7 ltac:(lra)) as P7.
  unfold Texact, e_target. fold X0 Y0 W YF.
  set (K := Khat x0 y0 w) in *. set (EK := e_k x0 y0) in *.
  assert (Hdiv : forall a b, a <= b -> a * u / YF <= b * u / YF).
  { intros a b Hab. unfold Qdiv. assert (Hi : 0 < / YF) by (apply Qinv_lt_0_compat; exact HYF).
    assert (Hk : 0 < u * / YF) by (apply Qmult_lt_0_compat; assumption).
    setoid_replace (a * u * / YF) with (a * (u * / YF)) by ring.
    setoid_replace (b * u * / YF) with (b * (u * / YF)) by ring.
    set (k := u * / YF) in *. nra. }
  destruct Bk as [Bk1 Bk2]. apply Hdiv in Bk1, Bk2.
  assert (Ea : (K - EK) * u / YF == K * u / YF - EK * u / YF) by (field; lra).
  assert (Eb : (K + EK) * u / YF == K * u / YF + EK * u / YF) by (field; lra).
  rewrite Ea in Bk1. rewrite Eb in Bk2.
  match goal with |- ?lo <= ?e <= ?hi =>
    assert (Eq : e == QR - (((YF * YF + X0 * X0) * iu + W) * X0 * iu + (t6 * d + t7 * d) + t8)) by (unfold d; ring)
  end.
  rewrite Eq, EQR. fold d. split; lra.
Qed.

(* the explicit accumulated rounding (raw 10^36 scale): in value terms about
   (3.5 X0 Yf + X0 Y0 + 2 Yf + Y0/2 + 1/2) * 10^-36, against k ~ X Y (X^2 + Y^2 + W) *)
Definition delta_k (x0 y0 yf : Z) : Q := iz yf * iu * (e_iter x0 + e_target x0 y0 yf).

(* swap_k_nondecreasing (partial: up to the explicit rounding term): whatever the solver returns,
   k(x0 - x_out, y0 + y_in) >= k(x0, y0) - delta *)
Theorem swap_k_nondecreasing_partial x y w yin xout :
  solve_cfmm_multi x y w yin = Ok xout ->
  (0 < y + yin)%Z /\ (0 < x - xout < 2 * x)%Z /\
  Khat x y w - delta_k x y (y + yin) <= Khat (x - xout) (y + yin) w.
Proof.
  unfold solve_cfmm_multi. intros H.
  destruct ((x <=? 0)%Z || (y <=? 0)%Z || (w <? 0)%Z) eqn:Eg; [discriminate|].
  apply orb_false_elim in Eg as [Eg Ew]. apply orb_false_elim in Eg as [Ex Ey].
  apply Z.leb_gt in Ex, Ey. apply Z.ltb_ge in Ew.
  destruct (y <=? Z.abs yin)%Z eqn:Eyin; [discriminate|]. apply Z.leb_gt in Eyin.
  apply bind_ok in H as (yf & Hyf & H). unfold bc_add in Hyf. apply bd_check_ok in Hyf. subst yf.
  apply bind_ok in H as ([lo hi] & Hb & H).
  apply bind_ok in H as (tk & Htk & H).
  apply bind_ok in H as ([quad lin] & Hco & H).
  apply bind_ok in H as (xest & Hbs & H).
  apply bind_ok in H as (xo & Hxo & H). unfold bc_sub in Hxo. apply bd_check_ok in Hxo. subst xo.
  destruct (x <=? Z.abs (x - xest))%Z eqn:Eout; [discriminate|]. apply Z.leb_gt in Eout.
  inversion H; subst xout; clear H.
  assert (Hyf : (0 < y + yin)%Z) by lia.
  replace (x - (x - xest))%Z with xest by lia.
  split; [exact Hyf|]. split; [lia|].
  apply binary_search_bigdec_post in Hbs as (lo' & hi' & ik & _ & Hik & Hcmp).
  apply compare_round_up_zero in Hcmp.
  pose proof (iter_k_err x w (y + yin) xest quad lin ik Hco Hik ltac:(lia) ltac:(lia)) as [_ HA].
  pose proof (target_k_err x y w (y + yin) tk Htk ltac:(lia) ltac:(lia) Hyf) as [HT _].
  rewrite Zle_Qle in Hcmp.
  pose proof (k_identity_q x y w (y + yin) xest Hyf) as Hid.
  pose proof (iz_pos _ Hyf) as HYF. pose proof iu_pos as Hiu.
  unfold delta_k.
  set (A := Aexact x w (y + yin) xest) in *. set (T := Texact x y w (y + yin)) in *.
  set (e1 := e_iter x) in *. set (e2 := e_target x y (y + yin)) in *.
  set (YF := iz (y + yin)) in *.
  set (K0 := Khat x y w) in *. set (K1 := Khat xest (y + yin) w) in *.
  clearbody A T e1 e2 YF K0 K1.
  assert (Hd : - (e1 + e2) <= A - T) by lra.
  assert (Hp : 0 < YF * iu) by (apply Qmult_lt_0_compat; assumption).
  assert (YF * iu * - (e1 + e2) <= YF * iu * (A - T)) by (apply Qmult_le_l; assumption).
  lra.
Qed.

(* every raw unit of output that stays in the pool raises k by at least y ((x^2+y^2) + w) *)
Lemma Khat_slack x y w s : (0 <= x)%Z -> (0 <= y)%Z -> (0 <= w)%Z -> (0 <= s)%Z ->
  Khat x y w + iz s * (iz y * ((iz x * iz x + iz y * iz y) * iu + iz w) * iu * iu) <= Khat (x + s) y w.
Proof.
  intros Hx Hy Hw Hs. unfold Khat. push_iz.
  pose proof (iz_nonneg _ Hx). pose proof (iz_nonneg _ Hy). pose proof (iz_nonneg _ Hw). pose proof (iz_nonneg _ Hs).
  pose proof iu_pos as Hiu.
  set (X := iz x) in *. set (Y := iz y) in *. set (W := iz w) in *. set (S := iz s) in *.
  assert (Hi2 : 0 <= iu * iu) by nra.
  assert (Hd : 0 <= (X + S) * Y * (((X + S) * (X + S) + Y * Y) * iu + W) - X * Y * ((X * X + Y * Y) * iu + W) - S * (Y * ((X * X + Y * Y) * iu + W))).
  { assert (0 <= S * Y) by nra. assert (0 <= X * S) by nra. assert (0 <= S * S) by nra. assert (0 <= X * Y) by nra.
    assert (E : (X + S) * Y * (((X + S) * (X + S) + Y * Y) * iu + W) - X * Y * ((X * X + Y * Y) * iu + W) - S * (Y * ((X * X + Y * Y) * iu + W))
                == iu * ((X * Y) * (2 * (X * S) + S * S) + (S * Y) * (2 * (X * S) + S * S))) by ring.
    rewrite E. apply Qmult_le_0_compat; [lra|]. nra. }
  set (D := (X + S) * Y * (((X + S) * (X + S) + Y * Y) * iu + W) - X * Y * ((X * X + Y * Y) * iu + W) - S * (Y * ((X * X + Y * Y) * iu + W))) in *.
  assert (E2 : (X + S) * Y * (((X + S) * (X + S) + Y * Y) * iu + W) * iu * iu - (X * Y * ((X * X + Y * Y) * iu + W) * iu * iu + S * (Y * ((X * X + Y * Y) * iu + W) * iu * iu)) == D * (iu * iu)) by (unfold D; ring).
  assert (0 <= D * (iu * iu)) by (apply Qmult_le_0_compat; assumption).
  lra.
Qed.

(* no decrease at all once the output kept back by the integer truncation (s raw units) outweighs the rounding term *)
Theorem swap_k_nondecreasing_token_level x y w yin xout s :
  solve_cfmm_multi x y w yin = Ok xout -> (0 <= w)%Z -> (0 <= s)%Z ->
  delta_k x y (y + yin) <=
    iz s * (iz (y + yin) * ((iz (x - xout) * iz (x - xout) + iz (y + yin) * iz (y + yin)) * iu + iz w) * iu * iu) ->
  Khat x y w <= Khat (x - xout + s) (y + yin) w.
Proof.
  intros H Hw Hs Hside.
  destruct (swap_k_nondecreasing_partial _ _ _ _ _ H) as (Hyf & Hxf & Hk).
  pose proof (Khat_slack (x - xout) (y + yin) w s ltac:(lia) ltac:(lia) Hw Hs). lra.
Qed.

(* ---------- rounding directions of the scaling / descaling around the solver ---------- *)
Open Scope Z_scope.

Lemma mapM_two {A B} (f : A -> res B) a b rest l : mapM f (a :: b :: rest) = Ok l ->
  exists x y r, l = x :: y :: r /\ f a = Ok x /\ f b = Ok y.
Proof.
  cbn [mapM]. intros H. apply bind_ok in H as (x & Hx & H). apply bind_ok in H as (l1 & Hl1 & H). inversion H; subst l; clear H.
  apply bind_ok in Hl1 as (y & Hy & H). apply bind_ok in H as (r & Hr & H). inversion H; subst l1. eauto 8.
Qed.

Lemma nth_zip {A B} (a : list A) (b : list B) i da db : (i < length a)%nat -> (i < length b)%nat ->
  nth i (zip a b) (da, db) = (nth i a da, nth i b db).
Proof.
  revert b i; induction a as [|x a IH]; intros [|y b] [|i] Ha Hb; cbn in *; try lia; auto.
  apply IH; lia.
Qed.

Lemma scale_down_floor amt sf t : 0 <= amt -> 0 < sf -> scale_down amt sf = Ok t -> 0 <= t /\ t * sf <= amt * P36 < (t + 1) * sf.
Proof.
  intros Ha Hs H. unfold scale_down in H. destruct (sf =? 0); [discriminate|]. inversion H; subst t.
  pose proof P36_pos. pose proof (quot_floor (amt * P36) sf ltac:(nia) Hs). pose proof (quot_nonneg (amt * P36) sf ltac:(nia) Hs). lia.
Qed.

(* what scaledSortedPoolReserves hands to the solver: the two reserves, each rounded DOWN to 36 decimals *)
Lemma scaled_sorted_two p i j rs : length (s_sf p) = length (s_res p) ->
  scaled_sorted_reserves p i j = Ok rs ->
  exists x y rem, rs = x :: y :: rem /\ (i < s_n p)%nat /\ (j < s_n p)%nat /\ i <> j /\
    scale_down (nthZ (s_res p) i) (nth i (s_sf p) 1) = Ok x /\ scale_down (nthZ (s_res p) j) (nth j (s_sf p) 1) = Ok y.
Proof.
  intros Hlen H. unfold scaled_sorted_reserves in H.
  destruct (negb ((i <? s_n p)%nat && (j <? s_n p)%nat) || (i =? j)%nat) eqn:Eg; [discriminate|].
  apply orb_false_elim in Eg as [Eg Eij]. apply negb_false_iff in Eg. apply andb_prop in Eg as [Ei Ej].
  apply Nat.ltb_lt in Ei, Ej. apply Nat.eqb_neq in Eij.
  destruct (existsb _ (s_sf p)); [discriminate|].
  apply mapM_two in H as (x & y & r & Hl & Hx & Hy).
  unfold s_n in *. rewrite !nth_zip in Hx, Hy by lia. cbn [fst snd] in Hx, Hy.
  exists x, y, r. unfold nthZ. auto 10.
Qed.

(* exact-in swap: tokens in are scaled down, the fee is taken, the solver's output is scaled back and truncated twice:
   the user never receives more than the solver allows *)
Theorem s_calc_out_direction p i j a fee out :
  length (s_sf p) = length (s_res p) -> 0 <= a -> Forall (fun r => 0 <= r) (s_res p) -> Forall (fun f => 0 < f) (s_sf p) ->
  s_calc_out_given_in p i j a fee = Ok out ->
  exists x y rem w tin xout,
    scaled_sorted_reserves p i j = Ok (y :: x :: rem) /\ sum_squares rem 0 = Ok w /\
    y * nth i (s_sf p) 1 <= nthZ (s_res p) i * P36 /\ x * nth j (s_sf p) 1 <= nthZ (s_res p) j * P36 /\
    tin * nth i (s_sf p) 1 <= a * P36 /\
    solve_cfmm_multi x y w (bd_mul tin (one_minus fee)) = Ok xout /\
    0 < out /\ out * P36 <= xout * nthZ (s_sf p) j.
Proof.
  intros Hlen Ha HR HS H. unfold s_calc_out_given_in in H.
  apply bind_ok in H as (rs & Hrs & H).
  destruct (scaled_sorted_two p i j rs Hlen Hrs) as (y & x & rem & Erl & Hi & Hj & Hij & Hy & Hx). subst rs.
  apply bind_ok in H as (tin & Htin & H). apply bind_ok in H as (amm & Hamm & H).
  apply bind_ok in H as (xout & Hsolve & H). apply bind_ok in H as (od & Hod & H).
  unfold bc_mul in Hamm. apply bd_check_ok in Hamm. subst amm.
  unfold solve_cfmm in Hsolve. apply bind_ok in Hsolve as (w & Hw & Hsolve).
  unfold descale in Hod. apply bind_ok in Hod as (m & Hm & Hod). unfold bc_mul_int in Hm. apply bd_check_ok in Hm. inversion Hod; subst od m; clear Hod.
  destruct (Z.quot _ P18 <=? 0) eqn:E; [discriminate|]. apply Z.leb_gt in E. inversion H; subst out; clear H.
  rewrite Forall_forall in HR, HS. unfold s_n in *.
  assert (Hri : 0 <= nthZ (s_res p) i) by (apply HR, nth_In; lia).
  assert (Hrj : 0 <= nthZ (s_res p) j) by (apply HR, nth_In; lia).
  assert (Hsi : 0 < nth i (s_sf p) 1) by (apply HS, nth_In; lia).
  assert (Hsj : 0 < nth j (s_sf p) 1) by (apply HS, nth_In; lia).
  assert (Esj : nthZ (s_sf p) j = nth j (s_sf p) 1) by (apply nth_indep; lia).
  assert (Esi : nthZ (s_sf p) i = nth i (s_sf p) 1) by (apply nth_indep; lia).
  rewrite Esi in Htin.
  destruct (scale_down_floor _ _ _ Hri Hsi Hy) as (_ & Hy1 & _).
  destruct (scale_down_floor _ _ _ Hrj Hsj Hx) as (_ & Hx1 & _).
  destruct (scale_down_floor _ _ _ Ha Hsi Htin) as (_ & Ht1 & _).
  exists x, y, rem, w, tin, xout. repeat split; auto.
  (* two truncations: Dec() to 18 decimals, then TruncateInt *)
  unfold bd_to_dec in *. set (m := xout * nthZ (s_sf p) j) in *.
  assert (Hm0 : 0 <= m).
  { destruct (Z_lt_le_dec m 0) as [Hneg|]; [|lia]. exfalso.
    assert (Z.quot m P18 <= 0) by (apply Z.quot_le_upper_bound; [reflexivity|lia]).
    assert (Z.quot (Z.quot m P18) P18 <= 0) by (apply Z.quot_le_upper_bound; [reflexivity|lia]). lia. }
  pose proof (quot_floor m P18 Hm0 P18_pos) as [Hq1 _].
  pose proof (quot_nonneg m P18 Hm0 P18_pos) as Hq0.
  pose proof (quot_floor (Z.quot m P18) P18 Hq0 P18_pos) as [Hq2 _].
  assert (Hq3 : Z.quot (Z.quot m P18) P18 * P18 * P18 <= Z.quot m P18 * P18) by (apply Z.mul_le_mono_nonneg_r; [pose proof P18_pos; lia|exact Hq2]).
  replace P36 with (P18 * P18) by reflexivity. lia.
Qed.

(* QuoRoundUp by a positive divisor is the ceiling *)
Lemma inc_rem_div_ceil m b : 0 < b ->
  let r := inc_rem_div (Z.rem m b) b (Z.quot m b) in m <= r * b < m + b.
Proof.
  intros Hb. cbv zeta. unfold inc_rem_div.
  pose proof (Z.quot_rem' m b) as Hqr. pose proof (Z.rem_bound_abs m b ltac:(lia)) as Hr.
  set (q := Z.quot m b) in *. set (r := Z.rem m b) in *. clearbody q r.
  assert (Hbq : b * q = q * b) by ring.
  destruct (r =? 0) eqn:E0; cbn [orb].
  - apply Z.eqb_eq in E0. lia.
  - apply Z.eqb_neq in E0. destruct (Z.sgn r =? Z.sgn b) eqn:Es; cbn [negb].
    + apply Z.eqb_eq in Es. assert (0 < r) by lia. replace ((q + 1) * b) with (q * b + b) by ring. lia.
    + apply Z.eqb_neq in Es. assert (r < 0) by lia. lia.
Qed.

Lemma bd_quo_round_up_ceil a b : 0 < b -> a * P36 <= bd_quo_round_up a b * b < a * P36 + b.
Proof. intros Hb. unfold bd_quo_round_up. apply inc_rem_div_ceil; exact Hb. Qed.

Lemma d_ceil_ge a : a <= d_ceil a.
Proof.
  unfold d_ceil. pose proof (Z.quot_rem' a P18) as Hqr. pose proof (Z.rem_bound_abs a P18 ltac:(discriminate)) as Hr.
  pose proof P18_pos. replace (Z.abs P18) with P18 in Hr by reflexivity.
  destruct (0 <? Z.rem a P18) eqn:E; [apply Z.ltb_lt in E|apply Z.ltb_ge in E]; lia.
Qed.

(* exact-out swap: the tokens out are scaled UP, the solver's requirement is divided by (1 - fee) rounding UP, scaled back,
   and rounded up to a whole token - except that the conversion to 18 decimals (BigDec.Dec) truncates first, which can
   forgive less than 10^-18 of a token *)
Theorem s_calc_in_direction p i j o fee tin :
  length (s_sf p) = length (s_res p) -> 0 <= o -> Forall (fun r => 0 <= r) (s_res p) -> Forall (fun f => 0 < f) (s_sf p) ->
  0 <= fee < P18 ->
  s_calc_in_given_out p i j o fee = Ok tin ->
  exists x y rem w tout xout in_amt,
    scaled_sorted_reserves p j i = Ok (x :: y :: rem) /\ sum_squares rem 0 = Ok w /\
    x * nth j (s_sf p) 1 <= nthZ (s_res p) j * P36 /\ y * nth i (s_sf p) 1 <= nthZ (s_res p) i * P36 /\
    o * P36 <= tout * nth i (s_sf p) 1 /\
    solve_cfmm_multi x y w (- tout) = Ok xout /\
    (- xout) * P36 <= in_amt * one_minus fee /\
    0 < tin /\ in_amt * nthZ (s_sf p) j < tin * P36 + P18.
Proof.
  intros Hlen Ho HR HS Hfee H. unfold s_calc_in_given_out in H.
  apply bind_ok in H as (rs & Hrs & H).
  destruct (scaled_sorted_two p j i rs Hlen Hrs) as (x & y & rem & Erl & Hj & Hi & Hij & Hx & Hy). subst rs.
  apply bind_ok in H as (tout & Htout & H). apply bind_ok in H as (xout & Hsolve & H).
  apply bind_ok in H as (in_amt & Hin & H). apply bind_ok in H as (idec & Hid & H). apply bind_ok in H as (c & Hc & H).
  unfold solve_cfmm in Hsolve. apply bind_ok in Hsolve as (w & Hw & Hsolve).
  rewrite Forall_forall in HR, HS. unfold s_n in *.
  assert (Hri : 0 <= nthZ (s_res p) i) by (apply HR, nth_In; lia).
  assert (Hrj : 0 <= nthZ (s_res p) j) by (apply HR, nth_In; lia).
  assert (Hsi : 0 < nth i (s_sf p) 1) by (apply HS, nth_In; lia).
  assert (Hsj : 0 < nth j (s_sf p) 1) by (apply HS, nth_In; lia).
  assert (Esj : nthZ (s_sf p) j = nth j (s_sf p) 1) by (apply nth_indep; lia).
  assert (Esi : nthZ (s_sf p) i = nth i (s_sf p) 1) by (apply nth_indep; lia).
  destruct (scale_down_floor _ _ _ Hrj Hsj Hx) as (_ & Hx1 & _).
  destruct (scale_down_floor _ _ _ Hri Hsi Hy) as (_ & Hy1 & _).
  pose proof P36_pos as HP36. pose proof P18_pos as HP18.
  (* tokens out, scaled up *)
  unfold scale_up, bc_quo_round_up in Htout. rewrite Esi in Htout.
  destruct (nth i (s_sf p) 1 * P36 =? 0); [discriminate|]. apply bd_check_ok in Htout.
  pose proof (bd_quo_round_up_ceil (o * P36) (nth i (s_sf p) 1 * P36) ltac:(nia)) as [Ht1 _]. rewrite <- Htout in Ht1.
  assert (Htout1 : o * P36 <= tout * nth i (s_sf p) 1) by nia.
  (* division by 1 - fee, rounded up *)
  unfold bc_quo_round_up in Hin. destruct (one_minus fee =? 0); [discriminate|]. apply bd_check_ok in Hin.
  assert (Hom : 0 < one_minus fee) by (unfold one_minus; nia).
  pose proof (bd_quo_round_up_ceil (- xout) (one_minus fee) Hom) as [Hi1 _]. rewrite <- Hin in Hi1.
  (* descaling: Dec() truncation, then Ceil, then TruncateInt *)
  unfold descale in Hid. apply bind_ok in Hid as (m & Hm & Hid). unfold bc_mul_int in Hm. apply bd_check_ok in Hm. inversion Hid; subst idec m; clear Hid.
  unfold dc_ceil in Hc. apply d_check_ok in Hc. subst c.
  destruct (Z.quot _ P18 <=? 0) eqn:E; [discriminate|]. apply Z.leb_gt in E. inversion H; subst tin; clear H.
  exists x, y, rem, w, tout, xout, in_amt. repeat split; auto.
  unfold bd_to_dec in *. set (m := in_amt * nthZ (s_sf p) j) in *. set (dq := Z.quot m P18) in *.
  pose proof (d_ceil_ge dq) as Hcg.
  assert (Hc0 : 0 <= d_ceil dq).
  { destruct (Z_lt_le_dec (d_ceil dq) 0); [|lia]. exfalso.
    assert (Z.quot (d_ceil dq) P18 <= 0) by (apply Z.quot_le_upper_bound; [reflexivity|lia]). lia. }
  pose proof (quot_floor (d_ceil dq) P18 Hc0 HP18) as [_ Hq2].
  (* d_ceil dq is a multiple of 10^18 *)
  assert (Hmul : Z.quot (d_ceil dq) P18 * P18 = d_ceil dq).
  { unfold d_ceil. destruct (0 <? Z.rem dq P18); rewrite Z.quot_mul by lia; reflexivity. }
  assert (Hdq : m < (dq + 1) * P18).
  { destruct (Z_lt_le_dec m 0) as [Hneg|Hpos].
    - assert (dq <= 0) by (apply Z.quot_le_upper_bound; [reflexivity|lia]).
      pose proof (Z.quot_rem' m P18). pose proof (Z.rem_bound_abs m P18 ltac:(lia)). unfold dq in *. lia.
    - pose proof (quot_floor m P18 Hpos HP18). unfold dq. lia. }
  replace P36 with (P18 * P18) by reflexivity. nia.
Qed.

(* ---------- "a swap never lowers the invariant at all": false at the ulp level ---------- *)
Open Scope Q_scope.
(* the CFMM evaluated exactly on the scaled reserves R_i / sf_i: prod(x_i) * sum(x_i^2) *)
Definition ss_k (res sf : list Z) : Q :=
  let xs := map (fun rs => iz (fst rs) / iz (snd rs)) (zip res sf) in
  fold_right Qmult 1 xs * fold_right Qplus 0 (map (fun x => x * x) xs).

(* witness (found by a targeted search on the Go code, harness/c04probe; replayed in corpus/C04): balanced pool,
   scaling factors 1024, zero spread factor, one token out: the curve asks for 1 + 2e-61 tokens, which is below the
   36-decimal resolution; exactly 1 token is charged and the invariant falls *)
Definition f3_reserve : Z := 88053553608048379024839433216.
Lemma witness_stable_invariant_falls :
  let p := mkS [f3_reserve; f3_reserve] [1024; 1024]%Z 100000000000000000000 in
  exists p', s_swap_in_given_out p 0 1 1 0 = Ok (1%Z, p') /\
    s_res p' = [(f3_reserve - 1)%Z; (f3_reserve + 1)%Z] /\
    ss_k (s_res p') (s_sf p') < ss_k (s_res p) (s_sf p).
Proof. eexists. split; [vm_compute; reflexivity|]. split; [reflexivity|]. vm_compute. reflexivity. Qed.

(* ---------- the single-asset join: what the share search guarantees ---------- *)
Open Scope Z_scope.
Theorem binary_search_int_post f lo hi target t n x :
  binary_search_int f lo hi target t n = Ok x ->
  exists lo' hi' out, x = Z.quot (lo' + hi') 2 /\ f x = Ok out /\ compare_int t target out = Ok 0.
Proof.
  unfold binary_search_int. destruct (n <=? 0); [discriminate|].
  destruct (loop_pos _ _ _) as [s|r] eqn:E; [discriminate|]. intros H; subst r.
  apply loop_pos_inr in E as ([lo' hi'] & E). unfold bs_int_step in E.
  destruct (int_check (lo' + hi')) as [s|e] eqn:Ea; [|discriminate].
  destruct (f (Z.quot s 2)) as [out|e] eqn:Ef; [|discriminate].
  destruct (compare_int t target out) as [c|e] eqn:Ec; [|discriminate].
  destruct (c <? 0) eqn:E1; [discriminate|]. destruct (0 <? c) eqn:E2; [discriminate|].
  apply Z.ltb_ge in E1, E2. assert (c = 0) by lia; subst c.
  inversion E; subst x. apply int_check_ok in Ea. subst s.
  exists lo', hi', out. auto.
Qed.

(* tolerance of the share search: additive 1, RoundDown: a passed comparison means actual <= expected <= actual + 1 *)
Lemma compare_join_tolerance_zero expected actual :
  compare_int join_tolerance expected actual = Ok 0 -> actual <= expected <= actual + 1.
Proof.
  unfold compare_int, join_tolerance. cbn [tol_dir tol_additive tol_multiplicative].
  intros H. apply bind_ok in H as (d & Hd & H). unfold dc_sub in Hd. apply d_check_ok in Hd. subst d.
  destruct (expected <? actual) eqn:E1; [discriminate|]. apply Z.ltb_ge in E1.
  assert (HP : 0 < P18) by reflexivity.
  replace (P18 =? 0) with false in H by reflexivity. cbn [andb] in H.
  destruct (P18 <? Z.abs (expected * P18 - actual * P18)) eqn:E2.
  - destruct (actual <? expected); discriminate.
  - apply Z.ltb_ge in E2. nia.
Qed.

(* The number of shares a single-asset join mints is a probe of the search whose estimate - exit those shares from the
   enlarged pool at zero exit fee, swap every other token back into the joined token at zero spread factor, all with the
   pool's own integer arithmetic - is at most the tokens paid in (after the join's spread factor), and within one unit of them:
   the round trip join -> exit -> swap back never returns more than was paid *)
Theorem single_join_estimate_le_paid p i a s :
  binary_search_single_asset_join p i a = Ok s ->
  exists out, estimate_coin_out p i a s = Ok out /\ out <= a <= out + 1.
Proof.
  unfold binary_search_single_asset_join. intros H.
  apply bind_ok in H as (m & Hm & H). destruct (nthZ (s_res p) i =? 0); [discriminate|].
  apply bind_ok in H as (c & Hc & H).
  apply binary_search_int_post in H as (lo' & hi' & out & _ & Hf & Hcmp).
  exists out. split; [exact Hf|]. apply compare_join_tolerance_zero. exact Hcmp.
Qed.
