(* C04 - shared result type, error enum and range checks of the pool-math models.
   Raw mantissas: Dec = value x 10^18, BigDec = value x 10^36, Int = the integer.  Definitions only. *)
From Coq Require Import ZArith List Bool.
Import ListNotations.
From Osmo Require Import Base.DecModel.
Open Scope Z_scope.

(* error enum = the numbers assigned by harness/c04drv classify() to the same failure
   (Go: returned error, or panic recovered by the driver) *)
Definition e_shape : Z := 1.          (* wrong denoms / wrong number of coins *)
Definition e_exit_all : Z := 2.       (* CalcExitPool: exiting shares >= total shares *)
Definition e_too_many_out : Z := 3.   (* CalcExitPool: "too many shares out" *)
Definition e_no_ratio : Z := 4.       (* MaximalExactRatioJoin: no ratio below MaxSortableDec *)
Definition e_not_positive : Z := 5.   (* ErrInvalidMathApprox "token amount must be positive" *)
Definition e_pow_base_le0 : Z := 6.
Definition e_pow_base_ge2 : Z := 7.
Definition e_pow_iter : Z := 8.
Definition e_overflow : Z := 9.       (* "Int overflow": LegacyDec range, BigDec bit length, sdk Int 256 bits *)
Definition e_div_zero : Z := 10.
Definition e_min_scaled : Z := 11.
Definition e_max_scaled : Z := 12.
Definition e_input_too_large : Z := 13.
Definition e_output_too_big : Z := 14.
Definition e_no_converge : Z := 15.
Definition e_bad_reserves : Z := 16.
Definition e_req_not_pos : Z := 17.
Definition e_zero_balance : Z := 18.
Definition e_k_zero : Z := 19.
Definition e_neg_coin : Z := 20.
Definition e_more_joined : Z := 21.
Definition e_other_misconfigured : Z := 99.  (* "pool misconfigured, total weight = 0": not reachable from a constructed pool *)
Definition e_fuel : Z := 77.          (* model-only: a structural fuel ran out; never equal to a driver code *)
Definition e_unsupported : Z := 98.   (* model-only: operation not modelled for this pool kind *)

Inductive res (A : Type) : Type := Ok (a : A) | Err (e : Z).
Arguments Ok {A} a.
Arguments Err {A} e.

Definition bind {A B} (r : res A) (f : A -> res B) : res B :=
  match r with Ok a => f a | Err e => Err e end.
Notation "'do' x <- r ; k" := (bind r (fun x => k)) (at level 200, x name, r at level 100, k at level 200).
Notation "'do' ' ( x , y ) <- r ; k" := (bind r (fun p => let '(x, y) := p in k))
  (at level 200, x ident, y ident, r at level 100, k at level 200).

(* cosmossdk.io/math v1.5.3 LegacyDec.assertInValidRange: |d| <= 2^256*10^18 - 1 *)
Definition d_upper : Z := 2 ^ 256 * P18 - 1.
Definition d_in_range (z : Z) : bool := (z <=? d_upper) && (- d_upper <=? z).
Definition d_check (z : Z) : res Z := if d_in_range z then Ok z else Err e_overflow.
(* osmomath assertMaxBitLen: panic("Int overflow") iff BitLen > 1144 *)
Definition bd_check (z : Z) : res Z := if bd_fits z then Ok z else Err e_overflow.
(* sdk Int: results of more than 256 bits panic *)
Definition int_fits (z : Z) : bool := bitlen z <=? 256.
Definition int_check (z : Z) : res Z := if int_fits z then Ok z else Err e_overflow.

(* sequential map with early exit, in list order (Go: a for loop returning the first error) *)
Fixpoint mapM {A B} (f : A -> res B) (l : list A) : res (list B) :=
  match l with
  | [] => Ok []
  | x :: r => do y <- f x; do ys <- mapM f r; Ok (y :: ys)
  end.

Fixpoint zip {A B} (a : list A) (b : list B) : list (A * B) :=
  match a, b with
  | x :: a', y :: b' => (x, y) :: zip a' b'
  | _, _ => []
  end.

Definition nthZ (l : list Z) (i : nat) : Z := nth i l 0.
Fixpoint set_nth (l : list Z) (i : nat) (v : Z) : list Z :=
  match l, i with
  | [], _ => []
  | _ :: r, O => v :: r
  | x :: r, S i' => x :: set_nth r i' v
  end.
Definition sumZ (l : list Z) : Z := fold_right Z.add 0 l.
Definition all_pos (l : list Z) : bool := forallb (fun x => 0 <? x) l.
Definition count_nonzero (l : list Z) : nat := length (filter (fun x => negb (x =? 0)) l).

(* operations of a case (harness/c04drv op names in comments); token indices refer to denom order *)
Inductive op : Type :=
| OSwapOut (i j : nat) (amt : Z)        (* swapOut: SwapOutAmtGivenIn, token i in, token j out *)
| OCalcOut (i j : nat) (amt : Z)        (* calcOut *)
| OSwapIn (i j : nat) (amt : Z)         (* swapIn: SwapInAmtGivenOut, token i out (amt), token j in *)
| OCalcIn (i j : nat) (amt : Z)         (* calcIn *)
| OJoin (amts : list Z)                 (* join: JoinPool *)
| OJoinNoSwap (amts : list Z)           (* joinNoSwap *)
| OCalcJoin (amts : list Z)             (* calcJoin: CalcJoinPoolShares *)
| OCalcJoinNoSwap (amts : list Z)       (* calcJoinNoSwap *)
| OExit (sh : Z)                        (* exit: ExitPool *)
| OCalcExit (sh : Z)                    (* calcExit: CalcExitPoolCoinsFromShares *)
| OExitSwapOut (i : nat) (amt : Z)      (* exitSwapOut: balancer ExitSwapExactAmountOut *)
| OCalcTokenInShareOut (i : nat) (sh : Z). (* calcTokenInShareOut: balancer CalcTokenInShareAmountOut *)

(* number of result values the driver prints for an op on an n-asset pool *)
Definition nres (n : nat) (o : op) : nat :=
  match o with
  | OCalcJoin _ | OCalcJoinNoSwap _ => S n
  | OExit _ | OCalcExit _ => n
  | _ => 1%nat
  end.

(* tokensIn as built by the driver: entries beyond the pool's n assets are foreign denoms; zero = absent *)
Definition known_part (n : nat) (amts : list Z) : list Z := firstn n amts.
Definition has_foreign (n : nat) (amts : list Z) : bool := existsb (fun x => negb (x =? 0)) (skipn n amts).
Definition all_present (n : nat) (amts : list Z) : bool :=
  (length (known_part n amts) =? n)%nat && (count_nonzero (known_part n amts) =? n)%nat.
Definition sub_vec (a b : list Z) : list Z := map (fun xy => fst xy - snd xy) (zip a b).
Definition add_vec (a b : list Z) : list Z := map (fun xy => fst xy + snd xy) (zip a b).

(* the amounts of an operation are sdk.Int values: constructing one of more than 256 bits panics ("out of bound") *)
Definition op_amounts_fit (o : op) : bool :=
  match o with
  | OSwapOut _ _ a | OCalcOut _ _ a | OSwapIn _ _ a | OCalcIn _ _ a | OExit a | OCalcExit a
  | OExitSwapOut _ a | OCalcTokenInShareOut _ a => int_fits a
  | OJoin l | OJoinNoSwap l | OCalcJoin l | OCalcJoinNoSwap l => forallb int_fits l
  end.
