(* C04 <-> C13: the copies of osmomath.Pow / PowApprox / ApproxSqrt used by the C04 model (C04/MathLib.v) return exactly what
   C13's models of the same code (C13/Pow.v) return, so C13's proved error bounds (C13_pow_bound, C13_pow_approx_bound) apply
   to them; the Pow-accuracy hypotheses of the C04 value-function theorems are discharged on the base range [1/2, 2).
   Both models are transcriptions of osmomath/math.go over Base/DecModel.v; they differ in the shape of their loops
   (record vs tuple state, loop test at the end vs at the start of a round, binary vs unary fuel for the Newton iteration). *)
From Coq Require Import ZArith List Bool Lia Reals Lra.
Import ListNotations.
From Osmo Require Import Base.DecModel C04.Common C04.MathLib C04.ProofsLp Gen.C04_consts.
From Osmo Require C13.Common C13.Pow Gen.C13_consts.
Open Scope Z_scope.

Module K := C13.Common.
Module KP := C13.Pow.
Module KC := Gen.C13_consts.

(* ---------- constants ---------- *)
Lemma limit_eq : powIterationLimit = KC.pow_iteration_limit. Proof. reflexivity. Qed.
Lemma precision_eq : powPrecision = KC.pow_precision. Proof. reflexivity. Qed.
Lemma half_eq : P18 / 2 = KC.pow_one_half. Proof. reflexivity. Qed.
Lemma two_eq : 2 * P18 = KC.pow_two. Proof. reflexivity. Qed.

(* ---------- checked LegacyDec operations ---------- *)
Lemma dchk z r : d_check z = Ok r -> K.d_check z = K.Ok r.
Proof.
  unfold d_check, K.d_check. change (K.d_in_range z) with (d_in_range z).
  destruct (d_in_range z); intros H; inversion H; reflexivity.
Qed.
Lemma add_agree a b r : dc_add a b = Ok r -> K.dc_add a b = K.Ok r. Proof. apply dchk. Qed.
Lemma sub_agree a b r : dc_sub a b = Ok r -> K.dc_sub a b = K.Ok r. Proof. apply dchk. Qed.
Lemma mul_agree a b r : dc_mul a b = Ok r -> K.dc_mul a b = K.Ok r. Proof. apply dchk. Qed.
Lemma quo_agree a b r : dc_quo a b = Ok r -> K.dc_quo a b = K.Ok r.
Proof. unfold dc_quo, K.dc_quo. destruct (b =? 0); [discriminate|apply dchk]. Qed.

(* values far inside the LegacyDec range pass the range assertion *)
Lemma small_fits z : Z.abs z <= 2 ^ 200 -> K.d_check z = K.Ok z.
Proof.
  intros H. unfold K.d_check, K.d_in_range.
  assert (Hu : 2 ^ 200 <= K.d_upper) by (vm_compute; discriminate).
  destruct (z <=? K.d_upper) eqn:E1; [|apply Z.leb_gt in E1; lia].
  destruct (- K.d_upper <=? z) eqn:E2; [reflexivity|apply Z.leb_gt in E2; lia].
Qed.

(* ---------- LegacyDec.Power ---------- *)
Lemma power_loop_agree : forall f d tmp i r,
  dc_power_loop (S f) d tmp i = Ok r -> K.dc_power_loop f d tmp i = K.Ok r.
Proof.
  induction f as [|f IH]; intros d tmp i r H; cbn [dc_power_loop K.dc_power_loop] in *.
  - destruct (1 <? i); [|inversion H; reflexivity].
    apply bind_ok in H as (t & _ & H). apply bind_ok in H as (d' & _ & H). discriminate.
  - destruct (1 <? i); [|inversion H; reflexivity].
    apply bind_ok in H as (t & Ht & H). apply bind_ok in H as (d' & Hd & H).
    assert (Ht' : (if Z.odd i then K.dc_mul tmp d else K.Ok tmp) = K.Ok t).
    { destruct (Z.odd i); [apply mul_agree; exact Ht|inversion Ht; reflexivity]. }
    rewrite Ht'. cbn [K.bind]. rewrite (mul_agree _ _ _ Hd). cbn [K.bind]. apply IH. exact H.
Qed.

Lemma power_agree d n r : dc_power d n = Ok r -> K.dc_power d n = K.Ok r.
Proof.
  unfold dc_power, K.dc_power. destruct (n =? 0); [intros H; inversion H; reflexivity|].
  intros H. apply bind_ok in H as ([d' tmp] & Hl & H).
  change (dc_power_loop 65 d P18 n) with (dc_power_loop (S 64) d P18 n) in Hl.
  rewrite (power_loop_agree _ _ _ _ _ Hl). cbn [K.bind]. apply mul_agree. exact H.
Qed.

(* ---------- bounded loops as plain iteration ---------- *)
Fixpoint iterN {St R} (step : St -> St + R) (n : nat) (s : St) : St + R :=
  match n with
  | O => inl s
  | S k => match step s with inl s' => iterN step k s' | inr r => inr r end
  end.

Lemma iterN_add {St R} (step : St -> St + R) : forall n m s,
  iterN step (n + m) s = match iterN step n s with inl s' => iterN step m s' | inr r => inr r end.
Proof.
  induction n as [|n IH]; intros m s; cbn [iterN Nat.add]; [reflexivity|].
  destruct (step s); [apply IH|reflexivity].
Qed.

Lemma iterN_mono {St R} (step : St -> St + R) : forall n s r m,
  iterN step n s = inr r -> (n <= m)%nat -> iterN step m s = inr r.
Proof.
  intros n s r m H Hle. replace m with (n + (m - n))%nat by lia. rewrite iterN_add, H. reflexivity.
Qed.

Lemma loop_pos_iterN {St R} (step : St -> St + R) : forall p s, loop_pos step p s = iterN step (Pos.to_nat p) s.
Proof.
  induction p as [p IH|p IH|]; intros s; cbn [loop_pos].
  - rewrite Pos2Nat.inj_xI. cbn [iterN]. destruct (step s) as [s1|r]; [|reflexivity].
    replace (2 * Pos.to_nat p)%nat with (Pos.to_nat p + Pos.to_nat p)%nat by lia.
    rewrite iterN_add, <- IH. destruct (loop_pos step p s1); [apply IH|reflexivity].
  - rewrite Pos2Nat.inj_xO. replace (2 * Pos.to_nat p)%nat with (Pos.to_nat p + Pos.to_nat p)%nat by lia.
    rewrite iterN_add, <- IH. destruct (loop_pos step p s); [apply IH|reflexivity].
  - change (Pos.to_nat 1) with 1%nat. cbn [iterN]. destruct (step s); reflexivity.
Qed.

Lemma kloop_pos_iterN {St R} (step : St -> St + R) : forall p s, KP.loop_pos p step s = iterN step (Pos.to_nat p) s.
Proof.
  induction p as [p IH|p IH|]; intros s; cbn [KP.loop_pos].
  - rewrite Pos2Nat.inj_xI. cbn [iterN]. destruct (step s) as [s1|r]; [|reflexivity].
    replace (2 * Pos.to_nat p)%nat with (Pos.to_nat p + Pos.to_nat p)%nat by lia.
    rewrite iterN_add, <- IH. destruct (KP.loop_pos p step s1); [apply IH|reflexivity].
  - rewrite Pos2Nat.inj_xO. replace (2 * Pos.to_nat p)%nat with (Pos.to_nat p + Pos.to_nat p)%nat by lia.
    rewrite iterN_add, <- IH. destruct (KP.loop_pos p step s); [apply IH|reflexivity].
  - change (Pos.to_nat 1) with 1%nat. cbn [iterN]. destruct (step s); reflexivity.
Qed.

(* ---------- ApproxSqrt ---------- *)
Lemma power_one_agree g r : dc_mul g P18 = Ok r -> K.dc_power g 1 = K.Ok r.
Proof.
  intros H. unfold K.dc_power. change (1 =? 0) with false. cbn [K.dc_power_loop]. change (1 <? 1) with false.
  cbn [K.bind]. apply mul_agree. exact H.
Qed.

Definition sqrt_result (x : (Z * Z) + res Z) : res Z := match x with inr r => r | inl (g, _) => Ok g end.

Lemma sqrt_loop_agree d : forall n guess delta v,
  sqrt_result (iterN (sqrt_step d) n (guess, delta)) = Ok v -> KP.approx_sqrt_loop n d guess = K.Ok v.
Proof.
  induction n as [|n IH]; intros guess delta v H; cbn [iterN KP.approx_sqrt_loop] in *.
  - cbn in H. inversion H. reflexivity.
  - unfold sqrt_step in H at 1.
    destruct (dc_mul guess P18) as [prev0|e] eqn:E1; [|cbn in H; discriminate].
    rewrite (power_one_agree _ _ E1). cbn [K.bind].
    destruct (dc_quo d (if prev0 =? 0 then 1 else prev0)) as [q|e] eqn:E2; [|cbn in H; discriminate].
    rewrite (quo_agree _ _ _ E2). cbn [K.bind].
    destruct (dc_sub q guess) as [df|e] eqn:E3; [|cbn in H; discriminate].
    rewrite (sub_agree _ _ _ E3). cbn [K.bind].
    destruct (dc_add guess (Z.quot df 2)) as [g'|e] eqn:E4; [|cbn in H; discriminate].
    rewrite (add_agree _ _ _ E4). cbn [K.bind].
    destruct (Z.abs (Z.quot df 2) <=? 1).
    + cbn in H. inversion H. reflexivity.
    + apply (IH g' (Z.quot df 2)). exact H.
Qed.

Lemma approx_sqrt_agree d r : 0 <= d -> approx_sqrt d = Ok r -> KP.approx_sqrt d = K.Ok r.
Proof.
  intros Hd H. unfold approx_sqrt in H. unfold KP.approx_sqrt.
  destruct (d <? 0) eqn:E; [apply Z.ltb_lt in E; lia|].
  destruct ((d =? 0) || (d =? P18)); [inversion H; reflexivity|].
  rewrite loop_pos_iterN in H.
  change (Pos.to_nat max_approx_root_iterations) with KP.approx_root_iterations in H.
  apply (sqrt_loop_agree d KP.approx_root_iterations P18 P18).
  destruct (iterN (sqrt_step d) KP.approx_root_iterations (P18, P18)) as [[g dl]|rr]; exact H.
Qed.

(* ---------- the series loop of PowApprox ---------- *)
Definition phi (st : pow_st) : KP.pow_state := (pw_i st, pw_term st, pw_sum st, pw_neg st).

Lemma limit_small : (powIterationLimit + 1) * P18 <= 2 ^ 200. Proof. vm_compute. discriminate. Qed.

Section PowLoop.
  Variables (exp x : Z) (xneg : bool) (prec : Z).
  Hypothesis Hexp : 0 <= exp < P18.

  Lemma absdiff_agree i : 1 <= i <= powIterationLimit ->
    KP.abs_diff_sign exp ((i - 1) * P18) =
    K.Ok (if (i - 1) * P18 <=? exp then exp - (i - 1) * P18 else (i - 1) * P18 - exp, negb ((i - 1) * P18 <=? exp)).
  Proof.
    intros Hi. unfold KP.abs_diff_sign. rewrite Z.geb_leb.
    pose proof limit_small as HL. pose proof P18_pos as HP.
    assert (Hk : 0 <= (i - 1) * P18 <= powIterationLimit * P18) by nia.
    destruct ((i - 1) * P18 <=? exp) eqn:E; cbn [negb].
    - unfold K.dc_sub. rewrite small_fits by (apply Z.leb_le in E; lia). reflexivity.
    - unfold K.dc_add. rewrite small_fits by (apply Z.leb_gt in E; lia). cbn [K.bind]. f_equal. f_equal. lia.
  Qed.

  Lemma triple_agree t c i r :
    (do t1 <- dc_mul t c; do t2 <- dc_mul t1 x; dc_quo t2 (i * P18)) = Ok r ->
    K.bind (K.dc_mul t c) (fun t1 => K.bind (K.dc_mul t1 x) (fun t2 => K.dc_quo t2 (i * P18))) = K.Ok r.
  Proof.
    intros H. apply bind_ok in H as (t1 & H1 & H). apply bind_ok in H as (t2 & H2 & H).
    rewrite (mul_agree _ _ _ H1). cbn [K.bind]. rewrite (mul_agree _ _ _ H2). cbn [K.bind]. apply quo_agree. exact H.
  Qed.

  Definition stepF := pow_step x xneg exp prec.
  Definition stepG := KP.pow_step exp x xneg prec.

  (* a state whose term is already below the precision: C13's round returns at once *)
  Lemma G_exit st : pw_term st < prec -> stepG (phi st) = inr (K.Ok (pw_sum st)).
  Proof. intros H. unfold stepG, KP.pow_step, phi. apply Z.ltb_lt in H. rewrite H. reflexivity. Qed.

  Lemma step_rel st : prec <= pw_term st -> 1 <= pw_i st <= powIterationLimit ->
    match stepF st with
    | inl st' => stepG (phi st) = inl (phi st') /\ prec <= pw_term st' /\ pw_i st' = pw_i st + 1 /\ pw_i st < powIterationLimit
    | inr (Ok r) => stepG (phi st) = inr (K.Ok r) \/
                    (exists st', stepG (phi st) = inl (phi st') /\ pw_term st' < prec /\ pw_sum st' = r /\ pw_i st < powIterationLimit)
    | inr (Err _) => True
    end.
  Proof.
    intros Ht Hi. unfold stepF, pow_step. unfold stepG, KP.pow_step, phi.
    assert (Hnl : (pw_term st <? prec) = false) by (apply Z.ltb_ge; exact Ht). rewrite Hnl.
    rewrite (absdiff_agree _ Hi).
    set (c := if (pw_i st - 1) * P18 <=? exp then exp - (pw_i st - 1) * P18 else (pw_i st - 1) * P18 - exp).
    set (cneg := negb ((pw_i st - 1) * P18 <=? exp)).
    destruct (do t1 <- dc_mul (pw_term st) c; do t2 <- dc_mul t1 x; dc_quo t2 (pw_i st * P18)) as [term|e] eqn:E3; [|exact I].
    change (K.bind (K.dc_mul (pw_term st) c) (fun t1 => K.bind (K.dc_mul t1 x) (fun t2 => K.dc_quo t2 (pw_i st * P18))))
      with (K.bind (K.dc_mul (pw_term st) c) (fun t1 => K.bind (K.dc_mul t1 x) (fun t2 => K.dc_quo t2 (pw_i st * P18)))).
    rewrite (triple_agree _ _ _ _ E3).
    destruct (term =? 0) eqn:E0; [left; reflexivity|].
    set (neg := xorb (xorb (pw_neg st) xneg) cneg).
    destruct (if neg then dc_sub (pw_sum st) term else dc_add (pw_sum st) term) as [sum|e] eqn:Es; [|exact I].
    assert (Es' : (if neg then K.dc_sub (pw_sum st) term else K.dc_add (pw_sum st) term) = K.Ok sum).
    { destruct neg; [apply sub_agree|apply add_agree]; exact Es. }
    rewrite Es'. rewrite <- limit_eq.
    destruct (pw_i st =? powIterationLimit) eqn:El; [exact I|]. apply Z.eqb_neq in El.
    destruct (term <? prec) eqn:Ep.
    - right. exists (mkPow (pw_i st + 1) term sum neg). cbn [pw_i pw_term pw_sum pw_neg].
      apply Z.ltb_lt in Ep. repeat split; auto; lia.
    - cbn [pw_i pw_term pw_sum pw_neg]. apply Z.ltb_ge in Ep. repeat split; auto; lia.
  Qed.

  Lemma iter_rel : forall n st r, prec <= pw_term st -> 1 <= pw_i st <= powIterationLimit ->
    iterN stepF n st = inr (Ok r) ->
    exists m, iterN stepG m (phi st) = inr (K.Ok r) /\ Z.of_nat m + pw_i st - 1 <= powIterationLimit.
  Proof.
    induction n as [|n IH]; intros st r Ht Hi H; cbn [iterN] in H; [discriminate|].
    pose proof (step_rel st Ht Hi) as Hs.
    destruct (stepF st) as [st'|[r0|e]] eqn:EF.
    - destruct Hs as (HG & Ht' & Hi' & Hlt).
      destruct (IH st' r Ht' ltac:(lia) H) as (m & Hm & Hb).
      exists (S m). cbn [iterN]. rewrite HG. split; [exact Hm|lia].
    - inversion H; subst r0. destruct Hs as [HG|(st' & HG & Hlt & Hsum & Hil)].
      + exists 1%nat. cbn [iterN]. rewrite HG. split; [reflexivity|lia].
      + exists 2%nat. cbn [iterN]. rewrite HG, (G_exit st' Hlt), Hsum. split; [reflexivity|lia].
    - discriminate.
  Qed.
End PowLoop.

(* ---------- PowApprox and Pow ---------- *)
Lemma pow_approx_agree base exp prec r :
  0 < base < 2 * P18 -> 0 <= exp < P18 -> prec <= P18 ->
  pow_approx base exp prec = Ok r -> KP.pow_approx base exp prec = K.Ok r.
Proof.
  intros Hb He Hp H. unfold pow_approx in H. unfold KP.pow_approx.
  destruct (base <=? 0) eqn:E0; [apply Z.leb_le in E0; lia|].
  assert (Hpos : (0 <? base) = true) by (apply Z.ltb_lt; lia). rewrite Hpos. cbn [negb].
  destruct (exp =? 0); [inversion H; reflexivity|].
  rewrite <- half_eq. destruct (exp =? P18 / 2).
  - rewrite (approx_sqrt_agree base r ltac:(lia) H). reflexivity.
  - destruct (P18 <? prec) eqn:Ep; [apply Z.ltb_lt in Ep; lia|].
    (* x, xneg := AbsDifferenceWithSign(base, one) *)
    assert (Hx : KP.abs_diff_sign base P18 = K.Ok (if base <? P18 then P18 - base else base - P18, base <? P18)).
    { unfold KP.abs_diff_sign. rewrite Z.geb_leb. pose proof P18_pos.
      assert (Hs : 2 * P18 <= 2 ^ 200) by (vm_compute; discriminate).
      destruct (base <? P18) eqn:E1.
      - apply Z.ltb_lt in E1. replace (P18 <=? base) with false by (symmetry; apply Z.leb_gt; lia).
        unfold K.dc_add. rewrite small_fits by lia. cbn [K.bind]. f_equal. f_equal. lia.
      - apply Z.ltb_ge in E1. replace (P18 <=? base) with true by (symmetry; apply Z.leb_le; lia).
        unfold K.dc_sub. rewrite small_fits by lia. reflexivity. }
    rewrite Hx. cbn [K.bind].
    set (xneg := base <? P18) in *. set (x := if xneg then P18 - base else base - P18) in *.
    rewrite loop_pos_iterN in H. rewrite kloop_pos_iterN. rewrite <- limit_eq.
    destruct (iterN (pow_step x xneg exp prec) (Pos.to_nat (Z.to_pos powIterationLimit)) (mkPow 1 P18 P18 false)) as [st|rr] eqn:EI; [discriminate|].
    subst rr.
    assert (Ht0 : prec <= pw_term (mkPow 1 P18 P18 false)) by (cbn [pw_term]; lia).
    assert (Hi0 : 1 <= pw_i (mkPow 1 P18 P18 false) <= powIterationLimit) by (cbn [pw_i]; split; [lia|vm_compute; discriminate]).
    destruct (iter_rel exp x xneg prec He _ _ r Ht0 Hi0 EI) as (m & Hm & Hbound).
    cbn [pw_i] in Hbound.
    assert (Hle : (m <= Pos.to_nat (Z.to_pos powIterationLimit))%nat).
    { assert (Hlp : 0 < powIterationLimit) by reflexivity. rewrite <- Z2Nat.inj_pos. rewrite Z2Pos.id by exact Hlp. lia. }
    unfold stepG in Hm. change (phi (mkPow 1 P18 P18 false)) with ((1, P18, P18, false) : KP.pow_state) in Hm.
    rewrite (iterN_mono _ _ _ _ _ Hm Hle). reflexivity.
Qed.

Lemma pow_agree base exp r :
  P18 <= 2 * base -> base < 2 * P18 -> 0 <= exp ->
  pow base exp = Ok r -> KP.pow base exp = K.Ok r.
Proof.
  intros Hb1 Hb2 He H. unfold pow in H. unfold KP.pow. pose proof P18_pos as HP.
  destruct (base <=? 0) eqn:E0; [apply Z.leb_le in E0; lia|].
  assert (Hpos : (0 <? base) = true) by (apply Z.ltb_lt; lia). rewrite Hpos. cbn [negb].
  destruct (2 * P18 <=? base) eqn:E2; [apply Z.leb_le in E2; lia|].
  rewrite <- two_eq. rewrite Z.geb_leb, E2.
  destruct (exp <? 0) eqn:E3; [apply Z.ltb_lt in E3; lia|].
  set (q := Z.quot exp P18) in *.
  destruct (negb (q <? 2 ^ 63)) eqn:E4; [discriminate|]. apply negb_false_iff, Z.ltb_lt in E4.
  assert (Hq0 : 0 <= q) by (apply Z.quot_pos; lia).
  pose proof (Z.quot_rem' exp P18) as Hqr. pose proof (Z.rem_bound_pos exp P18 He HP) as Hr. fold q in Hqr.
  assert (Hfrac : exp - q * P18 = Z.rem exp P18) by lia.
  unfold d_truncate_dec. fold q.
  unfold K.dc_sub. rewrite small_fits by (rewrite Hfrac; assert (P18 <= 2 ^ 200) by (vm_compute; discriminate); lia). cbn [K.bind].
  unfold KP.d_truncate_int64. rewrite Z.quot_mul by lia.
  replace ((- 2 ^ 63 <=? q) && (q <? 2 ^ 63)) with true
    by (symmetry; apply andb_true_intro; split; [apply Z.leb_le; lia|apply Z.ltb_lt; lia]).
  cbn [K.bind]. replace (q <? 0) with false by (symmetry; apply Z.ltb_ge; lia).
  apply bind_ok in H as (ip & Hip & H). rewrite (power_agree _ _ _ Hip). cbn [K.bind].
  destruct (exp - q * P18 =? 0); [inversion H; reflexivity|].
  apply bind_ok in H as (fp & Hfp & H). rewrite precision_eq in Hfp.
  rewrite (pow_approx_agree base (exp - q * P18) KC.pow_precision fp ltac:(lia) ltac:(lia) ltac:(vm_compute; discriminate) Hfp).
  cbn [K.bind]. apply mul_agree. exact H.
Qed.

(* ---------- C13's proved error bounds, for the C04 copy of Pow ---------- *)
From Osmo Require C13.PowProofs C13.PowBound C13.PowInt C13.PowLift.
From Osmo Require Import C04.Balancer C04.ProofsBalancer C04.ProofsBalancerReal.
Open Scope R_scope.

Lemma dR_D18 z : C13.PowProofs.dR z = IZR z / D18.
Proof. unfold C13.PowProofs.dR, D18. rewrite <- C13.PowBound.T18_val. reflexivity. Qed.

Lemma half_int : (P18 = 2 * (P18 / 2))%Z. Proof. reflexivity. Qed.

(* exponent below 1 (single-asset joins and exits: the exponent is a normalised weight): the documented precision, plus 1e-12 of
   accumulated rounding, on every base in [1/2, 2) *)
Definition eps_frac : R := 1 / 10 ^ 8 + 1 / 10 ^ 12.
Theorem c04_pow_frac_bound b e r :
  (P18 <= 2 * b)%Z -> (b < 2 * P18)%Z -> (0 <= e < P18)%Z -> pow b e = Ok r ->
  Rabs (IZR r / D18 - Rpower (IZR b / D18) (IZR e / D18)) <= eps_frac.
Proof.
  intros H1 H2 He H. apply pow_agree in H; [|assumption|assumption|lia].
  pose proof (C13.PowLift.pow_bound_fractional b e r H1 H2 He H) as HB.
  rewrite C13.PowBound.pow_err_val, !dR_D18 in HB. exact HB.
Qed.

(* any exponent with an integer part of at most 2^28 (swaps: the exponent is a weight ratio, below 2^20) on bases in [1/2, 1]:
   the integer power is at most 1, so the error is the documented precision plus 5 ulp per unit of the integer part *)
Definition eps_swap : R := 1 / 10 ^ 8 + 1 / 10 ^ 12 + 5 * 2 ^ 28 / 10 ^ 18 + / 10 ^ 18 / 2.
Theorem c04_pow_le_one_bound b e r :
  (P18 <= 2 * b)%Z -> (b <= P18)%Z -> (0 <= e)%Z -> (Z.quot e P18 <= 2 ^ 28)%Z -> pow b e = Ok r ->
  Rabs (IZR r / D18 - Rpower (IZR b / D18) (IZR e / D18)) <= eps_swap.
Proof.
  intros H1 H2 He Hq H. assert (HP : (0 < P18)%Z) by reflexivity.
  apply pow_agree in H; [|assumption|lia|assumption].
  pose proof (C13.PowLift.pow_bound_full b e r H1 ltac:(lia) He Hq H) as HB. cbv zeta in HB.
  rewrite C13.PowBound.pow_err_val, !dR_D18 in HB.
  set (n := Z.to_nat (Z.quot e P18)) in *.
  assert (Hb1 : IZR b / D18 <= 1).
  { pose proof D18_pos. apply Rmult_le_reg_r with D18; [assumption|]. replace (IZR b / D18 * D18) with (IZR b) by (field; lra).
    rewrite Rmult_1_l. unfold D18. apply IZR_le. exact H2. }
  rewrite Rmax_left in HB by exact Hb1. rewrite pow1, Rmult_1_l in HB.
  assert (Hn : INR n <= 2 ^ 28).
  { unfold n. rewrite INR_IZR_INZ, Z2Nat.id by (apply Z.quot_pos; lia).
    replace (2 ^ 28) with (IZR (2 ^ 28)) by (rewrite (pow_IZR 2 28); reflexivity). apply IZR_le. exact Hq. }
  assert (Hu : C13.PowBound.u18 = / 10 ^ 18) by (unfold C13.PowBound.u18; rewrite C13.PowBound.T18_val; reflexivity).
  rewrite Hu in HB. unfold eps_swap.
  assert (Hi : 0 < / 10 ^ 18) by (apply Rinv_0_lt_compat, pow_lt; lra).
  assert (5 * INR n * / 10 ^ 18 <= 5 * 2 ^ 28 / 10 ^ 18) by (unfold Rdiv; nra).
  lra.
Qed.

(* ---------- the C04 value-function theorems without any hypothesis about Pow ---------- *)
Lemma abs_lower a b e : Rabs (a - b) <= e -> b - e <= a.
Proof. intros H. pose proof (Rle_abs (- (a - b))) as Hq. rewrite Rabs_Ropp in Hq. lra. Qed.
Lemma abs_upper a b e : Rabs (a - b) <= e -> a <= b + e.
Proof. intros H. pose proof (Rle_abs (a - b)). lra. Qed.

(* exact-in swap whose Pow base lies in [1/2, 1]: Bin^wi * Bout^wj falls by at most the factor (1 - (eta + eps_swap / y^(wi/wj)))^wj,
   eps_swap = 1.134e-8; the only remaining premise besides the ranges is the effect eta of rounding the two operands to 18 decimals *)
Theorem swap_value_on_half_to_one p i j a fee out (eta : R) :
  b_calc_out_given_in p i j a fee = Ok out ->
  let Bi := IZR (nthZ (b_res p) i) in let Bj := IZR (nthZ (b_res p) j) in
  let wi := IZR (nthZ (b_w p) i) in let wj := IZR (nthZ (b_w p) j) in
  let a' := IZR a * (1 - IZR fee / D18) in
  let yd := d_quo (dec_of_int (nthZ (b_res p) i)) (d_mul (dec_of_int a) (P18 - fee) + dec_of_int (nthZ (b_res p) i)) in
  let wrd := d_quo (dec_of_int (nthZ (b_w p) i)) (dec_of_int (nthZ (b_w p) j)) in
  let pt := Rpower (Bi / (Bi + a')) (wi / wj) in
  0 < Bi -> 0 < Bj -> 0 <= IZR a -> 0 < wi -> 0 < wj -> 0 <= IZR fee / D18 <= 1 ->
  (P18 / 2 <= yd <= P18)%Z -> (0 <= wrd)%Z -> (Z.quot wrd P18 <= 2 ^ 28)%Z ->
  pt * (1 - eta) <= Rpower (IZR yd / D18) (IZR wrd / D18) ->
  0 <= eta + eps_swap / pt < 1 ->
  Rpower Bi wi * Rpower Bj wj * Rpower (1 - (eta + eps_swap / pt)) wj <= Rpower (Bi + IZR a) wi * Rpower (Bj - IZR out) wj.
Proof.
  apply (swap_out_value_partial eps_swap).
  intros b e r [Hb1 Hb2] He Hq H. apply abs_lower.
  apply c04_pow_le_one_bound; try assumption. pose proof half_int. lia.
Qed.

(* single-asset join whose Pow base lies in [1, 2): B^nw / S falls by at most the factor 1 / (1 + eta + eps_frac / y^nw) *)
Theorem single_join_value_on_one_to_two p bal w a fee ts s (eta : R) :
  b_calc_single_asset_join p bal w a fee ts = Ok s ->
  let nwd := d_quo (dec_of_int w) (dec_of_int (b_total_weight p)) in
  forall fr, fee_ratio nwd fee = Ok fr ->
  let yd := d_quo (dec_of_int bal + d_mul (dec_of_int a) fr) (dec_of_int bal) in
  let B := IZR bal in let S := IZR ts in let nw := IZR nwd / D18 in
  let pt := Rpower ((B + IZR a) / B) nw in
  0 < B -> 0 <= IZR a -> 0 < nw -> 0 < S -> (0 <= s)%Z ->
  (P18 <= yd < 2 * P18)%Z -> (0 <= nwd < P18)%Z ->
  Rpower (IZR yd / D18) nw <= pt * (1 + eta) -> 0 <= eta ->
  Rpower B nw / S <= (1 + (eta + eps_frac / pt)) * (Rpower (B + IZR a) nw / (S + IZR s)).
Proof.
  apply (single_join_value_partial eps_frac).
  - unfold eps_frac. assert (0 < 1 / 10 ^ 8) by (apply Rdiv_lt_0_compat; [lra|apply pow_lt; lra]).
    assert (0 < 1 / 10 ^ 12) by (apply Rdiv_lt_0_compat; [lra|apply pow_lt; lra]). lra.
  - intros b e r [Hb1 Hb2] He H. apply abs_upper. apply c04_pow_frac_bound; try assumption. lia.
Qed.

(* exact-in swap, base in [1/2, 1]: the amount paid out is within eps_swap * Bout + 1 of Bout * (1 - y^wr), y and wr the
   18-decimal operands the code computes *)
Theorem swap_out_formula_error_on_half_to_one p i j a fee out :
  b_calc_out_given_in p i j a fee = Ok out -> (0 <= nthZ (b_res p) j)%Z ->
  let y := d_quo (dec_of_int (nthZ (b_res p) i)) (d_mul (dec_of_int a) (P18 - fee) + dec_of_int (nthZ (b_res p) i)) in
  let wr := d_quo (dec_of_int (nthZ (b_w p) i)) (dec_of_int (nthZ (b_w p) j)) in
  (P18 / 2 <= y <= P18)%Z -> (0 <= wr)%Z -> (Z.quot wr P18 <= 2 ^ 28)%Z ->
  Rabs (IZR out - IZR (nthZ (b_res p) j) * (1 - Rpower (IZR y / D18) (IZR wr / D18))) <= eps_swap * IZR (nthZ (b_res p) j) + 1.
Proof.
  intros H HB y wr Hy Hwr Hq.
  destruct (swap_out_formula_error p i j a fee out eps_swap H HB) as (y' & wr' & pw & Ey & Ewr & Hpw & Himp).
  fold y in Ey. fold wr in Ewr. subst y' wr'. apply Himp.
  apply c04_pow_le_one_bound; try assumption; try lia. pose proof half_int. lia.
Qed.
