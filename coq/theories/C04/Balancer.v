(* C04 - model of x/gamm/pool-models/balancer (pool.go, amm.go), function by function as written.
   Definitions only. *)
From Coq Require Import ZArith List Bool.
Import ListNotations.
From Osmo Require Import Base.DecModel C04.Common C04.Lp C04.MathLib.
Open Scope Z_scope.

(* reserves and (internal, already scaled by GuaranteedWeightPrecision) weights in denom order *)
Record bpool := mkB { b_res : list Z; b_w : list Z; b_shares : Z }.

Definition b_n (p : bpool) : nat := length (b_res p).

(* CalcJoinPoolNoSwapShares: (numShares, tokensJoined) *)
Definition b_calc_join_no_swap (p : bpool) (amts : list Z) : res (Z * list Z) :=
  let n := b_n p in
  if has_foreign n amts then Err e_shape else            (* ensureDenomInPool *)
  if negb (all_present n amts) then Err e_shape else     (* tokensIn.Len() != p.NumAssets() *)
  let A := known_part n amts in
  do '(ns, rem) <- maximal_exact_ratio_join (b_res p) (b_shares p) A;
  Ok (ns, sub_vec A rem).                                (* tokensIn.Sub(remainingTokensIn...) *)

(* IncreaseLiquidity *)
Definition b_increase_liquidity (p : bpool) (shares_out : Z) (coins_in : list Z) : res bpool :=
  do r' <- mapM int_check (add_vec (b_res p) coins_in);
  do s' <- int_check (b_shares p + shares_out);
  Ok (mkB r' (b_w p) s').

Definition b_join_no_swap (p : bpool) (amts : list Z) : res (Z * bpool) :=
  do '(ns, joined) <- b_calc_join_no_swap p amts;
  do p' <- b_increase_liquidity p ns joined;
  Ok (ns, p').

Definition b_calc_exit (p : bpool) (sh exit_fee : Z) : res (list Z) :=
  calc_exit_pool (b_res p) (b_shares p) sh exit_fee.

(* exitPool: UpdatePoolAssetBalances refuses a balance that is zero or negative *)
Definition b_exit_pool (p : bpool) (coins : list Z) (sh : Z) : res bpool :=
  let r' := sub_vec (b_res p) coins in
  if negb (all_pos r') then Err e_zero_balance else
  do s' <- int_check (b_shares p - sh);
  Ok (mkB r' (b_w p) s').

Definition b_exit (p : bpool) (sh exit_fee : Z) : res (list Z * bpool) :=
  do coins <- b_calc_exit p sh exit_fee;
  do p' <- b_exit_pool p coins sh;
  Ok (coins, p').

(* ---------- amm.go ---------- *)
(* solveConstantFunctionInvariant: balanceUnknown * (1 - (fixedBefore/fixedAfter)^(wFixed/wUnknown)); all LegacyDec *)
Definition solve_cfi (bal_fixed_before bal_fixed_after w_fixed bal_unknown_before w_unknown : Z) : res Z :=
  do weight_ratio <- dc_quo w_fixed w_unknown;
  do y <- dc_quo bal_fixed_before bal_fixed_after;
  do y_to_wr <- pow y weight_ratio;
  do paren <- dc_sub P18 y_to_wr;
  dc_mul paren bal_unknown_before.

(* feeRatio: 1 - (1 - normalizedWeight) * spreadFactor *)
Definition fee_ratio (nw fee : Z) : res Z :=
  do a <- dc_sub P18 nw;
  do b <- dc_mul a fee;
  dc_sub P18 b.

Definition calc_pool_shares_out_given_single_asset_in (bal_in nw pool_shares amt_in fee : Z) : res Z :=
  do fr <- fee_ratio nw fee;
  do after_fee <- dc_mul amt_in fr;
  do after <- dc_add bal_in after_fee;
  do r <- solve_cfi after bal_in nw pool_shares P18;
  Ok (- r).

Definition calc_single_asset_in_given_pool_shares_out (bal_in nw total_shares shares_out fee : Z) : res Z :=
  do after <- dc_add total_shares shares_out;
  do r <- solve_cfi after total_shares P18 bal_in nw;
  do fr <- fee_ratio nw fee;
  dc_quo (- r) fr.

Definition calc_pool_shares_in_given_single_asset_out (bal_out nw total_shares amt_out fee exit_fee : Z) : res Z :=
  do fr <- fee_ratio nw fee;
  do out_fee_incl <- dc_quo amt_out fr;
  do after <- dc_sub bal_out out_fee_incl;
  do shares_in <- solve_cfi after bal_out nw total_shares P18;
  do f <- dc_sub P18 exit_fee;
  dc_quo shares_in f.

(* ---------- pool.go: swaps ---------- *)
Definition dec_of_int (i : Z) : Z := i * P18.                      (* Int.ToLegacyDec *)
Definition b_total_weight (p : bpool) : Z := sumZ (b_w p).
Definition in_pool (p : bpool) (i : nat) : bool := (i <? b_n p)%nat.

(* CalcOutAmtGivenIn: token i in (amount a), token j out *)
Definition b_calc_out_given_in (p : bpool) (i j : nat) (a fee : Z) : res Z :=
  if negb (in_pool p i && in_pool p j) then Err e_shape else
  let bi := nthZ (b_res p) i in let bj := nthZ (b_res p) j in
  do f <- dc_sub P18 fee;
  do after_fee <- dc_mul (dec_of_int a) f;
  do post <- dc_add after_fee (dec_of_int bi);
  do out <- solve_cfi (dec_of_int bi) post (dec_of_int (nthZ (b_w p) i)) (dec_of_int bj) (dec_of_int (nthZ (b_w p) j));
  let out_int := Z.quot out P18 in                                  (* TruncateInt *)
  if out_int <=? 0 then Err e_not_positive else Ok out_int.

(* CalcInAmtGivenOut: token i out (amount o), token j in *)
Definition b_calc_in_given_out (p : bpool) (i j : nat) (o fee : Z) : res Z :=
  if negb (in_pool p i && in_pool p j) then Err e_shape else
  let bo := nthZ (b_res p) i in let bin := nthZ (b_res p) j in
  do post <- dc_sub (dec_of_int bo) (dec_of_int o);
  do r <- solve_cfi (dec_of_int bo) post (dec_of_int (nthZ (b_w p) i)) (dec_of_int bin) (dec_of_int (nthZ (b_w p) j));
  do f <- dc_sub P18 fee;
  do before_fee <- dc_quo (- r) f;
  do c <- dc_ceil before_fee;
  let in_int := Z.quot c P18 in
  if in_int <=? 0 then Err e_not_positive else Ok in_int.

(* applySwap: the out asset may not drop to zero or below (sdk.NewCoins would silently drop a zero coin and leave the
   old record: rejected since the repo's fix e9b34e9409); then UpdatePoolAssetBalances(sdk.NewCoins(inAsset, outAsset)) *)
Definition b_apply_swap (p : bpool) (i j : nat) (a_in a_out : Z) : res bpool :=
  do ni <- int_check (nthZ (b_res p) i + a_in);
  do nj <- int_check (nthZ (b_res p) j - a_out);
  if nj <=? 0 then Err e_zero_balance else
  if ni <? 0 then Err e_neg_coin else
  let r1 := if ni =? 0 then b_res p else set_nth (b_res p) i ni in    (* NewCoins drops a zero coin *)
  Ok (mkB (set_nth r1 j nj) (b_w p) (b_shares p)).

Definition b_swap_out_given_in (p : bpool) (i j : nat) (a fee : Z) : res (Z * bpool) :=
  do out <- b_calc_out_given_in p i j a fee;
  do p' <- b_apply_swap p i j a out;
  Ok (out, p').
Definition b_swap_in_given_out (p : bpool) (i j : nat) (o fee : Z) : res (Z * bpool) :=
  do tin <- b_calc_in_given_out p i j o fee;
  do p' <- b_apply_swap p j i tin o;
  Ok (tin, p').

(* ---------- pool.go: joins ---------- *)
(* calcSingleAssetJoin with the asset's (possibly updated) balance and the running share total *)
Definition b_calc_single_asset_join (p : bpool) (bal w : Z) (a fee total_shares : Z) : res Z :=
  let tw := b_total_weight p in
  if tw =? 0 then Err e_other_misconfigured else
  do nw <- dc_quo (dec_of_int w) (dec_of_int tw);
  do r <- calc_pool_shares_out_given_single_asset_in (dec_of_int bal) nw (dec_of_int total_shares) (dec_of_int a) fee;
  Ok (Z.quot r P18).

(* calcJoinSingleAssetTokensIn over the remaining coins (amount 0 = absent), in denom order *)
Fixpoint b_join_remaining (p : bpool) (fee total_shares : Z) (brw : list (Z * Z * Z)) (new_shares : Z) : res Z :=
  match brw with
  | [] => Ok new_shares
  | (bal, a, w) :: rest =>
    if a =? 0 then b_join_remaining p fee total_shares rest new_shares else
    do tsh <- int_check (total_shares + new_shares);
    do s <- b_calc_single_asset_join p bal w a fee tsh;
    do ns <- int_check (new_shares + s);
    b_join_remaining p fee total_shares rest ns
  end.

(* CalcJoinPoolShares: (numShares, tokensJoined) *)
Definition b_calc_join (p : bpool) (amts : list Z) (fee : Z) : res (Z * list Z) :=
  let n := b_n p in
  if has_foreign n amts then Err e_shape else
  let A := known_part n amts ++ repeat 0 (n - length (known_part n amts)) in
  if (count_nonzero A =? 1)%nat then
    (* single token: tokensIn[0] is the only non-zero entry *)
    let brw := zip (zip (b_res p) A) (b_w p) in
    do s <- b_join_remaining p fee (b_shares p) brw 0;
    Ok (s, A)
  else if negb (count_nonzero A =? n)%nat then Err e_shape else
  do '(ns, joined) <- b_calc_join_no_swap p amts;
  if forallb (fun xy => fst xy =? snd xy) (zip joined A) then Ok (ns, joined) else
  let res1 := add_vec (b_res p) joined in                             (* updateIntermediaryPoolAssetsLiquidity *)
  do tsh <- int_check (b_shares p + ns);
  let remaining := sub_vec A joined in
  do s2 <- b_join_remaining p fee tsh (zip (zip res1 remaining) (b_w p)) 0;
  do total <- int_check (ns + s2);
  Ok (total, A).

Definition b_join (p : bpool) (amts : list Z) (fee : Z) : res (Z * bpool) :=
  do '(ns, joined) <- b_calc_join p amts fee;
  do p' <- b_increase_liquidity p ns joined;
  Ok (ns, p').

(* ExitSwapExactAmountOut with the pool's own spread factor / exit fee; shareInMaxAmount not binding *)
Definition b_exit_swap_out (p : bpool) (i : nat) (amt fee exit_fee : Z) : res (Z * bpool) :=
  if negb (in_pool p i) then Err e_shape else
  do nw <- dc_quo (dec_of_int (nthZ (b_w p) i)) (dec_of_int (b_total_weight p));
  do r <- calc_pool_shares_in_given_single_asset_out (dec_of_int (nthZ (b_res p) i)) nw (dec_of_int (b_shares p)) (dec_of_int amt) fee exit_fee;
  let shares_in := Z.quot r P18 in
  if shares_in <=? 0 then Err e_req_not_pos else
  let nb := nthZ (b_res p) i - amt in
  if nb <? 0 then Err e_neg_coin else                                (* Coins.Sub panics *)
  (* a zero balance is dropped by Coins.Sub, so UpdatePoolAssetBalances leaves that reserve as it was *)
  let r' := if nb =? 0 then b_res p else set_nth (b_res p) i nb in
  let s' := b_shares p - shares_in in
  if s' <? 0 then Err e_neg_coin else                                (* sdk.NewCoin panics on a negative amount *)
  Ok (shares_in, mkB r' (b_w p) s').

Definition b_calc_token_in_share_out (p : bpool) (i : nat) (share_out fee : Z) : res Z :=
  if negb (in_pool p i) then Err e_shape else
  do nw <- dc_quo (dec_of_int (nthZ (b_w p) i)) (dec_of_int (b_total_weight p));
  do r <- calc_single_asset_in_given_pool_shares_out (dec_of_int (nthZ (b_res p) i)) nw (dec_of_int (b_shares p)) (dec_of_int share_out) fee;
  do c <- dc_ceil r;
  let a := Z.quot c P18 in
  if a <=? 0 then Err e_req_not_pos else Ok a.

(* one driver step: result values (nres of them; zeros on error), error code, new pool (unchanged on error) *)
Definition b_step (fee exit_fee : Z) (p : bpool) (o : op) : Z * list Z * bpool :=
  let n := b_n p in
  let fail e := (e, repeat 0 (nres n o), p) in
  match o with
  | OJoinNoSwap amts => match b_join_no_swap p amts with Ok (ns, p') => (0, [ns], p') | Err e => fail e end
  | OCalcJoinNoSwap amts => match b_calc_join_no_swap p amts with Ok (ns, j) => (0, ns :: j, p) | Err e => fail e end
  | OExit sh => match b_exit p sh exit_fee with Ok (c, p') => (0, c, p') | Err e => fail e end
  | OCalcExit sh => match b_calc_exit p sh exit_fee with Ok c => (0, c, p) | Err e => fail e end
  | OSwapOut i j a => match b_swap_out_given_in p i j a fee with Ok (o, p') => (0, [o], p') | Err e => fail e end
  | OCalcOut i j a => match b_calc_out_given_in p i j a fee with Ok o => (0, [o], p) | Err e => fail e end
  | OSwapIn i j a => match b_swap_in_given_out p i j a fee with Ok (o, p') => (0, [o], p') | Err e => fail e end
  | OCalcIn i j a => match b_calc_in_given_out p i j a fee with Ok o => (0, [o], p) | Err e => fail e end
  | OJoin amts => match b_join p amts fee with Ok (ns, p') => (0, [ns], p') | Err e => fail e end
  | OCalcJoin amts => match b_calc_join p amts fee with Ok (ns, j) => (0, ns :: j, p) | Err e => fail e end
  | OExitSwapOut i a => match b_exit_swap_out p i a fee exit_fee with Ok (s, p') => (0, [s], p') | Err e => fail e end
  | OCalcTokenInShareOut i sh => match b_calc_token_in_share_out p i sh fee with Ok a => (0, [a], p) | Err e => fail e end
  end.
