(* C18 proofs about the model in Model.v: arithmetic of getProportions, pointwise balance effects of the
   bank operations, and the specification of one successful minting epoch. *)
From Coq Require Import ZArith List Bool Lia Arith.
Import ListNotations.
From Osmo Require Import Base.DecModel C18.Model.
Open Scope Z_scope.

(** * Decimal arithmetic used by the mint module *)

Lemma P18_pos : 0 < P18.
Proof. unfold P18. apply Z.pow_pos_nonneg; lia. Qed.

Lemma chop_round_nonneg_mul k : 0 <= k -> chop_round_nonneg P18 (k * P18) = k.
Proof.
  intros Hk. unfold chop_round_nonneg. pose proof P18_pos.
  rewrite Z.rem_mul by lia. cbn [Z.eqb]. rewrite Z.quot_mul by lia. reflexivity.
Qed.

Lemma chop_round_mul k : chop_round P18 (k * P18) = k.
Proof.
  unfold chop_round. pose proof P18_pos.
  destruct (k * P18 <? 0) eqn:E.
  - apply Z.ltb_lt in E. assert (k < 0) by nia.
    replace (- (k * P18)) with ((- k) * P18) by ring.
    rewrite chop_round_nonneg_mul by lia. lia.
  - apply Z.ltb_ge in E. assert (0 <= k) by nia.
    apply chop_round_nonneg_mul; assumption.
Qed.

(* the truncated share of an integer amount: Int.ToLegacyDec().Mul(ratio).TruncateInt() *)
Definition share (amount ratio : Z) : Z := (amount * ratio) / P18.

Lemma get_proportions_ok amount ratio :
  0 <= amount -> 0 <= ratio -> ratio <= P18 -> get_proportions amount ratio = Ok (share amount ratio).
Proof.
  intros Ha Hr Hle. unfold get_proportions.
  destruct (P18 <? ratio) eqn:E; [apply Z.ltb_lt in E; lia|].
  f_equal. unfold d_truncate_int, d_mul, d_from_int, share.
  replace (amount * P18 * ratio) with (amount * ratio * P18) by ring.
  rewrite chop_round_mul. apply Z.quot_div_nonneg; [nia|apply P18_pos].
Qed.

Lemma get_proportions_inv amount ratio x :
  0 <= amount -> 0 <= ratio -> get_proportions amount ratio = Ok x -> ratio <= P18 /\ x = share amount ratio.
Proof.
  intros Ha Hr H. unfold get_proportions in H.
  destruct (P18 <? ratio) eqn:E; [discriminate|]. apply Z.ltb_ge in E.
  split; [assumption|].
  pose proof (get_proportions_ok amount ratio Ha Hr E) as H2. unfold get_proportions in H2.
  rewrite (proj2 (Z.ltb_ge _ _) E) in H2. congruence.
Qed.

Lemma share_nonneg a r : 0 <= a -> 0 <= r -> 0 <= share a r.
Proof. intros. unfold share. apply Z.div_pos; [nia|apply P18_pos]. Qed.

Lemma share_le a r : 0 <= a -> 0 <= r -> r <= P18 -> share a r <= a.
Proof.
  intros. unfold share. pose proof P18_pos.
  apply Z.div_le_upper_bound; [lia|]. nia.
Qed.

Lemma share_zero_ratio a : share a 0 = 0.
Proof. unfold share. rewrite Z.mul_0_r. apply Z.div_0_l. pose proof P18_pos; lia. Qed.

(* shares of proportions summing to one: the truncated shares never exceed the amount *)
Lemma shares_le_total a r1 r2 r3 r4 :
  0 <= a -> 0 <= r1 -> 0 <= r2 -> 0 <= r3 -> 0 <= r4 -> r1 + r2 + r3 + r4 = P18 ->
  share a r1 + share a r2 + share a r3 + share a r4 <= a.
Proof.
  intros Ha H1 H2 H3 H4 Hs. unfold share. pose proof P18_pos as Hp.
  pose proof (Z.mul_div_le (a * r1) P18 Hp). pose proof (Z.mul_div_le (a * r2) P18 Hp).
  pose proof (Z.mul_div_le (a * r3) P18 Hp). pose proof (Z.mul_div_le (a * r4) P18 Hp).
  assert (a * r1 + a * r2 + a * r3 + a * r4 = a * P18) by (rewrite <- Hs; ring).
  nia.
Qed.

Lemma chop_round_nonneg_nonneg a : 0 <= a -> 0 <= chop_round_nonneg P18 a.
Proof.
  intros Ha. unfold chop_round_nonneg. pose proof P18_pos.
  assert (0 <= Z.quot a P18) by (apply Z.quot_pos; lia).
  destruct (Z.rem a P18 =? 0); [assumption|].
  destruct (Z.rem a P18 ?= Z.quot P18 2); try lia.
  destruct (Z.even (Z.quot a P18)); lia.
Qed.

Lemma d_mul_nonneg a b : 0 <= a -> 0 <= b -> 0 <= d_mul a b.
Proof.
  intros. unfold d_mul, chop_round.
  destruct (a * b <? 0) eqn:E; [apply Z.ltb_lt in E; nia|].
  apply chop_round_nonneg_nonneg. nia.
Qed.

Lemma d_truncate_int_nonneg a : 0 <= a -> 0 <= d_truncate_int a.
Proof. intros. unfold d_truncate_int. apply Z.quot_pos; [assumption|pose proof P18_pos; lia]. Qed.

(** * Pointwise effect of the bank operations *)

Definition delta (a x : acct) (amt : Z) : Z := if acct_eqb x a then amt else 0.

Lemma acct_eqb_refl a : acct_eqb a a = true.
Proof. destruct a; cbn; try reflexivity. apply Nat.eqb_refl. Qed.

Lemma acct_eqb_eq a b : acct_eqb a b = true <-> a = b.
Proof.
  split; [|intros ->; apply acct_eqb_refl].
  destruct a, b; cbn; intros H; try discriminate; try reflexivity.
  apply Nat.eqb_eq in H. congruence.
Qed.

Lemma delta_zero a x : delta a x 0 = 0.
Proof. unfold delta. destruct (acct_eqb x a); reflexivity. Qed.

Lemma add_bal_spec a amt f x : add_bal a amt f x = f x + delta a x amt.
Proof. unfold add_bal, delta. destruct (acct_eqb x a); lia. Qed.

(* the parts of the bank that an operation leaves alone *)
Definition same_meta (b b' : bank) : Prop :=
  cpool b' = cpool b /\ supply b' = supply b /\ offset b' = offset b.

Lemma send_spec from to amt b b' :
  send from to amt b = Ok b' ->
  (forall x, bal b' x = bal b x + delta to x amt - delta from x amt) /\ same_meta b b'.
Proof.
  unfold send. destruct (amt =? 0) eqn:E0.
  - apply Z.eqb_eq in E0. subst amt. intros H; inversion H; subst b'.
    split; [intros x; rewrite !delta_zero; lia|repeat split].
  - destruct (bal b from <? amt); [discriminate|]. intros H; inversion H; subst b'; clear H.
    cbn [bal cpool supply offset]. split; [|repeat split].
    intros x. rewrite !add_bal_spec. unfold delta. destruct (acct_eqb x from), (acct_eqb x to); lia.
Qed.

Lemma fund_community_spec from amt b b' :
  fund_community from amt b = Ok b' ->
  (forall x, bal b' x = bal b x + delta ADistr x amt - delta from x amt) /\
  cpool b' = cpool b + amt /\ supply b' = supply b /\ offset b' = offset b.
Proof.
  unfold fund_community, bind. destruct (send from ADistr amt b) as [b1|] eqn:E; [|discriminate].
  intros H; inversion H; subst b'; clear H. cbn [bal cpool supply offset].
  destruct (send_spec _ _ _ _ _ E) as [Hb [Hc [Hs Ho]]]. repeat split; try assumption; lia.
Qed.

Lemma mint_coins_spec amt b :
  (forall x, bal (mint_coins amt b) x = bal b x + delta AMint x amt) /\
  cpool (mint_coins amt b) = cpool b /\ supply (mint_coins amt b) = supply b + amt /\
  offset (mint_coins amt b) = offset b.
Proof.
  unfold mint_coins. destruct (amt =? 0) eqn:E0.
  - apply Z.eqb_eq in E0. subst amt. repeat split; try lia. intros x. rewrite delta_zero. lia.
  - cbn [bal cpool supply offset]. repeat split. intros x. apply add_bal_spec.
Qed.

Lemma burn_coins_spec amt b b' :
  burn_coins amt b = Ok b' ->
  (forall x, bal b' x = bal b x - delta AMint x amt) /\
  cpool b' = cpool b /\ supply b' = supply b - amt /\ offset b' = offset b.
Proof.
  unfold burn_coins. destruct (amt =? 0) eqn:E0.
  - apply Z.eqb_eq in E0. subst amt. intros H; inversion H; subst b'. repeat split; try lia.
    intros x. rewrite delta_zero. lia.
  - destruct (bal b AMint <? amt); [discriminate|]. intros H; inversion H; subst b'; clear H.
    cbn [bal cpool supply offset]. repeat split. intros x. rewrite add_bal_spec. unfold delta.
    destruct (acct_eqb x AMint); lia.
Qed.

(** * The developer-receiver loop *)

(* what the loop moves into account [x], and what it books into the community pool *)
Definition target (a : raddr) : option acct :=
  match a with RAEmpty => Some ADistr | RAAddr i => Some (ARecv i) | RABlocked => None end.

Fixpoint recv_delta (dev : Z) (rs : list (raddr * Z)) (x : acct) : Z :=
  match rs with
  | [] => 0
  | (a, w) :: r =>
      (match target a with Some t => delta t x (share dev w) | None => 0 end)
      - delta AVest x (share dev w) + recv_delta dev r x
  end.

Fixpoint paid_empty (dev : Z) (rs : list (raddr * Z)) : Z :=
  match rs with
  | [] => 0
  | (RAEmpty, w) :: r => share dev w + paid_empty dev r
  | _ :: r => paid_empty dev r
  end.

Fixpoint paid_to (i : nat) (dev : Z) (rs : list (raddr * Z)) : Z :=
  match rs with
  | [] => 0
  | (RAAddr j, w) :: r => (if Nat.eqb i j then share dev w else 0) + paid_to i dev r
  | _ :: r => paid_to i dev r
  end.

Fixpoint paid_total (dev : Z) (rs : list (raddr * Z)) : Z :=
  match rs with
  | [] => 0
  | (_, w) :: r => share dev w + paid_total dev r
  end.

Fixpoint sum_weights (rs : list (raddr * Z)) : Z :=
  match rs with [] => 0 | (_, w) :: r => w + sum_weights r end.

Definition no_blocked (rs : list (raddr * Z)) : Prop := Forall (fun aw => fst aw <> RABlocked) rs.
Definition weights_ok (rs : list (raddr * Z)) : Prop := Forall (fun aw => 0 < snd aw <= P18) rs.

Lemma pay_receivers_spec dev : 0 <= dev -> forall rs b b',
  Forall (fun aw => 0 <= snd aw) rs ->
  pay_receivers dev rs b = Ok b' ->
  (forall x, bal b' x = bal b x + recv_delta dev rs x) /\
  cpool b' = cpool b + paid_empty dev rs /\ supply b' = supply b /\ offset b' = offset b /\
  no_blocked rs /\ Forall (fun aw => snd aw <= P18) rs.
Proof.
  intros Hdev rs. induction rs as [|[a w] r IH]; intros b b' Hw H.
  - cbn in H. inversion H; subst b'. cbn. repeat split; try lia; constructor.
  - cbn [pay_receivers] in H. inversion Hw as [|? ? Hw0 Hwr]; subst. cbn [snd] in Hw0.
    unfold bind in H at 1.
    destruct (get_proportions dev w) as [portion|] eqn:Egp; [|discriminate].
    destruct (get_proportions_inv _ _ _ Hdev Hw0 Egp) as [Hle ->].
    unfold bind in H at 1.
    destruct a.
    + destruct (fund_community AVest (share dev w) b) as [b1|] eqn:E1; [|discriminate].
      destruct (fund_community_spec _ _ _ _ E1) as [Hb [Hc [Hs Ho]]].
      destruct (IH _ _ Hwr H) as [Hb' [Hc' [Hs' [Ho' [Hnb Hle']]]]].
      cbn [recv_delta paid_empty target]. repeat split; try lia.
      * intros x. rewrite Hb', Hb. lia.
      * constructor; [cbn; discriminate|assumption].
      * constructor; assumption.
    + destruct (send AVest (ARecv i) (share dev w) b) as [b1|] eqn:E1; [|discriminate].
      destruct (send_spec _ _ _ _ _ E1) as [Hb [Hc [Hs Ho]]].
      destruct (IH _ _ Hwr H) as [Hb' [Hc' [Hs' [Ho' [Hnb Hle']]]]].
      cbn [recv_delta paid_empty target]. repeat split; try lia.
      * intros x. rewrite Hb', Hb. lia.
      * constructor; [cbn; discriminate|assumption].
      * constructor; assumption.
    + discriminate.
Qed.

Lemma recv_delta_vest dev rs : no_blocked rs -> recv_delta dev rs AVest = - paid_total dev rs.
Proof.
  induction 1 as [|[a w] r Ha Hr IH]; [reflexivity|].
  cbn [recv_delta paid_total]. rewrite IH. cbn in Ha. destruct a; cbn; try lia.
Qed.

Lemma recv_delta_distr dev rs : recv_delta dev rs ADistr = paid_empty dev rs.
Proof.
  induction rs as [|[a w] r IH]; [reflexivity|].
  cbn [recv_delta paid_empty]. rewrite IH. destruct a; cbn; lia.
Qed.

Lemma recv_delta_recv dev rs i : recv_delta dev rs (ARecv i) = paid_to i dev rs.
Proof.
  induction rs as [|[a w] r IH]; [reflexivity|].
  cbn [recv_delta paid_to]. rewrite IH. destruct a; cbn; try lia.
  unfold delta; cbn [acct_eqb]. destruct (Nat.eqb i i0); lia.
Qed.

Lemma recv_delta_other dev rs x :
  x <> AVest -> x <> ADistr -> (forall i, x <> ARecv i) -> recv_delta dev rs x = 0.
Proof.
  intros H1 H2 H3. induction rs as [|[a w] r IH]; [reflexivity|].
  cbn [recv_delta]. rewrite IH. unfold delta.
  destruct (acct_eqb x AVest) eqn:E1; [apply acct_eqb_eq in E1; contradiction|].
  destruct a; cbn [target].
  - destruct (acct_eqb x ADistr) eqn:E2; [apply acct_eqb_eq in E2; contradiction|lia].
  - destruct (acct_eqb x (ARecv i)) eqn:E2; [apply acct_eqb_eq in E2; exfalso; eapply H3; eassumption|lia].
  - lia.
Qed.

(* the rounding remainder of the per-receiver truncation *)
Lemma paid_total_bounds dev rs :
  0 <= dev -> Forall (fun aw => 0 <= snd aw) rs ->
  paid_total dev rs * P18 <= dev * sum_weights rs /\
  dev * sum_weights rs - paid_total dev rs * P18 <= Z.of_nat (length rs) * (P18 - 1).
Proof.
  intros Hd H. pose proof P18_pos as Hp. induction H as [|[a w] r Hw Hr IH].
  - cbn. lia.
  - cbn [paid_total sum_weights length snd] in *. rewrite Nat2Z.inj_succ.
    unfold share.
    pose proof (Z.mul_div_le (dev * w) P18 Hp).
    pose proof (Z.mul_succ_div_gt (dev * w) P18 Hp).
    nia.
Qed.

Lemma remainder_bounds dev rs :
  0 <= dev -> rs <> [] -> Forall (fun aw => 0 <= snd aw) rs -> sum_weights rs = P18 ->
  0 <= dev - paid_total dev rs < Z.of_nat (length rs).
Proof.
  intros Hd Hne Hw Hs. pose proof P18_pos as Hp.
  destruct (paid_total_bounds dev rs Hd Hw) as [H1 H2]. rewrite Hs in *.
  assert (0 < Z.of_nat (length rs)) by (destruct rs; [contradiction|cbn [length]; lia]).
  nia.
Qed.

(** * Nothing happens before the start epoch or for another epoch identifier *)
Lemma step_before_start cfg s same_id e :
  same_id = false \/ e < p_start cfg -> step cfg s (same_id, e) = (s, 0).
Proof.
  intros H. unfold step, after_epoch_end. cbn [fst snd].
  destruct same_id; cbn [negb].
  - destruct H as [H|H]; [discriminate|]. apply Z.ltb_lt in H. rewrite H. reflexivity.
  - reflexivity.
Qed.
