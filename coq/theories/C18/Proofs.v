(* C18 proofs about the model in Model.v: arithmetic of getProportions, pointwise balance effects of the
   bank operations, and the specification of one successful minting epoch. *)
From Coq Require Import ZArith List Bool Lia Arith.
Import ListNotations.
From Osmo Require Import Base.DecModel C18.Model.
Open Scope Z_scope.

(** * Decimal arithmetic used by the mint module *)

Lemma P18_pos : 0 < P18.
Proof. unfold P18. apply Z.pow_pos_nonneg; lia. Qed.

Lemma chop_round_nonneg_mul k : 0 <= k -> chop_round_nonneg P18 (k * P18) = k.
Proof.
  intros Hk. unfold chop_round_nonneg. pose proof P18_pos.
  rewrite Z.rem_mul by lia. cbn [Z.eqb]. rewrite Z.quot_mul by lia. reflexivity.
Qed.

Lemma chop_round_mul k : chop_round P18 (k * P18) = k.
Proof.
  unfold chop_round. pose proof P18_pos.
  destruct (k * P18 <? 0) eqn:E.
  - apply Z.ltb_lt in E. assert (k < 0) by nia.
    replace (- (k * P18)) with ((- k) * P18) by ring.
    rewrite chop_round_nonneg_mul by lia. lia.
  - apply Z.ltb_ge in E. assert (0 <= k) by nia.
    apply chop_round_nonneg_mul; assumption.
Qed.

(* the truncated share of an integer amount: Int.ToLegacyDec().Mul(ratio).TruncateInt() *)
Definition share (amount ratio : Z) : Z := (amount * ratio) / P18.

Lemma get_proportions_ok amount ratio :
  0 <= amount -> 0 <= ratio -> ratio <= P18 -> get_proportions amount ratio = Ok (share amount ratio).
Proof.
  intros Ha Hr Hle. unfold get_proportions.
  destruct (P18 <? ratio) eqn:E; [apply Z.ltb_lt in E; lia|].
  f_equal. unfold d_truncate_int, d_mul, d_from_int, share.
  replace (amount * P18 * ratio) with (amount * ratio * P18) by ring.
  rewrite chop_round_mul. apply Z.quot_div_nonneg; [nia|apply P18_pos].
Qed.

Lemma get_proportions_inv amount ratio x :
  0 <= amount -> 0 <= ratio -> get_proportions amount ratio = Ok x -> ratio <= P18 /\ x = share amount ratio.
Proof.
  intros Ha Hr H. unfold get_proportions in H.
  destruct (P18 <? ratio) eqn:E; [discriminate|]. apply Z.ltb_ge in E.
  split; [assumption|].
  pose proof (get_proportions_ok amount ratio Ha Hr E) as H2. unfold get_proportions in H2.
  rewrite (proj2 (Z.ltb_ge _ _) E) in H2. congruence.
Qed.

Lemma share_nonneg a r : 0 <= a -> 0 <= r -> 0 <= share a r.
Proof. intros. unfold share. apply Z.div_pos; [nia|apply P18_pos]. Qed.

Lemma share_le a r : 0 <= a -> 0 <= r -> r <= P18 -> share a r <= a.
Proof.
  intros. unfold share. pose proof P18_pos.
  apply Z.div_le_upper_bound; [lia|]. nia.
Qed.

Lemma share_zero_ratio a : share a 0 = 0.
Proof. unfold share. rewrite Z.mul_0_r. apply Z.div_0_l. pose proof P18_pos; lia. Qed.

(* shares of proportions summing to one: the truncated shares never exceed the amount *)
Lemma shares_le_total a r1 r2 r3 r4 :
  0 <= a -> 0 <= r1 -> 0 <= r2 -> 0 <= r3 -> 0 <= r4 -> r1 + r2 + r3 + r4 = P18 ->
  share a r1 + share a r2 + share a r3 + share a r4 <= a.
Proof.
  intros Ha H1 H2 H3 H4 Hs. unfold share. pose proof P18_pos as Hp.
  pose proof (Z.mul_div_le (a * r1) P18 Hp). pose proof (Z.mul_div_le (a * r2) P18 Hp).
  pose proof (Z.mul_div_le (a * r3) P18 Hp). pose proof (Z.mul_div_le (a * r4) P18 Hp).
  assert (a * r1 + a * r2 + a * r3 + a * r4 = a * P18) by (rewrite <- Hs; ring).
  nia.
Qed.

Lemma chop_round_nonneg_nonneg a : 0 <= a -> 0 <= chop_round_nonneg P18 a.
Proof.
  intros Ha. unfold chop_round_nonneg. pose proof P18_pos.
  assert (0 <= Z.quot a P18) by (apply Z.quot_pos; lia).
  destruct (Z.rem a P18 =? 0); [assumption|].
  destruct (Z.rem a P18 ?= Z.quot P18 2); try lia.
  destruct (Z.even (Z.quot a P18)); lia.
Qed.

Lemma d_mul_nonneg a b : 0 <= a -> 0 <= b -> 0 <= d_mul a b.
Proof.
  intros. unfold d_mul, chop_round.
  destruct (a * b <? 0) eqn:E; [apply Z.ltb_lt in E; nia|].
  apply chop_round_nonneg_nonneg. nia.
Qed.

Lemma d_truncate_int_nonneg a : 0 <= a -> 0 <= d_truncate_int a.
Proof. intros. unfold d_truncate_int. apply Z.quot_pos; [assumption|pose proof P18_pos; lia]. Qed.

(** * Pointwise effect of the bank operations *)

Definition delta (a x : acct) (amt : Z) : Z := if acct_eqb x a then amt else 0.

Lemma acct_eqb_refl a : acct_eqb a a = true.
Proof. destruct a; cbn; try reflexivity. apply Nat.eqb_refl. Qed.

Lemma acct_eqb_eq a b : acct_eqb a b = true <-> a = b.
Proof.
  split; [|intros ->; apply acct_eqb_refl].
  destruct a, b; cbn; intros H; try discriminate; try reflexivity.
  apply Nat.eqb_eq in H. congruence.
Qed.

Lemma delta_zero a x : delta a x 0 = 0.
Proof. unfold delta. destruct (acct_eqb x a); reflexivity. Qed.

Lemma add_bal_spec a amt f x : add_bal a amt f x = f x + delta a x amt.
Proof. unfold add_bal, delta. destruct (acct_eqb x a); lia. Qed.

(* the parts of the bank that an operation leaves alone *)
Definition same_meta (b b' : bank) : Prop :=
  cpool b' = cpool b /\ supply b' = supply b /\ offset b' = offset b.

Lemma send_spec from to amt b b' :
  send from to amt b = Ok b' ->
  (forall x, bal b' x = bal b x + delta to x amt - delta from x amt) /\ same_meta b b'.
Proof.
  unfold send. destruct (amt =? 0) eqn:E0.
  - apply Z.eqb_eq in E0. subst amt. intros H; inversion H; subst b'.
    split; [intros x; rewrite !delta_zero; lia|repeat split].
  - destruct (bal b from <? amt); [discriminate|]. intros H; inversion H; subst b'; clear H.
    cbn [bal cpool supply offset]. split; [|repeat split].
    intros x. rewrite !add_bal_spec. unfold delta. destruct (acct_eqb x from), (acct_eqb x to); lia.
Qed.

Lemma fund_community_spec from amt b b' :
  fund_community from amt b = Ok b' ->
  (forall x, bal b' x = bal b x + delta ADistr x amt - delta from x amt) /\
  cpool b' = cpool b + amt /\ supply b' = supply b /\ offset b' = offset b.
Proof.
  unfold fund_community, bind. destruct (send from ADistr amt b) as [b1|] eqn:E; [|discriminate].
  intros H; inversion H; subst b'; clear H. cbn [bal cpool supply offset].
  destruct (send_spec _ _ _ _ _ E) as [Hb [Hc [Hs Ho]]]. repeat split; try assumption; lia.
Qed.

Lemma mint_coins_spec amt b :
  (forall x, bal (mint_coins amt b) x = bal b x + delta AMint x amt) /\
  cpool (mint_coins amt b) = cpool b /\ supply (mint_coins amt b) = supply b + amt /\
  offset (mint_coins amt b) = offset b.
Proof.
  unfold mint_coins. destruct (amt =? 0) eqn:E0.
  - apply Z.eqb_eq in E0. subst amt. repeat split; try lia. intros x. rewrite delta_zero. lia.
  - cbn [bal cpool supply offset]. repeat split. intros x. apply add_bal_spec.
Qed.

Lemma burn_coins_spec amt b b' :
  burn_coins amt b = Ok b' ->
  (forall x, bal b' x = bal b x - delta AMint x amt) /\
  cpool b' = cpool b /\ supply b' = supply b - amt /\ offset b' = offset b.
Proof.
  unfold burn_coins. destruct (amt =? 0) eqn:E0.
  - apply Z.eqb_eq in E0. subst amt. intros H; inversion H; subst b'. repeat split; try lia.
    intros x. rewrite delta_zero. lia.
  - destruct (bal b AMint <? amt); [discriminate|]. intros H; inversion H; subst b'; clear H.
    cbn [bal cpool supply offset]. repeat split. intros x. rewrite add_bal_spec. unfold delta.
    destruct (acct_eqb x AMint); lia.
Qed.

(** * The developer-receiver loop *)

(* what the loop moves into account [x], and what it books into the community pool *)
Definition target (a : raddr) : option acct :=
  match a with RAEmpty => Some ADistr | RAAddr i => Some (ARecv i) | RABlocked => None end.

Fixpoint recv_delta (dev : Z) (rs : list (raddr * Z)) (x : acct) : Z :=
  match rs with
  | [] => 0
  | (a, w) :: r =>
      (match target a with Some t => delta t x (share dev w) | None => 0 end)
      - delta AVest x (share dev w) + recv_delta dev r x
  end.

Fixpoint paid_empty (dev : Z) (rs : list (raddr * Z)) : Z :=
  match rs with
  | [] => 0
  | (RAEmpty, w) :: r => share dev w + paid_empty dev r
  | _ :: r => paid_empty dev r
  end.

Fixpoint paid_to (i : nat) (dev : Z) (rs : list (raddr * Z)) : Z :=
  match rs with
  | [] => 0
  | (RAAddr j, w) :: r => (if Nat.eqb i j then share dev w else 0) + paid_to i dev r
  | _ :: r => paid_to i dev r
  end.

Fixpoint paid_total (dev : Z) (rs : list (raddr * Z)) : Z :=
  match rs with
  | [] => 0
  | (_, w) :: r => share dev w + paid_total dev r
  end.

Fixpoint sum_weights (rs : list (raddr * Z)) : Z :=
  match rs with [] => 0 | (_, w) :: r => w + sum_weights r end.

Definition no_blocked (rs : list (raddr * Z)) : Prop := Forall (fun aw => fst aw <> RABlocked) rs.
Definition weights_ok (rs : list (raddr * Z)) : Prop := Forall (fun aw => 0 < snd aw <= P18) rs.

Lemma pay_receivers_spec dev : 0 <= dev -> forall rs b b',
  Forall (fun aw => 0 <= snd aw) rs ->
  pay_receivers dev rs b = Ok b' ->
  (forall x, bal b' x = bal b x + recv_delta dev rs x) /\
  cpool b' = cpool b + paid_empty dev rs /\ supply b' = supply b /\ offset b' = offset b /\
  no_blocked rs /\ Forall (fun aw => snd aw <= P18) rs.
Proof.
  intros Hdev rs. induction rs as [|[a w] r IH]; intros b b' Hw H.
  - cbn in H. inversion H; subst b'. cbn. repeat split; try lia; constructor.
  - cbn [pay_receivers] in H. inversion Hw as [|? ? Hw0 Hwr]; subst. cbn [snd] in Hw0.
    unfold bind in H at 1.
    destruct (get_proportions dev w) as [portion|] eqn:Egp; [|discriminate].
    destruct (get_proportions_inv _ _ _ Hdev Hw0 Egp) as [Hle ->].
    unfold bind in H at 1.
    destruct a.
    + destruct (fund_community AVest (share dev w) b) as [b1|] eqn:E1; [|discriminate].
      destruct (fund_community_spec _ _ _ _ E1) as [Hb [Hc [Hs Ho]]].
      destruct (IH _ _ Hwr H) as [Hb' [Hc' [Hs' [Ho' [Hnb Hle']]]]].
      cbn [recv_delta paid_empty target]. repeat split; try lia.
      * intros x. rewrite Hb', Hb. lia.
      * constructor; [cbn; discriminate|assumption].
      * constructor; assumption.
    + destruct (send AVest (ARecv i) (share dev w) b) as [b1|] eqn:E1; [|discriminate].
      destruct (send_spec _ _ _ _ _ E1) as [Hb [Hc [Hs Ho]]].
      destruct (IH _ _ Hwr H) as [Hb' [Hc' [Hs' [Ho' [Hnb Hle']]]]].
      cbn [recv_delta paid_empty target]. repeat split; try lia.
      * intros x. rewrite Hb', Hb. lia.
      * constructor; [cbn; discriminate|assumption].
      * constructor; assumption.
    + discriminate.
Qed.

Lemma recv_delta_vest dev rs : no_blocked rs -> recv_delta dev rs AVest = - paid_total dev rs.
Proof.
  induction 1 as [|[a w] r Ha Hr IH]; [reflexivity|].
  cbn [recv_delta paid_total]. rewrite IH. cbn in Ha. destruct a; cbn; try lia.
Qed.

Lemma recv_delta_distr dev rs : recv_delta dev rs ADistr = paid_empty dev rs.
Proof.
  induction rs as [|[a w] r IH]; [reflexivity|].
  cbn [recv_delta paid_empty]. rewrite IH. destruct a; cbn; lia.
Qed.

Lemma recv_delta_recv dev rs i : recv_delta dev rs (ARecv i) = paid_to i dev rs.
Proof.
  induction rs as [|[a w] r IH]; [reflexivity|].
  cbn [recv_delta paid_to]. rewrite IH. destruct a; cbn; try lia.
  unfold delta; cbn [acct_eqb]. destruct (Nat.eqb i i0); lia.
Qed.

Lemma recv_delta_other dev rs x :
  x <> AVest -> x <> ADistr -> (forall i, x <> ARecv i) -> recv_delta dev rs x = 0.
Proof.
  intros H1 H2 H3. induction rs as [|[a w] r IH]; [reflexivity|].
  cbn [recv_delta]. rewrite IH. unfold delta.
  destruct (acct_eqb x AVest) eqn:E1; [apply acct_eqb_eq in E1; contradiction|].
  destruct a; cbn [target].
  - destruct (acct_eqb x ADistr) eqn:E2; [apply acct_eqb_eq in E2; contradiction|lia].
  - destruct (acct_eqb x (ARecv i)) eqn:E2; [apply acct_eqb_eq in E2; exfalso; eapply H3; eassumption|lia].
  - lia.
Qed.

(* the rounding remainder of the per-receiver truncation *)
Lemma paid_total_bounds dev rs :
  0 <= dev -> Forall (fun aw => 0 <= snd aw) rs ->
  paid_total dev rs * P18 <= dev * sum_weights rs /\
  dev * sum_weights rs - paid_total dev rs * P18 <= Z.of_nat (length rs) * (P18 - 1).
Proof.
  intros Hd H. pose proof P18_pos as Hp. induction H as [|[a w] r Hw Hr IH].
  - cbn. lia.
  - cbn [paid_total sum_weights length snd] in *. rewrite Nat2Z.inj_succ.
    unfold share.
    pose proof (Z.mul_div_le (dev * w) P18 Hp).
    pose proof (Z.mul_succ_div_gt (dev * w) P18 Hp).
    nia.
Qed.

Lemma remainder_bounds dev rs :
  0 <= dev -> rs <> [] -> Forall (fun aw => 0 <= snd aw) rs -> sum_weights rs = P18 ->
  0 <= dev - paid_total dev rs < Z.of_nat (length rs).
Proof.
  intros Hd Hne Hw Hs. pose proof P18_pos as Hp.
  destruct (paid_total_bounds dev rs Hd Hw) as [H1 H2]. rewrite Hs in *.
  assert (0 < Z.of_nat (length rs)) by (destruct rs; [contradiction|cbn [length]; lia]).
  nia.
Qed.

(** * Nothing happens before the start epoch or for another epoch identifier *)
Lemma step_before_start cfg s same_id e :
  same_id = false \/ e < p_start cfg -> step cfg s (same_id, e) = (s, 0).
Proof.
  intros H. unfold step, after_epoch_end. cbn [fst snd].
  destruct same_id; cbn [negb].
  - destruct H as [H|H]; [discriminate|]. apply Z.ltb_lt in H. rewrite H. reflexivity.
  - reflexivity.
Qed.

(** * distributeDeveloperRewards *)

Definition dev_paid (cfg : config) (dev : Z) : Z :=
  match p_recv cfg with [] => dev | rs => paid_total dev rs end.
Definition dev_to_community (cfg : config) (dev : Z) : Z :=
  match p_recv cfg with [] => dev | rs => paid_empty dev rs end.
Definition dev_delta (cfg : config) (dev : Z) (x : acct) : Z :=
  match p_recv cfg with [] => delta ADistr x dev - delta AVest x dev | rs => recv_delta dev rs x end.

Definition weights_nonneg (cfg : config) : Prop := Forall (fun aw => 0 <= snd aw) (p_recv cfg).

Lemma developer_rewards_spec cfg minted b b' dev :
  0 <= minted -> 0 <= p_dev cfg -> weights_nonneg cfg ->
  distribute_developer_rewards cfg minted b = Ok (b', dev) ->
  dev = share minted (p_dev cfg) /\ p_dev cfg <= P18 /\ dev <= bal b AVest /\
  (forall x, bal b' x = bal b x - delta AMint x dev + dev_delta cfg dev x) /\
  cpool b' = cpool b + dev_to_community cfg dev /\
  supply b' = supply b - dev /\
  offset b' = offset b + bal b AVest - bal b' AVest /\
  no_blocked (p_recv cfg).
Proof.
  intros HM Hpd Hw H. unfold distribute_developer_rewards in H.
  unfold bind in H at 1.
  destruct (get_proportions minted (p_dev cfg)) as [dv|] eqn:Egp; [|discriminate].
  destruct (get_proportions_inv _ _ _ HM Hpd Egp) as [Hle ->].
  set (dv := share minted (p_dev cfg)) in *.
  assert (Hdv : 0 <= dv) by (apply share_nonneg; assumption).
  destruct (bal b AVest <? dv) eqn:Ev; [discriminate|]. apply Z.ltb_ge in Ev.
  unfold bind in H at 1.
  destruct (burn_coins dv b) as [b1|] eqn:Eb; [|discriminate].
  destruct (burn_coins_spec _ _ _ Eb) as [Hb1 [Hc1 [Hs1 Ho1]]].
  unfold bind in H at 1.
  unfold dev_delta, dev_to_community. unfold weights_nonneg in Hw.
  destruct (p_recv cfg) as [|aw r] eqn:Er.
  - destruct (fund_community AVest dv (add_supply_offset (bal b AVest) b1)) as [b3|] eqn:E3; [|discriminate].
    destruct (fund_community_spec _ _ _ _ E3) as [Hb3 [Hc3 [Hs3 Ho3]]].
    cbn [add_supply_offset bal cpool supply offset] in Hb3, Hc3, Hs3, Ho3.
    inversion H; subst b' dev; clear H. cbn [add_supply_offset bal cpool supply offset].
    repeat split; try assumption; try lia; try constructor.
    intros x. rewrite Hb3, Hb1. lia.
  - destruct (pay_receivers dv (aw :: r) (add_supply_offset (bal b AVest) b1)) as [b3|] eqn:E3; [|discriminate].
    destruct (pay_receivers_spec dv Hdv _ _ _ Hw E3) as [Hb3 [Hc3 [Hs3 [Ho3 [Hnb _]]]]].
    cbn [add_supply_offset bal cpool supply offset] in Hb3, Hc3, Hs3, Ho3.
    inversion H; subst b' dev; clear H. cbn [add_supply_offset bal cpool supply offset].
    repeat split; try assumption; try lia.
    intros x. rewrite Hb3, Hb1. lia.
Qed.

(** * DistributeMintedCoin up to the hook *)

Definition dev_of (cfg : config) (M : Z) : Z := share M (p_dev cfg).
Definition comm_of (cfg : config) (M : Z) : Z :=
  M - share M (p_staking cfg) - share M (p_pool cfg) - dev_of cfg M.

Record valid_cfg (cfg : config) : Prop := {
  v_staking : 0 <= p_staking cfg;
  v_pool : 0 <= p_pool cfg;
  v_dev : 0 <= p_dev cfg;
  v_comm : 0 <= p_comm cfg;
  v_sum : p_staking cfg + p_pool cfg + p_dev cfg + p_comm cfg = P18;       (* proportions sum to one *)
  v_factor : 0 <= p_factor cfg <= P18;
  v_period : 0 < p_period cfg;
  v_start : 0 <= p_start cfg;
  v_weights : Forall (fun aw => 0 < snd aw <= P18) (p_recv cfg);
  v_wsum : p_recv cfg = [] \/ sum_weights (p_recv cfg) = P18 }.              (* weights sum to one *)

Lemma valid_weights_nonneg cfg : valid_cfg cfg -> weights_nonneg cfg.
Proof.
  intros V. unfold weights_nonneg. eapply Forall_impl; [|apply (v_weights _ V)]. cbn. intros; lia.
Qed.

Lemma comm_ge_share cfg M : valid_cfg cfg -> 0 <= M -> share M (p_comm cfg) <= comm_of cfg M.
Proof.
  intros V HM. unfold comm_of, dev_of.
  pose proof (shares_le_total M _ _ _ _ HM (v_staking _ V) (v_pool _ V) (v_dev _ V) (v_comm _ V) (v_sum _ V)).
  lia.
Qed.

Lemma comm_nonneg cfg M : valid_cfg cfg -> 0 <= M -> 0 <= comm_of cfg M.
Proof.
  intros V HM. pose proof (comm_ge_share cfg M V HM).
  pose proof (share_nonneg M (p_comm cfg) HM (v_comm _ V)). lia.
Qed.

Lemma distribute_pre_spec cfg M b b' :
  valid_cfg cfg -> 0 <= M ->
  distribute_minted_coin_pre cfg M b = Ok b' ->
  (forall x, bal b' x = bal b x - delta AMint x M + delta AFee x (share M (p_staking cfg))
                        + delta APool x (share M (p_pool cfg)) + dev_delta cfg (dev_of cfg M) x
                        + delta ADistr x (comm_of cfg M)) /\
  cpool b' = cpool b + dev_to_community cfg (dev_of cfg M) + comm_of cfg M /\
  supply b' = supply b - dev_of cfg M /\
  offset b' = offset b + bal b AVest - bal b' AVest /\
  dev_of cfg M <= bal b AVest /\
  no_blocked (p_recv cfg).
Proof.
  intros V HM H. unfold distribute_minted_coin_pre in H.
  pose proof (v_staking _ V) as Hs0. pose proof (v_pool _ V) as Hp0. pose proof (v_dev _ V) as Hd0.
  (* staking *)
  unfold bind in H at 1. unfold distribute_to_module in H at 1. unfold bind in H at 1.
  destruct (get_proportions M (p_staking cfg)) as [st|] eqn:E1; [|discriminate].
  destruct (get_proportions_inv _ _ _ HM Hs0 E1) as [_ ->].
  unfold bind in H at 1.
  destruct (send AMint AFee (share M (p_staking cfg)) b) as [b1|] eqn:S1; [|discriminate].
  destruct (send_spec _ _ _ _ _ S1) as [Hb1 [Hc1 [Hs1 Ho1]]].
  (* pool incentives *)
  unfold bind in H at 1. unfold distribute_to_module in H at 1. unfold bind in H at 1.
  destruct (get_proportions M (p_pool cfg)) as [pl|] eqn:E2; [|discriminate].
  destruct (get_proportions_inv _ _ _ HM Hp0 E2) as [_ ->].
  unfold bind in H at 1.
  destruct (send AMint APool (share M (p_pool cfg)) b1) as [b2|] eqn:S2; [|discriminate].
  destruct (send_spec _ _ _ _ _ S2) as [Hb2 [Hc2 [Hs2 Ho2]]].
  (* developer rewards *)
  unfold bind in H at 1.
  destruct (distribute_developer_rewards cfg M b2) as [[b3 dv]|] eqn:D3; [|discriminate].
  destruct (developer_rewards_spec _ _ _ _ _ HM Hd0 (valid_weights_nonneg _ V) D3)
    as [-> [_ [Hvest [Hb3 [Hc3 [Hs3 [Ho3 Hnb]]]]]]].
  fold (dev_of cfg M) in *. fold (comm_of cfg M) in H.
  destruct (comm_of cfg M <? 0) eqn:Ec; [discriminate|].
  destruct (fund_community_spec _ _ _ _ H) as [Hb4 [Hc4 [Hs4 Ho4]]].
  assert (Hv2 : bal b2 AVest = bal b AVest).
  { rewrite Hb2, Hb1. unfold delta; cbn [acct_eqb]. lia. }
  assert (Hv4 : bal b' AVest = bal b3 AVest).
  { rewrite Hb4. unfold delta; cbn [acct_eqb]. lia. }
  repeat split; try assumption; try lia.
  intros x. rewrite Hb4, Hb3, Hb2, Hb1. unfold comm_of.
  unfold delta. destruct (acct_eqb x AMint), (acct_eqb x AFee), (acct_eqb x APool), (acct_eqb x ADistr); lia.
Qed.

(** * The pool-incentives hook only forwards what the pool-incentives account holds *)

Record hook_rel (b b' : bank) : Prop := {
  hr_other : forall x, x <> APool -> x <> AInc -> x <> ADistr -> bal b' x = bal b x;
  hr_sum : bal b' APool + bal b' AInc + bal b' ADistr = bal b APool + bal b AInc + bal b ADistr;
  hr_cpool : cpool b' - bal b' ADistr = cpool b - bal b ADistr;
  hr_supply : supply b' = supply b;
  hr_offset : offset b' = offset b }.

Lemma hook_rel_refl b : hook_rel b b.
Proof. constructor; intros; reflexivity. Qed.

Lemma hook_rel_trans b1 b2 b3 : hook_rel b1 b2 -> hook_rel b2 b3 -> hook_rel b1 b3.
Proof.
  intros [A1 A2 A3 A4 A5] [B1 B2 B3 B4 B5]. constructor; try lia.
  intros x H1 H2 H3. rewrite B1, A1 by assumption. reflexivity.
Qed.

Lemma neq_delta a x amt : x <> a -> delta a x amt = 0.
Proof.
  intros H. unfold delta. destruct (acct_eqb x a) eqn:E; [apply acct_eqb_eq in E; contradiction|reflexivity].
Qed.

Lemma hook_fund b b' amt : fund_community APool amt b = Ok b' -> hook_rel b b'.
Proof.
  intros H. destruct (fund_community_spec _ _ _ _ H) as [Hb [Hc [Hs Ho]]].
  constructor; try assumption.
  - intros x H1 H2 H3. rewrite Hb, !neq_delta by assumption. lia.
  - rewrite !Hb. unfold delta; cbn [acct_eqb]. lia.
  - rewrite Hb, Hc. unfold delta; cbn [acct_eqb]. lia.
Qed.

Lemma hook_send b b' amt : send APool AInc amt b = Ok b' -> hook_rel b b'.
Proof.
  intros H. destruct (send_spec _ _ _ _ _ H) as [Hb [Hc [Hs Ho]]].
  constructor; try assumption.
  - intros x H1 H2 H3. rewrite Hb, !neq_delta by assumption. lia.
  - rewrite !Hb. unfold delta; cbn [acct_eqb]. lia.
  - rewrite Hb, Hc. unfold delta; cbn [acct_eqb]. lia.
Qed.

Lemma allocate_records_rel asset total rs : forall b b',
  allocate_records asset total rs b = Ok b' -> hook_rel b b'.
Proof.
  induction rs as [|[g w] r IH]; intros b b' H; cbn [allocate_records] in H.
  - inversion H. apply hook_rel_refl.
  - destruct (alloc_amount asset w total <=? 0); [apply IH; assumption|].
    unfold bind in H.
    destruct (g =? 0).
    + destruct (fund_community APool (alloc_amount asset w total) b) as [b1|] eqn:E; [|discriminate].
      eapply hook_rel_trans; [eapply hook_fund; eassumption|apply IH; assumption].
    + destruct (send APool AInc (alloc_amount asset w total) b) as [b1|] eqn:E; [|discriminate].
      eapply hook_rel_trans; [eapply hook_send; eassumption|apply IH; assumption].
Qed.

Lemma hook_spec cfg b b' : after_distribute_hook cfg b = Ok b' -> hook_rel b b'.
Proof.
  unfold after_distribute_hook, allocate_asset.
  destruct (bal b APool =? 0); [intros H; inversion H; apply hook_rel_refl|].
  destruct (d_total cfg =? 0).
  - destruct (fund_community APool (bal b APool) b) as [b1|] eqn:E; [|discriminate].
    intros H; inversion H; subst. eapply hook_fund; eassumption.
  - destruct (allocate_records (bal b APool) (d_total cfg) (d_records cfg) b) as [b1|] eqn:E; [|discriminate].
    intros H; inversion H; subst. eapply allocate_records_rel; eassumption.
Qed.

(** * One successful minting epoch *)

Lemma dev_delta_other cfg dev x :
  x <> AVest -> x <> ADistr -> (forall i, x <> ARecv i) -> dev_delta cfg dev x = 0.
Proof.
  intros H1 H2 H3. unfold dev_delta. destruct (p_recv cfg).
  - rewrite !neq_delta by assumption. lia.
  - apply recv_delta_other; assumption.
Qed.

Lemma dev_delta_recv cfg dev i : dev_delta cfg dev (ARecv i) = paid_to i dev (p_recv cfg).
Proof.
  unfold dev_delta. destruct (p_recv cfg) eqn:E; [reflexivity|]. apply recv_delta_recv.
Qed.

Lemma dev_delta_vest cfg dev : no_blocked (p_recv cfg) -> dev_delta cfg dev AVest = - dev_paid cfg dev.
Proof.
  intros H. unfold dev_delta, dev_paid. destruct (p_recv cfg) eqn:E.
  - unfold delta; cbn [acct_eqb]. lia.
  - apply recv_delta_vest; assumption.
Qed.

Lemma dev_delta_distr cfg dev : dev_delta cfg dev ADistr = dev_to_community cfg dev.
Proof.
  unfold dev_delta, dev_to_community. destruct (p_recv cfg) eqn:E.
  - unfold delta; cbn [acct_eqb]. lia.
  - apply recv_delta_distr.
Qed.

(* the rounding remainder r of the developer payout *)
Definition dev_remainder (cfg : config) (M : Z) : Z := dev_of cfg M - dev_paid cfg (dev_of cfg M).

Lemma dev_remainder_bounds cfg M :
  valid_cfg cfg -> 0 <= M ->
  0 <= dev_remainder cfg M /\
  (p_recv cfg = [] -> dev_remainder cfg M = 0) /\
  (p_recv cfg <> [] -> dev_remainder cfg M < Z.of_nat (length (p_recv cfg))).
Proof.
  intros V HM. unfold dev_remainder, dev_paid.
  assert (Hd : 0 <= dev_of cfg M) by (apply share_nonneg; [assumption|apply (v_dev _ V)]).
  pose proof (valid_weights_nonneg _ V) as Hw. unfold weights_nonneg in Hw.
  destruct (v_wsum _ V) as [He|Hs].
  - rewrite He. repeat split; try lia. intros; congruence.
  - destruct (p_recv cfg) as [|aw r] eqn:E.
    + repeat split; try lia. intros; congruence.
    + assert (Hne : aw :: r <> []) by discriminate.
      pose proof (remainder_bounds _ _ Hd Hne Hw Hs). repeat split; try lia. intros; discriminate.
Qed.

(* [b]: bank before the call, [b1]: when DistributeMintedCoin reaches its hook, [b']: after the call *)
Record minted_epoch (cfg : config) (M : Z) (b b1 b' : bank) : Prop := {
  (* the split, as it stands when the pool-incentives hook is called *)
  me_staking : bal b1 AFee = bal b AFee + share M (p_staking cfg);
  me_pool : bal b1 APool = bal b APool + share M (p_pool cfg);
  me_recv : forall i, bal b1 (ARecv i) = bal b (ARecv i) + paid_to i (dev_of cfg M) (p_recv cfg);
  me_vest : bal b1 AVest = bal b AVest - dev_paid cfg (dev_of cfg M);
  me_distr : bal b1 ADistr = bal b ADistr + comm_of cfg M + dev_to_community cfg (dev_of cfg M);
  me_cpool : cpool b1 = cpool b + comm_of cfg M + dev_to_community cfg (dev_of cfg M);
  me_comm_ge : share M (p_comm cfg) <= comm_of cfg M;
  me_mint : bal b1 AMint = bal b AMint;
  me_inc : bal b1 AInc = bal b AInc;
  me_supply : supply b1 = supply b + M - dev_of cfg M;
  me_reported : supply b1 + offset b1 = supply b + offset b + M - dev_remainder cfg M;
  me_vest_enough : dev_of cfg M <= bal b AVest;
  me_no_blocked : no_blocked (p_recv cfg);
  (* the hook forwards pool-incentives funds to gauges / the community pool and touches nothing else *)
  me_hook : hook_rel b1 b' }.

Lemma next_prov_nonneg cfg s e : valid_cfg cfg -> 0 <= s_prov s -> 0 <= next_prov cfg s e.
Proof.
  intros V Hp. unfold next_prov. destruct (reduces cfg s e); [|assumption].
  apply d_mul_nonneg; [assumption|apply (v_factor _ V)].
Qed.

Lemma minted_at_nonneg cfg s e : valid_cfg cfg -> 0 <= s_prov s -> 0 <= minted_at cfg s e.
Proof. intros. unfold minted_at. apply d_truncate_int_nonneg, next_prov_nonneg; assumption. Qed.

Lemma mint_epoch_spec cfg s e s' :
  valid_cfg cfg -> 0 <= s_prov s -> p_start cfg <= e ->
  after_epoch_end cfg s true e = Ok s' ->
  s_prov s' = next_prov cfg s e /\ s_last s' = next_last cfg s e /\
  exists b1, minted_epoch cfg (minted_at cfg s e) (s_bank s) b1 (s_bank s').
Proof.
  intros V Hp He H. unfold after_epoch_end in H. cbn [negb] in H.
  destruct (e <? p_start cfg) eqn:E; [apply Z.ltb_lt in E; lia|]. clear E.
  pose proof (minted_at_nonneg cfg s e V Hp) as HM.
  set (M := minted_at cfg s e) in *.
  unfold bind in H at 1. unfold distribute_minted_coin in H. unfold bind in H at 1.
  destruct (distribute_minted_coin_pre cfg M (mint_coins M (s_bank s))) as [b1|] eqn:Epre; [|discriminate].
  destruct (after_distribute_hook cfg b1) as [b2|] eqn:Eh; [|discriminate].
  inversion H; subst s'; clear H. cbn [s_bank s_prov s_last].
  split; [reflexivity|]. split; [reflexivity|]. exists b1.
  destruct (distribute_pre_spec _ _ _ _ V HM Epre) as [Hb [Hc [Hs [Ho [Hv Hnb]]]]].
  destruct (mint_coins_spec M (s_bank s)) as [Hmb [Hmc [Hms Hmo]]].
  rewrite Hmc in Hc. rewrite Hms in Hs. rewrite Hmo in Ho.
  assert (Hvm : bal (mint_coins M (s_bank s)) AVest = bal (s_bank s) AVest).
  { rewrite Hmb. unfold delta; cbn [acct_eqb]. lia. }
  rewrite Hvm in Ho, Hv.
  assert (HB : forall x, bal b1 x = bal (s_bank s) x + delta AFee x (share M (p_staking cfg))
                        + delta APool x (share M (p_pool cfg)) + dev_delta cfg (dev_of cfg M) x
                        + delta ADistr x (comm_of cfg M)).
  { intros x. rewrite Hb, Hmb. lia. }
  assert (Hvest : bal b1 AVest = bal (s_bank s) AVest - dev_paid cfg (dev_of cfg M)).
  { rewrite HB, dev_delta_vest by assumption. unfold delta; cbn [acct_eqb]. lia. }
  constructor; try assumption.
  - rewrite HB, dev_delta_other by (try discriminate; intros; discriminate). unfold delta; cbn [acct_eqb]. lia.
  - rewrite HB, dev_delta_other by (try discriminate; intros; discriminate). unfold delta; cbn [acct_eqb]. lia.
  - intros i. rewrite HB, dev_delta_recv. unfold delta; cbn [acct_eqb]. lia.
  - rewrite HB, dev_delta_distr. unfold delta; cbn [acct_eqb]. lia.
  - lia.
  - apply comm_ge_share; assumption.
  - rewrite HB, dev_delta_other by (try discriminate; intros; discriminate). unfold delta; cbn [acct_eqb]. lia.
  - rewrite HB, dev_delta_other by (try discriminate; intros; discriminate). unfold delta; cbn [acct_eqb]. lia.
  - unfold dev_remainder. lia.
  - apply (hook_spec cfg); assumption.
Qed.

(** * A boolean validity check (Params.Validate), for concrete configurations *)
Definition valid_cfgb (cfg : config) : bool :=
  (0 <=? p_staking cfg) && (0 <=? p_pool cfg) && (0 <=? p_dev cfg) && (0 <=? p_comm cfg) &&
  (p_staking cfg + p_pool cfg + p_dev cfg + p_comm cfg =? P18) &&
  (0 <=? p_factor cfg) && (p_factor cfg <=? P18) && (0 <? p_period cfg) && (0 <=? p_start cfg) &&
  forallb (fun aw => (0 <? snd aw) && (snd aw <=? P18)) (p_recv cfg) &&
  (match p_recv cfg with [] => true | rs => sum_weights rs =? P18 end).

Lemma valid_cfgb_sound cfg : valid_cfgb cfg = true -> valid_cfg cfg.
Proof.
  unfold valid_cfgb. rewrite !andb_true_iff.
  intros [[[[[[[[[[H1 H2] H3] H4] H5] H6] H7] H8] H9] H10] H11].
  apply Z.leb_le in H1, H2, H3, H4, H6, H7, H9. apply Z.eqb_eq in H5. apply Z.ltb_lt in H8.
  constructor; try lia.
  - apply Forall_forall. intros aw Hin. rewrite forallb_forall in H10. specialize (H10 aw Hin).
    apply andb_true_iff in H10. destruct H10 as [A B]. apply Z.ltb_lt in A. apply Z.leb_le in B. lia.
  - destruct (p_recv cfg); [left; reflexivity|right]. apply Z.eqb_eq in H11. exact H11.
Qed.
