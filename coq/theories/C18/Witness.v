(* C18 concrete witnesses: the F3 counterexample to "reported supply grows by exactly the minted amount" and
   non-vacuity instances, all evaluated by vm_compute on the model (only ground Z / bool / list Z results are
   computed, never the balance functions themselves). *)
From Coq Require Import ZArith List Bool.
Import ListNotations.
From Osmo Require Import Base.DecModel C18.Model C18.Proofs C18.ProofsRun.
Open Scope Z_scope.

(* default proportions 0.4/0.3/0.2/0.1, three receivers with weights .333333333333333333 / .333333333333333333 /
   .333333333333333334, provisions 1000003.7 *)
Definition w_cfg : config :=
  mkConfig 400000000000000000 300000000000000000 200000000000000000 100000000000000000
           500000000000000000 156 0
           [(RAAddr 0, 333333333333333333); (RAAddr 1, 333333333333333333); (RAAddr 2, 333333333333333334)]
           [] 0.
Definition w_state : state :=
  mkState (mkBank (fun a => match a with AVest => 225000000000000 | _ => 0 end) 0 225000000000000 (-225000000000000))
          1000003700000000000000000 0.

Lemma w_cfg_valid : valid_cfg w_cfg.
Proof. apply valid_cfgb_sound. vm_compute. reflexivity. Qed.

Lemma w_prov : 0 <= s_prov w_state.
Proof. vm_compute. discriminate. Qed.

Lemma w_mints : mints w_cfg w_state (true, 1) = true.
Proof. vm_compute. reflexivity. Qed.

Lemma w_reported_after : reported (fst (step w_cfg w_state (true, 1))) = 1000001.
Proof. vm_compute. reflexivity. Qed.

Lemma w_reported_expected : reported w_state + minted_at w_cfg w_state 1 = 1000003.
Proof. vm_compute. reflexivity. Qed.

(* the observable numbers of the witness epoch *)
Definition probe (r : result state) : list Z :=
  match r with
  | Ok s' => [bal (s_bank s') AFee; bal (s_bank s') (ARecv 0); bal (s_bank s') (ARecv 1); bal (s_bank s') (ARecv 2);
              cpool (s_bank s'); bal (s_bank s') ADistr; bal (s_bank s') AMint; bal (s_bank s') AVest;
              supply (s_bank s'); offset (s_bank s')]
  | Err _ => []
  end.

Lemma w_probe : probe (after_epoch_end w_cfg w_state true 1) =
  [400001; 66666; 66666; 66666; 400002; 400002; 0; 224999999800002; 225000000800003; -224999999800002].
Proof. vm_compute. reflexivity. Qed.

Lemma w_epoch :
  valid_cfg w_cfg /\ 0 <= s_prov w_state /\ p_start w_cfg <= 1 /\
  (exists s', after_epoch_end w_cfg w_state true 1 = Ok s' /\
     bal (s_bank s') AFee = 400001 /\ bal (s_bank s') (ARecv 2) = 66666 /\ cpool (s_bank s') = 400002 /\
     bal (s_bank s') AMint = 0 /\ supply (s_bank s') = 225000000800003) /\
  minted_at w_cfg w_state 1 = 1000003 /\ dev_remainder w_cfg 1000003 = 2.
Proof.
  split; [exact w_cfg_valid|]. split; [exact w_prov|]. split; [vm_compute; discriminate|].
  split; [|split; vm_compute; reflexivity].
  pose proof w_probe as H.
  destruct (after_epoch_end w_cfg w_state true 1) as [s'|]; [|discriminate H].
  exists s'. split; [reflexivity|]. cbn [probe] in H. inversion H. repeat split; reflexivity.
Qed.

(* a schedule that really reduces: start 2, period 3, factor 0.666666666666666667, two receivers (one the empty
   address), two pool-incentives records (community pool and a gauge); 12 consecutive epochs from epoch 1 *)
Definition nv_cfg : config :=
  mkConfig 250000000000000000 450000000000000000 250000000000000000 50000000000000000
           666666666666666667 3 2
           [(RAEmpty, 500000000000000000); (RAAddr 0, 500000000000000000)]
           [(0, 1); (7, 2)] 3.
Definition nv_state : state :=
  mkState (mkBank (fun a => match a with AVest => 225000000000000 | _ => 0 end) 0 225000000000000 (-225000000000000))
          821917808219178082191780 0.

Lemma nv_cfg_valid : valid_cfg nv_cfg.
Proof. apply valid_cfgb_sound. vm_compute. reflexivity. Qed.

Fixpoint all_okb (cfg : config) (s : state) (calls : list (bool * Z)) : bool :=
  match calls with
  | [] => true
  | c :: r => (snd (step cfg s c) =? 0) && all_okb cfg (fst (step cfg s c)) r
  end.

Lemma all_okb_sound cfg calls : forall s, all_okb cfg s calls = true -> all_ok cfg s calls.
Proof.
  induction calls as [|c r IH]; intros s H; cbn [all_ok all_okb] in *; [exact I|].
  apply andb_prop in H. destruct H as [H1 H2]. split; [apply Z.eqb_eq; exact H1|apply IH; exact H2].
Qed.

Lemma nv_schedule :
  valid_cfg nv_cfg /\ 1 <= p_start nv_cfg /\ all_ok nv_cfg nv_state (consec 1 12) /\
  map (fun n => reduces nv_cfg (run nv_cfg nv_state (consec 1 n)) (1 + Z.of_nat n)) (seq 0 12)
    = [false; false; false; false; true; false; false; true; false; false; true; false] /\
  s_prov (run nv_cfg nv_state (consec 1 12)) = 243531202435312024718417 /\
  s_last (run nv_cfg nv_state (consec 1 12)) = 11.
Proof.
  split; [exact nv_cfg_valid|]. split; [vm_compute; discriminate|].
  split; [apply all_okb_sound; vm_compute; reflexivity|].
  split; [vm_compute; reflexivity|]. split; vm_compute; reflexivity.
Qed.

(* the default-chain shape: start epoch 0, marker 0 from genesis, first epoch number 1; period 2, factor 1/2, no receivers *)
Definition nv0_cfg : config :=
  mkConfig 400000000000000000 300000000000000000 200000000000000000 100000000000000000
           500000000000000000 2 0 [] [] 0.

Lemma nv0_schedule :
  valid_cfg nv0_cfg /\ history_start_ok nv0_cfg w_state 1 /\ ~ 1 <= p_start nv0_cfg /\
  all_ok nv0_cfg w_state (consec 1 6) /\
  map (fun n => reduces nv0_cfg (run nv0_cfg w_state (consec 1 n)) (1 + Z.of_nat n)) (seq 0 6)
    = [false; true; false; true; false; true] /\
  s_prov (run nv0_cfg w_state (consec 1 6)) = 125000462500000000000000.
Proof.
  split; [apply valid_cfgb_sound; vm_compute; reflexivity|].
  split; [right; vm_compute; repeat split; discriminate|].
  split; [vm_compute; intros H; apply H; reflexivity|].
  split; [apply all_okb_sound; vm_compute; reflexivity|].
  split; vm_compute; reflexivity.
Qed.
