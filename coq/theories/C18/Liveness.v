(* C18: when does a mint epoch end succeed?  With a valid configuration, non-negative mint / pool-incentives
   balances, receivers that can be credited, a vesting balance covering the developer share and a
   pool-incentives hook whose allocations fit into what the module holds, AfterEpochEnd cannot fail: the
   integer part of the provision *is* put into circulation.  The last hypothesis cannot be dropped (finding F9). *)
From Coq Require Import ZArith List Bool Lia Arith.
Import ListNotations.
From Osmo Require Import Base.DecModel C18.Model C18.Proofs C18.ProofsRun.
Open Scope Z_scope.

Lemma send_ok from to amt b : amt = 0 \/ amt <= bal b from -> exists b', send from to amt b = Ok b'.
Proof.
  intros H. unfold send. destruct (amt =? 0) eqn:E0; [eexists; reflexivity|].
  apply Z.eqb_neq in E0. destruct H as [H|H]; [contradiction|].
  rewrite (proj2 (Z.ltb_ge _ _) H). eexists; reflexivity.
Qed.

Lemma fund_community_ok from amt b : amt = 0 \/ amt <= bal b from -> exists b', fund_community from amt b = Ok b'.
Proof.
  intros H. unfold fund_community. destruct (send_ok from ADistr amt b H) as [b1 ->]. cbn [bind]. eexists; reflexivity.
Qed.

Lemma burn_ok amt b : amt = 0 \/ amt <= bal b AMint -> exists b', burn_coins amt b = Ok b'.
Proof.
  intros H. unfold burn_coins. destruct (amt =? 0) eqn:E0; [eexists; reflexivity|].
  apply Z.eqb_neq in E0. destruct H as [H|H]; [contradiction|].
  rewrite (proj2 (Z.ltb_ge _ _) H). eexists; reflexivity.
Qed.

Lemma paid_total_nonneg dev rs : 0 <= dev -> Forall (fun aw => 0 <= snd aw) rs -> 0 <= paid_total dev rs.
Proof.
  intros Hd H. induction H as [|[a w] r Hw Hr IH]; cbn [paid_total]; [lia|].
  cbn in Hw. pose proof (share_nonneg dev w Hd Hw). lia.
Qed.

Lemma pay_receivers_ok dev : 0 <= dev -> forall rs b,
  Forall (fun aw => 0 <= snd aw <= P18) rs -> no_blocked rs ->
  paid_total dev rs <= bal b AVest ->
  exists b', pay_receivers dev rs b = Ok b'.
Proof.
  intros Hd rs. induction rs as [|[a w] r IH]; intros b Hw Hnb Hbal.
  - eexists; reflexivity.
  - inversion Hw as [|? ? Hw0 Hwr]; subst. inversion Hnb as [|? ? Hb0 Hbr]; subst. cbn [fst snd] in *.
    cbn [pay_receivers paid_total] in *.
    rewrite (get_proportions_ok dev w Hd) by lia. cbn [bind].
    assert (Hs : 0 <= share dev w) by (apply share_nonneg; lia).
    assert (Hr : 0 <= paid_total dev r).
    { apply paid_total_nonneg; [assumption|]. eapply Forall_impl; [|exact Hwr]. cbn; intros; lia. }
    destruct a.
    + destruct (fund_community_ok AVest (share dev w) b ltac:(right; lia)) as [b1 E1]. rewrite E1. cbn [bind].
      destruct (fund_community_spec _ _ _ _ E1) as [Hb1 _].
      apply IH; try assumption. rewrite Hb1. unfold delta; cbn [acct_eqb]. lia.
    + destruct (send_ok AVest (ARecv i) (share dev w) b ltac:(right; lia)) as [b1 E1]. rewrite E1. cbn [bind].
      destruct (send_spec _ _ _ _ _ E1) as [Hb1 _].
      apply IH; try assumption. rewrite Hb1. unfold delta; cbn [acct_eqb]. lia.
    + contradiction.
Qed.

(* what AllocateAsset tries to take out of the pool-incentives account *)
Fixpoint alloc_sum (asset total : Z) (rs : list (Z * Z)) : Z :=
  match rs with
  | [] => 0
  | (_, w) :: r => Z.max 0 (alloc_amount asset w total) + alloc_sum asset total r
  end.

Lemma alloc_sum_nonneg asset total rs : 0 <= alloc_sum asset total rs.
Proof. induction rs as [|[g w] r IH]; cbn [alloc_sum]; lia. Qed.

Lemma allocate_records_ok asset total rs : forall b,
  alloc_sum asset total rs <= bal b APool -> exists b', allocate_records asset total rs b = Ok b'.
Proof.
  induction rs as [|[g w] r IH]; intros b H; cbn [allocate_records alloc_sum] in *.
  - eexists; reflexivity.
  - pose proof (alloc_sum_nonneg asset total r) as Hn.
    destruct (alloc_amount asset w total <=? 0) eqn:E.
    + apply IH. apply Z.leb_le in E. lia.
    + apply Z.leb_gt in E. rewrite Z.max_r in H by lia. destruct (g =? 0).
      * destruct (fund_community_ok APool (alloc_amount asset w total) b ltac:(right; lia)) as [b1 E1]. rewrite E1. cbn [bind].
        destruct (fund_community_spec _ _ _ _ E1) as [Hb1 _]. apply IH. rewrite Hb1. unfold delta; cbn [acct_eqb]. lia.
      * destruct (send_ok APool AInc (alloc_amount asset w total) b ltac:(right; lia)) as [b1 E1]. rewrite E1. cbn [bind].
        destruct (send_spec _ _ _ _ _ E1) as [Hb1 _]. apply IH. rewrite Hb1. unfold delta; cbn [acct_eqb]. lia.
Qed.

(* the hook's allocations fit into the asset it distributes *)
Definition hook_fits (cfg : config) (asset : Z) : Prop :=
  asset = 0 \/ d_total cfg = 0 \/ alloc_sum asset (d_total cfg) (d_records cfg) <= asset.

Lemma hook_ok cfg b : hook_fits cfg (bal b APool) -> exists b', after_distribute_hook cfg b = Ok b'.
Proof.
  intros H. unfold after_distribute_hook, allocate_asset.
  destruct (bal b APool =? 0) eqn:E0; [eexists; reflexivity|]. apply Z.eqb_neq in E0.
  destruct (d_total cfg =? 0) eqn:Et.
  - destruct (fund_community_ok APool (bal b APool) b ltac:(right; lia)) as [b1 ->]. eexists; reflexivity.
  - apply Z.eqb_neq in Et. destruct H as [H|[H|H]]; try contradiction.
    destruct (allocate_records_ok _ _ _ b H) as [b1 ->]. eexists; reflexivity.
Qed.

(* a single record whose weight is the total weight receives the whole asset *)
Lemma alloc_amount_all asset w : 0 <= asset -> 0 < w -> alloc_amount asset w w = asset.
Proof.
  intros Ha Hw. unfold alloc_amount, d_quo, d_from_int, d_truncate_int, d_mul. pose proof P18_pos as Hp.
  replace (w * P18 * (P18 * P18)) with (P18 * P18 * (w * P18)) by ring.
  rewrite Z.quot_mul by nia. rewrite !chop_round_mul. apply Z.quot_mul. lia.
Qed.

Lemma single_record_fits cfg g w asset :
  d_records cfg = [(g, w)] -> d_total cfg = w -> 0 < w -> 0 <= asset -> hook_fits cfg asset.
Proof.
  intros Hr Ht Hw Ha. right; right. rewrite Hr, Ht. cbn [alloc_sum]. rewrite alloc_amount_all by assumption. lia.
Qed.

Lemma no_records_fits cfg asset : d_total cfg = 0 -> hook_fits cfg asset.
Proof. intros H. right; left; exact H. Qed.

Lemma weights_in_range cfg : valid_cfg cfg -> Forall (fun aw => 0 <= snd aw <= P18) (p_recv cfg).
Proof. intros V. eapply Forall_impl; [|apply (v_weights _ V)]. cbn; intros; lia. Qed.

Lemma dev_paid_le cfg dev : valid_cfg cfg -> 0 <= dev -> dev_paid cfg dev <= dev.
Proof.
  intros V Hd. unfold dev_paid. destruct (p_recv cfg) as [|aw r] eqn:E; [lia|].
  pose proof (valid_weights_nonneg _ V) as Hw. unfold weights_nonneg in Hw. rewrite E in Hw.
  destruct (v_wsum _ V) as [He|Hs]; [congruence|]. rewrite E in Hs.
  assert (Hne : aw :: r <> []) by discriminate.
  pose proof (remainder_bounds dev _ Hd Hne Hw Hs). lia.
Qed.

Theorem no_spurious_failure cfg s e :
  valid_cfg cfg -> 0 <= s_prov s -> p_start cfg <= e ->
  let M := minted_at cfg s e in
  let b := s_bank s in
  0 <= bal b AMint -> 0 <= bal b APool ->
  no_blocked (p_recv cfg) ->
  dev_of cfg M <= bal b AVest ->
  hook_fits cfg (bal b APool + share M (p_pool cfg)) ->
  exists s', after_epoch_end cfg s true e = Ok s'.
Proof.
  intros V Hp He M b Hm0 Hpool0 Hnb Hvest Hfit.
  pose proof (minted_at_nonneg cfg s e V Hp) as HM. fold M in HM.
  pose proof (v_staking _ V) as Hs0. pose proof (v_pool _ V) as Hp0. pose proof (v_dev _ V) as Hd0. pose proof (v_comm _ V) as Hc0.
  pose proof (v_sum _ V) as Hsum.
  pose proof (shares_le_total M _ _ _ _ HM Hs0 Hp0 Hd0 Hc0 Hsum) as Hle.
  pose proof (share_nonneg M _ HM Hs0) as Hs1. pose proof (share_nonneg M _ HM Hp0) as Hp1.
  pose proof (share_nonneg M _ HM Hd0) as Hd1. pose proof (share_nonneg M _ HM Hc0) as Hc1.
  pose proof (comm_nonneg cfg M V HM) as Hcomm. unfold comm_of, dev_of in *.
  unfold after_epoch_end. cbn [negb]. rewrite (proj2 (Z.ltb_ge _ _) He). fold M. fold b.
  destruct (mint_coins_spec M b) as [Hmb [Hmc [Hms Hmo]]].
  set (b0 := mint_coins M b) in *.
  unfold distribute_minted_coin, distribute_minted_coin_pre.
  (* staking *)
  unfold distribute_to_module at 1. rewrite (get_proportions_ok M (p_staking cfg)) by lia. cbn [bind].
  destruct (send_ok AMint AFee (share M (p_staking cfg)) b0) as [b1 E1].
  { right. rewrite Hmb. unfold delta; cbn [acct_eqb]. lia. }
  rewrite E1. cbn [bind]. destruct (send_spec _ _ _ _ _ E1) as [Hb1 _].
  (* pool incentives *)
  unfold distribute_to_module at 1. rewrite (get_proportions_ok M (p_pool cfg)) by lia. cbn [bind].
  destruct (send_ok AMint APool (share M (p_pool cfg)) b1) as [b2 E2].
  { right. rewrite Hb1, Hmb. unfold delta; cbn [acct_eqb]. lia. }
  rewrite E2. cbn [bind]. destruct (send_spec _ _ _ _ _ E2) as [Hb2 _].
  (* developer rewards *)
  assert (Hv2 : bal b2 AVest = bal b AVest).
  { rewrite Hb2, Hb1, Hmb. unfold delta; cbn [acct_eqb]. lia. }
  assert (Hm2 : bal b2 AMint = bal b AMint + M - share M (p_staking cfg) - share M (p_pool cfg)).
  { rewrite Hb2, Hb1, Hmb. unfold delta; cbn [acct_eqb]. lia. }
  assert (Hdev : exists b3, distribute_developer_rewards cfg M b2 = Ok (b3, share M (p_dev cfg))).
  { unfold distribute_developer_rewards. rewrite (get_proportions_ok M (p_dev cfg)) by lia. cbn [bind].
    rewrite Hv2. rewrite (proj2 (Z.ltb_ge _ _) Hvest).
    destruct (burn_ok (share M (p_dev cfg)) b2 ltac:(right; lia)) as [b21 Eb]. rewrite Eb. cbn [bind].
    destruct (burn_coins_spec _ _ _ Eb) as [Hb21 _].
    assert (Hv21 : bal (add_supply_offset (bal b AVest) b21) AVest = bal b AVest).
    { cbn [add_supply_offset bal]. rewrite Hb21, Hv2. unfold delta; cbn [acct_eqb]. lia. }
    destruct (p_recv cfg) as [|aw r] eqn:Er.
    - destruct (fund_community_ok AVest (share M (p_dev cfg)) (add_supply_offset (bal b AVest) b21)) as [b3 E3];
        [right; rewrite Hv21; lia|]. rewrite E3. cbn [bind]. eexists; reflexivity.
    - destruct (pay_receivers_ok (share M (p_dev cfg)) Hd1 (aw :: r) (add_supply_offset (bal b AVest) b21)) as [b3 E3].
      + rewrite <- Er. apply weights_in_range; assumption.
      + exact Hnb.
      + rewrite Hv21. pose proof (dev_paid_le cfg _ V Hd1) as Hle2. unfold dev_paid in Hle2. rewrite Er in Hle2. lia.
      + rewrite E3. cbn [bind]. eexists; reflexivity. }
  destruct Hdev as [b3 E3]. rewrite E3. cbn [bind].
  destruct (developer_rewards_spec _ _ _ _ _ HM Hd0 (valid_weights_nonneg _ V) E3) as [_ [_ [_ [Hb3 _]]]].
  rewrite (proj2 (Z.ltb_ge _ _) Hcomm).
  assert (Hm3 : bal b3 AMint = bal b AMint + M - share M (p_staking cfg) - share M (p_pool cfg) - share M (p_dev cfg)).
  { rewrite Hb3, Hm2, dev_delta_other by (try discriminate; intros; discriminate). unfold delta; cbn [acct_eqb]. lia. }
  destruct (fund_community_ok AMint (M - share M (p_staking cfg) - share M (p_pool cfg) - share M (p_dev cfg)) b3) as [b4 E4];
    [right; lia|]. rewrite E4. cbn [bind].
  destruct (fund_community_spec _ _ _ _ E4) as [Hb4 _].
  (* the hook *)
  assert (Hp4 : bal b4 APool = bal b APool + share M (p_pool cfg)).
  { rewrite Hb4, Hb3, Hb2, Hb1, Hmb, dev_delta_other by (try discriminate; intros; discriminate).
    unfold delta; cbn [acct_eqb]. lia. }
  destruct (hook_ok cfg b4) as [b5 E5]; [rewrite Hp4; exact Hfit|].
  rewrite E5. eexists; reflexivity.
Qed.

(* finding F9: the hook hypothesis cannot be dropped.  Provisions 10^19, pool proportion 0.48, three records with
   weights 535 / 2 / 3: each ratio weight/540 rounds up at 18 decimals, the three allocations add up to more than the
   module holds and the hook panics although the vesting balance is ample *)
Definition f9_cfg : config :=
  mkConfig 120000000000000000 480000000000000000 110000000000000000 290000000000000000
           900000000000000000 4 2 [] [(1, 535); (2, 2); (4, 3)] 540.
Definition f9_state : state :=
  mkState (mkBank (fun a => match a with AVest => 4070000000000000000000000200350 | _ => 0 end) 0
                  4070000000000000000000000200350 (-4070000000000000000000000200350))
          10000000000000000000000000000000000000 0.

Lemma f9_witness :
  valid_cfg f9_cfg /\ 0 <= s_prov f9_state /\ p_start f9_cfg <= 2 /\
  dev_of f9_cfg (minted_at f9_cfg f9_state 2) <= bal (s_bank f9_state) AVest /\
  after_epoch_end f9_cfg f9_state true 2 = Err EHookPanic.
Proof.
  split; [apply valid_cfgb_sound; vm_compute; reflexivity|].
  split; [vm_compute; discriminate|]. split; [vm_compute; discriminate|].
  split; [vm_compute; discriminate|]. vm_compute. reflexivity.
Qed.

(* "a mint epoch end with a sufficient vesting balance always succeeds" - false without the hook hypothesis *)
Definition succeeds_given_vesting : Prop :=
  forall cfg s e,
    valid_cfg cfg -> 0 <= s_prov s -> p_start cfg <= e ->
    0 <= bal (s_bank s) AMint -> 0 <= bal (s_bank s) APool -> no_blocked (p_recv cfg) ->
    dev_of cfg (minted_at cfg s e) <= bal (s_bank s) AVest ->
    exists s', after_epoch_end cfg s true e = Ok s'.

Lemma succeeds_given_vesting_refuted : ~ succeeds_given_vesting.
Proof.
  intros H. destruct f9_witness as [V [Hp [He [Hv Herr]]]].
  destruct (H f9_cfg f9_state 2 V Hp He) as [s' Hs'].
  - vm_compute. discriminate.
  - vm_compute. discriminate.
  - constructor.
  - exact Hv.
  - rewrite Herr in Hs'. discriminate.
Qed.

(** * The hook never takes anything back: the community pool keeps at least the remainder *)

Record hook_mono (b b' : bank) : Prop := {
  hm_distr : bal b ADistr <= bal b' ADistr;
  hm_inc : bal b AInc <= bal b' AInc;
  hm_pool : 0 <= bal b' APool <= bal b APool }.

Lemma hook_mono_trans b1 b2 b3 : hook_mono b1 b2 -> hook_mono b2 b3 -> hook_mono b1 b3.
Proof. intros [A1 A2 A3] [B1 B2 B3]. constructor; lia. Qed.

Lemma send_inv from to amt b b' : send from to amt b = Ok b' -> amt = 0 \/ amt <= bal b from.
Proof.
  unfold send. destruct (amt =? 0) eqn:E0; [left; apply Z.eqb_eq; exact E0|].
  destruct (bal b from <? amt) eqn:E; [discriminate|]. right. apply Z.ltb_ge. exact E.
Qed.

Lemma fund_pool_mono amt b b' : 0 < amt -> 0 <= bal b APool -> fund_community APool amt b = Ok b' -> hook_mono b b'.
Proof.
  intros Ha Hp H. destruct (fund_community_spec _ _ _ _ H) as [Hb _].
  unfold fund_community, bind in H. destruct (send APool ADistr amt b) as [b1|] eqn:E; [|discriminate].
  destruct (send_inv _ _ _ _ _ E) as [Hz|Hle]; [lia|].
  constructor; rewrite !Hb; unfold delta; cbn [acct_eqb]; lia.
Qed.

Lemma send_pool_mono amt b b' : 0 < amt -> 0 <= bal b APool -> send APool AInc amt b = Ok b' -> hook_mono b b'.
Proof.
  intros Ha Hp H. destruct (send_spec _ _ _ _ _ H) as [Hb _].
  destruct (send_inv _ _ _ _ _ H) as [Hz|Hle]; [lia|].
  constructor; rewrite !Hb; unfold delta; cbn [acct_eqb]; lia.
Qed.

Lemma allocate_records_mono asset total rs : forall b b',
  0 <= bal b APool -> allocate_records asset total rs b = Ok b' -> hook_mono b b'.
Proof.
  induction rs as [|[g w] r IH]; intros b b' Hp H; cbn [allocate_records] in H.
  - inversion H; subst. constructor; lia.
  - destruct (alloc_amount asset w total <=? 0) eqn:E; [apply IH; assumption|]. apply Z.leb_gt in E.
    unfold bind in H. destruct (g =? 0).
    + destruct (fund_community APool (alloc_amount asset w total) b) as [b1|] eqn:E1; [|discriminate].
      pose proof (fund_pool_mono _ _ _ E Hp E1) as M1.
      eapply hook_mono_trans; [exact M1|]. apply IH; [apply (hm_pool _ _ M1)|assumption].
    + destruct (send APool AInc (alloc_amount asset w total) b) as [b1|] eqn:E1; [|discriminate].
      pose proof (send_pool_mono _ _ _ E Hp E1) as M1.
      eapply hook_mono_trans; [exact M1|]. apply IH; [apply (hm_pool _ _ M1)|assumption].
Qed.

Lemma hook_monotone cfg b b' : 0 <= bal b APool -> after_distribute_hook cfg b = Ok b' -> hook_mono b b'.
Proof.
  intros Hp. unfold after_distribute_hook, allocate_asset.
  destruct (bal b APool =? 0) eqn:E0; [intros H; inversion H; subst; constructor; lia|]. apply Z.eqb_neq in E0.
  destruct (d_total cfg =? 0).
  - destruct (fund_community APool (bal b APool) b) as [b1|] eqn:E; [|discriminate].
    intros H; inversion H; subst. apply (fund_pool_mono (bal b APool)); [lia|assumption|assumption].
  - destruct (allocate_records (bal b APool) (d_total cfg) (d_records cfg) b) as [b1|] eqn:E; [|discriminate].
    intros H; inversion H; subst. eapply allocate_records_mono; eassumption.
Qed.

(* final state of a successful minting epoch: the community pool (module account and fee-pool entry) holds at least
   the remainder plus the developer parts addressed to it; pool incentives + incentives hold at most the pool share *)
Theorem community_gets_remainder cfg s e s' :
  valid_cfg cfg -> 0 <= s_prov s -> p_start cfg <= e -> 0 <= bal (s_bank s) APool ->
  after_epoch_end cfg s true e = Ok s' ->
  let M := minted_at cfg s e in
  let b := s_bank s in let b' := s_bank s' in
  bal b ADistr + comm_of cfg M + dev_to_community cfg (dev_of cfg M) <= bal b' ADistr /\
  cpool b + comm_of cfg M + dev_to_community cfg (dev_of cfg M) <= cpool b' /\
  share M (p_comm cfg) <= comm_of cfg M /\
  bal b AInc <= bal b' AInc /\ 0 <= bal b' APool <= bal b APool + share M (p_pool cfg).
Proof.
  intros V Hp He Hpool H M b b'. subst b b'.
  destruct (mint_epoch_spec _ _ _ _ V Hp He H) as [_ [_ [b1 ME]]]. fold M in ME.
  assert (HM : 0 <= M) by (apply minted_at_nonneg; assumption).
  pose proof (share_nonneg M _ HM (v_pool _ V)) as Hsp.
  (* recover the hook call *)
  unfold after_epoch_end in H. cbn [negb] in H. rewrite (proj2 (Z.ltb_ge _ _) He) in H. fold M in H.
  unfold bind in H at 1. unfold distribute_minted_coin in H. unfold bind in H at 1.
  destruct (distribute_minted_coin_pre cfg M (mint_coins M (s_bank s))) as [b1'|] eqn:Epre; [|discriminate].
  destruct (after_distribute_hook cfg b1') as [b2|] eqn:Eh; [|discriminate].
  inversion H; subst s'; clear H. cbn [s_bank].
  destruct (distribute_pre_spec _ _ _ _ V HM Epre) as [Hb [Hc _]].
  destruct (mint_coins_spec M (s_bank s)) as [Hmb [Hmc _]].
  assert (Hpool1 : bal b1' APool = bal (s_bank s) APool + share M (p_pool cfg)).
  { rewrite Hb, Hmb, dev_delta_other by (try discriminate; intros; discriminate). unfold delta; cbn [acct_eqb]. lia. }
  assert (Hdistr1 : bal b1' ADistr = bal (s_bank s) ADistr + comm_of cfg M + dev_to_community cfg (dev_of cfg M)).
  { rewrite Hb, Hmb, dev_delta_distr. unfold delta; cbn [acct_eqb]. lia. }
  assert (Hinc1 : bal b1' AInc = bal (s_bank s) AInc).
  { rewrite Hb, Hmb, dev_delta_other by (try discriminate; intros; discriminate). unfold delta; cbn [acct_eqb]. lia. }
  destruct (hook_monotone cfg b1' b2 ltac:(lia) Eh) as [M1 M2 M3].
  pose proof (hook_spec cfg b1' b2 Eh) as HR. pose proof (hr_cpool _ _ HR) as HC.
  rewrite Hmc in Hc.
  split; [lia|]. split; [lia|]. split; [apply comm_ge_share; assumption|]. split; lia.
Qed.
