(* C18 model: x/mint AfterEpochEnd / DistributeMintedCoin / distributeDeveloperRewards / getProportions
   (x/mint/keeper/hooks.go, keeper.go, x/mint/types/minter.go) over a small model of the SDK bank keeper, the
   distribution module's FundCommunityPool, and the pool-incentives mint hook AllocateAsset
   (x/pool-incentives/keeper/distr.go, hooks.go).  Function by function, as written.  No proofs in this file.

   Amounts are unbounded Z (sdk.Int / LegacyDec overflow panics at 2^256 / 2^316 are not modelled);
   decimals are raw 10^-18 mantissas (Base/DecModel.v). *)
From Coq Require Import ZArith List Bool.
Import ListNotations.
From Osmo Require Import Base.DecModel.
Open Scope Z_scope.

(* ---------------------------------------------------------------------------------------------- *)
(* accounts holding the mint denom *)
Inductive acct :=
| AMint            (* mint module account *)
| AFee             (* fee collector (staking rewards) *)
| APool            (* pool-incentives module account *)
| AInc             (* incentives module account (gauges) *)
| ADistr           (* distribution module account (community pool funds) *)
| AVest            (* developer vesting module account *)
| ARecv (i : nat). (* i-th developer rewards receiver address *)

Definition acct_eqb (a b : acct) : bool :=
  match a, b with
  | AMint, AMint | AFee, AFee | APool, APool | AInc, AInc | ADistr, ADistr | AVest, AVest => true
  | ARecv i, ARecv j => Nat.eqb i j
  | _, _ => false
  end.

(* bank keeper state for the mint denom + the distribution module's fee-pool community pool entry *)
Record bank := mkBank {
  bal : acct -> Z;
  cpool : Z;          (* FeePool.CommunityPool amount of the denom *)
  supply : Z;         (* bank supply *)
  offset : Z }.       (* bank supply offset; reported supply = supply + offset *)

Inductive err :=
| EInsufficientFunds       (* bank: spendable balance smaller than the amount *)
| EInsufficientVesting     (* insufficientDevVestingBalanceError *)
| EInvalidRatio            (* invalidRatioError *)
| EBlocked                 (* receiver address may not receive funds *)
| ENegativeCoin            (* sdk.NewCoin panics on a negative amount *)
| EHookPanic.              (* pool-incentives AfterDistributeMintedCoin panics when AllocateAsset fails *)

Inductive result (A : Type) := Ok (a : A) | Err (e : err).
Arguments Ok {A} a.
Arguments Err {A} e.

Definition bind {A B} (r : result A) (f : A -> result B) : result B :=
  match r with Ok a => f a | Err e => Err e end.
Notation "'do' x <- r ; k" := (bind r (fun x => k)) (at level 200, x pattern, r at level 100, k at level 200).

Definition add_bal (a : acct) (amt : Z) (f : acct -> Z) : acct -> Z :=
  fun x => if acct_eqb x a then f x + amt else f x.

(* bank.SendCoins / SendCoinsFromModuleToModule / ...ToAccount / ...FromAccountToModule for sdk.NewCoins(coin):
   a zero coin is dropped by NewCoins, so nothing is checked or moved; otherwise subUnlockedCoins fails on an
   insufficient balance, then addCoins *)
Definition send (from to : acct) (amt : Z) (b : bank) : result bank :=
  if amt =? 0 then Ok b
  else if bal b from <? amt then Err EInsufficientFunds
  else Ok (mkBank (add_bal to amt (add_bal from (- amt) (bal b))) (cpool b) (supply b) (offset b)).

(* keeper.mintCoins: skipped for an empty coin set, else bank.MintCoins into the mint module account *)
Definition mint_coins (amt : Z) (b : bank) : bank :=
  if amt =? 0 then b
  else mkBank (add_bal AMint amt (bal b)) (cpool b) (supply b + amt) (offset b).

(* bank.BurnCoins(mint module, NewCoins(coin)) *)
Definition burn_coins (amt : Z) (b : bank) : result bank :=
  if amt =? 0 then Ok b
  else if bal b AMint <? amt then Err EInsufficientFunds
  else Ok (mkBank (add_bal AMint (- amt) (bal b)) (cpool b) (supply b - amt) (offset b)).

Definition add_supply_offset (amt : Z) (b : bank) : bank :=
  mkBank (bal b) (cpool b) (supply b) (offset b + amt).

(* distribution keeper FundCommunityPool(amount, sender): send to the distribution module account, then
   feePool.CommunityPool += amount *)
Definition fund_community (from : acct) (amt : Z) (b : bank) : result bank :=
  do b1 <- send from ADistr amt b;
  Ok (mkBank (bal b1) (cpool b1 + amt) (supply b1) (offset b1)).

(* ---------------------------------------------------------------------------------------------- *)
(* parameters *)
Inductive raddr :=
| RAEmpty            (* "" : community pool *)
| RAAddr (i : nat)   (* an ordinary address *)
| RABlocked.         (* a valid address that the bank refuses to credit (module account) *)

Record config := mkConfig {
  p_staking : Z; p_pool : Z; p_dev : Z; p_comm : Z;    (* DistributionProportions, raw Dec *)
  p_factor : Z;                                        (* ReductionFactor, raw Dec *)
  p_period : Z;                                        (* ReductionPeriodInEpochs *)
  p_start : Z;                                         (* MintingRewardsDistributionStartEpoch *)
  p_recv : list (raddr * Z);                           (* WeightedDeveloperRewardsReceivers, weight raw Dec *)
  d_records : list (Z * Z);                            (* pool-incentives DistrInfo.Records: (gauge id, weight) *)
  d_total : Z }.                                       (* DistrInfo.TotalWeight *)

Record state := mkState {
  s_bank : bank;
  s_prov : Z;         (* minter.EpochProvisions, raw Dec *)
  s_last : Z }.       (* last reduction epoch number *)

(* keeper.getProportions: amount.ToLegacyDec().Mul(ratio).TruncateInt(), error if ratio > 1 *)
Definition get_proportions (amount ratio : Z) : result Z :=
  if P18 <? ratio then Err EInvalidRatio
  else Ok (d_truncate_int (d_mul (d_from_int amount) ratio)).

(* keeper.distributeToModule *)
Definition distribute_to_module (recipient : acct) (minted proportion : Z) (b : bank) : result (bank * Z) :=
  do amt <- get_proportions minted proportion;
  do b1 <- send AMint recipient amt b;
  Ok (b1, amt).

(* the receiver loop of distributeDeveloperRewards *)
Fixpoint pay_receivers (dev : Z) (rs : list (raddr * Z)) (b : bank) : result bank :=
  match rs with
  | [] => Ok b
  | (a, w) :: r =>
      do portion <- get_proportions dev w;
      do b1 <- match a with
               | RAEmpty => fund_community AVest portion b
               | RAAddr i => send AVest (ARecv i) portion b
               | RABlocked => Err EBlocked
               end;
      pay_receivers dev r b1
  end.

(* keeper.distributeDeveloperRewards *)
Definition distribute_developer_rewards (cfg : config) (minted : Z) (b : bank) : result (bank * Z) :=
  do dev <- get_proportions minted (p_dev cfg);
  let vest_before := bal b AVest in
  if vest_before <? dev then Err EInsufficientVesting else
  do b1 <- burn_coins dev b;
  let b2 := add_supply_offset vest_before b1 in
  do b3 <- match p_recv cfg with
           | [] => fund_community AVest dev b2
           | rs => pay_receivers dev rs b2
           end;
  let b4 := add_supply_offset (- bal b3 AVest) b3 in
  Ok (b4, dev).

(* pool-incentives AllocateAsset (distr.go), called from the AfterDistributeMintedCoin hook *)
Definition alloc_amount (asset w total : Z) : Z :=
  d_truncate_int (d_mul (d_from_int asset) (d_quo (d_from_int w) (d_from_int total))).

Fixpoint allocate_records (asset total : Z) (rs : list (Z * Z)) (b : bank) : result bank :=
  match rs with
  | [] => Ok b
  | (g, w) :: r =>
      let amt := alloc_amount asset w total in
      if amt <=? 0 then allocate_records asset total r b
      else
        do b1 <- (if g =? 0 then fund_community APool amt b else send APool AInc amt b);
        allocate_records asset total r b1
  end.

Definition allocate_asset (cfg : config) (b : bank) : result bank :=
  let asset := bal b APool in
  if asset =? 0 then Ok b
  else if d_total cfg =? 0 then fund_community APool asset b
  else allocate_records asset (d_total cfg) (d_records cfg) b.

(* keeper.DistributeMintedCoin up to (not including) the hook call *)
Definition distribute_minted_coin_pre (cfg : config) (minted : Z) (b : bank) : result bank :=
  do (b1, staking) <- distribute_to_module AFee minted (p_staking cfg) b;
  do (b2, pool) <- distribute_to_module APool minted (p_pool cfg) b1;
  do (b3, dev) <- distribute_developer_rewards cfg minted b2;
  let community := minted - staking - pool - dev in
  if community <? 0 then Err ENegativeCoin else
  fund_community AMint community b3.

(* the hook panics when AllocateAsset returns an error *)
Definition after_distribute_hook (cfg : config) (b : bank) : result bank :=
  match allocate_asset cfg b with Ok b' => Ok b' | Err _ => Err EHookPanic end.

Definition distribute_minted_coin (cfg : config) (minted : Z) (b : bank) : result bank :=
  do b1 <- distribute_minted_coin_pre cfg minted b;
  after_distribute_hook cfg b1.

(* hooks.go AfterEpochEnd, once the epoch identifier matched and epoch >= start: the schedule part *)
Definition last_after_start (cfg : config) (s : state) (epoch : Z) : Z :=
  if epoch =? p_start cfg then epoch else s_last s.
Definition reduces (cfg : config) (s : state) (epoch : Z) : bool :=
  p_period cfg + last_after_start cfg s epoch <=? epoch.
Definition next_prov (cfg : config) (s : state) (epoch : Z) : Z :=
  if reduces cfg s epoch then d_mul (s_prov s) (p_factor cfg) else s_prov s.      (* Minter.NextEpochProvisions *)
Definition next_last (cfg : config) (s : state) (epoch : Z) : Z :=
  if reduces cfg s epoch then epoch else last_after_start cfg s epoch.
Definition minted_at (cfg : config) (s : state) (epoch : Z) : Z :=
  d_truncate_int (next_prov cfg s epoch).                                         (* Minter.EpochProvision *)

(* hooks.go AfterEpochEnd; [same_id]: the identifier equals params.EpochIdentifier *)
Definition after_epoch_end (cfg : config) (s : state) (same_id : bool) (epoch : Z) : result state :=
  if negb same_id then Ok s
  else if epoch <? p_start cfg then Ok s
  else
    let minted := minted_at cfg s epoch in
    do b <- distribute_minted_coin cfg minted (mint_coins minted (s_bank s));
    Ok (mkState b (next_prov cfg s epoch) (next_last cfg s epoch)).

(* DESIGN 1.5: the call runs on a cache context that is written back only on success *)
Definition err_code (e : err) : Z :=
  match e with EHookPanic | ENegativeCoin => 2 | _ => 1 end.
Definition step (cfg : config) (s : state) (call : bool * Z) : state * Z :=
  match after_epoch_end cfg s (fst call) (snd call) with
  | Ok s' => (s', 0)
  | Err e => (s, err_code e)
  end.

Fixpoint run (cfg : config) (s : state) (calls : list (bool * Z)) : state :=
  match calls with
  | [] => s
  | c :: r => run cfg (fst (step cfg s c)) r
  end.
