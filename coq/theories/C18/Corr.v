(* C18 correspondence glue: run the model on a harness case and flatten its observables. *)
From Coq Require Import ZArith List Bool.
Import ListNotations.
From Osmo Require Import Base.Obs Base.DecModel C18.Model.
Open Scope Z_scope.

(* observation vector of a state (same order as harness/c18drv observe()):
   mint, fee collector, pool-incentives, incentives, distribution module, community pool, vesting,
   receiver 0 .. na-1, supply, supply offset, epoch provisions (raw), last reduction epoch *)
Definition obs_state (na : nat) (s : state) : list Z :=
  let b := s_bank s in
  [bal b AMint; bal b AFee; bal b APool; bal b AInc; bal b ADistr; cpool b; bal b AVest]
  ++ map (fun i => bal b (ARecv i)) (seq 0 na)
  ++ [supply b; offset b; s_prov s; s_last s].

Definition nthz (l : list Z) (i : nat) : Z := nth i l 0.

(* the initial state is read off the implementation's first observation *)
Definition state_of_obs (na : nat) (l : list Z) : state :=
  let balf := fun a => match a with
                       | AMint => nthz l 0 | AFee => nthz l 1 | APool => nthz l 2 | AInc => nthz l 3
                       | ADistr => nthz l 4 | AVest => nthz l 6
                       | ARecv i => if Nat.ltb i na then nthz l (7 + i) else 0
                       end in
  mkState (mkBank balf (nthz l 5) (nthz l (7 + na)) (nthz l (8 + na))) (nthz l (9 + na)) (nthz l (10 + na)).

Record case := mkCase {
  c_cfg : config;
  c_na : nat;
  c_init : list Z;              (* implementation's observation before the first call *)
  c_calls : list (bool * Z);    (* (identifier is the mint identifier, epoch number) *)
  c_expect : list Z }.          (* per call: status followed by the observation vector *)

Fixpoint scan (cfg : config) (na : nat) (s : state) (calls : list (bool * Z)) : list Z :=
  match calls with
  | [] => []
  | c :: r => let '(s1, code) := step cfg s c in
              code :: obs_state na s1 ++ scan cfg na s1 r
  end.

Definition model_obs (c : case) : list Z :=
  scan (c_cfg c) (c_na c) (state_of_obs (c_na c) (c_init c)) (c_calls c).

Definition case_ok (c : case) : bool := zlist_eqb (model_obs c) (c_expect c).
