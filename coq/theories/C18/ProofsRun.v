(* C18 proofs over histories: every call of every history is either a no-op, a rolled-back failure or a
   minted epoch (Proofs.v); the mint account stays empty; the reduction schedule over consecutive epochs;
   cumulative supply accounting. *)
From Coq Require Import ZArith List Bool Lia Arith.
Import ListNotations.
From Osmo Require Import Base.DecModel C18.Model C18.Proofs.
Open Scope Z_scope.

(** * Classification of one call *)

Lemma after_epoch_end_schedule cfg s e s' :
  p_start cfg <= e -> after_epoch_end cfg s true e = Ok s' ->
  s_prov s' = next_prov cfg s e /\ s_last s' = next_last cfg s e.
Proof.
  intros He H. unfold after_epoch_end in H. cbn [negb] in H.
  destruct (e <? p_start cfg) eqn:E; [apply Z.ltb_lt in E; lia|].
  unfold bind in H. destruct (distribute_minted_coin cfg _ _); [|discriminate].
  inversion H; subst s'. split; reflexivity.
Qed.

Inductive call_kind (cfg : config) (s : state) (c : bool * Z) (s' : state) (code : Z) : Prop :=
| CKNoop : (fst c = false \/ snd c < p_start cfg) -> s' = s -> code = 0 -> call_kind cfg s c s' code
| CKFailed : fst c = true -> p_start cfg <= snd c -> s' = s -> code <> 0 -> call_kind cfg s c s' code
| CKMinted : fst c = true -> p_start cfg <= snd c -> code = 0 ->
             after_epoch_end cfg s true (snd c) = Ok s' -> call_kind cfg s c s' code.

Lemma err_code_nonzero e : err_code e <> 0.
Proof. destruct e; cbn; lia. Qed.

Lemma step_kind cfg s c : call_kind cfg s c (fst (step cfg s c)) (snd (step cfg s c)).
Proof.
  destruct c as [id e].
  destruct id.
  - destruct (Z_lt_ge_dec e (p_start cfg)) as [Hlt|Hge].
    + rewrite step_before_start by (right; assumption). apply CKNoop; cbn; auto.
    + unfold step. cbn [fst snd].
      destruct (after_epoch_end cfg s true e) as [s'|er] eqn:E; cbn [fst snd].
      * apply CKMinted; cbn; auto; lia.
      * apply CKFailed; cbn; auto; try lia. apply err_code_nonzero.
  - rewrite step_before_start by (left; reflexivity). apply CKNoop; cbn; auto.
Qed.

Lemma step_prov_nonneg cfg s c :
  valid_cfg cfg -> 0 <= s_prov s -> 0 <= s_prov (fst (step cfg s c)).
Proof.
  intros V Hp. destruct (step_kind cfg s c) as [_ -> _|_ _ -> _|_ He _ H]; try assumption.
  destruct (after_epoch_end_schedule _ _ _ _ He H) as [-> _]. apply next_prov_nonneg; assumption.
Qed.

Lemma run_prov_nonneg cfg calls : forall s,
  valid_cfg cfg -> 0 <= s_prov s -> 0 <= s_prov (run cfg s calls).
Proof.
  induction calls as [|c r IH]; intros s V Hp; cbn [run]; [assumption|].
  apply IH; [assumption|]. apply step_prov_nonneg; assumption.
Qed.

Lemma run_app cfg a : forall s b, run cfg s (a ++ b) = run cfg (run cfg s a) b.
Proof. induction a as [|c r IH]; intros s b; cbn [run app]; [reflexivity|apply IH]. Qed.

(** * Every call of every history *)

(* what the property demands of the call [c] made in state [s] *)
Definition call_spec (cfg : config) (s : state) (c : bool * Z) : Prop :=
  let s' := fst (step cfg s c) in
  let code := snd (step cfg s c) in
  ((fst c = false \/ snd c < p_start cfg) -> s' = s /\ code = 0) /\
  (fst c = true -> p_start cfg <= snd c -> code <> 0 -> s' = s) /\
  (fst c = true -> p_start cfg <= snd c -> code = 0 ->
     s_prov s' = next_prov cfg s (snd c) /\ s_last s' = next_last cfg s (snd c) /\
     exists b1, minted_epoch cfg (minted_at cfg s (snd c)) (s_bank s) b1 (s_bank s')).

Lemma call_spec_holds cfg s c : valid_cfg cfg -> 0 <= s_prov s -> call_spec cfg s c.
Proof.
  intros V Hp. unfold call_spec.
  pose proof (step_kind cfg s c) as K. destruct (step cfg s c) as [s' code]. cbn [fst snd] in *.
  destruct K as [Hn Hs Hc|Hid He Hs Hc|Hid He Hc H]; subst.
  - split; [auto|]. split; [auto|]. intros Hid He _. destruct Hn as [Hn|Hn]; [congruence|lia].
  - split; [intros [Hn|Hn]; [congruence|lia]|]. split; [auto|]. intros _ _ H0. contradiction.
  - split; [intros [Hn|Hn]; [congruence|lia]|]. split; [intros _ _ H0; exfalso; apply H0; reflexivity|].
    intros _ _ _. apply (mint_epoch_spec cfg s (snd c)); assumption.
Qed.

Theorem every_call_of_every_history cfg s calls :
  valid_cfg cfg -> 0 <= s_prov s ->
  forall pre c post, calls = pre ++ c :: post -> call_spec cfg (run cfg s pre) c.
Proof.
  intros V Hp pre c post _. apply call_spec_holds; [assumption|]. apply run_prov_nonneg; assumption.
Qed.

(** * The mint account is empty after every call of every history *)

Lemma step_mint_account cfg s c :
  valid_cfg cfg -> 0 <= s_prov s ->
  bal (s_bank (fst (step cfg s c))) AMint = bal (s_bank s) AMint.
Proof.
  intros V Hp. destruct (step_kind cfg s c) as [_ -> _|_ _ -> _|_ He _ H]; try reflexivity.
  destruct (mint_epoch_spec _ _ _ _ V Hp He H) as [_ [_ [b1 ME]]].
  rewrite (hr_other _ _ (me_hook _ _ _ _ _ ME)) by discriminate. apply (me_mint _ _ _ _ _ ME).
Qed.

Lemma run_mint_account cfg calls : forall s,
  valid_cfg cfg -> 0 <= s_prov s ->
  bal (s_bank (run cfg s calls)) AMint = bal (s_bank s) AMint.
Proof.
  induction calls as [|c r IH]; intros s V Hp; cbn [run]; [reflexivity|].
  rewrite IH; [|assumption|apply step_prov_nonneg; assumption]. apply step_mint_account; assumption.
Qed.

(** * The reduction schedule over consecutive epochs *)

Definition consec (e0 : Z) (n : nat) : list (bool * Z) :=
  map (fun i => (true, e0 + Z.of_nat i)) (seq 0 n).

Fixpoint all_ok (cfg : config) (s : state) (calls : list (bool * Z)) : Prop :=
  match calls with
  | [] => True
  | c :: r => snd (step cfg s c) = 0 /\ all_ok cfg (fst (step cfg s c)) r
  end.

(* k-fold application of Minter.NextEpochProvisions *)
Fixpoint iter_reduce (k : nat) (factor prov : Z) : Z :=
  match k with O => prov | S k' => d_mul (iter_reduce k' factor prov) factor end.

Lemma consec_S e0 n : consec e0 (S n) = consec e0 n ++ [(true, e0 + Z.of_nat n)].
Proof. unfold consec. rewrite seq_S, map_app. reflexivity. Qed.

Lemma all_ok_app cfg a : forall s b, all_ok cfg s (a ++ b) <-> all_ok cfg s a /\ all_ok cfg (run cfg s a) b.
Proof.
  induction a as [|c r IH]; intros s b; cbn [all_ok run app]; [tauto|].
  rewrite IH. tauto.
Qed.

(* number of reductions that are due up to and including epoch [e] *)
Definition reductions_until (cfg : config) (e : Z) : Z := (e - p_start cfg) / p_period cfg.

(* the schedule state after the epochs e0 .. e have been processed *)
Definition sched_inv (cfg : config) (prov0 last0 : Z) (e : Z) (s : state) : Prop :=
  if e <? p_start cfg then s_prov s = prov0 /\ s_last s = last0
  else s_last s = p_start cfg + reductions_until cfg e * p_period cfg /\
       s_prov s = iter_reduce (Z.to_nat (reductions_until cfg e)) (p_factor cfg) prov0.

Lemma div_step a p : 0 <= a -> 0 < p ->
  ((a + 1) / p = a / p /\ (a + 1) < (a / p + 1) * p) \/ ((a + 1) / p = a / p + 1 /\ a + 1 = (a / p + 1) * p).
Proof.
  intros Ha Hp.
  pose proof (Z.mul_div_le a p Hp). pose proof (Z.mul_succ_div_gt a p Hp).
  destruct (Z_lt_ge_dec (a + 1) ((a / p + 1) * p)) as [Hlt|Hge].
  - left. split; [|assumption]. symmetry. apply Z.div_unique with (r := a + 1 - a / p * p); lia.
  - right. assert (a + 1 = (a / p + 1) * p) by lia. split; [|assumption].
    rewrite H1. apply Z.div_mul. lia.
Qed.

(* one more consecutive epoch keeps the schedule on start + k * period *)
Lemma sched_step cfg prov0 last0 e s s' :
  valid_cfg cfg ->
  sched_inv cfg prov0 last0 e s ->
  step cfg s (true, e + 1) = (s', 0) ->
  sched_inv cfg prov0 last0 (e + 1) s' /\
  (p_start cfg <= e + 1 ->
   (reduces cfg s (e + 1) = true <-> exists k, 1 <= k /\ e + 1 = p_start cfg + k * p_period cfg)).
Proof.
  intros V Inv Hstep. pose proof (v_period _ V) as Hper.
  destruct (Z_lt_ge_dec (e + 1) (p_start cfg)) as [Hlt|Hge].
  - (* still before the start epoch *)
    rewrite step_before_start in Hstep by (right; assumption). inversion Hstep; subst s'.
    split; [|intros; lia].
    unfold sched_inv in *. rewrite (proj2 (Z.ltb_lt _ _) Hlt).
    assert (e < p_start cfg) by lia. rewrite (proj2 (Z.ltb_lt _ _) H) in Inv. assumption.
  - apply Z.ge_le in Hge.
    assert (Hok : after_epoch_end cfg s true (e + 1) = Ok s').
    { unfold step in Hstep. cbn [fst snd] in Hstep.
      destruct (after_epoch_end cfg s true (e + 1)) as [s2|er]; inversion Hstep; subst.
      - reflexivity.
      - exfalso. eapply err_code_nonzero; eassumption. }
    destruct (after_epoch_end_schedule _ _ _ _ Hge Hok) as [Hprov Hlast].
    unfold sched_inv. rewrite (proj2 (Z.ltb_ge _ _) Hge).
    unfold next_prov, next_last, reduces, last_after_start in *.
    destruct (Z.eq_dec (e + 1) (p_start cfg)) as [Heq|Hne].
    + (* the start epoch itself: the marker is set, nothing is reduced *)
      rewrite (proj2 (Z.eqb_eq _ _) Heq) in *.
      assert (Hr : (p_period cfg + (e + 1) <=? e + 1) = false) by (apply Z.leb_gt; lia).
      rewrite Hr in *.
      unfold sched_inv in Inv. assert (Hlt : e < p_start cfg) by lia.
      rewrite (proj2 (Z.ltb_lt _ _) Hlt) in Inv. destruct Inv as [Ip Il].
      assert (Hk : reductions_until cfg (e + 1) = 0).
      { unfold reductions_until. rewrite Heq, Z.sub_diag. apply Z.div_0_l. lia. }
      rewrite Hk. cbn [Z.to_nat iter_reduce]. split; [split; [lia|congruence]|].
      intros _. split; [discriminate|]. intros [k [Hk1 Hk2]]. nia.
    + rewrite (proj2 (Z.eqb_neq _ _) Hne) in *.
      assert (Hge' : p_start cfg <= e) by lia.
      unfold sched_inv in Inv. rewrite (proj2 (Z.ltb_ge _ _) Hge') in Inv. destruct Inv as [Il Ip].
      unfold reductions_until in *.
      set (a := e - p_start cfg) in *. assert (Ha : 0 <= a) by (unfold a; lia).
      replace (e + 1 - p_start cfg) with (a + 1) by (unfold a; lia).
      assert (Hk0 : 0 <= a / p_period cfg) by (apply Z.div_pos; lia).
      destruct (div_step a (p_period cfg) Ha Hper) as [[Hd Hlt]|[Hd Heq]].
      * (* no reduction due *)
        assert (Hr : (p_period cfg + s_last s <=? e + 1) = false).
        { apply Z.leb_gt. rewrite Il. unfold a in *. lia. }
        rewrite Hr in *. rewrite Hd. split; [split; congruence|].
        intros _. split; [discriminate|]. intros [k [Hk1 Hk2]].
        assert (a + 1 = k * p_period cfg) by (unfold a; lia).
        pose proof (Z.mul_div_le a (p_period cfg) Hper).
        assert (a / p_period cfg < k) by nia. nia.
      * (* reduction due: exactly at start + (k+1) * period *)
        assert (Hr : (p_period cfg + s_last s <=? e + 1) = true).
        { apply Z.leb_le. rewrite Il. unfold a in *. lia. }
        rewrite Hr in *. rewrite Hd.
        rewrite Z2Nat.inj_add by lia. replace (Z.to_nat 1) with 1%nat by reflexivity.
        rewrite Nat.add_1_r. cbn [iter_reduce]. rewrite <- Ip.
        split; [split; [unfold a in *; lia|assumption]|].
        intros _. split; [|reflexivity]. intros _. exists (a / p_period cfg + 1). unfold a in *. lia.
Qed.

Lemma sched_run cfg s e0 prov0 last0 : valid_cfg cfg -> sched_inv cfg prov0 last0 (e0 - 1) s ->
  forall n e, e = e0 + Z.of_nat n - 1 -> all_ok cfg s (consec e0 n) ->
  sched_inv cfg prov0 last0 e (run cfg s (consec e0 n)).
Proof.
  intros V Hinit. induction n as [|n IH]; intros e He Hok.
  - cbn [consec map seq run]. replace e with (e0 - 1) by lia. exact Hinit.
  - rewrite consec_S in *. apply all_ok_app in Hok. destruct Hok as [Hok1 Hok2].
    specialize (IH (e - 1) ltac:(lia) Hok1). rewrite run_app. cbn [run].
    cbn [all_ok] in Hok2. destruct Hok2 as [Hc _].
    replace (e0 + Z.of_nat n) with (e - 1 + 1) in * by lia.
    destruct (step cfg (run cfg s (consec e0 n)) (true, e - 1 + 1)) as [s2 code] eqn:E.
    cbn [fst snd] in *. subst code.
    pose proof (proj1 (sched_step _ _ _ _ _ _ V IH E)) as R.
    replace (e - 1 + 1) with e in R by lia. exact R.
Qed.

(* where a history of consecutive epochs may begin: no later than the start epoch, or within the first period after
   it with the marker sitting on the start epoch (a chain whose start epoch is 0 and whose first epoch is 1) *)
Definition history_start_ok (cfg : config) (s : state) (e0 : Z) : Prop :=
  e0 <= p_start cfg \/ (p_start cfg < e0 <= p_start cfg + p_period cfg /\ s_last s = p_start cfg).

Lemma history_start_inv cfg s e0 :
  valid_cfg cfg -> history_start_ok cfg s e0 -> sched_inv cfg (s_prov s) (s_last s) (e0 - 1) s.
Proof.
  intros V [H|[H Hl]]; unfold sched_inv.
  - assert (Hlt : e0 - 1 < p_start cfg) by lia. rewrite (proj2 (Z.ltb_lt _ _) Hlt). split; reflexivity.
  - assert (Hge : p_start cfg <= e0 - 1) by lia. rewrite (proj2 (Z.ltb_ge _ _) Hge).
    assert (Hk : reductions_until cfg (e0 - 1) = 0).
    { unfold reductions_until. apply Z.div_small. lia. }
    rewrite Hk. cbn [Z.to_nat iter_reduce]. split; [lia|reflexivity].
Qed.

(* the provision is multiplied by the factor at the epochs start + k*period (k >= 1) and at no other *)
Theorem reduction_exactly_at cfg s e0 n :
  valid_cfg cfg -> history_start_ok cfg s e0 -> all_ok cfg s (consec e0 (S n)) ->
  let e := e0 + Z.of_nat n in
  let before := run cfg s (consec e0 n) in
  let after := run cfg s (consec e0 (S n)) in
  p_start cfg <= e ->
  (reduces cfg before e = true <-> exists k, 1 <= k /\ e = p_start cfg + k * p_period cfg) /\
  s_prov after = (if reduces cfg before e then d_mul (s_prov before) (p_factor cfg) else s_prov before) /\
  s_last after = p_start cfg + reductions_until cfg e * p_period cfg /\
  s_prov after = iter_reduce (Z.to_nat (reductions_until cfg e)) (p_factor cfg) (s_prov s).
Proof.
  intros V He0 Hok e before after Hs.
  rewrite consec_S in Hok. apply all_ok_app in Hok. destruct Hok as [Hok1 Hok2].
  pose proof (sched_run cfg s e0 _ _ V (history_start_inv cfg s e0 V He0) n (e - 1) ltac:(unfold e; lia) Hok1) as Inv.
  fold before in Inv.
  cbn [all_ok] in Hok2. destruct Hok2 as [Hc _]. fold before in Hc. fold e in Hc.
  assert (Hafter : after = fst (step cfg before (true, e))).
  { unfold after. rewrite consec_S, run_app. reflexivity. }
  clearbody after before e.
  destruct (step cfg before (true, e)) as [s2 code] eqn:E. cbn in Hc, Hafter. subst code s2.
  replace e with (e - 1 + 1) in E, Hs by lia.
  destruct (sched_step _ _ _ _ _ _ V Inv E) as [Inv' Hiff].
  replace (e - 1 + 1) with e in * by lia.
  split; [apply Hiff; assumption|].
  assert (Hok : after_epoch_end cfg before true e = Ok after).
  { unfold step in E. cbn [fst snd] in E.
    destruct (after_epoch_end cfg before true e) as [s2|er]; inversion E; subst; [reflexivity|].
    exfalso. eapply err_code_nonzero; eassumption. }
  destruct (after_epoch_end_schedule _ _ _ _ Hs Hok) as [Hprov _].
  unfold sched_inv in Inv'. rewrite (proj2 (Z.ltb_ge _ _) Hs) in Inv'. destruct Inv' as [Il Ip].
  split; [exact Hprov|]. split; assumption.
Qed.

(** * Cumulative accounting over a whole history *)

Definition reported (s : state) : Z := supply (s_bank s) + offset (s_bank s).

Definition mints (cfg : config) (s : state) (c : bool * Z) : bool :=
  fst c && (p_start cfg <=? snd c) && (snd (step cfg s c) =? 0).

(* total minted, total developer share, total rounding remainder, number of minting epochs *)
Fixpoint totals (cfg : config) (s : state) (calls : list (bool * Z)) : Z * Z * Z * Z :=
  match calls with
  | [] => (0, 0, 0, 0)
  | c :: r =>
      let '(m, d, rr, k) := totals cfg (fst (step cfg s c)) r in
      if mints cfg s c
      then let M := minted_at cfg s (snd c) in (m + M, d + dev_of cfg M, rr + dev_remainder cfg M, k + 1)
      else (m, d, rr, k)
  end.

Lemma step_supply cfg s c : valid_cfg cfg -> 0 <= s_prov s ->
  let s' := fst (step cfg s c) in
  if mints cfg s c
  then supply (s_bank s') = supply (s_bank s) + minted_at cfg s (snd c) - dev_of cfg (minted_at cfg s (snd c)) /\
       reported s' = reported s + minted_at cfg s (snd c) - dev_remainder cfg (minted_at cfg s (snd c))
  else s' = s.
Proof.
  intros V Hp s'. unfold mints, s'.
  destruct (step_kind cfg s c) as [Hn -> ->|Hid He -> Hc|Hid He -> H].
  - destruct Hn as [Hn|Hn].
    + rewrite Hn. reflexivity.
    + rewrite (proj2 (Z.leb_gt _ _) Hn), andb_false_r. reflexivity.
  - rewrite (proj2 (Z.eqb_neq _ _) Hc), andb_false_r. reflexivity.
  - rewrite Hid, (proj2 (Z.leb_le _ _) He). cbn [andb Z.eqb].
    destruct (mint_epoch_spec _ _ _ _ V Hp He H) as [_ [_ [b1 ME]]].
    pose proof (me_hook _ _ _ _ _ ME) as HR. unfold reported.
    rewrite (hr_supply _ _ HR), (hr_offset _ _ HR).
    split; [apply (me_supply _ _ _ _ _ ME)|apply (me_reported _ _ _ _ _ ME)].
Qed.

Theorem cumulative_supply cfg calls : forall s,
  valid_cfg cfg -> 0 <= s_prov s ->
  let '(m, d, rr, k) := totals cfg s calls in
  supply (s_bank (run cfg s calls)) = supply (s_bank s) + m - d /\
  reported (run cfg s calls) = reported s + m - rr /\
  0 <= rr /\ (p_recv cfg = [] -> rr = 0) /\
  rr <= k * (Z.of_nat (length (p_recv cfg)) - 1) + (if p_recv cfg then k else 0) /\ 0 <= k.
Proof.
  induction calls as [|c r IH]; intros s V Hp.
  - cbn. repeat split; try lia. destruct (p_recv cfg); lia.
  - cbn [totals run].
    specialize (IH (fst (step cfg s c)) V (step_prov_nonneg cfg s c V Hp)).
    destruct (totals cfg (fst (step cfg s c)) r) as [[[m d] rr] k].
    destruct IH as [I1 [I2 [I3 [I4 [I5 I6]]]]].
    pose proof (step_supply cfg s c V Hp) as HS. cbn zeta in HS.
    destruct (mints cfg s c) eqn:Em.
    + destruct HS as [S1 S2].
      assert (HM : 0 <= minted_at cfg s (snd c)) by (apply minted_at_nonneg; assumption).
      destruct (dev_remainder_bounds cfg _ V HM) as [R0 [Re Rn]].
      repeat split; try lia.
      * intros He. rewrite (I4 He), (Re He). lia.
      * destruct (p_recv cfg) as [|aw rl] eqn:E.
        -- rewrite (Re eq_refl). cbn [length] in *. lia.
        -- assert (Hne : aw :: rl <> []) by discriminate. specialize (Rn Hne). lia.
    + rewrite HS in *. repeat split; try lia; assumption.
Qed.

(** * Per-epoch statements read off the final state of the call *)

Lemma split_final cfg s e s' :
  valid_cfg cfg -> 0 <= s_prov s -> p_start cfg <= e -> after_epoch_end cfg s true e = Ok s' ->
  let M := minted_at cfg s e in
  let b := s_bank s in let b' := s_bank s' in
  bal b' AFee = bal b AFee + share M (p_staking cfg) /\
  (forall i, bal b' (ARecv i) = bal b (ARecv i) + paid_to i (dev_of cfg M) (p_recv cfg)) /\
  bal b' AVest = bal b AVest - dev_paid cfg (dev_of cfg M) /\
  bal b' APool + bal b' AInc + bal b' ADistr =
    bal b APool + bal b AInc + bal b ADistr + share M (p_pool cfg) + comm_of cfg M + dev_to_community cfg (dev_of cfg M) /\
  cpool b' - bal b' ADistr = cpool b - bal b ADistr /\
  share M (p_comm cfg) <= comm_of cfg M /\
  bal b' AMint = bal b AMint.
Proof.
  intros V Hp He H M b b'. subst b b'.
  destruct (mint_epoch_spec _ _ _ _ V Hp He H) as [_ [_ [b1 ME]]]. fold M in ME.
  destruct ME as [A1 A2 A3 A4 A5 A6 A7 A8 A9 _ _ _ _ [O S C _ _]].
  split; [rewrite O by discriminate; exact A1|].
  split; [intros i; rewrite O by discriminate; apply A3|].
  split; [rewrite O by discriminate; exact A4|].
  split; [lia|]. split; [lia|]. split; [exact A7|].
  rewrite O by discriminate. exact A8.
Qed.

Lemma bank_supply_delta cfg s e s' :
  valid_cfg cfg -> 0 <= s_prov s -> p_start cfg <= e -> after_epoch_end cfg s true e = Ok s' ->
  supply (s_bank s') = supply (s_bank s) + minted_at cfg s e - dev_of cfg (minted_at cfg s e).
Proof.
  intros V Hp He H. destruct (mint_epoch_spec _ _ _ _ V Hp He H) as [_ [_ [b1 ME]]].
  rewrite (hr_supply _ _ (me_hook _ _ _ _ _ ME)). apply (me_supply _ _ _ _ _ ME).
Qed.

Lemma reported_supply_delta cfg s e s' :
  valid_cfg cfg -> 0 <= s_prov s -> p_start cfg <= e -> after_epoch_end cfg s true e = Ok s' ->
  let M := minted_at cfg s e in
  let r := dev_of cfg M - dev_paid cfg (dev_of cfg M) in
  reported s' = reported s + M - r /\
  0 <= r /\ (p_recv cfg = [] -> r = 0) /\ (p_recv cfg <> [] -> r < Z.of_nat (length (p_recv cfg))).
Proof.
  intros V Hp He H M r. destruct (mint_epoch_spec _ _ _ _ V Hp He H) as [_ [_ [b1 ME]]].
  pose proof (me_hook _ _ _ _ _ ME) as HR.
  split; [unfold reported; rewrite (hr_supply _ _ HR), (hr_offset _ _ HR); apply (me_reported _ _ _ _ _ ME)|].
  apply dev_remainder_bounds; [assumption|apply minted_at_nonneg; assumption].
Qed.

Lemma split_amounts cfg s calls pre c post :
  valid_cfg cfg -> 0 <= s_prov s -> calls = pre ++ c :: post ->
  let sj := run cfg s pre in
  let sj' := fst (step cfg sj c) in
  fst c = true -> p_start cfg <= snd c -> snd (step cfg sj c) = 0 ->
  let M := minted_at cfg sj (snd c) in
  M = d_truncate_int (s_prov sj') /\
  exists b1, minted_epoch cfg M (s_bank sj) b1 (s_bank sj').
Proof.
  intros V Hp Hc sj sj' Hid He H0 M.
  destruct (every_call_of_every_history cfg s calls V Hp pre c post Hc) as [_ [_ H]].
  destruct (H Hid He H0) as [Hprov [_ Hex]]. split; [|exact Hex].
  subst M sj' sj. unfold minted_at. rewrite Hprov. reflexivity.
Qed.
