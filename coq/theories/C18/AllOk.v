(* C18: a sufficient condition, on the initial state only, for a whole history of consecutive epochs to succeed:
   simple pool-incentives configuration (no records or one record), creditable receivers, non-negative mint and
   pool-incentives balances, and a vesting balance of at least n times the first developer share (provisions never
   grow because the factor is at most 1).  Discharges the [all_ok] hypothesis of the schedule theorem. *)
From Coq Require Import ZArith List Bool Lia Arith.
Import ListNotations.
From Osmo Require Import Base.DecModel C18.Model C18.Proofs C18.ProofsRun C18.Liveness C18.Witness.
Open Scope Z_scope.

Lemma chop_round_nonneg_le a p : 0 <= a -> 0 <= p -> a <= p * P18 -> chop_round_nonneg P18 a <= p.
Proof.
  intros Ha Hp Hle. pose proof P18_pos as HP. unfold chop_round_nonneg.
  pose proof (Z.quot_rem' a P18) as Hqr.
  pose proof (Z.rem_bound_pos a P18 Ha HP) as Hr.
  assert (Hq : 0 <= Z.quot a P18) by (apply Z.quot_pos; lia).
  destruct (Z.rem a P18 =? 0) eqn:E0.
  - apply Z.eqb_eq in E0. nia.
  - apply Z.eqb_neq in E0. assert (Z.quot a P18 + 1 <= p) by nia.
    destruct (Z.rem a P18 ?= Z.quot P18 2); try lia.
    destruct (Z.even (Z.quot a P18)); lia.
Qed.

Lemma d_mul_le p f : 0 <= p -> 0 <= f <= P18 -> d_mul p f <= p.
Proof.
  intros Hp Hf. unfold d_mul, chop_round.
  destruct (p * f <? 0) eqn:E; [apply Z.ltb_lt in E; nia|].
  apply chop_round_nonneg_le; nia.
Qed.

Lemma d_truncate_int_mono a b : 0 <= a -> a <= b -> d_truncate_int a <= d_truncate_int b.
Proof. intros. unfold d_truncate_int. apply Z.quot_le_mono; [apply P18_pos|assumption]. Qed.

Lemma share_mono a b r : 0 <= r -> a <= b -> share a r <= share b r.
Proof. intros. unfold share. apply Z.div_le_mono; [apply P18_pos|nia]. Qed.

Lemma next_prov_le cfg s e : valid_cfg cfg -> 0 <= s_prov s -> next_prov cfg s e <= s_prov s.
Proof.
  intros V Hp. unfold next_prov. destruct (reduces cfg s e); [|lia].
  apply d_mul_le; [assumption|apply (v_factor _ V)].
Qed.

(* the developer share of the current provision, were it minted now *)
Definition dev_now (cfg : config) (s : state) : Z := dev_of cfg (d_truncate_int (s_prov s)).

Lemma dev_now_nonneg cfg s : valid_cfg cfg -> 0 <= s_prov s -> 0 <= dev_now cfg s.
Proof. intros V Hp. apply share_nonneg; [apply d_truncate_int_nonneg; assumption|apply (v_dev _ V)]. Qed.

Lemma dev_at_le_now cfg s e : valid_cfg cfg -> 0 <= s_prov s -> dev_of cfg (minted_at cfg s e) <= dev_now cfg s.
Proof.
  intros V Hp. unfold dev_now, dev_of, minted_at. apply share_mono; [apply (v_dev _ V)|].
  apply d_truncate_int_mono; [apply next_prov_nonneg; assumption|apply next_prov_le; assumption].
Qed.

Definition simple_hook (cfg : config) : Prop :=
  d_total cfg = 0 \/ exists g w, d_records cfg = [(g, w)] /\ d_total cfg = w /\ 0 < w.

Lemma simple_hook_fits cfg asset : simple_hook cfg -> 0 <= asset -> hook_fits cfg asset.
Proof.
  intros [H|[g [w [Hr [Ht Hw]]]]] Ha; [apply no_records_fits; assumption|].
  eapply single_record_fits; eassumption.
Qed.

Record funded (cfg : config) (s : state) (n : Z) : Prop := {
  fd_prov : 0 <= s_prov s;
  fd_mint : 0 <= bal (s_bank s) AMint;
  fd_pool : 0 <= bal (s_bank s) APool;
  fd_vest : n * dev_now cfg s <= bal (s_bank s) AVest }.

Lemma consec_cons e0 n : consec e0 (S n) = (true, e0) :: consec (e0 + 1) n.
Proof.
  unfold consec. cbn [seq map]. f_equal; [f_equal; lia|].
  rewrite <- seq_shift, map_map. apply map_ext. intros i. f_equal. lia.
Qed.

Lemma funded_step cfg s e n :
  valid_cfg cfg -> simple_hook cfg -> no_blocked (p_recv cfg) -> 0 <= n ->
  funded cfg s (n + 1) ->
  snd (step cfg s (true, e)) = 0 /\ funded cfg (fst (step cfg s (true, e))) n.
Proof.
  intros V Hh Hnb Hn [Fp Fm Fpool Fv].
  pose proof (dev_now_nonneg cfg s V Fp) as Hd.
  destruct (Z_lt_ge_dec e (p_start cfg)) as [Hlt|Hge].
  - rewrite step_before_start by (right; assumption). cbn [fst snd]. split; [reflexivity|].
    constructor; try assumption. nia.
  - apply Z.ge_le in Hge.
    pose proof (dev_at_le_now cfg s e V Fp) as Hle.
    assert (HM : 0 <= minted_at cfg s e) by (apply minted_at_nonneg; assumption).
    destruct (no_spurious_failure cfg s e V Fp Hge Fm Fpool Hnb) as [s' Hs'].
    + nia.
    + apply simple_hook_fits; [assumption|]. pose proof (share_nonneg _ _ HM (v_pool _ V)). lia.
    + unfold step. cbn [fst snd]. rewrite Hs'. cbn [fst snd]. split; [reflexivity|].
      destruct (mint_epoch_spec _ _ _ _ V Fp Hge Hs') as [Hprov [_ [b1 ME]]].
      destruct (split_final _ _ _ _ V Fp Hge Hs') as [_ [_ [Hvest [_ [_ [_ Hmint]]]]]].
      destruct (community_gets_remainder _ _ _ _ V Fp Hge Fpool Hs') as [_ [_ [_ [_ [Hpool' _]]]]].
      assert (Hp' : 0 <= s_prov s') by (rewrite Hprov; apply next_prov_nonneg; assumption).
      assert (Hnow' : dev_now cfg s' <= dev_now cfg s).
      { unfold dev_now, dev_of. apply share_mono; [apply (v_dev _ V)|].
        apply d_truncate_int_mono; [assumption|]. rewrite Hprov. apply next_prov_le; assumption. }
      pose proof (dev_now_nonneg cfg s' V Hp') as Hd'.
      assert (Hpaid : dev_paid cfg (dev_of cfg (minted_at cfg s e)) <= dev_of cfg (minted_at cfg s e)).
      { apply dev_paid_le; [assumption|]. apply share_nonneg; [assumption|apply (v_dev _ V)]. }
      constructor; try lia. cbn zeta in Hvest. rewrite Hvest. nia.
Qed.

Theorem funded_history_succeeds cfg : valid_cfg cfg -> simple_hook cfg -> no_blocked (p_recv cfg) ->
  forall n s e0, funded cfg s (Z.of_nat n) -> all_ok cfg s (consec e0 n).
Proof.
  intros V Hh Hnb. induction n as [|n IH]; intros s e0 F; [exact I|].
  rewrite consec_cons. cbn [all_ok].
  rewrite Nat2Z.inj_succ in F. replace (Z.succ (Z.of_nat n)) with (Z.of_nat n + 1) in F by lia.
  destruct (funded_step cfg s e0 (Z.of_nat n) V Hh Hnb ltac:(lia) F) as [Hc F'].
  split; [exact Hc|]. apply IH. exact F'.
Qed.

(* the schedule theorem with hypotheses on the initial state only *)
Theorem schedule_from_initial_state cfg s e0 n :
  valid_cfg cfg -> simple_hook cfg -> no_blocked (p_recv cfg) ->
  history_start_ok cfg s e0 -> funded cfg s (Z.of_nat (S n)) ->
  let e := e0 + Z.of_nat n in
  let before := run cfg s (consec e0 n) in
  let after := run cfg s (consec e0 (S n)) in
  p_start cfg <= e ->
  (reduces cfg before e = true <-> exists k, 1 <= k /\ e = p_start cfg + k * p_period cfg) /\
  s_prov after = (if reduces cfg before e then d_mul (s_prov before) (p_factor cfg) else s_prov before) /\
  s_last after = p_start cfg + reductions_until cfg e * p_period cfg /\
  s_prov after = iter_reduce (Z.to_nat (reductions_until cfg e)) (p_factor cfg) (s_prov s).
Proof.
  intros V Hh Hnb Hs F. apply reduction_exactly_at; try assumption.
  apply funded_history_succeeds; assumption.
Qed.

(* non-vacuity: the F3 witness state funds 1000 consecutive epochs of its configuration *)
Lemma w_funded : valid_cfg w_cfg /\ simple_hook w_cfg /\ no_blocked (p_recv w_cfg) /\
  history_start_ok w_cfg w_state 1 /\ funded w_cfg w_state 1000.
Proof.
  split; [exact w_cfg_valid|]. split; [left; reflexivity|].
  split; [repeat constructor; discriminate|].
  split; [right; vm_compute; repeat split; discriminate|].
  constructor; vm_compute; discriminate.
Qed.
