(* C03, the lower half of the rounding sandwich, integer level: how much a bucket step of an exact-in swap can CONSUME for the
   price move it makes.  (ErrorBound.v bounds the amount in of the step; here the spread charge and, for the step that does not
   reach its target, the reverse of Steps.v's next-price lemmas: the new price is within one unit of the 36th decimal of where
   the remaining amount pays for.) *)
From Coq Require Import ZArith List Bool Lia.
Import ListNotations.
From Osmo Require Import Base.DecModel CL.TickMath CL.CLMath CL.CLPool CL.CLSwap.
From Osmo Require Import C07.Base C07.TickLemmas C07.LP C07.SwapDir C07.Swap C03.Rounding C03.Steps C03.ErrorBound C03.Path.
From Osmo Require Import C01.SwapPath.
Open Scope Z_scope.
Set Default Timeout 120.

(* ---------- the spread charge on an amount in is less than amount * f / (1 - f) + amount * 10^-18 + 10^-18 ---------- *)
Lemma ceil_quot_ub : forall m b, 0 <= m -> 0 < b ->
  (if 0 <? Z.rem m b then Z.quot m b + 1 else Z.quot m b) * b < m + b.
Proof.
  intros m b Hm Hb. destruct (quot_rem_pos m b Hm Hb) as [A [B C]].
  destruct (0 <? Z.rem m b) eqn:E; [apply Z.ltb_lt in E|apply Z.ltb_ge in E]; nia.
Qed.

Lemma fee_from_amount_in_ub : forall ain spf fee, 0 <= ain -> 0 <= spf < P18 ->
  fee_from_amount_in ain spf = Some fee -> (ain + fee) * (P18 - spf) < ain * P18 + ain + P18.
Proof.
  intros ain spf fee Ha Hs H. unfold fee_from_amount_in, spf_over_one_minus_spf, one_minus_spf in H. oinv H. oinv E.
  apply dchk_some in E, H. subst z fee.
  unfold d_mul_round_up, d_chop_round_up, d_quo_round_up.
  assert (HP : 0 < P18) by (rewrite P18_val; lia).
  set (P := P18) in *. clearbody P.
  assert (Hm : 0 <= spf * P) by (apply Z.mul_nonneg_nonneg; lia).
  pose proof (ceil_quot_ub (spf * P) (P - spf) Hm ltac:(lia)) as K1.
  destruct (ceil_quot_spec (spf * P) (P - spf) Hm ltac:(lia)) as [_ K2]. cbv zeta in K2.
  pose proof (Z.quot_pos (spf * P) (P - spf) Hm ltac:(lia)) as Qp.
  pose proof (Z.rem_nonneg (spf * P) (P - spf) ltac:(lia) Hm) as Rp.
  assert (Eq : (Z.quot (spf * P) (P - spf) <? 0) = false) by (apply Z.ltb_ge; lia).
  assert (Eb : (P - spf <? 0) = false) by (apply Z.ltb_ge; lia).
  assert (Er : (Z.rem (spf * P) (P - spf) <? 0) = false) by (apply Z.ltb_ge; lia).
  rewrite Eq, Eb, Er. simpl. rewrite ?andb_true_r, ?andb_false_l, ?orb_false_r.
  set (k := if 0 <? Z.rem (spf * P) (P - spf) then Z.quot (spf * P) (P - spf) + 1 else Z.quot (spf * P) (P - spf)) in *. clearbody k.
  assert (Hak : 0 <= ain * k) by (apply Z.mul_nonneg_nonneg; lia).
  destruct (ain * k <? 0) eqn:En; [apply Z.ltb_lt in En; lia|].
  destruct (quot_rem_pos (ain * k) P Hak HP) as [A [B C]].
  set (Q := Z.quot (ain * k) P) in *. set (R := Z.rem (ain * k) P) in *. clearbody Q R.
  set (f := if R =? 0 then Q else Q + 1).
  assert (F : f * P < ain * k + P /\ 0 <= f).
  { unfold f. destruct (R =? 0) eqn:ER; [apply Z.eqb_eq in ER|apply Z.eqb_neq in ER]; split; nia. }
  destruct F as [F1 F2]. clearbody f.
  (* k (P - spf) <= spf P + (P - spf) - 1 *)
  assert (S1 : ain * (k * (P - spf)) <= ain * (spf * P + (P - spf))) by (apply Z.mul_le_mono_nonneg_l; lia).
  assert (S2 : (f * P) * (P - spf) < (ain * k + P) * (P - spf)) by (apply Z.mul_lt_mono_pos_r; lia).
  assert (S3 : (ain + f) * (P - spf) * P < (ain * P + ain + P) * P).
  { assert (S4 : (ain + P) * (P - spf) <= (ain + P) * P) by (apply Z.mul_le_mono_nonneg_l; lia). nia. }
  apply (Z.mul_lt_mono_pos_r P); assumption.
Qed.

(* ---------- the exact-in next-price formulas do not stop short of where the amount pays for by more than one unit of the
   36th decimal of the sqrt price (plus rounding dust) ---------- *)
Lemma next_amount0_in_rev : forall cur liq36 amt next, 0 < liq36 -> 0 < cur -> 0 <= amt ->
  next_sqrt_price_amount0_in_round_up cur liq36 amt = Some next ->
  amt * next * cur < liq36 * (cur - next) * P36 + P36 * (next + P36 + liq36) + amt * cur.
Proof.
  unfold next_sqrt_price_amount0_in_round_up. intros cur liq36 amt next Hl Hc Ha H.
  pose proof P36_pos as HP.
  destruct (amt =? 0) eqn:E0.
  { apply Z.eqb_eq in E0. inversion H; subst. nia. }
  destruct (bd_chk (bd_mul_truncate amt cur)) as [product|] eqn:E1; [|discriminate].
  destruct (bd_chk (bd_mul_round_up liq36 cur)) as [num|] eqn:E2; [|discriminate].
  destruct (nz (product + liq36)); [|discriminate].
  apply bd_chk_some in E1, E2, H. subst.
  unfold bd_mul_truncate, bd_mul_round_up, chop_trunc, bd_quo_round_up_mut, bd_quo_round_up in *.
  set (P := P36) in *. clearbody P.
  destruct (trunc_div_spec (amt * cur) P ltac:(apply Z.mul_nonneg_nonneg; lia) HP) as [[A1 A2] A3].
  set (product := Z.quot (amt * cur) P) in *. clearbody product.
  destruct (chop_round_up_nonneg_spec P (liq36 * cur) HP ltac:(apply Z.mul_nonneg_nonneg; lia)) as [N1 N2].
  set (num := chop_round_up P (liq36 * cur)) in *. clearbody num.
  assert (Hnum : 0 < num) by nia.
  destruct (ceil_div_spec (num * P) (product + liq36) ltac:(nia) ltac:(lia)) as [[B1 B2] B3].
  set (nx := inc_rem_div (Z.rem (num * P) (product + liq36)) (product + liq36) (Z.quot (num * P) (product + liq36))) in *. clearbody nx.
  assert (Hnx : 0 < nx) by nia.
  (* nx (product + liq36) < num P + product + liq36 < liq36 cur + P + product + liq36 *)
  assert (S1 : nx * product < liq36 * (cur - nx) + P + product + liq36) by lia.
  assert (S2 : nx * product * P < (liq36 * (cur - nx) + P + product + liq36) * P) by (apply Z.mul_lt_mono_pos_r; lia).
  assert (S3 : nx * (amt * cur) < nx * (product * P + P)) by (apply Z.mul_lt_mono_pos_l; lia).
  assert (S4 : product * P <= amt * cur) by lia.
  lia.
Qed.

Lemma next_amount1_in_rev : forall cur liq amt next, 0 < liq -> 0 <= amt ->
  next_sqrt_price_amount1_in_round_down cur liq amt = Some next ->
  amt * P18 < liq * (next - cur) + liq.
Proof.
  unfold next_sqrt_price_amount1_in_round_down. intros cur liq amt next Hl Ha H.
  destruct (nz liq); [|discriminate]. destruct (bd_chk _) as [q|] eqn:E; [|discriminate]. inversion H; subst.
  apply bd_chk_some in E. subst q. unfold bd_quo_truncate_dec. pose proof P18_pos.
  destruct (trunc_div_spec (amt * P18) liq ltac:(apply Z.mul_nonneg_nonneg; lia) Hl) as [[A1 A2] A3]. lia.
Qed.

(* ---------- one bucket step of an exact-in swap: what it consumes (amount in + spread charge = g), less the spread factor,
   is either less than the amount in + amount in * 10^-18 + 10^-18, or - the step that spends everything that is left without
   reaching its target - less than what the move to the next representable price would cost ---------- *)
Definition gross_at_most (zfo : bool) (spf liq cur next ain g : Z) : Prop :=
  g * (P18 - spf) < ain * P18 + ain + P18 \/
  0 < liq /\
  (if zfo then g * (P18 - spf) * next * cur < liq * P18 * (cur - next) * P36 + P36 * (next + P36 + liq * P18) + g * (P18 - spf) * cur
   else g * (P18 - spf) * P18 < liq * (next - cur) + liq).

Lemma out_given_in_step_gross : forall zfo spf cur target liq remaining next ain aout fee,
  compute_out_given_in zfo spf cur target liq remaining = Some (next, ain, aout, fee) ->
  0 <= liq -> 0 < cur -> 0 < next -> 1 < remaining -> 0 <= spf <= 500000000000000000 ->
  gross_at_most zfo spf liq cur next ain (ain + fee).
Proof.
  intros zfo spf cur target liq remaining next ain aout fee H Hl Hc Hn Hr Hs.
  pose proof P18_pos as H18. pose proof P36_pos as H36.
  assert (Hs' : 0 <= spf < P18) by (rewrite P18_val; lia).
  pose proof (rlf_lb remaining spf Hr Hs) as Hrlf. change (10 ^ 18) with 1000000000000000000 in Hrlf.
  unfold compute_out_given_in in H.
  assert (Tail : forall xin reached,
     (if zfo then calc_amount0_delta liq next cur true else calc_amount1_delta liq next cur true) = Some xin ->
     fee_out_given_in reached (bd_to_dec_round_up xin) remaining spf = Some fee ->
     (reached = false -> spf <> 0 -> 0 < liq /\
        if zfo then remaining * (P18 - spf) * next * cur < liq * P18 * (cur - next) * P36 + P36 * (next + P36 + liq * P18) + remaining * (P18 - spf) * cur
        else remaining * (P18 - spf) * P18 < liq * (next - cur) + liq) ->
     gross_at_most zfo spf liq cur next (bd_to_dec_round_up xin) (bd_to_dec_round_up xin + fee)).
  { intros xin reached Ein Efee Hnr.
    destruct (amount_in_covers zfo liq cur next xin _ Hl Hc Hn Ein eq_refl) as [I1 _].
    unfold fee_out_given_in in Efee. unfold gross_at_most.
    destruct (spf =? 0) eqn:Ez.
    - apply Z.eqb_eq in Ez. inversion Efee; subst fee spf. left. lia.
    - apply Z.eqb_neq in Ez. destruct (spf <? 0); [discriminate|].
      destruct reached.
      + destruct (fee_from_amount_in (bd_to_dec_round_up xin) spf) as [f|] eqn:EF; [|discriminate].
        destruct (f <? 0) eqn:Ef; [discriminate|]. inversion Efee; subst f.
        left. apply fee_from_amount_in_ub; assumption.
      + destruct (dchk (remaining - bd_to_dec_round_up xin)) as [f|] eqn:EF; [|discriminate].
        apply dchk_some in EF. subst f. destruct (remaining - bd_to_dec_round_up xin <? 0) eqn:Ef; [discriminate|].
        inversion Efee; subst fee. right.
        replace (bd_to_dec_round_up xin + (remaining - bd_to_dec_round_up xin)) with remaining by lia.
        apply Hnr; [reflexivity|assumption]. }
  destruct zfo.
  - destruct (calc_amount0_delta liq target cur true) as [a0|] eqn:E0; [|discriminate].
    destruct (a0 <=? bd_from_dec_mul_dec remaining (one_minus_spf spf)) eqn:Ecmp.
    + rewrite Z.eqb_refl in H. destruct (calc_amount1_delta liq target cur false) as [xo|] eqn:Eo; [|discriminate].
      destruct (fee_out_given_in true (bd_to_dec_round_up a0) remaining spf) as [f|] eqn:EF; [|discriminate].
      inversion H; subst. apply (Tail a0 true E0 EF). intros; discriminate.
    + apply Z.leb_gt in Ecmp.
      destruct (next_sqrt_price_amount0_in_round_up cur (bd_from_dec liq) (bd_from_dec_mul_dec remaining (one_minus_spf spf))) as [nx|] eqn:En; [|discriminate].
      assert (Hlp : 0 < liq).
      { destruct (Z.eq_dec liq 0) as [Z0|Z0]; [|lia]. subst liq. apply calc_amount0_delta_zero_liq in E0. lia. }
      assert (Hl36 : 0 < bd_from_dec liq) by (unfold bd_from_dec; nia).
      assert (Hamt : 0 <= bd_from_dec_mul_dec remaining (one_minus_spf spf)) by lia.
      pose proof (next_amount0_in_rev _ _ _ _ Hl36 Hc Hamt En) as Rev.
      set (reached := target =? nx) in *.
      destruct (if reached then Some a0 else calc_amount0_delta liq nx cur true) as [xin|] eqn:Ein; [|discriminate].
      destruct (calc_amount1_delta liq nx cur false) as [xo|] eqn:Eo; [|discriminate].
      destruct (fee_out_given_in reached (bd_to_dec_round_up xin) remaining spf) as [f|] eqn:EF; [|discriminate].
      inversion H; subst nx ain aout f. clear H.
      assert (Ein' : calc_amount0_delta liq next cur true = Some xin).
      { destruct reached eqn:ER; [|exact Ein]. unfold reached in ER. apply Z.eqb_eq in ER. subst target. inversion Ein; subst. exact E0. }
      apply (Tail xin reached Ein' EF). intros _ _.
      unfold bd_from_dec_mul_dec, one_minus_spf, bd_from_dec in Rev. split; [exact Hlp|exact Rev].
  - destruct (calc_amount1_delta liq target cur true) as [a0|] eqn:E0; [|discriminate].
    destruct (a0 <=? bd_from_dec_mul_dec remaining (one_minus_spf spf)) eqn:Ecmp.
    + rewrite Z.eqb_refl in H. destruct (calc_amount0_delta liq target cur false) as [xo|] eqn:Eo; [|discriminate].
      destruct (fee_out_given_in true (bd_to_dec_round_up a0) remaining spf) as [f|] eqn:EF; [|discriminate].
      inversion H; subst. apply (Tail a0 true E0 EF). intros; discriminate.
    + destruct (next_sqrt_price_amount1_in_round_down cur liq (bd_from_dec_mul_dec remaining (one_minus_spf spf))) as [nx|] eqn:En; [|discriminate].
      assert (Hlp : 0 < liq).
      { unfold next_sqrt_price_amount1_in_round_down in En. destruct (nz liq) eqn:Enz; [|discriminate]. apply nz_some in Enz. lia. }
      assert (Hamt : 0 <= bd_from_dec_mul_dec remaining (one_minus_spf spf)) by lia.
      pose proof (next_amount1_in_rev _ _ _ _ Hlp Hamt En) as Rev.
      set (reached := target =? nx) in *.
      destruct (if reached then Some a0 else calc_amount1_delta liq nx cur true) as [xin|] eqn:Ein; [|discriminate].
      destruct (calc_amount0_delta liq nx cur false) as [xo|] eqn:Eo; [|discriminate].
      destruct (fee_out_given_in reached (bd_to_dec_round_up xin) remaining spf) as [f|] eqn:EF; [|discriminate].
      inversion H; subst nx ain aout f. clear H.
      assert (Ein' : calc_amount1_delta liq next cur true = Some xin).
      { destruct reached eqn:ER; [|exact Ein]. unfold reached in ER. apply Z.eqb_eq in ER. subst target. inversion Ein; subst. exact E0. }
      apply (Tail xin reached Ein' EF). intros _ _.
      unfold bd_from_dec_mul_dec, one_minus_spf in Rev. split; [exact Hlp|exact Rev].
Qed.

(* ---------- along the trace of an exact-in swap ---------- *)
Definition seg3_ok (s : state) (zfo : bool) (sg : seg) : Prop :=
  in_at_most zfo (sg_liq sg) (sg_a sg) (sg_b sg) (sg_in sg) /\ out_at_least zfo (sg_liq sg) (sg_a sg) (sg_b sg) (sg_out sg) /\
  gross_at_most zfo (p_spread (s_pool s)) (sg_liq sg) (sg_a sg) (sg_b sg) (sg_in sg) (sg_in sg + sg_fee sg) /\
  (zfo = true -> 10 ^ 30 <= sg_a sg /\ 10 ^ 30 <= sg_b sg).

Lemma loop_out_path3 : forall s fuel zfo accum sc limit st iter noprog st' tr, Inv s ->
  sqrt_price_limit zfo = Some limit -> LI s zfo st iter ->
  loop_out_trace fuel zfo accum (p_spread (s_pool s)) sc limit st iter noprog = Some (st', tr) ->
  Forall (seg3_ok s zfo) tr.
Proof.
  intros s fuel. induction fuel as [|f IH]; intros zfo accum sc limit st iter noprog st' tr I HL L H; simpl in H; [discriminate|].
  destruct ((smallest_dec <? ss_remaining st) && negb (ss_sqrt st =? limit)) eqn:Econd.
  2:{ inversion H; subst. constructor. }
  apply andb_true_iff in Econd. destruct Econd as [Erem _]. apply Z.ltb_lt in Erem. unfold smallest_dec in Erem.
  destruct iter as [|[nt info] rest]; [discriminate|].
  destruct (tick_to_sqrt_price nt) as [nts|] eqn:Snt; [|discriminate].
  destruct (LI_facts s zfo st nt info rest nts I L Snt) as [Fl [Fr Fz]].
  rewrite (sqrt_target_next zfo limit nt nts HL Fr Snt) in H.
  destruct (compute_out_given_in zfo (p_spread (s_pool s)) (ss_sqrt st) nts (ss_liq st) (ss_remaining st)) as [[[[computed ain] aout] fee]|] eqn:EC; [|discriminate].
  destruct (negb (progress_ok computed (ss_sqrt st) ain aout)); [discriminate|].
  destruct (dchk (ain + fee)) as [infee|] eqn:Ei; [|discriminate]. apply dchk_some in Ei. subst infee.
  destruct (after_step zfo accum sc st ((nt, info) :: rest) nt info nts computed (ain + fee) aout fee) as [[st1 iter1]|] eqn:EA; [|discriminate].
  pose proof L as L0. destruct L0 as [L1 [L2 [L3 L4]]].
  assert (L' : LI s zfo st1 iter1).
  { eapply after_step_LI; try eassumption; try reflexivity.
    destruct (compute_out_given_in_dir _ _ _ _ _ _ _ _ _ _ EC Fl L2 Erem (inv_spread s I) Fz) as [D|D]; [left; assumption|right; right; assumption]. }
  destruct (after_step_sqrt_rem _ _ _ _ _ _ _ _ _ _ _ _ _ _ EA) as [Q1 [Q2 Q3]].
  assert (Cpos : 0 < computed) by (destruct L' as [_ [P _]]; rewrite Q1 in P; exact P).
  destruct (out_given_in_step_error _ _ _ _ _ _ _ _ _ _ EC Fl L2 Cpos) as [S1 S2].
  pose proof (out_given_in_step_gross _ _ _ _ _ _ _ _ _ _ EC Fl L2 Cpos Erem (inv_spread s I)) as S3.
  assert (S4 : zfo = true -> 10 ^ 30 <= ss_sqrt st /\ 10 ^ 30 <= computed).
  { intros Ez. split; [apply Fz; exact Ez|]. subst zfo.
    assert (Dir : computed = nts \/ computed = ss_sqrt st \/ dir_ok true (ss_sqrt st) computed).
    { destruct (compute_out_given_in_dir _ _ _ _ _ _ _ _ _ _ EC Fl L2 Erem (inv_spread s I) Fz) as [D|D]; [left; assumption|right; right; assumption]. }
    pose proof (after_step_b_side _ _ _ _ _ _ _ _ _ _ _ _ _ _ _ I L Snt Dir EA) as BS.
    destruct (iter_ok_head _ _ _ _ _ _ L4) as [Hin [Hb _]]. unfold beyond in Hb. apply Z.leb_le in Hb.
    destruct (BS nt info nts Hin Snt) as [A _]. specialize (A Hb).
    pose proof (tick_to_sqrt_price_mono MinInitializedTick nt _ nts ltac:(lia) ltac:(lia) ltac:(lia) sqrt_min_val Snt). lia. }
  assert (SegOk : seg3_ok s zfo (mkSeg (ss_liq st) (ss_tick st) (ss_sqrt st) computed ain aout fee)).
  { unfold seg3_ok; simpl. splits; assumption. }
  assert (Rec : forall np, (do rr <- loop_out_trace f zfo accum (p_spread (s_pool s)) sc limit st1 iter1 np;
                            Some (fst rr, mkSeg (ss_liq st) (ss_tick st) (ss_sqrt st) computed ain aout fee :: snd rr)) = Some (st', tr) ->
          Forall (seg3_ok s zfo) tr).
  { intros np HR. destruct (loop_out_trace f zfo accum (p_spread (s_pool s)) sc limit st1 iter1 np) as [[st2 tr2]|] eqn:ER; [|discriminate].
    inversion HR; subst st' tr; clear HR. simpl fst; simpl snd.
    constructor; [assumption|]. exact (IH _ _ _ _ _ _ _ _ _ I HL L' ER). }
  destruct (ain =? 0).
  - destruct (swap_no_progress_limit <=? noprog); [discriminate|]. apply (Rec _ H).
  - apply (Rec _ H).
Qed.

(* the prices of a segment with liquidity are sqrt prices of the tick range: at least 10^-6 *)
Lemma sum_liq_pos_member : forall f l, Forall (fun p => 0 < ps_liq p) l -> 0 < sum_liq f l ->
  exists p, In p l /\ f (ps_lower p) (ps_upper p) = true.
Proof.
  induction l as [|p l IH]; intros F H; simpl in H; [lia|]. inversion F; subst.
  unfold wt in H. destruct (f (ps_lower p) (ps_upper p)) eqn:E.
  - exists p. split; [left; reflexivity|assumption].
  - destruct (IH H3 ltac:(lia)) as [q [A B]]. exists q. split; [right; assumption|assumption].
Qed.

Lemma seg_prices_liq : forall s zfo sg, Inv s -> seg_ok s zfo sg -> seg2_ok s zfo sg -> 0 < sg_liq sg ->
  10 ^ 30 <= sg_a sg /\ 10 ^ 30 <= sg_b sg.
Proof.
  intros s zfo sg I [SL [_ [_ [_ [PC _]]]]] [_ [_ [_ [BS _]]]] HL. rewrite SL in HL.
  destruct (sum_liq_pos_member _ _ (pos_ok_liq _ _ _ (inv_pos_ok s I)) HL) as [p [Hp Hr]].
  unfold f_range in Hr. apply andb_true_iff in Hr. destruct Hr as [Hlo _]. apply Z.leb_le in Hlo.
  pose proof (inv_pos_ok s I) as F. rewrite Forall_forall in F. destruct (F p Hp) as [_ [_ V]].
  apply validate_tick_range_spec in V. destruct V as [_ [Rl [_ [Bl _]]]].
  destruct (tick_to_sqrt_price_defined (ps_lower p) ltac:(lia)) as [sl El].
  pose proof (tick_to_sqrt_price_mono MinInitializedTick (ps_lower p) _ sl ltac:(lia) ltac:(lia) ltac:(lia) sqrt_min_val El) as M.
  destruct (PC _ _ Rl ltac:(lia) El) as [A _]. specialize (A Hlo).
  destruct (boundary_stored s p I Hp) as [[v Sv] _]. destruct (BS _ _ _ Sv El) as [B _]. specialize (B Hlo).
  split; lia.
Qed.

(* ---------- the step's consumption in one inequality (cross-multiplied): with K = 10^18, n = next, c = cur,
     token0 in:  g (K - f) / K^2  <  L d K / (n c) + 1 + (K^2 + c) / (n c) + L K / (n c) + g / K^2 + 1 / K
     token1 in:  g (K - f) / K^2  <  L d / K^3 + 1 + 1 / (2 K^2) + L / K^3 + g / K^2 + 1 / K ---------- *)
Definition step_consumes (zfo : bool) (spf liq cur next g : Z) : Prop :=
  if zfo then
    g * (P18 - spf) * next * cur * P18 <
      liq * (cur - next) * (P18 * P18 * (P18 * P18)) + next * cur * (P18 * P18 * P18) + (P18 * P18 + cur) * (P18 * P18 * P18) +
      liq * (P18 * P18 * (P18 * P18)) + g * next * cur * P18 + next * cur * (P18 * P18)
  else
    2 * g * (P18 - spf) * P18 < 2 * liq * (next - cur) + 2 * (P18 * P18 * P18) + P18 + 2 * liq + 2 * g * P18 + 2 * (P18 * P18).

Lemma P36_sq : P36 = P18 * P18. Proof. reflexivity. Qed.

Lemma step_consumes_of : forall (zfo : bool) (spf liq cur next ain g : Z),
  0 <= liq -> 0 < next -> 0 < cur -> 0 <= ain <= g -> 0 <= spf < P18 ->
  (if zfo then next <= cur /\ P18 <= next else cur <= next) ->
  in_at_most zfo liq cur next ain -> gross_at_most zfo spf liq cur next ain g ->
  step_consumes zfo spf liq cur next g.
Proof.
  intros zfo spf liq cur next ain g Hl Hn Hc Ha Hs Hd IA GA.
  unfold step_consumes, in_at_most, gross_at_most in *. rewrite P36_sq in *.
  pose proof P18_pos as HK. set (K := P18) in *. clearbody K.
  destruct zfo.
  - destruct Hd as [Hd Hkn]. rewrite Z.abs_eq in IA by lia. rewrite Z.max_r in IA by lia.
    assert (N0 : 0 <= next * cur) by (apply Z.mul_nonneg_nonneg; lia).
    assert (N1 : 0 < next * cur * K) by (apply Z.mul_pos_pos; [apply Z.mul_pos_pos|]; lia).
    assert (N2 : 0 <= next * cur * (K * K * K)) by (repeat apply Z.mul_nonneg_nonneg; lia).
    assert (N3 : 0 <= next * cur * (K * K)) by (repeat apply Z.mul_nonneg_nonneg; lia).
    assert (N4 : 0 <= liq * (K * K * (K * K))) by (repeat apply Z.mul_nonneg_nonneg; lia).
    destruct GA as [GA|[Hlp GA]].
    + assert (A1 : g * (K - spf) * (next * cur * K) < (ain * K + ain + K) * (next * cur * K)) by (apply Z.mul_lt_mono_pos_r; assumption).
      assert (A2 : ain * (next * cur * K) <= g * (next * cur * K)) by (apply Z.mul_le_mono_nonneg_r; lia).
      lia.
    + assert (B1 : g * (K - spf) * next * cur * K <
                   (liq * K * (cur - next) * (K * K) + K * K * (next + K * K + liq * K) + g * (K - spf) * cur) * K)
        by (apply Z.mul_lt_mono_pos_r; assumption).
      assert (B2 : g * (K - spf) * (cur * K) <= g * next * (cur * K)).
      { apply Z.mul_le_mono_nonneg_r; [apply Z.mul_nonneg_nonneg; lia|]. apply Z.mul_le_mono_nonneg_l; lia. }
      assert (B3 : next * (K * K * K) <= cur * (K * K * K)) by (apply Z.mul_le_mono_nonneg_r; [repeat apply Z.mul_nonneg_nonneg; lia|assumption]).
      lia.
  - rewrite Z.abs_neq in IA by lia.
    assert (N1 : 0 <= K * K * K) by (repeat apply Z.mul_nonneg_nonneg; lia).
    assert (N2 : 0 <= g * K) by (apply Z.mul_nonneg_nonneg; lia).
    destruct GA as [GA|[Hlp GA]].
    + assert (A1 : g * (K - spf) * K < (ain * K + ain + K) * K) by (apply Z.mul_lt_mono_pos_r; assumption).
      assert (A2 : ain * K <= g * K) by (apply Z.mul_le_mono_nonneg_r; lia).
      lia.
    + assert (N3 : 0 <= K * K) by (apply Z.mul_nonneg_nonneg; lia). lia.
Qed.

(* ====================================================================================================================
   exact-out swaps: the price does not move further than delivering the remaining amount needs, up to one unit of the
   36th decimal of the sqrt price
   ==================================================================================================================== *)
Lemma next_amount1_out_rev : forall cur liq amt next, 0 < liq -> 0 <= amt ->
  next_sqrt_price_amount1_out_round_down cur liq amt = Some next ->
  liq * (cur - next) < amt * P18 + liq.
Proof.
  unfold next_sqrt_price_amount1_out_round_down. intros cur liq amt next Hl Ha H.
  destruct (nz liq); [|discriminate]. destruct (bd_chk _) as [q|] eqn:E; [|discriminate]. inversion H; subst.
  apply bd_chk_some in E. subst q. unfold bd_quo_by_dec_round_up. pose proof P18_pos.
  destruct (ceil_div_spec (amt * P18) liq ltac:(apply Z.mul_nonneg_nonneg; lia) Hl) as [[A1 A2] A3].
  set (q := inc_rem_div (Z.rem (amt * P18) liq) liq (Z.quot (amt * P18) liq)) in *. clearbody q.
  replace (cur - (cur - q)) with q by ring. lia.
Qed.

Lemma next_amount0_out_rev : forall cur liq36 amt18 next, 0 < liq36 -> 0 < cur -> 0 <= amt18 -> 0 < next ->
  next_sqrt_price_amount0_out_round_up cur liq36 amt18 = Some next ->
  liq36 * (next - cur) * P36 < amt18 * P18 * next * cur + P36 * (next + P36 + liq36).
Proof.
  unfold next_sqrt_price_amount0_out_round_up. intros cur liq36 amt18 next Hl Hc Ha Hn H.
  pose proof P36_pos as HP. pose proof P18_pos as HP8.
  destruct (amt18 =? 0) eqn:E0.
  { apply Z.eqb_eq in E0. inversion H; subst. nia. }
  destruct (bd_chk (bd_mul_round_up_dec cur amt18)) as [product|] eqn:E1; [|discriminate].
  destruct (bd_chk (bd_mul_round_up liq36 cur)) as [num|] eqn:E2; [|discriminate].
  destruct (nz (liq36 - product)) eqn:E3; [|discriminate].
  apply bd_chk_some in E1, E2, H. apply nz_some in E3. subst.
  unfold bd_mul_round_up_dec, bd_mul_round_up, bd_quo_round_up_mut, bd_quo_round_up in *. rewrite P36_sq in *.
  set (K := P18) in *. clearbody K.
  assert (HKK : 0 < K * K) by (apply Z.mul_pos_pos; assumption).
  pose proof (chop_round_up_nonneg_spec K (cur * amt18) HP8 ltac:(apply Z.mul_nonneg_nonneg; lia)) as [M1 M2].
  set (product := chop_round_up K (cur * amt18)) in *. clearbody product.
  pose proof (chop_round_up_nonneg_spec (K * K) (liq36 * cur) HKK ltac:(apply Z.mul_nonneg_nonneg; lia)) as [N1 N2].
  set (num := chop_round_up (K * K) (liq36 * cur)) in *. clearbody num.
  assert (Hprod : 0 <= product) by nia.
  assert (Hnum : 0 < num) by nia.
  set (den := liq36 - product) in *.
  destruct (Z_lt_le_dec den 0) as [Dn|Dp0].
  - (* negative denominator: the result is not positive *)
    exfalso. unfold inc_rem_div in Hn.
    assert (Qle : Z.quot (num * (K * K)) den <= 0).
    { rewrite <- (Z.opp_involutive den). rewrite Z.quot_opp_r by lia.
      pose proof (Z.quot_pos (num * (K * K)) (- den) ltac:(nia) ltac:(lia)). lia. }
    assert (Rge : 0 <= Z.rem (num * (K * K)) den).
    { rewrite <- (Z.opp_involutive den). rewrite Z.rem_opp_r by lia. apply Z.rem_nonneg; [lia|nia]. }
    destruct (Z.rem (num * (K * K)) den =? 0) eqn:ER; simpl in Hn; [lia|].
    apply Z.eqb_neq in ER.
    assert (S1 : Z.sgn (Z.rem (num * (K * K)) den) = 1) by (apply Z.sgn_pos; lia).
    assert (S2 : Z.sgn den = -1) by (apply Z.sgn_neg; lia).
    rewrite S1, S2 in Hn. simpl in Hn. lia.
  - assert (Dp : 0 < den) by lia.
    destruct (ceil_div_spec (num * (K * K)) den ltac:(nia) Dp) as [[B1 B2] B3].
    set (nx := inc_rem_div (Z.rem (num * (K * K)) den) den (Z.quot (num * (K * K)) den)) in *. clearbody nx.
    (* nx den < num KK + den < liq36 cur + KK + den *)
    assert (S1 : liq36 * (nx - cur) < nx * product + K * K + liq36) by (unfold den in *; nia).
    assert (S2 : nx * (product * K) < nx * (cur * amt18 + K)) by (apply Z.mul_lt_mono_pos_l; lia).
    assert (S3 : liq36 * (nx - cur) * K < (nx * product + K * K + liq36) * K) by (apply Z.mul_lt_mono_pos_r; lia).
    assert (S4 : liq36 * (nx - cur) * K * K < (nx * (cur * amt18 + K) + (K * K + liq36) * K) * K) by (apply Z.mul_lt_mono_pos_r; lia).
    lia.
Qed.

(* a capped step (it delivers exactly what is still requested): the exact proceeds of its price move exceed that by less than the
   value of one price unit *)
Definition out_capped (zfo : bool) (liq cur next aout : Z) : Prop :=
  0 < liq /\
  (if zfo then liq * (cur - next) < aout * P18 * P18 + liq
   else liq * P18 * (next - cur) * P36 < aout * P18 * next * cur + P36 * (next + P36 + liq * P18)).

Lemma in_given_out_step_cap : forall zfo spf cur target liq remaining next aout ain fee,
  compute_in_given_out zfo spf cur target liq remaining = Some (next, aout, ain, fee) ->
  0 <= liq -> 0 < cur -> 0 < next -> 0 <= remaining -> 0 <= spf < P18 ->
  (out_at_least zfo liq cur next aout \/ out_capped zfo liq cur next aout) /\
  (ain + fee) * (P18 - spf) < ain * P18 + ain + P18.
Proof.
  intros zfo spf cur target liq remaining next aout ain fee H Hl Hc Hn Hr Hs. unfold compute_in_given_out in H.
  pose proof P18_pos as H18. pose proof P36_pos as H36.
  assert (Cap : bd_to_dec (bd_from_dec remaining) = remaining).
  { unfold bd_to_dec, bd_from_dec. apply Z.quot_mul. lia. }
  assert (R36 : 0 <= bd_from_dec remaining) by (unfold bd_from_dec; nia).
  destruct zfo.
  - destruct (calc_amount1_delta liq target cur false) as [a0|] eqn:E0; [|discriminate].
    destruct (a0 <=? bd_from_dec remaining) eqn:Ecmp.
    + rewrite Z.eqb_refl in H.
      destruct (calc_amount0_delta liq target cur true) as [xi|] eqn:Ei; [|discriminate].
      destruct (fee_from_amount_in (bd_to_dec_round_up xi) spf) as [f|] eqn:EF; [|discriminate].
      apply Z.leb_le in Ecmp. assert (Ef : (bd_from_dec remaining <? a0) = false) by (apply Z.ltb_ge; lia). rewrite Ef in H.
      inversion H; subst. clear H.
      destruct (amount_in_covers true liq cur next xi _ Hl Hc Hn Ei eq_refl) as [I1 _].
      split; [left; apply (amount_out_at_least true); assumption|apply fee_from_amount_in_ub; assumption].
    + destruct (next_sqrt_price_amount1_out_round_down cur liq (bd_from_dec remaining)) as [nx|] eqn:En; [|discriminate].
      assert (Hlp : 0 < liq).
      { unfold next_sqrt_price_amount1_out_round_down in En. destruct (nz liq) eqn:Enz; [|discriminate]. apply nz_some in Enz. lia. }
      pose proof (next_amount1_out_rev _ _ _ _ Hlp R36 En) as Rev.
      set (reached := target =? nx) in *.
      destruct (if reached then Some a0 else calc_amount1_delta liq nx cur false) as [xo|] eqn:Eo; [|discriminate].
      destruct (calc_amount0_delta liq nx cur true) as [xi|] eqn:Ei; [|discriminate].
      destruct (fee_from_amount_in (bd_to_dec_round_up xi) spf) as [f|] eqn:EF; [|discriminate].
      inversion H; subst nx aout ain f. clear H.
      assert (Eo' : calc_amount1_delta liq next cur false = Some xo).
      { destruct reached eqn:ER; [|exact Eo]. unfold reached in ER. apply Z.eqb_eq in ER. subst target. inversion Eo; subst. exact E0. }
      destruct (amount_in_covers true liq cur next xi _ Hl Hc Hn Ei eq_refl) as [I1 _].
      split; [|apply fee_from_amount_in_ub; assumption].
      destruct (bd_from_dec remaining <? xo); [right|left; apply (amount_out_at_least true); assumption].
      rewrite Cap. unfold out_capped. split; [assumption|]. unfold bd_from_dec in Rev. lia.
  - destruct (calc_amount0_delta liq target cur false) as [a0|] eqn:E0; [|discriminate].
    destruct (a0 <=? bd_from_dec remaining) eqn:Ecmp.
    + rewrite Z.eqb_refl in H.
      destruct (calc_amount1_delta liq target cur true) as [xi|] eqn:Ei; [|discriminate].
      destruct (fee_from_amount_in (bd_to_dec_round_up xi) spf) as [f|] eqn:EF; [|discriminate].
      apply Z.leb_le in Ecmp. assert (Ef : (bd_from_dec remaining <? a0) = false) by (apply Z.ltb_ge; lia). rewrite Ef in H.
      inversion H; subst. clear H.
      destruct (amount_in_covers false liq cur next xi _ Hl Hc Hn Ei eq_refl) as [I1 _].
      split; [left; apply (amount_out_at_least false); assumption|apply fee_from_amount_in_ub; assumption].
    + apply Z.leb_gt in Ecmp.
      destruct (next_sqrt_price_amount0_out_round_up cur (bd_from_dec liq) remaining) as [nx|] eqn:En; [|discriminate].
      assert (Hlp : 0 < liq).
      { destruct (Z.eq_dec liq 0) as [Z0|Z0]; [|lia]. subst liq. apply calc_amount0_delta_zero_liq in E0. lia. }
      assert (Hl36 : 0 < bd_from_dec liq) by (unfold bd_from_dec; nia).
      set (reached := target =? nx) in *.
      destruct (if reached then Some a0 else calc_amount0_delta liq nx cur false) as [xo|] eqn:Eo; [|discriminate].
      destruct (calc_amount1_delta liq nx cur true) as [xi|] eqn:Ei; [|discriminate].
      destruct (fee_from_amount_in (bd_to_dec_round_up xi) spf) as [f|] eqn:EF; [|discriminate].
      inversion H; subst nx aout ain f. clear H.
      pose proof (next_amount0_out_rev _ _ _ _ Hl36 Hc Hr Hn En) as Rev.
      assert (Eo' : calc_amount0_delta liq next cur false = Some xo).
      { destruct reached eqn:ER; [|exact Eo]. unfold reached in ER. apply Z.eqb_eq in ER. subst target. inversion Eo; subst. exact E0. }
      destruct (amount_in_covers false liq cur next xi _ Hl Hc Hn Ei eq_refl) as [I1 _].
      split; [|apply fee_from_amount_in_ub; assumption].
      destruct (bd_from_dec remaining <? xo); [right|left; apply (amount_out_at_least false); assumption].
      rewrite Cap. unfold out_capped. split; [assumption|]. unfold bd_from_dec in Rev. exact Rev.
Qed.

Definition seg3o_ok (s : state) (zfo : bool) (sg : seg) : Prop :=
  in_at_most zfo (sg_liq sg) (sg_a sg) (sg_b sg) (sg_in sg) /\
  (out_at_least zfo (sg_liq sg) (sg_a sg) (sg_b sg) (sg_out sg) \/ out_capped zfo (sg_liq sg) (sg_a sg) (sg_b sg) (sg_out sg)) /\
  (sg_in sg + sg_fee sg) * (P18 - p_spread (s_pool s)) < sg_in sg * P18 + sg_in sg + P18 /\
  (zfo = true -> 10 ^ 30 <= sg_a sg /\ 10 ^ 30 <= sg_b sg).

Lemma loop_in_path3 : forall s fuel zfo accum sc limit st iter noprog st' tr, Inv s ->
  sqrt_price_limit zfo = Some limit -> LI s zfo st iter -> 0 <= ss_remaining st ->
  loop_in_trace fuel zfo accum (p_spread (s_pool s)) sc limit st iter noprog = Some (st', tr) ->
  Forall (seg3o_ok s zfo) tr.
Proof.
  intros s fuel. induction fuel as [|f IH]; intros zfo accum sc limit st iter noprog st' tr I HL L R0 H; simpl in H; [discriminate|].
  destruct ((smallest_dec <? ss_remaining st) && negb (ss_sqrt st =? limit)) eqn:Econd.
  2:{ inversion H; subst. constructor. }
  apply andb_true_iff in Econd. destruct Econd as [Erem _]. apply Z.ltb_lt in Erem. unfold smallest_dec in Erem.
  destruct iter as [|[nt info] rest]; [discriminate|].
  destruct (tick_to_sqrt_price nt) as [nts|] eqn:Snt; [|discriminate].
  destruct (LI_facts s zfo st nt info rest nts I L Snt) as [Fl [Fr Fz]].
  rewrite (sqrt_target_next zfo limit nt nts HL Fr Snt) in H.
  destruct (compute_in_given_out zfo (p_spread (s_pool s)) (ss_sqrt st) nts (ss_liq st) (ss_remaining st)) as [[[[computed aout] ain] fee]|] eqn:EC; [|discriminate].
  destruct (negb (progress_ok computed (ss_sqrt st) ain aout)); [discriminate|].
  destruct (dchk (ain + fee)) as [infee|] eqn:Ei; [|discriminate]. apply dchk_some in Ei. subst infee.
  destruct (after_step zfo accum sc st ((nt, info) :: rest) nt info nts computed aout (ain + fee) fee) as [[st1 iter1]|] eqn:EA; [|discriminate].
  pose proof L as L0. destruct L0 as [L1 [L2 [L3 L4]]].
  assert (Dir : computed = nts \/ computed = ss_sqrt st \/ dir_ok zfo (ss_sqrt st) computed).
  { destruct (compute_in_given_out_dir _ _ _ _ _ _ _ _ _ _ EC Fl L2 Erem) as [D|D]; [left; assumption|right; right; assumption]. }
  assert (L' : LI s zfo st1 iter1) by (eapply after_step_LI; try eassumption; reflexivity).
  destruct (after_step_sqrt_rem _ _ _ _ _ _ _ _ _ _ _ _ _ _ EA) as [Q1 [Q2 Q3]].
  assert (Cpos : 0 < computed) by (destruct L' as [_ [P _]]; rewrite Q1 in P; exact P).
  assert (Hs' : 0 <= p_spread (s_pool s) < P18) by (pose proof (inv_spread s I); rewrite P18_val; lia).
  destruct (in_given_out_step _ _ _ _ _ _ _ _ _ _ EC Fl L2 Cpos ltac:(lia) Hs') as [_ [_ [_ [Scap _]]]].
  destruct (in_given_out_step_error _ _ _ _ _ _ _ _ _ _ EC Fl L2 Cpos ltac:(lia)) as [S1 _].
  destruct (in_given_out_step_cap _ _ _ _ _ _ _ _ _ _ EC Fl L2 Cpos ltac:(lia) Hs') as [S2 S3].
  assert (S4 : zfo = true -> 10 ^ 30 <= ss_sqrt st /\ 10 ^ 30 <= computed).
  { intros Ez. split; [apply Fz; exact Ez|]. subst zfo.
    pose proof (after_step_b_side _ _ _ _ _ _ _ _ _ _ _ _ _ _ _ I L Snt Dir EA) as BS.
    destruct (iter_ok_head _ _ _ _ _ _ L4) as [Hin [Hb _]]. unfold beyond in Hb. apply Z.leb_le in Hb.
    destruct (BS nt info nts Hin Snt) as [A _]. specialize (A Hb).
    pose proof (tick_to_sqrt_price_mono MinInitializedTick nt _ nts ltac:(lia) ltac:(lia) ltac:(lia) sqrt_min_val Snt). lia. }
  assert (SegOk : seg3o_ok s zfo (mkSeg (ss_liq st) (ss_tick st) (ss_sqrt st) computed ain aout fee)).
  { unfold seg3o_ok; cbn [sg_liq sg_tick sg_a sg_b sg_in sg_out sg_fee]. splits; assumption. }
  assert (Rec : forall np, (do rr <- loop_in_trace f zfo accum (p_spread (s_pool s)) sc limit st1 iter1 np;
                            Some (fst rr, mkSeg (ss_liq st) (ss_tick st) (ss_sqrt st) computed ain aout fee :: snd rr)) = Some (st', tr) ->
          Forall (seg3o_ok s zfo) tr).
  { intros np HR. destruct (loop_in_trace f zfo accum (p_spread (s_pool s)) sc limit st1 iter1 np) as [[st2 tr2]|] eqn:ER; [|discriminate].
    inversion HR; subst st' tr; clear HR. simpl fst; simpl snd.
    constructor; [assumption|]. apply (IH _ _ _ _ _ _ _ _ _ I HL L' ltac:(rewrite Q2; lia) ER). }
  destruct (aout =? 0).
  - destruct (swap_no_progress_limit <=? noprog); [discriminate|]. apply (Rec _ H).
  - apply (Rec _ H).
Qed.

(* the charge of an exact-out step in one inequality (as step_consumes, without the price-unit term) *)
Definition step_charges (zfo : bool) (spf liq cur next g : Z) : Prop :=
  if zfo then
    g * (P18 - spf) * next * cur * P18 <
      liq * (cur - next) * (P18 * P18 * (P18 * P18)) + next * cur * (P18 * P18 * P18) + (P18 * P18 + cur) * (P18 * P18 * P18) +
      g * next * cur * P18 + next * cur * (P18 * P18)
  else
    2 * g * (P18 - spf) * P18 < 2 * liq * (next - cur) + 2 * (P18 * P18 * P18) + P18 + 2 * g * P18 + 2 * (P18 * P18).

Lemma step_charges_of : forall (zfo : bool) (spf liq cur next ain g : Z),
  0 <= liq -> 0 < next -> 0 < cur -> 0 <= ain <= g -> 0 <= spf < P18 ->
  (if zfo then next <= cur else cur <= next) ->
  in_at_most zfo liq cur next ain -> g * (P18 - spf) < ain * P18 + ain + P18 ->
  step_charges zfo spf liq cur next g.
Proof.
  intros zfo spf liq cur next ain g Hl Hn Hc Ha Hs Hd IA GA.
  unfold step_charges, in_at_most in *. rewrite P36_sq in *.
  pose proof P18_pos as HK. set (K := P18) in *. clearbody K.
  destruct zfo.
  - rewrite Z.abs_eq in IA by lia. rewrite Z.max_r in IA by lia.
    assert (N1 : 0 < next * cur * K) by (apply Z.mul_pos_pos; [apply Z.mul_pos_pos|]; lia).
    assert (A1 : g * (K - spf) * (next * cur * K) < (ain * K + ain + K) * (next * cur * K)) by (apply Z.mul_lt_mono_pos_r; assumption).
    assert (A2 : ain * (next * cur * K) <= g * (next * cur * K)) by (apply Z.mul_le_mono_nonneg_r; lia).
    lia.
  - rewrite Z.abs_neq in IA by lia.
    assert (A1 : g * (K - spf) * K < (ain * K + ain + K) * K) by (apply Z.mul_lt_mono_pos_r; assumption).
    assert (A2 : ain * K <= g * K) by (apply Z.mul_le_mono_nonneg_r; lia).
    lia.
Qed.
