(* C03: the other side of the rounding - how far a bucket step can be from the exact amounts of the price move it makes.
   amount charged  <  exact + 1 token + (tiny);   amount paid out  >  exact - 10^-18 token - (tiny).
   "tiny" = 10^36/(a*b) + 1/min(a,b) raw 36-decimal units for token0 (< 10^-24 token for sqrt prices >= 10^-6). *)
From Coq Require Import ZArith List Bool Lia.
Import ListNotations.
From Osmo Require Import Base.DecModel CL.TickMath CL.CLMath CL.CLPool CL.CLSwap.
From Osmo Require Import C07.Base C07.TickLemmas C07.SwapDir C03.Rounding C03.Steps.
Open Scope Z_scope.
Set Default Timeout 120.

Lemma amount0_up_ub : forall liq a b x, 0 <= liq -> 0 < a -> 0 < b ->
  calc_amount0_delta liq a b true = Some x ->
  x * a * b * P18 < liq * Z.abs (b - a) * P36 * P36 + P18 * P36 * P36 + Z.max a b * P36 * P18 + a * b * P36 * P18.
Proof.
  intros liq a b x Hl Ha Hb H. unfold calc_amount0_delta in H.
  pose proof P18_pos as H18. pose proof P36_pos as H36.
  assert (G : forall sa sb, 0 < sa -> sa <= sb ->
    (do _ <- nz sa; do _ <- nz sb;
     do x0 <- bd_chk (bd_mul_round_up_dec (sb - sa) liq); do y <- bd_chk (bd_quo_round_up_mut x0 sb);
     bd_chk (bd_quo_round_up_next_int_mut y sa)) = Some x ->
    x * sa * sb * P18 < liq * (sb - sa) * P36 * P36 + P18 * P36 * P36 + sb * P36 * P18 + sa * sb * P36 * P18).
  { clear - Hl H18 H36. intros sa sb Hsa Hab H. oinv H.
    repeat match goal with E : bd_chk _ = Some _ |- _ => apply bd_chk_some in E end. subst.
    unfold bd_mul_round_up_dec, bd_quo_round_up_mut, bd_quo_round_up, bd_quo_round_up_next_int_mut.
    set (A := P18) in *. set (B := P36) in *. clearbody A B.
    assert (Hd : 0 <= (sb - sa) * liq) by (apply Z.mul_nonneg_nonneg; lia).
    destruct (chop_round_up_nonneg_spec A ((sb - sa) * liq) H18 Hd) as [X1 X2].
    set (x0 := chop_round_up A ((sb - sa) * liq)) in *. clearbody x0.
    assert (Hx0 : 0 <= x0) by nia.
    destruct (ceil_div_spec (x0 * B) sb ltac:(apply Z.mul_nonneg_nonneg; lia) ltac:(lia)) as [[Y1 Y2] Y3].
    set (y := inc_rem_div (Z.rem (x0 * B) sb) sb (Z.quot (x0 * B) sb)) in *. clearbody y.
    destruct (ceil_div_spec y sa Y3 Hsa) as [[Z1 Z2] Z3].
    set (z := inc_rem_div (Z.rem y sa) sa (Z.quot y sa)) in *. clearbody z.
    (* z*sa < y + sa ; y*sb < x0*B + sb ; x0*A < d*liq + A *)
    assert (S1 : z * sa * sb < (y + sa) * sb) by (apply Z.mul_lt_mono_pos_r; lia).
    assert (S2 : z * sa * sb * B < (x0 * B + sb + sa * sb) * B) by (apply Z.mul_lt_mono_pos_r; lia).
    assert (S3 : x0 * A * (B * B) < ((sb - sa) * liq + A) * (B * B)) by (apply Z.mul_lt_mono_pos_r; nia).
    assert (S4 : z * B * sa * sb * A = (z * sa * sb * B) * A) by ring.
    assert (S5 : (z * sa * sb * B) * A < ((x0 * B + sb + sa * sb) * B) * A) by (apply Z.mul_lt_mono_pos_r; lia).
    rewrite S4. eapply Z.lt_le_trans; [exact S5|]. nia. }
  destruct (b <? a) eqn:E.
  - apply Z.ltb_lt in E. rewrite Z.abs_neq by lia. replace (- (b - a)) with (a - b) by lia. rewrite Z.max_l by lia.
    pose proof (G b a Hb ltac:(lia) H). nia.
  - apply Z.ltb_ge in E. rewrite Z.abs_eq by lia. rewrite Z.max_r by lia. exact (G a b Ha E H).
Qed.

Lemma amount0_down_lb : forall liq a b x, 0 <= liq -> 0 < a -> 0 < b ->
  calc_amount0_delta liq a b false = Some x ->
  liq * Z.abs (b - a) * P36 * P36 < x * a * b * P18 + P18 * P36 * P36 + Z.max a b * P36 * P18 + a * b * P18.
Proof.
  intros liq a b x Hl Ha Hb H. unfold calc_amount0_delta in H.
  pose proof P18_pos as H18. pose proof P36_pos as H36.
  assert (G : forall sa sb, 0 < sa -> sa <= sb ->
    (do _ <- nz sa; do _ <- nz sb;
     do x0 <- bd_chk (bd_mul_truncate_dec (sb - sa) liq); do y <- bd_chk (bd_quo_truncate x0 sb);
     bd_chk (bd_quo_truncate y sa)) = Some x ->
    liq * (sb - sa) * P36 * P36 < x * sa * sb * P18 + P18 * P36 * P36 + sb * P36 * P18 + sa * sb * P18).
  { clear - Hl H18 H36. intros sa sb Hsa Hab H. oinv H.
    repeat match goal with E : bd_chk _ = Some _ |- _ => apply bd_chk_some in E end. subst.
    unfold bd_mul_truncate_dec, bd_quo_truncate, chop_trunc.
    set (A := P18) in *. set (B := P36) in *. clearbody A B.
    assert (Hd : 0 <= (sb - sa) * liq) by (apply Z.mul_nonneg_nonneg; lia).
    destruct (trunc_div_spec ((sb - sa) * liq) A Hd H18) as [[X1 X2] X3].
    set (x0 := Z.quot ((sb - sa) * liq) A) in *. clearbody x0.
    destruct (trunc_div_spec (x0 * B) sb ltac:(apply Z.mul_nonneg_nonneg; lia) ltac:(lia)) as [[Y1 Y2] Y3].
    set (y := Z.quot (x0 * B) sb) in *. clearbody y.
    destruct (trunc_div_spec (y * B) sa ltac:(apply Z.mul_nonneg_nonneg; lia) Hsa) as [[Z1 Z2] Z3].
    set (z := Z.quot (y * B) sa) in *. clearbody z.
    (* (sb-sa)*liq < x0*A + A ; x0*B < y*sb + sb ; y*B < z*sa + sa *)
    assert (S1 : (sb - sa) * liq * (B * B) < (x0 * A + A) * (B * B)) by (apply Z.mul_lt_mono_pos_r; nia).
    assert (S2 : x0 * B * B < (y * sb + sb) * B) by (apply Z.mul_lt_mono_pos_r; lia).
    assert (S3 : y * B * sb < (z * sa + sa) * sb) by (apply Z.mul_lt_mono_pos_r; lia).
    assert (S4 : x0 * B * B * A < ((z * sa + sa) * sb + sb * B) * A) by (apply Z.mul_lt_mono_pos_r; [lia|nia]).
    nia. }
  destruct (b <? a) eqn:E.
  - apply Z.ltb_lt in E. rewrite Z.abs_neq by lia. replace (- (b - a)) with (a - b) by lia. rewrite Z.max_l by lia.
    pose proof (G b a Hb ltac:(lia) H). nia.
  - apply Z.ltb_ge in E. rewrite Z.abs_eq by lia. rewrite Z.max_r by lia. exact (G a b Ha E H).
Qed.

Lemma amount1_up_ub : forall liq a b x, 0 <= liq ->
  calc_amount1_delta liq a b true = Some x -> 2 * x * P18 < 2 * liq * Z.abs (b - a) + P18 + 2 * P36 * P18.
Proof.
  intros liq a b x Hl H. unfold calc_amount1_delta in H. oinv H. subst.
  apply bd_chk_some in E. subst. unfold bd_mul_dec, bd_ceil.
  pose proof P18_pos as H18. pose proof P36_pos as H36.
  assert (Hev : Z.rem P18 2 = 0) by reflexivity.
  set (A := P18) in *. set (B := P36) in *. clearbody A B.
  set (d := Z.abs (b - a)) in *. assert (Hd : 0 <= d * liq) by (unfold d; apply Z.mul_nonneg_nonneg; lia).
  destruct (chop_round_nonneg_spec A (d * liq) H18 Hev Hd) as [[X1 X2] X3].
  set (r := chop_round A (d * liq)) in *. clearbody r.
  destruct (quot_rem_pos r B X3 H36) as [Q1 [Q2 Q3]].
  destruct (Z.rem r B <=? 0) eqn:E0; [apply Z.leb_le in E0|apply Z.leb_gt in E0].
  - assert (Z.quot r B * B = r) by lia. nia.
  - assert ((Z.quot r B + 1) * B < r + B) by lia. nia.
Qed.

Lemma amount1_down_lb : forall liq a b x, 0 <= liq ->
  calc_amount1_delta liq a b false = Some x -> liq * Z.abs (b - a) < x * P18 + P18.
Proof.
  intros liq a b x Hl H. unfold calc_amount1_delta in H. apply bd_chk_some in H. subst.
  unfold bd_mul_truncate_dec, chop_trunc. pose proof P18_pos as H18.
  set (d := Z.abs (b - a)) in *. assert (Hd : 0 <= d * liq) by (unfold d; apply Z.mul_nonneg_nonneg; lia).
  destruct (trunc_div_spec (d * liq) P18 Hd H18) as [[X1 X2] X3]. lia.
Qed.

(* a whole-token amount converts to Dec exactly; a truncated conversion loses less than 10^-18 *)
Lemma to_dec_round_up_whole : forall x, 0 <= x -> Z.rem x P36 = 0 -> bd_to_dec_round_up x * P18 = x.
Proof.
  intros x Hx Hr. pose proof P18_pos as H18. destruct (to_dec_round_up_spec x Hx) as [[A B] C].
  pose proof (Z.quot_rem' x P36) as QR. rewrite Hr in QR.
  (* x is a multiple of P18 *)
  assert (Hm : exists k, x = k * P18).
  { exists (Z.quot x P36 * P18). rewrite QR at 1. rewrite P36_val, P18_val. ring. }
  destruct Hm as [k Hk]. subst x.
  assert (k <= bd_to_dec_round_up (k * P18)) by nia.
  assert (bd_to_dec_round_up (k * P18) < k + 1) by nia. nia.
Qed.
Lemma to_dec_lb : forall x, 0 <= x -> x < bd_to_dec x * P18 + P18.
Proof. intros x Hx. unfold bd_to_dec. pose proof P18_pos. destruct (trunc_div_spec x P18 Hx H) as [[A B] C]. lia. Qed.

(* ---------- one bucket step: the amount in is less than a token above the exact amount of the move, the amount out less than
   10^-18 token (+ tiny) below it ---------- *)
Definition in_at_most (zfo : bool) (liq cur next ain : Z) : Prop :=
  if zfo then ain * next * cur * P18 * P18 < liq * Z.abs (cur - next) * P36 * P36 + P18 * P36 * P36 + Z.max next cur * P36 * P18 + next * cur * P36 * P18
  else 2 * ain * P18 * P18 < 2 * liq * Z.abs (cur - next) + P18 + 2 * P36 * P18.
Definition out_at_least (zfo : bool) (liq cur next aout : Z) : Prop :=
  if zfo then liq * Z.abs (cur - next) < (aout * P18 + P18) * P18 + P18
  else liq * Z.abs (cur - next) * P36 * P36 < (aout * P18 + P18) * next * cur * P18 + P18 * P36 * P36 + Z.max next cur * P36 * P18 + next * cur * P18.

Lemma amount_in_at_most : forall (zfo : bool) (liq cur next x : Z), 0 <= liq -> 0 < cur -> 0 < next ->
  (if zfo then calc_amount0_delta liq next cur true else calc_amount1_delta liq next cur true) = Some x ->
  in_at_most zfo liq cur next (bd_to_dec_round_up x).
Proof.
  intros zfo liq cur next x Hl Hc Hn H. unfold in_at_most. destruct zfo.
  - destruct (amount0_up_spec _ _ _ _ Hl Hn Hc H) as [_ [B C]].
    pose proof (amount0_up_ub _ _ _ _ Hl Hn Hc H) as U.
    pose proof (to_dec_round_up_whole x B C) as W.
    replace (bd_to_dec_round_up x * next * cur * P18 * P18) with ((bd_to_dec_round_up x * P18) * next * cur * P18) by ring.
    rewrite W. exact U.
  - destruct (amount1_up_spec _ _ _ _ Hl H) as [_ [B C]].
    pose proof (amount1_up_ub _ _ _ _ Hl H) as U.
    pose proof (to_dec_round_up_whole x B C) as W.
    replace (2 * bd_to_dec_round_up x * P18 * P18) with (2 * (bd_to_dec_round_up x * P18) * P18) by ring.
    rewrite W. exact U.
Qed.

Lemma amount_out_at_least : forall (zfo : bool) (liq cur next x : Z), 0 <= liq -> 0 < cur -> 0 < next ->
  (if zfo then calc_amount1_delta liq next cur false else calc_amount0_delta liq next cur false) = Some x ->
  out_at_least zfo liq cur next (bd_to_dec x).
Proof.
  intros zfo liq cur next x Hl Hc Hn H. unfold out_at_least. pose proof P18_pos as H18. pose proof P36_pos as H36. destruct zfo.
  - destruct (amount1_down_spec _ _ _ _ Hl H) as [_ B]. pose proof (amount1_down_lb _ _ _ _ Hl H) as U.
    pose proof (to_dec_lb x B) as W. nia.
  - destruct (amount0_down_spec _ _ _ _ Hl Hn Hc H) as [_ B]. pose proof (amount0_down_lb _ _ _ _ Hl Hn Hc H) as U.
    pose proof (to_dec_lb x B) as W.
    assert (S : x * next * cur * P18 <= (bd_to_dec x * P18 + P18) * next * cur * P18).
    { apply Z.mul_le_mono_nonneg_r; [lia|]. apply Z.mul_le_mono_nonneg_r; [lia|]. apply Z.mul_le_mono_nonneg_r; lia. }
    lia.
Qed.

Lemma out_given_in_step_error : forall zfo spf cur target liq remaining next ain aout fee,
  compute_out_given_in zfo spf cur target liq remaining = Some (next, ain, aout, fee) ->
  0 <= liq -> 0 < cur -> 0 < next ->
  in_at_most zfo liq cur next ain /\ out_at_least zfo liq cur next aout.
Proof.
  intros zfo spf cur target liq remaining next ain aout fee H Hl Hc Hn. unfold compute_out_given_in in H.
  destruct zfo.
  - destruct (calc_amount0_delta liq target cur true) as [a0|] eqn:E0; [|discriminate].
    destruct (if a0 <=? bd_from_dec_mul_dec remaining (one_minus_spf spf) then Some target
              else next_sqrt_price_amount0_in_round_up cur (bd_from_dec liq) (bd_from_dec_mul_dec remaining (one_minus_spf spf))) as [nx|] eqn:En; [|discriminate].
    set (reached := target =? nx) in *.
    destruct (if reached then Some a0 else calc_amount0_delta liq nx cur true) as [xin|] eqn:Ein; [|discriminate].
    destruct (calc_amount1_delta liq nx cur false) as [xo|] eqn:Eo; [|discriminate].
    destruct (fee_out_given_in reached (bd_to_dec_round_up xin) remaining spf) as [f|]; [|discriminate].
    inversion H; subst nx ain aout f. clear H.
    assert (Ein' : calc_amount0_delta liq next cur true = Some xin).
    { destruct reached eqn:ER; [|exact Ein]. unfold reached in ER. apply Z.eqb_eq in ER. subst target. inversion Ein; subst. exact E0. }
    split; [apply (amount_in_at_most true); assumption|apply (amount_out_at_least true); assumption].
  - destruct (calc_amount1_delta liq target cur true) as [a0|] eqn:E0; [|discriminate].
    destruct (if a0 <=? bd_from_dec_mul_dec remaining (one_minus_spf spf) then Some target
              else next_sqrt_price_amount1_in_round_down cur liq (bd_from_dec_mul_dec remaining (one_minus_spf spf))) as [nx|] eqn:En; [|discriminate].
    set (reached := target =? nx) in *.
    destruct (if reached then Some a0 else calc_amount1_delta liq nx cur true) as [xin|] eqn:Ein; [|discriminate].
    destruct (calc_amount0_delta liq nx cur false) as [xo|] eqn:Eo; [|discriminate].
    destruct (fee_out_given_in reached (bd_to_dec_round_up xin) remaining spf) as [f|]; [|discriminate].
    inversion H; subst nx ain aout f. clear H.
    assert (Ein' : calc_amount1_delta liq next cur true = Some xin).
    { destruct reached eqn:ER; [|exact Ein]. unfold reached in ER. apply Z.eqb_eq in ER. subst target. inversion Ein; subst. exact E0. }
    split; [apply (amount_in_at_most false); assumption|apply (amount_out_at_least false); assumption].
Qed.

Lemma in_given_out_step_error : forall zfo spf cur target liq remaining next aout ain fee,
  compute_in_given_out zfo spf cur target liq remaining = Some (next, aout, ain, fee) ->
  0 <= liq -> 0 < cur -> 0 < next -> 0 <= remaining ->
  in_at_most zfo liq cur next ain /\ (aout = remaining \/ out_at_least zfo liq cur next aout).
Proof.
  intros zfo spf cur target liq remaining next aout ain fee H Hl Hc Hn Hr. unfold compute_in_given_out in H.
  assert (Cap : bd_to_dec (bd_from_dec remaining) = remaining).
  { unfold bd_to_dec, bd_from_dec. apply Z.quot_mul. pose proof P18_pos. lia. }
  destruct zfo.
  - destruct (calc_amount1_delta liq target cur false) as [a0|] eqn:E0; [|discriminate].
    destruct (if a0 <=? bd_from_dec remaining then Some target else next_sqrt_price_amount1_out_round_down cur liq (bd_from_dec remaining)) as [nx|] eqn:En; [|discriminate].
    set (reached := target =? nx) in *.
    destruct (if reached then Some a0 else calc_amount1_delta liq nx cur false) as [xo|] eqn:Eo; [|discriminate].
    destruct (calc_amount0_delta liq nx cur true) as [xi|] eqn:Ei; [|discriminate].
    destruct (fee_from_amount_in (bd_to_dec_round_up xi) spf) as [f|]; [|discriminate].
    inversion H; subst nx aout ain f. clear H.
    assert (Eo' : calc_amount1_delta liq next cur false = Some xo).
    { destruct reached eqn:ER; [|exact Eo]. unfold reached in ER. apply Z.eqb_eq in ER. subst target. inversion Eo; subst. exact E0. }
    split; [apply (amount_in_at_most true); assumption|].
    destruct (bd_from_dec remaining <? xo); [left; exact Cap|right; apply (amount_out_at_least true); assumption].
  - destruct (calc_amount0_delta liq target cur false) as [a0|] eqn:E0; [|discriminate].
    destruct (if a0 <=? bd_from_dec remaining then Some target else next_sqrt_price_amount0_out_round_up cur (bd_from_dec liq) remaining) as [nx|] eqn:En; [|discriminate].
    set (reached := target =? nx) in *.
    destruct (if reached then Some a0 else calc_amount0_delta liq nx cur false) as [xo|] eqn:Eo; [|discriminate].
    destruct (calc_amount1_delta liq nx cur true) as [xi|] eqn:Ei; [|discriminate].
    destruct (fee_from_amount_in (bd_to_dec_round_up xi) spf) as [f|]; [|discriminate].
    inversion H; subst nx aout ain f. clear H.
    assert (Eo' : calc_amount0_delta liq next cur false = Some xo).
    { destruct reached eqn:ER; [|exact Eo]. unfold reached in ER. apply Z.eqb_eq in ER. subst target. inversion Eo; subst. exact E0. }
    split; [apply (amount_in_at_most false); assumption|].
    destruct (bd_from_dec remaining <? xo); [left; exact Cap|right; apply (amount_out_at_least false); assumption].
Qed.
