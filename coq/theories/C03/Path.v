(* C03: a whole swap against the exact curve: the loop is replayed with a trace of its bucket steps; every step is within the
   exact amounts of the price move it makes (Steps.v), the steps chain from the old to the new price, and the swap's totals are the
   sums over the trace. *)
From Coq Require Import ZArith List Bool Lia.
Import ListNotations.
From Osmo Require Import Base.DecModel CL.TickMath CL.CLMath CL.CLPool CL.CLSwap.
From Osmo Require Import C07.Base C07.TickLemmas C07.LP C07.SwapDir C07.Swap C03.Rounding C03.Steps.
Open Scope Z_scope.
Set Default Timeout 120.

Record seg := mkSeg { sg_liq : Z; sg_tick : Z; sg_a : Z; sg_b : Z; sg_in : Z; sg_out : Z; sg_fee : Z }.

(* computeOutAmtGivenIn's loop, additionally recording one segment per iteration *)
Fixpoint loop_out_trace (fuel : nat) (zfo accum : bool) (spf scaling limit : Z) (st : swap_state)
         (iter : list (Z * tick_info)) (noprog : Z) : option (swap_state * list seg) :=
  match fuel with
  | O => None
  | S f =>
    if (smallest_dec <? ss_remaining st) && negb (ss_sqrt st =? limit) then
      match iter with
      | [] => None
      | (nt, info) :: _ =>
        do nts <- tick_to_sqrt_price nt;
        let target := sqrt_target zfo limit nts in
        do r <- compute_out_given_in zfo spf (ss_sqrt st) target (ss_liq st) (ss_remaining st);
        let '(computed, amt_in, amt_out, fee) := r in
        if negb (progress_ok computed (ss_sqrt st) amt_in amt_out) then None else
        do infee <- dchk (amt_in + fee);
        do nx <- after_step zfo accum scaling st iter nt info nts computed infee amt_out fee;
        let '(st', iter') := nx in
        let sg := mkSeg (ss_liq st) (ss_tick st) (ss_sqrt st) computed amt_in amt_out fee in
        if amt_in =? 0 then
          if swap_no_progress_limit <=? noprog then None
          else do rr <- loop_out_trace f zfo accum spf scaling limit st' iter' (noprog + 1); Some (fst rr, sg :: snd rr)
        else do rr <- loop_out_trace f zfo accum spf scaling limit st' iter' noprog; Some (fst rr, sg :: snd rr)
      end
    else Some (st, [])
  end.

Fixpoint loop_in_trace (fuel : nat) (zfo accum : bool) (spf scaling limit : Z) (st : swap_state)
         (iter : list (Z * tick_info)) (noprog : Z) : option (swap_state * list seg) :=
  match fuel with
  | O => None
  | S f =>
    if (smallest_dec <? ss_remaining st) && negb (ss_sqrt st =? limit) then
      match iter with
      | [] => None
      | (nt, info) :: _ =>
        do nts <- tick_to_sqrt_price nt;
        let target := sqrt_target zfo limit nts in
        do r <- compute_in_given_out zfo spf (ss_sqrt st) target (ss_liq st) (ss_remaining st);
        let '(computed, amt_out, amt_in, fee) := r in
        if negb (progress_ok computed (ss_sqrt st) amt_in amt_out) then None else
        do infee <- dchk (amt_in + fee);
        do nx <- after_step zfo accum scaling st iter nt info nts computed amt_out infee fee;
        let '(st', iter') := nx in
        let sg := mkSeg (ss_liq st) (ss_tick st) (ss_sqrt st) computed amt_in amt_out fee in
        if amt_out =? 0 then
          if swap_no_progress_limit <=? noprog then None
          else do rr <- loop_in_trace f zfo accum spf scaling limit st' iter' (noprog + 1); Some (fst rr, sg :: snd rr)
        else do rr <- loop_in_trace f zfo accum spf scaling limit st' iter' noprog; Some (fst rr, sg :: snd rr)
      end
    else Some (st, [])
  end.

Lemma loop_out_trace_fst : forall fuel zfo accum spf sc limit st iter noprog st',
  loop_out_given_in fuel zfo accum spf sc limit st iter noprog = Some st' ->
  exists tr, loop_out_trace fuel zfo accum spf sc limit st iter noprog = Some (st', tr).
Proof.
  induction fuel as [|f IH]; intros zfo accum spf sc limit st iter noprog st' H; simpl in *; [discriminate|].
  destruct (_ && _); [|inversion H; subst; eexists; reflexivity].
  destruct iter as [|[nt info] rest]; [discriminate|].
  destruct (tick_to_sqrt_price nt) as [nts|]; [|discriminate].
  destruct (compute_out_given_in _ _ _ _ _ _) as [[[[computed ain] aout] fee]|]; [|discriminate].
  destruct (negb (progress_ok _ _ _ _)); [discriminate|].
  destruct (dchk (ain + fee)) as [infee|]; [|discriminate].
  destruct (after_step _ _ _ _ _ _ _ _ _ _ _ _) as [[st1 it1]|]; [|discriminate].
  destruct (ain =? 0).
  - destruct (swap_no_progress_limit <=? noprog); [discriminate|].
    destruct (IH _ _ _ _ _ _ _ _ _ H) as [tr E]. rewrite E. eexists; reflexivity.
  - destruct (IH _ _ _ _ _ _ _ _ _ H) as [tr E]. rewrite E. eexists; reflexivity.
Qed.

Lemma loop_in_trace_fst : forall fuel zfo accum spf sc limit st iter noprog st',
  loop_in_given_out fuel zfo accum spf sc limit st iter noprog = Some st' ->
  exists tr, loop_in_trace fuel zfo accum spf sc limit st iter noprog = Some (st', tr).
Proof.
  induction fuel as [|f IH]; intros zfo accum spf sc limit st iter noprog st' H; simpl in *; [discriminate|].
  destruct (_ && _); [|inversion H; subst; eexists; reflexivity].
  destruct iter as [|[nt info] rest]; [discriminate|].
  destruct (tick_to_sqrt_price nt) as [nts|]; [|discriminate].
  destruct (compute_in_given_out _ _ _ _ _ _) as [[[[computed aout] ain] fee]|]; [|discriminate].
  destruct (negb (progress_ok _ _ _ _)); [discriminate|].
  destruct (dchk (ain + fee)) as [infee|]; [|discriminate].
  destruct (after_step _ _ _ _ _ _ _ _ _ _ _ _) as [[st1 it1]|]; [|discriminate].
  destruct (aout =? 0).
  - destruct (swap_no_progress_limit <=? noprog); [discriminate|].
    destruct (IH _ _ _ _ _ _ _ _ _ H) as [tr E]. rewrite E. eexists; reflexivity.
  - destruct (IH _ _ _ _ _ _ _ _ _ H) as [tr E]. rewrite E. eexists; reflexivity.
Qed.

(* ---------- what a trace guarantees ---------- *)
Fixpoint chain (a : Z) (tr : list seg) (b : Z) : Prop :=
  match tr with
  | [] => a = b
  | sg :: r => sg_a sg = a /\ chain (sg_b sg) r b
  end.
Definition sum_gross (tr : list seg) : Z := fold_right (fun sg acc => sg_in sg + sg_fee sg + acc) 0 tr.
Definition sum_out (tr : list seg) : Z := fold_right (fun sg acc => sg_out sg + acc) 0 tr.

(* a segment lies on the exact curve of the pool's positions: its liquidity is the total liquidity of the positions in range at its
   tick, its start price is consistent with that tick, the amount out is within the exact amount of the move a -> b at that
   liquidity and the amount in plus spread charge covers the exact amount in divided by (1 - f) *)
Definition seg_ok (s : state) (zfo : bool) (sg : seg) : Prop :=
  sg_liq sg = sum_liq (f_range (sg_tick sg)) (s_pos s) /\ 0 <= sg_liq sg /\
  0 < sg_a sg /\ 0 < sg_b sg /\ price_consistent_at (p_spacing (s_pool s)) (sg_tick sg) (sg_a sg) /\
  0 <= sg_in sg /\ 0 <= sg_out sg /\ 0 <= sg_fee sg /\
  out_within zfo (sg_liq sg) (sg_a sg) (sg_b sg) (sg_out sg) /\
  in_covers zfo (p_spread (s_pool s)) (sg_liq sg) (sg_a sg) (sg_b sg) (sg_in sg + sg_fee sg).

Lemma after_step_sqrt_rem : forall zfo accum sc st iter nt info nts computed dspec dcalc fee st' iter',
  after_step zfo accum sc st iter nt info nts computed dspec dcalc fee = Some (st', iter') ->
  ss_sqrt st' = computed /\ ss_remaining st' = ss_remaining st - dspec /\ ss_calculated st' = ss_calculated st + dcalc.
Proof.
  intros zfo accum sc st iter nt info nts computed dspec dcalc fee st' iter' H. unfold after_step in H.
  destruct (if accum then update_fee_growth sc st fee else Some st) as [st1|] eqn:E1; [|discriminate].
  assert (F : ss_remaining st1 = ss_remaining st /\ ss_calculated st1 = ss_calculated st).
  { destruct accum; [destruct (update_fee_growth_fields _ _ _ _ E1) as [_ [_ [_ [A B]]]]; split; assumption|inversion E1; subst; split; reflexivity]. }
  destruct F as [F1 F2]. rewrite F1, F2 in H.
  destruct (dchk (ss_remaining st - dspec)) as [rem|] eqn:Er; [|discriminate]. apply dchk_some in Er. subst rem.
  destruct (dchk (ss_calculated st + dcalc)) as [calc|] eqn:Ec; [|discriminate]. apply dchk_some in Ec. subst calc.
  destruct (nts =? computed).
  - unfold cross_tick in H. cbn [ss_liq ss_tick ss_sqrt ss_remaining ss_calculated ss_growth ss_fee] in H.
    destruct (dchk _) as [l|]; [|discriminate]. inversion H; subst. simpl. splits; reflexivity.
  - destruct (edge_case zfo nts computed); [discriminate|].
    destruct (negb (ss_sqrt st =? computed)).
    + destruct (calculate_sqrt_price_to_tick computed); [|discriminate]. inversion H; subst. simpl. splits; reflexivity.
    + inversion H; subst. simpl. splits; reflexivity.
Qed.

Lemma loop_out_path : forall s fuel zfo accum sc limit st iter noprog st' tr, Inv s ->
  sqrt_price_limit zfo = Some limit -> LI s zfo st iter ->
  loop_out_trace fuel zfo accum (p_spread (s_pool s)) sc limit st iter noprog = Some (st', tr) ->
  (exists iter', LI s zfo st' iter') /\ chain (ss_sqrt st) tr (ss_sqrt st') /\ Forall (seg_ok s zfo) tr /\
  ss_remaining st' = ss_remaining st - sum_gross tr /\ ss_calculated st' = ss_calculated st + sum_out tr.
Proof.
  intros s fuel. induction fuel as [|f IH]; intros zfo accum sc limit st iter noprog st' tr I HL L H; simpl in H; [discriminate|].
  destruct ((smallest_dec <? ss_remaining st) && negb (ss_sqrt st =? limit)) eqn:Econd.
  2:{ inversion H; subst. split; [eexists; eassumption|]. simpl. splits; try reflexivity; try constructor; lia. }
  apply andb_true_iff in Econd. destruct Econd as [Erem _]. apply Z.ltb_lt in Erem. unfold smallest_dec in Erem.
  destruct iter as [|[nt info] rest]; [discriminate|].
  destruct (tick_to_sqrt_price nt) as [nts|] eqn:Snt; [|discriminate].
  destruct (LI_facts s zfo st nt info rest nts I L Snt) as [Fl [Fr Fz]].
  rewrite (sqrt_target_next zfo limit nt nts HL Fr Snt) in H.
  destruct (compute_out_given_in zfo (p_spread (s_pool s)) (ss_sqrt st) nts (ss_liq st) (ss_remaining st)) as [[[[computed ain] aout] fee]|] eqn:EC; [|discriminate].
  destruct (negb (progress_ok computed (ss_sqrt st) ain aout)); [discriminate|].
  destruct (dchk (ain + fee)) as [infee|] eqn:Ei; [|discriminate]. apply dchk_some in Ei. subst infee.
  destruct (after_step zfo accum sc st ((nt, info) :: rest) nt info nts computed (ain + fee) aout fee) as [[st1 iter1]|] eqn:EA; [|discriminate].
  pose proof L as L0. destruct L0 as [L1 [L2 [L3 L4]]].
  assert (L' : LI s zfo st1 iter1).
  { eapply after_step_LI; try eassumption; try reflexivity.
    destruct (compute_out_given_in_dir _ _ _ _ _ _ _ _ _ _ EC Fl L2 Erem (inv_spread s I) Fz) as [D|D]; [left; assumption|right; right; assumption]. }
  destruct (after_step_sqrt_rem _ _ _ _ _ _ _ _ _ _ _ _ _ _ EA) as [Q1 [Q2 Q3]].
  assert (Cpos : 0 < computed) by (destruct L' as [_ [P _]]; rewrite Q1 in P; exact P).
  destruct (out_given_in_step _ _ _ _ _ _ _ _ _ _ EC Fl L2 Cpos Erem (inv_spread s I) Fz) as [S1 [S2 [S3 [S4 S5]]]].
  assert (SegOk : seg_ok s zfo (mkSeg (ss_liq st) (ss_tick st) (ss_sqrt st) computed ain aout fee)).
  { unfold seg_ok; simpl. splits; assumption. }
  assert (Rec : forall np, (do rr <- loop_out_trace f zfo accum (p_spread (s_pool s)) sc limit st1 iter1 np;
                            Some (fst rr, mkSeg (ss_liq st) (ss_tick st) (ss_sqrt st) computed ain aout fee :: snd rr)) = Some (st', tr) ->
          (exists iter', LI s zfo st' iter') /\ chain (ss_sqrt st) tr (ss_sqrt st') /\ Forall (seg_ok s zfo) tr /\
          ss_remaining st' = ss_remaining st - sum_gross tr /\ ss_calculated st' = ss_calculated st + sum_out tr).
  { intros np HR. destruct (loop_out_trace f zfo accum (p_spread (s_pool s)) sc limit st1 iter1 np) as [[st2 tr2]|] eqn:ER; [|discriminate].
    inversion HR; subst st' tr; clear HR. simpl fst; simpl snd.
    destruct (IH _ _ _ _ _ _ _ _ _ I HL L' ER) as [A [B [C [D E]]]].
    split; [assumption|]. simpl. rewrite Q1 in B. splits; try assumption; try reflexivity.
    - constructor; assumption.
    - rewrite D, Q2. lia.
    - rewrite E, Q3. lia. }
  destruct (ain =? 0).
  - destruct (swap_no_progress_limit <=? noprog); [discriminate|]. apply (Rec _ H).
  - apply (Rec _ H).
Qed.

Lemma loop_in_path : forall s fuel zfo accum sc limit st iter noprog st' tr, Inv s ->
  sqrt_price_limit zfo = Some limit -> LI s zfo st iter ->
  loop_in_trace fuel zfo accum (p_spread (s_pool s)) sc limit st iter noprog = Some (st', tr) ->
  (exists iter', LI s zfo st' iter') /\ chain (ss_sqrt st) tr (ss_sqrt st') /\ Forall (seg_ok s zfo) tr /\
  ss_remaining st' = ss_remaining st - sum_out tr /\ ss_calculated st' = ss_calculated st + sum_gross tr /\
  (0 <= ss_remaining st -> 0 <= ss_remaining st').
Proof.
  intros s fuel. induction fuel as [|f IH]; intros zfo accum sc limit st iter noprog st' tr I HL L H; simpl in H; [discriminate|].
  destruct ((smallest_dec <? ss_remaining st) && negb (ss_sqrt st =? limit)) eqn:Econd.
  2:{ inversion H; subst. split; [eexists; eassumption|]. simpl. splits; try reflexivity; try constructor; try lia; auto. }
  apply andb_true_iff in Econd. destruct Econd as [Erem _]. apply Z.ltb_lt in Erem. unfold smallest_dec in Erem.
  destruct iter as [|[nt info] rest]; [discriminate|].
  destruct (tick_to_sqrt_price nt) as [nts|] eqn:Snt; [|discriminate].
  destruct (LI_facts s zfo st nt info rest nts I L Snt) as [Fl [Fr Fz]].
  rewrite (sqrt_target_next zfo limit nt nts HL Fr Snt) in H.
  destruct (compute_in_given_out zfo (p_spread (s_pool s)) (ss_sqrt st) nts (ss_liq st) (ss_remaining st)) as [[[[computed aout] ain] fee]|] eqn:EC; [|discriminate].
  destruct (negb (progress_ok computed (ss_sqrt st) ain aout)); [discriminate|].
  destruct (dchk (ain + fee)) as [infee|] eqn:Ei; [|discriminate]. apply dchk_some in Ei. subst infee.
  destruct (after_step zfo accum sc st ((nt, info) :: rest) nt info nts computed aout (ain + fee) fee) as [[st1 iter1]|] eqn:EA; [|discriminate].
  pose proof L as L0. destruct L0 as [L1 [L2 [L3 L4]]].
  assert (L' : LI s zfo st1 iter1).
  { eapply after_step_LI; try eassumption; try reflexivity.
    destruct (compute_in_given_out_dir _ _ _ _ _ _ _ _ _ _ EC Fl L2 Erem) as [D|D]; [left; assumption|right; right; assumption]. }
  destruct (after_step_sqrt_rem _ _ _ _ _ _ _ _ _ _ _ _ _ _ EA) as [Q1 [Q2 Q3]].
  assert (Cpos : 0 < computed) by (destruct L' as [_ [P _]]; rewrite Q1 in P; exact P).
  assert (Hs' : 0 <= p_spread (s_pool s) < P18) by (pose proof (inv_spread s I); rewrite P18_val; lia).
  destruct (in_given_out_step _ _ _ _ _ _ _ _ _ _ EC Fl L2 Cpos ltac:(lia) Hs') as [S1 [S2 [S3 [Scap [S4 S5]]]]].
  assert (SegOk : seg_ok s zfo (mkSeg (ss_liq st) (ss_tick st) (ss_sqrt st) computed ain aout fee)).
  { unfold seg_ok; simpl. splits; assumption. }
  assert (Rec : forall np, (do rr <- loop_in_trace f zfo accum (p_spread (s_pool s)) sc limit st1 iter1 np;
                            Some (fst rr, mkSeg (ss_liq st) (ss_tick st) (ss_sqrt st) computed ain aout fee :: snd rr)) = Some (st', tr) ->
          (exists iter', LI s zfo st' iter') /\ chain (ss_sqrt st) tr (ss_sqrt st') /\ Forall (seg_ok s zfo) tr /\
          ss_remaining st' = ss_remaining st - sum_out tr /\ ss_calculated st' = ss_calculated st + sum_gross tr /\
          (0 <= ss_remaining st -> 0 <= ss_remaining st')).
  { intros np HR. destruct (loop_in_trace f zfo accum (p_spread (s_pool s)) sc limit st1 iter1 np) as [[st2 tr2]|] eqn:ER; [|discriminate].
    inversion HR; subst st' tr; clear HR. simpl fst; simpl snd.
    destruct (IH _ _ _ _ _ _ _ _ _ I HL L' ER) as [A [B [C [D [E G]]]]].
    split; [assumption|]. simpl. rewrite Q1 in B. splits; try assumption; try reflexivity.
    - constructor; assumption.
    - rewrite D, Q2. lia.
    - rewrite E, Q3. lia.
    - intros _. apply G. rewrite Q2. lia. }
  destruct (aout =? 0).
  - destruct (swap_no_progress_limit <=? noprog); [discriminate|]. apply (Rec _ H).
  - apply (Rec _ H).
Qed.
