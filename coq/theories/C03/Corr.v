(* C03 correspondence: in addition to the shared observables, the estimate query before every swap
   (Keeper.CalcOutAmtGivenIn / CalcInAmtGivenOut on the state before the swap) and, after every successful swap, the estimate of
   swapping the received amount straight back (exact-in, other direction) on the new state. *)
From Coq Require Import ZArith List Bool.
Import ListNotations.
From Osmo Require Import Base.Obs CL.CLPool CL.CLSwap CL.CLStep CL.CLCorr.
Open Scope Z_scope.

Definition flat_opt (r : option Z) : list Z := match r with Some x => [1; x] | None => [0; 0] end.

Definition est_pre : pre_obs := fun s o =>
  match o with
  | OSwapIn _ zfo amt _ => flat_opt (calc_out_given_in s zfo amt)
  | OSwapOut _ zfo amt _ => flat_opt (calc_in_given_out s zfo amt)
  | _ => []
  end.

(* what the pool account paid out in the operation: the amount the swapper actually received *)
Definition received (s s' : state) (zfo : bool) : Z :=
  if zfo then snd (b_pool (s_bank s)) - snd (b_pool (s_bank s')) else fst (b_pool (s_bank s)) - fst (b_pool (s_bank s')).

Definition est_post : post_obs := fun s s' o res =>
  match o, res with
  | OSwapIn _ zfo _ _, Some _ => flat_opt (calc_out_given_in s' (negb zfo) (received s s' zfo))
  | OSwapOut _ zfo _ _, Some _ => flat_opt (calc_out_given_in s' (negb zfo) (received s s' zfo))
  | _, _ => []
  end.

Definition case_ok (c : case) : bool := case_ok_with est_pre est_post c.
