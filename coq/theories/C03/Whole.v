(* C03: whole swaps (estimate and execution alike) against the exact curve, integer form, and the rational reading. *)
From Coq Require Import ZArith QArith List Bool Lia Lqa.
Import ListNotations.
From Osmo Require Import Base.DecModel CL.TickMath CL.CLMath CL.CLPool CL.CLSwap CL.Ideal.
From Osmo Require Import C07.Base C07.TickLemmas C07.LP C07.SwapDir C07.Swap C03.Rounding C03.Steps C03.Path.
Open Scope Z_scope.
Set Default Timeout 120.

Lemma sum_out_nonneg : forall s zfo tr, Forall (seg_ok s zfo) tr -> 0 <= sum_out tr.
Proof. induction tr as [|sg tr IH]; intros H; simpl; [lia|]. inversion H; subst. destruct H2 as [_ [_ [_ [_ [_ [_ [A _]]]]]]]. specialize (IH H3). lia. Qed.
Lemma sum_gross_nonneg : forall s zfo tr, Forall (seg_ok s zfo) tr -> 0 <= sum_gross tr.
Proof. induction tr as [|sg tr IH]; intros H; simpl; [lia|]. inversion H; subst. destruct H2 as [_ [_ [_ [_ [_ [A [_ [B _]]]]]]]]. specialize (IH H3). lia. Qed.

Lemma d_ceil_trunc_ge : forall a, 0 <= a -> a <= d_truncate_int (d_ceil a) * P18.
Proof.
  intros a Ha. unfold d_truncate_int, d_ceil. pose proof P18_pos as HP.
  destruct (quot_rem_pos a P18 Ha HP) as [A [B C]].
  destruct (0 <? Z.rem a P18) eqn:E; rewrite Z.quot_mul by lia; [apply Z.ltb_lt in E|apply Z.ltb_ge in E]; lia.
Qed.
Lemma d_trunc_le : forall a, 0 <= a -> d_truncate_int a * P18 <= a.
Proof. intros a Ha. unfold d_truncate_int. pose proof P18_pos as HP. destruct (trunc_div_spec a P18 Ha HP) as [[A B] C]. lia. Qed.

Lemma d_ceil_trunc_le : forall a m, 0 <= a <= m * P18 -> d_truncate_int (d_ceil a) <= m.
Proof.
  intros a m [Ha Hm]. unfold d_truncate_int, d_ceil. pose proof P18_pos as HP.
  destruct (quot_rem_pos a P18 Ha HP) as [A [B C]].
  destruct (0 <? Z.rem a P18) eqn:E; rewrite Z.quot_mul by lia; [apply Z.ltb_lt in E|apply Z.ltb_ge in E]; nia.
Qed.

(* exact-in (execution with accum = true, estimate with accum = false): there is a chain of bucket segments on the exact curve of
   the pool's positions from the old to the new price such that the amount out is at most the total of the segments' amounts out
   (each within the exact amount of its move) and the amount in is at least the total of the segments' gross amounts in
   (each covering the exact amount in of its move divided by 1 - f) *)
Theorem swap_in_path : forall s zfo accum amt r, Inv s -> 0 <= amt ->
  compute_out_amt_given_in s zfo accum amt = Some r ->
  exists tr, chain (p_sqrt (s_pool s)) tr (sr_sqrt r) /\ Forall (seg_ok s zfo) tr /\
    sr_out r * P18 <= sum_out tr /\ sum_gross tr <= sr_in r * P18 /\ sr_in r <= amt /\
    sr_liq r = sum_liq (f_range (sr_tick r)) (s_pos s).
Proof.
  intros s zfo accum amt r I Ha H. unfold compute_out_amt_given_in in H.
  destruct (swap_setup s zfo) as [[limit iter]|] eqn:ES; [|discriminate].
  destruct (loop_out_given_in _ _ _ _ _ _ _ _ _) as [st|] eqn:EL; [|discriminate].
  destruct (ss_remaining st <? 0) eqn:En; [discriminate|]. apply Z.ltb_ge in En. inversion H; subst r; clear H. simpl.
  destruct (swap_setup_LI s zfo limit iter (d_from_int amt) I ES) as [HL [Hne L0]].
  destruct (loop_out_trace_fst _ _ _ _ _ _ _ _ _ _ EL) as [tr ET].
  destruct (loop_out_path _ _ _ _ _ _ _ _ _ _ _ I HL L0 ET) as [[iter' L'] [C [F [R1 R2]]]].
  simpl in C, R1, R2. exists tr. split; [assumption|]. split; [assumption|].
  pose proof (sum_out_nonneg _ _ _ F). pose proof (sum_gross_nonneg _ _ _ F).
  unfold d_from_int in *. rewrite R2, ?Z.add_0_l.
  replace (amt * P18 - ss_remaining st) with (sum_gross tr) by lia.
  split; [apply d_trunc_le; assumption|]. split; [apply d_ceil_trunc_ge; assumption|]. split; [apply d_ceil_trunc_le; lia|].
  destruct L' as [A _]. exact A.
Qed.

Theorem swap_out_path : forall s zfo accum amt r, Inv s -> 0 <= amt ->
  compute_in_amt_given_out s zfo accum amt = Some r ->
  exists tr, chain (p_sqrt (s_pool s)) tr (sr_sqrt r) /\ Forall (seg_ok s zfo) tr /\
    sr_out r * P18 <= sum_out tr /\ sum_gross tr <= sr_in r * P18 /\ sr_out r <= amt /\
    sr_liq r = sum_liq (f_range (sr_tick r)) (s_pos s).
Proof.
  intros s zfo accum amt r I Ha H. unfold compute_in_amt_given_out in H.
  destruct (swap_setup s zfo) as [[limit iter]|] eqn:ES; [|discriminate].
  destruct (loop_in_given_out _ _ _ _ _ _ _ _ _) as [st|] eqn:EL; [|discriminate].
  destruct (ss_remaining st <? 0) eqn:En; [discriminate|]. apply Z.ltb_ge in En. inversion H; subst r; clear H. simpl.
  destruct (swap_setup_LI s zfo limit iter (d_from_int amt) I ES) as [HL [Hne L0]].
  destruct (loop_in_trace_fst _ _ _ _ _ _ _ _ _ _ EL) as [tr ET].
  destruct (loop_in_path _ _ _ _ _ _ _ _ _ _ _ I HL L0 ET) as [[iter' L'] [C [F [R1 [R2 _]]]]].
  simpl in C, R1, R2. exists tr. split; [assumption|]. split; [assumption|].
  pose proof (sum_out_nonneg _ _ _ F). pose proof (sum_gross_nonneg _ _ _ F). pose proof P18_pos as HP.
  unfold d_from_int in *. rewrite R2, ?Z.add_0_l.
  replace (amt * P18 - ss_remaining st) with (sum_out tr) by lia.
  split; [apply d_trunc_le; assumption|]. split; [apply d_ceil_trunc_ge; assumption|]. split.
  - assert (d_truncate_int (sum_out tr) * P18 <= amt * P18) by (pose proof (d_trunc_le (sum_out tr) H); lia).
    apply (Z.mul_le_mono_pos_r _ _ P18 HP). assumption.
  - destruct L' as [A _]. exact A.
Qed.

(* ---------- the rational reading (CL/Ideal.v) ---------- *)
Open Scope Q_scope.

Lemma q18_pos : 0 < q18. Proof. unfold q18, qz. rewrite <- (Zlt_Qlt 0). reflexivity. Qed.
Lemma q36_pos : 0 < q36. Proof. unfold q36, qz. rewrite <- (Zlt_Qlt 0). reflexivity. Qed.
Lemma q18_nz : ~ q18 == 0. Proof. pose proof q18_pos. intro E. rewrite E in H. apply (Qlt_irrefl 0). assumption. Qed.
Lemma q36_nz : ~ q36 == 0. Proof. pose proof q36_pos. intro E. rewrite E in H. apply (Qlt_irrefl 0). assumption. Qed.
Lemma qz_pos : forall z, (0 < z)%Z -> 0 < qz z. Proof. intros z H. unfold qz. rewrite <- (Zlt_Qlt 0). assumption. Qed.
Lemma qz_nz : forall z, (0 < z)%Z -> ~ qz z == 0.
Proof. intros z H E. pose proof (qz_pos z H) as P. rewrite E in P. apply (Qlt_irrefl 0). assumption. Qed.
Lemma qz_mult : forall a b, qz (a * b) == qz a * qz b. Proof. intros. unfold qz. rewrite inject_Z_mult. reflexivity. Qed.
Lemma qz_le : forall a b, (a <= b)%Z -> qz a <= qz b. Proof. intros. unfold qz. rewrite <- Zle_Qle. assumption. Qed.
Lemma q36_val : q36 == qz P36. Proof. reflexivity. Qed.
Lemma q18_val : q18 == qz P18. Proof. reflexivity. Qed.

(* token1 amount within the exact one *)
Lemma seg1_bound : forall out liq d, (out * P36 <= liq * d)%Z -> qz out / q18 <= (qz liq / q18) * (qz d / q36).
Proof.
  intros out liq d H. apply Qle_shift_div_r; [apply q18_pos|].
  setoid_replace (qz liq / q18 * (qz d / q36) * q18) with (qz liq * qz d / q36) by (field; split; [apply q36_nz|apply q18_nz]).
  apply Qle_shift_div_l; [apply q36_pos|]. rewrite q36_val, <- !qz_mult. apply qz_le. assumption.
Qed.

(* token0 amount within the exact one *)
Lemma seg0_bound : forall out liq d a b, (0 < a)%Z -> (0 < b)%Z -> (out * a * b <= liq * d * P36)%Z ->
  qz out / q18 <= (qz liq / q18) * (qz d / q36) / ((qz a / q36) * (qz b / q36)).
Proof.
  intros out liq d a b Ha Hb H. pose proof (qz_nz a Ha). pose proof (qz_nz b Hb).
  apply Qle_shift_div_r; [apply q18_pos|].
  setoid_replace (qz liq / q18 * (qz d / q36) / (qz a / q36 * (qz b / q36)) * q18) with (qz liq * qz d * q36 / (qz a * qz b))
    by (field; repeat split; try apply q36_nz; try apply q18_nz; assumption).
  apply Qle_shift_div_l; [rewrite <- (Qmult_0_l (qz b)); apply Qmult_lt_compat_r; apply qz_pos; assumption|].
  rewrite q36_val, <- !qz_mult. apply qz_le. rewrite Z.mul_assoc. assumption.
Qed.

(* the gross amount in (amount + spread charge) of a token0-in step, less the spread factor, covers the exact token0 amount *)
Lemma seg0_covered : forall gross spf liq d a b, (0 < a)%Z -> (0 < b)%Z ->
  (liq * d * P36 * P18 <= gross * (P18 - spf) * a * b)%Z ->
  (qz liq / q18) * (qz d / q36) / ((qz a / q36) * (qz b / q36)) <= (qz gross / q18) * (1 - qz spf / q18).
Proof.
  intros gross spf liq d a b Ha Hb H. pose proof (qz_nz a Ha). pose proof (qz_nz b Hb).
  setoid_replace (qz liq / q18 * (qz d / q36) / (qz a / q36 * (qz b / q36))) with (qz liq * qz d * q36 * q18 / (qz a * qz b * q18 * q18))
    by (field; repeat split; try apply q36_nz; try apply q18_nz; assumption).
  setoid_replace (qz gross / q18 * (1 - qz spf / q18)) with (qz gross * (q18 - qz spf) / (q18 * q18)) by (field; apply q18_nz).
  assert (P1 : 0 < qz a * qz b) by (rewrite <- (Qmult_0_l (qz b)); apply Qmult_lt_compat_r; apply qz_pos; assumption).
  assert (P2 : 0 < q18 * q18) by (rewrite <- (Qmult_0_l q18); apply Qmult_lt_compat_r; apply q18_pos).
  apply Qle_shift_div_l; [assumption|].
  setoid_replace (qz liq * qz d * q36 * q18 / (qz a * qz b * q18 * q18) * (q18 * q18)) with (qz liq * qz d * q36 * q18 / (qz a * qz b))
    by (field; repeat split; try apply q18_nz; assumption).
  apply Qle_shift_div_r; [assumption|].
  assert (E : q18 - qz spf == qz (P18 - spf)) by (unfold qz, Z.sub; rewrite inject_Z_plus, inject_Z_opp; reflexivity).
  rewrite E, q36_val, q18_val, <- !qz_mult. apply qz_le.
  replace (gross * (P18 - spf) * (a * b))%Z with (gross * (P18 - spf) * a * b)%Z by ring. assumption.
Qed.

(* token1-in step: covered up to half a unit of the 36th decimal (CalcAmount1Delta rounds half-even before its Ceil) *)
Lemma Qdiv_le_mono : forall a b c, 0 < c -> a <= b -> a / c <= b / c.
Proof. intros a b c Hc H. unfold Qdiv. apply Qmult_le_compat_r; [assumption|]. apply Qlt_le_weak, Qinv_lt_0_compat. assumption. Qed.

Lemma q36_sq : q36 == q18 * q18. Proof. unfold q36, q18, qz. rewrite <- inject_Z_mult. reflexivity. Qed.

Lemma seg1_covered : forall gross spf liq d,
  (2 * liq * d - P18 <= 2 * gross * (P18 - spf) * P18)%Z ->
  (qz liq / q18) * (qz d / q36) - 1 / (2 * q36) <= (qz gross / q18) * (1 - qz spf / q18).
Proof.
  intros gross spf liq d H. rewrite q36_sq.
  setoid_replace (qz liq / q18 * (qz d / (q18 * q18)) - 1 / (2 * (q18 * q18))) with ((2 * qz liq * qz d - q18) / (2 * q18 * q18 * q18))
    by (field; apply q18_nz).
  setoid_replace (qz gross / q18 * (1 - qz spf / q18)) with (2 * qz gross * (q18 - qz spf) * q18 / (2 * q18 * q18 * q18))
    by (field; apply q18_nz).
  assert (P2 : 0 < 2 * q18 * q18 * q18) by (vm_compute; reflexivity).
  apply Qdiv_le_mono; [assumption|].
  assert (E : q18 - qz spf == qz (P18 - spf)) by (unfold qz, Z.sub; rewrite inject_Z_plus, inject_Z_opp; reflexivity).
  assert (E2 : 2 * qz liq * qz d - q18 == qz (2 * liq * d - P18)).
  { unfold qz, Z.sub. rewrite inject_Z_plus, inject_Z_opp, !inject_Z_mult. reflexivity. }
  rewrite E, E2, q18_val. change 2 with (qz 2). rewrite <- !qz_mult. apply qz_le. assumption.
Qed.

(* ---------- sums over a trace ---------- *)
Fixpoint qsum (f : seg -> Q) (tr : list seg) : Q := match tr with [] => 0 | sg :: r => f sg + qsum f r end.
Definition ideal_out_of (zfo : bool) (sg : seg) : Q := seg_out zfo (sg_liq sg) (sg_a sg) (sg_b sg).
Definition ideal_in_of (zfo : bool) (sg : seg) : Q := seg_in zfo (sg_liq sg) (sg_a sg) (sg_b sg).
(* token1 going in is charged through CalcAmount1Delta(roundUp), which may fall short by < 1/2 * 10^-36 token per step *)
Definition in_slack (zfo : bool) : Q := if zfo then 0 else 1 / (2 * q36).

Lemma qz_plus : forall a b, qz (a + b) == qz a + qz b. Proof. intros. unfold qz. rewrite inject_Z_plus. reflexivity. Qed.

Lemma sum_out_le_ideal : forall s zfo tr, Forall (seg_ok s zfo) tr -> qz (sum_out tr) / q18 <= qsum (ideal_out_of zfo) tr.
Proof.
  induction tr as [|sg tr IH]; intros H; simpl.
  - unfold Qdiv. rewrite Qmult_0_l. apply Qle_refl.
  - inversion H; subst. specialize (IH H3).
    destruct H2 as [_ [_ [Pa [Pb [_ [_ [_ [_ [OW _]]]]]]]]].
    rewrite qz_plus. unfold Qdiv. rewrite Qmult_plus_distr_l. apply Qplus_le_compat; [|exact IH].
    unfold ideal_out_of, seg_out, out_within in *. destruct zfo.
    + unfold seg_amount1. apply seg1_bound. exact OW.
    + unfold seg_amount0. apply seg0_bound; try assumption.
      replace (sg_out sg * sg_a sg * sg_b sg)%Z with (sg_out sg * sg_b sg * sg_a sg)%Z by ring. exact OW.
Qed.

Lemma sum_in_ge_ideal : forall s zfo tr, Forall (seg_ok s zfo) tr ->
  qsum (ideal_in_of zfo) tr - in_slack zfo * qz (Z.of_nat (length tr)) <=
  (qz (sum_gross tr) / q18) * (1 - qz (p_spread (s_pool s)) / q18).
Proof.
  induction tr as [|sg tr IH]; intros H.
  - simpl. unfold Qdiv. rewrite !Qmult_0_l, Qmult_0_r. apply Qle_refl.
  - inversion H; subst. specialize (IH H3).
    destruct H2 as [_ [_ [Pa [Pb [_ [_ [_ [_ [_ IC]]]]]]]]].
    assert (Step : ideal_in_of zfo sg - in_slack zfo <= (qz (sg_in sg + sg_fee sg) / q18) * (1 - qz (p_spread (s_pool s)) / q18)).
    { unfold ideal_in_of, seg_in, in_covers, in_slack in *. destruct zfo.
      - unfold seg_amount0. unfold Qminus. rewrite Qplus_0_r. apply seg0_covered; try assumption.
        replace (sg_in sg + sg_fee sg)%Z with (sg_in sg + sg_fee sg)%Z by reflexivity.
        replace ((sg_in sg + sg_fee sg) * (P18 - p_spread (s_pool s)) * sg_a sg * sg_b sg)%Z
          with ((sg_in sg + sg_fee sg) * (P18 - p_spread (s_pool s)) * sg_b sg * sg_a sg)%Z by ring. exact IC.
      - unfold seg_amount1. apply seg1_covered. exact IC. }
    change (length (sg :: tr)) with (S (length tr)). rewrite Nat2Z.inj_succ. unfold Z.succ.
    simpl qsum. simpl sum_gross. rewrite (qz_plus (sg_in sg + sg_fee sg)), (qz_plus (Z.of_nat (length tr)) 1).
    setoid_replace (ideal_in_of zfo sg + qsum (ideal_in_of zfo) tr - in_slack zfo * (qz (Z.of_nat (length tr)) + qz 1))
      with ((ideal_in_of zfo sg - in_slack zfo) + (qsum (ideal_in_of zfo) tr - in_slack zfo * qz (Z.of_nat (length tr))))
      by (unfold qz at 2; simpl; ring).
    setoid_replace ((qz (sg_in sg + sg_fee sg) + qz (sum_gross tr)) / q18 * (1 - qz (p_spread (s_pool s)) / q18))
      with (qz (sg_in sg + sg_fee sg) / q18 * (1 - qz (p_spread (s_pool s)) / q18) + qz (sum_gross tr) / q18 * (1 - qz (p_spread (s_pool s)) / q18))
      by (field; apply q18_nz).
    apply Qplus_le_compat; assumption.
Qed.

(* the two whole-swap statements *)
Definition spread_q (s : state) : Q := qz (p_spread (s_pool s)) / q18.

Lemma one_minus_spread_nonneg : forall s, Inv s -> 0 <= 1 - spread_q s.
Proof.
  intros s I. pose proof (inv_spread s I) as [A B]. unfold spread_q.
  setoid_replace (1 - qz (p_spread (s_pool s)) / q18) with ((q18 - qz (p_spread (s_pool s))) / q18) by (field; apply q18_nz).
  apply Qle_shift_div_l; [apply q18_pos|]. rewrite Qmult_0_l.
  assert (E : q18 - qz (p_spread (s_pool s)) == qz (P18 - p_spread (s_pool s))) by (unfold qz, Z.sub; rewrite inject_Z_plus, inject_Z_opp; reflexivity).
  rewrite E. change 0 with (qz 0). apply qz_le. rewrite P18_val. lia.
Qed.

Lemma qz_div18 : forall x y, (x * P18 <= y)%Z -> qz x <= qz y / q18.
Proof. intros x y H. apply Qle_shift_div_l; [apply q18_pos|]. rewrite q18_val, <- qz_mult. apply qz_le. assumption. Qed.
Lemma div18_qz : forall x y, (x <= y * P18)%Z -> qz x / q18 <= qz y.
Proof. intros x y H. apply Qle_shift_div_r; [apply q18_pos|]. rewrite q18_val, <- qz_mult. apply qz_le. assumption. Qed.

Theorem exact_in_vs_ideal : forall s zfo accum amt r, Inv s -> (0 <= amt)%Z ->
  compute_out_amt_given_in s zfo accum amt = Some r ->
  exists tr, chain (p_sqrt (s_pool s)) tr (sr_sqrt r) /\ Forall (seg_ok s zfo) tr /\
    qz (sr_out r) <= qsum (ideal_out_of zfo) tr /\
    qsum (ideal_in_of zfo) tr - in_slack zfo * qz (Z.of_nat (length tr)) <= qz (sr_in r) * (1 - spread_q s) /\
    (sr_in r <= amt)%Z.
Proof.
  intros s zfo accum amt r I Ha H. destruct (swap_in_path _ _ _ _ _ I Ha H) as [tr [C [F [O [G [Gm _]]]]]].
  exists tr. split; [assumption|]. split; [assumption|]. split; [|split].
  - eapply Qle_trans; [apply qz_div18; exact O|]. eapply sum_out_le_ideal; eassumption.
  - eapply Qle_trans; [eapply sum_in_ge_ideal; eassumption|]. fold (spread_q s).
    apply Qmult_le_compat_r; [apply div18_qz; exact G|apply one_minus_spread_nonneg; assumption].
  - exact Gm.
Qed.

Theorem exact_out_vs_ideal : forall s zfo accum amt r, Inv s -> (0 <= amt)%Z ->
  compute_in_amt_given_out s zfo accum amt = Some r ->
  exists tr, chain (p_sqrt (s_pool s)) tr (sr_sqrt r) /\ Forall (seg_ok s zfo) tr /\
    qz (sr_out r) <= qsum (ideal_out_of zfo) tr /\
    qsum (ideal_in_of zfo) tr - in_slack zfo * qz (Z.of_nat (length tr)) <= qz (sr_in r) * (1 - spread_q s) /\
    (sr_out r <= amt)%Z.
Proof.
  intros s zfo accum amt r I Ha H. destruct (swap_out_path _ _ _ _ _ I Ha H) as [tr [C [F [O [G [Gm _]]]]]].
  exists tr. split; [assumption|]. split; [assumption|]. split; [|split; [|assumption]].
  - eapply Qle_trans; [apply qz_div18; exact O|]. eapply sum_out_le_ideal; eassumption.
  - eapply Qle_trans; [eapply sum_in_ge_ideal; eassumption|]. fold (spread_q s).
    apply Qmult_le_compat_r; [apply div18_qz; exact G|apply one_minus_spread_nonneg; assumption].
Qed.
