(* C03: one bucket step of a swap against the exact curve (cross-multiplied integer form).
   ain, aout, fee : raw Dec (x 10^18); liq raw Dec; cur, next raw BigDec sqrt prices.
   Exact token0 amount of the move, x 10^18:  liq * |cur - next| * 10^36 / (next * cur);  exact token1 amount, x 10^18: liq * |cur - next| / 10^36. *)
From Coq Require Import ZArith List Bool Lia.
Import ListNotations.
From Osmo Require Import Base.DecModel CL.TickMath CL.CLMath CL.CLPool CL.CLSwap.
From Osmo Require Import C07.Base C07.TickLemmas C07.SwapDir C07.Swap C03.Rounding.
Open Scope Z_scope.
Set Default Timeout 120.

Lemma P54_split : P54 = P18 * P36. Proof. reflexivity. Qed.
Lemma P18_pos : 0 < P18. Proof. rewrite P18_val; lia. Qed.
Lemma P36_pos : 0 < P36. Proof. rewrite P36_val; lia. Qed.

(* ---------- the two exact-in next-price formulas do not move the price further than the amount pays for ---------- *)
Lemma next_amount0_in_cost : forall cur liq36 amt next, 0 < liq36 -> 0 < cur -> 0 <= amt ->
  next_sqrt_price_amount0_in_round_up cur liq36 amt = Some next ->
  liq36 * (cur - next) * P36 <= amt * next * cur /\ 0 < next.
Proof.
  unfold next_sqrt_price_amount0_in_round_up. intros cur liq36 amt next Hl Hc Ha H.
  pose proof P36_pos as HP.
  destruct (amt =? 0) eqn:E0.
  { apply Z.eqb_eq in E0. inversion H; subst. split; [nia|assumption]. }
  destruct (bd_chk (bd_mul_truncate amt cur)) as [product|] eqn:E1; [|discriminate].
  destruct (bd_chk (bd_mul_round_up liq36 cur)) as [num|] eqn:E2; [|discriminate].
  destruct (nz (product + liq36)); [|discriminate].
  apply bd_chk_some in E1, E2, H. subst.
  unfold bd_mul_truncate, bd_mul_round_up, chop_trunc, bd_quo_round_up_mut, bd_quo_round_up in *.
  set (P := P36) in *. clearbody P.
  destruct (trunc_div_spec (amt * cur) P ltac:(apply Z.mul_nonneg_nonneg; lia) HP) as [[A1 A2] A3].
  set (product := Z.quot (amt * cur) P) in *. clearbody product.
  destruct (chop_round_up_nonneg_spec P (liq36 * cur) HP ltac:(apply Z.mul_nonneg_nonneg; lia)) as [N1 N2].
  set (num := chop_round_up P (liq36 * cur)) in *. clearbody num.
  assert (Hnum : 0 < num) by nia.
  destruct (ceil_div_spec (num * P) (product + liq36) ltac:(nia) ltac:(lia)) as [[B1 B2] B3].
  set (nx := inc_rem_div (Z.rem (num * P) (product + liq36)) (product + liq36) (Z.quot (num * P) (product + liq36))) in *. clearbody nx.
  assert (Hnx : 0 < nx) by nia. split; [|assumption].
  (* nx * (product + liq36) >= num * P >= liq36 * cur *)
  assert (S1 : liq36 * cur <= nx * (product + liq36)) by lia.
  assert (S2 : liq36 * (cur - nx) <= nx * product) by lia.
  assert (S3 : nx * (product * P) <= nx * (amt * cur)) by (apply Z.mul_le_mono_nonneg_l; lia).
  assert (S4 : liq36 * (cur - nx) * P <= nx * product * P) by (apply Z.mul_le_mono_nonneg_r; lia).
  lia.
Qed.

Lemma next_amount1_in_cost : forall cur liq amt next, 0 < liq -> 0 <= amt ->
  next_sqrt_price_amount1_in_round_down cur liq amt = Some next ->
  liq * (next - cur) <= amt * P18 /\ cur <= next.
Proof.
  unfold next_sqrt_price_amount1_in_round_down. intros cur liq amt next Hl Ha H.
  destruct (nz liq); [|discriminate]. destruct (bd_chk _) as [q|] eqn:E; [|discriminate]. inversion H; subst.
  apply bd_chk_some in E. subst q. unfold bd_quo_truncate_dec. pose proof P18_pos.
  destruct (trunc_div_spec (amt * P18) liq ltac:(apply Z.mul_nonneg_nonneg; lia) Hl) as [[A1 A2] A3]. split; lia.
Qed.

(* ---------- exact-in step ---------- *)
Definition in_covers (zfo : bool) (spf liq cur next gross : Z) : Prop :=
  if zfo then liq * Z.abs (cur - next) * P36 * P18 <= gross * (P18 - spf) * next * cur
  else 2 * liq * Z.abs (cur - next) - P18 <= 2 * gross * (P18 - spf) * P18.
Definition out_within (zfo : bool) (liq cur next aout : Z) : Prop :=
  if zfo then aout * P36 <= liq * Z.abs (cur - next)
  else aout * next * cur <= liq * Z.abs (cur - next) * P36.

Lemma amount_in_covers : forall (zfo : bool) (liq cur next x ain : Z), 0 <= liq -> 0 < cur -> 0 < next ->
  (if zfo then calc_amount0_delta liq next cur true else calc_amount1_delta liq next cur true) = Some x ->
  ain = bd_to_dec_round_up x ->
  0 <= ain /\ in_covers zfo 0 liq cur next ain.
Proof.
  intros zfo liq cur next x ain Hl Hc Hn H Ea. subst ain. pose proof P18_pos as H18. pose proof P36_pos as H36.
  unfold in_covers. rewrite Z.sub_0_r. destruct zfo.
  - destruct (amount0_up_spec _ _ _ _ Hl Hn Hc H) as [A [B C]].
    destruct (to_dec_round_up_spec x B) as [[D1 D2] D3]. split; [assumption|].
    rewrite P54_split in A.
    assert (S1 : x * next * cur <= bd_to_dec_round_up x * P18 * next * cur).
    { apply Z.mul_le_mono_nonneg_r; [lia|]. apply Z.mul_le_mono_nonneg_r; lia. }
    assert (S2 : liq * Z.abs (cur - next) * (P18 * P36) <= bd_to_dec_round_up x * P18 * next * cur) by lia.
    lia.
  - destruct (amount1_up_spec _ _ _ _ Hl H) as [A [B C]].
    destruct (to_dec_round_up_spec x B) as [[D1 D2] D3]. split; [assumption|].
    assert (S1 : 2 * x * P18 <= 2 * (bd_to_dec_round_up x * P18) * P18) by (apply Z.mul_le_mono_nonneg_r; lia).
    lia.
Qed.

Lemma amount_out_within : forall (zfo : bool) (liq cur next x : Z), 0 <= liq -> 0 < cur -> 0 < next ->
  (if zfo then calc_amount1_delta liq next cur false else calc_amount0_delta liq next cur false) = Some x ->
  0 <= x /\ 0 <= bd_to_dec x /\ out_within zfo liq cur next (bd_to_dec x).
Proof.
  intros zfo liq cur next x Hl Hc Hn H. pose proof P18_pos as H18. pose proof P36_pos as H36.
  unfold out_within. destruct zfo.
  - destruct (amount1_down_spec _ _ _ _ Hl H) as [A B]. destruct (to_dec_spec x B) as [D1 D2]. splits; try assumption.
    assert (bd_to_dec x * P18 * P18 <= x * P18) by (apply Z.mul_le_mono_nonneg_r; lia).
    rewrite P36_val, P18_val in *. lia.
  - destruct (amount0_down_spec _ _ _ _ Hl Hn Hc H) as [A B]. destruct (to_dec_spec x B) as [D1 D2]. splits; try assumption.
    rewrite P54_split in A.
    assert (S1 : bd_to_dec x * P18 * next * cur <= x * next * cur).
    { apply Z.mul_le_mono_nonneg_r; [lia|]. apply Z.mul_le_mono_nonneg_r; lia. }
    assert (S2 : (bd_to_dec x * next * cur) * P18 <= (liq * Z.abs (cur - next) * P36) * P18) by lia.
    apply (Z.mul_le_mono_pos_r _ _ P18 H18). exact S2.
Qed.

(* adding a spread charge of at least ain * f / (1 - f) makes the gross amount cover ain / (1 - f) *)
Lemma in_covers_with_fee : forall zfo spf liq cur next ain fee, 0 <= spf < P18 -> 0 <= ain -> 0 <= fee -> 0 < cur -> 0 < next ->
  ain * spf <= fee * (P18 - spf) -> in_covers zfo 0 liq cur next ain -> in_covers zfo spf liq cur next (ain + fee).
Proof.
  intros zfo spf liq cur next ain fee Hs Ha Hf Hc Hn Hfee H. unfold in_covers in *. rewrite Z.sub_0_r in H.
  pose proof P18_pos as H18.
  assert (G : ain * P18 <= (ain + fee) * (P18 - spf)) by lia.
  destruct zfo.
  - assert (S1 : ain * P18 * next * cur <= (ain + fee) * (P18 - spf) * next * cur).
    { apply Z.mul_le_mono_nonneg_r; [lia|]. apply Z.mul_le_mono_nonneg_r; lia. }
    lia.
  - assert (S1 : 2 * (ain * P18) * P18 <= 2 * ((ain + fee) * (P18 - spf)) * P18) by (apply Z.mul_le_mono_nonneg_r; lia).
    lia.
Qed.

Lemma out_given_in_step : forall zfo spf cur target liq remaining next ain aout fee,
  compute_out_given_in zfo spf cur target liq remaining = Some (next, ain, aout, fee) ->
  0 <= liq -> 0 < cur -> 0 < next -> 1 < remaining -> 0 <= spf <= 500000000000000000 -> (zfo = true -> 10 ^ 30 <= cur) ->
  0 <= ain /\ 0 <= aout /\ 0 <= fee /\
  out_within zfo liq cur next aout /\ in_covers zfo spf liq cur next (ain + fee).
Proof.
  intros zfo spf cur target liq remaining next ain aout fee H Hl Hc Hn Hr Hs Hz.
  pose proof P18_pos as H18. pose proof P36_pos as H36.
  assert (Hs' : 0 <= spf < P18) by (rewrite P18_val; lia).
  pose proof (rlf_lb remaining spf Hr Hs) as Hrlf. change (10 ^ 18) with 1000000000000000000 in Hrlf.
  unfold compute_out_given_in in H.
  (* common tail: given the amount-in / amount-out computations for [next] *)
  assert (Tail : forall xin xout reached,
     (if zfo then calc_amount0_delta liq next cur true else calc_amount1_delta liq next cur true) = Some xin ->
     (if zfo then calc_amount1_delta liq next cur false else calc_amount0_delta liq next cur false) = Some xout ->
     fee_out_given_in reached (bd_to_dec_round_up xin) remaining spf = Some fee ->
     (reached = false -> spf <> 0 -> in_covers zfo spf liq cur next remaining) ->
     0 <= bd_to_dec_round_up xin /\ 0 <= bd_to_dec xout /\ 0 <= fee /\
     out_within zfo liq cur next (bd_to_dec xout) /\ in_covers zfo spf liq cur next (bd_to_dec_round_up xin + fee)).
  { intros xin xout reached Ein Eout Efee Hnr.
    destruct (amount_in_covers zfo liq cur next xin _ Hl Hc Hn Ein eq_refl) as [I1 I2].
    destruct (amount_out_within zfo liq cur next xout Hl Hc Hn Eout) as [_ [O1 O2]].
    unfold fee_out_given_in in Efee.
    destruct (spf =? 0) eqn:Ez.
    - apply Z.eqb_eq in Ez. inversion Efee; subst fee spf. rewrite Z.add_0_r. splits; try assumption; lia.
    - apply Z.eqb_neq in Ez. destruct (spf <? 0); [discriminate|].
      destruct reached.
      + destruct (fee_from_amount_in (bd_to_dec_round_up xin) spf) as [f|] eqn:EF; [|discriminate].
        destruct (f <? 0) eqn:Ef; [discriminate|]. inversion Efee; subst f.
        destruct (fee_from_amount_in_spec _ _ _ I1 Hs' EF) as [F1 F2].
        splits; try assumption. apply in_covers_with_fee; assumption.
      + destruct (dchk (remaining - bd_to_dec_round_up xin)) as [f|] eqn:EF; [|discriminate].
        apply dchk_some in EF. subst f. destruct (remaining - bd_to_dec_round_up xin <? 0) eqn:Ef; [discriminate|].
        apply Z.ltb_ge in Ef. inversion Efee; subst fee. splits; try assumption.
        replace (bd_to_dec_round_up xin + (remaining - bd_to_dec_round_up xin)) with remaining by lia.
        apply Hnr; [reflexivity|assumption]. }
  destruct zfo.
  - destruct (calc_amount0_delta liq target cur true) as [a0|] eqn:E0; [|discriminate].
    destruct (a0 <=? bd_from_dec_mul_dec remaining (one_minus_spf spf)) eqn:Ecmp.
    + (* target reached *)
      rewrite Z.eqb_refl in H. destruct (calc_amount1_delta liq target cur false) as [xo|] eqn:Eo; [|discriminate].
      destruct (fee_out_given_in true (bd_to_dec_round_up a0) remaining spf) as [f|] eqn:EF; [|discriminate].
      inversion H; subst. apply (Tail a0 xo true E0 Eo EF). intros; discriminate.
    + apply Z.leb_gt in Ecmp.
      destruct (next_sqrt_price_amount0_in_round_up cur (bd_from_dec liq) (bd_from_dec_mul_dec remaining (one_minus_spf spf))) as [nx|] eqn:En; [|discriminate].
      assert (Hlp : 0 < liq).
      { destruct (Z.eq_dec liq 0) as [Z0|Z0]; [|lia]. subst liq. apply calc_amount0_delta_zero_liq in E0. lia. }
      assert (Hl36 : 0 < bd_from_dec liq) by (unfold bd_from_dec; nia).
      assert (Hamt : 0 <= bd_from_dec_mul_dec remaining (one_minus_spf spf)) by lia.
      destruct (next_amount0_in_cost _ _ _ _ Hl36 Hc Hamt En) as [Cost Npos].
      assert (Dirn : nx <= cur).
      { eapply dir_amount0_in; [exact Hl36|apply Hz; reflexivity|change (10 ^ 18) with 1000000000000000000; exact Hrlf|exact En]. }
      set (reached := target =? nx) in *.
      destruct (if reached then Some a0 else calc_amount0_delta liq nx cur true) as [xin|] eqn:Ein; [|discriminate].
      destruct (calc_amount1_delta liq nx cur false) as [xo|] eqn:Eo; [|discriminate].
      destruct (fee_out_given_in reached (bd_to_dec_round_up xin) remaining spf) as [f|] eqn:EF; [|discriminate].
      inversion H; subst nx ain aout f. clear H.
      assert (Ein' : calc_amount0_delta liq next cur true = Some xin).
      { destruct reached eqn:ER; [|exact Ein]. unfold reached in ER. apply Z.eqb_eq in ER. subst target. inversion Ein; subst. exact E0. }
      apply (Tail xin xo reached Ein' Eo EF). intros _ _.
      unfold in_covers. rewrite Z.abs_eq by lia. unfold bd_from_dec_mul_dec, one_minus_spf, bd_from_dec in Cost.
      assert (S : liq * P18 * (cur - next) * P36 <= remaining * (P18 - spf) * next * cur) by lia. lia.
  - destruct (calc_amount1_delta liq target cur true) as [a0|] eqn:E0; [|discriminate].
    destruct (a0 <=? bd_from_dec_mul_dec remaining (one_minus_spf spf)) eqn:Ecmp.
    + rewrite Z.eqb_refl in H. destruct (calc_amount0_delta liq target cur false) as [xo|] eqn:Eo; [|discriminate].
      destruct (fee_out_given_in true (bd_to_dec_round_up a0) remaining spf) as [f|] eqn:EF; [|discriminate].
      inversion H; subst. apply (Tail a0 xo true E0 Eo EF). intros; discriminate.
    + destruct (next_sqrt_price_amount1_in_round_down cur liq (bd_from_dec_mul_dec remaining (one_minus_spf spf))) as [nx|] eqn:En; [|discriminate].
      assert (Hlp : 0 < liq).
      { unfold next_sqrt_price_amount1_in_round_down in En. destruct (nz liq) eqn:Enz; [|discriminate]. apply nz_some in Enz. lia. }
      assert (Hamt : 0 <= bd_from_dec_mul_dec remaining (one_minus_spf spf)) by lia.
      destruct (next_amount1_in_cost _ _ _ _ Hlp Hamt En) as [Cost Dirn].
      set (reached := target =? nx) in *.
      destruct (if reached then Some a0 else calc_amount1_delta liq nx cur true) as [xin|] eqn:Ein; [|discriminate].
      destruct (calc_amount0_delta liq nx cur false) as [xo|] eqn:Eo; [|discriminate].
      destruct (fee_out_given_in reached (bd_to_dec_round_up xin) remaining spf) as [f|] eqn:EF; [|discriminate].
      inversion H; subst nx ain aout f. clear H.
      assert (Ein' : calc_amount1_delta liq next cur true = Some xin).
      { destruct reached eqn:ER; [|exact Ein]. unfold reached in ER. apply Z.eqb_eq in ER. subst target. inversion Ein; subst. exact E0. }
      apply (Tail xin xo reached Ein' Eo EF). intros _ _.
      unfold in_covers. rewrite Z.abs_neq by lia. unfold bd_from_dec_mul_dec, one_minus_spf in Cost.
      assert (S : 2 * (liq * (next - cur)) <= 2 * (remaining * (P18 - spf) * P18)) by lia. lia.
Qed.

(* ---------- exact-out step ---------- *)
Lemma in_given_out_step : forall zfo spf cur target liq remaining next aout ain fee,
  compute_in_given_out zfo spf cur target liq remaining = Some (next, aout, ain, fee) ->
  0 <= liq -> 0 < cur -> 0 < next -> 0 <= remaining -> 0 <= spf < P18 ->
  0 <= ain /\ 0 <= aout /\ 0 <= fee /\ aout <= remaining /\
  out_within zfo liq cur next aout /\ in_covers zfo spf liq cur next (ain + fee).
Proof.
  intros zfo spf cur target liq remaining next aout ain fee H Hl Hc Hn Hr Hs.
  pose proof P18_pos as H18. pose proof P36_pos as H36.
  unfold compute_in_given_out in H.
  assert (Tail : forall xout xin,
     (if zfo then calc_amount1_delta liq next cur false else calc_amount0_delta liq next cur false) = Some xout ->
     (if zfo then calc_amount0_delta liq next cur true else calc_amount1_delta liq next cur true) = Some xin ->
     fee_from_amount_in (bd_to_dec_round_up xin) spf = Some fee ->
     let xo' := if bd_from_dec remaining <? xout then bd_from_dec remaining else xout in
     0 <= bd_to_dec_round_up xin /\ 0 <= bd_to_dec xo' /\ 0 <= fee /\ bd_to_dec xo' <= remaining /\
     out_within zfo liq cur next (bd_to_dec xo') /\ in_covers zfo spf liq cur next (bd_to_dec_round_up xin + fee)).
  { intros xout xin Eout Ein Efee. cbv zeta.
    destruct (amount_in_covers zfo liq cur next xin _ Hl Hc Hn Ein eq_refl) as [I1 I2].
    destruct (amount_out_within zfo liq cur next xout Hl Hc Hn Eout) as [O0 [O1 O2]].
    destruct (fee_from_amount_in_spec _ _ _ I1 Hs Efee) as [F1 F2].
    assert (Cap : bd_to_dec (bd_from_dec remaining) = remaining).
    { unfold bd_to_dec, bd_from_dec. apply Z.quot_mul. lia. }
    split; [assumption|]. split; [|split; [assumption|]].
    { destruct (bd_from_dec remaining <? xout); [rewrite Cap; assumption|assumption]. }
    split; [|split; [|apply in_covers_with_fee; assumption]].
    - destruct (bd_from_dec remaining <? xout) eqn:E; [rewrite Cap; lia|]. apply Z.ltb_ge in E.
      unfold bd_to_dec, bd_from_dec in *. apply Z.quot_le_upper_bound; lia.
    - destruct (bd_from_dec remaining <? xout) eqn:E; [|assumption]. apply Z.ltb_lt in E. rewrite Cap.
      (* capped: remaining < xout / 1e18, so it is within the same bound *)
      assert (Hle : remaining <= bd_to_dec xout).
      { unfold bd_to_dec, bd_from_dec in *. apply Z.quot_le_lower_bound; lia. }
      unfold out_within in *. destruct zfo.
      + assert (remaining * P36 <= bd_to_dec xout * P36) by (apply Z.mul_le_mono_nonneg_r; lia). lia.
      + assert (remaining * next * cur <= bd_to_dec xout * next * cur).
        { apply Z.mul_le_mono_nonneg_r; [lia|]. apply Z.mul_le_mono_nonneg_r; lia. } lia. }
  destruct zfo.
  - destruct (calc_amount1_delta liq target cur false) as [a0|] eqn:E0; [|discriminate].
    destruct (if a0 <=? bd_from_dec remaining then Some target else next_sqrt_price_amount1_out_round_down cur liq (bd_from_dec remaining)) as [nx|] eqn:En; [|discriminate].
    set (reached := target =? nx) in *.
    destruct (if reached then Some a0 else calc_amount1_delta liq nx cur false) as [xo|] eqn:Eo; [|discriminate].
    destruct (calc_amount0_delta liq nx cur true) as [xi|] eqn:Ei; [|discriminate].
    destruct (fee_from_amount_in (bd_to_dec_round_up xi) spf) as [f|] eqn:EF; [|discriminate].
    inversion H; subst nx aout ain f. clear H.
    assert (Eo' : calc_amount1_delta liq next cur false = Some xo).
    { destruct reached eqn:ER; [|exact Eo]. unfold reached in ER. apply Z.eqb_eq in ER. subst target. inversion Eo; subst. exact E0. }
    apply (Tail xo xi Eo' Ei EF).
  - destruct (calc_amount0_delta liq target cur false) as [a0|] eqn:E0; [|discriminate].
    destruct (if a0 <=? bd_from_dec remaining then Some target else next_sqrt_price_amount0_out_round_up cur (bd_from_dec liq) remaining) as [nx|] eqn:En; [|discriminate].
    set (reached := target =? nx) in *.
    destruct (if reached then Some a0 else calc_amount0_delta liq nx cur false) as [xo|] eqn:Eo; [|discriminate].
    destruct (calc_amount1_delta liq nx cur true) as [xi|] eqn:Ei; [|discriminate].
    destruct (fee_from_amount_in (bd_to_dec_round_up xi) spf) as [f|] eqn:EF; [|discriminate].
    inversion H; subst nx aout ain f. clear H.
    assert (Eo' : calc_amount0_delta liq next cur false = Some xo).
    { destruct reached eqn:ER; [|exact Eo]. unfold reached in ER. apply Z.eqb_eq in ER. subst target. inversion Eo; subst. exact E0. }
    apply (Tail xo xi Eo' Ei EF).
Qed.
