(* C03: swapping there and straight back never returns more than was put in (both directions, any number of buckets).
   Uses the exact-rational potentials of C01 (sums of val0 / val1 over the positions, C01.Potential.bucket_potential,
   C01.SwapSolvent.chain_potential): the exact amounts of the segments of a swap telescope to differences of the potentials at
   the end prices; the potentials are monotone in the price and Lipschitz-coupled to each other. *)
From Coq Require Import ZArith QArith List Bool Lia Lqa.
Import ListNotations.
From Osmo Require Import Base.DecModel CL.TickMath CL.CLMath CL.CLPool CL.CLSwap CL.CLStep CL.Ideal.
From Osmo Require Import C07.Base C07.TickLemmas C07.LP C07.SwapDir C07.Swap C03.Rounding C03.Steps C03.Path C03.Whole.
From Osmo Require Import C01.Exact C01.Solvent C01.SwapPath C01.Potential C01.SwapSolvent.
Open Scope Z_scope.
Set Default Timeout 120.

(* ---------- a pool cannot have more initialised ticks than there are tick indices ---------- *)
Lemma sorted_keys_length : forall m lo hi, keys_sorted m -> (forall k v, In (k, v) m -> lo <= k <= hi) ->
  Z.of_nat (length m) <= Z.max 0 (hi - lo + 1).
Proof.
  induction m as [|[k v] m IH]; intros lo hi S H; simpl length; [lia|].
  inversion S as [|k0 v0 m0 H2 H3]; subst. assert (Hk := H k v (or_introl eq_refl)).
  specialize (IH (k + 1) hi H3).
  assert (Z.of_nat (length m) <= Z.max 0 (hi - (k + 1) + 1)).
  { apply IH. intros k' v' Hin. split; [|apply (H k' v'); right; assumption].
    unfold keys_lb in H2. rewrite Forall_forall in H2. specialize (H2 _ Hin). simpl in H2. lia. }
  rewrite Nat2Z.inj_succ. lia.
Qed.

Lemma swap_fuel_bound : forall s, Inv s -> Z.of_nat (swap_fuel (s_ticks s)) <= 10 ^ 10.
Proof.
  intros s I.
  pose proof (sorted_keys_length (s_ticks s) MinInitializedTick MaxTick (inv_ticks_sorted s I)
                (fun k v Hin => proj1 (proj2 (stored_tick_ok s k v I Hin)))) as L.
  rewrite MinInit_val, MaxTick_val in L. unfold swap_fuel.
  rewrite !Nat2Z.inj_add, Nat2Z.inj_mul. change (Z.of_nat 2) with 2. change (Z.of_nat 8) with 8.
  rewrite Z2Nat.id by (vm_compute; discriminate). change swap_no_progress_limit with 100.
  change (10 ^ 10) with 10000000000. lia.
Qed.

(* ---------- the value of one position as a function of the price ---------- *)
Open Scope Q_scope.

Lemma sq_bounds : forall sp lo hi, validate_tick_range sp lo hi = true ->
  (10 ^ 30 <= sq lo)%Z /\ (sq lo <= sq hi)%Z /\ (sq hi <= 10 ^ 55)%Z.
Proof.
  intros sp lo hi V. apply validate_tick_range_spec in V. destruct V as [_ [_ [_ [Bl [Bh Hlh]]]]].
  destruct (tick_to_sqrt_price_defined lo ltac:(lia)) as [sl El]. destruct (tick_to_sqrt_price_defined hi ltac:(lia)) as [su Eh].
  unfold sq. rewrite El, Eh.
  assert (Emax : tick_to_sqrt_price MaxTick = Some (10 ^ 55)%Z) by (vm_compute; reflexivity).
  pose proof (tick_to_sqrt_price_mono MinInitializedTick lo _ sl ltac:(lia) ltac:(lia) ltac:(lia) sqrt_min_val El).
  pose proof (tick_to_sqrt_price_mono lo hi sl su ltac:(lia) ltac:(lia) ltac:(lia) El Eh).
  pose proof (tick_to_sqrt_price_mono hi MaxTick su _ ltac:(lia) ltac:(lia) ltac:(lia) Eh Emax). lia.
Qed.

(* moving the price from x up to y changes the value of a position by the exact amounts between the clamped prices *)
Lemma pos_value_move : forall L sl su x y, (0 < sl)%Z -> (sl <= su)%Z -> (x <= y)%Z ->
  let a := clampP x sl su in let b := clampP y sl su in
  (sl <= a)%Z /\ (a <= b)%Z /\ (b <= su)%Z /\
  seg_amount0 L a su - seg_amount0 L b su == seg_amount0 L a b /\
  seg_amount1 L sl b - seg_amount1 L sl a == seg_amount1 L a b.
Proof.
  intros L sl su x y Hsl Hls Hxy a b.
  assert (Ba : (sl <= a <= su)%Z) by (unfold a, clampP; lia). assert (Bb : (sl <= b <= su)%Z) by (unfold b, clampP; lia).
  assert (Hab : (a <= b)%Z) by (unfold a, b, clampP; lia).
  split; [lia|]. split; [assumption|]. split; [lia|].
  destruct (pos_potential L sl su a b true Hsl Hls ltac:(lia) Hab ltac:(intros _; lia) ltac:(discriminate)) as [P0 P1].
  assert (Ia : clampP a sl su = a) by (unfold clampP; lia). assert (Ib : clampP b sl su = b) by (unfold clampP; lia).
  rewrite Ia, Ib in P0, P1. split; assumption.
Qed.

Lemma Qmul_le_l : forall t u w, 0 <= t -> u <= w -> t * u <= t * w.
Proof. intros t u w Ht H. rewrite (Qmult_comm t u), (Qmult_comm t w). apply Qmult_le_compat_r; assumption. Qed.

(* the two exact amounts of the same move are proportional, with the product of the prices as factor *)
Lemma seg_coupling : forall L a b, (0 <= L)%Z -> (10 ^ 30 <= a)%Z -> (a <= b)%Z -> (b <= 10 ^ 55)%Z ->
  0 <= seg_amount1 L a b /\ 0 <= seg_amount0 L a b /\
  seg_amount0 L a b <= qz (10 ^ 12) * seg_amount1 L a b /\ seg_amount1 L a b <= qz (10 ^ 38) * seg_amount0 L a b.
Proof.
  intros L a b HL Ha Hab Hb. change (10 ^ 30)%Z with 1000000000000000000000000000000%Z in Ha.
  assert (Pa : (0 < a)%Z) by lia. assert (Pb : (0 < b)%Z) by lia.
  rewrite (seg0_ordered L a b Pa Hab), (seg1_ordered L a b Hab).
  pose proof (qz_pos a Pa) as Qa. pose proof (qz_pos b Pb) as Qb. pose proof q18_pos as Q18. pose proof q36_pos as Q36.
  assert (QL : 0 <= qz L) by (change 0 with (qz 0); apply qz_le; assumption).
  assert (QD : 0 <= qz b - qz a) by (pose proof (qz_le a b Hab); lra).
  assert (Pab : 0 < qz a * qz b) by (rewrite <- (Qmult_0_l (qz b)); apply Qmult_lt_compat_r; assumption).
  assert (P1836 : 0 < q18 * q36) by (rewrite <- (Qmult_0_l q36); apply Qmult_lt_compat_r; assumption).
  assert (N : 0 <= qz L * (qz b - qz a)) by (apply Qmult_le_0_compat; assumption).
  split; [apply Qle_shift_div_l; [assumption|]; lra|].
  split; [apply Qle_shift_div_l; [assumption|]; rewrite Qmult_0_l; apply Qmult_le_0_compat; [apply Qmult_le_0_compat; [assumption|lra]|assumption]|].
  (* a * b >= 10^60 and a * b <= 10^110, in units q36^2 = 10^72 *)
  assert (Lo : qz (10 ^ 60) <= qz a * qz b).
  { rewrite <- qz_mult. apply qz_le. change (10 ^ 60)%Z with (1000000000000000000000000000000 * 1000000000000000000000000000000)%Z. nia. }
  assert (Hi : qz a * qz b <= qz (10 ^ 110)).
  { rewrite <- qz_mult. apply qz_le. change (10 ^ 110)%Z with (10 ^ 55 * 10 ^ 55)%Z. apply Z.mul_le_mono_nonneg; lia. }
  assert (NumE : qz L * q18 * (qz b - qz a) == qz L * (qz b - qz a) * q18) by ring.
  rewrite NumE. clear NumE.
  set (t := qz L * (qz b - qz a)) in *. set (ab := qz a * qz b) in *. clearbody t ab.
  assert (ABnz : ~ ab == 0) by (intro E; rewrite E in Pab; apply (Qlt_irrefl 0); assumption).
  split.
  - (* t q18 / ab <= 10^12 t / (q18 q36) *)
    apply Qle_shift_div_r; [assumption|].
    setoid_replace (qz (10 ^ 12) * (t / (q18 * q36)) * ab) with (t * (qz (10 ^ 12) * ab / (q18 * q36))) by (field; split; [apply q36_nz|apply q18_nz]).
    apply Qmul_le_l; [assumption|].
    apply Qle_shift_div_l; [assumption|].
    assert (E : q18 * (q18 * q36) == qz (10 ^ 12) * qz (10 ^ 60)) by (unfold q18, q36, qz; rewrite <- !inject_Z_mult; reflexivity).
    rewrite E. apply Qmul_le_l; [apply Qlt_le_weak, qz_pos; reflexivity|assumption].
  - apply Qle_shift_div_r; [assumption|].
    setoid_replace (qz (10 ^ 38) * (t * q18 / ab) * (q18 * q36)) with (t * (qz (10 ^ 38) * q18 * q18 * q36 / ab)) by (field; exact ABnz).
    setoid_replace t with (t * 1) at 1 by ring.
    apply Qmul_le_l; [assumption|].
    apply Qle_shift_div_l; [assumption|]. rewrite Qmult_1_l.
    assert (E : qz (10 ^ 38) * q18 * q18 * q36 == qz (10 ^ 110)) by (unfold q18, q36, qz; rewrite <- !inject_Z_mult; reflexivity).
    rewrite E. assumption.
Qed.

(* ---------- the potentials of all positions as functions of the price ---------- *)
Lemma potentials_move : forall sp n l x y, Forall (pos_ok sp n) l -> (x <= y)%Z ->
  let D0 := qsum_pos (pval0 x) l - qsum_pos (pval0 y) l in
  let D1 := qsum_pos (pval1 y) l - qsum_pos (pval1 x) l in
  0 <= D0 /\ 0 <= D1 /\ D0 <= qz (10 ^ 12) * D1 /\ D1 <= qz (10 ^ 38) * D0.
Proof.
  intros sp n l x y F Hxy. cbv zeta. induction l as [|p l IH]; cbn [qsum_pos].
  - split; [lra|]. split; [lra|]. split; lra.
  - inversion F as [|p0 l0 Hp Hl]; subst. destruct (IH Hl) as [A0 [A1 [A2 A3]]]. clear IH.
    destruct Hp as [_ [HL V]]. destruct (sq_bounds _ _ _ V) as [B1 [B2 B3]].
    assert (Psl : (0 < sq (ps_lower p))%Z) by (change (10 ^ 30)%Z with 1000000000000000000000000000000%Z in B1; lia).
    destruct (pos_value_move (ps_liq p) (sq (ps_lower p)) (sq (ps_upper p)) x y Psl B2 Hxy) as [C1 [C2 [C3 [M0 M1]]]].
    cbv zeta in C1, C2, C3, M0, M1.
    assert (HLn : (0 <= ps_liq p)%Z) by lia.
    assert (Hca : (10 ^ 30 <= clampP x (sq (ps_lower p)) (sq (ps_upper p)))%Z) by lia.
    assert (Hcb : (clampP y (sq (ps_lower p)) (sq (ps_upper p)) <= 10 ^ 55)%Z) by lia.
    destruct (seg_coupling (ps_liq p) _ _ HLn Hca C2 Hcb) as [S1 [S0 [K0 K1]]].
    unfold pval0, pval1, val0, val1 in *.
    set (d0 := seg_amount0 (ps_liq p) (clampP x (sq (ps_lower p)) (sq (ps_upper p))) (clampP y (sq (ps_lower p)) (sq (ps_upper p)))) in *.
    set (d1 := seg_amount1 (ps_liq p) (clampP x (sq (ps_lower p)) (sq (ps_upper p))) (clampP y (sq (ps_lower p)) (sq (ps_upper p)))) in *.
    set (u0 := qsum_pos (fun p0 => seg_amount0 (ps_liq p0) (clampP x (sq (ps_lower p0)) (sq (ps_upper p0))) (sq (ps_upper p0))) l -
               qsum_pos (fun p0 => seg_amount0 (ps_liq p0) (clampP y (sq (ps_lower p0)) (sq (ps_upper p0))) (sq (ps_upper p0))) l) in *.
    set (u1 := qsum_pos (fun p0 => seg_amount1 (ps_liq p0) (sq (ps_lower p0)) (clampP y (sq (ps_lower p0)) (sq (ps_upper p0)))) l -
               qsum_pos (fun p0 => seg_amount1 (ps_liq p0) (sq (ps_lower p0)) (clampP x (sq (ps_lower p0)) (sq (ps_upper p0)))) l) in *.
    match goal with |- 0 <= ?G0 /\ 0 <= ?G1 /\ _ =>
      assert (E0 : G0 == d0 + u0) by (unfold u0; lra); assert (E1 : G1 == d1 + u1) by (unfold u1; lra) end.
    rewrite E0, E1. rewrite !Qmult_plus_distr_r.
    set (k12 := qz (10 ^ 12)) in *. set (k38 := qz (10 ^ 38)) in *.
    split; [lra|]. split; [lra|]. split; lra.
Qed.

(* ---------- a swap with everything the argument needs ---------- *)
Lemma swap_in_full : forall s zfo amt r, Inv s -> (0 <= amt)%Z ->
  compute_out_amt_given_in s zfo true amt = Some r ->
  exists tr, chain (p_sqrt (s_pool s)) tr (sr_sqrt r) /\ Forall (seg_ok s zfo) tr /\ Forall (seg2_ok s zfo) tr /\
    (sr_out r * P18 <= sum_out tr)%Z /\ (sum_in tr <= sr_in r * P18)%Z /\ (sr_in r <= amt)%Z /\
    (Z.of_nat (length tr) <= 10 ^ 10)%Z.
Proof.
  intros s zfo amt r I Ha H. pose proof H as H0. unfold compute_out_amt_given_in in H.
  destruct (swap_setup s zfo) as [[limit iter]|] eqn:ES; [|discriminate].
  destruct (loop_out_given_in _ _ _ _ _ _ _ _ _) as [st|] eqn:EL; [|discriminate].
  destruct (ss_remaining st <? 0)%Z eqn:En; [discriminate|]. apply Z.ltb_ge in En. inversion H; subst r; clear H. simpl.
  destruct (swap_setup_LI s zfo limit iter (d_from_int amt) I ES) as [HL [Hne L0]].
  destruct (loop_out_trace_fst _ _ _ _ _ _ _ _ _ _ EL) as [tr ET].
  destruct (loop_out_path _ _ _ _ _ _ _ _ _ _ _ I HL L0 ET) as [_ [C [F [R1 R2]]]].
  destruct (loop_out_path2 _ _ _ _ _ _ _ _ _ _ _ I HL L0 ET) as [F2 _].
  simpl in C, R1, R2. exists tr. split; [assumption|]. split; [assumption|]. split; [assumption|].
  pose proof (sum_out_nonneg _ _ _ F). pose proof (sum_gross_nonneg _ _ _ F). pose proof (sum_fee_nonneg _ _ _ F).
  pose proof (sum_gross_split tr).
  unfold d_from_int in *. rewrite R2, ?Z.add_0_l.
  replace (amt * P18 - ss_remaining st)%Z with (sum_gross tr) by lia.
  split; [apply d_trunc_le; assumption|]. split; [pose proof (d_ceil_trunc_ge (sum_gross tr) H1); lia|].
  split; [apply d_ceil_trunc_le; lia|].
  pose proof (loop_out_trace_len _ _ _ _ _ _ _ _ _ _ _ ET) as Len. pose proof (swap_fuel_bound s I). lia.
Qed.

Lemma swap_exact_in_parts : forall s sender zfo amt m s1 out, swap_exact_in s sender zfo amt m = Some (s1, out) ->
  exists r, compute_out_amt_given_in s zfo true amt = Some r /\ sr_out r = out /\ (0 < amt)%Z /\
    s_pos s1 = s_pos s /\ p_sqrt (s_pool s1) = sr_sqrt r.
Proof.
  intros s sender zfo amt m s1 out H. unfold swap_exact_in in H.
  destruct (negb (0 <? amt)%Z || negb (0 <? m)%Z) eqn:E0; [discriminate|].
  apply orb_false_iff in E0. destruct E0 as [E0 _]. apply negb_false_iff in E0. apply Z.ltb_lt in E0.
  destruct (compute_out_amt_given_in s zfo true amt) as [r|] eqn:EC; [|discriminate].
  destruct (negb (0 <? sr_out r)%Z); [discriminate|].
  destruct (update_pool_for_swap s sender zfo r) as [s'|] eqn:EU; [|discriminate].
  destruct (sr_out r <? m)%Z; [discriminate|]. inversion H; subst.
  destruct (update_pool_for_swap_spec _ _ _ _ _ EU) as [b Es]. subst s1.
  exists r. repeat split; try reflexivity; assumption.
Qed.

Lemma eps_budget : qz (10 ^ 12) * (eps36 * qz (10 ^ 10)) < 1.
Proof. unfold eps36, q36, qz. vm_compute. reflexivity. Qed.
Lemma eps_budget1 : eps36 * qz (10 ^ 10) < 1.
Proof. unfold eps36, q36, qz. vm_compute. reflexivity. Qed.

Lemma qz_lt_succ : forall a b, qz a < qz b + 1 -> (a <= b)%Z.
Proof.
  intros a b H. change 1 with (qz 1) in H. rewrite <- qz_plus in H. unfold qz in H. rewrite <- Zlt_Qlt in H. lia.
Qed.

(* THERE AND BACK *)
Theorem there_and_back_le : forall s sender zfo amt m1 s1 out sender2 m2 s2 back, Inv s ->
  swap_exact_in s sender zfo amt m1 = Some (s1, out) ->
  swap_exact_in s1 sender2 (negb zfo) out m2 = Some (s2, back) ->
  (back <= amt)%Z.
Proof.
  intros s sender zfo amt m1 s1 out sender2 m2 s2 back I H1 H2.
  destruct (swap_exact_in_spec _ _ _ _ _ _ _ I H1) as [I1 _].
  destruct (swap_exact_in_parts _ _ _ _ _ _ _ H1) as [r1 [C1 [O1 [A1 [P1 Q1]]]]].
  destruct (swap_exact_in_parts _ _ _ _ _ _ _ H2) as [r2 [C2 [O2 [A2 [P2 Q2]]]]].
  destruct (swap_in_full _ _ _ _ I (Z.lt_le_incl _ _ A1) C1) as [tr1 [Ch1 [F1 [G1 [So1 [Si1 [Le1 K1]]]]]]].
  destruct (swap_in_full _ _ _ _ I1 (Z.lt_le_incl _ _ A2) C2) as [tr2 [Ch2 [F2 [G2 [So2 [Si2 [Le2 K2]]]]]]].
  rewrite Q1 in Ch2. rewrite O1 in So1. rewrite O2 in So2.
  set (c0 := p_sqrt (s_pool s)) in *. set (c1 := sr_sqrt r1) in *. set (c2 := sr_sqrt r2) in *.
  destruct (chain_potential s zfo tr1 c0 c1 I Ch1 F1 G1) as [PI1 PO1].
  destruct (chain_potential s1 (negb zfo) tr2 c1 c2 I1 Ch2 F2 G2) as [PI2 PO2].
  pose proof (sum_in_covers s zfo tr1 F1 G1) as CI1. pose proof (sum_out_le_ideal s zfo tr1 F1) as CO1.
  pose proof (sum_in_covers s1 (negb zfo) tr2 F2 G2) as CI2. pose proof (sum_out_le_ideal s1 (negb zfo) tr2 F2) as CO2.
  (* integer facts as rationals *)
  assert (TO1 : qz out <= qz (sum_out tr1) / q18) by (apply qz_div18; exact So1).
  assert (TI1 : qz (sum_in tr1) / q18 <= qz amt).
  { eapply Qle_trans; [apply div18_qz; exact Si1|]. apply qz_le. exact Le1. }
  assert (TO2 : qz back <= qz (sum_out tr2) / q18) by (apply qz_div18; exact So2).
  assert (TI2 : qz (sum_in tr2) / q18 <= qz out).
  { eapply Qle_trans; [apply div18_qz; exact Si2|]. apply qz_le. exact Le2. }
  pose proof (qz_le _ _ K1) as KK1. pose proof (qz_le _ _ K2) as KK2.
  pose proof eps36_nonneg as EP. pose proof eps_budget as EB. pose proof eps_budget1 as EB1.
  assert (EK1 : eps36 * qz (Z.of_nat (length tr1)) <= eps36 * qz (10 ^ 10)) by (apply Qmul_le_l; assumption).
  assert (EK2 : eps36 * qz (Z.of_nat (length tr2)) <= eps36 * qz (10 ^ 10)) by (apply Qmul_le_l; assumption).
  (* the potentials over the (common) positions *)
  unfold Ein, Eout in PI1, PO1, PI2, PO2. rewrite P1 in PI2, PO2.
  set (l := s_pos s) in *.
  pose proof (inv_pos_ok s I) as POK. fold l in POK.
  apply qz_lt_succ.
  destruct zfo; cbn [negb] in *; unfold in_slack in CI1, CI2; fold eps36 in CI1, CI2.
  - (* token0 in, token1 out; back: token1 in, token0 out *)
    destruct (Z_le_gt_dec c2 c0) as [Hc|Hc].
    + destruct (potentials_move _ _ l c2 c0 POK Hc) as [D0 [D1 [_ _]]]. cbv zeta in D0, D1. lra.
    + assert (Hc' : (c0 <= c2)%Z) by lia.
      destruct (potentials_move _ _ l c0 c2 POK Hc') as [D0 [D1 [D01 _]]]. cbv zeta in D0, D1, D01.
      set (k12 := qz (10 ^ 12)) in *. assert (K12 : 0 <= k12) by (unfold k12; change 0 with (qz 0); apply qz_le; lia).
      assert (Rise : qsum_pos (pval1 c2) l - qsum_pos (pval1 c0) l <= eps36 * qz (10 ^ 10)) by lra.
      assert (k12 * (qsum_pos (pval1 c2) l - qsum_pos (pval1 c0) l) <= k12 * (eps36 * qz (10 ^ 10))) by (apply Qmul_le_l; assumption).
      lra.
  - (* token1 in, token0 out; back: token0 in, token1 out *)
    destruct (Z_le_gt_dec c0 c2) as [Hc|Hc].
    + destruct (potentials_move _ _ l c0 c2 POK Hc) as [D0 [D1 [_ _]]]. cbv zeta in D0, D1. lra.
    + assert (Hc' : (c2 <= c0)%Z) by lia.
      destruct (potentials_move _ _ l c2 c0 POK Hc') as [D0 [D1 [_ D10]]]. cbv zeta in D0, D1, D10.
      set (k38 := qz (10 ^ 38)) in *.
      assert (Z0 : qsum_pos (pval0 c2) l - qsum_pos (pval0 c0) l == 0) by lra.
      rewrite Z0, Qmult_0_r in D10. lra.
Qed.
