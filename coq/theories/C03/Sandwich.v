(* C03: the lower half of the rounding sandwich for exact-in swaps, in the potential form of C01.
   For a swap that consumed A_in and paid out A_out over k loop iterations (price c0 -> c1), with I(c) := Ein(c) - Ein(c0) the exact
   cost of moving the positions' price to c and O(c) := Eout(c0) - Eout(c) the exact proceeds:
     (A)  (A_in - 1) (1 - f) - A_in 10^-18 - k (1 + 10^-18 + 2 10^-24) - U  <  I(c1)     the price moved as far as was paid for
     (B)  O(c1)  <  A_out + 1 + k (10^-18 + 10^-36 + 2 10^-24)                          and the proceeds of that move were paid out
   where U is the sum over the iterations of the input-token value of one unit (10^-36) of the sqrt price (ulp_in).
   Consequently (C): every price that costs no more than the left side of (A) pays out less than the right side of (B). *)
From Coq Require Import ZArith QArith List Bool Lia Lqa.
Import ListNotations.
From Osmo Require Import Base.DecModel CL.TickMath CL.CLMath CL.CLPool CL.CLSwap CL.CLStep CL.Ideal.
From Osmo Require Import C07.Base C07.TickLemmas C07.LP C07.SwapDir C07.Swap C03.Rounding C03.Steps C03.ErrorBound C03.Path C03.Whole.
From Osmo Require Import C01.Exact C01.Solvent C01.SwapPath C01.Potential C01.SwapSolvent C03.ThereBack C03.Lower.
Open Scope Q_scope.
Set Default Timeout 120.

(* ---------- cross-multiplied integer inequalities read as rationals (K stands for 10^18) ---------- *)
Lemma Qnz_of_pos : forall x, 0 < x -> ~ x == 0.
Proof. intros x H E. rewrite E in H. apply (Qlt_irrefl 0). assumption. Qed.

Lemma q_consume0 : forall K g s n c L d T : Q, 0 < K -> 0 < n -> 0 < c ->
  g * (K - s) * n * c * K < L * d * (K * K * (K * K)) + n * c * (K * K * K) + T * (K * K * K) + L * (K * K * (K * K)) + g * n * c * K + n * c * (K * K) ->
  (g / K) * (1 - s / K) < (L / K) * (d / (K * K)) / ((c / (K * K)) * (n / (K * K))) + 1 + T / (c * n) + L * K / (c * n) + (g / K) / K + 1 / K.
Proof.
  intros K g s n c L d T HK Hn Hc H.
  pose proof (Qnz_of_pos _ HK) as NK. pose proof (Qnz_of_pos _ Hn) as Nn. pose proof (Qnz_of_pos _ Hc) as Nc.
  assert (HD : 0 < n * c * (K * K * K)).
  { repeat (apply Qmult_lt_0_compat); assumption. }
  apply (proj1 (Qmult_lt_r _ _ _ HD)).
  setoid_replace (g / K * (1 - s / K) * (n * c * (K * K * K))) with (g * (K - s) * n * c * K) by (field; assumption).
  setoid_replace ((L / K * (d / (K * K)) / (c / (K * K) * (n / (K * K))) + 1 + T / (c * n) + L * K / (c * n) + g / K / K + 1 / K) * (n * c * (K * K * K)))
    with (L * d * (K * K * (K * K)) + n * c * (K * K * K) + T * (K * K * K) + L * (K * K * (K * K)) + g * n * c * K + n * c * (K * K))
    by (field; repeat split; assumption).
  exact H.
Qed.

Lemma q_consume1 : forall K g s L d : Q, 0 < K ->
  2 * g * (K - s) * K < 2 * L * d + 2 * (K * K * K) + K + 2 * L + 2 * g * K + 2 * (K * K) ->
  (g / K) * (1 - s / K) < (L / K) * (d / (K * K)) + 1 + 1 / (2 * (K * K)) + L / (K * (K * K)) + (g / K) / K + 1 / K.
Proof.
  intros K g s L d HK H. pose proof (Qnz_of_pos _ HK) as NK.
  assert (HD : 0 < 2 * (K * K * K)) by (repeat (apply Qmult_lt_0_compat); try assumption; reflexivity).
  apply (proj1 (Qmult_lt_r _ _ _ HD)).
  setoid_replace (g / K * (1 - s / K) * (2 * (K * K * K))) with (2 * g * (K - s) * K) by (field; assumption).
  setoid_replace ((L / K * (d / (K * K)) + 1 + 1 / (2 * (K * K)) + L / (K * (K * K)) + g / K / K + 1 / K) * (2 * (K * K * K)))
    with (2 * L * d + 2 * (K * K * K) + K + 2 * L + 2 * g * K + 2 * (K * K)) by (field; assumption).
  exact H.
Qed.

(* amounts out: token1 (zfo) and token0 *)
Lemma q_out1 : forall K o L d : Q, 0 < K ->
  L * d < (o * K + K) * K + K -> (L / K) * (d / (K * K)) < o / K + 1 / K + 1 / (K * K).
Proof.
  intros K o L d HK H. pose proof (Qnz_of_pos _ HK) as NK.
  assert (HD : 0 < K * K * K) by (repeat (apply Qmult_lt_0_compat); assumption).
  apply (proj1 (Qmult_lt_r _ _ _ HD)).
  setoid_replace (L / K * (d / (K * K)) * (K * K * K)) with (L * d) by (field; assumption).
  setoid_replace ((o / K + 1 / K + 1 / (K * K)) * (K * K * K)) with ((o * K + K) * K + K) by (field; assumption).
  exact H.
Qed.

Lemma q_out0 : forall K o n c L d M : Q, 0 < K -> 0 < n -> 0 < c ->
  L * d * (K * K) * (K * K) < (o * K + K) * n * c * K + K * (K * K) * (K * K) + M * (K * K) * K + n * c * K ->
  (L / K) * (d / (K * K)) / ((c / (K * K)) * (n / (K * K))) < o / K + 1 / K + (K * K + M) / (n * c) + 1 / (K * K).
Proof.
  intros K o n c L d M HK Hn Hc H.
  pose proof (Qnz_of_pos _ HK) as NK. pose proof (Qnz_of_pos _ Hn) as Nn. pose proof (Qnz_of_pos _ Hc) as Nc.
  assert (HD : 0 < n * c * (K * K * K)) by (repeat (apply Qmult_lt_0_compat); assumption).
  apply (proj1 (Qmult_lt_r _ _ _ HD)).
  setoid_replace (L / K * (d / (K * K)) / (c / (K * K) * (n / (K * K))) * (n * c * (K * K * K))) with (L * d * (K * K) * (K * K))
    by (field; repeat split; assumption).
  setoid_replace ((o / K + 1 / K + (K * K + M) / (n * c) + 1 / (K * K)) * (n * c * (K * K * K)))
    with ((o * K + K) * n * c * K + K * (K * K) * (K * K) + M * (K * K) * K + n * c * K) by (field; repeat split; assumption).
  exact H.
Qed.

(* injecting integer inequalities *)
Lemma qz_lt : forall a b, (a < b)%Z -> qz a < qz b. Proof. intros. unfold qz. rewrite <- Zlt_Qlt. assumption. Qed.
Lemma q18_P18 : qz P18 = q18. Proof. reflexivity. Qed.
Ltac push_qz := repeat (rewrite qz_plus || rewrite qz_mult || rewrite qz_minus); rewrite ?q18_P18.
Ltac push_qz_in H := repeat (rewrite qz_plus in H || rewrite qz_mult in H || rewrite qz_minus in H); rewrite ?q18_P18 in H.

(* ---------- the error terms of one segment ---------- *)
(* 10^36/(a b) + 1/min(a,b): the dust of the token0 rounding chain, in tokens *)
Definition tiny (a b : Z) : Q := (q18 * q18 + qz (Z.max a b)) / (qz a * qz b).
Definition tau : Q := 2 / qz (10 ^ 24).
(* the input-token value of one unit of the 36th decimal of the sqrt price at the segment's liquidity *)
Definition ulp_in (zfo : bool) (sg : seg) : Q :=
  if zfo then qz (sg_liq sg) * q18 / (qz (sg_a sg) * qz (sg_b sg)) else qz (sg_liq sg) / (q18 * (q18 * q18)).

Lemma tiny_small : forall a b, (10 ^ 30 <= a)%Z -> (10 ^ 30 <= b)%Z -> tiny a b <= tau.
Proof.
  intros a b Ha Hb. change (10 ^ 30)%Z with 1000000000000000000000000000000%Z in *.
  assert (Pa : (0 < a)%Z) by lia. assert (Pb : (0 < b)%Z) by lia.
  pose proof (qz_pos a Pa) as Qa. pose proof (qz_pos b Pb) as Qb.
  assert (Pab : 0 < qz a * qz b) by (apply Qmult_lt_0_compat; assumption).
  unfold tiny, tau. apply Qle_shift_div_r; [assumption|].
  assert (P24 : 0 < qz (10 ^ 24)) by (apply qz_pos; reflexivity).
  setoid_replace (2 / qz (10 ^ 24) * (qz a * qz b)) with ((2 * (qz a * qz b)) / qz (10 ^ 24)) by (field; apply Qnz_of_pos; assumption).
  apply Qle_shift_div_l; [assumption|].
  assert (E1 : q18 * q18 * qz (10 ^ 24) == qz (10 ^ 60)) by (unfold q18, qz; rewrite <- !inject_Z_mult; reflexivity).
  assert (L1 : qz (10 ^ 60) <= qz a * qz b).
  { rewrite <- qz_mult. apply qz_le. change (10 ^ 60)%Z with (1000000000000000000000000000000 * 1000000000000000000000000000000)%Z. nia. }
  assert (L2 : qz (Z.max a b) * qz (10 ^ 24) <= qz a * qz b).
  { rewrite <- !qz_mult. apply qz_le. change (10 ^ 24)%Z with 1000000000000000000000000%Z.
    destruct (Z.max_spec a b) as [[_ E]|[_ E]]; rewrite E; nia. }
  rewrite Qmult_plus_distr_l, E1. lra.
Qed.

(* ---------- one segment ---------- *)
Definition spf_q (s : state) : Q := qz (p_spread (s_pool s)) / q18.

Lemma seg_consumes_q : forall s zfo sg, Inv s -> seg_ok s zfo sg -> seg2_ok s zfo sg -> seg3_ok s zfo sg ->
  (qz (sg_in sg + sg_fee sg) / q18) * (1 - spf_q s) <
  ideal_in_of zfo sg + 1 + tau + ulp_in zfo sg + (qz (sg_in sg + sg_fee sg) / q18) / q18 + 1 / q18.
Proof.
  intros s zfo sg I SO S2 S3.
  destruct SO as [SL [HL [Pa [Pb [PC [Hin [Hout [Hfee _]]]]]]]].
  destruct S2 as [_ [_ [_ [_ DIR]]]]. destruct S3 as [IA [_ [GA PR]]].
  pose proof (inv_spread s I) as Hs. assert (Hs' : (0 <= p_spread (s_pool s) < P18)%Z) by (rewrite P18_val; lia).
  pose proof q18_pos as HK.
  assert (SC : step_consumes zfo (p_spread (s_pool s)) (sg_liq sg) (sg_a sg) (sg_b sg) (sg_in sg + sg_fee sg)).
  { assert (Hg : (0 <= sg_in sg <= sg_in sg + sg_fee sg)%Z) by (clear - Hin Hfee; lia).
    assert (Hd : if zfo then (sg_b sg <= sg_a sg)%Z /\ (P18 <= sg_b sg)%Z else (sg_a sg <= sg_b sg)%Z).
    { destruct zfo; [|assumption]. destruct (PR eq_refl) as [A B]. split; [assumption|].
      eapply Z.le_trans; [|exact B]. rewrite P18_val. vm_compute. discriminate. }
    exact (step_consumes_of zfo _ _ _ _ (sg_in sg) _ HL Pb Pa Hg Hs' Hd IA GA). }
  unfold step_consumes in SC. unfold ideal_in_of, seg_in, ulp_in, spf_q. set (g := (sg_in sg + sg_fee sg)%Z) in *.
  destruct zfo.
  - destruct (PR eq_refl) as [A B].
    apply qz_lt in SC. push_qz_in SC.
    pose proof (q_consume0 q18 (qz g) (qz (p_spread (s_pool s))) (qz (sg_b sg)) (qz (sg_a sg)) (qz (sg_liq sg))
                  (qz (sg_a sg) - qz (sg_b sg)) (q18 * q18 + qz (sg_a sg)) HK (qz_pos _ Pb) (qz_pos _ Pa) SC) as Q.
    assert (TS : tiny (sg_a sg) (sg_b sg) <= tau) by (apply tiny_small; assumption).
    unfold tiny in TS. rewrite Z.max_l in TS by lia.
    unfold seg_amount0. rewrite Z.abs_eq by lia. rewrite qz_minus, q36_sq.
    set (X := (q18 * q18 + qz (sg_a sg)) / (qz (sg_a sg) * qz (sg_b sg))) in *. lra.
  - apply qz_lt in SC. push_qz_in SC. change (qz 2) with 2 in SC.
    pose proof (q_consume1 q18 (qz g) (qz (p_spread (s_pool s))) (qz (sg_liq sg)) (qz (sg_b sg) - qz (sg_a sg)) HK SC) as Q.
    unfold seg_amount1. rewrite Z.abs_neq by lia. replace (- (sg_a sg - sg_b sg))%Z with (sg_b sg - sg_a sg)%Z by ring.
    rewrite qz_minus, q36_sq.
    assert (T : 1 / (2 * (q18 * q18)) <= tau) by (unfold tau, q18, qz; vm_compute; discriminate).
    set (X := 1 / (2 * (q18 * q18))) in *. lra.
Qed.

Lemma pays_q : forall s zfo sg, Inv s -> seg_ok s zfo sg -> seg2_ok s zfo sg ->
  out_at_least zfo (sg_liq sg) (sg_a sg) (sg_b sg) (sg_out sg) ->
  ideal_out_of zfo sg < qz (sg_out sg) / q18 + 1 / q18 + 1 / (q18 * q18) + tau.
Proof.
  intros s zfo sg I SO S2 OA. pose proof SO as SO'. pose proof S2 as S2'.
  destruct SO as [SL [HL [Pa [Pb [PC [Hin [Hout [Hfee _]]]]]]]].
  destruct S2 as [_ [_ [_ [_ DIR]]]].
  pose proof q18_pos as HK. unfold out_at_least in OA. unfold ideal_out_of, seg_out.
  assert (T0 : 0 <= tau) by (unfold tau, qz; vm_compute; discriminate).
  destruct zfo.
  - apply qz_lt in OA. push_qz_in OA.
    pose proof (q_out1 q18 (qz (sg_out sg)) (qz (sg_liq sg)) (qz (Z.abs (sg_a sg - sg_b sg))) HK OA) as Q.
    unfold seg_amount1. rewrite q36_sq. lra.
  - destruct (Z.eq_dec (sg_liq sg) 0) as [Z0|Z0].
    + rewrite Z0.
      assert (Z00 : seg_amount0 0 (sg_a sg) (sg_b sg) == 0) by (unfold seg_amount0, Qdiv; change (qz 0) with 0; ring).
      rewrite Z00.
      assert (0 <= qz (sg_out sg) / q18) by (apply Qle_shift_div_l; [assumption|]; rewrite Qmult_0_l; change 0 with (qz 0); apply qz_le; assumption).
      assert (0 < 1 / q18) by (apply Qlt_shift_div_l; [assumption|]; rewrite Qmult_0_l; reflexivity).
      assert (0 < 1 / (q18 * q18)) by (apply Qlt_shift_div_l; [apply Qmult_lt_0_compat; assumption|]; rewrite Qmult_0_l; reflexivity).
      lra.
    + destruct (seg_prices_liq s false sg I SO' S2' ltac:(lia)) as [A B].
      rewrite P36_sq in OA. apply qz_lt in OA. push_qz_in OA.
      pose proof (q_out0 q18 (qz (sg_out sg)) (qz (sg_b sg)) (qz (sg_a sg)) (qz (sg_liq sg)) (qz (Z.abs (sg_a sg - sg_b sg)))
                    (qz (Z.max (sg_b sg) (sg_a sg))) HK (qz_pos _ Pb) (qz_pos _ Pa) OA) as Q.
      assert (TS : tiny (sg_b sg) (sg_a sg) <= tau) by (apply tiny_small; assumption).
      unfold tiny in TS. unfold seg_amount0. rewrite q36_sq.
      set (X := (q18 * q18 + qz (Z.max (sg_b sg) (sg_a sg))) / (qz (sg_b sg) * qz (sg_a sg))) in *. lra.
Qed.
Lemma seg_pays_q : forall s zfo sg, Inv s -> seg_ok s zfo sg -> seg2_ok s zfo sg -> seg3_ok s zfo sg ->
  ideal_out_of zfo sg < qz (sg_out sg) / q18 + 1 / q18 + 1 / (q18 * q18) + tau.
Proof. intros s zfo sg I SO S2 [_ [OA _]]. eapply pays_q; eassumption. Qed.


(* ---------- sums over the trace ---------- *)
Definition pay_err : Q := 1 / q18 + 1 / (q18 * q18) + tau.
Definition consume_err : Q := 1 + tau + 1 / q18.

Lemma sum_pays : forall s zfo tr, Inv s -> Forall (seg_ok s zfo) tr -> Forall (seg2_ok s zfo) tr -> Forall (seg3_ok s zfo) tr ->
  qsum (ideal_out_of zfo) tr <= qz (sum_out tr) / q18 + qz (Z.of_nat (length tr)) * pay_err.
Proof.
  intros s zfo tr I. induction tr as [|sg tr IH]; intros F1 F2 F3.
  - simpl. unfold Qdiv. rewrite !Qmult_0_l. lra.
  - inversion F1; subst. inversion F2; subst. inversion F3; subst. specialize (IH H2 H4 H6).
    pose proof (seg_pays_q s zfo sg I H1 H3 H5) as P. fold pay_err in P.
    change (length (sg :: tr)) with (S (length tr)). rewrite Nat2Z.inj_succ. unfold Z.succ.
    simpl qsum. simpl sum_out. rewrite (qz_plus (sg_out sg)), (qz_plus (Z.of_nat (length tr)) 1). change (qz 1) with 1.
    setoid_replace ((qz (sg_out sg) + qz (sum_out tr)) / q18) with (qz (sg_out sg) / q18 + qz (sum_out tr) / q18) by (field; apply q18_nz).
    unfold pay_err in *. lra.
Qed.

Lemma sum_consumes : forall s zfo tr, Inv s -> Forall (seg_ok s zfo) tr -> Forall (seg2_ok s zfo) tr -> Forall (seg3_ok s zfo) tr ->
  (qz (sum_gross tr) / q18) * (1 - spf_q s) <=
  qsum (ideal_in_of zfo) tr + qz (Z.of_nat (length tr)) * consume_err + qsum (ulp_in zfo) tr + (qz (sum_gross tr) / q18) / q18.
Proof.
  intros s zfo tr I. induction tr as [|sg tr IH]; intros F1 F2 F3.
  - simpl. unfold Qdiv. rewrite !Qmult_0_l. lra.
  - inversion F1; subst. inversion F2; subst. inversion F3; subst. specialize (IH H2 H4 H6).
    pose proof (seg_consumes_q s zfo sg I H1 H3 H5) as P.
    change (length (sg :: tr)) with (S (length tr)). rewrite Nat2Z.inj_succ. unfold Z.succ.
    simpl qsum. simpl sum_gross. rewrite (qz_plus (sg_in sg + sg_fee sg)), (qz_plus (Z.of_nat (length tr)) 1). change (qz 1) with 1.
    setoid_replace ((qz (sg_in sg + sg_fee sg) + qz (sum_gross tr)) / q18) with (qz (sg_in sg + sg_fee sg) / q18 + qz (sum_gross tr) / q18)
      by (field; apply q18_nz).
    set (g1 := qz (sg_in sg + sg_fee sg) / q18) in *. set (g2 := qz (sum_gross tr) / q18) in *.
    setoid_replace ((g1 + g2) / q18) with (g1 / q18 + g2 / q18) by (field; apply q18_nz).
    unfold consume_err in *. set (f := spf_q s) in *. set (y1 := g1 / q18) in *. set (y2 := g2 / q18) in *.
    set (i1 := 1 / q18) in *. lra.
Qed.

(* ---------- the whole computation ---------- *)
Open Scope Z_scope.
Lemma d_trunc_ub : forall a, 0 <= a -> a < d_truncate_int a * P18 + P18.
Proof. intros a Ha. unfold d_truncate_int. pose proof P18_pos as HP. destruct (trunc_div_spec a P18 Ha HP) as [[A B] C]. lia. Qed.
Lemma d_ceil_trunc_ub : forall a, 0 <= a -> d_truncate_int (d_ceil a) * P18 < a + P18.
Proof.
  intros a Ha. unfold d_truncate_int, d_ceil. pose proof P18_pos as HP.
  destruct (quot_rem_pos a P18 Ha HP) as [A [B C]].
  destruct (0 <? Z.rem a P18) eqn:E; rewrite Z.quot_mul by lia; [apply Z.ltb_lt in E|apply Z.ltb_ge in E]; lia.
Qed.

Lemma swap_in_full3 : forall s zfo accum amt r, Inv s -> 0 <= amt ->
  compute_out_amt_given_in s zfo accum amt = Some r ->
  exists tr, chain (p_sqrt (s_pool s)) tr (sr_sqrt r) /\ Forall (seg_ok s zfo) tr /\ Forall (seg2_ok s zfo) tr /\ Forall (seg3_ok s zfo) tr /\
    sum_out tr < sr_out r * P18 + P18 /\ sr_in r * P18 < sum_gross tr + P18 /\ sum_gross tr <= sr_in r * P18 /\ 0 <= sum_gross tr /\
    (length tr <= swap_fuel (s_ticks s))%nat.
Proof.
  intros s zfo accum amt r I Ha H. unfold compute_out_amt_given_in in H.
  destruct (swap_setup s zfo) as [[limit iter]|] eqn:ES; [|discriminate].
  destruct (loop_out_given_in _ _ _ _ _ _ _ _ _) as [st|] eqn:EL; [|discriminate].
  destruct (ss_remaining st <? 0) eqn:En; [discriminate|]. apply Z.ltb_ge in En. inversion H; subst r; clear H. simpl.
  destruct (swap_setup_LI s zfo limit iter (d_from_int amt) I ES) as [HL [Hne L0]].
  destruct (loop_out_trace_fst _ _ _ _ _ _ _ _ _ _ EL) as [tr ET].
  destruct (loop_out_path _ _ _ _ _ _ _ _ _ _ _ I HL L0 ET) as [_ [C [F [R1 R2]]]].
  destruct (loop_out_path2 _ _ _ _ _ _ _ _ _ _ _ I HL L0 ET) as [F2 _].
  pose proof (loop_out_path3 _ _ _ _ _ _ _ _ _ _ _ I HL L0 ET) as F3.
  simpl in C, R1, R2. exists tr. splits; try assumption.
  - pose proof (sum_out_nonneg _ _ _ F). unfold d_from_int in *. rewrite R2, ?Z.add_0_l. apply d_trunc_ub; assumption.
  - pose proof (sum_gross_nonneg _ _ _ F). unfold d_from_int in *.
    replace (amt * P18 - ss_remaining st) with (sum_gross tr) by lia. apply d_ceil_trunc_ub; assumption.
  - pose proof (sum_gross_nonneg _ _ _ F). unfold d_from_int in *.
    replace (amt * P18 - ss_remaining st) with (sum_gross tr) by lia. apply d_ceil_trunc_ge; assumption.
  - apply (sum_gross_nonneg _ _ _ F).
  - exact (loop_out_trace_len _ _ _ _ _ _ _ _ _ _ _ ET).
Qed.
Open Scope Q_scope.

(* what was consumed, less the spread factor and the rounding allowance *)
Definition paid_for (s : state) (zfo : bool) (tin : Z) (tr : list seg) : Q :=
  (qz tin - 1) * (1 - spf_q s) - qz tin / q18 - qz (Z.of_nat (length tr)) * consume_err - qsum (ulp_in zfo) tr.
Definition pays_at_most (tout : Z) (tr : list seg) : Q := qz tout + 1 + qz (Z.of_nat (length tr)) * pay_err.

Theorem exact_in_lower : forall s zfo accum amt r, Inv s -> (0 <= amt)%Z ->
  compute_out_amt_given_in s zfo accum amt = Some r ->
  exists tr, chain (p_sqrt (s_pool s)) tr (sr_sqrt r) /\ Forall (seg_ok s zfo) tr /\ (length tr <= swap_fuel (s_ticks s))%nat /\
    paid_for s zfo (sr_in r) tr < Ein zfo s (sr_sqrt r) - Ein zfo s (p_sqrt (s_pool s)) /\
    Eout zfo s (p_sqrt (s_pool s)) - Eout zfo s (sr_sqrt r) < pays_at_most (sr_out r) tr.
Proof.
  intros s zfo accum amt r I Ha H.
  destruct (swap_in_full3 _ _ _ _ _ I Ha H) as [tr [C [F1 [F2 [F3 [So [Gi1 [Gi2 [G0 Len]]]]]]]]].
  exists tr. split; [assumption|]. split; [assumption|]. split; [assumption|].
  destruct (chain_potential s zfo tr _ _ I C F1 F2) as [PI PO].
  pose proof (sum_pays s zfo tr I F1 F2 F3) as SP. pose proof (sum_consumes s zfo tr I F1 F2 F3) as SC.
  pose proof q18_pos as HK.
  (* the integer roundings *)
  assert (TO : qz (sum_out tr) / q18 < qz (sr_out r) + 1).
  { apply Qlt_shift_div_r; [assumption|]. change 1 with (qz 1). rewrite <- qz_plus, <- q18_P18, <- qz_mult. apply qz_lt. lia. }
  assert (TI1 : qz (sr_in r) - 1 < qz (sum_gross tr) / q18).
  { apply Qlt_shift_div_l; [assumption|]. change 1 with (qz 1). rewrite <- qz_minus, <- q18_P18, <- qz_mult. apply qz_lt. lia. }
  assert (TI2 : qz (sum_gross tr) / q18 <= qz (sr_in r)) by (apply div18_qz; assumption).
  assert (F : 0 < 1 - spf_q s).
  { unfold spf_q. pose proof (inv_spread s I) as [A B].
    assert (qz (p_spread (s_pool s)) / q18 < 1); [|lra].
    apply Qlt_shift_div_r; [assumption|]. rewrite Qmult_1_l, <- q18_P18. apply qz_lt. rewrite P18_val. lia. }
  assert (M1 : (qz (sr_in r) - 1) * (1 - spf_q s) < qz (sum_gross tr) / q18 * (1 - spf_q s)) by (apply Qmult_lt_compat_r; assumption).
  assert (M2 : qz (sum_gross tr) / q18 / q18 <= qz (sr_in r) / q18) by (apply Qdiv_le_mono; assumption).
  unfold paid_for, pays_at_most. split.
  - rewrite PI. set (k := qz (Z.of_nat (length tr))) in *. set (ce := consume_err) in *. set (f := spf_q s) in *.
    set (x1 := (qz (sr_in r) - 1) * (1 - f)) in *. set (x2 := qz (sum_gross tr) / q18 * (1 - f)) in *.
    set (y1 := qz (sum_gross tr) / q18 / q18) in *. set (y2 := qz (sr_in r) / q18) in *. set (kc := k * ce) in *. lra.
  - rewrite PO. set (k := qz (Z.of_nat (length tr))) in *. set (kc := k * pay_err) in *. lra.
Qed.

(* (C): every price that the amount paid for (less the allowance) reaches on the exact curve pays out less than the swap did (plus the allowance) *)
Theorem exact_in_sandwich_lower : forall s zfo accum amt r, Inv s -> (0 <= amt)%Z ->
  compute_out_amt_given_in s zfo accum amt = Some r ->
  exists tr, chain (p_sqrt (s_pool s)) tr (sr_sqrt r) /\ Forall (seg_ok s zfo) tr /\ (length tr <= swap_fuel (s_ticks s))%nat /\
    forall c', Ein zfo s c' - Ein zfo s (p_sqrt (s_pool s)) <= paid_for s zfo (sr_in r) tr ->
               Eout zfo s (p_sqrt (s_pool s)) - Eout zfo s c' < pays_at_most (sr_out r) tr.
Proof.
  intros s zfo accum amt r I Ha H.
  destruct (exact_in_lower _ _ _ _ _ I Ha H) as [tr [C [F1 [Len [A B]]]]].
  exists tr. split; [assumption|]. split; [assumption|]. split; [assumption|].
  intros c' Hc. set (c0 := p_sqrt (s_pool s)) in *. set (c1 := sr_sqrt r) in *.
  pose proof (inv_pos_ok s I) as POK. unfold Ein, Eout in *. set (l := s_pos s) in *.
  destruct zfo.
  - destruct (Z_le_gt_dec c' c1) as [Hle|Hgt].
    + destruct (potentials_move _ _ l c' c1 POK Hle) as [D0 _]. cbv zeta in D0. lra.
    + destruct (potentials_move _ _ l c1 c' POK ltac:(lia)) as [_ [D1 _]]. cbv zeta in D1. lra.
  - destruct (Z_le_gt_dec c1 c') as [Hle|Hgt].
    + destruct (potentials_move _ _ l c1 c' POK Hle) as [_ [D1 _]]. cbv zeta in D1. lra.
    + destruct (potentials_move _ _ l c' c1 POK ltac:(lia)) as [D0 _]. cbv zeta in D0. lra.
Qed.

(* ====================================================================================================================
   exact-out swaps
   ==================================================================================================================== *)
Lemma q_charge0 : forall K g s n c L d T : Q, 0 < K -> 0 < n -> 0 < c ->
  g * (K - s) * n * c * K < L * d * (K * K * (K * K)) + n * c * (K * K * K) + T * (K * K * K) + g * n * c * K + n * c * (K * K) ->
  (g / K) * (1 - s / K) < (L / K) * (d / (K * K)) / ((c / (K * K)) * (n / (K * K))) + 1 + T / (c * n) + (g / K) / K + 1 / K.
Proof.
  intros K g s n c L d T HK Hn Hc H.
  pose proof (Qnz_of_pos _ HK) as NK. pose proof (Qnz_of_pos _ Hn) as Nn. pose proof (Qnz_of_pos _ Hc) as Nc.
  assert (HD : 0 < n * c * (K * K * K)) by (repeat (apply Qmult_lt_0_compat); assumption).
  apply (proj1 (Qmult_lt_r _ _ _ HD)).
  setoid_replace (g / K * (1 - s / K) * (n * c * (K * K * K))) with (g * (K - s) * n * c * K) by (field; assumption).
  setoid_replace ((L / K * (d / (K * K)) / (c / (K * K) * (n / (K * K))) + 1 + T / (c * n) + g / K / K + 1 / K) * (n * c * (K * K * K)))
    with (L * d * (K * K * (K * K)) + n * c * (K * K * K) + T * (K * K * K) + g * n * c * K + n * c * (K * K))
    by (field; repeat split; assumption).
  exact H.
Qed.

Lemma q_charge1 : forall K g s L d : Q, 0 < K ->
  2 * g * (K - s) * K < 2 * L * d + 2 * (K * K * K) + K + 2 * g * K + 2 * (K * K) ->
  (g / K) * (1 - s / K) < (L / K) * (d / (K * K)) + 1 + 1 / (2 * (K * K)) + (g / K) / K + 1 / K.
Proof.
  intros K g s L d HK H. pose proof (Qnz_of_pos _ HK) as NK.
  assert (HD : 0 < 2 * (K * K * K)) by (repeat (apply Qmult_lt_0_compat); try assumption; reflexivity).
  apply (proj1 (Qmult_lt_r _ _ _ HD)).
  setoid_replace (g / K * (1 - s / K) * (2 * (K * K * K))) with (2 * g * (K - s) * K) by (field; assumption).
  setoid_replace ((L / K * (d / (K * K)) + 1 + 1 / (2 * (K * K)) + g / K / K + 1 / K) * (2 * (K * K * K)))
    with (2 * L * d + 2 * (K * K * K) + K + 2 * g * K + 2 * (K * K)) by (field; assumption).
  exact H.
Qed.

Lemma q_cap1 : forall K o L d : Q, 0 < K ->
  L * d < o * K * K + L -> (L / K) * (d / (K * K)) < o / K + L / (K * (K * K)).
Proof.
  intros K o L d HK H. pose proof (Qnz_of_pos _ HK) as NK.
  assert (HD : 0 < K * K * K) by (repeat (apply Qmult_lt_0_compat); assumption).
  apply (proj1 (Qmult_lt_r _ _ _ HD)).
  setoid_replace (L / K * (d / (K * K)) * (K * K * K)) with (L * d) by (field; assumption).
  setoid_replace ((o / K + L / (K * (K * K))) * (K * K * K)) with (o * K * K + L) by (field; assumption).
  exact H.
Qed.

Lemma q_cap0 : forall K o n c L d : Q, 0 < K -> 0 < n -> 0 < c ->
  L * K * d * (K * K) < o * K * n * c + K * K * (n + K * K + L * K) ->
  (L / K) * (d / (K * K)) / ((c / (K * K)) * (n / (K * K))) < o / K + (K * K + n) / (n * c) + L * K / (c * n).
Proof.
  intros K o n c L d HK Hn Hc H.
  pose proof (Qnz_of_pos _ HK) as NK. pose proof (Qnz_of_pos _ Hn) as Nn. pose proof (Qnz_of_pos _ Hc) as Nc.
  assert (HD : 0 < n * c * (K * K)) by (repeat (apply Qmult_lt_0_compat); assumption).
  apply (proj1 (Qmult_lt_r _ _ _ HD)).
  setoid_replace (L / K * (d / (K * K)) / (c / (K * K) * (n / (K * K))) * (n * c * (K * K))) with (L * K * d * (K * K))
    by (field; repeat split; assumption).
  setoid_replace ((o / K + (K * K + n) / (n * c) + L * K / (c * n)) * (n * c * (K * K))) with (o * K * n * c + K * K * (n + K * K + L * K))
    by (field; repeat split; assumption).
  exact H.
Qed.

Lemma seg_charges_q : forall s zfo sg, Inv s -> seg_ok s zfo sg -> seg2_ok s zfo sg -> seg3o_ok s zfo sg ->
  (qz (sg_in sg + sg_fee sg) / q18) * (1 - spf_q s) <
  ideal_in_of zfo sg + 1 + tau + (qz (sg_in sg + sg_fee sg) / q18) / q18 + 1 / q18.
Proof.
  intros s zfo sg I SO S2 S3.
  destruct SO as [SL [HL [Pa [Pb [PC [Hin [Hout [Hfee _]]]]]]]].
  destruct S2 as [_ [_ [_ [_ DIR]]]]. destruct S3 as [IA [_ [GA PR]]].
  pose proof (inv_spread s I) as Hs. assert (Hs' : (0 <= p_spread (s_pool s) < P18)%Z) by (rewrite P18_val; lia).
  pose proof q18_pos as HK.
  assert (SC : step_charges zfo (p_spread (s_pool s)) (sg_liq sg) (sg_a sg) (sg_b sg) (sg_in sg + sg_fee sg)).
  { assert (Hg : (0 <= sg_in sg <= sg_in sg + sg_fee sg)%Z) by (clear - Hin Hfee; lia).
    exact (step_charges_of zfo _ _ _ _ (sg_in sg) _ HL Pb Pa Hg Hs' DIR IA GA). }
  unfold step_charges in SC. unfold ideal_in_of, seg_in, spf_q. set (g := (sg_in sg + sg_fee sg)%Z) in *.
  destruct zfo.
  - destruct (PR eq_refl) as [A B].
    apply qz_lt in SC. push_qz_in SC.
    pose proof (q_charge0 q18 (qz g) (qz (p_spread (s_pool s))) (qz (sg_b sg)) (qz (sg_a sg)) (qz (sg_liq sg))
                  (qz (sg_a sg) - qz (sg_b sg)) (q18 * q18 + qz (sg_a sg)) HK (qz_pos _ Pb) (qz_pos _ Pa) SC) as Q.
    assert (TS : tiny (sg_a sg) (sg_b sg) <= tau) by (apply tiny_small; assumption).
    unfold tiny in TS. rewrite Z.max_l in TS by lia.
    unfold seg_amount0. rewrite Z.abs_eq by lia. rewrite qz_minus, q36_sq.
    set (X := (q18 * q18 + qz (sg_a sg)) / (qz (sg_a sg) * qz (sg_b sg))) in *. lra.
  - apply qz_lt in SC. push_qz_in SC. change (qz 2) with 2 in SC.
    pose proof (q_charge1 q18 (qz g) (qz (p_spread (s_pool s))) (qz (sg_liq sg)) (qz (sg_b sg) - qz (sg_a sg)) HK SC) as Q.
    unfold seg_amount1. rewrite Z.abs_neq by lia. replace (- (sg_a sg - sg_b sg))%Z with (sg_b sg - sg_a sg)%Z by ring.
    rewrite qz_minus, q36_sq.
    assert (T : 1 / (2 * (q18 * q18)) <= tau) by (unfold tau, q18, qz; vm_compute; discriminate).
    set (X := 1 / (2 * (q18 * q18))) in *. lra.
Qed.

(* the value, in the OUTPUT token, of one unit of the 36th decimal of the sqrt price *)
Definition ulp_out (zfo : bool) (sg : seg) : Q := ulp_in (negb zfo) sg.

Lemma ulp_in_nonneg : forall s zfo z sg, seg_ok s zfo sg -> 0 <= ulp_in z sg.
Proof.
  intros s zfo z sg [_ [HL [Pa [Pb _]]]]. unfold ulp_in.
  assert (QL : 0 <= qz (sg_liq sg)) by (change 0 with (qz 0); apply qz_le; assumption).
  pose proof q18_pos as HK. pose proof (qz_pos _ Pa). pose proof (qz_pos _ Pb).
  destruct z.
  - apply Qle_shift_div_l; [apply Qmult_lt_0_compat; assumption|]. rewrite Qmult_0_l. apply Qmult_le_0_compat; [assumption|lra].
  - apply Qle_shift_div_l; [repeat apply Qmult_lt_0_compat; assumption|]. rewrite Qmult_0_l. assumption.
Qed.

Lemma seg_delivers_q : forall s zfo sg, Inv s -> seg_ok s zfo sg -> seg2_ok s zfo sg -> seg3o_ok s zfo sg ->
  ideal_out_of zfo sg < qz (sg_out sg) / q18 + 1 / q18 + 1 / (q18 * q18) + tau + ulp_out zfo sg.
Proof.
  intros s zfo sg I SO S2 S3. pose proof SO as SO'. pose proof S2 as S2'.
  pose proof (ulp_in_nonneg s zfo (negb zfo) sg SO) as UN. fold (ulp_out zfo sg) in UN.
  destruct S3 as [_ [[OA|[HLp OC]] _]].
  - pose proof (pays_q s zfo sg I SO S2 OA). lra.
  - destruct SO as [SL [HL [Pa [Pb [PC [Hin [Hout [Hfee _]]]]]]]]. destruct S2 as [_ [_ [_ [_ DIR]]]].
    pose proof q18_pos as HK. unfold ideal_out_of, seg_out, ulp_out, ulp_in in *.
    assert (T0 : 0 <= tau) by (unfold tau, qz; vm_compute; discriminate).
    assert (I18 : 0 < 1 / q18) by (apply Qlt_shift_div_l; [assumption|]; rewrite Qmult_0_l; reflexivity).
    assert (I36 : 0 < 1 / (q18 * q18)) by (apply Qlt_shift_div_l; [apply Qmult_lt_0_compat; assumption|]; rewrite Qmult_0_l; reflexivity).
    destruct zfo; cbn [negb] in *.
    + apply qz_lt in OC. push_qz_in OC.
      pose proof (q_cap1 q18 (qz (sg_out sg)) (qz (sg_liq sg)) (qz (sg_a sg) - qz (sg_b sg)) HK OC) as Q.
      unfold seg_amount1. rewrite Z.abs_eq by lia. rewrite qz_minus, q36_sq. lra.
    + destruct (seg_prices_liq s false sg I SO' S2' HLp) as [A B].
      rewrite P36_sq in OC. apply qz_lt in OC. push_qz_in OC.
      pose proof (q_cap0 q18 (qz (sg_out sg)) (qz (sg_b sg)) (qz (sg_a sg)) (qz (sg_liq sg)) (qz (sg_b sg) - qz (sg_a sg))
                    HK (qz_pos _ Pb) (qz_pos _ Pa) OC) as Q.
      assert (TS : tiny (sg_b sg) (sg_a sg) <= tau) by (apply tiny_small; assumption).
      unfold tiny in TS. rewrite Z.max_l in TS by lia.
      unfold seg_amount0. rewrite Z.abs_neq by lia. replace (- (sg_a sg - sg_b sg))%Z with (sg_b sg - sg_a sg)%Z by ring.
      rewrite qz_minus, q36_sq.
      set (X := (q18 * q18 + qz (sg_b sg)) / (qz (sg_b sg) * qz (sg_a sg))) in *. lra.
Qed.

Lemma sum_delivers : forall s zfo tr, Inv s -> Forall (seg_ok s zfo) tr -> Forall (seg2_ok s zfo) tr -> Forall (seg3o_ok s zfo) tr ->
  qsum (ideal_out_of zfo) tr <= qz (sum_out tr) / q18 + qz (Z.of_nat (length tr)) * pay_err + qsum (ulp_out zfo) tr.
Proof.
  intros s zfo tr I. induction tr as [|sg tr IH]; intros F1 F2 F3.
  - simpl. unfold Qdiv. rewrite !Qmult_0_l. lra.
  - inversion F1; subst. inversion F2; subst. inversion F3; subst. specialize (IH H2 H4 H6).
    pose proof (seg_delivers_q s zfo sg I H1 H3 H5) as P.
    change (length (sg :: tr)) with (S (length tr)). rewrite Nat2Z.inj_succ. unfold Z.succ.
    simpl qsum. simpl sum_out. rewrite (qz_plus (sg_out sg)), (qz_plus (Z.of_nat (length tr)) 1). change (qz 1) with 1.
    setoid_replace ((qz (sg_out sg) + qz (sum_out tr)) / q18) with (qz (sg_out sg) / q18 + qz (sum_out tr) / q18) by (field; apply q18_nz).
    unfold pay_err in *. lra.
Qed.

Lemma sum_charges : forall s zfo tr, Inv s -> Forall (seg_ok s zfo) tr -> Forall (seg2_ok s zfo) tr -> Forall (seg3o_ok s zfo) tr ->
  (qz (sum_gross tr) / q18) * (1 - spf_q s) <=
  qsum (ideal_in_of zfo) tr + qz (Z.of_nat (length tr)) * consume_err + (qz (sum_gross tr) / q18) / q18.
Proof.
  intros s zfo tr I. induction tr as [|sg tr IH]; intros F1 F2 F3.
  - simpl. unfold Qdiv. rewrite !Qmult_0_l. lra.
  - inversion F1; subst. inversion F2; subst. inversion F3; subst. specialize (IH H2 H4 H6).
    pose proof (seg_charges_q s zfo sg I H1 H3 H5) as P.
    change (length (sg :: tr)) with (S (length tr)). rewrite Nat2Z.inj_succ. unfold Z.succ.
    simpl qsum. simpl sum_gross. rewrite (qz_plus (sg_in sg + sg_fee sg)), (qz_plus (Z.of_nat (length tr)) 1). change (qz 1) with 1.
    setoid_replace ((qz (sg_in sg + sg_fee sg) + qz (sum_gross tr)) / q18) with (qz (sg_in sg + sg_fee sg) / q18 + qz (sum_gross tr) / q18)
      by (field; apply q18_nz).
    set (g1 := qz (sg_in sg + sg_fee sg) / q18) in *. set (g2 := qz (sum_gross tr) / q18) in *.
    setoid_replace ((g1 + g2) / q18) with (g1 / q18 + g2 / q18) by (field; apply q18_nz).
    unfold consume_err in *. set (f := spf_q s) in *. set (y1 := g1 / q18) in *. set (y2 := g2 / q18) in *.
    set (i1 := 1 / q18) in *. lra.
Qed.

Open Scope Z_scope.
Lemma swap_out_full3 : forall s zfo accum amt r, Inv s -> 0 <= amt ->
  compute_in_amt_given_out s zfo accum amt = Some r ->
  exists tr, chain (p_sqrt (s_pool s)) tr (sr_sqrt r) /\ Forall (seg_ok s zfo) tr /\ Forall (seg2_ok s zfo) tr /\ Forall (seg3o_ok s zfo) tr /\
    sum_out tr < sr_out r * P18 + P18 /\ sr_in r * P18 < sum_gross tr + P18 /\ sum_gross tr <= sr_in r * P18 /\ 0 <= sum_gross tr /\
    (length tr <= swap_fuel (s_ticks s))%nat.
Proof.
  intros s zfo accum amt r I Ha H. unfold compute_in_amt_given_out in H.
  destruct (swap_setup s zfo) as [[limit iter]|] eqn:ES; [|discriminate].
  destruct (loop_in_given_out _ _ _ _ _ _ _ _ _) as [st|] eqn:EL; [|discriminate].
  destruct (ss_remaining st <? 0) eqn:En; [discriminate|]. apply Z.ltb_ge in En. inversion H; subst r; clear H. simpl.
  destruct (swap_setup_LI s zfo limit iter (d_from_int amt) I ES) as [HL [Hne L0]].
  destruct (loop_in_trace_fst _ _ _ _ _ _ _ _ _ _ EL) as [tr ET].
  destruct (loop_in_path _ _ _ _ _ _ _ _ _ _ _ I HL L0 ET) as [_ [C [F [R1 [R2 _]]]]].
  destruct (loop_in_path2 _ _ _ _ _ _ _ _ _ _ _ I HL L0 ET) as [F2 _].
  pose proof P18_pos as HP.
  assert (R0 : 0 <= ss_remaining (mkSS (d_from_int amt) 0 (p_sqrt (s_pool s)) (p_tick (s_pool s)) (p_liq (s_pool s)) 0 0)).
  { simpl. unfold d_from_int. apply Z.mul_nonneg_nonneg; lia. }
  pose proof (loop_in_path3 _ _ _ _ _ _ _ _ _ _ _ I HL L0 R0 ET) as F3.
  simpl in C, R1, R2. exists tr. splits; try assumption.
  - pose proof (sum_out_nonneg _ _ _ F). unfold d_from_int in *.
    replace (amt * P18 - ss_remaining st) with (sum_out tr) by lia. apply d_trunc_ub; assumption.
  - pose proof (sum_gross_nonneg _ _ _ F). rewrite R2, ?Z.add_0_l. apply d_ceil_trunc_ub; assumption.
  - pose proof (sum_gross_nonneg _ _ _ F). rewrite R2, ?Z.add_0_l. apply d_ceil_trunc_ge; assumption.
  - apply (sum_gross_nonneg _ _ _ F).
  - exact (loop_in_trace_len _ _ _ _ _ _ _ _ _ _ _ ET).
Qed.
Open Scope Q_scope.

(* what was charged, less the spread factor and the rounding allowance; what was delivered plus the allowance *)
Definition charged_for (s : state) (tin : Z) (tr : list seg) : Q :=
  (qz tin - 1) * (1 - spf_q s) - qz tin / q18 - qz (Z.of_nat (length tr)) * consume_err.
Definition delivers_at_most (zfo : bool) (tout : Z) (tr : list seg) : Q :=
  qz tout + 1 + qz (Z.of_nat (length tr)) * pay_err + qsum (ulp_out zfo) tr.

Theorem exact_out_upper : forall s zfo accum amt r, Inv s -> (0 <= amt)%Z ->
  compute_in_amt_given_out s zfo accum amt = Some r ->
  exists tr, chain (p_sqrt (s_pool s)) tr (sr_sqrt r) /\ Forall (seg_ok s zfo) tr /\ (length tr <= swap_fuel (s_ticks s))%nat /\
    Eout zfo s (p_sqrt (s_pool s)) - Eout zfo s (sr_sqrt r) < delivers_at_most zfo (sr_out r) tr /\
    charged_for s (sr_in r) tr < Ein zfo s (sr_sqrt r) - Ein zfo s (p_sqrt (s_pool s)).
Proof.
  intros s zfo accum amt r I Ha H.
  destruct (swap_out_full3 _ _ _ _ _ I Ha H) as [tr [C [F1 [F2 [F3 [So [Gi1 [Gi2 [G0 Len]]]]]]]]].
  exists tr. split; [assumption|]. split; [assumption|]. split; [assumption|].
  destruct (chain_potential s zfo tr _ _ I C F1 F2) as [PI PO].
  pose proof (sum_delivers s zfo tr I F1 F2 F3) as SP. pose proof (sum_charges s zfo tr I F1 F2 F3) as SC.
  pose proof q18_pos as HK.
  assert (TO : qz (sum_out tr) / q18 < qz (sr_out r) + 1).
  { apply Qlt_shift_div_r; [assumption|]. change 1 with (qz 1). rewrite <- qz_plus, <- q18_P18, <- qz_mult. apply qz_lt. lia. }
  assert (TI1 : qz (sr_in r) - 1 < qz (sum_gross tr) / q18).
  { apply Qlt_shift_div_l; [assumption|]. change 1 with (qz 1). rewrite <- qz_minus, <- q18_P18, <- qz_mult. apply qz_lt. lia. }
  assert (TI2 : qz (sum_gross tr) / q18 <= qz (sr_in r)) by (apply div18_qz; assumption).
  assert (F : 0 < 1 - spf_q s).
  { unfold spf_q. pose proof (inv_spread s I) as [A B].
    assert (qz (p_spread (s_pool s)) / q18 < 1); [|lra].
    apply Qlt_shift_div_r; [assumption|]. rewrite Qmult_1_l, <- q18_P18. apply qz_lt. rewrite P18_val. lia. }
  assert (M1 : (qz (sr_in r) - 1) * (1 - spf_q s) < qz (sum_gross tr) / q18 * (1 - spf_q s)) by (apply Qmult_lt_compat_r; assumption).
  assert (M2 : qz (sum_gross tr) / q18 / q18 <= qz (sr_in r) / q18) by (apply Qdiv_le_mono; assumption).
  unfold charged_for, delivers_at_most. split.
  - rewrite PO. set (k := qz (Z.of_nat (length tr))) in *. set (kc := k * pay_err) in *. lra.
  - rewrite PI. set (k := qz (Z.of_nat (length tr))) in *. set (ce := consume_err) in *. set (f := spf_q s) in *.
    set (x1 := (qz (sr_in r) - 1) * (1 - f)) in *. set (x2 := qz (sum_gross tr) / q18 * (1 - f)) in *.
    set (y1 := qz (sum_gross tr) / q18 / q18) in *. set (y2 := qz (sr_in r) / q18) in *. set (kc := k * ce) in *. lra.
Qed.

(* every price that yields at least what the swap delivered (plus the allowance) on the exact curve costs more than what the swap
   charged (less the allowance) *)
Theorem exact_out_sandwich_upper : forall s zfo accum amt r, Inv s -> (0 <= amt)%Z ->
  compute_in_amt_given_out s zfo accum amt = Some r ->
  exists tr, chain (p_sqrt (s_pool s)) tr (sr_sqrt r) /\ Forall (seg_ok s zfo) tr /\ (length tr <= swap_fuel (s_ticks s))%nat /\
    forall c', delivers_at_most zfo (sr_out r) tr <= Eout zfo s (p_sqrt (s_pool s)) - Eout zfo s c' ->
               charged_for s (sr_in r) tr < Ein zfo s c' - Ein zfo s (p_sqrt (s_pool s)).
Proof.
  intros s zfo accum amt r I Ha H.
  destruct (exact_out_upper _ _ _ _ _ I Ha H) as [tr [C [F1 [Len [A B]]]]].
  exists tr. split; [assumption|]. split; [assumption|]. split; [assumption|].
  intros c' Hc. set (c0 := p_sqrt (s_pool s)) in *. set (c1 := sr_sqrt r) in *.
  pose proof (inv_pos_ok s I) as POK. unfold Ein, Eout in *. set (l := s_pos s) in *.
  destruct zfo.
  - destruct (Z_le_gt_dec c1 c') as [Hle|Hgt].
    + destruct (potentials_move _ _ l c1 c' POK Hle) as [_ [D1 _]]. cbv zeta in D1. lra.
    + destruct (potentials_move _ _ l c' c1 POK ltac:(lia)) as [D0 _]. cbv zeta in D0. lra.
  - destruct (Z_le_gt_dec c' c1) as [Hle|Hgt].
    + destruct (potentials_move _ _ l c' c1 POK Hle) as [D0 _]. cbv zeta in D0. lra.
    + destruct (potentials_move _ _ l c1 c' POK ltac:(lia)) as [_ [D1 _]]. cbv zeta in D1. lra.
Qed.
