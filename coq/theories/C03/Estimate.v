(* C03: whenever a swap executes, its result equals the estimate computed on the same state.
   (The converse is false of correct code and is not claimed: the estimate returns 0 where the execution rejects a zero output.) *)
From Coq Require Import ZArith List Bool Lia.
Import ListNotations.
From Osmo Require Import Base.DecModel CL.TickMath CL.CLMath CL.CLPool CL.CLSwap CL.CLStep C07.Base.
Open Scope Z_scope.

(* the part of the swap state the result depends on: everything but the spread-reward bookkeeping *)
Definition core (st : swap_state) : Z * Z * Z * Z * Z :=
  (ss_remaining st, ss_calculated st, ss_sqrt st, ss_tick st, ss_liq st).

Lemma update_fee_growth_core : forall sc st fee st', update_fee_growth sc st fee = Some st' -> core st' = core st.
Proof.
  unfold update_fee_growth, core. intros sc st fee st' H. oinv H.
  destruct (ss_liq st =? 0); [inversion H; subst; reflexivity|]. oinv H. subst. reflexivity.
Qed.

Lemma after_step_core : forall zfo sc st st0 iter nt info nts computed dspec dcalc fee st' iter',
  core st0 = core st ->
  after_step zfo true sc st iter nt info nts computed dspec dcalc fee = Some (st', iter') ->
  exists st0', after_step zfo false sc st0 iter nt info nts computed dspec dcalc fee = Some (st0', iter') /\ core st0' = core st'.
Proof.
  intros zfo sc st st0 iter nt info nts computed dspec dcalc fee st' iter' HC H.
  unfold after_step in *.
  destruct (update_fee_growth sc st fee) as [st1|] eqn:E1; [|discriminate].
  pose proof (update_fee_growth_core _ _ _ _ E1) as C1.
  unfold core in *. inversion HC as [[A1 A2 A3 A4 A5]]. inversion C1 as [[B1 B2 B3 B4 B5]].
  rewrite A1, A2, A3, A4, A5. rewrite B1, B2 in H.
  destruct (dchk (ss_remaining st - dspec)) as [rem|]; [|discriminate].
  destruct (dchk (ss_calculated st + dcalc)) as [calc|]; [|discriminate].
  destruct (nts =? computed).
  - unfold cross_tick in *. cbn [ss_liq ss_tick ss_sqrt ss_remaining ss_calculated ss_growth ss_fee] in *.
    rewrite B5 in H. destruct (dchk (ss_liq st + _)) as [l|]; [|discriminate]. inversion H; subst.
    eexists. split; [reflexivity|]. simpl. rewrite ?B4, ?B5. reflexivity.
  - destruct (edge_case zfo nts computed); [discriminate|].
    destruct (negb (ss_sqrt st =? computed)).
    + destruct (calculate_sqrt_price_to_tick computed) as [t|]; [|discriminate]. inversion H; subst.
      eexists. split; [reflexivity|]. simpl. rewrite ?B4, ?B5. reflexivity.
    + inversion H; subst. eexists. split; [reflexivity|]. simpl. rewrite ?B4, ?B5. reflexivity.
Qed.

Lemma loop_out_core : forall fuel zfo spf sc limit st st0 iter noprog st',
  core st0 = core st ->
  loop_out_given_in fuel zfo true spf sc limit st iter noprog = Some st' ->
  exists st0', loop_out_given_in fuel zfo false spf sc limit st0 iter noprog = Some st0' /\ core st0' = core st'.
Proof.
  induction fuel as [|f IH]; intros zfo spf sc limit st st0 iter noprog st' HC H; simpl in *; [discriminate|].
  pose proof HC as HC'. unfold core in HC'. inversion HC' as [[A1 A2 A3 A4 A5]]. rewrite A1, A3, A5.
  destruct ((smallest_dec <? ss_remaining st) && negb (ss_sqrt st =? limit)); [|inversion H; subst; eexists; split; [reflexivity|assumption]].
  destruct iter as [|[nt info] rest]; [discriminate|].
  destruct (tick_to_sqrt_price nt) as [nts|]; [|discriminate].
  destruct (compute_out_given_in _ _ _ _ _ _) as [[[[computed ain] aout] fee]|]; [|discriminate].
  destruct (negb (progress_ok computed (ss_sqrt st) ain aout)); [discriminate|].
  destruct (dchk (ain + fee)) as [infee|]; [|discriminate].
  destruct (after_step zfo true sc st _ nt info nts computed infee aout fee) as [[st1 it1]|] eqn:EA; [|discriminate].
  destruct (after_step_core _ _ _ _ _ _ _ _ _ _ _ _ _ _ HC EA) as [st1' [EA' C1]]. rewrite EA'.
  destruct (ain =? 0).
  - destruct (swap_no_progress_limit <=? noprog); [discriminate|]. eapply IH; eassumption.
  - eapply IH; eassumption.
Qed.

Lemma loop_in_core : forall fuel zfo spf sc limit st st0 iter noprog st',
  core st0 = core st ->
  loop_in_given_out fuel zfo true spf sc limit st iter noprog = Some st' ->
  exists st0', loop_in_given_out fuel zfo false spf sc limit st0 iter noprog = Some st0' /\ core st0' = core st'.
Proof.
  induction fuel as [|f IH]; intros zfo spf sc limit st st0 iter noprog st' HC H; simpl in *; [discriminate|].
  pose proof HC as HC'. unfold core in HC'. inversion HC' as [[A1 A2 A3 A4 A5]]. rewrite A1, A3, A5.
  destruct ((smallest_dec <? ss_remaining st) && negb (ss_sqrt st =? limit)); [|inversion H; subst; eexists; split; [reflexivity|assumption]].
  destruct iter as [|[nt info] rest]; [discriminate|].
  destruct (tick_to_sqrt_price nt) as [nts|]; [|discriminate].
  destruct (compute_in_given_out _ _ _ _ _ _) as [[[[computed aout] ain] fee]|]; [|discriminate].
  destruct (negb (progress_ok computed (ss_sqrt st) ain aout)); [discriminate|].
  destruct (dchk (ain + fee)) as [infee|]; [|discriminate].
  destruct (after_step zfo true sc st _ nt info nts computed aout infee fee) as [[st1 it1]|] eqn:EA; [|discriminate].
  destruct (after_step_core _ _ _ _ _ _ _ _ _ _ _ _ _ _ HC EA) as [st1' [EA' C1]]. rewrite EA'.
  destruct (aout =? 0).
  - destruct (swap_no_progress_limit <=? noprog); [discriminate|]. eapply IH; eassumption.
  - eapply IH; eassumption.
Qed.

(* the computation with and without accumulator updates gives the same amounts and the same new pool summary *)
Lemma compute_out_accum_irrelevant : forall s zfo amt r, compute_out_amt_given_in s zfo true amt = Some r ->
  exists r', compute_out_amt_given_in s zfo false amt = Some r' /\
    sr_in r' = sr_in r /\ sr_out r' = sr_out r /\ sr_tick r' = sr_tick r /\ sr_liq r' = sr_liq r /\ sr_sqrt r' = sr_sqrt r.
Proof.
  unfold compute_out_amt_given_in. intros s zfo amt r H.
  destruct (swap_setup s zfo) as [[limit iter]|]; [|discriminate].
  destruct (loop_out_given_in _ zfo true _ _ _ _ _ _) as [st|] eqn:EL; [|discriminate].
  destruct (loop_out_core _ _ _ _ _ _ _ _ _ _ eq_refl EL) as [st' [EL' C]]. rewrite EL'.
  unfold core in C. inversion C as [[A1 A2 A3 A4 A5]]. rewrite A1, A2.
  destruct (ss_remaining st <? 0); [discriminate|]. inversion H; subst. eexists. split; [reflexivity|]. simpl.
  rewrite A3, A4, A5. splits; reflexivity.
Qed.

Lemma compute_in_accum_irrelevant : forall s zfo amt r, compute_in_amt_given_out s zfo true amt = Some r ->
  exists r', compute_in_amt_given_out s zfo false amt = Some r' /\
    sr_in r' = sr_in r /\ sr_out r' = sr_out r /\ sr_tick r' = sr_tick r /\ sr_liq r' = sr_liq r /\ sr_sqrt r' = sr_sqrt r.
Proof.
  unfold compute_in_amt_given_out. intros s zfo amt r H.
  destruct (swap_setup s zfo) as [[limit iter]|]; [|discriminate].
  destruct (loop_in_given_out _ zfo true _ _ _ _ _ _) as [st|] eqn:EL; [|discriminate].
  destruct (loop_in_core _ _ _ _ _ _ _ _ _ _ eq_refl EL) as [st' [EL' C]]. rewrite EL'.
  unfold core in C. inversion C as [[A1 A2 A3 A4 A5]]. rewrite A1, A2.
  destruct (ss_remaining st <? 0); [discriminate|]. inversion H; subst. eexists. split; [reflexivity|]. simpl.
  rewrite A3, A4, A5. splits; reflexivity.
Qed.

Theorem estimate_eq_execute_in : forall s sender zfo amt min_out s' out,
  swap_exact_in s sender zfo amt min_out = Some (s', out) -> calc_out_given_in s zfo amt = Some out.
Proof.
  unfold swap_exact_in, calc_out_given_in. intros s sender zfo amt min_out s' out H.
  destruct (negb (0 <? amt) || negb (0 <? min_out)); [discriminate|].
  destruct (compute_out_amt_given_in s zfo true amt) as [r|] eqn:EC; [|discriminate].
  destruct (negb (0 <? sr_out r)); [discriminate|].
  destruct (update_pool_for_swap s sender zfo r); [|discriminate].
  destruct (sr_out r <? min_out); [discriminate|]. inversion H; subst.
  destruct (compute_out_accum_irrelevant _ _ _ _ EC) as [r' [E' [_ [A _]]]]. rewrite E'. rewrite A. reflexivity.
Qed.

Theorem estimate_eq_execute_out : forall s sender zfo amt max_in s' tin,
  swap_exact_out s sender zfo amt max_in = Some (s', tin) -> calc_in_given_out s zfo amt = Some tin.
Proof.
  unfold swap_exact_out, calc_in_given_out. intros s sender zfo amt max_in s' tin H.
  destruct (negb (0 <? amt) || negb (0 <? max_in)); [discriminate|].
  destruct (compute_in_amt_given_out s zfo true amt) as [r|] eqn:EC; [|discriminate].
  destruct (negb (0 <? sr_in r)); [discriminate|].
  destruct (update_pool_for_swap s sender zfo r); [|discriminate].
  destruct (max_in <? sr_in r); [discriminate|]. inversion H; subst.
  destruct (compute_in_accum_irrelevant _ _ _ _ EC) as [r' [E' [A _]]]. rewrite E'. rewrite A. reflexivity.
Qed.

(* the converse fails: a state and an amount whose estimate is Some 0 while the execution is rejected *)
