(* C03: what the rounding calls inside CalcAmount0Delta / CalcAmount1Delta / the spread-reward charge guarantee,
   in cross-multiplied integer form.  liq : raw Dec (x 10^18, >= 0); sqrt prices raw BigDec (x 10^36, > 0);
   amounts raw BigDec (x 10^36) unless stated otherwise. *)
From Coq Require Import ZArith List Bool Lia.
Import ListNotations.
From Osmo Require Import Base.DecModel CL.TickMath CL.CLMath CL.CLPool CL.CLSwap C07.Base C07.TickLemmas C07.SwapDir.
Open Scope Z_scope.
Set Default Timeout 120.

Lemma ceil_div_spec : forall a b, 0 <= a -> 0 < b ->
  let r := inc_rem_div (Z.rem a b) b (Z.quot a b) in a <= r * b < a + b /\ 0 <= r.
Proof.
  intros a b Ha Hb. cbv zeta. unfold inc_rem_div.
  destruct (quot_rem_pos a b Ha Hb) as [A [B C]].
  set (Q := Z.quot a b) in *. set (R := Z.rem a b) in *.
  destruct ((R =? 0) || negb (Z.sgn R =? Z.sgn b)) eqn:E.
  - destruct (Z.eq_dec R 0) as [Rz|Rz]; [nia|]. exfalso.
    apply orb_true_iff in E. destruct E as [E|E]; [apply Z.eqb_eq in E; lia|].
    apply negb_true_iff in E. apply Z.eqb_neq in E.
    assert (Z.sgn R = 1) by (apply Z.sgn_pos; lia). assert (Z.sgn b = 1) by (apply Z.sgn_pos; lia). lia.
  - apply orb_false_iff in E. destruct E as [E _]. apply Z.eqb_neq in E. nia.
Qed.

Lemma trunc_div_spec : forall a b, 0 <= a -> 0 < b -> Z.quot a b * b <= a < Z.quot a b * b + b /\ 0 <= Z.quot a b.
Proof. intros a b Ha Hb. destruct (quot_rem_pos a b Ha Hb) as [A [B C]]. nia. Qed.

(* banker's rounding of a non-negative d by p: within half a unit *)
Lemma chop_round_nonneg_spec : forall p d, 0 < p -> Z.rem p 2 = 0 -> 0 <= d ->
  2 * d - p <= 2 * chop_round p d * p <= 2 * d + p /\ 0 <= chop_round p d.
Proof.
  intros p d Hp Hev Hd. unfold chop_round. destruct (d <? 0) eqn:E; [apply Z.ltb_lt in E; lia|]. clear E.
  unfold chop_round_nonneg. destruct (quot_rem_pos d p Hd Hp) as [A [B C]].
  pose proof (Z.quot_rem' p 2) as HP. rewrite Hev in HP.
  remember (Z.quot d p) as Q. remember (Z.rem d p) as R. remember (Z.quot p 2) as h.
  clear HeqQ HeqR Heqh. subst d. clear Hd.
  destruct (R =? 0) eqn:E0.
  { apply Z.eqb_eq in E0. subst R. split; [split|]; nia. }
  apply Z.eqb_neq in E0.
  destruct (Z.compare_spec R h) as [EC|EC|EC].
  - subst R. destruct (Z.even Q); (split; [split|]; nia).
  - split; [split|]; nia.
  - split; [split|]; nia.
Qed.

Definition P54 : Z := 10 ^ 54.
Lemma P54_val : P54 = 1000000000000000000000000000000000000000000000000000000. Proof. reflexivity. Qed.

(* CalcAmount0Delta, rounding up: at least the exact amount, a whole number of tokens *)
Lemma amount0_up_spec : forall liq a b x, 0 <= liq -> 0 < a -> 0 < b ->
  calc_amount0_delta liq a b true = Some x ->
  liq * Z.abs (b - a) * P54 <= x * a * b /\ 0 <= x /\ Z.rem x P36 = 0.
Proof.
  intros liq a b x Hl Ha Hb H. unfold calc_amount0_delta in H.
  assert (G : forall sa sb, 0 < sa -> sa <= sb ->
    (do _ <- nz sa; do _ <- nz sb;
     do x0 <- bd_chk (bd_mul_round_up_dec (sb - sa) liq); do y <- bd_chk (bd_quo_round_up_mut x0 sb);
     bd_chk (bd_quo_round_up_next_int_mut y sa)) = Some x ->
    liq * (sb - sa) * P54 <= x * sa * sb /\ 0 <= x /\ Z.rem x P36 = 0).
  { clear - Hl. intros sa sb Hsa Hab H. oinv H.
    repeat match goal with E : bd_chk _ = Some _ |- _ => apply bd_chk_some in E end. subst.
    unfold bd_mul_round_up_dec, bd_quo_round_up_mut, bd_quo_round_up, bd_quo_round_up_next_int_mut.
    rewrite P54_val, P36_val, P18_val.
    set (P18' := 1000000000000000000). set (P36' := 1000000000000000000000000000000000000).
    assert (Hd : 0 <= (sb - sa) * liq) by nia.
    destruct (chop_round_up_nonneg_spec P18' ((sb - sa) * liq) ltac:(unfold P18'; lia) Hd) as [X1 X2].
    set (x0 := chop_round_up P18' ((sb - sa) * liq)) in *.
    assert (Hx0 : 0 <= x0) by (unfold P18' in *; nia).
    destruct (ceil_div_spec (x0 * P36') sb ltac:(unfold P36'; nia) ltac:(lia)) as [[Y1 Y2] Y3].
    set (y := inc_rem_div (Z.rem (x0 * P36') sb) sb (Z.quot (x0 * P36') sb)) in *.
    destruct (ceil_div_spec y sa Y3 Hsa) as [[Z1 Z2] Z3].
    set (z := inc_rem_div (Z.rem y sa) sa (Z.quot y sa)) in *.
    split; [|split; [unfold P36'; nia|apply Z.rem_mul; unfold P36'; lia]].
    (* liq*(sb-sa)*1e54 <= x0*1e18*1e54/1e18... chain *)
    assert (S1 : liq * (sb - sa) * P36' <= x0 * P18' * P36') by (unfold P18', P36' in *; nia).
    assert (S2 : x0 * P36' * sa <= y * sb * sa) by (apply Z.mul_le_mono_nonneg_r; lia).
    assert (S3 : y * sb <= z * sa * sb) by (apply Z.mul_le_mono_nonneg_r; lia).
    unfold P18', P36' in *. nia. }
  destruct (b <? a) eqn:E.
  - apply Z.ltb_lt in E. rewrite Z.abs_neq by lia. replace (- (b - a)) with (a - b) by lia.
    destruct (G b a Hb ltac:(lia) H) as [X [Y Zr]]. split; [nia|split; assumption].
  - apply Z.ltb_ge in E. rewrite Z.abs_eq by lia.
    destruct (G a b Ha E H) as [X [Y Zr]]. split; [nia|split; assumption].
Qed.

(* CalcAmount0Delta, truncating: at most the exact amount *)
Lemma amount0_down_spec : forall liq a b x, 0 <= liq -> 0 < a -> 0 < b ->
  calc_amount0_delta liq a b false = Some x ->
  x * a * b <= liq * Z.abs (b - a) * P54 /\ 0 <= x.
Proof.
  intros liq a b x Hl Ha Hb H. unfold calc_amount0_delta in H.
  assert (G : forall sa sb, 0 < sa -> sa <= sb ->
    (do _ <- nz sa; do _ <- nz sb;
     do x0 <- bd_chk (bd_mul_truncate_dec (sb - sa) liq); do y <- bd_chk (bd_quo_truncate x0 sb);
     bd_chk (bd_quo_truncate y sa)) = Some x ->
    x * sa * sb <= liq * (sb - sa) * P54 /\ 0 <= x).
  { clear - Hl. intros sa sb Hsa Hab H. oinv H.
    repeat match goal with E : bd_chk _ = Some _ |- _ => apply bd_chk_some in E end. subst.
    unfold bd_mul_truncate_dec, bd_quo_truncate, chop_trunc.
    rewrite P54_val, P36_val, P18_val.
    set (P18' := 1000000000000000000). set (P36' := 1000000000000000000000000000000000000).
    assert (Hd : 0 <= (sb - sa) * liq) by nia.
    destruct (trunc_div_spec ((sb - sa) * liq) P18' Hd ltac:(unfold P18'; lia)) as [[X1 X2] X3].
    set (x0 := Z.quot ((sb - sa) * liq) P18') in *.
    destruct (trunc_div_spec (x0 * P36') sb ltac:(unfold P36'; nia) ltac:(lia)) as [[Y1 Y2] Y3].
    set (y := Z.quot (x0 * P36') sb) in *.
    destruct (trunc_div_spec (y * P36') sa ltac:(unfold P36'; nia) Hsa) as [[Z1 Z2] Z3].
    set (z := Z.quot (y * P36') sa) in *.
    split; [|assumption].
    assert (S1 : z * sa * sb <= y * P36' * sb) by (apply Z.mul_le_mono_nonneg_r; lia).
    assert (S2 : y * sb * P36' <= x0 * P36' * P36') by (apply Z.mul_le_mono_nonneg_r; unfold P36'; lia).
    unfold P18', P36' in *. nia. }
  destruct (b <? a) eqn:E.
  - apply Z.ltb_lt in E. rewrite Z.abs_neq by lia. replace (- (b - a)) with (a - b) by lia.
    destruct (G b a Hb ltac:(lia) H) as [X Y]. split; [nia|assumption].
  - apply Z.ltb_ge in E. rewrite Z.abs_eq by lia.
    destruct (G a b Ha E H) as [X Y]. split; [nia|assumption].
Qed.

(* CalcAmount1Delta, "rounding up": MulDecMut is banker's rounding, then Ceil to a whole token - the result can be below the
   exact amount by less than half a unit of the 36th decimal *)
Lemma amount1_up_spec : forall liq a b x, 0 <= liq ->
  calc_amount1_delta liq a b true = Some x ->
  2 * liq * Z.abs (b - a) - P18 <= 2 * x * P18 /\ 0 <= x /\ Z.rem x P36 = 0.
Proof.
  intros liq a b x Hl H. unfold calc_amount1_delta in H. oinv H. subst.
  apply bd_chk_some in E. subst. unfold bd_mul_dec, bd_ceil. rewrite P36_val, P18_val.
  set (P18' := 1000000000000000000). set (P36' := 1000000000000000000000000000000000000).
  set (d := Z.abs (b - a)) in *. assert (Hd : 0 <= d * liq) by (unfold d; nia).
  destruct (chop_round_nonneg_spec P18' (d * liq) ltac:(unfold P18'; lia) ltac:(reflexivity) Hd) as [[X1 X2] X3].
  set (r := chop_round P18' (d * liq)) in *.
  destruct (quot_rem_pos r P36' X3 ltac:(unfold P36'; lia)) as [A [B C]].
  destruct (Z.rem r P36' <=? 0) eqn:E0.
  - apply Z.leb_le in E0. assert (Hq : Z.quot r P36' * P36' = r) by lia. rewrite Hq.
    split; [unfold P18' in *; lia|]. split; [lia|]. rewrite <- Hq. apply Z.rem_mul. unfold P36'; lia.
  - apply Z.leb_gt in E0. assert (Hq : r <= (Z.quot r P36' + 1) * P36') by lia.
    set (big := (Z.quot r P36' + 1) * P36') in *.
    split; [unfold P18' in *; lia|]. split; [lia|]. unfold big. apply Z.rem_mul. unfold P36'; lia.
Qed.

Lemma amount1_down_spec : forall liq a b x, 0 <= liq ->
  calc_amount1_delta liq a b false = Some x -> x * P18 <= liq * Z.abs (b - a) /\ 0 <= x.
Proof.
  intros liq a b x Hl H. unfold calc_amount1_delta in H. apply bd_chk_some in H. subst.
  unfold bd_mul_truncate_dec, chop_trunc. rewrite P18_val.
  set (d := Z.abs (b - a)) in *. assert (Hd : 0 <= d * liq) by (unfold d; nia).
  destruct (trunc_div_spec (d * liq) 1000000000000000000 Hd ltac:(lia)) as [[X1 X2] X3]. nia.
Qed.

(* the statement without the half-unit slack is false of the code as written: a liquidity of 0.4 and a sqrt-price move of
   2.5 + 10^-36 need 1 + 0.4 * 10^-36 tokens; CalcAmount1Delta(roundUp = true) returns exactly 1 *)
Lemma amount1_up_exact_refuted : exists liq a b x, 0 <= liq /\
  calc_amount1_delta liq a b true = Some x /\ x * P18 < liq * Z.abs (b - a).
Proof.
  exists 400000000000000000, P36, (P36 + 2500000000000000000000000000000000001), P36.
  split; [lia|]. split; [vm_compute; reflexivity|vm_compute; reflexivity].
Qed.

(* conversions to Dec *)
Lemma to_dec_round_up_spec : forall x, 0 <= x -> x <= bd_to_dec_round_up x * P18 < x + P18 /\ 0 <= bd_to_dec_round_up x.
Proof. intros x Hx. unfold bd_to_dec_round_up. rewrite P18_val. apply (ceil_div_spec x 1000000000000000000 Hx). lia. Qed.
Lemma to_dec_spec : forall x, 0 <= x -> bd_to_dec x * P18 <= x /\ 0 <= bd_to_dec x.
Proof. intros x Hx. unfold bd_to_dec. rewrite P18_val. destruct (trunc_div_spec x 1000000000000000000 Hx ltac:(lia)) as [[A B] C]. lia. Qed.

(* the spread-reward charge on an amount in: at least amount * f / (1 - f) *)
Lemma dchk_some : forall z r, dchk z = Some r -> r = z.
Proof. intros z r H. unfold dchk in H. destruct (d_fits z); inversion H; reflexivity. Qed.

Lemma ceil_quot_spec : forall m b, 0 <= m -> 0 < b ->
  let q := Z.quot m b in let r := Z.rem m b in
  m <= (if 0 <? r then q + 1 else q) * b /\ 0 <= (if 0 <? r then q + 1 else q).
Proof.
  intros m b Hm Hb. cbv zeta. destruct (quot_rem_pos m b Hm Hb) as [A [B C]].
  destruct (0 <? Z.rem m b) eqn:E; [apply Z.ltb_lt in E|apply Z.ltb_ge in E]; split; nia.
Qed.

Lemma fee_from_amount_in_spec : forall ain spf fee, 0 <= ain -> 0 <= spf < P18 ->
  fee_from_amount_in ain spf = Some fee -> ain * spf <= fee * (P18 - spf) /\ 0 <= fee.
Proof.
  intros ain spf fee Ha Hs H. unfold fee_from_amount_in, spf_over_one_minus_spf, one_minus_spf in H. oinv H. oinv E.
  apply dchk_some in E, H. subst z fee.
  unfold d_mul_round_up, d_chop_round_up, d_quo_round_up.
  assert (HP : 0 < P18) by (rewrite P18_val; lia).
  set (P := P18) in *. clearbody P.
  (* k = ceil(spf * P / (P - spf)) *)
  assert (Hm : 0 <= spf * P) by (apply Z.mul_nonneg_nonneg; lia).
  destruct (ceil_quot_spec (spf * P) (P - spf) Hm ltac:(lia)) as [K1 K2]. cbv zeta in K1, K2.
  pose proof (Z.quot_pos (spf * P) (P - spf) Hm ltac:(lia)) as Qp.
  pose proof (Z.rem_nonneg (spf * P) (P - spf) ltac:(lia) Hm) as Rp.
  assert (Eq : (Z.quot (spf * P) (P - spf) <? 0) = false) by (apply Z.ltb_ge; lia).
  assert (Eb : (P - spf <? 0) = false) by (apply Z.ltb_ge; lia).
  assert (Er : (Z.rem (spf * P) (P - spf) <? 0) = false) by (apply Z.ltb_ge; lia).
  rewrite Eq, Eb, Er. simpl. rewrite ?andb_true_r, ?andb_false_l, ?orb_false_r.
  set (k := if 0 <? Z.rem (spf * P) (P - spf) then Z.quot (spf * P) (P - spf) + 1 else Z.quot (spf * P) (P - spf)) in *. clearbody k.
  (* fee = ceil(ain * k / P) *)
  assert (Hak : 0 <= ain * k) by (apply Z.mul_nonneg_nonneg; lia).
  destruct (ain * k <? 0) eqn:En; [apply Z.ltb_lt in En; lia|].
  destruct (quot_rem_pos (ain * k) P Hak HP) as [A [B C]].
  set (Q := Z.quot (ain * k) P) in *. set (R := Z.rem (ain * k) P) in *. clearbody Q R.
  set (f := if R =? 0 then Q else Q + 1).
  assert (F : ain * k <= f * P /\ 0 <= f).
  { unfold f. destruct (R =? 0) eqn:ER; [apply Z.eqb_eq in ER|apply Z.eqb_neq in ER]; split; nia. }
  destruct F as [F1 F2]. clearbody f. split; [|assumption].
  assert (S1 : ain * (spf * P) <= ain * (k * (P - spf))) by (apply Z.mul_le_mono_nonneg_l; lia).
  assert (S2 : (ain * k) * (P - spf) <= (f * P) * (P - spf)) by (apply Z.mul_le_mono_nonneg_r; lia).
  assert (S3 : (ain * spf) * P <= (f * (P - spf)) * P) by lia.
  apply (Z.mul_le_mono_pos_r _ _ P HP). exact S3.
Qed.
