(* C20 proofs about the model in Model.v: authorisation is necessary for every message, by case analysis on the
   message; renounced admins; namespace; module accounts. *)
From Coq Require Import ZArith List Bool Lia Arith.
Import ListNotations.
From Osmo Require Import C20.Model.
Open Scope Z_scope.

Definition fails {A} (r : res A) : Prop := exists x, r = inr x.

Lemma fails_inr {A} (x : err) : @fails A (inr x).
Proof. exists x; reflexivity. Qed.
#[global] Hint Resolve fails_inr : c20.

Lemma fails_bind {A B} (r : res A) (f : A -> res B) :
  fails r -> fails (match r with inl x => f x | inr e => inr e end).
Proof. intros [x ->]. eauto with c20. Qed.

Lemma step_of_fails e s sender m : fails (handle e s sender m) -> exists x, step e s sender m = (s, Err x).
Proof. intros [x H]. unfold step. rewrite H. eauto. Qed.

Lemma step_ok_handle e s sender m s' : step e s sender m = (s', Ok) -> handle e s sender m = inl s'.
Proof. unfold step. destruct (handle e s sender m); intros H; inversion H; reflexivity. Qed.

Ltac break_if :=
  match goal with
  | |- context [if ?c then _ else _] => destruct c eqn:?
  end.

Ltac break_if_in H :=
  match type of H with
  | context [if ?c then _ else _] => destruct c eqn:?
  end.
Ltac ok_path H := repeat (break_if_in H; [discriminate H|]).

(* ------------------------------------------------------------------------------------------ *)
(* find / replace facts                                                                        *)
(* ------------------------------------------------------------------------------------------ *)

Lemma find_pos_id s id p : find_pos s id = Some p -> p_id p = id.
Proof. unfold find_pos. intros H. apply find_some in H. destruct H as [_ H]. apply Z.eqb_eq in H. exact H. Qed.

Lemma find_lock_id s id l : find_lock s id = Some l -> l_id l = id.
Proof. unfold find_lock. intros H. apply find_some in H. destruct H as [_ H]. apply Z.eqb_eq in H. exact H. Qed.

Lemma find_replace_pos_other q ps id :
  p_id q <> id ->
  find (fun p => p_id p =? id) (replace_pos q ps) = find (fun p => p_id p =? id) ps.
Proof.
  intros Hne. induction ps as [|p r IH]; [reflexivity|]. cbn [replace_pos map find].
  destruct (p_id p =? p_id q) eqn:E.
  - apply Z.eqb_eq in E.
    assert (p_id q =? id = false) as -> by (apply Z.eqb_neq; exact Hne).
    assert (p_id p =? id = false) as -> by (apply Z.eqb_neq; congruence).
    exact IH.
  - destruct (p_id p =? id); [reflexivity|exact IH].
Qed.

(* ------------------------------------------------------------------------------------------ *)
(* concentrated liquidity                                                                     *)
(* ------------------------------------------------------------------------------------------ *)

Lemma withdraw_unauth s a id liq : owns_pos s a id = false -> fails (withdraw_position s a id liq).
Proof.
  unfold owns_pos, withdraw_position. destruct (find_pos s id) as [p|]; [|eauto with c20].
  intros H. rewrite Z.eqb_sym, H. cbn. eauto with c20.
Qed.

Lemma add_unauth e s a id a0 a1 : owns_pos s a id = false -> fails (add_to_position e s a id a0 a1).
Proof.
  unfold owns_pos, add_to_position. destruct (find_pos s id) as [p|]; [|eauto with c20].
  intros H. rewrite Z.eqb_sym, H. cbn. eauto with c20.
Qed.

Lemma collect_one_unauth s a id : owns_pos s a id = false -> fails (collect_one s a id).
Proof.
  unfold owns_pos, collect_one. destruct (find_pos s id) as [p|]; [|eauto with c20].
  intros H. rewrite Z.eqb_sym, H. cbn. eauto with c20.
Qed.

Lemma collect_one_same s a id s' : collect_one s a id = inl s' -> s' = s.
Proof. unfold collect_one. destruct (find_pos s id); [|discriminate]. break_if; [discriminate|]. intros H; inversion H; reflexivity. Qed.

Lemma collect_all_unauth s a ids : forallb (owns_pos s a) ids = false -> fails (collect_all s a ids).
Proof.
  induction ids as [|id r IH]; cbn [forallb collect_all]; [discriminate|].
  intros H. apply andb_false_iff in H.
  destruct (collect_one s a id) as [s1|x] eqn:E; [|eauto with c20].
  destruct H as [H|H].
  - apply collect_one_unauth in H. destruct H as [x Hx]. congruence.
  - apply collect_one_same in E as ->. auto.
Qed.

Lemma collect_all_same s a ids s' : collect_all s a ids = inl s' -> s' = s.
Proof.
  revert s'. induction ids as [|id r IH]; cbn [collect_all]; intros s' H; [inversion H; reflexivity|].
  destruct (collect_one s a id) as [s1|x] eqn:E; [|discriminate].
  apply collect_one_same in E as ->. auto.
Qed.

Lemma transfer_one_unauth s a rcp id : a <> gov s -> owns_pos s a id = false -> fails (transfer_one s a rcp id).
Proof.
  unfold owns_pos, transfer_one. intros Hg. destruct (find_pos s id) as [p|]; [|eauto with c20].
  intros H. assert (a =? gov s = false) as -> by (apply Z.eqb_neq; exact Hg).
  rewrite H. cbn. eauto with c20.
Qed.

Lemma transfer_one_gov s a rcp id s1 : transfer_one s a rcp id = inl s1 -> gov s1 = gov s.
Proof.
  unfold transfer_one. destruct (find_pos s id); [|discriminate].
  repeat (break_if; [discriminate|]). intros H; inversion H; reflexivity.
Qed.

Lemma transfer_one_other s a rcp id s1 id' :
  transfer_one s a rcp id = inl s1 -> id' <> id -> owns_pos s1 a id' = owns_pos s a id'.
Proof.
  unfold transfer_one. destruct (find_pos s id) as [p|] eqn:F; [|discriminate].
  repeat (break_if; [discriminate|]). intros H Hne; inversion H; subst s1; clear H.
  unfold owns_pos, find_pos. cbn [positions set_positions].
  rewrite find_replace_pos_other; [reflexivity|]. cbn. auto.
Qed.

Lemma memz_In x l : memz x l = true <-> In x l.
Proof.
  induction l as [|y r IH]; cbn; [split; [discriminate|tauto]|].
  rewrite orb_true_iff, Z.eqb_eq, IH. split; intros [H|H]; auto.
Qed.

Lemma forallb_ext_in' {A} (f g : A -> bool) l : (forall x, In x l -> f x = g x) -> forallb f l = forallb g l.
Proof.
  induction l as [|y r IH]; intros H; [reflexivity|]. cbn.
  rewrite (H y (or_introl eq_refl)), IH; [reflexivity|]. intros x Hx. apply H. right; exact Hx.
Qed.

Lemma transfer_all_unauth s a rcp ids :
  a <> gov s -> nodupz ids = true -> forallb (owns_pos s a) ids = false -> fails (transfer_all s a rcp ids).
Proof.
  revert s. induction ids as [|id r IH]; intros s Hg Hnd H; cbn [forallb transfer_all nodupz] in *; [discriminate|].
  apply andb_true_iff in Hnd. destruct Hnd as [Hni Hnd]. apply negb_true_iff in Hni.
  destruct (transfer_one s a rcp id) as [s1|x] eqn:E; [|eauto with c20].
  apply andb_false_iff in H. destruct H as [H|H].
  - apply (transfer_one_unauth s a rcp id Hg) in H. destruct H as [x Hx]. congruence.
  - apply IH; [rewrite (transfer_one_gov _ _ _ _ _ E); exact Hg|exact Hnd|].
    rewrite <- H. apply forallb_ext_in'.
    intros id' Hin. apply (transfer_one_other _ _ _ _ _ _ E).
    intros ->. apply memz_In in Hin. congruence.
Qed.

Lemma transfer_unauth s a rcp ids :
  (a =? gov s) || forallb (owns_pos s a) ids = false -> fails (transfer_positions s a rcp ids).
Proof.
  intros H. apply orb_false_iff in H. destruct H as [Hg H]. apply Z.eqb_neq in Hg.
  unfold transfer_positions. destruct (nodupz ids) eqn:Hnd; cbn; [|eauto with c20].
  apply transfer_all_unauth; assumption.
Qed.

(* ------------------------------------------------------------------------------------------ *)
(* lockup                                                                                     *)
(* ------------------------------------------------------------------------------------------ *)

Lemma begin_unlocking_unauth s a id c : owns_lock s a id = false -> fails (msg_begin_unlocking s a id c).
Proof.
  unfold owns_lock, msg_begin_unlocking. destruct (find_lock s id) as [l|]; [|eauto with c20].
  intros H. rewrite Z.eqb_sym, H. cbn. eauto with c20.
Qed.

Lemma extend_unauth s a id d : owns_lock s a id = false -> fails (msg_extend_lockup s a id d).
Proof.
  unfold owns_lock, msg_extend_lockup. destruct (find_lock s id) as [l|]; [|eauto with c20].
  intros H. rewrite H. cbn. eauto with c20.
Qed.

Lemma set_receiver_unauth s a id r : owns_lock s a id = false -> fails (msg_set_reward_receiver s a id r).
Proof.
  unfold owns_lock, msg_set_reward_receiver. destruct (find_lock s id) as [l|]; [|eauto with c20].
  intros H. rewrite H. cbn. eauto with c20.
Qed.

Lemma allow_list_check a o l : (o =? a) = true -> existsb (fun x => (x =? o) && (x =? a)) l = memz a l.
Proof.
  intros H. apply Z.eqb_eq in H. subst o. induction l as [|y r IH]; [reflexivity|]. cbn.
  rewrite IH. rewrite (Z.eqb_sym a y). destruct (y =? a); reflexivity.
Qed.

Lemma force_unlock_unauth s a id c :
  owns_lock s a id && memz a (force_allowed s) = false -> fails (msg_force_unlock s a id c).
Proof.
  unfold owns_lock, msg_force_unlock. destruct (find_lock s id) as [l|]; [|eauto with c20].
  intros H. destruct (l_owner l =? a) eqn:E; cbn [negb]; [|eauto with c20].
  rewrite (allow_list_check _ _ _ E). cbn in H. rewrite H. cbn. eauto with c20.
Qed.

(* ------------------------------------------------------------------------------------------ *)
(* superfluid                                                                                 *)
(* ------------------------------------------------------------------------------------------ *)

Lemma validate_sf_unauth l a : (l_owner l =? a) = false -> validate_lock_for_sf l a = inr EAuth.
Proof. unfold validate_lock_for_sf. intros ->. reflexivity. Qed.

Lemma sf_delegate_unauth s a id v : owns_lock s a id = false -> fails (sf_delegate s a id v).
Proof.
  unfold owns_lock, sf_delegate. destruct (find_lock s id) as [l|]; [|eauto with c20].
  intros H. unfold validate_lock_for_sf_delegate. rewrite (validate_sf_unauth _ _ H). eauto with c20.
Qed.

Lemma undelegate_common_unauth s a id : owns_lock s a id = false -> fails (undelegate_common s a id).
Proof.
  unfold owns_lock, undelegate_common. destruct (find_lock s id) as [l|]; [|eauto with c20].
  intros H. rewrite (validate_sf_unauth _ _ H). eauto with c20.
Qed.

Lemma sf_undelegate_unauth s a id : owns_lock s a id = false -> fails (sf_undelegate s a id).
Proof. intros H. unfold sf_undelegate. apply fails_bind, undelegate_common_unauth, H. Qed.

Lemma unbond_lock_unauth s a id c : owns_lock s a id = false -> fails (unbond_lock s id a c).
Proof.
  unfold owns_lock, unbond_lock. destruct (find_lock s id) as [l|]; [|eauto with c20].
  intros H. rewrite (validate_sf_unauth _ _ H). eauto with c20.
Qed.

Lemma sf_undelegate_and_unbond_unauth s a id amt : owns_lock s a id = false -> fails (sf_undelegate_and_unbond s a id amt).
Proof.
  intros H. unfold sf_undelegate_and_unbond. destruct (find_lock s id) as [l|] eqn:F; [|eauto with c20].
  destruct (amt <=? 0); [eauto with c20|]. destruct (l_amt l <? amt); [eauto with c20|].
  destruct (l_conn l); [|eauto with c20].
  apply fails_bind, sf_undelegate_unauth, H.
Qed.

Lemma unbond_convert_unauth s a id v d amt :
  (if id <=? 0 then true else owns_lock s a id) = false -> fails (sf_unbond_convert_and_stake s a id v d amt).
Proof.
  unfold sf_unbond_convert_and_stake. destruct (id <=? 0); [discriminate|]. intros H.
  pose proof H as H'. unfold owns_lock in H'.
  destruct (find_lock s id) as [l|] eqn:F.
  - destruct (l_synth l).
    + rewrite F, H'. cbn. eauto with c20.
    + apply fails_bind. apply fails_bind. apply undelegate_common_unauth, H.
    + rewrite F, H'. cbn. eauto with c20.
  - rewrite F. eauto with c20.
Qed.

Lemma add_to_cl_unauth e s a pid a0 a1 :
  match find_pos s pid with Some p => (p_owner p =? a) && owns_lock s a (p_lock p) | None => false end = false ->
  fails (sf_add_to_cl_position e s a pid a0 a1).
Proof.
  unfold sf_add_to_cl_position, owns_lock. destruct (find_pos s pid) as [p|]; [|eauto with c20].
  intros H. repeat (break_if; [eauto with c20|]).
  destruct (find_lock s (p_lock p)) as [l|]; [|eauto with c20].
  destruct (l_owner l =? p_owner p) eqn:E1; cbn [negb]; [|eauto with c20].
  destruct (l_owner l =? a) eqn:E2; cbn [negb]; [|eauto with c20].
  apply Z.eqb_eq in E1, E2. assert (p_owner p =? a = true) as E3 by (apply Z.eqb_eq; congruence).
  rewrite E3 in H. cbn in H. discriminate.
Qed.

(* ------------------------------------------------------------------------------------------ *)
(* tokenfactory                                                                               *)
(* ------------------------------------------------------------------------------------------ *)

Lemma tf_mint_unauth s a d amt to : is_admin s d a = false -> fails (tf_mint s a d amt to).
Proof. unfold tf_mint. intros ->. break_if; cbn; eauto with c20. Qed.
Lemma tf_burn_unauth s a d amt from : is_admin s d a = false -> fails (tf_burn s a d amt from).
Proof. unfold tf_burn. intros ->. cbn; eauto with c20. Qed.
Lemma tf_force_transfer_unauth s a d amt from to : is_admin s d a = false -> fails (tf_force_transfer s a d amt from to).
Proof. unfold tf_force_transfer. intros ->. cbn; eauto with c20. Qed.
Lemma tf_change_admin_unauth s a d new : is_admin s d a = false -> fails (tf_change_admin s a d new).
Proof. unfold tf_change_admin. intros ->. cbn; eauto with c20. Qed.
Lemma tf_set_metadata_unauth s a d v desc : is_admin s d a = false -> fails (tf_set_metadata s a d v desc).
Proof. unfold tf_set_metadata. intros ->. break_if; cbn; eauto with c20. Qed.
Lemma tf_set_hook_unauth s a d h : is_admin s d a = false -> fails (tf_set_hook s a d h).
Proof. unfold tf_set_hook. intros ->. cbn; eauto with c20. Qed.

(* ------------------------------------------------------------------------------------------ *)
(* the property: an unauthorised sender's message fails and leaves the state as it was         *)
(* ------------------------------------------------------------------------------------------ *)

Lemma unauthorised_handle_fails e s m sender : authorised s m sender = false -> fails (handle e s sender m).
Proof.
  destruct m; cbn [authorised handle]; intros H; try discriminate.
  - apply withdraw_unauth, H.
  - apply add_unauth, H.
  - apply transfer_unauth, H.
  - apply collect_all_unauth, H.
  - apply collect_all_unauth, H.
  - apply begin_unlocking_unauth, H.
  - apply extend_unauth, H.
  - apply set_receiver_unauth, H.
  - apply force_unlock_unauth, H.
  - apply sf_delegate_unauth, H.
  - apply sf_undelegate_unauth, H.
  - apply fails_bind, unbond_lock_unauth, H.
  - apply sf_undelegate_and_unbond_unauth, H.
  - eauto with c20.
  - apply add_to_cl_unauth, H.
  - apply unbond_convert_unauth, H.
  - apply tf_mint_unauth, H.
  - apply tf_burn_unauth, H.
  - apply tf_force_transfer_unauth, H.
  - apply tf_change_admin_unauth, H.
  - apply tf_set_metadata_unauth, H.
  - apply tf_set_hook_unauth, H.
Qed.

Lemma unauthorised_fails_unchanged e s m sender :
  authorised s m sender = false -> exists x, step e s sender m = (s, Err x).
Proof. intros H. apply step_of_fails, unauthorised_handle_fails, H. Qed.

(* the contrapositive, as the oracle uses it: whoever gets a message accepted was authorised *)
Lemma accepted_was_authorised e s m sender s' : step e s sender m = (s', Ok) -> authorised s m sender = true.
Proof.
  intros H. destruct (authorised s m sender) eqn:E; [reflexivity|].
  destruct (unauthorised_fails_unchanged e s m sender E) as [x Hx]. congruence.
Qed.

(* an error never changes the state (baseapp's wrapper) *)
Lemma error_leaves_state e s m sender s' x : step e s sender m = (s', Err x) -> s' = s.
Proof. unfold step. destruct (handle e s sender m); intros H; inversion H; reflexivity. Qed.

(* ------------------------------------------------------------------------------------------ *)
(* renounced admin                                                                            *)
(* ------------------------------------------------------------------------------------------ *)

(* the messages that exercise the admin's powers over denom d *)
Definition admin_msg_on (m : msg) (d : dk) : Prop :=
  match m with
  | MMint d' _ _ | MBurn d' _ _ | MForceTransfer d' _ _ _ | MChangeAdmin d' _ | MSetDenomMetadata d' _ _
  | MSetBeforeSendHook d' _ => d' = d
  | _ => False
  end.

Lemma renounced_not_admin s d a : admin_of s d = None -> is_admin s d a = false.
Proof. unfold is_admin. intros ->. reflexivity. Qed.

Lemma renounced_admin_powerless e s d m sender :
  admin_of s d = None -> admin_msg_on m d -> exists x, step e s sender m = (s, Err x).
Proof.
  intros Hr Hm. apply unauthorised_fails_unchanged.
  destruct m; cbn in Hm; try contradiction; subst; cbn [authorised]; apply renounced_not_admin, Hr.
Qed.

(* ------------------------------------------------------------------------------------------ *)
(* bank facts                                                                                 *)
(* ------------------------------------------------------------------------------------------ *)

Lemma dk_eqb_refl d : dk_eqb d d = true.
Proof. destruct d; cbn; rewrite ?Z.eqb_refl; reflexivity. Qed.

Lemma dk_eqb_eq a b : dk_eqb a b = true <-> a = b.
Proof.
  destruct a, b; cbn; try (split; discriminate).
  - rewrite andb_true_iff, !Z.eqb_eq. split; [intros [-> ->]; reflexivity|intros H; inversion H; auto].
  - rewrite Z.eqb_eq. split; [intros ->; reflexivity|intros H; inversion H; auto].
Qed.

Lemma bal_of_set b a d v a' d' :
  bal_of (bal_set b a d v) a' d' = if (a' =? a) && dk_eqb d' d then v else bal_of b a' d'.
Proof.
  induction b as [|[[a0 d0] v0] r IH]; cbn [bal_set bal_of].
  - destruct ((a' =? a) && dk_eqb d' d); reflexivity.
  - destruct ((a =? a0) && dk_eqb d d0) eqn:E; cbn [bal_of].
    + apply andb_true_iff in E. destruct E as [E1 E2]. apply Z.eqb_eq in E1. apply dk_eqb_eq in E2. subst a0 d0.
      destruct ((a' =? a) && dk_eqb d' d); reflexivity.
    + destruct ((a' =? a0) && dk_eqb d' d0) eqn:E'; [|exact IH].
      apply andb_true_iff in E'. destruct E' as [E1 E2]. apply Z.eqb_eq in E1. apply dk_eqb_eq in E2. subst a0 d0.
      assert ((a' =? a) && dk_eqb d' d = false) as ->; [|reflexivity].
      rewrite Z.eqb_sym. destruct (a =? a') eqn:X; [|reflexivity]. cbn in *.
      destruct (dk_eqb d' d) eqn:Y; [|reflexivity]. apply dk_eqb_eq in Y. subst d'. rewrite dk_eqb_refl in E. discriminate.
Qed.

Lemma bal_of_add_other b a d v a' d' : a' <> a -> bal_of (bal_add b a d v) a' d' = bal_of b a' d'.
Proof. intros H. unfold bal_add. rewrite bal_of_set. apply Z.eqb_neq in H. rewrite H. reflexivity. Qed.

Lemma send_bal_other s from to d v s' a d' :
  send s from to d v = inl s' -> a <> from -> a <> to -> bal_of (bals s') a d' = bal_of (bals s) a d'.
Proof.
  unfold send. break_if; [discriminate|]. intros H Hf Ht. inversion H; subst s'. cbn [bals set_bals].
  rewrite !bal_of_add_other by assumption. reflexivity.
Qed.

Lemma send_protected s from to d v s' : send s from to d v = inl s' -> protected s' = protected s.
Proof. unfold send. break_if; [discriminate|]. intros H; inversion H; reflexivity. Qed.

(* ------------------------------------------------------------------------------------------ *)
(* module accounts are out of reach of mint-to / burn-from / force-transfer                    *)
(* ------------------------------------------------------------------------------------------ *)

Definition tf_bank_msg (m : msg) : Prop :=
  match m with MMint _ _ _ | MBurn _ _ _ | MForceTransfer _ _ _ _ => True | _ => False end.

Lemma module_accounts_protected e s sender m s' :
  step e s sender m = (s', Ok) -> tf_bank_msg m ->
  forall a d, In a (protected s) -> bal_of (bals s') a d = bal_of (bals s) a d.
Proof.
  intros H Hm a d Ha. apply step_ok_handle in H. apply memz_In in Ha.
  destruct m; cbn in Hm; try contradiction; cbn [handle] in H.
  - unfold tf_mint in H. ok_path H. injection H as <-. cbn [bals set_bals].
    apply bal_of_add_other. intros ->. unfold is_module_acc in *. congruence.
  - unfold tf_burn in H. ok_path H. injection H as <-. cbn [bals set_bals].
    apply bal_of_add_other. intros ->. unfold is_module_acc in *. congruence.
  - unfold tf_force_transfer in H. ok_path H.
    apply (send_bal_other _ _ _ _ _ _ a d H); intros ->; unfold is_module_acc in *; congruence.
Qed.

(* the guards themselves: a protected account as destination / source makes the message fail, whoever sends it *)
Lemma mint_to_module_fails e s sender d amt a :
  In a (protected s) -> exists x, step e s sender (MMint d amt (Some a)) = (s, Err x).
Proof.
  intros Ha. apply memz_In in Ha. apply step_of_fails. cbn [handle]. unfold tf_mint, is_module_acc. rewrite Ha.
  repeat (break_if; eauto with c20).
Qed.
Lemma burn_from_module_fails e s sender d amt a :
  In a (protected s) -> exists x, step e s sender (MBurn d amt (Some a)) = (s, Err x).
Proof.
  intros Ha. apply memz_In in Ha. apply step_of_fails. cbn [handle]. unfold tf_burn, is_module_acc. rewrite Ha.
  repeat (break_if; eauto with c20).
Qed.
Lemma force_transfer_module_fails e s sender d amt from to :
  In from (protected s) \/ In to (protected s) -> exists x, step e s sender (MForceTransfer d amt from to) = (s, Err x).
Proof.
  intros Ha. apply step_of_fails. cbn [handle]. unfold tf_force_transfer, is_module_acc.
  destruct Ha as [Ha|Ha]; apply memz_In in Ha; rewrite Ha; repeat (break_if; eauto with c20).
Qed.

(* ------------------------------------------------------------------------------------------ *)
(* namespace                                                                                  *)
(* ------------------------------------------------------------------------------------------ *)

Lemma send_denoms s from to d v s' : send s from to d v = inl s' -> denoms s' = denoms s.
Proof. unfold send. break_if; [discriminate|]. intros H; inversion H; reflexivity. Qed.

(* CreateDenom creates exactly factory/{sender}/{sub}, administered by the sender, and only if it did not exist *)
Lemma create_denom_namespace e s sender sub wf s' :
  step e s sender (MCreateDenom sub wf) = (s', Ok) ->
  denoms s' = denoms s ++ [mkDenom sender sub (Some sender) None 0] /\ find_denom s (DFactory sender sub) = None.
Proof.
  intros H. apply step_ok_handle in H. cbn [handle] in H. unfold tf_create_denom in H.
  ok_path H.
  destruct (find_denom s (DFactory sender sub)) eqn:F; [discriminate|].
  destruct (fee s =? 0).
  - injection H as <-. split; reflexivity.
  - destruct (send s sender (distr_acc s) (fee_denom s) (fee s)) as [s1|] eqn:S; [|discriminate].
    injection H as <-. cbn [denoms set_denoms]. rewrite (send_denoms _ _ _ _ _ _ S). split; reflexivity.
Qed.

(* nobody can create a denom in somebody else's namespace: whatever CreateDenom adds belongs to the sender *)
Lemma create_denom_only_own_namespace e s sender sub wf s' :
  step e s sender (MCreateDenom sub wf) = (s', Ok) ->
  forall x, In x (denoms s') -> In x (denoms s) \/ (d_creator x = sender /\ d_admin x = Some sender).
Proof.
  intros H x Hx. apply create_denom_namespace in H. destruct H as [H _]. rewrite H in Hx.
  apply in_app_or in Hx. destruct Hx as [Hx|[<-|[]]]; [left; exact Hx|right; split; reflexivity].
Qed.
