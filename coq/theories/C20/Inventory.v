(* C20 - the message inventory is tied to the code.

   [Gen/C20_msgs.v] is regenerated on every run from the generated `MsgServer` interfaces of the four modules.
   Every (module, method) pair in it must be classified here: either it has a constructor of [Model.msg]
   ([Owned tag]) or it is explicitly [NotOwned] (it creates a new object that belongs to the sender; there is
   no existing owner whose authority could be usurped). The lemmas below are checked by computation over the
   generated list, so a message that is added to (or renamed in) a Msg service breaks the build of this file,
   and with it the check, until somebody models it. *)
From Coq Require Import String List Bool ZArith.
Import ListNotations.
From Osmo Require Import Gen.C20_msgs C20.Model.
Local Open Scope string_scope.

Inductive tag :=
  | TWithdrawPosition | TAddToPosition | TTransferPositions | TCollectSpreadRewards | TCollectIncentives
  | TBeginUnlocking | TBeginUnlockingAll | TExtendLockup | TSetRewardReceiverAddress | TForceUnlock
  | TSuperfluidDelegate | TSuperfluidUndelegate | TSuperfluidUnbondLock | TSuperfluidUndelegateAndUnbondLock
  | TLockAndSuperfluidDelegate | TUnPoolWhitelistedPool | TUnlockAndMigrateSharesToFullRangeConcentratedPosition
  | TAddToConcentratedLiquiditySuperfluidPosition | TUnbondConvertAndStake
  | TCreateDenom | TMint | TBurn | TForceTransfer | TChangeAdmin | TSetDenomMetadata | TSetBeforeSendHook.

Definition tag_of (m : msg) : tag :=
  match m with
  | MWithdrawPosition _ _ => TWithdrawPosition
  | MAddToPosition _ _ _ => TAddToPosition
  | MTransferPositions _ _ => TTransferPositions
  | MCollectSpreadRewards _ => TCollectSpreadRewards
  | MCollectIncentives _ => TCollectIncentives
  | MBeginUnlocking _ _ => TBeginUnlocking
  | MBeginUnlockingAll => TBeginUnlockingAll
  | MExtendLockup _ _ => TExtendLockup
  | MSetRewardReceiverAddress _ _ => TSetRewardReceiverAddress
  | MForceUnlock _ _ => TForceUnlock
  | MSuperfluidDelegate _ _ => TSuperfluidDelegate
  | MSuperfluidUndelegate _ => TSuperfluidUndelegate
  | MSuperfluidUnbondLock _ => TSuperfluidUnbondLock
  | MSuperfluidUndelegateAndUnbondLock _ _ => TSuperfluidUndelegateAndUnbondLock
  | MLockAndSuperfluidDelegate _ _ _ => TLockAndSuperfluidDelegate
  | MUnPoolWhitelistedPool _ => TUnPoolWhitelistedPool
  | MUnlockAndMigrateSharesToFullRangeConcentratedPosition _ => TUnlockAndMigrateSharesToFullRangeConcentratedPosition
  | MAddToConcentratedLiquiditySuperfluidPosition _ _ _ => TAddToConcentratedLiquiditySuperfluidPosition
  | MUnbondConvertAndStake _ _ _ _ => TUnbondConvertAndStake
  | MCreateDenom _ _ => TCreateDenom
  | MMint _ _ _ => TMint
  | MBurn _ _ _ => TBurn
  | MForceTransfer _ _ _ _ => TForceTransfer
  | MChangeAdmin _ _ => TChangeAdmin
  | MSetDenomMetadata _ _ _ => TSetDenomMetadata
  | MSetBeforeSendHook _ _ => TSetBeforeSendHook
  end.

Definition all_tags : list tag :=
  [TWithdrawPosition; TAddToPosition; TTransferPositions; TCollectSpreadRewards; TCollectIncentives;
   TBeginUnlocking; TBeginUnlockingAll; TExtendLockup; TSetRewardReceiverAddress; TForceUnlock;
   TSuperfluidDelegate; TSuperfluidUndelegate; TSuperfluidUnbondLock; TSuperfluidUndelegateAndUnbondLock;
   TLockAndSuperfluidDelegate; TUnPoolWhitelistedPool; TUnlockAndMigrateSharesToFullRangeConcentratedPosition;
   TAddToConcentratedLiquiditySuperfluidPosition; TUnbondConvertAndStake;
   TCreateDenom; TMint; TBurn; TForceTransfer; TChangeAdmin; TSetDenomMetadata; TSetBeforeSendHook].

Definition tag_eqb (a b : tag) : bool :=
  match a, b with
  | TWithdrawPosition, TWithdrawPosition | TAddToPosition, TAddToPosition | TTransferPositions, TTransferPositions
  | TCollectSpreadRewards, TCollectSpreadRewards | TCollectIncentives, TCollectIncentives
  | TBeginUnlocking, TBeginUnlocking | TBeginUnlockingAll, TBeginUnlockingAll | TExtendLockup, TExtendLockup
  | TSetRewardReceiverAddress, TSetRewardReceiverAddress | TForceUnlock, TForceUnlock
  | TSuperfluidDelegate, TSuperfluidDelegate | TSuperfluidUndelegate, TSuperfluidUndelegate
  | TSuperfluidUnbondLock, TSuperfluidUnbondLock
  | TSuperfluidUndelegateAndUnbondLock, TSuperfluidUndelegateAndUnbondLock
  | TLockAndSuperfluidDelegate, TLockAndSuperfluidDelegate | TUnPoolWhitelistedPool, TUnPoolWhitelistedPool
  | TUnlockAndMigrateSharesToFullRangeConcentratedPosition, TUnlockAndMigrateSharesToFullRangeConcentratedPosition
  | TAddToConcentratedLiquiditySuperfluidPosition, TAddToConcentratedLiquiditySuperfluidPosition
  | TUnbondConvertAndStake, TUnbondConvertAndStake
  | TCreateDenom, TCreateDenom | TMint, TMint | TBurn, TBurn | TForceTransfer, TForceTransfer
  | TChangeAdmin, TChangeAdmin | TSetDenomMetadata, TSetDenomMetadata | TSetBeforeSendHook, TSetBeforeSendHook => true
  | _, _ => false
  end.

Inductive class :=
  | Owned (t : tag)     (* acts on an existing owned object (or on the sender's own locks / namespace): modelled *)
  | NotOwned.           (* creates an object that belongs to the sender: no existing owner to impersonate *)

Definition table : list ((string * string) * class) :=
  [ (("concentrated-liquidity", "CreatePosition"), NotOwned);
    (("concentrated-liquidity", "WithdrawPosition"), Owned TWithdrawPosition);
    (("concentrated-liquidity", "AddToPosition"), Owned TAddToPosition);
    (("concentrated-liquidity", "CollectSpreadRewards"), Owned TCollectSpreadRewards);
    (("concentrated-liquidity", "CollectIncentives"), Owned TCollectIncentives);
    (("concentrated-liquidity", "TransferPositions"), Owned TTransferPositions);
    (("concentrated-liquidity", "CreateConcentratedPool"), NotOwned);
    (("lockup", "LockTokens"), NotOwned);   (* new lock, or more of the sender's own coins into the sender's own lock *)
    (("lockup", "BeginUnlockingAll"), Owned TBeginUnlockingAll);
    (("lockup", "BeginUnlocking"), Owned TBeginUnlocking);
    (("lockup", "ExtendLockup"), Owned TExtendLockup);
    (("lockup", "ForceUnlock"), Owned TForceUnlock);
    (("lockup", "SetRewardReceiverAddress"), Owned TSetRewardReceiverAddress);
    (("superfluid", "SuperfluidDelegate"), Owned TSuperfluidDelegate);
    (("superfluid", "SuperfluidUndelegate"), Owned TSuperfluidUndelegate);
    (("superfluid", "SuperfluidUnbondLock"), Owned TSuperfluidUnbondLock);
    (("superfluid", "SuperfluidUndelegateAndUnbondLock"), Owned TSuperfluidUndelegateAndUnbondLock);
    (("superfluid", "LockAndSuperfluidDelegate"), Owned TLockAndSuperfluidDelegate);
    (("superfluid", "CreateFullRangePositionAndSuperfluidDelegate"), NotOwned);
    (("superfluid", "UnPoolWhitelistedPool"), Owned TUnPoolWhitelistedPool);
    (("superfluid", "UnlockAndMigrateSharesToFullRangeConcentratedPosition"), Owned TUnlockAndMigrateSharesToFullRangeConcentratedPosition);
    (("superfluid", "AddToConcentratedLiquiditySuperfluidPosition"), Owned TAddToConcentratedLiquiditySuperfluidPosition);
    (("superfluid", "UnbondConvertAndStake"), Owned TUnbondConvertAndStake);
    (("tokenfactory", "CreateDenom"), Owned TCreateDenom);
    (("tokenfactory", "Mint"), Owned TMint);
    (("tokenfactory", "Burn"), Owned TBurn);
    (("tokenfactory", "ChangeAdmin"), Owned TChangeAdmin);
    (("tokenfactory", "SetDenomMetadata"), Owned TSetDenomMetadata);
    (("tokenfactory", "SetBeforeSendHook"), Owned TSetBeforeSendHook);
    (("tokenfactory", "ForceTransfer"), Owned TForceTransfer) ].

Definition key_eqb (a b : string * string) : bool := String.eqb (fst a) (fst b) && String.eqb (snd a) (snd b).

Fixpoint classify (k : string * string) (t : list ((string * string) * class)) : option class :=
  match t with
  | [] => None
  | (k', c) :: r => if key_eqb k k' then Some c else classify k r
  end.

Definition classified (k : string * string) : bool := match classify k table with Some _ => true | None => false end.
Definition known (k : string * string) : bool := existsb (key_eqb k) c20_msgs.
Definition has_row (t : tag) : bool :=
  existsb (fun row => match snd row with Owned t' => tag_eqb t t' | NotOwned => false end) table.
Fixpoint count_key (k : string * string) (l : list (string * string)) : nat :=
  match l with [] => 0 | x :: r => (if key_eqb k x then 1 else 0) + count_key k r end.

(* every Msg-service method of the four modules that exists in the code is classified *)
Lemma inventory_total : forallb classified c20_msgs = true.
Proof. vm_compute. reflexivity. Qed.

(* no stale rows: every row of the table names a method that exists in the code, once *)
Lemma inventory_no_stale_rows : forallb (fun row => known (fst row)) table = true.
Proof. vm_compute. reflexivity. Qed.
Lemma inventory_no_duplicates :
  forallb (fun k => Nat.eqb (count_key k c20_msgs) 1 && Nat.eqb (count_key k (map fst table)) 1) c20_msgs = true.
Proof. vm_compute. reflexivity. Qed.

(* every constructor of [Model.msg] is the model of some method of the code *)
Lemma all_tags_complete : forall t, In t all_tags.
Proof. destruct t; vm_compute; tauto. Qed.
Lemma constructors_all_used : forallb has_row all_tags = true.
Proof. vm_compute. reflexivity. Qed.
Lemma tag_of_onto : forall t, exists m, tag_of m = t.
Proof.
  destruct t;
  [ exists (MWithdrawPosition 0 0) | exists (MAddToPosition 0 0 0) | exists (MTransferPositions [] 0)
  | exists (MCollectSpreadRewards []) | exists (MCollectIncentives []) | exists (MBeginUnlocking 0 None)
  | exists MBeginUnlockingAll | exists (MExtendLockup 0 0) | exists (MSetRewardReceiverAddress 0 0)
  | exists (MForceUnlock 0 None) | exists (MSuperfluidDelegate 0 0) | exists (MSuperfluidUndelegate 0)
  | exists (MSuperfluidUnbondLock 0) | exists (MSuperfluidUndelegateAndUnbondLock 0 0)
  | exists (MLockAndSuperfluidDelegate (DNative 0) 0 0) | exists (MUnPoolWhitelistedPool 0)
  | exists (MUnlockAndMigrateSharesToFullRangeConcentratedPosition 0)
  | exists (MAddToConcentratedLiquiditySuperfluidPosition 0 0 0) | exists (MUnbondConvertAndStake 0 0 (DNative 0) 0)
  | exists (MCreateDenom 0 true) | exists (MMint (DNative 0) 0 None) | exists (MBurn (DNative 0) 0 None)
  | exists (MForceTransfer (DNative 0) 0 0 0) | exists (MChangeAdmin (DNative 0) None)
  | exists (MSetDenomMetadata (DNative 0) true 0) | exists (MSetBeforeSendHook (DNative 0) None) ]; reflexivity.
Qed.
