(* C20 correspondence glue: run the model's [step] on a (state, sender, message) triple taken from the real chain
   and flatten verdict + projected post-state the same way props/c20.py flattens the driver's observation. *)
From Coq Require Import ZArith List Bool.
Import ListNotations.
From Osmo Require Import Base.Obs C20.Model.
Open Scope Z_scope.

Record case := mkCase {
  c_env : env;
  c_state : state;
  c_watch : list (addr * dk);   (* balances that are compared after an accepted message *)
  c_sender : addr;
  c_msg : msg;
  c_expect : list Z }.

Definition flat_dk (d : dk) : list Z := match d with DFactory c s => [1; c; s] | DNative n => [0; n; 0] end.
Definition flat_oz (o : option Z) : Z := match o with Some a => a | None => -1 end.
Definition synthz (x : synth) : Z := match x with SNone => 0 | SBonded => 1 | SUnbonding => 2 end.
(* the lock link is reported as the chain reports it: 0 unless the linked lock still exists *)
Definition flat_pos (s : state) (p : position) : list Z :=
  [p_id p; p_owner p; p_pool p; p_liq p; (if pos_locked s p then p_lock p else 0); b2z (p_full p)].
Definition flat_lock (l : lock) : list Z :=
  [l_id l; l_owner l; flat_oz (l_recv l)] ++ flat_dk (l_denom l) ++
  [l_amt l; l_dur l; b2z (l_unlocking l); synthz (l_synth l); flat_oz (l_conn l)].
Definition flat_denom (d : denom) : list Z := [d_creator d; d_sub d; flat_oz (d_admin d); flat_oz (d_hook d); d_desc d].

Definition flat_state (w : list (addr * dk)) (s : state) : list Z :=
  [-1] ++ flat_map (flat_pos s) (positions s) ++ [-2; next_pos s] ++ flat_map flat_lock (locks s) ++ [-3; last_lock s] ++
  flat_map flat_denom (denoms s) ++ [-4] ++ map (fun x => bal_of (bals s) (fst x) (snd x)) w.

(* verdict (0 accepted / 1 rejected for lack of authorisation / 2 rejected otherwise) followed, for an accepted message,
   by the projected post-state *)
Definition model_obs (c : case) : list Z :=
  let '(s', r) := step (c_env c) (c_state c) (c_sender c) (c_msg c) in
  match r with
  | Ok => 0 :: flat_state (c_watch c) s'
  | Err EAuth => [1]
  | Err EOther => [2]
  end.

(* the correspondence: model and implementation agree on accepted / rejected, and on the projected post-state of an accepted
   message. Which guard rejected a message (authorisation / other) is not part of it: the property only distinguishes accepted
   from rejected, and a refactoring that reorders redundant guards keeps it. *)
Definition case_ok (c : case) : bool :=
  match model_obs c, c_expect c with
  | 0 :: m, 0 :: x => zlist_eqb m x
  | 0 :: _, _ | _, 0 :: _ => false
  | _ :: _, _ :: _ => true
  | _, _ => false
  end.

(* diagnostic only: the error class agrees as well *)
Definition class_ok (c : case) : bool := zlist_eqb (model_obs c) (c_expect c).

(* one evaluation of the model per case: 0 = agrees fully, 1 = disagrees (verdict or post-state), 2 = only the error class differs *)
Definition grade (c : case) : nat := if class_ok c then 0%nat else if case_ok c then 2%nat else 1%nat.
Fixpoint where_from (g : nat) (i : nat) (l : list nat) : list nat :=
  match l with
  | [] => []
  | x :: r => if Nat.eqb x g then i :: where_from g (S i) r else where_from g (S i) r
  end.
Definition where_is (g : nat) (l : list nat) : list nat := where_from g 0%nat l.
