(* C20 - "Only the owner or admin can move or alter what they own": the model.

   An abstract chain state holding the owned objects of four modules, one message constructor per
   Msg-service method that acts on an existing owned object (or on the sender's namespace), and one
   handler per message, written with the guards in the order and form the Go handlers have them:

     x/concentrated-liquidity  lp.go WithdrawPosition / addToPosition, spread_rewards.go collectSpreadRewards,
                               incentives.go collectIncentives, position.go transferPositions
     x/lockup                  keeper/msg_server.go, keeper/lock.go (BeginUnlock, beginUnlock, SplitLock,
                               ExtendLockup, SetLockRewardReceiverAddress, PartialForceUnlock, ForceUnlock)
     x/superfluid              keeper/msg_server.go, keeper/stake.go (validateLockForSF, validateLockForSFDelegate,
                               SuperfluidDelegate, undelegateCommon, unbondLock, SuperfluidUndelegateAndUnbondLock,
                               UnbondConvertAndStake, convertLockToStake), keeper/concentrated_liquidity.go, keeper/unpool.go
     x/tokenfactory            keeper/msg_server.go, bankactions.go, createdenom.go, admins.go, before_send.go

   What is abstracted: amounts paid out by the concentrated-liquidity and gamm pools, the liquidity of a re-created
   position and the staking side of superfluid delegation are not computed; where a handler creates an object
   whose size comes from that arithmetic, the size is read from [env] (the theorems quantify over every env).
   Balances are tracked exactly for what the tokenfactory and lockup handlers move (mint, burn, force transfer,
   denom creation fee, lock / force-unlock); pool pay-outs leave the model's balances untouched.

   Addresses are integers (the harness owns the table); [None : option addr] is the empty string.
   No proofs in this file. *)
From Coq Require Import ZArith List Bool.
Import ListNotations.
Open Scope Z_scope.

Definition addr := Z.

(* denominations: factory/{creator}/{subdenom}, or anything else (by identifier) *)
Inductive dk := DFactory (creator : addr) (sub : Z) | DNative (n : Z).

Definition dk_eqb (a b : dk) : bool :=
  match a, b with
  | DFactory c s, DFactory c' s' => (c =? c') && (s =? s')
  | DNative n, DNative n' => n =? n'
  | _, _ => false
  end.

Definition oaddr_eqb (a b : option addr) : bool :=
  match a, b with
  | None, None => true
  | Some x, Some y => x =? y
  | _, _ => false
  end.

Fixpoint memz (x : Z) (l : list Z) : bool :=
  match l with [] => false | y :: r => (x =? y) || memz x r end.
Fixpoint memdk (x : dk) (l : list dk) : bool :=
  match l with [] => false | y :: r => dk_eqb x y || memdk x r end.

(* ------------------------------------------------------------------------------------------ *)
(* owned objects                                                                              *)
(* ------------------------------------------------------------------------------------------ *)

Record position := mkPos {
  p_id : Z; p_owner : addr; p_pool : Z;
  p_liq : Z;          (* liquidity, raw 10^-18 *)
  p_lock : Z;         (* id of the active underlying lock, 0 = none (PositionHasActiveUnderlyingLock) *)
  p_full : bool }.    (* full range *)

Inductive synth := SNone | SBonded | SUnbonding.   (* synthetic lock of a lock: none / superbonding / superunbonding *)

Record lock := mkLock {
  l_id : Z; l_owner : addr;
  l_recv : option addr;     (* reward receiver, None = "" = the owner *)
  l_denom : dk; l_amt : Z;  (* locks hold one coin *)
  l_dur : Z;                (* ns *)
  l_unlocking : bool;
  l_synth : synth;
  l_conn : option Z }.      (* lock id -> intermediary account connection: the validator *)

Record denom := mkDenom {
  d_creator : addr; d_sub : Z;
  d_admin : option addr;    (* authority metadata; None = "" = renounced *)
  d_hook : option addr;     (* before-send hook contract *)
  d_desc : Z }.             (* bank metadata (its description, by identifier) *)

Record state := mkState {
  positions : list position; next_pos : Z;
  locks : list lock; last_lock : Z;
  denoms : list denom;
  bals : list (addr * dk * Z);
  (* configuration and module facts the guards read *)
  gov : addr;                    (* governance module account *)
  lockup_acc : addr;             (* lockup module account *)
  distr_acc : addr;              (* distribution module account (community pool) *)
  protected : list addr;         (* tokenfactory permAddrs / permAddrMap: the module accounts *)
  force_allowed : list addr;     (* lockup param ForceUnlockAllowedAddresses *)
  unbonding : Z;                 (* staking unbonding time, ns *)
  sf_assets : list dk;           (* registered superfluid assets *)
  vals : list Z;                 (* validators *)
  fee : Z; fee_denom : dk;       (* tokenfactory DenomCreationFee (one coin; 0 = none) *)
  supplied : list Z;             (* subdenom identifiers that are also the name of a denom with supply *)
  unpool_allowed : list Z;       (* superfluid UnpoolAllowedPools *)
  gamm_shares : list (dk * Z);   (* gamm share denom -> balancer pool *)
  cl_shares : list (dk * Z);     (* concentrated lockup denom -> concentrated pool *)
  contracts : list addr;         (* cosmwasm contracts that answer the before-send sudo call *)
  native_meta : list Z }.        (* non-factory denoms that have bank metadata (gamm shares) *)

Definition set_positions (s : state) (ps : list position) (np : Z) : state :=
  mkState ps np (locks s) (last_lock s) (denoms s) (bals s) (gov s) (lockup_acc s) (distr_acc s) (protected s)
          (force_allowed s) (unbonding s) (sf_assets s) (vals s) (fee s) (fee_denom s) (supplied s) (unpool_allowed s)
          (gamm_shares s) (cl_shares s) (contracts s) (native_meta s).
Definition set_locks (s : state) (ls : list lock) (ll : Z) : state :=
  mkState (positions s) (next_pos s) ls ll (denoms s) (bals s) (gov s) (lockup_acc s) (distr_acc s) (protected s)
          (force_allowed s) (unbonding s) (sf_assets s) (vals s) (fee s) (fee_denom s) (supplied s) (unpool_allowed s)
          (gamm_shares s) (cl_shares s) (contracts s) (native_meta s).
Definition set_denoms (s : state) (ds : list denom) : state :=
  mkState (positions s) (next_pos s) (locks s) (last_lock s) ds (bals s) (gov s) (lockup_acc s) (distr_acc s) (protected s)
          (force_allowed s) (unbonding s) (sf_assets s) (vals s) (fee s) (fee_denom s) (supplied s) (unpool_allowed s)
          (gamm_shares s) (cl_shares s) (contracts s) (native_meta s).
Definition set_bals (s : state) (b : list (addr * dk * Z)) : state :=
  mkState (positions s) (next_pos s) (locks s) (last_lock s) (denoms s) b (gov s) (lockup_acc s) (distr_acc s) (protected s)
          (force_allowed s) (unbonding s) (sf_assets s) (vals s) (fee s) (fee_denom s) (supplied s) (unpool_allowed s)
          (gamm_shares s) (cl_shares s) (contracts s) (native_meta s).

(* results *)
Inductive err := EAuth | EOther.
Inductive result := Ok | Err (e : err).
Definition res (A : Type) : Type := (A + err)%type.
Notation "'do' x <- e ; f" := (match e with inl x => f | inr e' => inr e' end)
  (at level 200, x pattern, e at level 100, f at level 200, right associativity).

(* unmodelled arithmetic: sizes of objects re-created by the pool code *)
Record env := mkEnv {
  e_liq : Z;                       (* liquidity of a position re-created by AddToPosition / AddToConcentratedLiquiditySuperfluidPosition *)
  e_shares : Z;                    (* concentrated lockup shares minted for the re-created locked position *)
  e_exit : list (Z * Z * list (dk * Z)) }.
      (* UnPoolWhitelistedPool: the sender's locks of the pool's shares in the order the store iterator yields them,
         each with its remaining duration and the coins ExitPool paid for its shares *)

(* ------------------------------------------------------------------------------------------ *)
(* bank                                                                                       *)
(* ------------------------------------------------------------------------------------------ *)

Fixpoint bal_of (b : list (addr * dk * Z)) (a : addr) (d : dk) : Z :=
  match b with
  | [] => 0
  | (a', d', v) :: r => if (a =? a') && dk_eqb d d' then v else bal_of r a d
  end.
Fixpoint bal_set (b : list (addr * dk * Z)) (a : addr) (d : dk) (v : Z) : list (addr * dk * Z) :=
  match b with
  | [] => [(a, d, v)]
  | (a', d', v') :: r => if (a =? a') && dk_eqb d d' then (a', d', v) :: r else (a', d', v') :: bal_set r a d v
  end.
Definition bal_add (b : list (addr * dk * Z)) (a : addr) (d : dk) (v : Z) := bal_set b a d (bal_of b a d + v).

(* bank SendCoins of one coin: fails when the spendable balance is too small *)
Definition send (s : state) (from to : addr) (d : dk) (v : Z) : res state :=
  if bal_of (bals s) from d <? v then inr EOther
  else inl (set_bals s (bal_add (bal_add (bals s) from d (- v)) to d v)).

(* ------------------------------------------------------------------------------------------ *)
(* concentrated liquidity                                                                     *)
(* ------------------------------------------------------------------------------------------ *)

Definition find_pos (s : state) (id : Z) : option position := find (fun p => p_id p =? id) (positions s).
Definition remove_pos (id : Z) (ps : list position) : list position := filter (fun p => negb (p_id p =? id)) ps.
Definition replace_pos (q : position) (ps : list position) : list position :=
  map (fun p => if p_id p =? p_id q then q else p) ps.
Definition pool_count (ps : list position) (pool : Z) : nat := length (filter (fun p => p_pool p =? pool) ps).

(* position.go PositionHasActiveUnderlyingLock: the position is linked to a lock and that lock still exists
   (isLockMature: a lock that is gone - paid out, force-unlocked - no longer binds the position) *)
Definition pos_locked (s : state) (p : position) : bool :=
  negb (p_lock p =? 0) && existsb (fun l => l_id l =? p_lock p) (locks s).

(* lp.go WithdrawPosition *)
Definition withdraw_position (s : state) (owner : addr) (id liq : Z) : res state :=
  match find_pos s id with
  | None => inr EOther                                             (* GetPosition *)
  | Some p =>
    if negb (owner =? p_owner p) then inr EAuth                    (* owner.String() != position.Address *)
    else if liq <? 0 then inr EOther
    else if pos_locked s p then inr EOther                         (* LockNotMatureError *)
    else if p_liq p <? liq then inr EOther                         (* InsufficientLiquidityError *)
    else if liq =? 0 then inr EOther                               (* zero liquidity delta is refused downstream *)
    (* collectIncentives(owner) and UpdatePosition -> validatePositionUpdateById repeat the owner comparison *)
    else if liq =? p_liq p then inl (set_positions s (remove_pos id (positions s)) (next_pos s))
    else inl (set_positions s (replace_pos (mkPos id (p_owner p) (p_pool p) (p_liq p - liq) (p_lock p) (p_full p)) (positions s)) (next_pos s))
  end.

(* lp.go addToPosition *)
Definition add_to_position (e : env) (s : state) (owner : addr) (id a0 a1 : Z) : res state :=
  match find_pos s id with
  | None => inr EOther
  | Some p =>
    if negb (owner =? p_owner p) then inr EAuth
    else if (a0 <? 0) || (a1 <? 0) then inr EOther
    else if (a0 =? 0) && (a1 =? 0) then inr EOther
    else if pos_locked s p then inr EOther                         (* PositionSuperfluidStakedError *)
    else
      do s1 <- withdraw_position s owner id (p_liq p);
      if Nat.eqb (pool_count (positions s1) (p_pool p)) 0 then inr EOther   (* AddToLastPositionInPoolError *)
      else inl (set_positions s1 (positions s1 ++ [mkPos (next_pos s1) owner (p_pool p) (e_liq e) 0 (p_full p)]) (next_pos s1 + 1))
  end.

(* spread_rewards.go collectSpreadRewards / incentives.go collectIncentives: one position *)
Definition collect_one (s : state) (sender : addr) (id : Z) : res state :=
  match find_pos s id with
  | None => inr EOther
  | Some p => if negb (sender =? p_owner p) then inr EAuth else inl s
  end.
Fixpoint collect_all (s : state) (sender : addr) (ids : list Z) : res state :=
  match ids with
  | [] => inl s
  | id :: r => do s1 <- collect_one s sender id; collect_all s1 sender r
  end.

Fixpoint nodupz (l : list Z) : bool :=
  match l with [] => true | x :: r => negb (memz x r) && nodupz r end.

(* position.go transferPositions: one position of the loop *)
Definition transfer_one (s : state) (sender recipient : addr) (id : Z) : res state :=
  let is_gov := sender =? gov s in
  match find_pos s id with
  | None => inr EOther
  | Some p =>
    if negb is_gov && negb (p_owner p =? sender) then inr EAuth    (* PositionOwnerMismatchError *)
    else if pos_locked s p then inr EOther                         (* LockNotMatureError *)
    else if Nat.eqb (pool_count (remove_pos id (positions s)) (p_pool p)) 0 then inr EOther  (* LastPositionTransferError *)
    else inl (set_positions s (replace_pos (mkPos id recipient (p_pool p) (p_liq p) 0 (p_full p)) (positions s)) (next_pos s))
  end.
Fixpoint transfer_all (s : state) (sender recipient : addr) (ids : list Z) : res state :=
  match ids with
  | [] => inl s
  | id :: r => do s1 <- transfer_one s sender recipient id; transfer_all s1 sender recipient r
  end.
Definition transfer_positions (s : state) (sender recipient : addr) (ids : list Z) : res state :=
  if negb (nodupz ids) then inr EOther else transfer_all s sender recipient ids.

(* ------------------------------------------------------------------------------------------ *)
(* lockup                                                                                     *)
(* ------------------------------------------------------------------------------------------ *)

Definition find_lock (s : state) (id : Z) : option lock := find (fun l => l_id l =? id) (locks s).
Definition remove_lock (id : Z) (ls : list lock) : list lock := filter (fun l => negb (l_id l =? id)) ls.
Definition replace_lock (q : lock) (ls : list lock) : list lock :=
  map (fun l => if l_id l =? l_id q then q else l) ls.
Definition has_synth (l : lock) : bool := match l_synth l with SNone => false | _ => true end.

Definition with_amt (l : lock) (a : Z) := mkLock (l_id l) (l_owner l) (l_recv l) (l_denom l) a (l_dur l) (l_unlocking l) (l_synth l) (l_conn l).
Definition with_unlocking (l : lock) (u : bool) := mkLock (l_id l) (l_owner l) (l_recv l) (l_denom l) (l_amt l) (l_dur l) u (l_synth l) (l_conn l).
Definition with_sf (l : lock) (sy : synth) (c : option Z) := mkLock (l_id l) (l_owner l) (l_recv l) (l_denom l) (l_amt l) (l_dur l) (l_unlocking l) sy c.
Definition with_dur (l : lock) (d : Z) := mkLock (l_id l) (l_owner l) (l_recv l) (l_denom l) (l_amt l) d (l_unlocking l) (l_synth l) (l_conn l).
Definition with_recv (l : lock) (r : option addr) := mkLock (l_id l) (l_owner l) r (l_denom l) (l_amt l) (l_dur l) (l_unlocking l) (l_synth l) (l_conn l).

(* sdk Coins.IsAllLTE for a request of at most one coin against a one-coin lock *)
Definition coins_lte (c : option (dk * Z)) (l : lock) : bool :=
  match c with
  | None => true
  | Some (d, a) => a <=? (if dk_eqb d (l_denom l) then l_amt l else 0)
  end.
(* len(coins) != 0 && !coins.Equal(lock.Coins) *)
Definition is_partial (c : option (dk * Z)) (l : lock) : bool :=
  match c with
  | None => false
  | Some (d, a) => negb (dk_eqb d (l_denom l) && (a =? l_amt l))
  end.
Definition coin_amt (c : option (dk * Z)) : Z := match c with None => 0 | Some (_, a) => a end.

(* lock.go SplitLock: the old lock keeps the rest, a new lock (last id + 1) gets the requested coins *)
Definition split_lock (s : state) (l : lock) (c : option (dk * Z)) (force : bool) : res (state * lock) :=
  if negb force && l_unlocking l then inr EOther
  else
    let a := coin_amt c in
    let old := with_amt l (l_amt l - a) in
    let nid := last_lock s + 1 in
    let new := mkLock nid (l_owner l) (l_recv l) (l_denom l) a (l_dur l) (l_unlocking l) SNone None in
    inl (set_locks s (replace_lock old (locks s) ++ [new]) nid, new).

(* lock.go beginUnlock: returns the id of the lock that is now unlocking *)
Definition begin_unlock_core (s : state) (l : lock) (c : option (dk * Z)) : res (state * Z) :=
  if negb (coins_lte c l) then inr EOther
  else if l_unlocking l then inr EOther
  else
    do sl <- (if is_partial c l then split_lock s l c false else inl (s, l));
    let '(s1, l1) := sl in
    inl (set_locks s1 (replace_lock (with_unlocking l1 true) (locks s1)) (last_lock s1), l_id l1).

(* lock.go BeginUnlock (refuses locks with a synthetic lock) / BeginForceUnlock (does not) *)
Definition begin_unlock (s : state) (id : Z) (c : option (dk * Z)) : res (state * Z) :=
  match find_lock s id with
  | None => inr EOther
  | Some l => if has_synth l then inr EOther else begin_unlock_core s l c
  end.
Definition begin_force_unlock (s : state) (id : Z) (c : option (dk * Z)) : res (state * Z) :=
  match find_lock s id with
  | None => inr EOther
  | Some l => begin_unlock_core s l c
  end.

(* msg_server.go BeginUnlocking *)
Definition msg_begin_unlocking (s : state) (sender : addr) (id : Z) (c : option (dk * Z)) : res state :=
  match find_lock s id with
  | None => inr EOther
  | Some l =>
    if negb (sender =? l_owner l) then inr EAuth                   (* msg.Owner != lock.Owner *)
    else do r <- begin_unlock s id c; inl (fst r)
  end.

(* msg_server.go BeginUnlockingAll -> BeginUnlockAllNotUnlockings: every not-unlocking lock of the account *)
Fixpoint begin_unlock_ids (s : state) (ids : list Z) : res state :=
  match ids with
  | [] => inl s
  | id :: r => do x <- begin_unlock s id None; begin_unlock_ids (fst x) r
  end.
Definition own_not_unlocking (s : state) (a : addr) : list Z :=
  map l_id (filter (fun l => (l_owner l =? a) && negb (l_unlocking l)) (locks s)).
Definition msg_begin_unlocking_all (s : state) (sender : addr) : res state :=
  begin_unlock_ids s (own_not_unlocking s sender).

(* lock.go ExtendLockup *)
Definition msg_extend_lockup (s : state) (sender : addr) (id dur : Z) : res state :=
  match find_lock s id with
  | None => inr EOther
  | Some l =>
    if negb (l_owner l =? sender) then inr EAuth                   (* ErrNotLockOwner *)
    else if l_unlocking l then inr EOther
    else if has_synth l then inr EOther
    else if dur =? 0 then inl s
    else if dur <=? l_dur l then inr EOther
    else inl (set_locks s (replace_lock (with_dur l dur) (locks s)) (last_lock s))
  end.

(* lock.go SetLockRewardReceiverAddress *)
Definition msg_set_reward_receiver (s : state) (sender : addr) (id : Z) (recv : addr) : res state :=
  match find_lock s id with
  | None => inr EOther
  | Some l =>
    if negb (l_owner l =? sender) then inr EAuth
    else
      let r := if l_owner l =? recv then None else Some recv in
      if oaddr_eqb (l_recv l) r then inr EOther                    (* ErrRewardReceiverIsSame *)
      else inl (set_locks s (replace_lock (with_recv l r) (locks s)) (last_lock s))
  end.

Definition is_cl_share (s : state) (d : dk) : bool := existsb (fun x => dk_eqb d (fst x)) (cl_shares s).

(* lock.go ForceUnlock: synthetic lock deleted, unlocking started if needed, coins back to the owner
   (concentrated lockup shares are burnt instead), lock deleted *)
Definition force_unlock (s : state) (l : lock) : state :=
  let b := bal_add (bals s) (lockup_acc s) (l_denom l) (- l_amt l) in
  let b' := if is_cl_share s (l_denom l) then b else bal_add b (l_owner l) (l_denom l) (l_amt l) in
  set_bals (set_locks s (remove_lock (l_id l) (locks s)) (last_lock s)) b'.

(* lock.go PartialForceUnlock *)
Definition partial_force_unlock (s : state) (l : lock) (c : option (dk * Z)) : res state :=
  if negb (coins_lte c l) then inr EOther
  else
    do sl <- (if is_partial c l then split_lock s l c true else inl (s, l));
    let '(s1, l1) := sl in inl (force_unlock s1 l1).

(* msg_server.go ForceUnlock *)
Definition msg_force_unlock (s : state) (sender : addr) (id : Z) (c : option (dk * Z)) : res state :=
  match find_lock s id with
  | None => inr EOther
  | Some l =>
    if negb (l_owner l =? sender) then inr EAuth                   (* lock.Owner != msg.Owner *)
    else if negb (existsb (fun a => (a =? l_owner l) && (a =? sender)) (force_allowed s)) then inr EAuth
    else if has_synth l then inr EOther                            (* superfluid delegation exists for lock *)
    else partial_force_unlock s l c
  end.

(* ------------------------------------------------------------------------------------------ *)
(* superfluid                                                                                 *)
(* ------------------------------------------------------------------------------------------ *)

(* stake.go validateLockForSF *)
Definition validate_lock_for_sf (l : lock) (sender : addr) : res unit :=
  if negb (l_owner l =? sender) then inr EAuth else inl tt.

(* stake.go validateLockForSFDelegate *)
Definition validate_lock_for_sf_delegate (s : state) (l : lock) (sender : addr) : res unit :=
  do _ <- validate_lock_for_sf l sender;
  if negb (memdk (l_denom l) (sf_assets s)) then inr EOther
  else if l_unlocking l then inr EOther
  else if l_dur l <? unbonding s then inr EOther
  else if (match l_conn l with Some _ => true | None => false end) || has_synth l then inr EOther   (* alreadySuperfluidStaking *)
  else inl tt.

(* stake.go SuperfluidDelegate *)
Definition sf_delegate (s : state) (sender : addr) (id val : Z) : res state :=
  match find_lock s id with
  | None => inr EOther
  | Some l =>
    do _ <- validate_lock_for_sf_delegate s l sender;
    if negb (memz val (vals s)) then inr EOther                    (* mintOsmoTokensAndDelegate -> validateValAddrForDelegate *)
    else if l_amt l <=? 0 then inr EOther                          (* ErrOsmoEquivalentZeroNotAllowed *)
    else inl (set_locks s (replace_lock (with_sf l SBonded (Some val)) (locks s)) (last_lock s))
  end.

(* stake.go undelegateCommon: returns the validator of the deleted connection *)
Definition undelegate_common (s : state) (sender : addr) (id : Z) : res (state * Z) :=
  match find_lock s id with
  | None => inr EOther
  | Some l =>
    do _ <- validate_lock_for_sf l sender;
    match l_conn l with
    | None => inr EOther                                           (* ErrNotSuperfluidUsedLockup *)
    | Some v =>
      match l_synth l with
      | SBonded => inl (set_locks s (replace_lock (with_sf l SNone None) (locks s)) (last_lock s), v)
      | _ => inr EOther                                            (* DeleteSyntheticLockup of the bonded denom *)
      end
    end
  end.

Definition set_synth (s : state) (id : Z) (sy : synth) : state :=
  match find_lock s id with
  | None => s
  | Some l => set_locks s (replace_lock (with_sf l sy (l_conn l)) (locks s)) (last_lock s)
  end.

(* stake.go SuperfluidUndelegate *)
Definition sf_undelegate (s : state) (sender : addr) (id : Z) : res state :=
  do r <- undelegate_common s sender id;
  inl (set_synth (fst r) id SUnbonding).

(* stake.go unbondLock *)
Definition unbond_lock (s : state) (id : Z) (sender : addr) (c : option (dk * Z)) : res (state * Z) :=
  match find_lock s id with
  | None => inr EOther
  | Some l =>
    do _ <- validate_lock_for_sf l sender;
    match l_synth l with
    | SNone => inr EOther                                          (* ErrNotSuperfluidUsedLockup *)
    | SBonded => inr EOther                                        (* ErrBondingLockupNotSupported *)
    | SUnbonding => begin_force_unlock s id c
    end
  end.

(* stake.go SuperfluidUndelegateAndUnbondLock *)
Definition sf_undelegate_and_unbond (s : state) (sender : addr) (id amt : Z) : res state :=
  match find_lock s id with
  | None => inr EOther
  | Some l =>
    if amt <=? 0 then inr EOther                                   (* zero; a negative amount panics in sdk.NewCoin *)
    else if l_amt l <? amt then inr EOther
    else match l_conn l with
    | None => inr EOther                                           (* ErrNotSuperfluidUsedLockup *)
    | Some v =>
      do s1 <- sf_undelegate s sender id;
      do r <- unbond_lock s1 id sender (Some (l_denom l, amt));
      let '(s2, nid) := r in
      if amt =? l_amt l then inl s2
      else
        let s3 := set_synth s2 id SNone in                         (* delete the unbonding synthetic lock of the old lock *)
        do s4 <- sf_delegate s3 sender id v;                       (* re-delegate the remainder *)
        inl (set_synth s4 nid SUnbonding)
    end
  end.

(* lockup msg_server.go LockTokens, as called by LockAndSuperfluidDelegate (duration = unbonding time) *)
Definition lock_tokens (s : state) (owner : addr) (d : dk) (amt dur : Z) : res (state * Z) :=
  match find (fun l => (l_owner l =? owner) && dk_eqb (l_denom l) d && (l_dur l =? dur) && negb (l_unlocking l)) (locks s) with
  | Some l =>                                                      (* AddToExistingLock -> AddTokensToLockByID *)
    do s1 <- send s owner (lockup_acc s) d amt;
    inl (set_locks s1 (replace_lock (with_amt l (l_amt l + amt)) (locks s1)) (last_lock s1), l_id l)
  | None =>                                                        (* CreateLock *)
    do s1 <- send s owner (lockup_acc s) d amt;
    let nid := last_lock s1 + 1 in
    inl (set_locks s1 (locks s1 ++ [mkLock nid owner None d amt dur false SNone None]) nid, nid)
  end.

(* msg_server.go LockAndSuperfluidDelegate *)
Definition sf_lock_and_delegate (s : state) (sender : addr) (d : dk) (amt val : Z) : res state :=
  if amt <=? 0 then inr EOther
  else
    do r <- lock_tokens s sender d amt (unbonding s);
    sf_delegate (fst r) sender (snd r) val.

(* unpool.go UnpoolAllowedPools for one lock of the sender; [paid] = what ExitPool paid out for its shares *)
Fixpoint lock_and_unlock_each (s : state) (owner : addr) (dur : Z) (paid : list (dk * Z)) : state :=
  match paid with
  | [] => s
  | (d, a) :: r =>
    let nid := last_lock s + 1 in
    lock_and_unlock_each (set_locks s (locks s ++ [mkLock nid owner None d a dur true SNone None]) nid) owner dur r
  end.
Definition unpool_one (s : state) (sender : addr) (share : dk) (id dur : Z) (paid : list (dk * Z)) : res state :=
  match find_lock s id with
  | None => inr EOther
  | Some l =>
    if negb (l_owner l =? sender) then inr EAuth                   (* validateGammLockForSuperfluidStaking *)
    else if negb (dk_eqb (l_denom l) share) then inr EOther
    else
      (* unbondSuperfluidIfExists, then lockup ForceUnlock (deletes whatever synthetic lock is left) *)
      do s1 <- (match l_conn l with
                | Some _ => do r <- undelegate_common s sender id; inl (fst r)
                | None => inl s end);
      let s2 := force_unlock (set_synth s1 id SNone) (with_sf l SNone None) in
      (* ExitPool pays [paid] to the sender, who locks each coin again for the remaining duration and starts unlocking it *)
      inl (lock_and_unlock_each s2 sender dur paid)
  end.
Fixpoint unpool_all (s : state) (sender : addr) (share : dk) (todo : list (Z * Z * list (dk * Z))) : res state :=
  match todo with
  | [] => inl s
  | (id, dur, paid) :: r => do s1 <- unpool_one s sender share id dur paid; unpool_all s1 sender share r
  end.
Definition share_of_pool (s : state) (pool : Z) : option dk :=
  match find (fun x => snd x =? pool) (gamm_shares s) with Some x => Some (fst x) | None => None end.
(* the iteration order comes from [e]; it has to enumerate exactly the sender's locks of that denom *)
Definition is_enumeration (order own : list Z) : bool :=
  nodupz order && (Nat.eqb (length order) (length own)) && forallb (fun i => memz i own) order.
(* msg_server.go UnPoolWhitelistedPool *)
Definition sf_unpool (e : env) (s : state) (sender : addr) (pool : Z) : res state :=
  if negb (memz pool (unpool_allowed s)) then inr EOther           (* checkUnpoolWhitelisted *)
  else match share_of_pool s pool with
  | None => inr EOther
  | Some share =>
    let own := map l_id (filter (fun l => (l_owner l =? sender) && dk_eqb (l_denom l) share) (locks s)) in
    if negb (is_enumeration (map (fun x => fst (fst x)) (e_exit e)) own) then inr EOther
    else unpool_all s sender share (e_exit e)
  end.

Definition pool_of_cl_share (s : state) (d : dk) : option Z :=
  match find (fun x => dk_eqb d (fst x)) (cl_shares s) with Some x => Some (snd x) | None => None end.
Definition cl_share_of_pool (s : state) (pool : Z) : option dk :=
  match find (fun x => snd x =? pool) (cl_shares s) with Some x => Some (fst x) | None => None end.

(* concentrated_liquidity.go addToConcentratedLiquiditySuperfluidPosition *)
Definition sf_add_to_cl_position (e : env) (s : state) (sender : addr) (pid a0 a1 : Z) : res state :=
  match find_pos s pid with
  | None => inr EOther
  | Some p =>
    if (a0 <? 0) || (a1 <? 0) then inr EOther
    else if negb (pos_locked s p) then inr EOther                  (* PositionNotSuperfluidStakedError *)
    else if negb (p_full p) then inr EOther
    else match find_lock s (p_lock p) with
    | None => inr EOther
    | Some l =>
      if negb (l_owner l =? p_owner p) then inr EAuth              (* LockOwnerMismatchError *)
      else if negb (l_owner l =? sender) then inr EAuth            (* LockOwnerMismatchError *)
      else if negb (l_dur l =? unbonding s) || l_unlocking l then inr EOther
      else
        do r <- undelegate_common s sender (l_id l);
        let '(s1, v) := r in
        let s2 := force_unlock s1 (with_sf l SNone None) in
        (* the lock is gone: the position has no active lock any more *)
        let s3 := set_positions s2 (replace_pos (mkPos pid (p_owner p) (p_pool p) (p_liq p) 0 (p_full p)) (positions s2)) (next_pos s2) in
        do s4 <- withdraw_position s3 sender pid (p_liq p);
        if Nat.eqb (pool_count (positions s4) (p_pool p)) 0 then inr EOther
        else match cl_share_of_pool s4 (p_pool p) with
        | None => inr EOther
        | Some share =>
          (* CreateFullRangePositionLocked, then SuperfluidDelegate to the same validator *)
          let nl := last_lock s4 + 1 in
          let s5 := set_positions s4 (positions s4 ++ [mkPos (next_pos s4) sender (p_pool p) (e_liq e) nl true]) (next_pos s4 + 1) in
          let s6 := set_locks s5 (locks s5 ++ [mkLock nl sender None share (e_shares e) (unbonding s) false SNone None]) nl in
          let s7 := set_bals s6 (bal_add (bals s6) (lockup_acc s6) share (e_shares e)) in
          sf_delegate s7 sender nl v
        end
    end
  end.

Definition is_gamm_share (s : state) (d : dk) : bool := existsb (fun x => dk_eqb d (fst x)) (gamm_shares s).

(* stake.go UnbondConvertAndStake *)
Definition sf_unbond_convert_and_stake (s : state) (sender : addr) (id val : Z) (d : dk) (amt : Z) : res state :=
  if id <=? 0 then
    (* migration type Unlocked: convertUnlockedToStake on the sender's own liquid shares *)
    if negb (is_gamm_share s d) then inr EOther
    else if amt <=? 0 then inr EOther
    else if bal_of (bals s) sender d <? amt then inr EOther
    else if negb (memz val (vals s)) then inr EOther
    else inl (set_bals s (bal_add (bals s) sender d (- amt)))
  else
    do s1 <- (match find_lock s id with
              | Some l => match l_synth l with
                          | SBonded => do r <- undelegate_common s sender id; inl (fst r)
                          | _ => inl s end
              | None => inl s end);
    (* convertLockToStake *)
    match find_lock s1 id with
    | None => inr EOther
    | Some l =>
      if negb (l_owner l =? sender) then inr EAuth                 (* LockOwnerMismatchError *)
      else if negb (is_gamm_share s1 (l_denom l)) then inr EOther  (* SharesToMigrateDenomPrefixError *)
      else
        let s2 := force_unlock (set_synth s1 id SNone) (with_sf l SNone None) in
        (* ExitPool burns the shares the owner just got back; the proceeds are swapped and delegated *)
        if negb (memz val (vals s2)) then inr EOther
        else inl (set_bals s2 (bal_add (bals s2) sender (l_denom l) (- l_amt l)))
    end.

(* ------------------------------------------------------------------------------------------ *)
(* tokenfactory                                                                               *)
(* ------------------------------------------------------------------------------------------ *)

Definition find_denom (s : state) (d : dk) : option denom :=
  match d with
  | DFactory c sub => find (fun x => (d_creator x =? c) && (d_sub x =? sub)) (denoms s)
  | DNative _ => None
  end.
(* admins.go GetAuthorityMetadata(denom).Admin: empty for anything that has no record *)
Definition admin_of (s : state) (d : dk) : option addr :=
  match find_denom s d with Some x => d_admin x | None => None end.
Definition is_admin (s : state) (d : dk) (sender : addr) : bool := oaddr_eqb (Some sender) (admin_of s d).
(* types.DeconstructDenom succeeds exactly on factory/{address}/{sub} *)
Definition is_factory (d : dk) : bool := match d with DFactory _ _ => true | DNative _ => false end.
Definition is_module_acc (s : state) (a : addr) : bool := memz a (protected s).
Definition has_metadata (s : state) (d : dk) : bool :=
  match d with
  | DFactory _ _ => match find_denom s d with Some _ => true | None => false end
  | DNative n => memz n (native_meta s)
  end.
Definition replace_denom (q : denom) (ds : list denom) : list denom :=
  map (fun x => if (d_creator x =? d_creator q) && (d_sub x =? d_sub q) then q else x) ds.

(* createdenom.go CreateDenom; [wf] = GetTokenDenom accepts (sender, subdenom) *)
Definition tf_create_denom (s : state) (sender : addr) (sub : Z) (wf : bool) : res state :=
  if memz sub (supplied s) then inr EOther                         (* bankKeeper.HasSupply(subdenom) *)
  else if negb wf then inr EOther
  else match find_denom s (DFactory sender sub) with
  | Some _ => inr EOther                                           (* ErrDenomExists *)
  | None =>
    do s1 <- (if fee s =? 0 then inl s else send s sender (distr_acc s) (fee_denom s) (fee s));   (* FundCommunityPool *)
    inl (set_denoms s1 (denoms s1 ++ [mkDenom sender sub (Some sender) None 0]))
  end.

(* msg_server.go Mint + bankactions.go mintTo *)
Definition tf_mint (s : state) (sender : addr) (d : dk) (amt : Z) (to : option addr) : res state :=
  if negb (has_metadata s d) then inr EOther                       (* ErrDenomDoesNotExist (no bank metadata) *)
  else if negb (is_admin s d sender) then inr EAuth
  else
    let dest := match to with Some a => a | None => sender end in
    if negb (is_factory d) then inr EOther
    else if is_module_acc s dest then inr EOther                   (* ErrMintToModuleAccount *)
    else if amt <? 0 then inr EOther                               (* a negative coin panics in sdk.NewCoins *)
    else inl (set_bals s (bal_add (bals s) dest d amt)).

(* msg_server.go Burn + bankactions.go burnFrom. The msg-server guard on module accounts converts the bech32 text
   of the address to bytes and never matches an account; the effective guard is burnFrom's IsModuleAcc *)
Definition tf_burn (s : state) (sender : addr) (d : dk) (amt : Z) (from : option addr) : res state :=
  if negb (is_admin s d sender) then inr EAuth
  else
    let src := match from with Some a => a | None => sender end in
    if negb (is_factory d) then inr EOther
    else if is_module_acc s src then inr EOther                    (* ErrBurnFromModuleAccount *)
    else if amt <? 0 then inr EOther
    else if bal_of (bals s) src d <? amt then inr EOther
    else inl (set_bals s (bal_add (bals s) src d (- amt))).

(* msg_server.go ForceTransfer + bankactions.go forceTransfer *)
Definition tf_force_transfer (s : state) (sender : addr) (d : dk) (amt : Z) (from to : addr) : res state :=
  if negb (is_admin s d sender) then inr EAuth
  else if negb (is_factory d) then inr EOther
  else if is_module_acc s from then inr EOther                     (* send from module acc not available *)
  else if is_module_acc s to then inr EOther                       (* send to module acc not available *)
  else if amt <? 0 then inr EOther
  else send s from to d amt.

(* msg_server.go ChangeAdmin + admins.go setAdmin *)
Definition tf_change_admin (s : state) (sender : addr) (d : dk) (new : option addr) : res state :=
  if negb (is_admin s d sender) then inr EAuth
  else match find_denom s d with
  | None => inr EOther
  | Some x => inl (set_denoms s (replace_denom (mkDenom (d_creator x) (d_sub x) new (d_hook x) (d_desc x)) (denoms s)))
  end.

(* msg_server.go SetDenomMetadata; [valid] = msg.Metadata.Validate() *)
Definition tf_set_metadata (s : state) (sender : addr) (d : dk) (valid : bool) (desc : Z) : res state :=
  if negb valid then inr EOther
  else if negb (is_admin s d sender) then inr EAuth
  else match find_denom s d with
  | None => inr EOther
  | Some x => inl (set_denoms s (replace_denom (mkDenom (d_creator x) (d_sub x) (d_admin x) (d_hook x) desc) (denoms s)))
  end.

(* msg_server.go SetBeforeSendHook + before_send.go setBeforeSendHook *)
Definition tf_set_hook (s : state) (sender : addr) (d : dk) (hook : option addr) : res state :=
  if negb (is_admin s d sender) then inr EAuth
  else if negb (is_factory d) then inr EOther
  else match find_denom s d with
  | None => inr EOther
  | Some x =>
    match hook with
    | Some c => if negb (memz c (contracts s)) then inr EOther     (* "no such contract" *)
                else inl (set_denoms s (replace_denom (mkDenom (d_creator x) (d_sub x) (d_admin x) hook (d_desc x)) (denoms s)))
    | None => inl (set_denoms s (replace_denom (mkDenom (d_creator x) (d_sub x) (d_admin x) None (d_desc x)) (denoms s)))
    end
  end.

(* ------------------------------------------------------------------------------------------ *)
(* messages, dispatch, baseapp's atomic wrapper                                               *)
(* ------------------------------------------------------------------------------------------ *)

Inductive msg :=
  (* concentrated liquidity *)
  | MWithdrawPosition (id liq : Z)
  | MAddToPosition (id a0 a1 : Z)
  | MTransferPositions (ids : list Z) (new_owner : addr)
  | MCollectSpreadRewards (ids : list Z)
  | MCollectIncentives (ids : list Z)
  (* lockup *)
  | MBeginUnlocking (id : Z) (coins : option (dk * Z))
  | MBeginUnlockingAll
  | MExtendLockup (id dur : Z)
  | MSetRewardReceiverAddress (id : Z) (recv : addr)
  | MForceUnlock (id : Z) (coins : option (dk * Z))
  (* superfluid *)
  | MSuperfluidDelegate (id val : Z)
  | MSuperfluidUndelegate (id : Z)
  | MSuperfluidUnbondLock (id : Z)
  | MSuperfluidUndelegateAndUnbondLock (id amt : Z)
  | MLockAndSuperfluidDelegate (d : dk) (amt val : Z)
  | MUnPoolWhitelistedPool (pool : Z)
  | MUnlockAndMigrateSharesToFullRangeConcentratedPosition (id : Z)
  | MAddToConcentratedLiquiditySuperfluidPosition (pid a0 a1 : Z)
  | MUnbondConvertAndStake (id val : Z) (d : dk) (amt : Z)
  (* tokenfactory *)
  | MCreateDenom (sub : Z) (wf : bool)
  | MMint (d : dk) (amt : Z) (to : option addr)
  | MBurn (d : dk) (amt : Z) (from : option addr)
  | MForceTransfer (d : dk) (amt : Z) (from to : addr)
  | MChangeAdmin (d : dk) (new : option addr)
  | MSetDenomMetadata (d : dk) (valid : bool) (desc : Z)
  | MSetBeforeSendHook (d : dk) (hook : option addr).

Definition handle (e : env) (s : state) (sender : addr) (m : msg) : res state :=
  match m with
  | MWithdrawPosition id liq => withdraw_position s sender id liq
  | MAddToPosition id a0 a1 => add_to_position e s sender id a0 a1
  | MTransferPositions ids new_owner => transfer_positions s sender new_owner ids
  | MCollectSpreadRewards ids => collect_all s sender ids
  | MCollectIncentives ids => collect_all s sender ids
  | MBeginUnlocking id c => msg_begin_unlocking s sender id c
  | MBeginUnlockingAll => msg_begin_unlocking_all s sender
  | MExtendLockup id dur => msg_extend_lockup s sender id dur
  | MSetRewardReceiverAddress id recv => msg_set_reward_receiver s sender id recv
  | MForceUnlock id c => msg_force_unlock s sender id c
  | MSuperfluidDelegate id val => sf_delegate s sender id val
  | MSuperfluidUndelegate id => sf_undelegate s sender id
  | MSuperfluidUnbondLock id => do r <- unbond_lock s id sender None; inl (fst r)
  | MSuperfluidUndelegateAndUnbondLock id amt => sf_undelegate_and_unbond s sender id amt
  | MLockAndSuperfluidDelegate d amt val => sf_lock_and_delegate s sender d amt val
  | MUnPoolWhitelistedPool pool => sf_unpool e s sender pool
  | MUnlockAndMigrateSharesToFullRangeConcentratedPosition _ => inr EOther   (* "no longer supported" *)
  | MAddToConcentratedLiquiditySuperfluidPosition pid a0 a1 => sf_add_to_cl_position e s sender pid a0 a1
  | MUnbondConvertAndStake id val d amt => sf_unbond_convert_and_stake s sender id val d amt
  | MCreateDenom sub wf => tf_create_denom s sender sub wf
  | MMint d amt to => tf_mint s sender d amt to
  | MBurn d amt from => tf_burn s sender d amt from
  | MForceTransfer d amt from to => tf_force_transfer s sender d amt from to
  | MChangeAdmin d new => tf_change_admin s sender d new
  | MSetDenomMetadata d valid desc => tf_set_metadata s sender d valid desc
  | MSetBeforeSendHook d hook => tf_set_hook s sender d hook
  end.

(* baseapp runMsgs: the handler runs on a cache of the state that is written back only on success *)
Definition step (e : env) (s : state) (sender : addr) (m : msg) : state * result :=
  match handle e s sender m with
  | inl s' => (s', Ok)
  | inr x => (s, Err x)
  end.

(* ------------------------------------------------------------------------------------------ *)
(* who may send what: the set of authorised senders of a message in a state                   *)
(* ------------------------------------------------------------------------------------------ *)

Definition owns_pos (s : state) (a : addr) (id : Z) : bool :=
  match find_pos s id with Some p => p_owner p =? a | None => false end.
Definition owns_lock (s : state) (a : addr) (id : Z) : bool :=
  match find_lock s id with Some l => l_owner l =? a | None => false end.

Definition authorised (s : state) (m : msg) (sender : addr) : bool :=
  match m with
  | MWithdrawPosition id _ | MAddToPosition id _ _ => owns_pos s sender id
  | MCollectSpreadRewards ids | MCollectIncentives ids => forallb (owns_pos s sender) ids
  | MTransferPositions ids _ => (sender =? gov s) || forallb (owns_pos s sender) ids   (* owner, or the governance module account *)
  | MBeginUnlocking id _ | MExtendLockup id _ | MSetRewardReceiverAddress id _ => owns_lock s sender id
  | MForceUnlock id _ => owns_lock s sender id && memz sender (force_allowed s)       (* owner AND on the allow list *)
  | MSuperfluidDelegate id _ | MSuperfluidUndelegate id | MSuperfluidUnbondLock id
  | MSuperfluidUndelegateAndUnbondLock id _ => owns_lock s sender id
  | MUnbondConvertAndStake id _ _ _ => if id <=? 0 then true else owns_lock s sender id
  | MAddToConcentratedLiquiditySuperfluidPosition pid _ _ =>
      match find_pos s pid with
      | Some p => (p_owner p =? sender) && owns_lock s sender (p_lock p)
      | None => false
      end
  | MUnlockAndMigrateSharesToFullRangeConcentratedPosition _ => false                  (* switched off for everybody *)
  (* these address no object by id: they act on the sender's own locks / namespace *)
  | MBeginUnlockingAll | MLockAndSuperfluidDelegate _ _ _ | MUnPoolWhitelistedPool _ | MCreateDenom _ _ => true
  | MMint d _ _ | MBurn d _ _ | MForceTransfer d _ _ _ | MChangeAdmin d _ | MSetDenomMetadata d _ _
  | MSetBeforeSendHook d _ => is_admin s d sender
  end.
