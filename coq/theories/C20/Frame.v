(* C20 - frame: an accepted message touches only what belongs to its sender.

   For every message the chain accepts from [a]: every position / lock / denom record that is not [a]'s is, after the
   message, exactly what it was before, and every record that is not [a]'s afterwards was there before, identically -
   so nothing of anybody else's is altered, removed, created or handed over. The one documented exception is
   TransferPositions sent by the governance module account. Object ids are looked up with [find], as the handlers do;
   the statements need the id discipline of reachable states (ids below the counters), which every step preserves. *)
From Coq Require Import ZArith List Bool Lia Arith.
Import ListNotations.
From Osmo Require Import C20.Model C20.Proofs.
Open Scope Z_scope.

(* ------------------------------------------------------------------------------------------ *)
(* what a handler leaves alone                                                                 *)
(* ------------------------------------------------------------------------------------------ *)

Definition cfg (s : state) :=
  (gov s, lockup_acc s, distr_acc s, protected s, force_allowed s, unbonding s, sf_assets s, vals s,
   (fee s, fee_denom s, supplied s, unpool_allowed s, gamm_shares s, cl_shares s, contracts s, native_meta s)).

Definition same_pos (s s' : state) : Prop := positions s' = positions s /\ next_pos s' = next_pos s.
Definition same_locks (s s' : state) : Prop := locks s' = locks s /\ last_lock s' = last_lock s.
Definition same_denoms (s s' : state) : Prop := denoms s' = denoms s.
Definition same_cfg (s s' : state) : Prop := cfg s' = cfg s.

(* id discipline of reachable states *)
Definition wf (s : state) : Prop :=
  (forall l, In l (locks s) -> l_id l <= last_lock s) /\ NoDup (map l_id (locks s)) /\
  (forall p, In p (positions s) -> p_id p < next_pos s).

(* the part of the tables that is not [a]'s is the same function of the id before and after *)
Definition lock_rel (a : addr) (s s' : state) : Prop :=
  (forall id l, find_lock s id = Some l -> l_owner l <> a -> find_lock s' id = Some l) /\
  (forall id l, find_lock s' id = Some l -> l_owner l <> a -> find_lock s id = Some l).
Definition pos_rel (a : addr) (s s' : state) : Prop :=
  (forall id p, find_pos s id = Some p -> p_owner p <> a -> find_pos s' id = Some p) /\
  (forall id p, find_pos s' id = Some p -> p_owner p <> a -> find_pos s id = Some p).
Definition denom_rel (a : addr) (s s' : state) : Prop :=
  (forall d x, find_denom s d = Some x -> d_admin x <> Some a -> find_denom s' d = Some x) /\
  (forall d x, find_denom s' d = Some x -> d_admin x <> Some a -> find_denom s d = Some x) /\
  (forall c sub x, find_denom s' (DFactory c sub) = Some x -> find_denom s (DFactory c sub) = None -> c = a).

Lemma lock_rel_refl a s : lock_rel a s s.
Proof. split; auto. Qed.
Lemma lock_rel_trans a s1 s2 s3 : lock_rel a s1 s2 -> lock_rel a s2 s3 -> lock_rel a s1 s3.
Proof. intros [A B] [C D]. split; intros; auto. Qed.
Lemma lock_rel_same a s s' : same_locks s s' -> lock_rel a s s'.
Proof. intros [H _]. unfold lock_rel, find_lock. rewrite H. split; auto. Qed.
Lemma pos_rel_refl a s : pos_rel a s s.
Proof. split; auto. Qed.
Lemma pos_rel_trans a s1 s2 s3 : pos_rel a s1 s2 -> pos_rel a s2 s3 -> pos_rel a s1 s3.
Proof. intros [A B] [C D]. split; intros; auto. Qed.
Lemma pos_rel_same a s s' : same_pos s s' -> pos_rel a s s'.
Proof. intros [H _]. unfold pos_rel, find_pos. rewrite H. split; auto. Qed.
Lemma denom_rel_same a s s' : same_denoms s s' -> denom_rel a s s'.
Proof.
  intros H. unfold denom_rel, find_denom. rewrite H. repeat split; auto.
  intros c sub x H1 H2. congruence.
Qed.

(* ------------------------------------------------------------------------------------------ *)
(* list facts: find after replace / remove / append                                            *)
(* ------------------------------------------------------------------------------------------ *)

Section Lists.
  Context {A : Type} (key : A -> Z).

  Definition findk (id : Z) (l : list A) := find (fun x => key x =? id) l.
  Definition replacek (q : A) (l : list A) := map (fun x => if key x =? key q then q else x) l.
  Definition removek (id : Z) (l : list A) := filter (fun x => negb (key x =? id)) l.

  Lemma findk_key id l x : findk id l = Some x -> key x = id.
  Proof. unfold findk. intros H. apply find_some in H. apply Z.eqb_eq. tauto. Qed.

  Lemma findk_in id l x : findk id l = Some x -> In x l.
  Proof. unfold findk. intros H. apply find_some in H. tauto. Qed.

  Lemma findk_none id l : (forall x, In x l -> key x <> id) -> findk id l = None.
  Proof.
    induction l as [|y r IH]; intros H; [reflexivity|]. cbn.
    assert (key y =? id = false) as -> by (apply Z.eqb_neq, H; left; reflexivity).
    apply IH. intros x Hx. apply H. right; exact Hx.
  Qed.

  Lemma findk_replace_other q l id : key q <> id -> findk id (replacek q l) = findk id l.
  Proof.
    intros Hne. induction l as [|y r IH]; [reflexivity|]. cbn.
    destruct (key y =? key q) eqn:E.
    - apply Z.eqb_eq in E.
      assert (key q =? id = false) as -> by (apply Z.eqb_neq; exact Hne).
      assert (key y =? id = false) as -> by (apply Z.eqb_neq; congruence). exact IH.
    - destruct (key y =? id); [reflexivity|exact IH].
  Qed.

  Lemma findk_replace_same q l x : findk (key q) l = Some x -> findk (key q) (replacek q l) = Some q.
  Proof.
    induction l as [|y r IH]; [discriminate|]. cbn.
    destruct (key y =? key q) eqn:E; [rewrite Z.eqb_refl; reflexivity|]. rewrite E. exact IH.
  Qed.

  Lemma findk_replace_same_none q l : findk (key q) l = None -> findk (key q) (replacek q l) = None.
  Proof.
    induction l as [|y r IH]; [reflexivity|]. cbn.
    destruct (key y =? key q) eqn:E; [discriminate|]. rewrite E. exact IH.
  Qed.

  Lemma findk_remove_other id id' l : id' <> id -> findk id' (removek id l) = findk id' l.
  Proof.
    intros Hne. induction l as [|y r IH]; [reflexivity|]. cbn.
    destruct (key y =? id) eqn:E; cbn.
    - apply Z.eqb_eq in E. assert (key y =? id' = false) as -> by (apply Z.eqb_neq; congruence). exact IH.
    - destruct (key y =? id'); [reflexivity|exact IH].
  Qed.

  Lemma findk_remove_same id l : findk id (removek id l) = None.
  Proof.
    induction l as [|y r IH]; [reflexivity|]. cbn.
    destruct (key y =? id) eqn:E; cbn; [exact IH|]. rewrite E. exact IH.
  Qed.

  Lemma findk_app id l n : findk id (l ++ [n]) = match findk id l with Some x => Some x | None => if key n =? id then Some n else None end.
  Proof.
    induction l as [|y r IH]; cbn; [destruct (key n =? id); reflexivity|].
    destruct (key y =? id); [reflexivity|exact IH].
  Qed.

  Lemma in_replacek q l x : In x (replacek q l) -> x = q \/ In x l.
  Proof.
    induction l as [|y r IH]; cbn; [tauto|]. intros [H|H].
    - destruct (key y =? key q); [left; auto|right; left; exact H].
    - destruct (IH H); auto.
  Qed.

  Lemma in_removek id l x : In x (removek id l) -> In x l.
  Proof. unfold removek. intros H. apply filter_In in H. tauto. Qed.
End Lists.

Lemma find_lock_k s id : find_lock s id = findk l_id id (locks s).
Proof. reflexivity. Qed.
Lemma find_pos_k s id : find_pos s id = findk p_id id (positions s).
Proof. reflexivity. Qed.
Lemma replace_lock_k q ls : replace_lock q ls = replacek l_id q ls.
Proof. reflexivity. Qed.
Lemma replace_pos_k q ls : replace_pos q ls = replacek p_id q ls.
Proof. reflexivity. Qed.
Lemma remove_lock_k id ls : remove_lock id ls = removek l_id id ls.
Proof. reflexivity. Qed.
Lemma remove_pos_k id ls : remove_pos id ls = removek p_id id ls.
Proof. reflexivity. Qed.

(* ------------------------------------------------------------------------------------------ *)
(* lock-table steps                                                                            *)
(* ------------------------------------------------------------------------------------------ *)

(* what every handler of the lock table does for its caller [a] *)
Definition L (a : addr) (s s' : state) : Prop :=
  lock_rel a s s' /\ wf s' /\ same_pos s s' /\ same_denoms s s' /\ same_cfg s s'.

Lemma L_refl a s : wf s -> L a s s.
Proof. intros H. split; [apply lock_rel_refl|]. split; [exact H|]. repeat split. Qed.

Lemma NoDup_app_one (l : list Z) x : NoDup l -> ~ In x l -> NoDup (l ++ [x]).
Proof.
  induction l as [|y r IH]; cbn; intros Hnd Hni; [constructor; [tauto|constructor]|].
  inversion Hnd as [|? ? Hy Hr]; subst. constructor.
  - intros Hin. apply in_app_or in Hin. destruct Hin as [Hin|[->|[]]]; [tauto|]. apply Hni. left; reflexivity.
  - apply IH; [exact Hr|]. intros Hin. apply Hni. right; exact Hin.
Qed.

Lemma L_trans a s1 s2 s3 : L a s1 s2 -> L a s2 s3 -> L a s1 s3.
Proof.
  intros (A1 & A2 & [A3 A3'] & A4 & A5) (B1 & B2 & [B3 B3'] & B4 & B5).
  split; [eapply lock_rel_trans; eauto|]. split; [assumption|].
  unfold same_pos, same_denoms, same_cfg in *. repeat split; congruence.
Qed.

Lemma L_wf a s s' : L a s s' -> wf s'.
Proof. intros H. apply H. Qed.

(* the lock found under [id], if any, belongs to [a] *)
Definition mine (a : addr) (s : state) (id : Z) : Prop := forall l, find_lock s id = Some l -> l_owner l = a.

Lemma mine_step a s s' id : mine a s id -> lock_rel a s s' -> mine a s' id.
Proof.
  intros Hm [_ Hb] l Hl. destruct (Z.eq_dec (l_owner l) a) as [E|E]; [exact E|].
  apply Hb in Hl; [|exact E]. apply Hm in Hl. contradiction.
Qed.

Lemma mine_L a s s' id : mine a s id -> L a s s' -> mine a s' id.
Proof. intros Hm HL. eapply mine_step; [exact Hm|apply HL]. Qed.

Lemma mine_found a s id l : find_lock s id = Some l -> l_owner l = a -> mine a s id.
Proof. intros H Ho l' H'. congruence. Qed.

Lemma nodup_find (ls : list lock) l : NoDup (map l_id ls) -> In l ls -> findk l_id (l_id l) ls = Some l.
Proof.
  induction ls as [|y r IH]; cbn; [tauto|]. intros Hnd [->|Hin]; [rewrite Z.eqb_refl; reflexivity|].
  inversion Hnd as [|? ? Hni Hnd']; subst.
  destruct (l_id y =? l_id l) eqn:E; [|apply IH; assumption].
  apply Z.eqb_eq in E. exfalso. apply Hni. rewrite E. apply in_map. exact Hin.
Qed.

Lemma map_key_replacek {A} (key : A -> Z) q l : map key (replacek key q l) = map key l.
Proof.
  induction l as [|y r IH]; [reflexivity|]. unfold replacek in *. cbn [map]. rewrite IH.
  destruct (key y =? key q) eqn:E; [apply Z.eqb_eq in E; congruence|reflexivity].
Qed.

Lemma nodup_removek {A} (key : A -> Z) id l : NoDup (map key l) -> NoDup (map key (removek key id l)).
Proof.
  induction l as [|y r IH]; cbn; [auto|]. intros H. inversion H as [|? ? Hni Hnd]; subst.
  destruct (key y =? id); cbn; [auto|]. constructor; [|auto].
  intros Hin. apply Hni. apply in_map_iff in Hin. destruct Hin as [x [Hx Hin]]. apply in_removek in Hin.
  rewrite <- Hx. apply in_map. exact Hin.
Qed.

Lemma fl_set s X n id : find_lock (set_locks s X n) id = findk l_id id X.
Proof. reflexivity. Qed.

(* P1: the lock of [a] found under an id is replaced by another lock of [a] with that id *)
Lemma lk_replace a s q l :
  wf s -> find_lock s (l_id q) = Some l -> l_owner l = a -> l_owner q = a ->
  L a s (set_locks s (replace_lock q (locks s)) (last_lock s)) /\
  find_lock (set_locks s (replace_lock q (locks s)) (last_lock s)) (l_id q) = Some q.
Proof.
  intros (W1 & W2 & W3) Hf Ho Hq. rewrite find_lock_k in Hf.
  assert (Hfq : findk l_id (l_id q) (replacek l_id q (locks s)) = Some q)
    by (apply (findk_replace_same l_id q _ l); exact Hf).
  split; [|rewrite fl_set, replace_lock_k; exact Hfq]. split; [split|].
  - intros id l0 H0 Hn. rewrite fl_set, replace_lock_k. rewrite find_lock_k in H0.
    rewrite (findk_replace_other l_id); [exact H0|]. intros E. rewrite <- E in H0. congruence.
  - intros id l0 H0 Hn. rewrite fl_set, replace_lock_k in H0. rewrite find_lock_k.
    destruct (Z.eq_dec (l_id q) id) as [E|Hne].
    + rewrite <- E in H0. congruence.
    + rewrite (findk_replace_other l_id) in H0 by exact Hne. exact H0.
  - split; [|repeat split; reflexivity].
    unfold wf. cbn [locks set_locks positions last_lock next_pos]. rewrite replace_lock_k. split; [|split; [|exact W3]].
    + intros x Hx. apply in_replacek in Hx. destruct Hx as [->|Hx]; [|auto].
      pose proof (findk_in l_id _ _ _ Hf) as Hin. pose proof (findk_key l_id _ _ _ Hf) as Hk.
      rewrite <- Hk. apply W1. exact Hin.
    + rewrite map_key_replacek. exact W2.
Qed.

(* P2: the lock of [a] found under an id is removed *)
Lemma lk_remove a s id :
  wf s -> mine a s id -> L a s (set_locks s (remove_lock id (locks s)) (last_lock s)).
Proof.
  intros (W1 & W2 & W3) Hm. split; [split|].
  - intros id' l0 H0 Hn. rewrite fl_set, remove_lock_k. rewrite (findk_remove_other l_id); [exact H0|].
    intros ->. apply Hm in H0. contradiction.
  - intros id' l0 H0 Hn. rewrite fl_set, remove_lock_k in H0. rewrite find_lock_k.
    destruct (Z.eq_dec id' id) as [->|Hne]; [rewrite (findk_remove_same l_id) in H0; discriminate|].
    rewrite (findk_remove_other l_id) in H0 by exact Hne. exact H0.
  - split; [|repeat split; reflexivity].
    unfold wf. cbn [locks set_locks positions last_lock next_pos]. rewrite remove_lock_k. split; [|split; [|exact W3]].
    + intros x Hx. apply in_removek in Hx. auto.
    + apply nodup_removek. exact W2.
Qed.

(* P3: a new lock of [a] gets the next id *)
Lemma lk_append a s n :
  wf s -> l_owner n = a -> l_id n = last_lock s + 1 ->
  L a s (set_locks s (locks s ++ [n]) (last_lock s + 1)) /\
  find_lock (set_locks s (locks s ++ [n]) (last_lock s + 1)) (l_id n) = Some n.
Proof.
  intros (W1 & W2 & W3) Ho Hid.
  assert (Hnone : forall id, last_lock s < id -> findk l_id id (locks s) = None).
  { intros id Hlt. apply findk_none. intros x Hx E. apply W1 in Hx. lia. }
  split; [split; [split|]|].
  - intros id l0 H0 Hn. rewrite fl_set, (findk_app l_id). rewrite find_lock_k in H0. rewrite H0. reflexivity.
  - intros id l0 H0 Hn. rewrite fl_set, (findk_app l_id) in H0. rewrite find_lock_k.
    destruct (findk l_id id (locks s)); [exact H0|]. destruct (l_id n =? id); [|discriminate].
    injection H0 as <-. contradiction.
  - split; [|repeat split; reflexivity].
    unfold wf. cbn [locks set_locks positions last_lock next_pos]. split; [|split; [|exact W3]].
    + intros x Hx. apply in_app_or in Hx. destruct Hx as [Hx|[<-|[]]]; [apply W1 in Hx; lia|lia].
    + rewrite map_app. cbn. apply NoDup_app_one; [exact W2|].
      intros Hin. apply in_map_iff in Hin. destruct Hin as [x [Hx Hin]]. apply W1 in Hin. lia.
  - rewrite fl_set, (findk_app l_id). rewrite Hnone by lia. rewrite Z.eqb_refl. reflexivity.
Qed.

Ltac zeq := repeat match goal with
  | H : negb _ = false |- _ => apply negb_false_iff in H
  | H : negb _ = true |- _ => apply negb_true_iff in H
  | H : (_ =? _) = true |- _ => apply Z.eqb_eq in H
  | H : (_ && _) = true |- _ => apply andb_true_iff in H; destruct H
  end.

Lemma L_set_bals a s b : wf s -> L a s (set_bals s b).
Proof. intros H. split; [apply lock_rel_same; split; reflexivity|]. split; [exact H|]. repeat split. Qed.

Lemma send_L a s from to d v s' : wf s -> send s from to d v = inl s' -> L a s s'.
Proof. unfold send. intros W H. break_if_in H; [discriminate|]. injection H as <-. apply L_set_bals, W. Qed.

Lemma split_lock_L a s l c force s1 n :
  wf s -> find_lock s (l_id l) = Some l -> l_owner l = a ->
  split_lock s l c force = inl (s1, n) ->
  L a s s1 /\ find_lock s1 (l_id n) = Some n /\ l_owner n = a.
Proof.
  intros W Hf Ho H. unfold split_lock in H. break_if_in H; [discriminate|]. injection H as <- <-.
  set (old := with_amt l (l_amt l - coin_amt c)).
  destruct (lk_replace a s old l W Hf Ho Ho) as [L1 _].
  set (s0 := set_locks s (replace_lock old (locks s)) (last_lock s)) in *.
  set (new := mkLock (last_lock s + 1) (l_owner l) (l_recv l) (l_denom l) (coin_amt c) (l_dur l) (l_unlocking l) SNone None).
  destruct (lk_append a s0 new (L_wf _ _ _ L1) Ho eq_refl) as [L2 F2].
  split; [eapply L_trans; [exact L1|exact L2]|]. split; [exact F2|exact Ho].
Qed.

Lemma begin_unlock_core_L a s l c s' id' :
  wf s -> find_lock s (l_id l) = Some l -> l_owner l = a ->
  begin_unlock_core s l c = inl (s', id') -> L a s s'.
Proof.
  intros W Hf Ho H. unfold begin_unlock_core in H. ok_path H.
  destruct (is_partial c l).
  - destruct (split_lock s l c false) as [[s1 l1]|] eqn:S; [|discriminate]. injection H as <- <-.
    destruct (split_lock_L a _ _ _ _ _ _ W Hf Ho S) as (L1 & F1 & O1).
    destruct (lk_replace a s1 (with_unlocking l1 true) l1 (L_wf _ _ _ L1) F1 O1 O1) as [L2 _].
    eapply L_trans; eassumption.
  - injection H as <- <-.
    destruct (lk_replace a s (with_unlocking l true) l W Hf Ho Ho) as [L2 _]. exact L2.
Qed.

Lemma find_lock_id' s id l : find_lock s id = Some l -> find_lock s (l_id l) = Some l.
Proof. intros H. rewrite (find_lock_id _ _ _ H). exact H. Qed.

Lemma begin_unlock_L a s id c s' id' : wf s -> mine a s id -> begin_unlock s id c = inl (s', id') -> L a s s'.
Proof.
  intros W Hm H. unfold begin_unlock in H. destruct (find_lock s id) as [l|] eqn:F; [|discriminate].
  break_if_in H; [discriminate|]. eapply begin_unlock_core_L; eauto using find_lock_id'.
Qed.

Lemma begin_force_unlock_L a s id c s' id' : wf s -> mine a s id -> begin_force_unlock s id c = inl (s', id') -> L a s s'.
Proof.
  intros W Hm H. unfold begin_force_unlock in H. destruct (find_lock s id) as [l|] eqn:F; [|discriminate].
  eapply begin_unlock_core_L; eauto using find_lock_id'.
Qed.

Lemma msg_begin_unlocking_L a s id c s' : wf s -> msg_begin_unlocking s a id c = inl s' -> L a s s'.
Proof.
  intros W H. unfold msg_begin_unlocking in H. destruct (find_lock s id) as [l|] eqn:F; [|discriminate].
  break_if_in H; [discriminate|]. zeq.
  destruct (begin_unlock s id c) as [[s1 x]|] eqn:B; [|discriminate]. injection H as <-.
  eapply begin_unlock_L; [exact W| |exact B]. eapply mine_found; eauto.
Qed.

Lemma begin_unlock_ids_L a ids : forall s s', wf s -> (forall id, In id ids -> mine a s id) -> begin_unlock_ids s ids = inl s' -> L a s s'.
Proof.
  induction ids as [|id r IH]; intros s s' W Hm H; cbn [begin_unlock_ids] in H.
  - injection H as <-. apply L_refl, W.
  - destruct (begin_unlock s id None) as [[s1 x]|] eqn:B; [|discriminate]. cbn [fst] in H.
    pose proof (begin_unlock_L a _ _ _ _ _ W (Hm id (or_introl eq_refl)) B) as L1.
    eapply L_trans; [exact L1|]. apply IH; [apply (L_wf _ _ _ L1)| |exact H].
    intros id' Hin. eapply mine_L; [apply Hm; right; exact Hin|exact L1].
Qed.

Lemma own_not_unlocking_mine a s id : wf s -> In id (own_not_unlocking s a) -> mine a s id.
Proof.
  intros (W1 & W2 & W3) Hin. unfold own_not_unlocking in Hin. apply in_map_iff in Hin. destruct Hin as [l0 [Hid Hin]].
  apply filter_In in Hin. destruct Hin as [Hin Hp]. zeq.
  intros l Hl. rewrite find_lock_k, <- Hid, (nodup_find _ _ W2 Hin) in Hl. congruence.
Qed.

Lemma msg_begin_unlocking_all_L a s s' : wf s -> msg_begin_unlocking_all s a = inl s' -> L a s s'.
Proof.
  intros W H. unfold msg_begin_unlocking_all in H. eapply begin_unlock_ids_L; [exact W| |exact H].
  intros id Hin. apply own_not_unlocking_mine; assumption.
Qed.

Lemma msg_extend_lockup_L a s id d s' : wf s -> msg_extend_lockup s a id d = inl s' -> L a s s'.
Proof.
  intros W H. unfold msg_extend_lockup in H. destruct (find_lock s id) as [l|] eqn:F; [|discriminate].
  break_if_in H; [discriminate|]. zeq. break_if_in H; [discriminate|]. break_if_in H; [discriminate|].
  break_if_in H; [injection H as <-; apply L_refl, W|]. break_if_in H; [discriminate|]. injection H as <-.
  apply find_lock_id' in F. destruct (lk_replace a s (with_dur l d) l W F Heqb Heqb) as [L1 _]. exact L1.
Qed.

Lemma msg_set_reward_receiver_L a s id r s' : wf s -> msg_set_reward_receiver s a id r = inl s' -> L a s s'.
Proof.
  intros W H. unfold msg_set_reward_receiver in H. destruct (find_lock s id) as [l|] eqn:F; [|discriminate].
  break_if_in H; [discriminate|]. zeq. break_if_in H; [discriminate|]. injection H as <-.
  apply find_lock_id' in F.
  match goal with |- L _ _ (set_locks _ (replace_lock ?q _) _) => destruct (lk_replace a s q l W F Heqb Heqb) as [L1 _]; exact L1 end.
Qed.

Lemma force_unlock_L a s l : wf s -> mine a s (l_id l) -> L a s (force_unlock s l).
Proof.
  intros W Hm. unfold force_unlock.
  pose proof (lk_remove a s (l_id l) W Hm) as L1.
  eapply L_trans; [exact L1|].
  match goal with |- L _ ?s1 (set_bals ?s1' ?b) => change (L a s1 (set_bals s1 b)) end.
  apply L_set_bals, (L_wf _ _ _ L1).
Qed.

Lemma partial_force_unlock_L a s l c s' :
  wf s -> find_lock s (l_id l) = Some l -> l_owner l = a -> partial_force_unlock s l c = inl s' -> L a s s'.
Proof.
  intros W Hf Ho H. unfold partial_force_unlock in H. break_if_in H; [discriminate|].
  destruct (is_partial c l).
  - destruct (split_lock s l c true) as [[s1 l1]|] eqn:S; [|discriminate]. injection H as <-.
    destruct (split_lock_L a _ _ _ _ _ _ W Hf Ho S) as (L1 & F1 & O1).
    eapply L_trans; [exact L1|]. apply force_unlock_L; [apply (L_wf _ _ _ L1)|]. eapply mine_found; eauto.
  - injection H as <-. apply force_unlock_L; [exact W|]. eapply mine_found; eauto.
Qed.

Lemma msg_force_unlock_L a s id c s' : wf s -> msg_force_unlock s a id c = inl s' -> L a s s'.
Proof.
  intros W H. unfold msg_force_unlock in H. destruct (find_lock s id) as [l|] eqn:F; [|discriminate].
  break_if_in H; [discriminate|]. zeq. break_if_in H; [discriminate|]. break_if_in H; [discriminate|].
  eapply partial_force_unlock_L; eauto using find_lock_id'.
Qed.

(* ------------------------------------------------------------------------------------------ *)
(* superfluid                                                                                 *)
(* ------------------------------------------------------------------------------------------ *)

Lemma validate_sf_ok l a u : validate_lock_for_sf l a = inl u -> l_owner l = a.
Proof. unfold validate_lock_for_sf. break_if; [discriminate|]. intros _. zeq. exact Heqb. Qed.

Lemma validate_sf_delegate_ok s l a u : validate_lock_for_sf_delegate s l a = inl u -> l_owner l = a.
Proof.
  unfold validate_lock_for_sf_delegate. destruct (validate_lock_for_sf l a) eqn:V; [|discriminate].
  intros _. eapply validate_sf_ok; eauto.
Qed.

Lemma sf_delegate_L a s id v s' : wf s -> sf_delegate s a id v = inl s' -> L a s s'.
Proof.
  intros W H. unfold sf_delegate in H. destruct (find_lock s id) as [l|] eqn:F; [|discriminate].
  destruct (validate_lock_for_sf_delegate s l a) eqn:V; [|discriminate]. apply validate_sf_delegate_ok in V.
  break_if_in H; [discriminate|]. break_if_in H; [discriminate|]. injection H as <-.
  apply find_lock_id' in F. destruct (lk_replace a s (with_sf l SBonded (Some v)) l W F V V) as [L1 _]. exact L1.
Qed.

Lemma undelegate_common_L a s id s' v : wf s -> undelegate_common s a id = inl (s', v) -> L a s s'.
Proof.
  intros W H. unfold undelegate_common in H. destruct (find_lock s id) as [l|] eqn:F; [|discriminate].
  destruct (validate_lock_for_sf l a) eqn:V; [|discriminate]. apply validate_sf_ok in V.
  destruct (l_conn l); [|discriminate]. destruct (l_synth l); try discriminate. injection H as <- <-.
  apply find_lock_id' in F. destruct (lk_replace a s (with_sf l SNone None) l W F V V) as [L1 _]. exact L1.
Qed.

Lemma set_synth_L a s id sy : wf s -> mine a s id -> L a s (set_synth s id sy).
Proof.
  intros W Hm. unfold set_synth. destruct (find_lock s id) as [l|] eqn:F; [|apply L_refl, W].
  pose proof (Hm _ F) as Ho. apply find_lock_id' in F.
  destruct (lk_replace a s (with_sf l sy (l_conn l)) l W F Ho Ho) as [L1 _]. exact L1.
Qed.

(* after a successful owner-validated step on lock [id], that lock (if still there) is the sender's *)
Lemma undelegate_common_mine a s id s' v : undelegate_common s a id = inl (s', v) -> mine a s id.
Proof.
  intros H. unfold undelegate_common in H. destruct (find_lock s id) as [l|] eqn:F; [|discriminate].
  destruct (validate_lock_for_sf l a) eqn:V; [|discriminate]. apply validate_sf_ok in V.
  eapply mine_found; eauto.
Qed.

Lemma sf_undelegate_L a s id s' : wf s -> sf_undelegate s a id = inl s' -> L a s s'.
Proof.
  intros W H. unfold sf_undelegate in H. destruct (undelegate_common s a id) as [[s1 v]|] eqn:U; [|discriminate].
  injection H as <-. cbn [fst].
  pose proof (undelegate_common_L _ _ _ _ _ W U) as L1.
  eapply L_trans; [exact L1|]. apply set_synth_L; [apply (L_wf _ _ _ L1)|].
  eapply mine_L; [eapply undelegate_common_mine; exact U|exact L1].
Qed.

Lemma sf_undelegate_mine a s id s' : sf_undelegate s a id = inl s' -> mine a s id.
Proof.
  intros H. unfold sf_undelegate in H. destruct (undelegate_common s a id) as [[s1 v]|] eqn:U; [|discriminate].
  eapply undelegate_common_mine; exact U.
Qed.

Lemma unbond_lock_L a s id c s' nid : wf s -> unbond_lock s id a c = inl (s', nid) -> L a s s'.
Proof.
  intros W H. unfold unbond_lock in H. destruct (find_lock s id) as [l|] eqn:F; [|discriminate].
  destruct (validate_lock_for_sf l a) eqn:V; [|discriminate]. apply validate_sf_ok in V.
  destruct (l_synth l); try discriminate.
  eapply begin_force_unlock_L; [exact W| |exact H]. eapply mine_found; eauto.
Qed.

(* the id a begin-unlock returns is either the lock itself or the freshly split lock: in both cases the sender's *)
Lemma begin_unlock_core_nid a s l c s' nid :
  wf s -> find_lock s (l_id l) = Some l -> l_owner l = a -> begin_unlock_core s l c = inl (s', nid) -> mine a s' nid.
Proof.
  intros W Hf Ho H. pose proof (begin_unlock_core_L _ _ _ _ _ _ W Hf Ho H) as LL.
  unfold begin_unlock_core in H. ok_path H. destruct (is_partial c l).
  - destruct (split_lock s l c false) as [[s1 l1]|] eqn:S; [|discriminate]. injection H as <- <-.
    destruct (split_lock_L a _ _ _ _ _ _ W Hf Ho S) as (L1 & F1 & O1).
    destruct (lk_replace a s1 (with_unlocking l1 true) l1 (L_wf _ _ _ L1) F1 O1 O1) as [_ F2].
    cbn [l_id with_unlocking] in F2. eapply mine_found; [exact F2|exact O1].
  - injection H as <- <-. destruct (lk_replace a s (with_unlocking l true) l W Hf Ho Ho) as [_ F2].
    cbn [l_id with_unlocking] in F2. eapply mine_found; [exact F2|exact Ho].
Qed.

Lemma unbond_lock_nid a s id c s' nid : wf s -> unbond_lock s id a c = inl (s', nid) -> mine a s' nid.
Proof.
  intros W H. unfold unbond_lock in H. destruct (find_lock s id) as [l|] eqn:F; [|discriminate].
  destruct (validate_lock_for_sf l a) eqn:V; [|discriminate]. apply validate_sf_ok in V.
  destruct (l_synth l); try discriminate. unfold begin_force_unlock in H. rewrite F in H.
  eapply begin_unlock_core_nid; eauto using find_lock_id'.
Qed.

Lemma sf_undelegate_and_unbond_L a s id amt s' : wf s -> sf_undelegate_and_unbond s a id amt = inl s' -> L a s s'.
Proof.
  intros W H. unfold sf_undelegate_and_unbond in H. destruct (find_lock s id) as [l|] eqn:F; [|discriminate].
  break_if_in H; [discriminate|]. break_if_in H; [discriminate|]. destruct (l_conn l) as [v|]; [|discriminate].
  destruct (sf_undelegate s a id) as [s1|] eqn:U; [|discriminate].
  pose proof (sf_undelegate_L _ _ _ _ W U) as L1. pose proof (sf_undelegate_mine _ _ _ _ U) as M0.
  destruct (unbond_lock s1 id a (Some (l_denom l, amt))) as [[s2 nid]|] eqn:B; [|discriminate].
  pose proof (unbond_lock_L _ _ _ _ _ _ (L_wf _ _ _ L1) B) as L2.
  pose proof (unbond_lock_nid _ _ _ _ _ _ (L_wf _ _ _ L1) B) as Mn.
  pose proof (L_trans _ _ _ _ L1 L2) as L12.
  break_if_in H; [injection H as <-; exact L12|].
  assert (M2 : mine a s2 id) by (eapply mine_L; [exact M0|exact L12]).
  pose proof (set_synth_L a s2 id SNone (L_wf _ _ _ L12) M2) as L3.
  destruct (sf_delegate (set_synth s2 id SNone) a id v) as [s4|] eqn:D; [|discriminate]. injection H as <-.
  pose proof (sf_delegate_L _ _ _ _ _ (L_wf _ _ _ L3) D) as L4.
  pose proof (L_trans _ _ _ _ L3 L4) as L34.
  eapply L_trans; [exact L12|]. eapply L_trans; [exact L34|].
  apply set_synth_L; [apply (L_wf _ _ _ L34)|]. eapply mine_L; [exact Mn|exact L34].
Qed.

Lemma lock_tokens_L a s d amt dur s' id : wf s -> lock_tokens s a d amt dur = inl (s', id) -> L a s s'.
Proof.
  intros W H. unfold lock_tokens in H.
  match type of H with context [find ?f (locks s)] => destruct (find f (locks s)) as [l|] eqn:F end.
  - destruct (send s a (lockup_acc s) d amt) as [s1|] eqn:S; [|discriminate]. injection H as <- <-.
    pose proof (send_L a _ _ _ _ _ _ W S) as L1. eapply L_trans; [exact L1|].
    apply find_some in F. destruct F as [Hin Hp]. zeq.
    assert (F1 : find_lock s1 (l_id l) = Some l).
    { destruct L1 as (_ & _ & _ & _ & _). unfold send in S. break_if_in S; [discriminate|]. injection S as <-.
      rewrite find_lock_k. cbn [locks set_bals]. destruct W as (_ & W2 & _). apply nodup_find; assumption. }
    destruct (lk_replace a s1 (with_amt l (l_amt l + amt)) l (L_wf _ _ _ L1) F1 H H) as [L2 _]. exact L2.
  - destruct (send s a (lockup_acc s) d amt) as [s1|] eqn:S; [|discriminate]. injection H as <- <-.
    pose proof (send_L a _ _ _ _ _ _ W S) as L1. eapply L_trans; [exact L1|].
    destruct (lk_append a s1 (mkLock (last_lock s1 + 1) a None d amt dur false SNone None) (L_wf _ _ _ L1) eq_refl eq_refl) as [L2 _].
    exact L2.
Qed.

Lemma sf_lock_and_delegate_L a s d amt v s' : wf s -> sf_lock_and_delegate s a d amt v = inl s' -> L a s s'.
Proof.
  intros W H. unfold sf_lock_and_delegate in H. break_if_in H; [discriminate|].
  destruct (lock_tokens s a d amt (unbonding s)) as [[s1 id]|] eqn:T; [|discriminate]. cbn [fst snd] in H.
  pose proof (lock_tokens_L _ _ _ _ _ _ _ W T) as L1.
  eapply L_trans; [exact L1|]. eapply sf_delegate_L; [apply (L_wf _ _ _ L1)|exact H].
Qed.

Lemma lock_and_unlock_each_L a dur paid : forall s, wf s -> L a s (lock_and_unlock_each s a dur paid).
Proof.
  induction paid as [|[d v] r IH]; intros s W; cbn [lock_and_unlock_each]; [apply L_refl, W|].
  destruct (lk_append a s (mkLock (last_lock s + 1) a None d v dur true SNone None) W eq_refl eq_refl) as [L1 _].
  eapply L_trans; [exact L1|]. apply IH, (L_wf _ _ _ L1).
Qed.

Lemma unpool_one_L a s share id dur paid s' : wf s -> unpool_one s a share id dur paid = inl s' -> L a s s'.
Proof.
  intros W H. unfold unpool_one in H. destruct (find_lock s id) as [l|] eqn:F; [|discriminate].
  break_if_in H; [discriminate|]. zeq. break_if_in H; [discriminate|].
  assert (M0 : mine a s id) by (eapply mine_found; eauto).
  assert (exists s1, L a s s1 /\ s' = lock_and_unlock_each (force_unlock (set_synth s1 id SNone) (with_sf l SNone None)) a dur paid) as (s1 & L1 & ->).
  { destruct (l_conn l).
    - destruct (undelegate_common s a id) as [[s1 v]|] eqn:U; [|discriminate]. cbn [fst] in H. injection H as <-.
      exists s1. split; [eapply undelegate_common_L; eauto|reflexivity].
    - injection H as <-. exists s. split; [apply L_refl, W|reflexivity]. }
  pose proof (set_synth_L a s1 id SNone (L_wf _ _ _ L1) (mine_L _ _ _ _ M0 L1)) as L2.
  pose proof (L_trans _ _ _ _ L1 L2) as L12.
  assert (L3 : L a (set_synth s1 id SNone) (force_unlock (set_synth s1 id SNone) (with_sf l SNone None))).
  { apply force_unlock_L; [apply (L_wf _ _ _ L12)|]. cbn [l_id with_sf]. rewrite (find_lock_id _ _ _ F).
    eapply mine_L; [exact M0|exact L12]. }
  pose proof (L_trans _ _ _ _ L12 L3) as L123.
  eapply L_trans; [exact L123|]. apply lock_and_unlock_each_L, (L_wf _ _ _ L123).
Qed.

Lemma unpool_all_L a share todo : forall s s', wf s -> unpool_all s a share todo = inl s' -> L a s s'.
Proof.
  induction todo as [|[[id dur] paid] r IH]; intros s s' W H; cbn [unpool_all] in H.
  - injection H as <-. apply L_refl, W.
  - destruct (unpool_one s a share id dur paid) as [s1|] eqn:U; [|discriminate].
    pose proof (unpool_one_L _ _ _ _ _ _ _ W U) as L1.
    eapply L_trans; [exact L1|]. apply IH; [apply (L_wf _ _ _ L1)|exact H].
Qed.

Lemma sf_unpool_L e a s pool s' : wf s -> sf_unpool e s a pool = inl s' -> L a s s'.
Proof.
  intros W H. unfold sf_unpool in H. break_if_in H; [discriminate|].
  destruct (share_of_pool s pool); [|discriminate]. break_if_in H; [discriminate|].
  eapply unpool_all_L; eauto.
Qed.

Lemma sf_unbond_convert_and_stake_L a s id v d amt s' : wf s -> sf_unbond_convert_and_stake s a id v d amt = inl s' -> L a s s'.
Proof.
  intros W H. unfold sf_unbond_convert_and_stake in H. break_if_in H.
  - ok_path H. injection H as <-. apply L_set_bals, W.
  - assert (exists s1, L a s s1 /\
              match find_lock s1 id with
              | Some l => if negb (l_owner l =? a) then inr EAuth
                          else if negb (is_gamm_share s1 (l_denom l)) then inr EOther
                          else let s2 := force_unlock (set_synth s1 id SNone) (with_sf l SNone None) in
                               if negb (memz v (vals s2)) then inr EOther
                               else inl (set_bals s2 (bal_add (bals s2) a (l_denom l) (- l_amt l)))
              | None => inr EOther end = inl s') as (s1 & L1 & H1).
    { destruct (find_lock s id) as [l0|] eqn:F0.
      - destruct (l_synth l0).
        + exists s. split; [apply L_refl, W|exact H].
        + destruct (undelegate_common s a id) as [[s1 v1]|] eqn:U; [|discriminate]. cbn [fst] in H.
          exists s1. split; [eapply undelegate_common_L; eauto|exact H].
        + exists s. split; [apply L_refl, W|exact H].
      - exists s. split; [apply L_refl, W|exact H]. }
    clear H. destruct (find_lock s1 id) as [l|] eqn:F; [|discriminate].
    break_if_in H1; [discriminate|]. zeq. break_if_in H1; [discriminate|]. cbv zeta in H1.
    break_if_in H1; [discriminate|]. injection H1 as <-.
    assert (M1 : mine a s1 id) by (eapply mine_found; eauto).
    pose proof (set_synth_L a s1 id SNone (L_wf _ _ _ L1) M1) as L2.
    pose proof (L_trans _ _ _ _ L1 L2) as L12.
    assert (L3 : L a (set_synth s1 id SNone) (force_unlock (set_synth s1 id SNone) (with_sf l SNone None))).
    { apply force_unlock_L; [apply (L_wf _ _ _ L12)|]. cbn [l_id with_sf]. rewrite (find_lock_id _ _ _ F).
      eapply mine_L; [exact M1|exact L2]. }
    pose proof (L_trans _ _ _ _ L12 L3) as L123.
    eapply L_trans; [exact L123|]. apply L_set_bals, (L_wf _ _ _ L123).
Qed.

(* ------------------------------------------------------------------------------------------ *)
(* position-table steps                                                                        *)
(* ------------------------------------------------------------------------------------------ *)

Definition P (a : addr) (s s' : state) : Prop :=
  pos_rel a s s' /\ wf s' /\ same_locks s s' /\ same_denoms s s' /\ same_cfg s s'.

Lemma P_refl a s : wf s -> P a s s.
Proof. intros H. split; [apply pos_rel_refl|]. split; [exact H|]. repeat split. Qed.

Lemma P_trans a s1 s2 s3 : P a s1 s2 -> P a s2 s3 -> P a s1 s3.
Proof.
  intros (A1 & A2 & [A3 A3'] & A4 & A5) (B1 & B2 & [B3 B3'] & B4 & B5).
  split; [eapply pos_rel_trans; eauto|]. split; [assumption|].
  unfold same_locks, same_denoms, same_cfg in *. repeat split; congruence.
Qed.

Lemma P_wf a s s' : P a s s' -> wf s'.
Proof. intros H. apply H. Qed.

Definition minep (a : addr) (s : state) (id : Z) : Prop := forall p, find_pos s id = Some p -> p_owner p = a.

Lemma fp_set s X n id : find_pos (set_positions s X n) id = findk p_id id X.
Proof. reflexivity. Qed.

Lemma find_pos_id' s id p : find_pos s id = Some p -> find_pos s (p_id p) = Some p.
Proof. intros H. rewrite (find_pos_id _ _ _ H). exact H. Qed.

(* Q1: the position of [a] found under an id is replaced by another position of [a] with that id *)
Lemma ps_replace a s q p :
  wf s -> find_pos s (p_id q) = Some p -> p_owner p = a -> p_owner q = a ->
  P a s (set_positions s (replace_pos q (positions s)) (next_pos s)).
Proof.
  intros (W1 & W2 & W3) Hf Ho Hq. rewrite find_pos_k in Hf.
  assert (Hfq : findk p_id (p_id q) (replacek p_id q (positions s)) = Some q)
    by (apply (findk_replace_same p_id q _ p); exact Hf).
  split; [split|].
  - intros id p0 H0 Hn. rewrite fp_set, replace_pos_k. rewrite find_pos_k in H0.
    rewrite (findk_replace_other p_id); [exact H0|]. intros E. rewrite <- E in H0. congruence.
  - intros id p0 H0 Hn. rewrite fp_set, replace_pos_k in H0. rewrite find_pos_k.
    destruct (Z.eq_dec (p_id q) id) as [E|Hne].
    + rewrite <- E in H0. congruence.
    + rewrite (findk_replace_other p_id) in H0 by exact Hne. exact H0.
  - split; [|repeat split; reflexivity].
    unfold wf. cbn [locks set_positions positions last_lock next_pos]. rewrite replace_pos_k. split; [exact W1|split; [exact W2|]].
    intros x Hx. apply in_replacek in Hx. destruct Hx as [->|Hx]; [|auto].
    pose proof (findk_in p_id _ _ _ Hf) as Hin. pose proof (findk_key p_id _ _ _ Hf) as Hk.
    rewrite <- Hk. apply W3. exact Hin.
Qed.

(* Q2: the position of [a] found under an id is removed *)
Lemma ps_remove a s id :
  wf s -> minep a s id -> P a s (set_positions s (remove_pos id (positions s)) (next_pos s)).
Proof.
  intros (W1 & W2 & W3) Hm. split; [split|].
  - intros id' p0 H0 Hn. rewrite fp_set, remove_pos_k. rewrite (findk_remove_other p_id); [exact H0|].
    intros ->. apply Hm in H0. contradiction.
  - intros id' p0 H0 Hn. rewrite fp_set, remove_pos_k in H0. rewrite find_pos_k.
    destruct (Z.eq_dec id' id) as [->|Hne]; [rewrite (findk_remove_same p_id) in H0; discriminate|].
    rewrite (findk_remove_other p_id) in H0 by exact Hne. exact H0.
  - split; [|repeat split; reflexivity].
    unfold wf. cbn [locks set_positions positions last_lock next_pos]. rewrite remove_pos_k. split; [exact W1|split; [exact W2|]].
    intros x Hx. apply in_removek in Hx. auto.
Qed.

(* Q3: a new position of [a] gets the next id *)
Lemma ps_append a s n :
  wf s -> p_owner n = a -> p_id n = next_pos s ->
  P a s (set_positions s (positions s ++ [n]) (next_pos s + 1)).
Proof.
  intros (W1 & W2 & W3) Ho Hid.
  split; [split|].
  - intros id p0 H0 Hn. rewrite fp_set, (findk_app p_id). rewrite find_pos_k in H0. rewrite H0. reflexivity.
  - intros id p0 H0 Hn. rewrite fp_set, (findk_app p_id) in H0. rewrite find_pos_k.
    destruct (findk p_id id (positions s)); [exact H0|]. destruct (p_id n =? id); [|discriminate].
    injection H0 as <-. contradiction.
  - split; [|repeat split; reflexivity].
    unfold wf. cbn [locks set_positions positions last_lock next_pos]. split; [exact W1|split; [exact W2|]].
    intros x Hx. apply in_app_or in Hx. destruct Hx as [Hx|[<-|[]]]; [apply W3 in Hx; lia|lia].
Qed.

Lemma withdraw_position_P a s id liq s' : wf s -> withdraw_position s a id liq = inl s' -> P a s s'.
Proof.
  intros W H. unfold withdraw_position in H. destruct (find_pos s id) as [p|] eqn:F; [|discriminate].
  break_if_in H; [discriminate|]. zeq. ok_path H. symmetry in Heqb.
  break_if_in H; injection H as <-.
  - apply ps_remove; [exact W|]. intros p' Hp'. congruence.
  - match goal with |- P _ _ (set_positions _ (replace_pos ?q _) _) =>
      apply (ps_replace a s q p W); [exact F|exact Heqb|exact Heqb] end.
Qed.

Lemma add_to_position_P e a s id a0 a1 s' : wf s -> add_to_position e s a id a0 a1 = inl s' -> P a s s'.
Proof.
  intros W H. unfold add_to_position in H. destruct (find_pos s id) as [p|] eqn:F; [|discriminate].
  break_if_in H; [discriminate|]. ok_path H.
  destruct (withdraw_position s a id (p_liq p)) as [s1|] eqn:Wd; [|discriminate].
  break_if_in H; [discriminate|]. injection H as <-.
  pose proof (withdraw_position_P _ _ _ _ _ W Wd) as P1.
  eapply P_trans; [exact P1|]. apply ps_append; [apply (P_wf _ _ _ P1)|reflexivity|reflexivity].
Qed.

(* TransferPositions: exactly the listed positions are touched *)
Definition T (ids : list Z) (s s' : state) : Prop :=
  (forall id, ~ In id ids -> find_pos s' id = find_pos s id) /\ wf s' /\ same_locks s s' /\ same_denoms s s' /\ same_cfg s s'.

Lemma transfer_one_T s a rcp id s' : wf s -> transfer_one s a rcp id = inl s' -> T [id] s s'.
Proof.
  intros (W1 & W2 & W3) H. unfold transfer_one in H. destruct (find_pos s id) as [p|] eqn:F; [|discriminate].
  ok_path H. injection H as <-. split; [|split; [|repeat split; reflexivity]].
  - intros id' Hni. rewrite fp_set, replace_pos_k, find_pos_k. apply (findk_replace_other p_id). cbn [p_id].
    intros ->. apply Hni. left; reflexivity.
  - unfold wf. cbn [locks set_positions positions last_lock next_pos]. rewrite replace_pos_k. split; [exact W1|split; [exact W2|]].
    intros x Hx. apply in_replacek in Hx. destruct Hx as [->|Hx]; [|auto]. cbn [p_id].
    rewrite find_pos_k in F. pose proof (findk_in p_id _ _ _ F) as Hin. pose proof (findk_key p_id _ _ _ F) as Hk.
    rewrite <- Hk. apply W3. exact Hin.
Qed.

Lemma transfer_all_T a rcp ids : forall s s', wf s -> transfer_all s a rcp ids = inl s' -> T ids s s'.
Proof.
  induction ids as [|id r IH]; intros s s' W H; cbn [transfer_all] in H.
  - injection H as <-. split; [reflexivity|]. split; [exact W|repeat split].
  - destruct (transfer_one s a rcp id) as [s1|] eqn:E; [|discriminate].
    destruct (transfer_one_T _ _ _ _ _ W E) as (A1 & A2 & [A3 A3'] & A4 & A5).
    destruct (IH _ _ A2 H) as (B1 & B2 & [B3 B3'] & B4 & B5).
    split; [|split; [exact B2|unfold same_locks, same_denoms, same_cfg in *; repeat split; congruence]].
    intros id' Hni. rewrite B1, A1; [reflexivity| |]; intros Hin; apply Hni; cbn; [destruct Hin as [->|[]]; auto|auto].
Qed.

Lemma transfer_positions_T s a rcp ids s' : wf s -> transfer_positions s a rcp ids = inl s' -> T ids s s'.
Proof. intros W H. unfold transfer_positions in H. break_if_in H; [discriminate|]. eapply transfer_all_T; eauto. Qed.

(* ------------------------------------------------------------------------------------------ *)
(* denom-table steps                                                                           *)
(* ------------------------------------------------------------------------------------------ *)

Definition fd (c sub : Z) (ds : list denom) : option denom := find (fun x => (d_creator x =? c) && (d_sub x =? sub)) ds.

Lemma find_denom_fd s c sub : find_denom s (DFactory c sub) = fd c sub (denoms s).
Proof. reflexivity. Qed.

Lemma fd_replace_other q ds c sub :
  (d_creator q, d_sub q) <> (c, sub) -> fd c sub (replace_denom q ds) = fd c sub ds.
Proof.
  intros Hne. unfold fd. induction ds as [|y r IH]; [reflexivity|]. unfold replace_denom in *. cbn [map find].
  assert (Hq : (d_creator q =? c) && (d_sub q =? sub) = false).
  { destruct (d_creator q =? c) eqn:X; [|reflexivity]. destruct (d_sub q =? sub) eqn:Y; [|reflexivity].
    zeq. exfalso. apply Hne. congruence. }
  destruct ((d_creator y =? d_creator q) && (d_sub y =? d_sub q)) eqn:E.
  - zeq. rewrite Hq. rewrite H, H0, Hq. exact IH.
  - destruct ((d_creator y =? c) && (d_sub y =? sub)); [reflexivity|exact IH].
Qed.

Lemma fd_replace_same q ds x :
  fd (d_creator q) (d_sub q) ds = Some x -> fd (d_creator q) (d_sub q) (replace_denom q ds) = Some q.
Proof.
  unfold fd. induction ds as [|y r IH]; [discriminate|]. unfold replace_denom in *. cbn [map find].
  destruct ((d_creator y =? d_creator q) && (d_sub y =? d_sub q)) eqn:E.
  - intros _. rewrite !Z.eqb_refl. reflexivity.
  - rewrite E. exact IH.
Qed.

Lemma fd_app c sub ds n :
  fd c sub (ds ++ [n]) = match fd c sub ds with Some x => Some x | None => if (d_creator n =? c) && (d_sub n =? sub) then Some n else None end.
Proof.
  unfold fd. induction ds as [|y r IH]; cbn; [destruct ((d_creator n =? c) && (d_sub n =? sub)); reflexivity|].
  destruct ((d_creator y =? c) && (d_sub y =? sub)); [reflexivity|exact IH].
Qed.

Lemma find_denom_key s d x : find_denom s d = Some x -> d = DFactory (d_creator x) (d_sub x).
Proof.
  destruct d as [c sub|n]; cbn; [|discriminate]. intros H. apply find_some in H. destruct H as [_ H]. zeq. congruence.
Qed.

(* an admin-guarded in-place update of one denom record that keeps the admin *)
Lemma denom_replace_rel a s x q :
  find_denom s (DFactory (d_creator q) (d_sub q)) = Some x -> d_admin x = Some a -> d_admin q = Some a ->
  denom_rel a s (set_denoms s (replace_denom q (denoms s))).
Proof.
  intros Hf Ha Hq. rewrite find_denom_fd in Hf.
  split; [|split].
  - intros d y Hy Hn. pose proof (find_denom_key _ _ _ Hy) as ->. rewrite find_denom_fd in *. cbn [denoms set_denoms].
    rewrite fd_replace_other; [exact Hy|].
    intros E. injection E as E1 E2. rewrite <- E1, <- E2 in Hy. congruence.
  - intros d y Hy Hn. destruct d as [c sub|n]; [|discriminate]. rewrite find_denom_fd in *. cbn [denoms set_denoms] in Hy.
    destruct (Z.eq_dec (d_creator q) c) as [E1|E1]; [destruct (Z.eq_dec (d_sub q) sub) as [E2|E2]|].
    + subst c sub. rewrite (fd_replace_same q _ x) in Hy by exact Hf. congruence.
    + rewrite fd_replace_other in Hy; [exact Hy|congruence].
    + rewrite fd_replace_other in Hy; [exact Hy|congruence].
  - intros c sub y Hy Hnone. exfalso. rewrite find_denom_fd in *. cbn [denoms set_denoms] in Hy.
    destruct (Z.eq_dec (d_creator q) c) as [E1|E1]; [destruct (Z.eq_dec (d_sub q) sub) as [E2|E2]|].
    + subst c sub. congruence.
    + rewrite fd_replace_other in Hy; [congruence|congruence].
    + rewrite fd_replace_other in Hy; [congruence|congruence].
Qed.

Definition Dn (a : addr) (s s' : state) : Prop :=
  denom_rel a s s' /\ wf s' /\ same_locks s s' /\ same_pos s s' /\ same_cfg s s'.

Lemma is_admin_found s d a : is_admin s d a = true -> exists x, find_denom s d = Some x /\ d_admin x = Some a.
Proof.
  unfold is_admin, admin_of. destruct (find_denom s d) as [x|]; [|discriminate].
  intros H. exists x. split; [reflexivity|]. destruct (d_admin x); [|discriminate]. cbn in H. zeq. congruence.
Qed.

Lemma wf_set_denoms s ds : wf s -> wf (set_denoms s ds).
Proof. intros H. exact H. Qed.
Lemma wf_set_bals s b : wf s -> wf (set_bals s b).
Proof. intros H. exact H. Qed.

Lemma send_same s from to d v s' : send s from to d v = inl s' ->
  wf s -> wf s' /\ same_locks s s' /\ same_pos s s' /\ same_denoms s s' /\ same_cfg s s'.
Proof. unfold send. break_if; [discriminate|]. intros H W. injection H as <-. repeat split; apply W. Qed.

Lemma tf_create_denom_D a s sub wfb s' : wf s -> tf_create_denom s a sub wfb = inl s' -> Dn a s s'.
Proof.
  intros W H. unfold tf_create_denom in H. ok_path H.
  destruct (find_denom s (DFactory a sub)) eqn:F; [discriminate|].
  assert (exists s1, wf s1 /\ same_locks s s1 /\ same_pos s s1 /\ same_denoms s s1 /\ same_cfg s s1 /\
                     s' = set_denoms s1 (denoms s1 ++ [mkDenom a sub (Some a) None 0])) as (s1 & W1 & SL & SP & SD & SC & ->).
  { destruct (fee s =? 0).
    - injection H as <-. exists s. repeat split; apply W.
    - destruct (send s a (distr_acc s) (fee_denom s) (fee s)) as [s1|] eqn:S; [|discriminate]. injection H as <-.
      destruct (send_same _ _ _ _ _ _ S W) as (Q1 & Q2 & Q3 & Q4 & Q5). exists s1.
      split; [exact Q1|]. split; [exact Q2|]. split; [exact Q3|]. split; [exact Q4|]. split; [exact Q5|reflexivity]. }
  split; [|split; [apply wf_set_denoms, W1|]].
  - unfold same_denoms in SD. rewrite find_denom_fd in F. split; [|split].
    + intros d y Hy Hn. pose proof (find_denom_key _ _ _ Hy) as ->. rewrite find_denom_fd in *. cbn [denoms set_denoms].
      rewrite SD, fd_app, Hy. reflexivity.
    + intros d y Hy Hn. destruct d as [c sb|n]; [|discriminate]. rewrite find_denom_fd in *. cbn [denoms set_denoms] in Hy.
      rewrite SD, fd_app in Hy. destruct (fd c sb (denoms s)); [exact Hy|].
      cbn [d_creator d_sub] in Hy. destruct ((a =? c) && (sub =? sb)); [|discriminate]. injection Hy as <-. cbn in Hn. congruence.
    + intros c sb y Hy Hnone. rewrite find_denom_fd in *. cbn [denoms set_denoms] in Hy.
      rewrite SD, fd_app, Hnone in Hy. cbn [d_creator d_sub] in Hy. destruct (a =? c) eqn:E; [|discriminate]. zeq. congruence.
  - split; [exact SL|split; [exact SP|exact SC]].
Qed.

Lemma tf_bank_D a s s' : wf s -> same_denoms s s' -> wf s' -> same_locks s s' -> same_pos s s' -> same_cfg s s' -> Dn a s s'.
Proof. intros W SD W' SL SP SC. split; [apply denom_rel_same; exact SD|]. split; [exact W'|]. split; [exact SL|]. split; [exact SP|exact SC]. Qed.

Lemma tf_mint_D a s d amt to s' : wf s -> tf_mint s a d amt to = inl s' -> Dn a s s'.
Proof. intros W H. unfold tf_mint in H. ok_path H. injection H as <-. apply tf_bank_D; try exact W; try reflexivity; split; reflexivity. Qed.
Lemma tf_burn_D a s d amt from s' : wf s -> tf_burn s a d amt from = inl s' -> Dn a s s'.
Proof. intros W H. unfold tf_burn in H. ok_path H. injection H as <-. apply tf_bank_D; try exact W; try reflexivity; split; reflexivity. Qed.
Lemma tf_force_transfer_D a s d amt from to s' : wf s -> tf_force_transfer s a d amt from to = inl s' -> Dn a s s'.
Proof.
  intros W H. unfold tf_force_transfer in H. ok_path H.
  destruct (send_same _ _ _ _ _ _ H W) as (? & ? & ? & ? & ?). apply tf_bank_D; assumption.
Qed.

Lemma tf_set_metadata_D a s d valid desc s' : wf s -> tf_set_metadata s a d valid desc = inl s' -> Dn a s s'.
Proof.
  intros W H. unfold tf_set_metadata in H. break_if_in H; [discriminate|]. break_if_in H; [discriminate|]. zeq.
  destruct (is_admin_found _ _ _ Heqb0) as (x & F & Ha). rewrite F in H. injection H as <-.
  split; [|repeat split; apply W].
  pose proof (find_denom_key _ _ _ F) as E. rewrite E in F.
  apply (denom_replace_rel a s x (mkDenom (d_creator x) (d_sub x) (d_admin x) (d_hook x) desc)); [exact F|exact Ha|exact Ha].
Qed.

Lemma tf_set_hook_D a s d hook s' : wf s -> tf_set_hook s a d hook = inl s' -> Dn a s s'.
Proof.
  intros W H. unfold tf_set_hook in H. break_if_in H; [discriminate|]. zeq. break_if_in H; [discriminate|].
  destruct (is_admin_found _ _ _ Heqb) as (x & F & Ha). rewrite F in H.
  pose proof (find_denom_key _ _ _ F) as E. rewrite E in F.
  destruct hook as [c|].
  - break_if_in H; [discriminate|]. injection H as <-. split; [|repeat split; apply W].
    apply (denom_replace_rel a s x (mkDenom (d_creator x) (d_sub x) (d_admin x) (Some c) (d_desc x))); [exact F|exact Ha|exact Ha].
  - injection H as <-. split; [|repeat split; apply W].
    apply (denom_replace_rel a s x (mkDenom (d_creator x) (d_sub x) (d_admin x) None (d_desc x))); [exact F|exact Ha|exact Ha].
Qed.

(* ChangeAdmin: exactly the addressed denom record is touched *)
Definition CA (d : dk) (s s' : state) : Prop :=
  (forall d', d' <> d -> find_denom s' d' = find_denom s d') /\ wf s' /\ same_locks s s' /\ same_pos s s' /\ same_cfg s s'.

Lemma tf_change_admin_CA a s d new s' : wf s -> tf_change_admin s a d new = inl s' -> CA d s s'.
Proof.
  intros W H. unfold tf_change_admin in H. break_if_in H; [discriminate|].
  destruct (find_denom s d) as [x|] eqn:F; [|discriminate]. injection H as <-.
  split; [|repeat split; apply W].
  intros d' Hne. destruct d' as [c sub|n]; [|reflexivity]. rewrite !find_denom_fd. cbn [denoms set_denoms].
  apply fd_replace_other. cbn [d_creator d_sub]. intros E. injection E as <- <-.
  apply Hne. symmetry. eapply find_denom_key; eauto.
Qed.

(* ------------------------------------------------------------------------------------------ *)
(* both tables: AddToConcentratedLiquiditySuperfluidPosition                                   *)
(* ------------------------------------------------------------------------------------------ *)

Definition LP (a : addr) (s s' : state) : Prop :=
  lock_rel a s s' /\ pos_rel a s s' /\ wf s' /\ same_denoms s s' /\ same_cfg s s'.

Lemma L_LP a s s' : L a s s' -> LP a s s'.
Proof. intros (A & B & C & D & E). split; [exact A|]. split; [apply pos_rel_same, C|]. tauto. Qed.
Lemma P_LP a s s' : P a s s' -> LP a s s'.
Proof. intros (A & B & C & D & E). split; [apply lock_rel_same, C|]. split; [exact A|]. tauto. Qed.
Lemma LP_trans a s1 s2 s3 : LP a s1 s2 -> LP a s2 s3 -> LP a s1 s3.
Proof.
  intros (A1 & A2 & A3 & A4 & A5) (B1 & B2 & B3 & B4 & B5).
  split; [eapply lock_rel_trans; eauto|]. split; [eapply pos_rel_trans; eauto|]. split; [assumption|].
  unfold same_denoms, same_cfg in *. split; congruence.
Qed.
Lemma LP_wf a s s' : LP a s s' -> wf s'.
Proof. intros H. apply H. Qed.

Lemma sf_add_to_cl_position_LP e a s pid a0 a1 s' : wf s -> sf_add_to_cl_position e s a pid a0 a1 = inl s' -> LP a s s'.
Proof.
  intros W H. unfold sf_add_to_cl_position in H. destruct (find_pos s pid) as [p|] eqn:Fp; [|discriminate].
  break_if_in H; [discriminate|]. break_if_in H; [discriminate|]. break_if_in H; [discriminate|].
  destruct (find_lock s (p_lock p)) as [l|] eqn:Fl; [|discriminate].
  break_if_in H; [discriminate|]. break_if_in H; [discriminate|]. zeq. break_if_in H; [discriminate|].
  destruct (undelegate_common s a (l_id l)) as [[s1 v]|] eqn:U; [|discriminate].
  pose proof (undelegate_common_L _ _ _ _ _ W U) as L1.
  assert (Ml : mine a s (l_id l)) by (eapply mine_found; [eapply find_lock_id'; exact Fl|assumption]).
  assert (L2 : L a s1 (force_unlock s1 (with_sf l SNone None))).
  { apply force_unlock_L; [apply (L_wf _ _ _ L1)|]. cbn [l_id with_sf]. eapply mine_L; eauto. }
  pose proof (L_trans _ _ _ _ L1 L2) as L12. set (s2 := force_unlock s1 (with_sf l SNone None)) in *.
  assert (Fp2 : find_pos s2 pid = Some p).
  { destruct L12 as (_ & _ & [SP _] & _). unfold find_pos. rewrite SP. exact Fp. }
  assert (Op : p_owner p = a) by congruence.
  set (q := mkPos pid (p_owner p) (p_pool p) (p_liq p) 0 (p_full p)) in *.
  assert (P3 : P a s2 (set_positions s2 (replace_pos q (positions s2)) (next_pos s2)))
    by (apply (ps_replace a s2 q p (L_wf _ _ _ L12)); [exact Fp2|exact Op|exact Op]).
  set (s3 := set_positions s2 (replace_pos q (positions s2)) (next_pos s2)) in *.
  destruct (withdraw_position s3 a pid (p_liq p)) as [s4|] eqn:Wd; [|discriminate].
  pose proof (withdraw_position_P _ _ _ _ _ (P_wf _ _ _ P3) Wd) as P4.
  break_if_in H; [discriminate|]. destruct (cl_share_of_pool s4 (p_pool p)) as [share|]; [|discriminate].
  pose proof (LP_trans _ _ _ _ (L_LP _ _ _ L12) (LP_trans _ _ _ _ (P_LP _ _ _ P3) (P_LP _ _ _ P4))) as LP4.
  set (np := mkPos (next_pos s4) a (p_pool p) (e_liq e) (last_lock s4 + 1) true) in *.
  pose proof (ps_append a s4 np (LP_wf _ _ _ LP4) eq_refl eq_refl) as P5.
  set (s5 := set_positions s4 (positions s4 ++ [np]) (next_pos s4 + 1)) in *.
  set (nl := mkLock (last_lock s4 + 1) a None share (e_shares e) (unbonding s) false SNone None) in *.
  destruct (lk_append a s5 nl (P_wf _ _ _ P5) eq_refl eq_refl) as [L6 _].
  set (s6 := set_locks s5 (locks s5 ++ [nl]) (last_lock s5 + 1)) in *.
  pose proof (L_set_bals a s6 (bal_add (bals s6) (lockup_acc s6) share (e_shares e)) (L_wf _ _ _ L6)) as L7.
  set (s7 := set_bals s6 (bal_add (bals s6) (lockup_acc s6) share (e_shares e))) in *.
  change (sf_delegate s7 a (last_lock s4 + 1) v = inl s') in H.
  pose proof (sf_delegate_L _ _ _ _ _ (L_wf _ _ _ L7) H) as L8.
  eapply LP_trans; [exact LP4|]. eapply LP_trans; [apply P_LP; exact P5|].
  apply L_LP. eapply L_trans; [exact L6|]. eapply L_trans; [exact L7|exact L8].
Qed.

(* ------------------------------------------------------------------------------------------ *)
(* the frame theorem                                                                           *)
(* ------------------------------------------------------------------------------------------ *)

Definition pos_clause (a : addr) (m : msg) (s s' : state) : Prop :=
  match m with
  | MTransferPositions ids _ => forall id, ~ In id ids -> find_pos s' id = find_pos s id   (* only the listed positions move *)
  | _ => pos_rel a s s'
  end.
Definition denom_clause (a : addr) (m : msg) (s s' : state) : Prop :=
  match m with
  | MChangeAdmin d _ => forall d', d' <> d -> find_denom s' d' = find_denom s d'          (* only the addressed denom changes hands *)
  | _ => denom_rel a s s'
  end.

Definition frame (a : addr) (m : msg) (s s' : state) : Prop :=
  wf s' /\ same_cfg s s' /\ lock_rel a s s' /\ pos_clause a m s s' /\ denom_clause a m s s'.

Lemma frame_of_L a m s s' :
  (match m with MTransferPositions _ _ | MChangeAdmin _ _ => False | _ => True end) -> L a s s' -> frame a m s s'.
Proof.
  intros Hm (A & B & C & D & E). split; [exact B|]. split; [exact E|]. split; [exact A|].
  split; destruct m; try contradiction; cbn; try (apply pos_rel_same, C); apply denom_rel_same, D.
Qed.
Lemma frame_of_P a m s s' :
  (match m with MTransferPositions _ _ | MChangeAdmin _ _ => False | _ => True end) -> P a s s' -> frame a m s s'.
Proof.
  intros Hm (A & B & C & D & E). split; [exact B|]. split; [exact E|]. split; [apply lock_rel_same, C|].
  split; destruct m; try contradiction; cbn; try exact A; apply denom_rel_same, D.
Qed.
Lemma frame_of_D a m s s' :
  (match m with MTransferPositions _ _ | MChangeAdmin _ _ => False | _ => True end) -> Dn a s s' -> frame a m s s'.
Proof.
  intros Hm (A & B & C & D & E). split; [exact B|]. split; [exact E|]. split; [apply lock_rel_same, C|].
  split; destruct m; try contradiction; cbn; try (apply pos_rel_same, D); exact A.
Qed.

Lemma frame_handle e s a m s' : wf s -> handle e s a m = inl s' -> frame a m s s'.
Proof.
  intros W H. destruct m; cbn [handle] in H.
  - apply frame_of_P; [exact I|]. eapply withdraw_position_P; eauto.
  - apply frame_of_P; [exact I|]. eapply add_to_position_P; eauto.
  - destruct (transfer_positions_T _ _ _ _ _ W H) as (A & B & C & D & E).
    split; [exact B|]. split; [exact E|]. split; [apply lock_rel_same, C|]. split; [exact A|apply denom_rel_same, D].
  - apply collect_all_same in H. subst s'. apply frame_of_L; [exact I|apply L_refl, W].
  - apply collect_all_same in H. subst s'. apply frame_of_L; [exact I|apply L_refl, W].
  - apply frame_of_L; [exact I|]. eapply msg_begin_unlocking_L; eauto.
  - apply frame_of_L; [exact I|]. eapply msg_begin_unlocking_all_L; eauto.
  - apply frame_of_L; [exact I|]. eapply msg_extend_lockup_L; eauto.
  - apply frame_of_L; [exact I|]. eapply msg_set_reward_receiver_L; eauto.
  - apply frame_of_L; [exact I|]. eapply msg_force_unlock_L; eauto.
  - apply frame_of_L; [exact I|]. eapply sf_delegate_L; eauto.
  - apply frame_of_L; [exact I|]. eapply sf_undelegate_L; eauto.
  - apply frame_of_L; [exact I|]. destruct (unbond_lock s id a None) as [[s1 x]|] eqn:U; [|discriminate].
    injection H as <-. eapply unbond_lock_L; eauto.
  - apply frame_of_L; [exact I|]. eapply sf_undelegate_and_unbond_L; eauto.
  - apply frame_of_L; [exact I|]. eapply sf_lock_and_delegate_L; eauto.
  - apply frame_of_L; [exact I|]. eapply sf_unpool_L; eauto.
  - discriminate.
  - destruct (sf_add_to_cl_position_LP _ _ _ _ _ _ _ W H) as (A & B & C & D & E).
    split; [exact C|]. split; [exact E|]. split; [exact A|]. split; [exact B|apply denom_rel_same, D].
  - apply frame_of_L; [exact I|]. eapply sf_unbond_convert_and_stake_L; eauto.
  - apply frame_of_D; [exact I|]. eapply tf_create_denom_D; eauto.
  - apply frame_of_D; [exact I|]. eapply tf_mint_D; eauto.
  - apply frame_of_D; [exact I|]. eapply tf_burn_D; eauto.
  - apply frame_of_D; [exact I|]. eapply tf_force_transfer_D; eauto.
  - destruct (tf_change_admin_CA _ _ _ _ _ W H) as (A & B & C & D & E).
    split; [exact B|]. split; [exact E|]. split; [apply lock_rel_same, C|]. split; [apply pos_rel_same, D|exact A].
  - apply frame_of_D; [exact I|]. eapply tf_set_metadata_D; eauto.
  - apply frame_of_D; [exact I|]. eapply tf_set_hook_D; eauto.
Qed.

(* an accepted message leaves everything that is not the sender's exactly as it was *)
Lemma accepted_touches_only_own e s a m s' : wf s -> step e s a m = (s', Ok) -> frame a m s s'.
Proof. intros W H. apply step_ok_handle in H. eapply frame_handle; eauto. Qed.

(* the id discipline is an invariant of every run, accepted or rejected steps alike *)
Lemma step_wf e s a m s' r : wf s -> step e s a m = (s', r) -> wf s'.
Proof.
  intros W H. destruct r.
  - apply (accepted_touches_only_own _ _ _ _ _ W H).
  - apply error_leaves_state in H. subst s'. exact W.
Qed.

(* a history: any sequence of messages from any senders, each with its own outcome of the unmodelled arithmetic *)
Fixpoint run (s : state) (h : list (env * addr * msg)) : state :=
  match h with
  | [] => s
  | (e, a, m) :: r => run (fst (step e s a m)) r
  end.

Lemma run_wf h : forall s, wf s -> wf (run s h).
Proof.
  induction h as [|[[e a] m] r IH]; intros s W; cbn [run]; [exact W|].
  apply IH. destruct (step e s a m) as [s1 x] eqn:E. eapply step_wf; eauto.
Qed.

Definition empty_tables (s : state) : Prop := locks s = [] /\ positions s = [].
Lemma empty_wf s : empty_tables s -> wf s.
Proof. intros [H1 H2]. unfold wf. rewrite H1, H2. cbn. repeat split; try tauto. constructor. Qed.

(* namespace, for every message: whatever message is accepted from [a], a denom that appears is factory/{a}/... *)
Lemma new_denoms_in_senders_namespace e s a m s' :
  wf s -> step e s a m = (s', Ok) ->
  forall c sub x, find_denom s' (DFactory c sub) = Some x -> find_denom s (DFactory c sub) = None -> c = a.
Proof.
  intros W H c sub x Hx Hn. pose proof (accepted_touches_only_own _ _ _ _ _ W H) as (_ & _ & _ & _ & Hd).
  destruct m; cbn [denom_clause] in Hd; try (destruct Hd as (_ & _ & Hd); eapply Hd; eassumption).
  (* ChangeAdmin: keys do not change *)
  apply step_ok_handle in H. cbn [handle] in H. unfold tf_change_admin in H. break_if_in H; [discriminate|].
  destruct (find_denom s d) as [y|] eqn:F; [|discriminate].
  destruct (dk_eqb (DFactory c sub) d) eqn:E.
  - apply dk_eqb_eq in E. subst d. congruence.
  - rewrite Hd in Hx; [congruence|]. intros E'. rewrite E', dk_eqb_refl in E. discriminate.
Qed.

(* ownership of a lock never changes: whatever is found under an id keeps its owner as long as it is there *)
Lemma lock_owner_never_changes e s a m s' :
  wf s -> step e s a m = (s', Ok) ->
  forall id l l', find_lock s id = Some l -> find_lock s' id = Some l' -> l_owner l' = l_owner l.
Proof.
  intros W H id l l' Hl Hl'. pose proof (accepted_touches_only_own _ _ _ _ _ W H) as (_ & _ & [A B] & _).
  destruct (Z.eq_dec (l_owner l) a) as [E|E].
  - destruct (Z.eq_dec (l_owner l') a) as [E'|E']; [congruence|]. apply B in Hl'; [|exact E']. congruence.
  - apply A in Hl; [|exact E]. congruence.
Qed.

(* a position changes owner only by TransferPositions naming it *)
Lemma position_owner_changes_only_by_transfer e s a m s' :
  wf s -> step e s a m = (s', Ok) ->
  forall id p p', find_pos s id = Some p -> find_pos s' id = Some p' -> p_owner p' <> p_owner p ->
  exists ids rcp, m = MTransferPositions ids rcp /\ In id ids.
Proof.
  intros W H id p p' Hp Hp' Hne. pose proof (accepted_touches_only_own _ _ _ _ _ W H) as (_ & _ & _ & Hc & _).
  assert (Hgen : pos_rel a s s' -> False).
  { intros [A B]. destruct (Z.eq_dec (p_owner p) a) as [E|E].
    - destruct (Z.eq_dec (p_owner p') a) as [E'|E']; [congruence|]. apply B in Hp'; [|exact E']. congruence.
    - apply A in Hp; [|exact E]. congruence. }
  destruct m; cbn [pos_clause] in Hc; try (exfalso; apply Hgen; exact Hc).
  exists ids, new_owner. split; [reflexivity|].
  destruct (in_dec Z.eq_dec id ids) as [Hin|Hni]; [exact Hin|]. rewrite (Hc id Hni) in Hp'. congruence.
Qed.

(* ------------------------------------------------------------------------------------------ *)
(* handing over: after a transfer / admin change the authority lies with the new owner only     *)
(* ------------------------------------------------------------------------------------------ *)

Lemma transfer_one_sets_owner s a rcp id s1 : transfer_one s a rcp id = inl s1 ->
  exists q, find_pos s1 id = Some q /\ p_owner q = rcp.
Proof.
  unfold transfer_one. destruct (find_pos s id) as [p|] eqn:F; [|discriminate].
  intros H. ok_path H. injection H as <-.
  set (q := mkPos id rcp (p_pool p) (p_liq p) 0 (p_full p)). exists q. split; [|reflexivity].
  rewrite fp_set, replace_pos_k. rewrite find_pos_k in F. apply (findk_replace_same p_id q _ p). exact F.
Qed.

Lemma transfer_one_keeps_other s a rcp id s1 id' : transfer_one s a rcp id = inl s1 -> id' <> id -> find_pos s1 id' = find_pos s id'.
Proof.
  unfold transfer_one. destruct (find_pos s id) as [p|] eqn:F; [|discriminate].
  intros H Hne. ok_path H. injection H as <-. rewrite fp_set, replace_pos_k, find_pos_k.
  apply (findk_replace_other p_id). cbn [p_id]. congruence.
Qed.

Lemma transfer_all_sets_owner a rcp ids : forall s s', nodupz ids = true -> transfer_all s a rcp ids = inl s' ->
  forall id, In id ids -> exists q, find_pos s' id = Some q /\ p_owner q = rcp.
Proof.
  induction ids as [|i r IH]; intros s s' Hnd H id Hin; [destruct Hin|].
  cbn [transfer_all nodupz] in *. apply andb_true_iff in Hnd. destruct Hnd as [Hni Hnd]. apply negb_true_iff in Hni.
  destruct (transfer_one s a rcp i) as [s1|] eqn:E; [|discriminate].
  destruct (Z.eq_dec id i) as [->|Hne].
  - (* the later transfers do not name i again *)
    destruct (transfer_one_sets_owner _ _ _ _ _ E) as (q & Fq & Oq). exists q. split; [|exact Oq].
    assert (G : forall ids' s2 s3, transfer_all s2 a rcp ids' = inl s3 -> ~ In i ids' -> find_pos s3 i = find_pos s2 i).
    { induction ids' as [|j r' IH']; intros s2 s3 H2 Hn; cbn [transfer_all] in H2; [injection H2 as <-; reflexivity|].
      destruct (transfer_one s2 a rcp j) as [s4|] eqn:E4; [|discriminate].
      rewrite (IH' _ _ H2); [|intros X; apply Hn; right; exact X].
      apply (transfer_one_keeps_other _ _ _ _ _ _ E4). intros ->. apply Hn. left; reflexivity. }
    rewrite (G r s1 s' H); [exact Fq|]. intros X. apply memz_In in X. congruence.
  - destruct Hin as [->|Hin]; [contradiction|]. eapply IH; eauto.
Qed.

(* after an accepted TransferPositions every listed position belongs to the new owner: the previous owner (and whoever
   else) is no longer authorised for it, the new owner is *)
Lemma transfer_hands_over e s a ids rcp s' :
  step e s a (MTransferPositions ids rcp) = (s', Ok) ->
  forall id, In id ids -> forall x, owns_pos s' x id = (x =? rcp).
Proof.
  intros H id Hin x. apply step_ok_handle in H. cbn [handle] in H. unfold transfer_positions in H.
  destruct (nodupz ids) eqn:Hnd; [|discriminate]. cbn [negb] in H.
  destruct (transfer_all_sets_owner _ _ _ _ _ Hnd H id Hin) as (q & Fq & Oq).
  unfold owns_pos. rewrite Fq, Oq. apply Z.eqb_sym.
Qed.

(* after an accepted ChangeAdmin the denom's admin is exactly the new one ("" = nobody) *)
Lemma change_admin_hands_over e s a d new s' :
  step e s a (MChangeAdmin d new) = (s', Ok) -> admin_of s' d = new.
Proof.
  intros H. apply step_ok_handle in H. cbn [handle] in H. unfold tf_change_admin in H. break_if_in H; [discriminate|].
  destruct (find_denom s d) as [x|] eqn:F; [|discriminate]. injection H as <-.
  pose proof (find_denom_key _ _ _ F) as E. subst d. unfold admin_of. rewrite find_denom_fd in *. cbn [denoms set_denoms].
  set (q := mkDenom (d_creator x) (d_sub x) new (d_hook x) (d_desc x)).
  change (match fd (d_creator q) (d_sub q) (replace_denom q (denoms s)) with Some x0 => d_admin x0 | None => None end = new).
  rewrite (fd_replace_same q (denoms s) x F). reflexivity.
Qed.

Lemma change_admin_previous_admin_powerless e s a d new s' x :
  step e s a (MChangeAdmin d new) = (s', Ok) -> new <> Some x -> is_admin s' d x = false.
Proof.
  intros H Hne. unfold is_admin. rewrite (change_admin_hands_over _ _ _ _ _ _ H).
  destruct new as [y|]; [|reflexivity]. cbn. apply Z.eqb_neq. congruence.
Qed.
