(* C02 correspondence glue: the gamm keeper + router model is run with a TABLE-DRIVEN pool math - the amounts the real
   balancer / stableswap pools computed on this very history (probes of harness/routerdrv c02_test.go) - so that what is
   compared with the implementation after every message is the keeper's own bookkeeping: which coins move between which
   accounts, what is minted and burnt, how the pool record is updated, the keeper's own arithmetic (needed liquidity of
   an all-asset join, taker fees), limit checks and error classes. *)
From Coq Require Import ZArith List Bool.
Import ListNotations.
From Osmo Require Import Base.Obs C05.Model C02.Model.
Open Scope Z_scope.

(* op: 0 out-given-in, 1 in-given-out, 4 all-asset join, 5 single-asset join, 6 token in for shares, 7 exit,
   8 shares for a single-asset exit.  msg / ver identify the pool's state: index of the running message, number of
   record updates made by it so far. *)
Record gentry := mkGE {
  ge_msg : Z; ge_op : Z; ge_pool : Z; ge_ver : Z; ge_a : Z; ge_b : Z; ge_c : Z; ge_s : Z; ge_v : list Z;
  ge_ok : bool; ge_r : Z; ge_rv : list Z }.

Definition ND : Z := 8.      (* ordinary denominations 0..7, in the lexicographic order of their names *)

Fixpoint zrange (i : Z) (n : nat) : list Z := match n with O => [] | S k => i :: zrange (i + 1) k end.
Definition vec_of (coins : list (Z * Z)) : list Z := map (lookup coins) (zrange 0 (Z.to_nat ND)).
Fixpoint coins_from (i : Z) (v : list Z) : list (Z * Z) :=
  match v with
  | [] => []
  | a :: r => if a =? 0 then coins_from (i + 1) r else (i, a) :: coins_from (i + 1) r
  end.

Definition ge_match (op : Z) (p : gpool) (a b c s : Z) (v : list Z) (e : gentry) : bool :=
  (ge_msg e =? fst (gp_ver p)) && (ge_op e =? op) && (ge_pool e =? gp_id p) && (ge_ver e =? snd (gp_ver p))
  && (ge_a e =? a) && (ge_b e =? b) && (ge_c e =? c) && (ge_s e =? s) && zlist_eqb (ge_v e) v.

Definition t_scalar (tbl : list gentry) (op : Z) (p : gpool) (a b c s : Z) (v : list Z) : result Z :=
  match find (ge_match op p a b c s v) tbl with
  | None => Err ETable
  | Some e => if ge_ok e then Ok (ge_r e) else Err EPool
  end.

Definition table_math (tbl : list gentry) : PoolMath := {|
  m_out_given_in := fun p dIn amt dOut sp => t_scalar tbl 0 p dIn amt dOut sp [];
  m_in_given_out := fun p dOut amt dIn sp => t_scalar tbl 1 p dOut amt dIn sp [];
  m_join_noswap := fun p need =>
    match find (ge_match 4 p 0 0 0 0 (vec_of need)) tbl with
    | None => Err ETable
    | Some e => if ge_ok e then Ok (ge_r e, coins_from 0 (ge_rv e)) else Err EPool
    end;
  m_join_single := fun p dIn amt => t_scalar tbl 5 p dIn amt 0 0 [];
  m_in_for_shares := fun p dIn shares => t_scalar tbl 6 p dIn shares 0 0 [];
  m_exit := fun p shares =>
    match find (ge_match 7 p 0 shares 0 0 []) tbl with
    | None => Err ETable
    | Some e => if ge_ok e then Ok (coins_from 0 (ge_rv e)) else Err EPool
    end;
  m_shares_for_out := fun p dOut amt => t_scalar tbl 8 p dOut amt 0 0 [] |}.

Record gcase := mkGCase {
  gc_fees : list Z;               (* ND x ND taker fees *)
  gc_wl : list Z;                 (* actors on the reduced-taker-fee whitelist *)
  gc_skim : list Z;               (* per denom: skim percent of its taker-fee share agreement, -1 = none *)
  gc_exempt : list Z;             (* actors exempt from the pool creation fee *)
  gc_cfee : list Z;               (* pool creation fee per ordinary denom *)
  gc_bal0 : list (list Z);        (* rows: actors 0..2, pool slots 0..3, collector, community; columns: 6 denoms + 4 share denoms *)
  gc_sup0 : list Z;               (* supply per column *)
  gc_tbl : list gentry;
  gc_msgs : list gmsg;
  gc_expect : list Z }.

Definition NPOOL : Z := 4.       (* pool slot i holds pool id i + 1; its share denom is column ND + i *)
Definition nthz {A} (l : list A) (i : Z) (d : A) : A := if i <? 0 then d else nth (Z.to_nat i) l d.
Definition col_of (d : Z) : Z := if d <? 100 then d else ND + (d - 101).
Definition denom_of_col (c : Z) : Z := if c <? ND then c else 101 + (c - ND).
Definition row_of (a : acct) : Z :=
  match a with
  | Trader n => n
  | PoolAcc id => 3 + (id - 1)
  | Collector => 3 + NPOOL
  | Community => 4 + NPOOL
  end.
Definition in_rows (a : acct) : bool :=
  match a with
  | Trader n => (0 <=? n) && (n <? 3)
  | PoolAcc id => (1 <=? id) && (id <=? NPOOL)
  | _ => true
  end.
Definition init_bank (c : gcase) : bank :=
  fun a d => if in_rows a && (0 <=? col_of d) && (col_of d <? ND + NPOOL)
             then nthz (nthz (gc_bal0 c) (row_of a) []) (col_of d) 0 else 0.

Definition mem (l : list Z) (x : Z) : bool := existsb (Z.eqb x) l.

Definition init_gstate (c : gcase) : gstate (table_math (gc_tbl c)) :=
  mkG (table_math (gc_tbl c))
      (@mkState (GP (table_math (gc_tbl c))) [] (init_bank c)
                (fun a b => nthz (gc_fees c) (a * ND + b) 0)
                (fun a => match a with Trader n => mem (gc_wl c) n | _ => false end)
                (fun d => let v := nthz (gc_skim c) d (-1) in if v <? 0 then None else Some v))
      (fun d => if (0 <=? col_of d) && (col_of d <? ND + NPOOL) then nthz (gc_sup0 c) (col_of d) 0 else 0)
      1
      (fun _ _ => 0)
      (coins_from 0 (gc_cfee c))
      (fun a => match a with Trader n => mem (gc_exempt c) n | _ => false end).

(* before message i every pool's version is reset to (i, 0) *)
Definition stamp (i : Z) (p : gpool) : gpool :=
  mkGP (gp_id p) (gp_liq p) (gp_shares p) (gp_spread p) (gp_exit_fee p) (gp_ext p) (i, 0).
Definition stamp_state {M} (i : Z) (s : gstate M) : gstate M :=
  with_rs M s (@mkState (GP M) (map (fun kp => (fst kp, stamp i (snd kp))) (pools (rs M s))) (bal (rs M s)) (taker_fee (rs M s))
                       (whitelisted (rs M s)) (skim (rs M s))).

Definition code (e : err) : Z := match e with ELimit => 1 | _ => 2 end.
Definition flat_res (r : result Z) : list Z := match r with Ok v => [0; v] | Err e => [code e; 0] end.

Definition accts : list acct :=
  [Trader 0; Trader 1; Trader 2; PoolAcc 1; PoolAcc 2; PoolAcc 3; PoolAcc 4; Collector; Community].
Definition cols : list Z := map denom_of_col (zrange 0 (Z.to_nat (ND + NPOOL))).

Definition flat_state {M} (s : gstate M) : list Z :=
  flat_map (fun a => map (bal (rs M s) a) cols) accts
  ++ flat_map (fun id => match get_pool (GP M) (pools (rs M s)) id with
                         | Some p => vec_of (gp_liq p) ++ [gp_shares p]
                         | None => vec_of [] ++ [0]
                         end) (zrange 1 (Z.to_nat NPOOL))
  ++ map (supply M s) cols.

Fixpoint run_msgs {M} (i : Z) (s : gstate M) (ms : list gmsg) : list Z :=
  match ms with
  | [] => []
  | m :: r => let '(s1, res) := gstep M (stamp_state i s) m in
              flat_res res ++ flat_state s1 ++ run_msgs (i + 1) s1 r
  end.

Definition model_obs (c : gcase) : list Z := run_msgs 0 (init_gstate c) (gc_msgs c).
Definition case_ok (c : gcase) : bool := zlist_eqb (model_obs c) (gc_expect c).
