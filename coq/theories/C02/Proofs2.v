(* C02 proofs, part 2: the invariant, the single-pool update lemma, the keeper's primitives. *)
From Coq Require Import ZArith List Bool Lia.
Import ListNotations.
From Osmo Require Import Base.DecModel C05.Model C05.Proofs C02.Model C02.Proofs.
Open Scope Z_scope.

Section WithMath.
Variable M : PoolMath.

Notation GPM := (GP M).
Notation getp := (get_pool GPM).

(* ------------------------------------------------------------------ pool table *)
Lemma get_put_same : forall l id p p', getp l id = Some p -> getp (put_pool GPM l id p') id = Some p'.
Proof.
  induction l as [|[k q] r IH]; intros; simpl in *; [discriminate|].
  destruct (k =? id) eqn:E; simpl; rewrite E; [reflexivity|]. eapply IH; eauto.
Qed.

Lemma get_put_none : forall l id p' id', getp l id' = None -> getp (put_pool GPM l id p') id' = None.
Proof.
  induction l as [|[k q] r IH]; intros; simpl in *; [reflexivity|].
  destruct (k =? id') eqn:E; [discriminate|].
  destruct (k =? id) eqn:E2; simpl; rewrite E; [assumption|]. apply IH; assumption.
Qed.

Lemma get_put : forall l id p' id',
  getp (put_pool GPM l id p') id' =
  if id' =? id then match getp l id with Some _ => Some p' | None => None end else getp l id'.
Proof.
  intros. destruct (id' =? id) eqn:E.
  - apply Z.eqb_eq in E; subst. destruct (getp l id) eqn:G.
    + eapply get_put_same; eauto.
    + apply get_put_none; assumption.
  - apply get_put_other. apply Z.eqb_neq in E. assumption.
Qed.

Lemma get_app : forall l id p id',
  getp (l ++ [(id, p)]) id' = match getp l id' with Some q => Some q | None => if id =? id' then Some p else None end.
Proof.
  induction l as [|[k q] r IH]; intros; simpl; [destruct (id =? id'); reflexivity|].
  destruct (k =? id'); [reflexivity|]. apply IH.
Qed.

(* ------------------------------------------------------------------ the invariant *)
Record InvR (r : state GPM) (sup : Z -> Z) (dir : Z -> Z -> Z) (nid : Z) : Prop := {
  inv_bank : forall id p, getp (pools r) id = Some p -> forall d, bal r (PoolAcc id) d = res p d + dir id d;
  inv_shares : forall id p, getp (pools r) id = Some p -> sup (share_denom id) = gp_shares p;
  inv_ids : forall id p, getp (pools r) id = Some p -> 1 <= id < nid;
  inv_next : 1 <= nid;
  inv_pos : forall id p d, getp (pools r) id = Some p -> has_key (gp_liq p) d = true -> 0 < res p d;
  inv_future_bank : forall id d, nid <= id -> bal r (PoolAcc id) d = dir id d;
  inv_future_supply : forall id, nid <= id -> sup (share_denom id) = 0 }.

Definition Inv (s : gstate M) : Prop := InvR (rs M s) (supply M s) (direct M s) (next_id M s).

(* one pool's record and bank account change by the same vector, its share total and share supply by the same number *)
Lemma InvR_update : forall r sup dir nid r' sup' id p p' (delta : Z -> Z) sigma,
  InvR r sup dir nid ->
  getp (pools r) id = Some p ->
  pools r' = put_pool GPM (pools r) id p' ->
  (forall id' x, bal r' (PoolAcc id') x = bal r (PoolAcc id') x + ind (id' =? id) (delta x)) ->
  (forall x, res p' x = res p x + delta x) ->
  (forall x, sup' x = sup x + ind (x =? share_denom id) sigma) ->
  gp_shares p' = gp_shares p + sigma ->
  (forall x, has_key (gp_liq p') x = true -> 0 < res p' x) ->
  InvR r' sup' dir nid.
Proof.
  intros r sup dir nid r' sup' id p p' delta sigma I G HP HB HR HS HSh HPos.
  pose proof (inv_ids _ _ _ _ I id p G) as Hid.
  constructor.
  - intros id' q Gq d. rewrite HP, get_put in Gq. rewrite HB.
    destruct (id' =? id) eqn:E.
    + apply Z.eqb_eq in E; subst id'. rewrite G in Gq. inversion Gq; subst q.
      rewrite HR, (inv_bank _ _ _ _ I id p G). unfold ind. lia.
    + rewrite (inv_bank _ _ _ _ I id' q Gq). unfold ind. lia.
  - intros id' q Gq. rewrite HP, get_put in Gq. rewrite HS. unfold share_denom.
    destruct (id' =? id) eqn:E.
    + apply Z.eqb_eq in E; subst id'. rewrite G in Gq. inversion Gq; subst q.
      rewrite Z.eqb_refl. rewrite HSh, <- (inv_shares _ _ _ _ I id p G). unfold ind, share_denom. lia.
    + assert (X : 100 + id' =? 100 + id = false) by (apply Z.eqb_neq; apply Z.eqb_neq in E; lia).
      rewrite X. rewrite <- (inv_shares _ _ _ _ I id' q Gq). unfold ind, share_denom. lia.
  - intros id' q Gq. rewrite HP, get_put in Gq. destruct (id' =? id) eqn:E.
    + apply Z.eqb_eq in E; subst. assumption.
    + eapply inv_ids; eauto.
  - eapply inv_next; eauto.
  - intros id' q d Gq Hk. rewrite HP, get_put in Gq. destruct (id' =? id) eqn:E.
    + rewrite G in Gq. inversion Gq; subst q. apply HPos; assumption.
    + eapply inv_pos; eauto.
  - intros id' d Hge. rewrite HB. assert (X : id' =? id = false) by (apply Z.eqb_neq; lia).
    rewrite X. unfold ind. rewrite (inv_future_bank _ _ _ _ I id' d Hge). lia.
  - intros id' Hge. rewrite HS. unfold share_denom.
    assert (X : 100 + id' =? 100 + id = false) by (apply Z.eqb_neq; lia).
    rewrite X. unfold ind. pose proof (inv_future_supply _ _ _ _ I id' Hge) as F. unfold share_denom in F. lia.
Qed.

(* ------------------------------------------------------------------ primitives on the chain state *)
Lemma mint_shares_spec : forall s to id amt s',
  mint_shares M s to id amt = Ok s' ->
  0 <= amt /\
  (forall a x, bal (rs M s') a x = bal (rs M s) a x + ind (at_ a to x (share_denom id)) amt) /\
  (forall x, supply M s' x = supply M s x + ind (x =? share_denom id) amt) /\
  pools (rs M s') = pools (rs M s) /\ next_id M s' = next_id M s /\ direct M s' = direct M s /\
  taker_fee (rs M s') = taker_fee (rs M s) /\ whitelisted (rs M s') = whitelisted (rs M s) /\
  creation_fee M s' = creation_fee M s /\ fee_exempt M s' = fee_exempt M s.
Proof.
  unfold mint_shares; intros. destruct (amt <? 0) eqn:E; [discriminate|]. apply Z.ltb_ge in E.
  inversion H; subst; clear H. simpl. repeat split; auto.
  - intros. rewrite bal_set_spec. unfold ind. destruct (at_ a to x (share_denom id)) eqn:A; [|lia].
    unfold at_ in A. apply andb_prop in A. destruct A as [A1 A2]. apply acct_eqb_eq in A1. apply Z.eqb_eq in A2. subst. lia.
  - intros. unfold fun_add, ind. destruct (x =? share_denom id); lia.
Qed.

Lemma burn_shares_spec : forall s from id amt s',
  burn_shares M s from id amt = Ok s' ->
  0 < amt /\ amt <= bal (rs M s) from (share_denom id) /\
  (forall a x, bal (rs M s') a x = bal (rs M s) a x - ind (at_ a from x (share_denom id)) amt) /\
  (forall x, supply M s' x = supply M s x - ind (x =? share_denom id) amt) /\
  pools (rs M s') = pools (rs M s) /\ next_id M s' = next_id M s /\ direct M s' = direct M s /\
  taker_fee (rs M s') = taker_fee (rs M s) /\ whitelisted (rs M s') = whitelisted (rs M s) /\
  creation_fee M s' = creation_fee M s /\ fee_exempt M s' = fee_exempt M s.
Proof.
  unfold burn_shares; intros. destruct (amt <=? 0) eqn:E; [discriminate|]. apply Z.leb_gt in E.
  destruct (bal (rs M s) from (share_denom id) <? amt) eqn:E2; [discriminate|]. apply Z.ltb_ge in E2.
  inversion H; subst; clear H. simpl. repeat split; auto.
  - intros. rewrite bal_set_spec. unfold ind. destruct (at_ a from x (share_denom id)) eqn:A; [|lia].
    unfold at_ in A. apply andb_prop in A. destruct A as [A1 A2]. apply acct_eqb_eq in A1. apply Z.eqb_eq in A2. subst. lia.
  - intros. unfold fun_add, ind. destruct (x =? share_denom id); lia.
Qed.

Lemma apply_join_spec : forall s id p' joiner shares coins s',
  apply_join M s id p' joiner shares coins = Ok s' ->
  0 <= shares /\ coins_ok coins = true /\
  (forall a x, bal (rs M s') a x = bal (rs M s) a x + ind (acct_eqb a (PoolAcc id)) (csum coins x)
                                   - ind (acct_eqb a joiner) (csum coins x) + ind (at_ a joiner x (share_denom id)) shares) /\
  (forall x, supply M s' x = supply M s x + ind (x =? share_denom id) shares) /\
  pools (rs M s') = put_pool GPM (pools (rs M s)) id p' /\ next_id M s' = next_id M s /\ direct M s' = direct M s /\
  taker_fee (rs M s') = taker_fee (rs M s) /\ whitelisted (rs M s') = whitelisted (rs M s) /\
  creation_fee M s' = creation_fee M s /\ fee_exempt M s' = fee_exempt M s.
Proof.
  unfold apply_join; intros.
  destruct (send_coins (bal (rs M s)) joiner (PoolAcc id) coins) as [b|] eqn:E; [|discriminate].
  apply send_coins_spec in E. destruct E as (Cok & Sb).
  destruct (mint_shares M (with_bank M s b) joiner id shares) as [s1|] eqn:E2; [|discriminate].
  apply mint_shares_spec in E2. destruct E2 as (Pz & Sm & Ss & Sp & Sn & Sd & St & Sw & Sc & Sf).
  inversion H; subst; clear H. simpl in *.
  repeat split; auto.
  - intros. rewrite Sm, Sb. lia.
  - rewrite Sp. reflexivity.
Qed.

Lemma apply_exit_spec : forall s id p' exiter shares coins s',
  apply_exit M s id p' exiter shares coins = Ok s' ->
  0 < shares /\ coins_ok coins = true /\
  (forall a x, bal (rs M s') a x = bal (rs M s) a x - ind (acct_eqb a (PoolAcc id)) (csum coins x)
                                   + ind (acct_eqb a exiter) (csum coins x) - ind (at_ a exiter x (share_denom id)) shares) /\
  (forall x, supply M s' x = supply M s x - ind (x =? share_denom id) shares) /\
  pools (rs M s') = put_pool GPM (pools (rs M s)) id p' /\ next_id M s' = next_id M s /\ direct M s' = direct M s /\
  taker_fee (rs M s') = taker_fee (rs M s) /\ whitelisted (rs M s') = whitelisted (rs M s) /\
  creation_fee M s' = creation_fee M s /\ fee_exempt M s' = fee_exempt M s.
Proof.
  unfold apply_exit; intros.
  destruct (send_coins (bal (rs M s)) (PoolAcc id) exiter coins) as [b|] eqn:E; [|discriminate].
  apply send_coins_spec in E. destruct E as (Cok & Sb).
  destruct (burn_shares M (with_bank M s b) exiter id shares) as [s1|] eqn:E2; [|discriminate].
  apply burn_shares_spec in E2. destruct E2 as (Pz & _ & Sm & Ss & Sp & Sn & Sd & St & Sw & Sc & Sf).
  inversion H; subst; clear H. simpl in *.
  repeat split; auto.
  - intros. rewrite Sm, Sb. lia.
  - rewrite Sp. reflexivity.
Qed.

End WithMath.
