(* C02 proofs, part 3: every keeper operation and every router hop preserves the invariant. *)
From Coq Require Import ZArith List Bool Lia.
Import ListNotations.
From Osmo Require Import Base.DecModel C05.Model C05.Proofs C02.Model C02.Proofs C02.Proofs2.
Open Scope Z_scope.

(* the laws of the pool math the conservation argument relies on (discharged for the concrete math of C02/Instance.v,
   measured on the real pools by the oracle: they are exactly "the record moves by what the bank moves") *)
Record MathLaws (M : PoolMath) : Prop := {
  (* the all-asset join of exactly the needed liquidity leaves no remainder *)
  ml_join : forall p need sh rem, m_join_noswap M p need = Ok (sh, rem) -> rem = [];
  (* exits never take a whole reserve (CalcExitPool: "exitAmt >= asset.Amount" is an error) *)
  ml_exit : forall p sh coins, m_exit M p sh = Ok coins -> forall x, 0 < csum coins x -> csum coins x < res p x;
  ml_exit_single : forall p d amt sh, m_shares_for_out M p d amt = Ok sh -> amt < res p d }.

Section WithMath.
Variable M : PoolMath.
Hypothesis ML : MathLaws M.

Notation GPM := (GP M).
Notation getp := (get_pool GPM).

(* ------------------------------------------------------------------ small facts *)
Lemma has_key_In : forall l k, has_key l k = true <-> In k (map fst l).
Proof.
  induction l as [|[k0 v] r IH]; intros; simpl; [split; [discriminate|tauto]|].
  rewrite orb_true_iff, IH, Z.eqb_eq. tauto.
Qed.

Lemma csum_nonneg : forall coins x, coins_ok coins = true -> 0 <= csum coins x.
Proof.
  induction coins as [|[d a] r IH]; intros; simpl in *; [lia|].
  apply andb_prop in H. destruct H as [H1 H2]. apply Z.ltb_lt in H1.
  specialize (IH x H2). unfold ind. destruct (x =? d); lia.
Qed.

Lemma needed_lp_spec : forall liq ratio need, needed_lp liq ratio = Ok need ->
  map fst need = map fst liq /\ coins_ok need = true.
Proof.
  induction liq as [|[d a] r IH]; intros; cbn [needed_lp] in H.
  - inversion H; subst. split; reflexivity.
  - destruct (d_round_int (d_ceil (d_mul (d_from_int a) ratio)) <=? 0) eqn:E; [discriminate|].
    destruct (needed_lp r ratio) as [l|] eqn:E2; [|discriminate].
    inversion H; subst. destruct (IH _ _ E2) as [I1 I2]. split; cbn [map fst coins_ok forallb snd]; [f_equal; assumption|].
    unfold coins_ok in I2. rewrite I2. apply Z.leb_gt in E. assert (X : 0 <? d_round_int (d_ceil (d_mul (d_from_int a) ratio)) = true) by (apply Z.ltb_lt; lia).
    rewrite X. reflexivity.
Qed.

Lemma sub_coins_nil : forall a, coins_ok a = true -> sub_coins a [] = Ok a.
Proof.
  induction a as [|[d v] r IH]; intros; simpl in *; [reflexivity|].
  apply andb_prop in H. destruct H as [H1 H2]. apply Z.ltb_lt in H1.
  rewrite Z.sub_0_r. assert (X : v <? 0 = false) by (apply Z.ltb_ge; lia). rewrite X.
  rewrite IH by assumption. assert (Y : v =? 0 = false) by (apply Z.eqb_neq; lia). rewrite Y. reflexivity.
Qed.

Lemma keys_covered : forall (need liq : list (Z * Z)), map fst need = map fst liq ->
  forallb (fun c => has_key liq (fst c)) need = true.
Proof.
  intros. apply forallb_forall. intros c Hc. apply has_key_In. rewrite <- H. apply in_map. assumption.
Qed.

Lemma pool_acc_eqb : forall a b, acct_eqb (PoolAcc a) (PoolAcc b) = (a =? b).
Proof. reflexivity. Qed.

(* a state whose pool table and pool-account balances are those of a good state is good *)
Lemma InvR_bank_irrelevant : forall r r' sup dir nid,
  InvR M r sup dir nid -> pools r' = pools r ->
  (forall id x, bal r' (PoolAcc id) x = bal r (PoolAcc id) x) -> InvR M r' sup dir nid.
Proof.
  intros r r' sup dir nid I HP HB. constructor; intros.
  - rewrite HP in H. rewrite HB. eapply inv_bank; eauto.
  - rewrite HP in H. eapply inv_shares; eauto.
  - rewrite HP in H. eapply inv_ids; eauto.
  - eapply inv_next; eauto.
  - rewrite HP in H. eapply inv_pos; eauto.
  - rewrite HB. eapply inv_future_bank; eauto.
  - eapply inv_future_supply; eauto.
Qed.

(* ------------------------------------------------------------------ the record update of a swap *)
Lemma apply_swap_spec : forall p dIn tin dOut tout p',
  apply_swap p dIn tin dOut tout = Ok p' -> 0 < tin -> dIn <> dOut ->
  (forall d, has_key (gp_liq p) d = true -> 0 < res p d) ->
  (forall x, res p' x = res p x + ind (x =? dIn) tin - ind (x =? dOut) tout) /\
  gp_shares p' = gp_shares p /\
  (forall x, has_key (gp_liq p') x = true -> 0 < res p' x).
Proof.
  unfold apply_swap; intros p dIn tin dOut tout p' H Ptin Hne Hpos.
  destruct (has_key (gp_liq p) dIn) eqn:K1; [|discriminate].
  destruct (has_key (gp_liq p) dOut) eqn:K2; [|discriminate]. simpl in H.
  set (l := add_to (add_to (gp_liq p) dIn tin) dOut (- tout)) in *.
  assert (L : forall x, lookup l x = lookup (gp_liq p) x + ind (x =? dIn) tin - ind (x =? dOut) tout).
  { intros. unfold l. rewrite lookup_add_to, has_key_add_to, K2, lookup_add_to, K1. simpl. unfold ind.
    destruct (x =? dIn), (x =? dOut); lia. }
  assert (HK : forall x, has_key l x = has_key (gp_liq p) x).
  { intros. unfold l. rewrite !has_key_add_to. reflexivity. }
  assert (LIn : lookup l dIn = res p dIn + tin).
  { rewrite L. rewrite Z.eqb_refl. assert (X : dIn =? dOut = false) by (apply Z.eqb_neq; assumption). rewrite X.
    unfold ind, res. lia. }
  pose proof (Hpos dIn K1) as PIn.
  assert (Fin : forall q, q = with_liq p l (gp_shares p) ->
            (0 < lookup l dOut) ->
            (forall x, res q x = res p x + ind (x =? dIn) tin - ind (x =? dOut) tout) /\
            gp_shares q = gp_shares p /\ (forall x, has_key (gp_liq q) x = true -> 0 < res q x)).
  { intros q Hq Po. subst q. unfold res, with_liq; simpl. split; [exact L|]. split; [reflexivity|].
    intros x Hx. rewrite HK in Hx. rewrite L. specialize (Hpos x Hx). unfold res in Hpos.
    destruct (x =? dOut) eqn:E.
    - apply Z.eqb_eq in E; subst x. rewrite L in Po. rewrite Z.eqb_refl in Po.
      assert (X : dOut =? dIn = false) by (apply Z.eqb_neq; congruence). rewrite X in *. unfold ind in *. lia.
    - unfold ind. destruct (x =? dIn); lia. }
  destruct (gp_ext p).
  - destruct (lookup l dOut <=? 0) eqn:E1; [discriminate|]. apply Z.leb_gt in E1.
    destruct (lookup l dIn <? 0) eqn:E2; [discriminate|].
    assert (X : lookup l dIn =? 0 = false) by (apply Z.eqb_neq; lia). rewrite X in H.
    inversion H; subst. apply Fin; [reflexivity|assumption].
  - destruct ((lookup l dIn <=? 0) || (lookup l dOut <=? 0)) eqn:E; [discriminate|].
    apply orb_false_iff in E. destruct E as [_ E]. apply Z.leb_gt in E.
    inversion H; subst. apply Fin; [reflexivity|assumption].
Qed.

(* ------------------------------------------------------------------ the pool interface GP satisfies the two laws *)
Lemma GP_laws : PoolLaws GPM.
Proof.
  constructor; simpl; intros.
  - reflexivity.
  - reflexivity.
  - unfold gp_swap_in in H. destruct (m_out_given_in M p dIn amt dOut sp) as [out|]; [|discriminate].
    destruct (apply_swap p dIn amt dOut out); inversion H; subst. reflexivity.
  - unfold gp_swap_out in H. destruct (res p dOut <=? amt); [discriminate|].
    destruct (m_in_given_out M p dOut amt dIn sp) as [ti|]; [|discriminate].
    destruct (apply_swap p dIn ti dOut amt); inversion H; subst. reflexivity.
Qed.

(* ------------------------------------------------------------------ router hops *)
Section Hops.
Variables (sup : Z -> Z) (dir : Z -> Z -> Z) (nid : Z) (n : Z).
Notation I := (fun r => InvR M r sup dir nid).

Lemma settle_InvR : forall r pid p p' dIn tin dOut tout r',
  I r -> getp (pools r) pid = Some p ->
  settle GPM r (Trader n) pid p' dIn tin dOut tout = Ok r' -> dIn <> dOut ->
  (0 < tin -> (forall x, res p' x = res p x + ind (x =? dIn) tin - ind (x =? dOut) tout) /\
              gp_shares p' = gp_shares p /\ (forall x, has_key (gp_liq p') x = true -> 0 < res p' x)) ->
  I r'.
Proof.
  intros r pid p p' dIn tin dOut tout r' Ir G St Hne Hp.
  apply settle_inv in St. destruct St as (S1 & _ & _ & b1 & Sa & Sb).
  apply send_raw_spec in Sa. destruct Sa as (Ptin & _ & Sa).
  apply send_raw_spec in Sb. destruct Sb as (Ptout & _ & Sb).
  destruct (Hp Ptin) as (HR & HSh & HPos).
  eapply (InvR_update M r sup dir nid r' sup pid p p' (fun x => ind (x =? dIn) tin - ind (x =? dOut) tout) 0); eauto.
  - intros. rewrite Sb, Sa. unfold at_. cbn [acct_eqb]. rewrite !(Z.eqb_sym id' pid), !andb_false_l.
    unfold ind. destruct (pid =? id'); cbn [andb]; destruct (x =? dIn), (x =? dOut); lia.
  - intros. rewrite HR. lia.
  - intros. unfold ind. destruct (x =? share_denom pid); lia.
  - lia.
Qed.

Lemma module_in_InvR : forall r pid p dIn amt dOut minOut spread r' out,
  I r -> getp (pools r) pid = Some p ->
  module_swap_exact_in GPM r (Trader n) pid p dIn amt dOut minOut spread = Ok (r', out) -> I r'.
Proof.
  intros r pid p dIn amt dOut minOut spread r' out Ir G H.
  apply module_in_inv in H. destruct H as (p' & tin & SW & _ & _ & Hne & St).
  simpl in SW. unfold gp_swap_in in SW.
  destruct (m_out_given_in M p dIn amt dOut spread) as [o|]; [|discriminate].
  destruct (apply_swap p dIn amt dOut o) as [q|] eqn:A; [|discriminate].
  inversion SW; subst q tin o; clear SW.
  eapply settle_InvR; [exact Ir|exact G|exact St|exact Hne|]. intro Pt.
  eapply apply_swap_spec; eauto. intros d Hd. eapply (inv_pos M); [exact Ir|exact G|exact Hd].
Qed.

Lemma module_out_InvR : forall r pid p dIn maxIn dOut amtOut spread r' tin,
  I r -> getp (pools r) pid = Some p ->
  module_swap_exact_out GPM r (Trader n) pid p dIn maxIn dOut amtOut spread = Ok (r', tin) -> I r'.
Proof.
  intros r pid p dIn maxIn dOut amtOut spread r' tin Ir G H.
  apply module_out_inv in H. destruct H as (p' & tout & SW & _ & _ & Hne & St).
  simpl in SW. unfold gp_swap_out in SW.
  destruct (res p dOut <=? amtOut); [discriminate|].
  destruct (m_in_given_out M p dOut amtOut dIn spread) as [ti|]; [|discriminate].
  destruct (apply_swap p dIn ti dOut amtOut) as [q|] eqn:A; [|discriminate].
  inversion SW; subst q ti tout; clear SW.
  eapply settle_InvR; [exact Ir|exact G|exact St|exact Hne|]. intro Pt.
  eapply apply_swap_spec; eauto. intros d Hd. eapply (inv_pos M); [exact Ir|exact G|exact Hd].
Qed.

Lemma charge_InvR : forall r dIn amt dOut ex r1 after fee,
  I r -> charge_taker_fee GPM r (Trader n) dIn amt dOut ex = Ok (r1, (after, fee)) -> I r1.
Proof.
  intros r dIn amt dOut ex r1 after fee Ir H.
  pose proof (charge_inv GPM _ _ _ _ _ _ _ _ _ H) as (C1 & _ & _ & CW & CN).
  destruct (whitelisted r (Trader n)) eqn:W.
  - destruct (CW eq_refl) as (E & _). subst. assumption.
  - destruct (CN eq_refl) as (_ & S). apply send_new_spec in S. destruct S as (_ & S).
    eapply InvR_bank_irrelevant; [exact Ir|exact C1|]. intros. rewrite S. unfold at_. cbn [acct_eqb andb]. unfold ind. lia.
Qed.

Lemma pm_in_InvR : forall r pid dIn amt dOut m r' res0,
  I r -> pm_swap_exact_in GPM r (Trader n) pid dIn amt dOut m = Ok (r', res0) -> I r'.
Proof.
  intros r pid dIn amt dOut m r' [out fee] Ir H.
  apply pm_in_inv in H. destruct H as (p & r1 & after & G & _ & C & Md).
  pose proof (charge_inv GPM _ _ _ _ _ _ _ _ _ C) as (C1 & _).
  eapply module_in_InvR; [eapply charge_InvR; eauto| |eauto]. rewrite C1. assumption.
Qed.

Lemma out_hop_InvR : forall first r pid dIn maxIn dOut amtOut r' t,
  I r -> out_hop GPM first r (Trader n) pid dIn maxIn dOut amtOut = Ok (r', t) -> I r'.
Proof.
  intros first r pid dIn maxIn dOut amtOut r' t Ir H. unfold out_hop in H.
  destruct (getp (pools r) pid) as [p|] eqn:G; [|discriminate].
  destruct (negb (is_active GPM p)); [discriminate|].
  destruct (module_swap_exact_out GPM r (Trader n) pid p dIn maxIn dOut amtOut (spread_of GPM p)) as [[r1 cur]|] eqn:Md; [|discriminate].
  destruct (charge_taker_fee GPM r1 (Trader n) dIn cur dOut false) as [[r2 [after fee]]|] eqn:C; [|discriminate].
  destruct (first && (maxIn <? after)); [discriminate|]. inversion H; subst.
  eapply charge_InvR; [|exact C]. eapply module_out_InvR; [exact Ir|exact G|exact Md].
Qed.

(* every successful router message of a trader preserves the invariant *)
Lemma handle_InvR : forall r m r' v, msg_sender m = Trader n ->
  I r -> handle GPM r m = Ok (r', v) -> I r'.
Proof.
  intros r m r' v Hs Ir H.
  apply (handle_preserves GPM I (Trader n)) with (s := r) (m := m) (v := v).
  - intros s pid dIn amt dOut m0 s' r0 Is E. exact (pm_in_InvR s pid dIn amt dOut m0 s' r0 Is E).
  - intros first s pid dIn maxIn dOut amtOut s' t Is E. exact (out_hop_InvR first s pid dIn maxIn dOut amtOut s' t Is E).
  - intros s route dOutF amtF Is. rewrite (expected_ins_val GPM GP_laws). exact Is.
  - exact Hs.
  - exact Ir.
  - exact H.
Qed.
End Hops.

End WithMath.
