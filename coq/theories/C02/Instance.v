(* C02: a concrete, executable pool math satisfying [MathLaws] (so the conservation theorems are instantiated and
   runnable), and a concrete history used for the non-vacuity example of Properties/C02.v. *)
From Coq Require Import ZArith List Bool Lia.
Import ListNotations.
From Osmo Require Import Base.DecModel C05.Model C05.Proofs C02.Model C02.Proofs C02.Proofs2 C02.Proofs3 C02.Proofs4 C02.Proofs5.
Open Scope Z_scope.

(* constant-product swaps, pro-rata joins, a one-coin "proportional" exit and a linear single-asset exit price *)
Definition pm_out (p : gpool) (dIn amt dOut sp : Z) : result Z :=
  if (amt <=? 0) || negb (has_key (gp_liq p) dIn) || negb (has_key (gp_liq p) dOut) then Err EPool
  else Ok ((res p dOut * amt) / (res p dIn + amt)).
Definition pm_in (p : gpool) (dOut amt dIn sp : Z) : result Z :=
  if (amt <=? 0) || (res p dOut <=? amt) || negb (has_key (gp_liq p) dIn) then Err EPool
  else Ok ((res p dIn * amt) / (res p dOut - amt) + 1).
Definition pm_join_noswap (p : gpool) (need : list (Z * Z)) : result (Z * list (Z * Z)) :=
  match need with
  | [] => Err EPool
  | (d, a) :: _ => if res p d <=? 0 then Err EPool else Ok ((a * gp_shares p) / res p d, [])
  end.
Definition pm_join_single (p : gpool) (dIn amt : Z) : result Z :=
  if res p dIn <=? 0 then Err EPool else Ok ((amt * gp_shares p) / (2 * res p dIn)).
Definition pm_in_for_shares (p : gpool) (dIn shares : Z) : result Z :=
  if gp_shares p <=? 0 then Err EPool else Ok ((2 * shares * res p dIn) / gp_shares p + 1).
Definition pm_exit (p : gpool) (shares : Z) : result (list (Z * Z)) :=
  match gp_liq p with
  | [] => Err EPool
  | (d, a) :: _ =>
    if gp_shares p <=? 0 then Err EPool else
    let v := (a * shares) / gp_shares p in
    if (0 <? v) && (v <? res p d) then Ok [(d, v)] else Err EPool
  end.
Definition pm_shares_for_out (p : gpool) (dOut amt : Z) : result Z :=
  if (amt <? res p dOut) && (0 <? amt) then Ok ((amt * gp_shares p) / res p dOut + 1) else Err EPool.

Definition PM : PoolMath := {|
  m_out_given_in := pm_out;
  m_in_given_out := pm_in;
  m_join_noswap := pm_join_noswap;
  m_join_single := pm_join_single;
  m_in_for_shares := pm_in_for_shares;
  m_exit := pm_exit;
  m_shares_for_out := pm_shares_for_out |}.

Lemma PM_laws : MathLaws PM.
Proof.
  constructor; simpl.
  - unfold pm_join_noswap; intros. destruct need as [|[d a] r]; [discriminate|].
    destruct (res p d <=? 0); inversion H; reflexivity.
  - unfold pm_exit; intros p sh coins H x Hx. destruct (gp_liq p) as [|[d a] r] eqn:L; [discriminate|].
    destruct (gp_shares p <=? 0); [discriminate|].
    destruct ((0 <? a * sh / gp_shares p) && (a * sh / gp_shares p <? res p d)) eqn:E; [|discriminate].
    inversion H; subst. apply andb_prop in E. destruct E as [_ E]. apply Z.ltb_lt in E.
    rewrite csum_single in *. unfold ind in *. destruct (x =? d) eqn:X; [|lia]. apply Z.eqb_eq in X; subst. assumption.
  - unfold pm_shares_for_out; intros. destruct ((amt <? res p d) && (0 <? amt)) eqn:E; [|discriminate].
    apply andb_prop in E. destruct E as [E _]. apply Z.ltb_lt in E. assumption.
Qed.

(* a chain with three funded traders and no pool; creation fee 1000 of denom 5 *)
Definition g0 : gstate PM :=
  mkG PM (@mkState (GP PM) [] (fun a d => match a with Trader _ => if d <? 100 then 1000000000 else 0 | _ => 0 end)
                   (fun a b => 1500000000000000) (fun _ => false) (fun _ => None))
      (fun d => if d <? 100 then 3000000000 else 0) 1 (fun _ _ => 0) [(5, 1000)] (fun _ => false).

Definition history : list gmsg :=
  [ GCreate (Trader 0) true [(0, 5000000); (1, 6000000); (2, 7000000)] 3000000000000000 0;
    GCreate (Trader 1) false [(1, 10000000); (2, 10000000)] 1000000000000000 0;
    GJoin (Trader 1) 1 (10 * P18) [];
    GJoinExtern (Trader 2) 1 1 66000 1;
    GSwap (MSwapIn (Trader 1) [(1, 1); (2, 2)] 0 55000 1);
    GSend (Trader 0) (PoolAcc 1) 3 777;
    GSwap (MSwapOut (Trader 2) [(1, 0); (2, 1)] 100000 2 9967);
    GExit (Trader 1) 1 (5 * P18) [];
    GExitExternOut (Trader 0) 1 1 63384 (100 * P18);
    GJoin (Trader 2) 99 1000 [] ].

Lemma nonvacuous_witness :
  Inv PM g0 /\ Forall gmsg_wf history /\
  let s := grun PM g0 history in
  map (fun d => bal (rs PM s) (PoolAcc 1) d) [0; 1; 2; 3] = [5311826; 6526590; 7700000; 777] /\
  option_map (fun p => (gp_liq p, gp_shares p)) (get_pool (GP PM) (pools (rs PM s)) 1)
    = Some ([(0, 5311826); (1, 6526590); (2, 7700000)], 104534793991599966858) /\
  direct PM s 1 3 = 777 /\ supply PM s 101 = 104534793991599966858 /\
  supply PM s 0 = 3000000000 /\ bal (rs PM s) Collector 0 = 96 /\ bal (rs PM s) Community 5 = 2000.
Proof.
  split.
  - apply Inv_genesis; try reflexivity. intros. unfold g0, share_denom. cbn [supply].
    assert (X : 100 + id <? 100 = false) by (apply Z.ltb_ge; lia). rewrite X. reflexivity.
  - split.
    + repeat constructor; eexists; reflexivity.
    + vm_compute. repeat split; reflexivity.
Qed.
