(* C02 model - the classic-pool keeper (x/gamm) on top of the router model of C05, over bank balances AND supply.

   Mirrors, as written:
     x/gamm/keeper/pool_service.go  InitializePool, JoinPoolNoSwap, getMaximalNoSwapLPAmount, JoinSwapExactAmountIn,
                                    JoinSwapShareAmountOut, ExitPool, ExitSwapShareAmountIn, ExitSwapExactAmountOut
     x/gamm/keeper/share.go         applyJoinPoolStateChange, applyExitPoolStateChange, MintPoolShareToAccount,
                                    BurnPoolShareFromAccount
     x/gamm/keeper/swap.go          SwapExactAmountIn / Out, updatePoolForSwap   (= C05 module_swap_exact_in/out, settle)
     x/gamm/pool-models/balancer/pool.go, stableswap/pool.go
                                    the record updates only: applySwap / updatePoolLiquidityForSwap, IncreaseLiquidity /
                                    updatePoolForJoin, exitPool / updatePoolLiquidityForExit, JoinPoolNoSwap
                                    (tokensJoined = tokensIn - remainder), and the guards around them
     x/poolmanager/create_pool.go   CreatePool (creation fee to the community pool, then the initial liquidity)
     x/poolmanager/router.go, taker_fee.go   through C05.Model (instantiated with the pool interface [GP] below)
   The pool MATH - how many tokens / shares a swap, join or exit computes - is the parameter [PoolMath]
   (C04 covers it; the correspondence run supplies the amounts the real pools computed).
   Denominations: ordinary denoms are 0 <= d < 100; the share denom of pool id is 100 + id.  Definitions only. *)
From Coq Require Import ZArith List Bool.
Import ListNotations.
From Osmo Require Import Base.DecModel Gen.C02_consts C05.Model.
Open Scope Z_scope.

(* ---------------------------------------------------------------- the pool record *)
Record gpool := mkGP {
  gp_id : Z;
  gp_liq : list (Z * Z);     (* reported liquidity (PoolAssets / PoolLiquidity): denom -> amount *)
  gp_shares : Z;             (* TotalShares *)
  gp_spread : Z;
  gp_exit_fee : Z;
  gp_ext : bool;             (* implements PoolAmountOutExtension (balancer: true, stableswap: false) *)
  gp_ver : Z * Z }.          (* ghost: (index of the running message, number of record updates so far); only a
                                table-driven math looks at it *)

Fixpoint lookup (l : list (Z * Z)) (d : Z) : Z :=
  match l with
  | [] => 0
  | (k, v) :: r => if k =? d then v else lookup r d
  end.
Fixpoint has_key (l : list (Z * Z)) (d : Z) : bool :=
  match l with
  | [] => false
  | (k, _) :: r => (k =? d) || has_key r d
  end.
Fixpoint add_to (l : list (Z * Z)) (d delta : Z) : list (Z * Z) :=
  match l with
  | [] => []
  | (k, v) :: r => if k =? d then (k, v + delta) :: r else (k, v) :: add_to r d delta
  end.
Definition res (p : gpool) (d : Z) : Z := lookup (gp_liq p) d.
Definition with_liq (p : gpool) (l : list (Z * Z)) (shares : Z) : gpool :=
  mkGP (gp_id p) l shares (gp_spread p) (gp_exit_fee p) (gp_ext p) (fst (gp_ver p), snd (gp_ver p) + 1).
Fixpoint add_coins (l : list (Z * Z)) (coins : list (Z * Z)) (sign : Z) : list (Z * Z) :=
  match coins with
  | [] => l
  | (d, a) :: r => add_coins (add_to l d (sign * a)) r sign
  end.

(* ---------------------------------------------------------------- the pool math (parameter) *)
Record PoolMath := {
  m_out_given_in : gpool -> Z -> Z -> Z -> Z -> result Z;        (* CalcOutAmtGivenIn p dIn amt dOut spread *)
  m_in_given_out : gpool -> Z -> Z -> Z -> Z -> result Z;        (* CalcInAmtGivenOut p dOut amt dIn spread *)
  m_join_noswap : gpool -> list (Z * Z) -> result (Z * list (Z * Z));   (* MaximalExactRatioJoin: shares, remaining coins *)
  m_join_single : gpool -> Z -> Z -> result Z;                    (* single-asset CalcJoinPoolShares p dIn amt: shares *)
  m_in_for_shares : gpool -> Z -> Z -> result Z;                  (* CalcTokenInShareAmountOut p dIn shares *)
  m_exit : gpool -> Z -> result (list (Z * Z));                   (* CalcExitPoolCoinsFromShares p shares *)
  m_shares_for_out : gpool -> Z -> Z -> result Z }.               (* shares burnt for a single-asset exit p dOut amt *)

Section Gamm.
Variable M : PoolMath.

(* applySwap (balancer) / updatePoolLiquidityForSwap (stableswap): in += tokenIn, out -= tokenOut.
   balancer: since the repair e9b34e9409 of finding C02-F1 a swap whose out-balance would not stay positive is an error
   (before it, sdk.NewCoins silently dropped the zero out-coin and the record kept its old amount); the in-balance
   still goes through sdk.NewCoins: negative panics, zero would be dropped (record unchanged).
   stableswap: Coins.Sub panics below zero, and a coin that drops to zero trips the "changed number of tokens" panic. *)
Definition apply_swap (p : gpool) (dIn tin dOut tout : Z) : result gpool :=
  if negb (has_key (gp_liq p) dIn) || negb (has_key (gp_liq p) dOut) then Err EPool else
  let l := add_to (add_to (gp_liq p) dIn tin) dOut (- tout) in
  if gp_ext p then
    if lookup l dOut <=? 0 then Err EPool
    else if lookup l dIn <? 0 then Err EPanic
    else Ok (with_liq p (if lookup l dIn =? 0 then add_to (gp_liq p) dOut (- tout) else l) (gp_shares p))
  else if (lookup l dIn <=? 0) || (lookup l dOut <=? 0) then Err EPanic
  else Ok (with_liq p l (gp_shares p)).

Definition gp_swap_in (p : gpool) (dIn amt dOut spread : Z) : result (gpool * (Z * Z)) :=
  match m_out_given_in M p dIn amt dOut spread with
  | Err e => Err e
  | Ok out => match apply_swap p dIn amt dOut out with
              | Err e => Err e
              | Ok p' => Ok (p', (amt, out))
              end
  end.
(* keeper.SwapExactAmountOut first refuses tokenOut >= the pool's balance of it *)
Definition gp_swap_out (p : gpool) (dOut amt dIn spread : Z) : result (gpool * (Z * Z)) :=
  if res p dOut <=? amt then Err EPool else
  match m_in_given_out M p dOut amt dIn spread with
  | Err e => Err e
  | Ok tin => match apply_swap p dIn tin dOut amt with
              | Err e => Err e
              | Ok p' => Ok (p', (tin, amt))
              end
  end.

Definition GP : PoolIface := {|
  pool_state := gpool;
  is_active := fun _ => true;
  spread_of := gp_spread;
  swap_in := gp_swap_in;
  swap_out := gp_swap_out;
  calc_out := fun p dIn amt dOut sp => (p, m_out_given_in M p dIn amt dOut sp);
  calc_in := fun p dOut amt dIn sp => (p, m_in_given_out M p dOut amt dIn sp) |}.

(* ---------------------------------------------------------------- chain state *)
Record gstate := mkG {
  rs : state GP;               (* pools, bank balances, taker fees, whitelist (C05) *)
  supply : Z -> Z;             (* bank supply per denom *)
  next_id : Z;                 (* poolmanager next pool id *)
  direct : Z -> Z -> Z;        (* ghost: coins sent to a pool's address by plain bank sends (pool id, denom) *)
  creation_fee : list (Z * Z); (* poolmanager param PoolCreationFee *)
  fee_exempt : acct -> bool }. (* concentrated-liquidity UnrestrictedPoolCreatorWhitelist *)

Definition share_denom (id : Z) : Z := 100 + id.
Definition init_shares : Z := init_shares_mult * 10 ^ one_share_exponent.      (* InitPoolSharesSupply (Gen/C02_consts) *)

Definition with_rs (s : gstate) (r : state GP) : gstate :=
  mkG r (supply s) (next_id s) (direct s) (creation_fee s) (fee_exempt s).
Definition with_bank (s : gstate) (b : bank) : gstate := with_rs s (set_bal GP (rs s) b).
Definition with_supply (s : gstate) (f : Z -> Z) : gstate :=
  mkG (rs s) f (next_id s) (direct s) (creation_fee s) (fee_exempt s).
Definition fun_add (f : Z -> Z) (d delta : Z) : Z -> Z := fun x => if x =? d then f x + delta else f x.

(* SendCoins with a sanitised multi-coin set: every coin positive, sent one after the other *)
Fixpoint send_coins (b : bank) (from to : acct) (coins : list (Z * Z)) : result bank :=
  match coins with
  | [] => Ok b
  | (d, a) :: r => match send_raw b from to d a with
                   | Err e => Err e
                   | Ok b1 => send_coins b1 from to r
                   end
  end.

(* MintPoolShareToAccount: MintCoins(gamm, NewCoins(coin)) + SendCoinsFromModuleToAccount *)
Definition mint_shares (s : gstate) (to : acct) (id amt : Z) : result gstate :=
  if amt <? 0 then Err EPanic else
  let d := share_denom id in
  Ok (with_supply (with_bank s (bal_set (bal (rs s)) to d (bal (rs s) to d + amt))) (fun_add (supply s) d amt)).

(* BurnPoolShareFromAccount: SendCoinsFromAccountToModule(Coins{coin}) + BurnCoins *)
Definition burn_shares (s : gstate) (from : acct) (id amt : Z) : result gstate :=
  let d := share_denom id in
  if amt <=? 0 then Err EInvalid
  else if bal (rs s) from d <? amt then Err EFunds
  else Ok (with_supply (with_bank s (bal_set (bal (rs s)) from d (bal (rs s) from d - amt))) (fun_add (supply s) d (- amt))).

(* applyJoinPoolStateChange *)
Definition apply_join (s : gstate) (id : Z) (p' : gpool) (joiner : acct) (shares : Z) (coins : list (Z * Z)) : result gstate :=
  match send_coins (bal (rs s)) joiner (PoolAcc id) coins with
  | Err e => Err e
  | Ok b =>
    match mint_shares (with_bank s b) joiner id shares with
    | Err e => Err e
    | Ok s1 => Ok (with_rs s1 (set_pool GP (rs s1) id p'))
    end
  end.

(* applyExitPoolStateChange *)
Definition apply_exit (s : gstate) (id : Z) (p' : gpool) (exiter : acct) (shares : Z) (coins : list (Z * Z)) : result gstate :=
  match send_coins (bal (rs s)) (PoolAcc id) exiter coins with
  | Err e => Err e
  | Ok b =>
    match burn_shares (with_bank s b) exiter id shares with
    | Err e => Err e
    | Ok s1 => Ok (with_rs s1 (set_pool GP (rs s1) id p'))
    end
  end.

(* ---------------------------------------------------------------- joins *)
(* getMaximalNoSwapLPAmount: shareRatio = shares / totalShares (truncated to 18 decimals); each asset ceil(amount * ratio) *)
Fixpoint needed_lp (liq : list (Z * Z)) (ratio : Z) : result (list (Z * Z)) :=
  match liq with
  | [] => Ok []
  | (d, a) :: r =>
    let n := d_round_int (d_ceil (d_mul (d_from_int a) ratio)) in
    if n <=? 0 then Err EPool else
    match needed_lp r ratio with
    | Err e => Err e
    | Ok l => Ok ((d, n) :: l)
    end
  end.
Definition maximal_noswap_lp (p : gpool) (shareOut : Z) : result (list (Z * Z)) :=
  if gp_shares p =? 0 then Err EPanic else
  let ratio := d_quo_int (d_from_int shareOut) (gp_shares p) in
  if ratio <=? 0 then Err EPool else needed_lp (gp_liq p) ratio.

Definition denoms_subset (a b : list (Z * Z)) : bool := forallb (fun x => has_key b (fst x)) a.
Definition all_gte (maxs need : list (Z * Z)) : bool := forallb (fun x => snd x <=? lookup maxs (fst x)) need.
Fixpoint sub_coins (a rem : list (Z * Z)) : result (list (Z * Z)) :=     (* tokensIn.Sub(rem): panics below zero *)
  match a with
  | [] => Ok []
  | (d, v) :: r =>
    let v' := v - lookup rem d in
    if v' <? 0 then Err EPanic else
    match sub_coins r rem with
    | Err e => Err e
    | Ok l => Ok (if v' =? 0 then l else (d, v') :: l)
    end
  end.

Definition join_pool_noswap (s : gstate) (sender : acct) (id shareOut : Z) (maxs : list (Z * Z)) : result (gstate * Z) :=
  match get_pool GP (pools (rs s)) id with
  | None => Err ENoPool
  | Some p =>
    match maximal_noswap_lp p shareOut with
    | Err e => Err e
    | Ok need =>
      if negb (match maxs with [] => true | _ => false end) && negb (denoms_subset need maxs) then Err ELimit
      else if negb (match maxs with [] => true | _ => false end) && negb (denoms_subset maxs need) then Err EInvalid
      else if negb (match maxs with [] => true | _ => false end) && negb (all_gte maxs need) then Err ELimit
      else
      (* pool.JoinPoolNoSwap: MaximalExactRatioJoin, tokensJoined = tokensIn - remainder, IncreaseLiquidity *)
      match m_join_noswap M p need with
      | Err e => Err e
      | Ok (shares, rem) =>
        if negb (denoms_subset rem need) then Err EPanic else
        match sub_coins need rem with
        | Err e => Err e
        | Ok joined =>
          let p' := with_liq p (add_coins (gp_liq p) joined 1) (gp_shares p + shares) in
          match apply_join s id p' sender shares need with
          | Err e => Err e
          | Ok s' => Ok (s', shares)
          end
        end
      end
    end
  end.

(* JoinSwapExactAmountIn with the single coin of MsgJoinSwapExternAmountIn *)
Definition join_swap_extern_in (s : gstate) (sender : acct) (id dIn amt minShares : Z) : result (gstate * Z) :=
  match get_pool GP (pools (rs s)) id with
  | None => Err ENoPool
  | Some p =>
    match m_join_single M p dIn amt with
    | Err e => Err e
    | Ok shares =>
      if shares <? minShares then Err ELimit
      else if shares <=? 0 then Err EPool
      else if negb (has_key (gp_liq p) dIn) then Err EPanic
      else
      let p' := with_liq p (add_to (gp_liq p) dIn amt) (gp_shares p + shares) in
      match apply_join s id p' sender shares [(dIn, amt)] with
      | Err e => Err e
      | Ok s' => Ok (s', shares)
      end
    end
  end.

Definition join_swap_share_out (s : gstate) (sender : acct) (id dIn shareOut maxIn : Z) : result (gstate * Z) :=
  match get_pool GP (pools (rs s)) id with
  | None => Err ENoPool
  | Some p =>
    if negb (gp_ext p) then Err EInvalid else
    match m_in_for_shares M p dIn shareOut with
    | Err e => Err e
    | Ok tin =>
      if tin <=? 0 then Err EPool
      else if maxIn <? tin then Err ELimit
      else if negb (has_key (gp_liq p) dIn) then Err EPanic
      else
      let p' := with_liq p (add_to (gp_liq p) dIn tin) (gp_shares p + shareOut) in
      match apply_join s id p' sender shareOut [(dIn, tin)] with
      | Err e => Err e
      | Ok s' => Ok (s', tin)
      end
    end
  end.

(* ---------------------------------------------------------------- exits *)
(* exitPool (balancer) / updatePoolLiquidityForExit (stableswap): liquidity.Sub(exitingCoins) panics below zero;
   balancer, as written: a denom that drops to exactly zero is dropped from the coin set and keeps its OLD recorded amount
   (same pattern as applySwap; unreachable through CalcExitPool, whose guard is exitAmt < asset.Amount);
   stableswap: the "changed number of tokens" check panics. *)
Fixpoint exit_liq (ext : bool) (l : list (Z * Z)) (coins : list (Z * Z)) : result (list (Z * Z)) :=
  match coins with
  | [] => Ok l
  | (d, a) :: r =>
    if negb (has_key l d) then Err EPanic
    else if lookup l d - a <? 0 then Err EPanic
    else if lookup l d - a =? 0 then (if ext then exit_liq ext l r else Err EPanic)
    else exit_liq ext (add_to l d (- a)) r
  end.
Definition coins_ok (coins : list (Z * Z)) : bool := forallb (fun x => 0 <? snd x) coins.
Definition zsum_coins (coins : list (Z * Z)) : Z := fold_right (fun x acc => snd x + acc) 0 coins.
Definition any_gt (mins coins : list (Z * Z)) : bool := existsb (fun x => lookup coins (fst x) <? snd x) mins.

Definition exit_pool (s : gstate) (sender : acct) (id shareIn : Z) (mins : list (Z * Z)) : result (gstate * list (Z * Z)) :=
  match get_pool GP (pools (rs s)) id with
  | None => Err ENoPool
  | Some p =>
    if gp_shares p <=? shareIn then Err EPool
    else if shareIn <=? 0 then Err EPool
    else
    match m_exit M p shareIn with
    | Err e => Err e
    | Ok coins =>
      if negb (coins_ok coins) then Err EPanic else
      match exit_liq (gp_ext p) (gp_liq p) coins with
      | Err e => Err e
      | Ok l =>
        if negb (denoms_subset mins coins) || any_gt mins coins then Err ELimit else
        let p' := with_liq p l (gp_shares p - shareIn) in
        match apply_exit s id p' sender shareIn coins with
        | Err e => Err e
        | Ok s' => Ok (s', coins)
        end
      end
    end
  end.

(* ExitSwapShareAmountIn: proportional exit, then every other coin is swapped into tokenOutDenom inside the same pool
   through the gamm keeper's SwapExactAmountIn (no taker fee, minimum 0) *)
Fixpoint swap_all_into (r : state GP) (sender : acct) (id dOut : Z) (coins : list (Z * Z)) (acc : Z) : result (state GP * Z) :=
  match coins with
  | [] => Ok (r, acc)
  | (d, a) :: rest =>
    if d =? dOut then swap_all_into r sender id dOut rest acc else
    match get_pool GP (pools r) id with
    | None => Err ENoPool
    | Some p =>
      match module_swap_exact_in GP r sender id p d a dOut 0 (gp_spread p) with
      | Err e => Err e
      | Ok (r', out) => swap_all_into r' sender id dOut rest (acc + out)
      end
    end
  end.
Definition exit_swap_share_in (s : gstate) (sender : acct) (id dOut shareIn minOut : Z) : result (gstate * Z) :=
  match exit_pool s sender id shareIn [] with
  | Err e => Err e
  | Ok (s1, coins) =>
    match swap_all_into (rs s1) sender id dOut coins (lookup coins dOut) with
    | Err e => Err e
    | Ok (r, total) => if total <? minOut then Err ELimit else Ok (with_rs s1 r, total)
    end
  end.

Definition exit_swap_extern_out (s : gstate) (sender : acct) (id dOut amt maxShares : Z) : result (gstate * Z) :=
  match get_pool GP (pools (rs s)) id with
  | None => Err ENoPool
  | Some p =>
    if negb (gp_ext p) then Err EInvalid else
    match m_shares_for_out M p dOut amt with
    | Err e => Err e
    | Ok shares =>
      if shares <=? 0 then Err EPool
      else if maxShares <? shares then Err ELimit
      else
      match exit_liq (gp_ext p) (gp_liq p) [(dOut, amt)] with
      | Err e => Err e
      | Ok l =>
        let p' := with_liq p l (gp_shares p - shares) in
        match apply_exit s id p' sender shares [(dOut, amt)] with
        | Err e => Err e
        | Ok s' => Ok (s', shares)
        end
      end
    end
  end.

(* ---------------------------------------------------------------- pool creation *)
Fixpoint distinct_keys (l : list (Z * Z)) : bool :=
  match l with
  | [] => true
  | (k, _) :: r => negb (has_key r k) && distinct_keys r
  end.
(* msg.Validate: 2..8 assets, positive amounts, distinct ordinary denoms (weights / scaling factors / spread factor
   are assumed well-formed: they only matter to the math) *)
Definition create_valid (assets : list (Z * Z)) : bool :=
  (min_pool_assets <=? Z.of_nat (length assets)) && (Z.of_nat (length assets) <=? max_pool_assets) && coins_ok assets && distinct_keys assets
  && forallb (fun x => (0 <=? fst x) && (fst x <? 100)) assets.

Definition create_pool (s : gstate) (sender : acct) (ext : bool) (assets : list (Z * Z)) (spread exit_fee : Z)
  : result (gstate * Z) :=
  if negb (create_valid assets) then Err EInvalid else
  let id := next_id s in
  let p := mkGP id assets init_shares spread exit_fee ext (0, 0) in
  if negb (exit_fee =? 0) then Err EInvalid else
  let s0 := mkG (rs s) (supply s) (id + 1) (direct s) (creation_fee s) (fee_exempt s) in
  match mint_shares s0 sender id init_shares with
  | Err e => Err e
  | Ok s1 =>
    let s2 := with_rs s1 (mkState (pools (rs s1) ++ [(id, p)]) (bal (rs s1)) (taker_fee (rs s1)) (whitelisted (rs s1)) (skim (rs s1))) in
    match (if fee_exempt s sender then Ok (bal (rs s2)) else send_coins (bal (rs s2)) sender Community (creation_fee s)) with
    | Err e => Err e
    | Ok b1 =>
      match send_coins b1 sender (PoolAcc id) assets with
      | Err e => Err e
      | Ok b2 => Ok (with_bank s2 b2, id)
      end
    end
  end.

(* ---------------------------------------------------------------- messages *)
Inductive gmsg :=
| GCreate (sender : acct) (ext : bool) (assets : list (Z * Z)) (spread exit_fee : Z)
| GJoin (sender : acct) (id shareOut : Z) (maxs : list (Z * Z))
| GJoinExtern (sender : acct) (id dIn amt minShares : Z)
| GJoinShareOut (sender : acct) (id dIn shareOut maxIn : Z)
| GExit (sender : acct) (id shareIn : Z) (mins : list (Z * Z))
| GExitShareIn (sender : acct) (id dOut shareIn minOut : Z)
| GExitExternOut (sender : acct) (id dOut amt maxShares : Z)
| GSwap (m : msg)                                   (* the router's four swap messages (C05) *)
| GSend (from to : acct) (d amt : Z).               (* bank MsgSend of one coin *)

Definition sorted_valid (coins : list (Z * Z)) : bool := coins_ok coins && distinct_keys coins.   (* sdk.Coins.IsValid *)

Definition gvalidate (m : gmsg) : bool :=
  match m with
  | GCreate _ _ _ _ _ => true
  | GJoin _ _ shareOut maxs => (0 <? shareOut) && sorted_valid maxs
  | GJoinExtern _ _ _ amt minShares => (0 <? amt) && (0 <? minShares)
  | GJoinShareOut _ _ _ shareOut maxIn => (0 <? shareOut) && (0 <? maxIn)
  | GExit _ _ shareIn mins => (0 <? shareIn) && sorted_valid mins
  | GExitShareIn _ _ _ shareIn minOut => (0 <? shareIn) && (0 <? minOut)
  | GExitExternOut _ _ _ amt maxShares => (0 <? amt) && (0 <? maxShares)
  | GSwap m => true                                  (* validated by C05.handle *)
  | GSend _ _ _ amt => 0 <? amt
  end.

Definition ghandle (s : gstate) (m : gmsg) : result (gstate * Z) :=
  if negb (gvalidate m) then Err EInvalid else
  match m with
  | GCreate sender ext assets spread exit_fee => create_pool s sender ext assets spread exit_fee
  | GJoin sender id shareOut maxs => join_pool_noswap s sender id shareOut maxs
  | GJoinExtern sender id dIn amt minShares => join_swap_extern_in s sender id dIn amt minShares
  | GJoinShareOut sender id dIn shareOut maxIn => join_swap_share_out s sender id dIn shareOut maxIn
  | GExit sender id shareIn mins =>
    match exit_pool s sender id shareIn mins with
    | Err e => Err e
    | Ok (s', coins) => Ok (s', zsum_coins coins)
    end
  | GExitShareIn sender id dOut shareIn minOut => exit_swap_share_in s sender id dOut shareIn minOut
  | GExitExternOut sender id dOut amt maxShares => exit_swap_extern_out s sender id dOut amt maxShares
  | GSwap m =>
    match handle GP (rs s) m with
    | Err e => Err e
    | Ok (r, v) => Ok (with_rs s r, v)
    end
  | GSend from to d amt =>
    match send_raw (bal (rs s)) from to d amt with
    | Err e => Err e
    | Ok b =>
      let s1 := with_bank s b in
      Ok (match to with
          | PoolAcc id => mkG (rs s1) (supply s1) (next_id s1)
                              (fun i x => if (i =? id) && (x =? d) then direct s i x + amt else direct s i x)
                              (creation_fee s1) (fee_exempt s1)
          | _ => s1
          end, 0)
    end
  end.

Definition gstep (s : gstate) (m : gmsg) : gstate * result Z :=
  match ghandle s m with
  | Ok (s', v) => (s', Ok v)
  | Err e => (s, Err e)
  end.

Fixpoint grun (s : gstate) (ms : list gmsg) : gstate :=
  match ms with
  | [] => s
  | m :: r => grun (fst (gstep s m)) r
  end.

End Gamm.
