(* C02 proofs, part 6: payer accounting - per message, the balance changes of the sender, the pools, the taker-fee
   collector and the community pool cancel against the supply change, and nobody else is touched. *)
From Coq Require Import ZArith List Bool Lia.
Import ListNotations.
From Osmo Require Import Base.DecModel C05.Model C05.Proofs C02.Model C02.Proofs C02.Proofs2 C02.Proofs3 C02.Proofs4 C02.Proofs5.
Open Scope Z_scope.

(* (bank, supply) pairs related by transfers among the accounts of L and mints / burns to accounts of L *)
Definition Acc (L : list acct) (b : bank) (f : Z -> Z) (b' : bank) (f' : Z -> Z) : Prop :=
  (forall x, sumL L b' x - f' x = sumL L b x - f x) /\ (forall a x, inL L a = false -> b' a x = b a x).

Lemma Acc_refl : forall L b f, Acc L b f b f.
Proof. intros; split; intros; reflexivity. Qed.

Lemma Acc_trans : forall L b f b1 f1 b2 f2, Acc L b f b1 f1 -> Acc L b1 f1 b2 f2 -> Acc L b f b2 f2.
Proof.
  intros L b f b1 f1 b2 f2 [A1 A2] [B1 B2]. split; intros.
  - rewrite B1, A1. reflexivity.
  - rewrite B2, A2 by assumption. reflexivity.
Qed.

Lemma inL_false_neq : forall L a a0, inL L a = false -> inL L a0 = true -> acct_eqb a a0 = false.
Proof.
  intros. destruct (acct_eqb a a0) eqn:E; [|reflexivity]. apply acct_eqb_eq in E; subst. congruence.
Qed.

(* a transfer of c x units of every denom x from [from] to [to], both in L *)
Lemma Acc_xfer : forall L b f b' to from (c : Z -> Z), NoDup L -> inL L to = true -> inL L from = true ->
  (forall a x, b' a x = b a x + ind (acct_eqb a to) (c x) - ind (acct_eqb a from) (c x)) -> Acc L b f b' f.
Proof.
  intros L b f b' to from c ND Ht Hf H. split; intros.
  - rewrite (sumL_move L b b' x to from (c x) ND) by (intro a; apply H). rewrite Ht, Hf. unfold ind. lia.
  - rewrite H. rewrite (inL_false_neq L a to), (inL_false_neq L a from) by assumption. unfold ind. lia.
Qed.

Lemma ind_and : forall a b v, ind (a && b) v = ind a (ind b v).
Proof. intros; destruct a, b; reflexivity. Qed.

(* one coin *)
Lemma Acc_move1 : forall L b f b' to from d amt, NoDup L -> inL L to = true -> inL L from = true ->
  (forall a x, b' a x = b a x + ind (at_ a to x d) amt - ind (at_ a from x d) amt) -> Acc L b f b' f.
Proof.
  intros. apply Acc_xfer with (to := to) (from := from) (c := fun x => ind (x =? d) amt); auto.
  intros. rewrite H2. unfold at_. rewrite !ind_and. reflexivity.
Qed.

(* mint (amt >= 0) or burn (amt <= 0) of denom sd to / from an account of L *)
Lemma Acc_mint : forall L b f b' f' to sd amt, NoDup L -> inL L to = true ->
  (forall a x, b' a x = b a x + ind (at_ a to x sd) amt) ->
  (forall x, f' x = f x + ind (x =? sd) amt) -> Acc L b f b' f'.
Proof.
  intros L b f b' f' to sd amt ND Ht HB HF. split; intros.
  - rewrite HF. rewrite (sumL_delta1 L b b' x to (ind (x =? sd) amt) ND).
    + rewrite Ht. unfold ind. lia.
    + intros. rewrite HB. unfold at_. rewrite ind_and. reflexivity.
  - rewrite HB. unfold at_. rewrite (inL_false_neq L a to) by assumption. cbn [andb]. unfold ind. lia.
Qed.

Section WithMath.
Variable M : PoolMath.
Hypothesis ML : MathLaws M.

Notation GPM := (GP M).
Notation getp := (get_pool GPM).

Definition closed_for (L : list acct) (s : gstate M) (m : gmsg) : Prop :=
  In (gmsg_sender m) L /\ In Collector L /\ In Community L /\
  (forall id, 1 <= id <= next_id M s -> In (PoolAcc id) L) /\
  match m with GSend _ to _ _ => In to L | _ => True end.

(* ------------------------------------------------------------------ router hops *)
Section Hops.
Variables (L : list acct) (n : Z) (sup : Z -> Z) (dir : Z -> Z -> Z) (nid : Z) (b0 : bank).
Hypothesis ND : NoDup L.
Hypothesis Hsender : inL L (Trader n) = true.
Hypothesis Hcoll : inL L Collector = true.
Hypothesis Hpools : forall id, 1 <= id < nid -> inL L (PoolAcc id) = true.

Definition J (r : state GPM) : Prop := InvR M r sup dir nid /\ Acc L b0 sup (bal r) sup.

Lemma charge_Acc : forall r dIn amt dOut ex r1 after fee,
  charge_taker_fee GPM r (Trader n) dIn amt dOut ex = Ok (r1, (after, fee)) -> Acc L (bal r) sup (bal r1) sup.
Proof.
  intros. pose proof (charge_inv GPM _ _ _ _ _ _ _ _ _ H) as (_ & _ & _ & CW & CN).
  destruct (whitelisted r (Trader n)) eqn:W.
  - destruct (CW eq_refl) as (E & _). subst. apply Acc_refl.
  - destruct (CN eq_refl) as (_ & S). apply send_new_spec in S. destruct S as (_ & S).
    apply Acc_move1 with (to := Collector) (from := Trader n) (d := dIn) (amt := fee); [exact ND|exact Hcoll|exact Hsender|exact S].
Qed.

Lemma settle_Acc : forall r pid p' dIn tin dOut tout r',
  inL L (PoolAcc pid) = true ->
  settle GPM r (Trader n) pid p' dIn tin dOut tout = Ok r' -> Acc L (bal r) sup (bal r') sup.
Proof.
  intros r pid p' dIn tin dOut tout r' Hp St.
  apply settle_inv in St. destruct St as (_ & _ & _ & b1 & Sa & Sb).
  apply send_raw_spec in Sa. destruct Sa as (_ & _ & Sa).
  apply send_raw_spec in Sb. destruct Sb as (_ & _ & Sb).
  eapply Acc_trans.
  - apply Acc_move1 with (to := PoolAcc pid) (from := Trader n) (d := dIn) (amt := tin); [exact ND|exact Hp|exact Hsender|exact Sa].
  - apply Acc_move1 with (to := Trader n) (from := PoolAcc pid) (d := dOut) (amt := tout); [exact ND|exact Hsender|exact Hp|exact Sb].
Qed.

Lemma pm_in_J : forall r pid dIn amt dOut m r' res0,
  J r -> pm_swap_exact_in GPM r (Trader n) pid dIn amt dOut m = Ok (r', res0) -> J r'.
Proof.
  intros r pid dIn amt dOut m r' res0 [Ir Ar] H. split; [eapply (pm_in_InvR M); eauto|].
  destruct res0 as [out fee].
  apply pm_in_inv in H. destruct H as (p & r1 & after & G & _ & C & Md).
  apply module_in_inv in Md. destruct Md as (p' & tin & _ & _ & _ & _ & St).
  eapply Acc_trans; [exact Ar|]. eapply Acc_trans; [eapply charge_Acc; eauto|].
  eapply settle_Acc; [|exact St]. apply Hpools. eapply (inv_ids M); eauto.
Qed.

Lemma out_hop_J : forall first r pid dIn maxIn dOut amtOut r' t,
  J r -> out_hop GPM first r (Trader n) pid dIn maxIn dOut amtOut = Ok (r', t) -> J r'.
Proof.
  intros first r pid dIn maxIn dOut amtOut r' t [Ir Ar] H. split; [eapply (out_hop_InvR M); eauto|].
  unfold out_hop in H.
  destruct (getp (pools r) pid) as [p|] eqn:G; [|discriminate].
  destruct (negb (is_active GPM p)); [discriminate|].
  destruct (module_swap_exact_out GPM r (Trader n) pid p dIn maxIn dOut amtOut (spread_of GPM p)) as [[r1 cur]|] eqn:Md; [|discriminate].
  destruct (charge_taker_fee GPM r1 (Trader n) dIn cur dOut false) as [[r2 [after fee]]|] eqn:C; [|discriminate].
  destruct (first && (maxIn <? after)); [discriminate|]. inversion H; subst.
  apply module_out_inv in Md. destruct Md as (p' & tout & _ & _ & _ & _ & St).
  eapply Acc_trans; [exact Ar|]. eapply Acc_trans; [eapply settle_Acc; [|exact St]|eapply charge_Acc; eauto].
  apply Hpools. eapply (inv_ids M); eauto.
Qed.

Lemma handle_J : forall r m r' v, msg_sender m = Trader n -> J r -> handle GPM r m = Ok (r', v) -> J r'.
Proof.
  intros r m r' v Hs Jr H.
  apply (handle_preserves GPM J (Trader n)) with (s := r) (m := m) (v := v).
  - intros s pid dIn amt dOut m0 s' r0 Is E. exact (pm_in_J s pid dIn amt dOut m0 s' r0 Is E).
  - intros first s pid dIn maxIn dOut amtOut s' t Is E. exact (out_hop_J first s pid dIn maxIn dOut amtOut s' t Is E).
  - intros s route dOutF amtF Is. rewrite (expected_ins_val GPM (GP_laws M)). exact Is.
  - exact Hs.
  - exact Jr.
  - exact H.
Qed.
End Hops.

(* every unit of tokenIn of an exact-in hop is with the taker-fee collector or in the pool *)
Lemma token_in_lands_once : forall r n pid dIn amt dOut minOut r' out fee,
  pm_swap_exact_in GPM r (Trader n) pid dIn amt dOut minOut = Ok (r', (out, fee)) ->
  bal r' (Trader n) dIn = bal r (Trader n) dIn - amt /\
  bal r' Collector dIn = bal r Collector dIn + fee /\
  bal r' (PoolAcc pid) dIn = bal r (PoolAcc pid) dIn + (amt - fee) /\ 0 <= fee.
Proof.
  intros r n pid dIn amt dOut minOut r' out fee H.
  apply pm_in_inv in H. destruct H as (p & r1 & after & G & _ & C & Md).
  apply module_in_inv in Md. destruct Md as (p' & tin & SW & _ & _ & Hne & St).
  assert (Etin : tin = after).
  { change (swap_in GPM p dIn after dOut (spread_of GPM p)) with (gp_swap_in M p dIn after dOut (gp_spread p)) in SW.
    unfold gp_swap_in in SW. destruct (m_out_given_in M p dIn after dOut (gp_spread p)) as [z|]; [|discriminate].
    destruct (apply_swap p dIn after dOut z) as [q|]; [|discriminate]. inversion SW; reflexivity. }
  subst tin.
  apply settle_inv in St. destruct St as (_ & _ & _ & b1 & Sa & Sb).
  apply send_raw_spec in Sa. destruct Sa as (_ & _ & Sa).
  apply send_raw_spec in Sb. destruct Sb as (_ & _ & Sb).
  assert (X : dIn =? dOut = false) by (apply Z.eqb_neq; assumption).
  pose proof (charge_inv GPM _ _ _ _ _ _ _ _ _ C) as (_ & _ & _ & CW & CN).
  assert (Fee : after + fee = amt /\ 0 <= fee /\ forall a x, bal r1 a x = bal r a x + ind (at_ a Collector x dIn) fee - ind (at_ a (Trader n) x dIn) fee).
  { destruct (whitelisted r (Trader n)) eqn:W.
    - destruct (CW eq_refl) as (E & E2 & E3). subst. split; [lia|]. split; [lia|]. intros. unfold ind.
      destruct (at_ a Collector x dIn), (at_ a (Trader n) x dIn); lia.
    - destruct (CN eq_refl) as (CF & S). apply send_new_spec in S. destruct S as (Pz & S).
      remember (calc_fee_in amt (taker_fee r dIn dOut)) as cf. inversion CF as [E].
      pose proof (calc_fee_in_sum amt (taker_fee r dIn dOut)) as Sum. rewrite <- Heqcf, E in Sum. cbn [fst snd] in Sum.
      split; [exact Sum|]. split; [exact Pz|exact S]. }
  destruct Fee as (Sum & Pz & S1).
  repeat split; try assumption.
  - rewrite Sb, Sa, S1. unfold at_. cbn [acct_eqb andb]. rewrite !Z.eqb_refl, X. unfold ind. cbn [andb]. lia.
  - rewrite Sb, Sa, S1. unfold at_. cbn [acct_eqb andb]. rewrite !Z.eqb_refl. unfold ind. cbn [andb]. lia.
  - rewrite Sb, Sa, S1. unfold at_. cbn [acct_eqb andb]. rewrite !Z.eqb_refl, X. unfold ind. cbn [andb]. lia.
Qed.

(* ------------------------------------------------------------------ the keeper's own operations *)
Lemma inL_of_In : forall L a, In a L -> inL L a = true.
Proof. intros; apply inL_In; assumption. Qed.

Lemma apply_join_Acc : forall L s id p' n shares coins s', NoDup L ->
  inL L (Trader n) = true -> inL L (PoolAcc id) = true ->
  apply_join M s id p' (Trader n) shares coins = Ok s' ->
  Acc L (bal (rs M s)) (supply M s) (bal (rs M s')) (supply M s').
Proof.
  intros L s id p' n shares coins s' ND Ht Hp H.
  apply apply_join_spec in H. destruct H as (_ & _ & SB & SS & _).
  set (b1 := fun a x => bal (rs M s) a x + ind (acct_eqb a (PoolAcc id)) (csum coins x) - ind (acct_eqb a (Trader n)) (csum coins x)).
  eapply Acc_trans with (b1 := b1) (f1 := supply M s).
  - eapply Acc_xfer with (to := PoolAcc id) (from := Trader n) (c := fun x => csum coins x); auto.
  - eapply Acc_mint with (to := Trader n) (sd := share_denom id) (amt := shares); auto.
Qed.

Lemma apply_exit_Acc : forall L s id p' n shares coins s', NoDup L ->
  inL L (Trader n) = true -> inL L (PoolAcc id) = true ->
  apply_exit M s id p' (Trader n) shares coins = Ok s' ->
  Acc L (bal (rs M s)) (supply M s) (bal (rs M s')) (supply M s').
Proof.
  intros L s id p' n shares coins s' ND Ht Hp H.
  apply apply_exit_spec in H. destruct H as (_ & _ & SB & SS & _).
  set (b1 := fun a x => bal (rs M s) a x + ind (acct_eqb a (Trader n)) (csum coins x) - ind (acct_eqb a (PoolAcc id)) (csum coins x)).
  eapply Acc_trans with (b1 := b1) (f1 := supply M s).
  - eapply Acc_xfer with (to := Trader n) (from := PoolAcc id) (c := fun x => csum coins x); auto.
  - eapply Acc_mint with (to := Trader n) (sd := share_denom id) (amt := - shares); auto.
    + intros. unfold b1. rewrite SB. unfold ind. destruct (at_ a (Trader n) x (share_denom id)); lia.
    + intros. rewrite SS. unfold ind. destruct (x =? share_denom id); lia.
Qed.

(* the shape of the keeper's operations: one pool, one applyJoin / applyExit *)
Lemma join_noswap_shape : forall s a id shareOut maxs s' v,
  join_pool_noswap M s a id shareOut maxs = Ok (s', v) ->
  exists p p' shares coins, getp (pools (rs M s)) id = Some p /\ apply_join M s id p' a shares coins = Ok s'.
Proof.
  intros. unfold join_pool_noswap in H.
  destruct (getp (pools (rs M s)) id) as [p|] eqn:G; [|discriminate].
  destruct (maximal_noswap_lp p shareOut) as [need|]; [|discriminate].
  destruct (negb _ && negb (denoms_subset need maxs)); [discriminate|].
  destruct (negb _ && negb (denoms_subset maxs need)); [discriminate|].
  destruct (negb _ && negb (all_gte maxs need)); [discriminate|].
  destruct (m_join_noswap M p need) as [[shares rem]|]; [|discriminate].
  destruct (negb (denoms_subset rem need)); [discriminate|].
  destruct (sub_coins need rem) as [joined|]; [|discriminate].
  match type of H with context [apply_join M s id ?q a shares need] =>
    destruct (apply_join M s id q a shares need) as [s1|] eqn:EA; [|discriminate]; inversion H; subst;
    eexists; eexists; eexists; eexists; split; [reflexivity|exact EA] end.
Qed.

Lemma join_extern_shape : forall s a id dIn amt minShares s' v,
  join_swap_extern_in M s a id dIn amt minShares = Ok (s', v) ->
  exists p p' shares coins, getp (pools (rs M s)) id = Some p /\ apply_join M s id p' a shares coins = Ok s'.
Proof.
  intros. unfold join_swap_extern_in in H.
  destruct (getp (pools (rs M s)) id) as [p|] eqn:G; [|discriminate].
  destruct (m_join_single M p dIn amt) as [shares|]; [|discriminate].
  destruct (shares <? minShares); [discriminate|]. destruct (shares <=? 0); [discriminate|].
  destruct (negb (has_key (gp_liq p) dIn)); [discriminate|].
  match type of H with context [apply_join M s id ?q a shares ?c] =>
    destruct (apply_join M s id q a shares c) as [s1|] eqn:EA; [|discriminate]; inversion H; subst;
    eexists; eexists; eexists; eexists; split; [reflexivity|exact EA] end.
Qed.

Lemma join_share_out_shape : forall s a id dIn shareOut maxIn s' v,
  join_swap_share_out M s a id dIn shareOut maxIn = Ok (s', v) ->
  exists p p' shares coins, getp (pools (rs M s)) id = Some p /\ apply_join M s id p' a shares coins = Ok s'.
Proof.
  intros. unfold join_swap_share_out in H.
  destruct (getp (pools (rs M s)) id) as [p|] eqn:G; [|discriminate].
  destruct (negb (gp_ext p)); [discriminate|].
  destruct (m_in_for_shares M p dIn shareOut) as [tin|]; [|discriminate].
  destruct (tin <=? 0); [discriminate|]. destruct (maxIn <? tin); [discriminate|].
  destruct (negb (has_key (gp_liq p) dIn)); [discriminate|].
  match type of H with context [apply_join M s id ?q a shareOut ?c] =>
    destruct (apply_join M s id q a shareOut c) as [s1|] eqn:EA; [|discriminate]; inversion H; subst;
    eexists; eexists; eexists; eexists; split; [reflexivity|exact EA] end.
Qed.

Lemma exit_pool_shape : forall s a id shareIn mins s' coins,
  exit_pool M s a id shareIn mins = Ok (s', coins) ->
  exists p p', getp (pools (rs M s)) id = Some p /\ apply_exit M s id p' a shareIn coins = Ok s'.
Proof.
  intros. unfold exit_pool in H.
  destruct (getp (pools (rs M s)) id) as [p|] eqn:G; [|discriminate].
  destruct (gp_shares p <=? shareIn); [discriminate|]. destruct (shareIn <=? 0); [discriminate|].
  destruct (m_exit M p shareIn) as [cs|]; [|discriminate].
  destruct (negb (coins_ok cs)); [discriminate|].
  destruct (exit_liq (gp_ext p) (gp_liq p) cs) as [l|]; [|discriminate].
  destruct (negb (denoms_subset mins cs) || any_gt mins cs); [discriminate|].
  match type of H with context [apply_exit M s id ?q a shareIn cs] =>
    destruct (apply_exit M s id q a shareIn cs) as [s1|] eqn:EA; [|discriminate]; inversion H; subst;
    eexists; eexists; split; [reflexivity|exact EA] end.
Qed.

Lemma exit_extern_out_shape : forall s a id dOut amt maxShares s' v,
  exit_swap_extern_out M s a id dOut amt maxShares = Ok (s', v) ->
  exists p p' shares coins, getp (pools (rs M s)) id = Some p /\ apply_exit M s id p' a shares coins = Ok s'.
Proof.
  intros. unfold exit_swap_extern_out in H.
  destruct (getp (pools (rs M s)) id) as [p|] eqn:G; [|discriminate].
  destruct (negb (gp_ext p)); [discriminate|].
  destruct (m_shares_for_out M p dOut amt) as [shares|]; [|discriminate].
  destruct (shares <=? 0); [discriminate|]. destruct (maxShares <? shares); [discriminate|].
  destruct (exit_liq (gp_ext p) (gp_liq p) [(dOut, amt)]) as [l|]; [|discriminate].
  match type of H with context [apply_exit M s id ?q a shares ?c] =>
    destruct (apply_exit M s id q a shares c) as [s1|] eqn:EA; [|discriminate]; inversion H; subst;
    eexists; eexists; eexists; eexists; split; [reflexivity|exact EA] end.
Qed.

Lemma swap_all_into_Acc : forall L n sup coins r id dOut acc r' total dir nid,
  NoDup L -> inL L (Trader n) = true -> inL L (PoolAcc id) = true ->
  InvR M r sup dir nid ->
  swap_all_into M r (Trader n) id dOut coins acc = Ok (r', total) -> Acc L (bal r) sup (bal r') sup.
Proof.
  induction coins as [|[d a] rest IH]; intros r id dOut acc r' total dir nid ND Ht Hp Ir H; cbn [swap_all_into] in H.
  - inversion H; subst. apply Acc_refl.
  - destruct (d =? dOut); [exact (IH r id dOut acc r' total dir nid ND Ht Hp Ir H)|].
    destruct (getp (pools r) id) as [p|] eqn:G; [|discriminate].
    destruct (module_swap_exact_in GPM r (Trader n) id p d a dOut 0 (gp_spread p)) as [[r1 out]|] eqn:E; [|discriminate].
    pose proof (module_in_InvR M sup dir nid n r id p d a dOut 0 (gp_spread p) r1 out Ir G E) as Ir1.
    apply module_in_inv in E. destruct E as (p' & tin & _ & _ & _ & _ & St).
    eapply Acc_trans; [eapply (settle_Acc L n sup ND Ht); [exact Hp|exact St]|].
    exact (IH r1 id dOut (acc + out) r' total dir nid ND Ht Hp Ir1 H).
Qed.

(* ------------------------------------------------------------------ payer accounting for every message *)
Theorem step_accounting : forall s m s' v L,
  gmsg_wf m -> Inv M s -> ghandle M s m = Ok (s', v) -> NoDup L -> closed_for L s m ->
  (forall x, sumL L (bal (rs M s')) x - supply M s' x = sumL L (bal (rs M s)) x - supply M s x) /\
  (forall a x, inL L a = false -> bal (rs M s') a x = bal (rs M s) a x).
Proof.
  intros s m s' v L [n Hn] I H ND (Cs & Cc & Cm & Cp & Cr).
  change (Acc L (bal (rs M s)) (supply M s) (bal (rs M s')) (supply M s')).
  assert (Hpool : forall id p, getp (pools (rs M s)) id = Some p -> inL L (PoolAcc id) = true).
  { intros id p G. apply inL_of_In. apply Cp. pose proof (inv_ids M _ _ _ _ I id p G). lia. }
  pose proof (inL_of_In _ _ Cc) as Hcoll. pose proof (inL_of_In _ _ Cm) as Hcomm.
  unfold ghandle in H. destruct (negb (gvalidate m)); [discriminate|].
  destruct m; cbn [gmsg_sender] in Hn, Cs; subst; pose proof (inL_of_In _ _ Cs) as Hsend.
  - (* create *)
    unfold create_pool in H.
    destruct (negb (create_valid assets)); [discriminate|]. destruct (negb (exit_fee =? 0)); [discriminate|].
    match type of H with context [mint_shares M ?s0 (Trader n) ?id init_shares] =>
      destruct (mint_shares M s0 (Trader n) id init_shares) as [s1|] eqn:EMint; [|discriminate];
      apply mint_shares_spec in EMint; destruct EMint as (_ & SB1 & SS1 & _) end.
    cbn [rs supply] in SB1, SS1.
    match type of H with context [if fee_exempt M s (Trader n) then Ok ?b else send_coins ?b (Trader n) Community ?cf] =>
      destruct (if fee_exempt M s (Trader n) then Ok b else send_coins b (Trader n) Community cf) as [b1|] eqn:EFee; [|discriminate] end.
    match type of H with context [send_coins b1 (Trader n) (PoolAcc ?id) assets] =>
      destruct (send_coins b1 (Trader n) (PoolAcc id) assets) as [b2|] eqn:ELiq; [|discriminate] end.
    inversion H; subst s' v; clear H. cbn [rs supply bal with_bank with_rs set_bal] in *.
    apply send_coins_spec in ELiq. destruct ELiq as (_ & SL).
    eapply Acc_trans; [eapply Acc_mint with (to := Trader n) (sd := share_denom (next_id M s)) (amt := init_shares); [exact ND|exact Hsend|exact SB1|exact SS1]|].
    eapply Acc_trans with (b1 := b1) (f1 := supply M s1).
    + destruct (fee_exempt M s (Trader n)).
      * inversion EFee; subst. apply Acc_refl.
      * apply send_coins_spec in EFee. destruct EFee as (_ & SF).
        eapply Acc_xfer with (to := Community) (from := Trader n) (c := fun x => csum (creation_fee M s) x); auto.
    + eapply Acc_xfer with (to := PoolAcc (next_id M s)) (from := Trader n) (c := fun x => csum assets x); auto.
      apply inL_of_In. apply Cp. pose proof (inv_next M _ _ _ _ I). lia.
  - apply join_noswap_shape in H. destruct H as (p & p' & sh & cs & G & EA). eapply apply_join_Acc; eauto.
  - apply join_extern_shape in H. destruct H as (p & p' & sh & cs & G & EA). eapply apply_join_Acc; eauto.
  - apply join_share_out_shape in H. destruct H as (p & p' & sh & cs & G & EA). eapply apply_join_Acc; eauto.
  - destruct (exit_pool M s (Trader n) id shareIn mins) as [[s1 coins]|] eqn:E; [|discriminate]. inversion H; subst.
    apply exit_pool_shape in E. destruct E as (p & p' & G & EA). eapply apply_exit_Acc; eauto.
  - unfold exit_swap_share_in in H.
    destruct (exit_pool M s (Trader n) id shareIn []) as [[s1 coins]|] eqn:E1; [|discriminate].
    destruct (swap_all_into M (rs M s1) (Trader n) id dOut coins (lookup coins dOut)) as [[r total]|] eqn:E2; [|discriminate].
    destruct (total <? minOut); [discriminate|]. inversion H; subst s' v; clear H.
    pose proof (exit_pool_Good M ML _ _ _ _ _ _ _ I E1) as [I1 _].
    apply exit_pool_shape in E1. destruct E1 as (p & p' & G & EA).
    eapply Acc_trans; [eapply apply_exit_Acc; eauto|]. cbn [rs supply with_rs].
    eapply swap_all_into_Acc; eauto.
  - apply exit_extern_out_shape in H. destruct H as (p & p' & sh & cs & G & EA). eapply apply_exit_Acc; eauto.
  - destruct (handle GPM (rs M s) m) as [[r v0]|] eqn:E; [|discriminate]. inversion H; subst s' v; clear H.
    cbn [rs supply with_rs]. rewrite Hn in Hsend.
    assert (Jr : J L (supply M s) (direct M s) (next_id M s) (bal (rs M s)) (rs M s)) by (split; [exact I|apply Acc_refl]).
    pose proof (handle_J L n (supply M s) (direct M s) (next_id M s) (bal (rs M s)) ND Hsend Hcoll) as HJ.
    destruct (HJ (fun id Hid => inL_of_In _ _ (Cp id ltac:(lia))) (rs M s) m r v0 Hn Jr E) as [_ A]. exact A.
  - destruct (send_raw (bal (rs M s)) (Trader n) to d amt) as [b|] eqn:E; [|discriminate].
    apply send_raw_spec in E. destruct E as (_ & _ & SB).
    assert (A : Acc L (bal (rs M s)) (supply M s) b (supply M s)).
    { eapply Acc_move1 with (to := to) (from := Trader n); eauto. apply inL_of_In; assumption. }
    inversion H; subst s' v; clear H. destruct to; exact A.
Qed.

End WithMath.
