(* C02 proofs, part 5: bank sends, the step theorem, histories. *)
From Coq Require Import ZArith List Bool Lia.
Import ListNotations.
From Osmo Require Import Base.DecModel C05.Model C05.Proofs C02.Model C02.Proofs C02.Proofs2 C02.Proofs3 C02.Proofs4.
Open Scope Z_scope.

(* messages are signed by ordinary accounts (pool and module accounts have no keys) *)
Definition is_trader (a : acct) : Prop := exists n, a = Trader n.
Definition gmsg_sender (m : gmsg) : acct :=
  match m with
  | GCreate a _ _ _ _ | GJoin a _ _ _ | GJoinExtern a _ _ _ _ | GJoinShareOut a _ _ _ _ | GExit a _ _ _
  | GExitShareIn a _ _ _ _ | GExitExternOut a _ _ _ _ | GSend a _ _ _ => a
  | GSwap m0 => msg_sender m0
  end.
Definition gmsg_wf (m : gmsg) : Prop := is_trader (gmsg_sender m).

Section WithMath.
Variable M : PoolMath.
Hypothesis ML : MathLaws M.

Notation GPM := (GP M).
Notation getp := (get_pool GPM).

Lemma send_Good : forall s n to d amt s' v,
  Inv M s -> ghandle M s (GSend (Trader n) to d amt) = Ok (s', v) -> Good M s s'.
Proof.
  intros s n to d amt s' v I H. unfold ghandle in H. destruct (negb (gvalidate (GSend (Trader n) to d amt))); [discriminate|].
  destruct (send_raw (bal (rs M s)) (Trader n) to d amt) as [b|] eqn:E; [|discriminate].
  apply send_raw_spec in E. destruct E as (_ & _ & SB).
  inversion H; subst s' v; clear H.
  split; [|intros; destruct to; reflexivity].
  destruct to as [k|id| |].
  - unfold Inv; simpl. eapply InvR_bank_irrelevant; [exact I|reflexivity|].
    intros. simpl. rewrite SB. unfold at_. cbn [acct_eqb andb]. unfold ind. lia.
  - unfold Inv; simpl. constructor; simpl.
    + intros id' q Gq x. rewrite SB. unfold at_. cbn [acct_eqb andb].
      rewrite (inv_bank M _ _ _ _ I id' q Gq). unfold ind. destruct ((id' =? id) && (x =? d)); lia.
    + intros. eapply (inv_shares M); [exact I|eassumption].
    + intros. eapply (inv_ids M); [exact I|eassumption].
    + eapply (inv_next M); exact I.
    + intros. eapply (inv_pos M); [exact I|eassumption|assumption].
    + intros id' x Hge. rewrite SB. unfold at_. cbn [acct_eqb andb].
      rewrite (inv_future_bank M _ _ _ _ I id' x Hge). unfold ind. destruct ((id' =? id) && (x =? d)); lia.
    + intros. eapply (inv_future_supply M); [exact I|assumption].
  - unfold Inv; simpl. eapply InvR_bank_irrelevant; [exact I|reflexivity|].
    intros. simpl. rewrite SB. unfold at_. cbn [acct_eqb andb]. unfold ind. lia.
  - unfold Inv; simpl. eapply InvR_bank_irrelevant; [exact I|reflexivity|].
    intros. simpl. rewrite SB. unfold at_. cbn [acct_eqb andb]. unfold ind. lia.
Qed.

(* every successful message of an ordinary account re-establishes the invariant and leaves all non-share supplies alone *)
Theorem step_Good : forall s m s' v, gmsg_wf m -> Inv M s -> ghandle M s m = Ok (s', v) -> Good M s s'.
Proof.
  intros s m s' v [n Hn] I H. destruct m; cbn [gmsg_sender] in Hn; subst.
  - unfold ghandle in H. destruct (negb (gvalidate _)); [discriminate|]. eapply create_pool_Good; eauto.
  - unfold ghandle in H. destruct (negb (gvalidate _)); [discriminate|]. eapply join_noswap_Good; eauto.
  - unfold ghandle in H. destruct (negb (gvalidate _)); [discriminate|]. eapply join_extern_Good; eauto.
  - unfold ghandle in H. destruct (negb (gvalidate _)); [discriminate|]. eapply join_share_out_Good; eauto.
  - unfold ghandle in H. destruct (negb (gvalidate _)); [discriminate|].
    destruct (exit_pool M s (Trader n) id shareIn mins) as [[s1 coins]|] eqn:E; [|discriminate].
    inversion H; subst. eapply exit_pool_Good; eauto.
  - unfold ghandle in H. destruct (negb (gvalidate _)); [discriminate|]. eapply exit_share_in_Good; eauto.
  - unfold ghandle in H. destruct (negb (gvalidate _)); [discriminate|]. eapply exit_extern_out_Good; eauto.
  - unfold ghandle in H. destruct (negb (gvalidate _)); [discriminate|].
    destruct (handle GPM (rs M s) m) as [[r v0]|] eqn:E; [|discriminate]. inversion H; subst. split.
    + unfold Inv; simpl. eapply (handle_InvR M); [exact Hn|exact I|exact E].
    + intros; reflexivity.
  - eapply send_Good; eauto.
Qed.

Theorem gstep_Good : forall s m, gmsg_wf m -> Inv M s -> Good M s (fst (gstep M s m)).
Proof.
  intros. unfold gstep. destruct (ghandle M s m) as [[s' v]|] eqn:E; simpl.
  - eapply step_Good; eauto.
  - split; [assumption|reflexivity].
Qed.

Theorem grun_Good : forall ms s, Forall gmsg_wf ms -> Inv M s -> Good M s (grun M s ms).
Proof.
  induction ms as [|m r IH]; intros s W I; simpl.
  - split; [assumption|reflexivity].
  - inversion W; subst. destruct (gstep_Good s m H1 I) as [I1 S1].
    destruct (IH _ H2 I1) as [I2 S2]. split; [assumption|]. intros. rewrite S2, S1 by assumption. reflexivity.
Qed.

Lemma gstep_err_unchanged : forall s m s' e, gstep M s m = (s', Err e) -> s' = s.
Proof. unfold gstep; intros. destruct (ghandle M s m) as [[s1 r]|e1]; inversion H; reflexivity. Qed.

(* a chain with no pools yet satisfies the invariant *)
Lemma Inv_genesis : forall s, pools (rs M s) = [] -> next_id M s = 1 ->
  (forall id d, direct M s id d = bal (rs M s) (PoolAcc id) d) ->
  (forall id, 1 <= id -> supply M s (share_denom id) = 0) -> Inv M s.
Proof.
  intros s HP HN HD HS. unfold Inv. rewrite HN. constructor; try (rewrite HP; simpl; intros; discriminate).
  - lia.
  - intros. rewrite HD. reflexivity.
  - intros. apply HS. assumption.
Qed.

End WithMath.
