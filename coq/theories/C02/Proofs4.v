(* C02 proofs, part 4: joins, exits, pool creation, bank sends; the step theorem and the history theorems. *)
From Coq Require Import ZArith List Bool Lia.
Import ListNotations.
From Osmo Require Import Base.DecModel C05.Model C05.Proofs C02.Model C02.Proofs C02.Proofs2 C02.Proofs3.
Open Scope Z_scope.

Section WithMath.
Variable M : PoolMath.
Hypothesis ML : MathLaws M.

Notation GPM := (GP M).
Notation getp := (get_pool GPM).

(* what one successful message guarantees: the invariant again, and no change of any non-share supply *)
Definition Good (s s' : gstate M) : Prop :=
  Inv M s' /\ forall x, x <= 100 -> supply M s' x = supply M s x.

Lemma share_denom_big : forall s id p, Inv M s -> getp (pools (rs M s)) id = Some p -> 100 < share_denom id.
Proof. intros. pose proof (inv_ids M _ _ _ _ H id p H0). unfold share_denom. lia. Qed.

(* a single-pool operation whose bank and record deltas agree *)
Lemma Good_update : forall s s' id p p' (delta : Z -> Z) sigma,
  Inv M s -> getp (pools (rs M s)) id = Some p ->
  pools (rs M s') = put_pool GPM (pools (rs M s)) id p' ->
  (forall id' x, bal (rs M s') (PoolAcc id') x = bal (rs M s) (PoolAcc id') x + ind (id' =? id) (delta x)) ->
  (forall x, res p' x = res p x + delta x) ->
  (forall x, supply M s' x = supply M s x + ind (x =? share_denom id) sigma) ->
  gp_shares p' = gp_shares p + sigma ->
  (forall x, has_key (gp_liq p') x = true -> 0 < res p' x) ->
  next_id M s' = next_id M s -> direct M s' = direct M s ->
  Good s s'.
Proof.
  intros. split.
  - unfold Inv. rewrite H7, H8. eapply InvR_update; eauto.
  - intros. rewrite H4. pose proof (share_denom_big s id p H H0).
    assert (X : x =? share_denom id = false) by (apply Z.eqb_neq; lia). rewrite X. unfold ind. lia.
Qed.

(* ------------------------------------------------------------------ joins *)
Lemma csum_single : forall d a x, csum [(d, a)] x = ind (x =? d) a.
Proof. intros; simpl. lia. Qed.

Lemma join_noswap_Good : forall s n id shareOut maxs s' v,
  Inv M s -> join_pool_noswap M s (Trader n) id shareOut maxs = Ok (s', v) -> Good s s'.
Proof.
  intros s n id shareOut maxs s' v I H. unfold join_pool_noswap in H.
  destruct (getp (pools (rs M s)) id) as [p|] eqn:G; [|discriminate].
  destruct (maximal_noswap_lp p shareOut) as [need|] eqn:EN; [|discriminate].
  destruct (negb (match maxs with [] => true | _ => false end) && negb (denoms_subset need maxs)); [discriminate|].
  destruct (negb (match maxs with [] => true | _ => false end) && negb (denoms_subset maxs need)); [discriminate|].
  destruct (negb (match maxs with [] => true | _ => false end) && negb (all_gte maxs need)); [discriminate|].
  destruct (m_join_noswap M p need) as [[shares rem]|] eqn:EM; [|discriminate].
  pose proof (ml_join M ML _ _ _ _ EM); subst rem.
  destruct (negb (denoms_subset [] need)); [discriminate|].
  unfold maximal_noswap_lp in EN. destruct (gp_shares p =? 0); [discriminate|].
  destruct (d_quo_int (d_from_int shareOut) (gp_shares p) <=? 0); [discriminate|].
  apply needed_lp_spec in EN. destruct EN as (Keys & Cok).
  rewrite (sub_coins_nil need Cok) in H.
  destruct (apply_join M s id (with_liq p (add_coins (gp_liq p) need 1) (gp_shares p + shares)) (Trader n) shares need) as [s1|] eqn:EA; [|discriminate].
  inversion H; subst s1 v; clear H.
  apply apply_join_spec in EA. destruct EA as (Psh & _ & SB & SS & SP & SN & SD & _).
  eapply (Good_update s s' id p _ (fun x => csum need x) shares); eauto.
  - intros. rewrite SB. unfold at_. cbn [acct_eqb andb]. unfold ind. destruct (id' =? id); lia.
  - intros. unfold res, with_liq; cbn [gp_liq]. rewrite lookup_add_coins by (apply keys_covered; assumption). lia.
  - intros x Hx. unfold res, with_liq in *; cbn [gp_liq] in *. rewrite has_key_add_coins in Hx.
    rewrite lookup_add_coins by (apply keys_covered; assumption).
    pose proof (inv_pos M _ _ _ _ I id p x G Hx). pose proof (csum_nonneg need x Cok). unfold res in *. lia.
Qed.

Lemma join_extern_Good : forall s n id dIn amt minShares s' v,
  Inv M s -> join_swap_extern_in M s (Trader n) id dIn amt minShares = Ok (s', v) -> Good s s'.
Proof.
  intros s n id dIn amt minShares s' v I H. unfold join_swap_extern_in in H.
  destruct (getp (pools (rs M s)) id) as [p|] eqn:G; [|discriminate].
  destruct (m_join_single M p dIn amt) as [shares|]; [|discriminate].
  destruct (shares <? minShares); [discriminate|]. destruct (shares <=? 0); [discriminate|].
  destruct (has_key (gp_liq p) dIn) eqn:K; [|discriminate]. cbn [negb] in H.
  destruct (apply_join M s id (with_liq p (add_to (gp_liq p) dIn amt) (gp_shares p + shares)) (Trader n) shares [(dIn, amt)]) as [s1|] eqn:EA; [|discriminate].
  inversion H; subst s1 v; clear H.
  apply apply_join_spec in EA. destruct EA as (Psh & Cok & SB & SS & SP & SN & SD & _).
  assert (Pa : 0 < amt). { simpl in Cok. rewrite andb_true_r in Cok. apply Z.ltb_lt in Cok. assumption. }
  eapply (Good_update s s' id p _ (fun x => ind (x =? dIn) amt) shares); eauto.
  - intros. rewrite SB, csum_single. unfold at_. cbn [acct_eqb andb]. unfold ind. destruct (id' =? id); lia.
  - intros. unfold res, with_liq; cbn [gp_liq]. rewrite lookup_add_to, K. reflexivity.
  - intros x Hx. unfold res, with_liq in *; cbn [gp_liq] in *. rewrite has_key_add_to in Hx.
    rewrite lookup_add_to, K. pose proof (inv_pos M _ _ _ _ I id p x G Hx). unfold res, ind in *.
    destruct (true && (x =? dIn)); lia.
Qed.

Lemma join_share_out_Good : forall s n id dIn shareOut maxIn s' v,
  Inv M s -> join_swap_share_out M s (Trader n) id dIn shareOut maxIn = Ok (s', v) -> Good s s'.
Proof.
  intros s n id dIn shareOut maxIn s' v I H. unfold join_swap_share_out in H.
  destruct (getp (pools (rs M s)) id) as [p|] eqn:G; [|discriminate].
  destruct (negb (gp_ext p)); [discriminate|].
  destruct (m_in_for_shares M p dIn shareOut) as [tin|]; [|discriminate].
  destruct (tin <=? 0) eqn:E0; [discriminate|]. apply Z.leb_gt in E0.
  destruct (maxIn <? tin); [discriminate|].
  destruct (has_key (gp_liq p) dIn) eqn:K; [|discriminate]. cbn [negb] in H.
  destruct (apply_join M s id (with_liq p (add_to (gp_liq p) dIn tin) (gp_shares p + shareOut)) (Trader n) shareOut [(dIn, tin)]) as [s1|] eqn:EA; [|discriminate].
  inversion H; subst s1 v; clear H.
  apply apply_join_spec in EA. destruct EA as (Psh & Cok & SB & SS & SP & SN & SD & _).
  eapply (Good_update s s' id p _ (fun x => ind (x =? dIn) tin) shareOut); eauto.
  - intros. rewrite SB, csum_single. unfold at_. cbn [acct_eqb andb]. unfold ind. destruct (id' =? id); lia.
  - intros. unfold res, with_liq; cbn [gp_liq]. rewrite lookup_add_to, K. reflexivity.
  - intros x Hx. unfold res, with_liq in *; cbn [gp_liq] in *. rewrite has_key_add_to in Hx.
    rewrite lookup_add_to, K. pose proof (inv_pos M _ _ _ _ I id p x G Hx). unfold res, ind in *.
    destruct (true && (x =? dIn)); lia.
Qed.

(* ------------------------------------------------------------------ exits *)
Lemma exit_liq_spec : forall coins ext l l', coins_ok coins = true ->
  exit_liq ext l coins = Ok l' ->
  (forall x, 0 < csum coins x -> csum coins x < lookup l x) ->
  (forall x, lookup l' x = lookup l x - csum coins x) /\ (forall x, has_key l' x = has_key l x).
Proof.
  induction coins as [|[d a] r IH]; intros ext l l' Cok H Hlt.
  - simpl in H. inversion H; subst. split; intros; simpl; [lia|reflexivity].
  - simpl in Cok. apply andb_prop in Cok. destruct Cok as [Pa Cr]. apply Z.ltb_lt in Pa. cbn [snd] in Pa.
    cbn [exit_liq] in H. destruct (has_key l d) eqn:K; [|discriminate]. cbn [negb] in H.
    pose proof (csum_nonneg r d Cr) as Nr.
    assert (Hd : a + csum r d < lookup l d).
    { specialize (Hlt d). cbn [csum] in Hlt. rewrite Z.eqb_refl in Hlt. unfold ind in Hlt. lia. }
    assert (X1 : lookup l d - a <? 0 = false) by (apply Z.ltb_ge; lia).
    assert (X2 : lookup l d - a =? 0 = false) by (apply Z.eqb_neq; lia).
    rewrite X1, X2 in H.
    apply IH in H; [|assumption|].
    + destruct H as (HL & HK). split; intros.
      * rewrite HL, lookup_add_to, K. cbn [csum andb]. unfold ind. destruct (x =? d); lia.
      * rewrite HK, has_key_add_to. reflexivity.
    + intros x Hx. rewrite lookup_add_to, K. cbn [andb]. specialize (Hlt x). cbn [csum] in Hlt.
      unfold ind in *. destruct (x =? d) eqn:E.
      * apply Z.eqb_eq in E; subst. lia.
      * lia.
Qed.

Lemma exit_pool_Good : forall s n id shareIn mins s' coins,
  Inv M s -> exit_pool M s (Trader n) id shareIn mins = Ok (s', coins) -> Good s s'.
Proof.
  intros s n id shareIn mins s' coins I H. unfold exit_pool in H.
  destruct (getp (pools (rs M s)) id) as [p|] eqn:G; [|discriminate].
  destruct (gp_shares p <=? shareIn); [discriminate|]. destruct (shareIn <=? 0); [discriminate|].
  destruct (m_exit M p shareIn) as [cs|] eqn:EM; [|discriminate].
  destruct (coins_ok cs) eqn:Cok; [|discriminate]. cbn [negb] in H.
  destruct (exit_liq (gp_ext p) (gp_liq p) cs) as [l|] eqn:EL; [|discriminate].
  destruct (negb (denoms_subset mins cs) || any_gt mins cs); [discriminate|].
  destruct (apply_exit M s id (with_liq p l (gp_shares p - shareIn)) (Trader n) shareIn cs) as [s1|] eqn:EA; [|discriminate].
  inversion H; subst s1 coins; clear H.
  apply exit_liq_spec in EL; [|assumption|exact (ml_exit M ML _ _ _ EM)].
  destruct EL as (HL & HK).
  apply apply_exit_spec in EA. destruct EA as (Psh & _ & SB & SS & SP & SN & SD & _).
  apply Good_update with (id := id) (p := p) (p' := with_liq p l (gp_shares p - shareIn))
                         (delta := fun x => - csum cs x) (sigma := - shareIn);
    [exact I|exact G|exact SP| | | | | |exact SN|exact SD].
  - intros. rewrite SB. unfold at_. cbn [acct_eqb andb]. unfold ind. destruct (id' =? id); lia.
  - intros. unfold res, with_liq; cbn [gp_liq]. rewrite HL. lia.
  - intros. rewrite SS. unfold ind. destruct (x =? share_denom id); lia.
  - unfold with_liq; cbn [gp_shares]. lia.
  - intros x Hx. unfold res, with_liq in *; cbn [gp_liq] in *. rewrite HK in Hx. rewrite HL.
    pose proof (inv_pos M _ _ _ _ I id p x G Hx). pose proof (ml_exit M ML _ _ _ EM x). pose proof (csum_nonneg cs x Cok).
    unfold res in *. lia.
Qed.

Lemma exit_extern_out_Good : forall s n id dOut amt maxShares s' v,
  Inv M s -> exit_swap_extern_out M s (Trader n) id dOut amt maxShares = Ok (s', v) -> Good s s'.
Proof.
  intros s n id dOut amt maxShares s' v I H. unfold exit_swap_extern_out in H.
  destruct (getp (pools (rs M s)) id) as [p|] eqn:G; [|discriminate].
  destruct (negb (gp_ext p)); [discriminate|].
  destruct (m_shares_for_out M p dOut amt) as [shares|] eqn:EM; [|discriminate].
  destruct (shares <=? 0); [discriminate|]. destruct (maxShares <? shares); [discriminate|].
  destruct (exit_liq (gp_ext p) (gp_liq p) [(dOut, amt)]) as [l|] eqn:EL; [|discriminate].
  destruct (apply_exit M s id (with_liq p l (gp_shares p - shares)) (Trader n) shares [(dOut, amt)]) as [s1|] eqn:EA; [|discriminate].
  inversion H; subst s1 v; clear H.
  apply apply_exit_spec in EA. destruct EA as (Psh & Cok & SB & SS & SP & SN & SD & _).
  pose proof (ml_exit_single M ML _ _ _ _ EM) as Lt.
  apply exit_liq_spec in EL; [|assumption|].
  2:{ intros x Hx. rewrite csum_single in *. unfold ind in *. destruct (x =? dOut) eqn:E; [|lia].
      apply Z.eqb_eq in E; subst. exact Lt. }
  destruct EL as (HL & HK).
  apply Good_update with (id := id) (p := p) (p' := with_liq p l (gp_shares p - shares))
                         (delta := fun x => - ind (x =? dOut) amt) (sigma := - shares);
    [exact I|exact G|exact SP| | | | | |exact SN|exact SD].
  - intros. rewrite SB, csum_single. unfold at_. cbn [acct_eqb andb]. unfold ind. destruct (id' =? id); lia.
  - intros. unfold res, with_liq; cbn [gp_liq]. rewrite HL, csum_single. lia.
  - intros. rewrite SS. unfold ind. destruct (x =? share_denom id); lia.
  - unfold with_liq; cbn [gp_shares]. lia.
  - intros x Hx. unfold res, with_liq in *; cbn [gp_liq] in *. rewrite HK in Hx. rewrite HL, csum_single.
    pose proof (inv_pos M _ _ _ _ I id p x G Hx). unfold res, ind in *. destruct (x =? dOut) eqn:E; [|lia].
    apply Z.eqb_eq in E; subst. lia.
Qed.

Lemma swap_all_into_InvR : forall coins r n id dOut acc r' total sup dir nid,
  InvR M r sup dir nid -> swap_all_into M r (Trader n) id dOut coins acc = Ok (r', total) -> InvR M r' sup dir nid.
Proof.
  induction coins as [|[d a] rest IH]; intros; cbn [swap_all_into] in H0; [inversion H0; subst; assumption|].
  destruct (d =? dOut); [eapply IH; eauto|].
  destruct (getp (pools r) id) as [p|] eqn:G; [|discriminate].
  destruct (module_swap_exact_in GPM r (Trader n) id p d a dOut 0 (gp_spread p)) as [[r1 out]|] eqn:E; [|discriminate].
  eapply IH; [|eassumption]. eapply (module_in_InvR M); eauto.
Qed.

Lemma swap_all_into_frame : forall coins r n id dOut acc r' total,
  swap_all_into M r (Trader n) id dOut coins acc = Ok (r', total) -> True.
Proof. intros; exact Logic.I. Qed.

Lemma exit_share_in_Good : forall s n id dOut shareIn minOut s' v,
  Inv M s -> exit_swap_share_in M s (Trader n) id dOut shareIn minOut = Ok (s', v) -> Good s s'.
Proof.
  intros s n id dOut shareIn minOut s' v I H. unfold exit_swap_share_in in H.
  destruct (exit_pool M s (Trader n) id shareIn []) as [[s1 coins]|] eqn:E1; [|discriminate].
  destruct (swap_all_into M (rs M s1) (Trader n) id dOut coins (lookup coins dOut)) as [[r total]|] eqn:E2; [|discriminate].
  destruct (total <? minOut); [discriminate|]. inversion H; subst s' v; clear H.
  apply exit_pool_Good in E1; [|assumption]. destruct E1 as (I1 & S1).
  split.
  - unfold Inv in *. simpl. eapply swap_all_into_InvR; eauto.
  - intros. simpl. apply S1; assumption.
Qed.

(* ------------------------------------------------------------------ pool creation *)
Lemma create_pool_Good : forall s n ext assets spread exit_fee s' v,
  Inv M s -> create_pool M s (Trader n) ext assets spread exit_fee = Ok (s', v) -> Good s s'.
Proof.
  intros s n ext assets spread exit_fee s' v I H. unfold create_pool in H.
  destruct (create_valid assets) eqn:V; [|discriminate]. cbn [negb] in H.
  destruct (exit_fee =? 0); [|discriminate]. cbn [negb] in H.
  set (id := next_id M s) in *.
  set (s0 := mkG M (rs M s) (supply M s) (id + 1) (direct M s) (creation_fee M s) (fee_exempt M s)) in *.
  destruct (mint_shares M s0 (Trader n) id init_shares) as [s1|] eqn:EMint; [|discriminate].
  apply mint_shares_spec in EMint. destruct EMint as (_ & SB1 & SS1 & SP1 & SN1 & SD1 & ST1 & SW1 & SC1 & SF1).
  subst s0. cbn [rs supply direct next_id creation_fee fee_exempt] in SB1, SS1, SP1, SN1, SD1.
  set (p := mkGP id assets init_shares spread exit_fee ext (0, 0)) in *.
  set (s2 := with_rs M s1 (mkState (pools (rs M s1) ++ [(id, p)]) (bal (rs M s1)) (taker_fee (rs M s1)) (whitelisted (rs M s1)) (skim (rs M s1)))) in *.
  destruct (if fee_exempt M s (Trader n) then Ok (bal (rs M s2)) else send_coins (bal (rs M s2)) (Trader n) Community (creation_fee M s)) as [b1|] eqn:EFee; [|discriminate].
  destruct (send_coins b1 (Trader n) (PoolAcc id) assets) as [b2|] eqn:ELiq; [|discriminate].
  inversion H; subst s' v; clear H.
  assert (FB : forall id' x, b1 (PoolAcc id') x = bal (rs M s) (PoolAcc id') x).
  { intros. assert (B2 : bal (rs M s2) (PoolAcc id') x = bal (rs M s) (PoolAcc id') x).
    { unfold s2; simpl. rewrite SB1. unfold at_; cbn [acct_eqb andb]. unfold ind. simpl. lia. }
    destruct (fee_exempt M s (Trader n)).
    - inversion EFee; subst. exact B2.
    - apply send_coins_spec in EFee. destruct EFee as (_ & SF). rewrite SF. cbn [acct_eqb]. unfold ind. lia. }
  apply send_coins_spec in ELiq. destruct ELiq as (Cok & SL).
  unfold create_valid in V. repeat (apply andb_prop in V; destruct V as [V ?]).
  assert (Dk : distinct_keys assets = true) by assumption.
  set (sf := with_bank M s2 b2) in *.
  assert (PoolsEq : pools (rs M sf) = pools (rs M s) ++ [(id, p)]).
  { unfold sf, with_bank, s2; simpl. rewrite SP1. reflexivity. }
  assert (FD : direct M sf = direct M s) by (unfold sf, with_bank, s2; simpl; exact SD1).
  assert (FN : next_id M sf = id + 1) by (unfold sf, with_bank, s2; simpl; exact SN1).
  assert (FS : forall x, supply M sf x = supply M s x + ind (x =? share_denom id) init_shares)
    by (intros; unfold sf, with_bank, s2; simpl; apply SS1).
  assert (FBal : forall id' x, bal (rs M sf) (PoolAcc id') x = bal (rs M s) (PoolAcc id') x + ind (id' =? id) (csum assets x)).
  { intros. unfold sf, with_bank; simpl. rewrite SL, FB. cbn [acct_eqb]. unfold ind. lia. }
  assert (NoOld : getp (pools (rs M s)) id = None).
  { destruct (getp (pools (rs M s)) id) as [q|] eqn:G; [|reflexivity].
    pose proof (inv_ids M _ _ _ _ I id q G). unfold id in *. lia. }
  pose proof (inv_next M _ _ _ _ I) as Nx.
  assert (Pos : forall (l : list (Z * Z)) d, coins_ok l = true -> has_key l d = true -> 0 < lookup l d).
  { induction l as [|[k a] r IHl]; intros d0 C K; simpl in *; [discriminate|].
    apply andb_prop in C. destruct C as [C1 C2]. apply Z.ltb_lt in C1. simpl in C1.
    destruct (k =? d0); [assumption|]. simpl in K. apply IHl; assumption. }
  clearbody sf. clear SL FB.
  split.
  - unfold Inv. rewrite FD, FN. constructor.
    + intros id' q Gq d. rewrite PoolsEq, get_app in Gq. rewrite FBal.
      destruct (getp (pools (rs M s)) id') as [q0|] eqn:G0.
      * assert (Eq0 : q0 = q) by congruence; subst q0. pose proof (inv_ids M _ _ _ _ I id' q G0).
        assert (X : id' =? id = false) by (apply Z.eqb_neq; unfold id; lia). rewrite X. unfold ind.
        rewrite (inv_bank M _ _ _ _ I id' q G0). lia.
      * destruct (id =? id') eqn:E; [|discriminate]. apply Z.eqb_eq in E; subst id'.
        assert (Eqp : q = p) by congruence; subst q.
        rewrite Z.eqb_refl. unfold ind. rewrite (inv_future_bank M _ _ _ _ I id d) by (unfold id; lia).
        unfold res, p; cbn [gp_liq]. rewrite csum_lookup_distinct by assumption. lia.
    + intros id' q Gq. rewrite PoolsEq, get_app in Gq. rewrite FS.
      destruct (getp (pools (rs M s)) id') as [q0|] eqn:G0.
      * assert (Eq0 : q0 = q) by congruence; subst q0. pose proof (inv_ids M _ _ _ _ I id' q G0).
        assert (X : share_denom id' =? share_denom id = false) by (apply Z.eqb_neq; unfold share_denom, id; lia).
        rewrite X. unfold ind. rewrite <- (inv_shares M _ _ _ _ I id' q G0). lia.
      * destruct (id =? id') eqn:E; [|discriminate]. apply Z.eqb_eq in E; subst id'.
        assert (Eqp : q = p) by congruence; subst q.
        rewrite Z.eqb_refl. unfold ind. rewrite (inv_future_supply M _ _ _ _ I id) by (unfold id; lia).
        reflexivity.
    + intros id' q Gq. rewrite PoolsEq, get_app in Gq.
      destruct (getp (pools (rs M s)) id') as [q0|] eqn:G0.
      * pose proof (inv_ids M _ _ _ _ I id' q0 G0). unfold id. lia.
      * destruct (id =? id') eqn:E; [|discriminate]. apply Z.eqb_eq in E; subst id'. unfold id. lia.
    + unfold id. lia.
    + intros id' q d Gq Hk. rewrite PoolsEq, get_app in Gq.
      destruct (getp (pools (rs M s)) id') as [q0|] eqn:G0.
      * assert (Eq0 : q0 = q) by congruence; subst q0. eapply (inv_pos M); [exact I|exact G0|exact Hk].
      * destruct (id =? id') eqn:E; [|discriminate]. assert (Eqp : q = p) by congruence; subst q.
        unfold res, p in *; cbn [gp_liq] in *. apply Pos; assumption.
    + intros id' d Hge. rewrite FBal.
      assert (X : id' =? id = false) by (apply Z.eqb_neq; unfold id in *; lia). rewrite X. unfold ind.
      rewrite (inv_future_bank M _ _ _ _ I id' d) by (unfold id in *; lia). lia.
    + intros id' Hge. rewrite FS.
      assert (X : share_denom id' =? share_denom id = false) by (apply Z.eqb_neq; unfold share_denom, id in *; lia).
      rewrite X. unfold ind. rewrite (inv_future_supply M _ _ _ _ I id') by (unfold id in *; lia). lia.
  - intros. rewrite FS.
    assert (X : x =? share_denom id = false) by (apply Z.eqb_neq; unfold share_denom, id; lia).
    rewrite X. unfold ind. lia.
Qed.

End WithMath.
