(* C02 proofs: conservation invariants of the gamm keeper + router model, parametric in the pool math. *)
From Coq Require Import ZArith List Bool Lia.
Import ListNotations.
From Osmo Require Import Base.DecModel C05.Model C05.Proofs C02.Model.
Open Scope Z_scope.

Section WithMath.
Variable M : PoolMath.

Lemma gstep_err_unchanged : forall s m s' e, gstep M s m = (s', Err e) -> s' = s.
Proof. unfold gstep; intros. destruct (ghandle M s m) as [[s1 r]|e1]; inversion H; reflexivity. Qed.

End WithMath.
