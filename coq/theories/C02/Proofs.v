(* C02 proofs: conservation invariants of the gamm keeper + router model, parametric in the pool math.
   Part 1: lists, bank, sums over account lists, primitive specifications. *)
From Coq Require Import ZArith List Bool Lia.
Import ListNotations.
From Osmo Require Import Base.DecModel C05.Model C05.Proofs C02.Model.
Open Scope Z_scope.


(* ------------------------------------------------------------------ denom -> amount lists *)
Lemma has_key_add_to : forall l d delta x, has_key (add_to l d delta) x = has_key l x.
Proof.
  induction l as [|[k v] r IH]; intros; simpl; [reflexivity|].
  destruct (k =? d); simpl; [reflexivity|]. rewrite IH. reflexivity.
Qed.

Lemma lookup_add_to : forall l d delta x,
  lookup (add_to l d delta) x = lookup l x + ind (has_key l d && (x =? d)) delta.
Proof.
  induction l as [|[k v] r IH]; intros; simpl; [unfold ind; simpl; lia|].
  destruct (k =? d) eqn:E; simpl.
  - apply Z.eqb_eq in E; subst. destruct (d =? x) eqn:E2.
    + apply Z.eqb_eq in E2; subst. rewrite Z.eqb_refl. unfold ind; simpl. lia.
    + rewrite (Z.eqb_sym x d), E2. unfold ind; simpl. lia.
  - destruct (k =? x) eqn:E2.
    + assert (X : x =? d = false) by (apply Z.eqb_neq; apply Z.eqb_neq in E; apply Z.eqb_eq in E2; lia).
      rewrite X, andb_false_r. unfold ind; lia.
    + apply IH.
Qed.

Fixpoint csum (coins : list (Z * Z)) (x : Z) : Z :=
  match coins with
  | [] => 0
  | (d, a) :: r => ind (x =? d) a + csum r x
  end.

Lemma lookup_add_coins : forall coins l sign x,
  forallb (fun c => has_key l (fst c)) coins = true ->
  lookup (add_coins l coins sign) x = lookup l x + sign * csum coins x.
Proof.
  induction coins as [|[d a] r IH]; intros; simpl; [lia|].
  simpl in H. apply andb_prop in H. destruct H as [H1 H2].
  rewrite IH.
  - rewrite lookup_add_to, H1. simpl. unfold ind. destruct (x =? d); lia.
  - rewrite forallb_forall in *. intros c Hc. rewrite has_key_add_to. apply H2; assumption.
Qed.

Lemma has_key_add_coins : forall coins l sign x, has_key (add_coins l coins sign) x = has_key l x.
Proof. induction coins as [|[d a] r IH]; intros; simpl; [reflexivity|]. rewrite IH, has_key_add_to. reflexivity. Qed.

Lemma lookup_no_key : forall l x, has_key l x = false -> lookup l x = 0.
Proof.
  induction l as [|[k v] r IH]; intros; simpl in *; [reflexivity|].
  destruct (k =? x); simpl in H; [discriminate|]. apply IH; assumption.
Qed.

Lemma csum_lookup_distinct : forall l x, distinct_keys l = true -> csum l x = lookup l x.
Proof.
  induction l as [|[k v] r IH]; intros; simpl in *; [reflexivity|].
  apply andb_prop in H. destruct H as [H1 H2]. apply negb_true_iff in H1.
  rewrite (Z.eqb_sym x k). destruct (k =? x) eqn:E.
  - apply Z.eqb_eq in E; subst. rewrite IH by assumption. rewrite lookup_no_key by assumption. unfold ind; lia.
  - rewrite IH by assumption. unfold ind; lia.
Qed.

Lemma send_coins_spec : forall coins b from to b',
  send_coins b from to coins = Ok b' ->
  coins_ok coins = true /\
  forall a x, b' a x = b a x + ind (acct_eqb a to) (csum coins x) - ind (acct_eqb a from) (csum coins x).
Proof.
  induction coins as [|[d v] r IH]; intros; simpl in H.
  - inversion H; subst. split; [reflexivity|]. intros; unfold ind; simpl. destruct (acct_eqb a to), (acct_eqb a from); lia.
  - destruct (send_raw b from to d v) as [b1|] eqn:E; [|discriminate].
    apply send_raw_spec in E. destruct E as (Pz & _ & S1).
    apply IH in H. destruct H as (Ok1 & S2).
    split.
    + simpl. rewrite Ok1. assert (0 <? v = true) by (apply Z.ltb_lt; assumption). rewrite H. reflexivity.
    + intros. rewrite S2, S1. simpl. unfold at_, ind.
      destruct (acct_eqb a to), (acct_eqb a from), (x =? d); simpl; lia.
Qed.

(* ------------------------------------------------------------------ sums of balances over a list of accounts *)
Fixpoint sumL (L : list acct) (b : bank) (x : Z) : Z :=
  match L with
  | [] => 0
  | a :: r => b a x + sumL r b x
  end.
Definition inL (L : list acct) (a : acct) : bool := existsb (acct_eqb a) L.

Lemma inL_In : forall L a, inL L a = true <-> In a L.
Proof.
  unfold inL; intros. rewrite existsb_exists. split.
  - intros (y & Hy & E). apply acct_eqb_eq in E; subst; assumption.
  - intro H. exists a. split; [assumption|apply acct_eqb_refl].
Qed.

(* the sum of an indicator over a duplicate-free list *)
Lemma sumL_ind : forall L a0 (v : Z), NoDup L ->
  fold_right (fun a acc => ind (acct_eqb a a0) v + acc) 0 L = ind (inL L a0) v.
Proof.
  induction L as [|a r IH]; intros; simpl; [reflexivity|].
  inversion H; subst. rewrite IH by assumption. unfold inL; simpl.
  rewrite (acct_eqb_sym a0 a). destruct (acct_eqb a a0) eqn:E; simpl.
  - apply acct_eqb_eq in E; subst.
    assert (N : existsb (acct_eqb a0) r = false).
    { destruct (existsb (acct_eqb a0) r) eqn:X; [|reflexivity]. apply inL_In in X. contradiction. }
    rewrite N. unfold ind. lia.
  - unfold ind. lia.
Qed.

(* pointwise "b' = b + sum of indicator terms" gives the sum *)
Lemma sumL_delta1 : forall L b b' x a1 (c1 : Z), NoDup L ->
  (forall a, b' a x = b a x + ind (acct_eqb a a1) c1) ->
  sumL L b' x = sumL L b x + ind (inL L a1) c1.
Proof.
  intros L b b' x a1 c1 ND H. rewrite <- (sumL_ind L a1 c1 ND). clear ND.
  induction L as [|a r IH]; simpl; [lia|]. rewrite H, IH. lia.
Qed.

Lemma sumL_ext : forall L b b' x, (forall a, b' a x = b a x) -> sumL L b' x = sumL L b x.
Proof. induction L; intros; simpl; [reflexivity|]. rewrite H. f_equal. apply IHL; assumption. Qed.

(* a transfer between two accounts of the list leaves the list's total unchanged *)
Lemma sumL_move : forall L b b' x to from (c : Z), NoDup L ->
  (forall a, b' a x = b a x + ind (acct_eqb a to) c - ind (acct_eqb a from) c) ->
  sumL L b' x = sumL L b x + ind (inL L to) c - ind (inL L from) c.
Proof.
  intros.
  set (b1 := fun a y => if y =? x then b a x + ind (acct_eqb a to) c else b a y).
  assert (E1 : sumL L b1 x = sumL L b x + ind (inL L to) c).
  { apply sumL_delta1; [assumption|]. intros. unfold b1. rewrite Z.eqb_refl. reflexivity. }
  assert (E2 : sumL L b' x = sumL L b1 x + ind (inL L from) (- c)).
  { apply sumL_delta1; [assumption|]. intros. unfold b1. rewrite Z.eqb_refl, H0. unfold ind.
    destruct (acct_eqb a from); lia. }
  rewrite E2, E1. unfold ind. destruct (inL L from); lia.
Qed.
