(* C14 proofs, part 5: the property-level statements, phrased with the model's own functions. *)
From Coq Require Import ZArith Bool List Lia.
Import ListNotations.
From Osmo Require Import Base.DecModel Gen.C14_consts C14.Model C14.ProofsPrice C14.ProofsSqrt C14.ProofsRound C14.ProofsBucket.
Open Scope Z_scope.
(* no division reasoning by lia in this file (the hook set in ProofsPrice is switched off again) *)
Ltac Zify.zify_post_hook ::= idtac.

Lemma floor_ge_multiple m t sp : 0 < sp -> Z.rem m sp = 0 -> m <= t -> m <= sp * (t / sp).
Proof.
  intros Hsp Hr Hm. pose proof (Z.quot_rem' m sp) as Hq. rewrite Hr, Z.add_0_r in Hq.
  assert (Z.quot m sp <= t / sp) by (apply Z.div_le_lower_bound; [exact Hsp|rewrite <- Hq; exact Hm]).
  rewrite Hq at 1. apply Z.mul_le_mono_nonneg_l; [lia|exact H].
Qed.

Lemma sqrt_ok_inv t st : MinInitializedTickV2 <= t <= MaxTick -> tick_to_sqrt_price t = Ok st -> st = sqrt_of t.
Proof. intros H E. rewrite tick_to_sqrt_price_floor in E by exact H. congruence. Qed.

Lemma price_round_trip_main t p : MinInitializedTickV2 <= t <= MaxTick ->
  tick_to_price t = Ok p -> calculate_price_to_tick p = Ok t.
Proof.
  intros Ht E. rewrite tick_to_price_floor in E by exact Ht. inversion E; subst p. consts.
  apply price_round_trip. unfold G. lia.
Qed.

(* CalculatePriceToTick on its own: the bucket's tick or its successor - this is what the +-1 correction relies on *)
Lemma price_to_tick_near_main u p pu pu1 : MinInitializedTickV2 <= u < MaxTick ->
  tick_to_price u = Ok pu -> tick_to_price (u + 1) = Ok pu1 -> pu <= p < pu1 ->
  calculate_price_to_tick p = Ok u \/ calculate_price_to_tick p = Ok (u + 1).
Proof.
  intros Hu E0 E1 Hp. consts. rewrite tick_to_price_floor in E0, E1 by lia.
  inversion E0; inversion E1; subst. apply price_to_tick_near; unfold G; lia.
Qed.
Lemma price_to_tick_floor_refuted : exists u p pu pu1, MinInitializedTickV2 <= u < MaxTick /\
  tick_to_price u = Ok pu /\ tick_to_price (u + 1) = Ok pu1 /\ pu <= p < pu1 /\ calculate_price_to_tick p <> Ok u.
Proof.
  exists (30 * G + 4), (price_of (30 * G + 5) - 10 ^ 18), (price_of (30 * G + 4)), (price_of (30 * G + 5)).
  vm_compute. repeat split; try reflexivity; intro; discriminate.
Qed.

(* bucket mapping, lower edge inclusive, upper edge exclusive *)
Lemma bucket_main t s st st1 : MinInitializedTick <= t < MaxTick ->
  tick_to_sqrt_price t = Ok st -> tick_to_sqrt_price (t + 1) = Ok st1 -> st <= s < st1 ->
  calculate_sqrt_price_to_tick s = Ok t.
Proof.
  intros Ht E0 E1 Hs. consts.
  apply sqrt_ok_inv in E0; [|lia]. apply sqrt_ok_inv in E1; [|lia]. subst.
  apply sqrt_price_to_tick_bucket; unfold G; lia.
Qed.

(* the bucket of MinCurrentTick (a legal current tick, see types/constants.go) *)
Lemma bucket_min_current_main s st st1 :
  tick_to_sqrt_price MinCurrentTick = Ok st -> tick_to_sqrt_price MinInitializedTick = Ok st1 -> st <= s < st1 ->
  calculate_sqrt_price_to_tick s = Ok MinCurrentTick.
Proof.
  intros E0 E1 Hs. consts.
  apply sqrt_ok_inv in E0; [|lia]. apply sqrt_ok_inv in E1; [|lia]. subst.
  rewrite Hc3_, Hc1_ in *. apply sqrt_price_to_tick_bucket_min_current. exact Hs.
Qed.

Lemma top_edge_main sm : tick_to_sqrt_price MaxTick = Ok sm -> calculate_sqrt_price_to_tick sm = Ok MaxTick.
Proof.
  intros E. consts. apply sqrt_ok_inv in E; [|lia]. subst. rewrite Hc2_. apply sqrt_price_to_tick_top.
Qed.

Lemma round_trip_main t st : MinInitializedTick <= t <= MaxTick ->
  tick_to_sqrt_price t = Ok st -> calculate_sqrt_price_to_tick st = Ok t.
Proof.
  intros Ht E. consts. apply sqrt_ok_inv in E; [|lia]. subst.
  apply sqrt_price_to_tick_round_trip. unfold G. lia.
Qed.

(* soundness: whatever is returned is the tick whose bucket contains the sqrt price *)
Lemma sound_main s T : calculate_sqrt_price_to_tick s = Ok T ->
  MinCurrentTick - 1 <= T <= MaxTick /\
  exists sT, tick_to_sqrt_price T = Ok sT /\ sT <= s /\
    ((T < MaxTick /\ exists sT1, tick_to_sqrt_price (T + 1) = Ok sT1 /\ s < sT1) \/ (T = MaxTick /\ s = sT)).
Proof.
  intros H. destruct (sqrt_price_to_tick_sound s T H) as (Hr & Hl & Hb). consts.
  split; [exact Hr|]. exists (sqrt_of T). split; [apply tick_to_sqrt_price_floor; lia|]. split; [exact Hl|].
  unfold G in Hb. destruct Hb as [[Hlt Hs]|[He Hs]].
  - left. split; [lia|]. exists (sqrt_of (T + 1)). split; [apply tick_to_sqrt_price_floor; lia|exact Hs].
  - right. split; [lia|exact Hs].
Qed.

(* hence sqrt prices outside [S(MinCurrentTick - 1), S(MaxTick)] are rejected; in particular everything <= 0 *)
Lemma rejects_main s : s < sqrt_of (MinCurrentTick - 1) \/ sqrt_of MaxTick < s ->
  exists e, calculate_sqrt_price_to_tick s = Err e.
Proof.
  intros H. destruct (calculate_sqrt_price_to_tick s) as [T|e] eqn:E; [exfalso|exists e; reflexivity].
  destruct (sqrt_price_to_tick_sound s T E) as (Hr & Hl & Hb). consts.
  assert (M : forall a b, -30 * 9000000 <= a -> a <= b -> b <= 38 * 9000000 -> sqrt_of a <= sqrt_of b).
  { intros a b H1 H2 H3. destruct (Z.eq_dec a b) as [->|N]; [lia|].
    pose proof (sqrt_of_strict_mono a b). unfold G in *. lia. }
  destruct H as [H|H].
  - pose proof (M (MinCurrentTick - 1) T ltac:(lia) ltac:(lia) ltac:(lia)). lia.
  - unfold G in Hb. destruct Hb as [[Hlt Hs]|[He Hs]].
    + pose proof (M (T + 1) MaxTick ltac:(lia) ltac:(lia) ltac:(lia)). lia.
    + subst T. rewrite Hc2_ in H. lia.
Qed.
Lemma sqrt_of_min_pos : 0 < sqrt_of (MinCurrentTick - 1).
Proof. vm_compute. reflexivity. Qed.

(* the guard `tick < MinCurrentTick` is applied to the candidate, before the -1 correction: a sliver of
   sqrt prices below S(MinCurrentTick) is mapped to MinCurrentTick - 1 instead of being rejected *)
Lemma below_min_current_witness :
  calculate_sqrt_price_to_tick 999999949999998749999937499996 = Ok (MinCurrentTick - 1) /\
  tick_to_sqrt_price MinCurrentTick = Ok 999999949999998749999937499997.
Proof. vm_compute. split; reflexivity. Qed.

(** * Spacing: SqrtPriceToTickRoundDownSpacing on the swap-reachable range *)
Lemma sqrt_round_down_total t s st st1 sp : In sp AuthorizedTickSpacing -> MinInitializedTick <= t < MaxTick ->
  tick_to_sqrt_price t = Ok st -> tick_to_sqrt_price (t + 1) = Ok st1 -> st <= s < st1 ->
  exists r, sqrt_price_to_tick_round_down_spacing s sp = Ok r /\
    r <= t /\ t - r < sp /\ Z.rem r sp = 0 /\ MinInitializedTick <= r.
Proof.
  intros Hin Ht E0 E1 Hs. pose proof authorized_spacing_ok as Ha. rewrite Forall_forall in Ha.
  destruct (Ha sp Hin) as (Hsp & Hd2 & Hd1 & _).
  unfold sqrt_price_to_tick_round_down_spacing. rewrite (bucket_main t s st st1 Ht E0 E1 Hs).
  rewrite to_int64_small by lia. consts.
  destruct (round_down_in_range t sp Hin ltac:(lia)) as [r Hr]. exists r. split; [exact Hr|].
  destruct (round_down_ok t sp r ltac:(lia) Hr) as (H1 & H2 & H3 & H4 & H5).
  repeat split; try assumption.
  (* MinInitializedTick is on every authorised grid, so rounding down stays at or above it *)
  rewrite H4. apply floor_ge_multiple; [lia|exact Hd1|lia].
Qed.

(** * roundTickToCanonicalPriceTick leaves a valid range unchanged (lp.go: after TicksToSqrtPrice) *)
Lemma canonical_fixed sp lo hi : In sp AuthorizedTickSpacing ->
  validate_tick_range_is_valid sp lo hi = Ok tt ->
  exists sl su, ticks_to_sqrt_price lo hi = Ok (sl, su) /\
                round_tick_to_canonical_price_tick lo hi sl su sp = Ok (lo, hi).
Proof.
  intros Hin Hv. pose proof authorized_spacing_ok as Ha. rewrite Forall_forall in Ha.
  destruct (Ha sp Hin) as (Hsp & _).
  apply validate_spec in Hv; [|exact Hsp]. destruct Hv as (R1 & R2 & B1 & B2 & B3). consts.
  exists (sqrt_of lo), (sqrt_of hi). unfold ticks_to_sqrt_price. tf (lo >=? hi) false.
  rewrite !tick_to_sqrt_price_floor by lia. split; [reflexivity|].
  unfold round_tick_to_canonical_price_tick, sqrt_price_to_tick_round_down_spacing.
  rewrite !sqrt_price_to_tick_round_trip by (unfold G; lia).
  rewrite to_int64_small by lia.
  assert (Hfix : forall t, Z.rem t sp = 0 -> MinInitializedTickV2 <= t <= MaxTick -> round_down_tick_to_spacing t sp = Ok t).
  { intros t Hr Ht. rewrite round_down_spec by lia. cbv zeta.
    assert (E : sp * (t / sp) = t).
    { apply Z.le_antisymm; [apply Z.mul_div_le; lia|apply floor_ge_multiple; [lia|exact Hr|lia]]. }
    rewrite E. tf (t >? MaxTick) false. tf (t <? MinInitializedTickV2) false. reflexivity. }
  rewrite (Hfix lo R1 ltac:(lia)), (Hfix hi R2 ltac:(lia)).
  rewrite !Z.eqb_refl. reflexivity.
Qed.

(** * statement-level wrappers used by Properties/C14.v *)
Lemma rejects_stmt s lo hi :
  tick_to_sqrt_price (MinCurrentTick - 1) = Ok lo -> tick_to_sqrt_price MaxTick = Ok hi ->
  0 < lo /\ (s < lo \/ hi < s -> exists e, calculate_sqrt_price_to_tick s = Err e).
Proof.
  intros E1 E2. apply sqrt_ok_inv in E1; [|vm_compute; split; discriminate].
  apply sqrt_ok_inv in E2; [|vm_compute; split; discriminate]. subst.
  split; [exact sqrt_of_min_pos|apply rejects_main].
Qed.

Lemma low_rejection_refuted : exists s T, calculate_sqrt_price_to_tick s = Ok T /\ ~ MinCurrentTick <= T.
Proof.
  exists 999999949999998749999937499996, (MinCurrentTick - 1).
  split; [apply below_min_current_witness|vm_compute; intros H; apply H; reflexivity].
Qed.

Lemma round_down_total_stmt t sp : In sp AuthorizedTickSpacing ->
  (MinInitializedTickV2 <= t <= MaxTick -> exists r, round_down_tick_to_spacing t sp = Ok r) /\
  (t < MinInitializedTickV2 \/ MaxTick + sp <= t -> round_down_tick_to_spacing t sp = Err ETickBounds).
Proof.
  intros Hin. split; [apply round_down_in_range, Hin|apply round_down_rejects].
  pose proof authorized_spacing_ok as Ha. rewrite Forall_forall in Ha. apply (Ha sp Hin).
Qed.

Lemma round_down_stmt t sp : 0 < sp ->
  (forall r, round_down_tick_to_spacing t sp = Ok r ->
     r <= t /\ t - r < sp /\ Z.rem r sp = 0 /\ r = sp * (t / sp) /\ MinInitializedTickV2 <= r <= MaxTick) /\
  (forall e, round_down_tick_to_spacing t sp = Err e ->
     e = ETickBounds /\ (sp * (t / sp) > MaxTick \/ sp * (t / sp) < MinInitializedTickV2)).
Proof. intros H; split; intros x Hx; [apply round_down_ok|apply round_down_err]; assumption. Qed.
