(* C14 proofs, part 1: the tick -> price map (closed form, bounds, strict monotonicity). *)
From Coq Require Import ZArith Bool List Lia.
Import ListNotations.
From Osmo Require Import Base.DecModel Gen.C14_consts C14.Model.
Open Scope Z_scope.
(* lia also decides goals with /, mod, Z.quot, Z.rem by constants *)
Ltac Zify.zify_post_hook ::= Z.to_euclidean_division_equations.

(** * Deciding the boolean comparisons of the model from linear facts *)
Ltac zb_solve := first
 [ apply Z.eqb_eq; lia | apply Z.eqb_neq; lia | apply Z.ltb_lt; lia | apply Z.ltb_ge; lia
 | apply Z.leb_le; lia | apply Z.leb_gt; lia
 | rewrite Z.gtb_ltb; apply Z.ltb_lt; lia | rewrite Z.gtb_ltb; apply Z.ltb_ge; lia
 | rewrite Z.geb_leb; apply Z.leb_le; lia | rewrite Z.geb_leb; apply Z.leb_gt; lia ].
Ltac tf c v := replace c with v by (symmetry; zb_solve).

(** * Generated constants: the values the proofs below are checked against.  A changed literal in /repo
      changes Gen/C14_consts.v and these lemmas (and everything after them) are re-checked. *)
Definition G : Z := 9000000.
Lemma geo_dist_val : geo_dist = G.
Proof. vm_compute. reflexivity. Qed.
Lemma consts_val :
  MinInitializedTick = -12 * G /\ MaxTick = 38 * G /\ MinCurrentTick = -12 * G - 1 /\
  MinInitializedTickV2 = -30 * G /\ MinCurrentTickV2 = -30 * G - 1 /\ ExponentAtPriceOne = -6 /\
  unscaled_base = 10 ^ 6 /\ special_geo_delta = -30.
Proof. vm_compute. repeat split; reflexivity. Qed.
Lemma price_consts_val :
  MaxSpotPriceBigDec = 10 ^ 74 /\ MinSpotPriceBigDec = 10 ^ 24 /\ MinSpotPriceV2 = 10 ^ 6.
Proof. vm_compute. repeat split; reflexivity. Qed.
Lemma cache_ends_val : cache_pos_end = 38 /\ cache_neg_end = -31.
Proof. vm_compute. split; reflexivity. Qed.

Ltac consts :=
  pose proof geo_dist_val as Hgd_; pose proof consts_val as Hcv_; unfold G in *;
  destruct Hcv_ as (Hc1_ & Hc2_ & Hc3_ & Hc4_ & Hc5_ & Hc6_ & Hc7_ & Hc8_).

(** * The one-division variants of Mul / Quo are DecModel's *)
Lemma chop_round_qr_eq p d : chop_round_qr p d = chop_round p d.
Proof.
  unfold chop_round_qr, chop_round, chop_round_nonneg, Z.quot, Z.rem.
  destruct (d <? 0) eqn:E.
  - apply Z.ltb_lt in E. rewrite Z.abs_neq by lia. destruct (Z.quotrem (- d) p). reflexivity.
  - apply Z.ltb_ge in E. rewrite Z.abs_eq by lia. destruct (Z.quotrem d p). reflexivity.
Qed.
Lemma bd_mul_qr_eq a b : bd_mul_qr a b = bd_mul a b.
Proof. apply chop_round_qr_eq. Qed.
Lemma bd_quo_qr_eq a b : bd_quo_qr a b = bd_quo a b.
Proof. apply chop_round_qr_eq. Qed.

(** * Powers of ten *)
Lemma pow10_gt0 n : 0 <= n -> 0 < 10 ^ n.
Proof. intros; apply Z.pow_pos_nonneg; lia. Qed.
Lemma pow10_S n : 0 <= n -> 10 ^ (n + 1) = 10 * 10 ^ n.
Proof. intros; rewrite Z.pow_add_r by lia. lia. Qed.
Lemma pow10_add a b : 0 <= a -> 0 <= b -> 10 ^ (a + b) = 10 ^ a * 10 ^ b.
Proof. intros; apply Z.pow_add_r; lia. Qed.
Lemma pow10_le a b : 0 <= a <= b -> 10 ^ a <= 10 ^ b.
Proof. intros; apply Z.pow_le_mono_r; lia. Qed.
Lemma pow10_lt a b : 0 <= a < b -> 10 ^ a < 10 ^ b.
Proof. intros; apply Z.pow_lt_mono_r; lia. Qed.
(* one decade up is at least a factor ten *)
Lemma pow10_step a b : 0 <= a < b -> 10 * 10 ^ a <= 10 ^ b.
Proof. intros; rewrite <- pow10_S by lia. apply pow10_le; lia. Qed.

Lemma pow10_pos_spec (p : positive) : pow10_pos p = 10 ^ Zpos p.
Proof.
  induction p as [q IH|q IH|]; cbn [pow10_pos].
  - rewrite IH. replace (Z.pos q~1) with (1 + Z.pos q + Z.pos q) by lia.
    rewrite !Z.pow_add_r by lia. lia.
  - rewrite IH. replace (Z.pos q~0) with (Z.pos q + Z.pos q) by lia.
    rewrite Z.pow_add_r by lia. reflexivity.
  - reflexivity.
Qed.
Lemma pow10_spec e : 0 <= e -> pow10 e = 10 ^ e.
Proof. intros H. destruct e as [|p|p]; [reflexivity|apply pow10_pos_spec|lia]. Qed.

Lemma nth_error_map_seq {A} (f : nat -> A) n k : (k < n)%nat -> nth_error (map f (seq 0 n)) k = Some (f k).
Proof.
  intros H. apply map_nth_error. rewrite nth_error_nth' with (d := O) by (rewrite seq_length; exact H).
  rewrite seq_nth by exact H. reflexivity.
Qed.
Lemma neg_table_ok : forallb (fun i => bd_quo P36 (pow10 (Z.of_nat i) * P36) =? 10 ^ (36 - Z.of_nat i)) (seq 0 37) = true.
Proof. vm_compute. reflexivity. Qed.

(* the table of positive powers agrees with BigDec.PowerInteger as written, on every exponent reachable from ticks *)
Lemma big_powers_as_written :
  forallb (fun i => bd_power_integer (bd_from_int 10) (Z.of_nat i) =? nth i big_powers_of_ten 0) (seq 0 77) = true.
Proof. vm_compute. reflexivity. Qed.

Lemma pow_ten_big_spec e : -36 <= e <= 308 -> pow_ten_big e = Some (10 ^ (36 + e)).
Proof.
  intros H. unfold pow_ten_big, big_powers_of_ten, big_neg_powers_of_ten.
  destruct (0 <=? e) eqn:E0.
  - apply Z.leb_le in E0. rewrite nth_error_map_seq by lia. rewrite Z2Nat.id by lia.
    rewrite pow10_spec by lia. unfold P36. rewrite <- pow10_add by lia. f_equal. f_equal. lia.
  - apply Z.leb_gt in E0. rewrite nth_error_map_seq by lia. f_equal.
    pose proof neg_table_ok as Ht. rewrite forallb_forall in Ht.
    specialize (Ht (Z.to_nat (- e)) ltac:(apply in_seq; lia)). apply Z.eqb_eq in Ht.
    rewrite Ht, Z2Nat.id by lia. f_equal. lia.
Qed.

(** * bit length of values below 10^75 *)
Lemma bd_fits_small z : 0 <= z < 10 ^ 80 -> bd_fits z = true.
Proof.
  intros H. unfold bd_fits, bitlen. destruct (z =? 0) eqn:E; [reflexivity|].
  apply Z.eqb_neq in E. apply Z.leb_le. unfold max_dec_bit_len.
  rewrite Z.abs_eq by lia.
  assert (Z.log2 z < 1000); [|lia].
  apply Z.log2_lt_pow2; [lia|]. eapply Z.lt_trans; [apply H|]. vm_compute. reflexivity.
Qed.

(** * Closed form of TickToPrice *)
(* the raw (x 10^36) price of tick t = G*d + a, 0 <= a < G, is (10^6 + a) * 10^(30+d) *)
Definition price_of (t : Z) : Z := (10 ^ 6 + t mod G) * 10 ^ (30 + t / G).

Lemma price_of_bounds t : -30 * G <= t <= 38 * G -> 10 ^ 6 <= price_of t <= 10 ^ 74.
Proof.
  intros H. unfold price_of.
  assert (Hd : -30 <= t / G <= 38).
  { split; [apply Z.div_le_lower_bound|apply Z.div_le_upper_bound]; unfold G in *; lia. }
  pose proof (Z.mod_pos_bound t G ltac:(unfold G; lia)) as Ha.
  pose proof (pow10_gt0 (30 + t / G) ltac:(lia)) as Hp.
  split.
  - assert (1 <= 10 ^ (30 + t / G)) by lia. nia.
  - destruct (Z.eq_dec (t / G) 38) as [E|E].
    + assert (t mod G = 0).
      { pose proof (Z.div_mod t G ltac:(unfold G; lia)). unfold G in *. lia. }
      rewrite E, H0. vm_compute. discriminate.
    + assert (10 * 10 ^ (30 + t / G) <= 10 ^ 68) by (apply pow10_step; lia).
      assert (10 ^ 6 + t mod G < 10 ^ 7) by (unfold G in *; lia).
      change (10 ^ 74) with (10 ^ 6 * 10 ^ 68). nia.
Qed.

Lemma indices_ok t : MinCurrentTickV2 < t <= MaxTick -> t <> 0 -> t <> MinInitializedTickV2 ->
  tick_to_additive_geometric_indices t = Ok (Z.rem t G, Z.quot t G).
Proof.
  intros H H0 Hs. consts. unfold tick_to_additive_geometric_indices, is_special_tick.
  tf (t =? 0) false.
  tf (t =? MinInitializedTickV2) false.
  tf (t =? MinCurrentTickV2) false.
  tf (t <? MinCurrentTickV2) false.
  tf (t >? MaxTick) false.
  cbn [orb]. rewrite Hgd_. f_equal. f_equal.
  pose proof (Z.quot_rem' t 9000000). lia.
Qed.

(* the formula of the property text, with Go's truncated quotient and remainder *)
Definition price_formula (t : Z) : Z :=
  let q := Z.quot t G in let r := Z.rem t G in
  if t <? 0 then (10 ^ 7 + r) * 10 ^ (36 + q - 7) else (10 ^ 6 + r) * 10 ^ (36 + q - 6).

Lemma price_formula_floor t : -30 * G < t <= 38 * G -> price_formula t = price_of t.
Proof.
  intros H. unfold price_formula, price_of, G in *.
  destruct (t <? 0) eqn:E.
  - apply Z.ltb_lt in E.
    destruct (Z.eq_dec (Z.rem t 9000000) 0) as [R0|R0].
    + replace (t / 9000000) with (Z.quot t 9000000) by lia.
      replace (t mod 9000000) with 0 by lia. rewrite R0.
      replace (30 + Z.quot t 9000000) with (36 + Z.quot t 9000000 - 7 + 1) by lia.
      rewrite pow10_S by lia. ring.
    + replace (t / 9000000) with (Z.quot t 9000000 - 1) by lia.
      replace (t mod 9000000) with (Z.rem t 9000000 + 9000000) by lia.
      replace (30 + (Z.quot t 9000000 - 1)) with (36 + Z.quot t 9000000 - 7) by lia.
      f_equal. lia.
  - apply Z.ltb_ge in E.
    replace (t / 9000000) with (Z.quot t 9000000) by lia.
    replace (t mod 9000000) with (Z.rem t 9000000) by lia.
    f_equal. f_equal. lia.
Qed.

Lemma tick_to_price_formula_gen t : MinCurrentTickV2 < t <= MaxTick -> t <> MinInitializedTickV2 ->
  tick_to_price t = Ok (price_formula t).
Proof.
  intros H Hs. pose proof price_consts_val as (Hmax & _ & Hmin). consts.
  assert (Hr : -30 * 9000000 < t <= 38 * 9000000) by lia.
  pose proof (price_formula_floor t Hr) as Hff. pose proof (price_of_bounds t ltac:(unfold G; lia)) as Hb.
  unfold tick_to_price.
  destruct (t =? 0) eqn:E0.
  { apply Z.eqb_eq in E0. subst t. vm_compute. reflexivity. }
  apply Z.eqb_neq in E0.
  unfold is_special_tick.
  tf (t =? MinInitializedTickV2) false.
  tf (t =? MinCurrentTickV2) false.
  cbn [orb]. rewrite indices_ok by lia.
  rewrite <- Hff in Hb. unfold price_formula, G in *.
  set (q := Z.quot t 9000000) in *. set (r := Z.rem t 9000000) in *.
  assert (Hq : -29 <= q <= 38) by (subst q; lia).
  rewrite Hc6_, Hc7_.
  assert (Hfin : forall pr, 10 ^ 6 <= pr <= 10 ^ 74 ->
     (if negb (bd_fits pr) then Err EPanic else
      if (pr >? MaxSpotPriceBigDec) || (pr <? MinSpotPriceV2) then Err EPriceBound else Ok pr) = Ok pr).
  { intros pr Hpr.
    rewrite bd_fits_small by (split; [lia|]; eapply Z.le_lt_trans; [apply Hpr|]; vm_compute; reflexivity).
    cbn [negb]. rewrite Hmax, Hmin. tf (pr >? 10 ^ 74) false. tf (pr <? 10 ^ 6) false. reflexivity. }
  destruct (t <? 0) eqn:En.
  - rewrite pow_ten_big_spec by lia. unfold bd_mul_int.
    replace (10 ^ (36 + (-6 + q - 1)) * (10 ^ 6 * 10 + r)) with ((10 ^ 7 + r) * 10 ^ (36 + q - 7))
      by (replace (36 + (-6 + q - 1)) with (36 + q - 7) by lia; ring).
    apply Hfin, Hb.
  - rewrite pow_ten_big_spec by lia. unfold bd_mul_int.
    replace (10 ^ (36 + (-6 + q)) * (10 ^ 6 + r)) with ((10 ^ 6 + r) * 10 ^ (36 + q - 6))
      by (replace (36 + (-6 + q)) with (36 + q - 6) by lia; ring).
    apply Hfin, Hb.
Qed.

(* the two special ticks both map to MinSpotPriceV2 *)
Lemma tick_to_price_special t : t = MinInitializedTickV2 \/ t = MinCurrentTickV2 ->
  tick_to_price t = Ok MinSpotPriceV2.
Proof. intros [H|H]; subst t; vm_compute; reflexivity. Qed.

(* floor form on the whole initialisable range (the special tick MinInitializedTickV2 agrees with it) *)
Lemma tick_to_price_floor t : MinInitializedTickV2 <= t <= MaxTick -> tick_to_price t = Ok (price_of t).
Proof.
  intros H. consts.
  destruct (Z.eq_dec t MinInitializedTickV2) as [E|E].
  - subst t. vm_compute. reflexivity.
  - rewrite tick_to_price_formula_gen by lia. f_equal. apply price_formula_floor. unfold G. lia.
Qed.

(** * Strict monotonicity of the price *)
Lemma price_of_strict_mono t1 t2 : -30 * G <= t1 -> t1 < t2 -> t2 <= 38 * G -> price_of t1 < price_of t2.
Proof.
  intros H1 H12 H2. unfold price_of.
  assert (HG : 0 < G) by (unfold G; lia).
  pose proof (Z.mod_pos_bound t1 G HG) as Ha1. pose proof (Z.mod_pos_bound t2 G HG) as Ha2.
  pose proof (Z.div_mod t1 G ltac:(lia)) as E1. pose proof (Z.div_mod t2 G ltac:(lia)) as E2.
  assert (Hd1 : -30 <= t1 / G) by (apply Z.div_le_lower_bound; unfold G in *; lia).
  assert (Hd12 : t1 / G <= t2 / G) by (apply Z.div_le_mono; lia).
  pose proof (pow10_gt0 (30 + t1 / G) ltac:(lia)) as Hp.
  destruct (Z.eq_dec (t1 / G) (t2 / G)) as [Ed|Ed].
  - rewrite <- Ed in *. assert (t1 mod G < t2 mod G) by nia. nia.
  - assert (10 * 10 ^ (30 + t1 / G) <= 10 ^ (30 + t2 / G)) by (apply pow10_step; lia).
    unfold G in *. nia.
Qed.

Lemma tick_to_price_strict_mono t1 t2 p1 p2 :
  MinInitializedTickV2 <= t1 -> t1 < t2 -> t2 <= MaxTick ->
  tick_to_price t1 = Ok p1 -> tick_to_price t2 = Ok p2 -> p1 < p2.
Proof.
  intros H1 H12 H2 E1 E2. consts.
  rewrite tick_to_price_floor in E1, E2 by lia. inversion E1; inversion E2; subst.
  apply price_of_strict_mono; unfold G; lia.
Qed.

(** * Rejection of out-of-range ticks *)
Lemma tick_to_price_rejects_low t : t < MinCurrentTickV2 -> tick_to_price t = Err ETickMin.
Proof.
  intros H. consts. unfold tick_to_price, tick_to_additive_geometric_indices, is_special_tick.
  tf (t =? 0) false.
  tf (t =? MinInitializedTickV2) false.
  tf (t =? MinCurrentTickV2) false.
  tf (t <? MinCurrentTickV2) true. reflexivity.
Qed.
Lemma tick_to_price_rejects_high t : MaxTick < t -> tick_to_price t = Err ETickMax.
Proof.
  intros H. consts. unfold tick_to_price, tick_to_additive_geometric_indices, is_special_tick.
  tf (t =? 0) false.
  tf (t =? MinInitializedTickV2) false.
  tf (t =? MinCurrentTickV2) false.
  tf (t <? MinCurrentTickV2) false.
  tf (t >? MaxTick) true. reflexivity.
Qed.

Lemma tick_to_price_total t : MinInitializedTickV2 <= t <= MaxTick ->
  exists p, tick_to_price t = Ok p /\ MinSpotPriceV2 <= p <= MaxSpotPriceBigDec.
Proof.
  intros H. exists (price_of t). split; [apply tick_to_price_floor, H|].
  pose proof price_consts_val as (Hmax & _ & Hmin). rewrite Hmax, Hmin. consts.
  apply price_of_bounds. unfold G. lia.
Qed.
