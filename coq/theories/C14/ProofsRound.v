(* C14 proofs, part 3: rounding a tick down to a spacing, tick-range validation. *)
From Coq Require Import ZArith Bool List Lia.
Import ListNotations.
From Osmo Require Import Base.DecModel Gen.C14_consts C14.Model C14.ProofsPrice.
Open Scope Z_scope.

(** * RoundDownTickToSpacing computes the floor to the spacing (Go's % is truncated; the code repairs the sign) *)
Lemma round_down_spec t sp : 0 < sp ->
  round_down_tick_to_spacing t sp =
  let r := sp * (t / sp) in
  if (r >? MaxTick) || (r <? MinInitializedTickV2) then Err ETickBounds else Ok r.
Proof.
  intros Hsp. unfold round_down_tick_to_spacing. tf (sp =? 0) false.
  assert (E : (if negb ((if Z.rem t sp <? 0 then Z.rem t sp + sp else Z.rem t sp) =? 0)
               then t - (if Z.rem t sp <? 0 then Z.rem t sp + sp else Z.rem t sp) else t) = sp * (t / sp)).
  { pose proof (Z.quot_rem' t sp) as Hqr.
    destruct (Z_lt_le_dec t 0) as [Ht|Ht].
    - pose proof (Z.rem_bound_pos_neg t sp Hsp ltac:(lia)) as Hb.
      destruct (Z.rem t sp <? 0) eqn:Em.
      + apply Z.ltb_lt in Em. tf (Z.rem t sp + sp =? 0) false. cbn [negb].
        assert (t / sp = Z.quot t sp - 1) by (symmetry; apply (Z.div_unique t sp _ (Z.rem t sp + sp)); lia).
        rewrite H. lia.
      + apply Z.ltb_ge in Em. assert (Z.rem t sp = 0) by lia. rewrite H. cbn.
        assert (t / sp = Z.quot t sp) by (symmetry; apply (Z.div_unique t sp _ 0); lia).
        rewrite H0. lia.
    - pose proof (Z.rem_bound_pos t sp Ht Hsp) as Hb.
      tf (Z.rem t sp <? 0) false.
      assert (t / sp = Z.quot t sp) by (symmetry; apply (Z.div_unique t sp _ (Z.rem t sp)); lia).
      rewrite H. destruct (Z.rem t sp =? 0) eqn:E0; cbn [negb]; [apply Z.eqb_eq in E0|]; lia. }
  cbv zeta. rewrite E. reflexivity.
Qed.

(* never up, by less than one spacing, onto a multiple, and never out of range *)
Lemma round_down_ok t sp r : 0 < sp -> round_down_tick_to_spacing t sp = Ok r ->
  r <= t /\ t - r < sp /\ Z.rem r sp = 0 /\ r = sp * (t / sp) /\ MinInitializedTickV2 <= r <= MaxTick.
Proof.
  intros Hsp H. rewrite round_down_spec in H by exact Hsp. cbv zeta in H.
  destruct (sp * (t / sp) >? MaxTick) eqn:E1; [discriminate|].
  destruct (sp * (t / sp) <? MinInitializedTickV2) eqn:E2; [discriminate|].
  inversion H; subst r. rewrite Z.gtb_ltb in E1. apply Z.ltb_ge in E1, E2.
  pose proof (Z.mul_div_le t sp Hsp). pose proof (Z.mod_pos_bound t sp Hsp).
  pose proof (Z.div_mod t sp ltac:(lia)).
  repeat split; try lia.
  rewrite Z.mul_comm. apply Z.rem_mul. lia.
Qed.

Lemma round_down_err t sp e : 0 < sp -> round_down_tick_to_spacing t sp = Err e ->
  e = ETickBounds /\ (sp * (t / sp) > MaxTick \/ sp * (t / sp) < MinInitializedTickV2).
Proof.
  intros Hsp H. rewrite round_down_spec in H by exact Hsp. cbv zeta in H.
  destruct (sp * (t / sp) >? MaxTick) eqn:E1; cbn [orb] in H.
  - inversion H. rewrite Z.gtb_ltb in E1. apply Z.ltb_lt in E1. split; [reflexivity|lia].
  - destruct (sp * (t / sp) <? MinInitializedTickV2) eqn:E2; [|discriminate].
    inversion H. apply Z.ltb_lt in E2. split; [reflexivity|lia].
Qed.

Lemma authorized_spacing_ok :
  Forall (fun sp => 0 < sp < 2 ^ 63 /\ Z.rem MinInitializedTickV2 sp = 0 /\ Z.rem MinInitializedTick sp = 0 /\ Z.rem MaxTick sp = 0)
         AuthorizedTickSpacing.
Proof. repeat constructor. Qed.

(* a tick of the range rounds to a tick of the range for every authorised spacing (no rejection) *)
Lemma round_down_in_range t sp : In sp AuthorizedTickSpacing -> MinInitializedTickV2 <= t <= MaxTick ->
  exists r, round_down_tick_to_spacing t sp = Ok r.
Proof.
  intros Hin Ht. pose proof authorized_spacing_ok as Ha. rewrite Forall_forall in Ha.
  destruct (Ha sp Hin) as ((Hsp & _) & Hd & _).
  rewrite round_down_spec by exact Hsp. cbv zeta.
  pose proof (Z.mul_div_le t sp Hsp).
  assert (MinInitializedTickV2 <= sp * (t / sp)).
  { pose proof (Z.quot_rem' MinInitializedTickV2 sp) as Hq. rewrite Hd in Hq.
    assert (Z.quot MinInitializedTickV2 sp <= t / sp); [|nia].
    apply Z.div_le_lower_bound; [lia|]. lia. }
  tf (sp * (t / sp) >? MaxTick) false. tf (sp * (t / sp) <? MinInitializedTickV2) false.
  eexists; reflexivity.
Qed.

(* ticks far enough outside the range are rejected *)
Lemma round_down_rejects t sp : 0 < sp ->
  (t < MinInitializedTickV2 \/ MaxTick + sp <= t) -> round_down_tick_to_spacing t sp = Err ETickBounds.
Proof.
  intros Hsp H. rewrite round_down_spec by exact Hsp. cbv zeta.
  pose proof (Z.mul_div_le t sp Hsp). pose proof (Z.mod_pos_bound t sp Hsp). pose proof (Z.div_mod t sp ltac:(lia)).
  destruct H as [H|H].
  - tf (sp * (t / sp) <? MinInitializedTickV2) true. rewrite orb_true_r. reflexivity.
  - tf (sp * (t / sp) >? MaxTick) true. reflexivity.
Qed.

(** * SqrtPriceToTickRoundDownSpacing = CalculateSqrtPriceToTick then RoundDownTickToSpacing *)
Lemma to_int64_small sp : 0 <= sp < 2 ^ 63 -> to_int64 sp = sp.
Proof. intros H. unfold to_int64. tf (sp <? 2 ^ 63) true. reflexivity. Qed.

Lemma sqrt_price_round_down_ok s sp r : 0 < sp < 2 ^ 63 ->
  sqrt_price_to_tick_round_down_spacing s sp = Ok r ->
  exists t, calculate_sqrt_price_to_tick s = Ok t /\
    r <= t /\ t - r < sp /\ Z.rem r sp = 0 /\ MinInitializedTickV2 <= r <= MaxTick.
Proof.
  intros Hsp H. unfold sqrt_price_to_tick_round_down_spacing in H.
  destruct (calculate_sqrt_price_to_tick s) as [t|e]; [|discriminate].
  rewrite to_int64_small in H by lia.
  exists t. split; [reflexivity|]. pose proof (round_down_ok t sp r ltac:(lia) H). tauto.
Qed.

(** * validateTickRangeIsValid accepts exactly the ranges on the spacing grid inside [MinInitializedTick, MaxTick] *)
Lemma validate_spec sp lo hi : 0 < sp < 2 ^ 63 ->
  (validate_tick_range_is_valid sp lo hi = Ok tt <->
   Z.rem lo sp = 0 /\ Z.rem hi sp = 0 /\ MinInitializedTick <= lo /\ lo < hi /\ hi <= MaxTick).
Proof.
  intros Hsp. unfold validate_tick_range_is_valid. rewrite to_int64_small by lia.
  tf (sp =? 0) false.
  destruct (Z.rem lo sp =? 0) eqn:E1; [apply Z.eqb_eq in E1|apply Z.eqb_neq in E1; cbn; split; [discriminate|tauto]].
  destruct (Z.rem hi sp =? 0) eqn:E2; [apply Z.eqb_eq in E2|apply Z.eqb_neq in E2; cbn; split; [discriminate|tauto]].
  cbn [negb orb].
  destruct (lo <? MinInitializedTick) eqn:E3; [apply Z.ltb_lt in E3; cbn; split; [discriminate|lia]|apply Z.ltb_ge in E3].
  destruct (lo >=? MaxTick) eqn:E4; rewrite Z.geb_leb in E4;
    [apply Z.leb_le in E4; cbn; split; [discriminate|lia]|apply Z.leb_gt in E4].
  cbn [orb].
  destruct (hi >? MaxTick) eqn:E5; rewrite Z.gtb_ltb in E5;
    [apply Z.ltb_lt in E5; cbn; split; [discriminate|lia]|apply Z.ltb_ge in E5].
  destruct (hi <=? MinInitializedTick) eqn:E6; [apply Z.leb_le in E6; cbn; split; [discriminate|lia]|apply Z.leb_gt in E6].
  cbn [orb].
  destruct (lo >=? hi) eqn:E7; rewrite Z.geb_leb in E7;
    [apply Z.leb_le in E7; split; [discriminate|lia]|apply Z.leb_gt in E7].
  split; [intros _; repeat split; lia|reflexivity].
Qed.

(* every rejection of validateTickRangeIsValid names its cause *)
Lemma validate_rejects sp lo hi e : 0 < sp < 2 ^ 63 -> validate_tick_range_is_valid sp lo hi = Err e ->
  (e = ETickSpacing /\ (Z.rem lo sp <> 0 \/ Z.rem hi sp <> 0)) \/
  (e = EInvalidTick /\ (lo < MinInitializedTick \/ MaxTick <= lo \/ MaxTick < hi \/ hi <= MinInitializedTick)) \/
  (e = ELowerUpper /\ hi <= lo).
Proof.
  intros Hsp. unfold validate_tick_range_is_valid. rewrite to_int64_small by lia.
  tf (sp =? 0) false.
  destruct (Z.rem lo sp =? 0) eqn:E1; [apply Z.eqb_eq in E1|apply Z.eqb_neq in E1; cbn; intros H; inversion H; left; tauto].
  destruct (Z.rem hi sp =? 0) eqn:E2; [apply Z.eqb_eq in E2|apply Z.eqb_neq in E2; cbn; intros H; inversion H; left; tauto].
  cbn [negb orb].
  destruct (lo <? MinInitializedTick) eqn:E3; [apply Z.ltb_lt in E3; cbn; intros H; inversion H; right; left; tauto|].
  destruct (lo >=? MaxTick) eqn:E4; rewrite Z.geb_leb in E4;
    [apply Z.leb_le in E4; cbn; intros H; inversion H; right; left; tauto|].
  cbn [orb].
  destruct (hi >? MaxTick) eqn:E5; rewrite Z.gtb_ltb in E5;
    [apply Z.ltb_lt in E5; cbn; intros H; inversion H; right; left; tauto|].
  destruct (hi <=? MinInitializedTick) eqn:E6; [apply Z.leb_le in E6; cbn; intros H; inversion H; right; left; tauto|].
  cbn [orb].
  destruct (lo >=? hi) eqn:E7; rewrite Z.geb_leb in E7;
    [apply Z.leb_le in E7; intros H; inversion H; right; right; split; [reflexivity|lia]|discriminate].
Qed.
