(* C14 proofs, part 2: the tick -> sqrt-price map (closed form, monotone, strictly increasing, in bounds). *)
From Coq Require Import ZArith Bool List Lia.
Import ListNotations.
From Osmo Require Import Base.DecModel Gen.C14_consts C14.Model C14.ProofsPrice.
Open Scope Z_scope.
Ltac Zify.zify_post_hook ::= Z.to_euclidean_division_equations.

(** * sqrt_ceil v is the least r >= 0 with r^2 >= v *)
Lemma sqrt_ceil_spec v : 0 <= v ->
  let r := sqrt_ceil v in 0 <= r /\ v <= r * r /\ (forall x, 0 <= x -> v <= x * x -> r <= x).
Proof.
  intros Hv. unfold sqrt_ceil. pose proof (Z.sqrt_spec v Hv) as Hs. pose proof (Z.sqrt_nonneg v) as Hn.
  cbv zeta. set (s := Z.sqrt v) in *. unfold Z.succ in Hs.
  destruct (s * s <? v) eqn:E.
  - apply Z.ltb_lt in E. split; [lia|]. split; [nia|]. intros x Hx Hxx. nia.
  - apply Z.ltb_ge in E. split; [lia|]. split; [lia|]. intros x Hx Hxx. nia.
Qed.
Lemma sqrt_ceil_nonneg v : 0 <= v -> 0 <= sqrt_ceil v.
Proof. intros H; apply (sqrt_ceil_spec v H). Qed.
Lemma sqrt_ceil_sq_ge v : 0 <= v -> v <= sqrt_ceil v * sqrt_ceil v.
Proof. intros H; apply (sqrt_ceil_spec v H). Qed.
Lemma sqrt_ceil_least v x : 0 <= v -> 0 <= x -> v <= x * x -> sqrt_ceil v <= x.
Proof. intros H; apply (sqrt_ceil_spec v H). Qed.
Lemma sqrt_ceil_pred_lt v : 0 < v -> (sqrt_ceil v - 1) * (sqrt_ceil v - 1) < v.
Proof.
  intros H. pose proof (sqrt_ceil_spec v ltac:(lia)) as (H0 & H1 & H2). cbv zeta in *.
  destruct (Z.eq_dec (sqrt_ceil v) 0) as [E|E]; [rewrite E in *; lia|].
  destruct (Z_lt_le_dec ((sqrt_ceil v - 1) * (sqrt_ceil v - 1)) v) as [L|L]; [exact L|].
  specialize (H2 (sqrt_ceil v - 1) ltac:(lia) L). lia.
Qed.
Lemma sqrt_ceil_mono v1 v2 : 0 <= v1 <= v2 -> sqrt_ceil v1 <= sqrt_ceil v2.
Proof.
  intros H. apply sqrt_ceil_least; [lia|apply sqrt_ceil_nonneg; lia|].
  pose proof (sqrt_ceil_sq_ge v2 ltac:(lia)). lia.
Qed.
(* gap lemma: a step of at least 2r-1 moves the ceiling square root up *)
Lemma sqrt_ceil_strict v1 v2 : 0 < v1 -> 2 * sqrt_ceil v1 - 1 <= v2 - v1 -> sqrt_ceil v1 < sqrt_ceil v2.
Proof.
  intros H1 Hg. pose proof (sqrt_ceil_pred_lt v1 H1) as Hp.
  pose proof (sqrt_ceil_nonneg v1 ltac:(lia)) as Hn1.
  assert (Hv2 : 0 <= v2) by lia.
  pose proof (sqrt_ceil_sq_ge v2 Hv2) as H2. pose proof (sqrt_ceil_nonneg v2 Hv2) as Hn2.
  assert (sqrt_ceil v1 * sqrt_ceil v1 < sqrt_ceil v2 * sqrt_ceil v2) by nia. nia.
Qed.
Lemma sqrt_ceil_square r : 0 <= r -> sqrt_ceil (r * r) = r.
Proof.
  intros H. apply Z.le_antisymm.
  - apply sqrt_ceil_least; nia.
  - pose proof (sqrt_ceil_sq_ge (r * r) ltac:(nia)). pose proof (sqrt_ceil_nonneg (r * r) ltac:(nia)). nia.
Qed.

(** * Steps of the price *)
Definition step (t : Z) : Z := 10 ^ (30 + t / G).
Lemma price_succ t : -30 * G <= t -> price_of (t + 1) = price_of t + step t.
Proof.
  intros H. unfold price_of, step.
  assert (HG : 0 < G) by (unfold G; lia).
  destruct (Z.eq_dec (t mod G) (G - 1)) as [E|E].
  - assert (E1 : (t + 1) / G = t / G + 1) by (unfold G in *; lia).
    assert (E2 : (t + 1) mod G = 0) by (unfold G in *; lia).
    rewrite E1, E2, E. replace (30 + (t / G + 1)) with (30 + t / G + 1) by lia.
    assert (0 <= 30 + t / G) by (unfold G in *; lia).
    rewrite pow10_S by lia. unfold G. lia.
  - assert (E1 : (t + 1) / G = t / G) by (unfold G in *; lia).
    assert (E2 : (t + 1) mod G = t mod G + 1) by (unfold G in *; lia).
    rewrite E1, E2. lia.
Qed.
Lemma step_pos t : -30 * G <= t -> 0 < step t.
Proof. intros H. unfold step. apply pow10_gt0. unfold G in *. lia. Qed.
Lemma price_of_pos t : -30 * G <= t <= 38 * G -> 0 < price_of t.
Proof. intros H. pose proof (price_of_bounds t H). lia. Qed.
Lemma price_lt_step t : -30 * G <= t -> price_of t < 10 ^ 7 * step t.
Proof.
  intros H. unfold price_of, step. pose proof (pow10_gt0 (30 + t / G) ltac:(unfold G in *; lia)).
  assert (10 ^ 6 + t mod G < 10 ^ 7) by (unfold G; lia). nia.
Qed.
Lemma price_of_mono t1 t2 : -30 * G <= t1 -> t1 <= t2 -> t2 <= 38 * G -> price_of t1 <= price_of t2.
Proof.
  intros H1 H12 H2. destruct (Z.eq_dec t1 t2) as [->|N]; [lia|].
  pose proof (price_of_strict_mono t1 t2 H1 ltac:(lia) H2). lia.
Qed.
(* a later tick is at least one step (of the earlier tick) above *)
Lemma price_gap t1 t2 : -30 * G <= t1 -> t1 < t2 -> t2 <= 38 * G -> price_of t1 + step t1 <= price_of t2.
Proof.
  intros H1 H12 H2. rewrite <- price_succ by lia. apply price_of_mono; lia.
Qed.

(** * Closed form of TickToSqrtPrice *)
(* 18-digit regime (t >= MinInitializedTick): ceil-sqrt of the 18-decimal price, scaled back to 36 decimals;
   36-digit regime below *)
Definition sqrt_of (t : Z) : Z :=
  if t >=? -12 * G then sqrt_ceil (price_of t) * P18 else sqrt_ceil (price_of t * P36).

Lemma price_of_mult18 t : -12 * G <= t -> exists k, price_of t = k * P18.
Proof.
  intros H. unfold price_of.
  assert (Hd : -12 <= t / G) by (unfold G in *; lia).
  exists ((10 ^ 6 + t mod G) * 10 ^ (12 + t / G)).
  replace (30 + t / G) with (12 + t / G + 18) by lia. rewrite pow10_add by lia. unfold P18. lia.
Qed.

Lemma tick_to_sqrt_price_floor t : MinInitializedTickV2 <= t <= MaxTick -> tick_to_sqrt_price t = Ok (sqrt_of t).
Proof.
  intros H. unfold tick_to_sqrt_price. rewrite tick_to_price_floor by exact H. consts.
  unfold sqrt_of, G. rewrite Hc1_.
  pose proof (price_of_pos t ltac:(unfold G; lia)) as Hp.
  destruct (t >=? -12 * 9000000) eqn:E.
  - rewrite Z.geb_leb in E. apply Z.leb_le in E.
    destruct (price_of_mult18 t ltac:(unfold G; lia)) as [k Hk].
    unfold monotonic_sqrt, bd_to_dec, bd_from_dec. rewrite Hk.
    assert (0 < P18) by (vm_compute; reflexivity).
    rewrite Z.quot_mul by lia.
    assert (0 < k) by nia.
    tf (k <? 0) false. reflexivity.
  - unfold monotonic_sqrt_big_dec. tf (price_of t <? 0) false. reflexivity.
Qed.

(** * Monotone and strictly increasing *)
Lemma sqrt18_strict t1 t2 : -12 * G <= t1 -> t1 < t2 -> t2 <= 38 * G ->
  sqrt_ceil (price_of t1) < sqrt_ceil (price_of t2).
Proof.
  intros H1 H12 H2.
  pose proof (price_of_pos t1 ltac:(unfold G in *; lia)) as Hp.
  apply sqrt_ceil_strict; [exact Hp|].
  pose proof (price_gap t1 t2 ltac:(unfold G in *; lia) H12 H2) as Hg.
  pose proof (price_lt_step t1 ltac:(unfold G in *; lia)) as Hl.
  pose proof (sqrt_ceil_pred_lt _ Hp) as Hr.
  pose proof (sqrt_ceil_nonneg (price_of t1) ltac:(lia)) as Hn.
  assert (HN : 10 ^ 18 <= step t1).
  { unfold step. apply pow10_le. unfold G in *. lia. }
  set (r := sqrt_ceil (price_of t1)) in *. set (N := step t1) in *.
  assert (2 * (r - 1) < N); [|lia].
  destruct (Z_lt_le_dec (2 * (r - 1)) N) as [L|L]; [exact L|exfalso].
  assert (N * N <= 4 * ((r - 1) * (r - 1))) by nia.
  assert (10 ^ 18 * N <= N * N) by nia.
  change (10 ^ 18) with 1000000000000000000 in *. change (10 ^ 7) with 10000000 in *. nia.
Qed.

Lemma sqrt36_strict t1 t2 : -30 * G <= t1 -> t1 < t2 -> t2 <= 38 * G ->
  sqrt_ceil (price_of t1 * P36) < sqrt_ceil (price_of t2 * P36).
Proof.
  intros H1 H12 H2.
  pose proof (price_of_pos t1 ltac:(unfold G in *; lia)) as Hp.
  assert (HP : P36 = 10 ^ 36) by reflexivity.
  assert (Hp36 : 0 < price_of t1 * P36) by (rewrite HP; nia).
  apply sqrt_ceil_strict; [exact Hp36|].
  pose proof (price_gap t1 t2 H1 H12 H2) as Hg.
  pose proof (price_lt_step t1 H1) as Hl.
  pose proof (sqrt_ceil_pred_lt _ Hp36) as Hr.
  pose proof (sqrt_ceil_nonneg (price_of t1 * P36) ltac:(lia)) as Hn.
  pose proof (step_pos t1 H1) as HN.
  set (r := sqrt_ceil (price_of t1 * P36)) in *. set (N := step t1) in *.
  assert (2 * (r - 1) < N * P36); [|nia].
  destruct (Z_lt_le_dec (2 * (r - 1)) (N * P36)) as [L|L]; [exact L|exfalso].
  assert (N * P36 * (N * P36) <= 4 * ((r - 1) * (r - 1))) by nia.
  rewrite HP in *. change (10 ^ 36) with 1000000000000000000000000000000000000 in *.
  change (10 ^ 7) with 10000000 in *. nia.
Qed.

(* the two regimes meet at MinInitializedTick: the 36-digit root just below is under the 18-digit root just above *)
Lemma junction : sqrt_ceil (price_of (-12 * G - 1) * P36) < sqrt_ceil (price_of (-12 * G)) * P18.
Proof. vm_compute. reflexivity. Qed.

Lemma sqrt_of_strict_mono t1 t2 : -30 * G <= t1 -> t1 < t2 -> t2 <= 38 * G -> sqrt_of t1 < sqrt_of t2.
Proof.
  intros H1 H12 H2. unfold sqrt_of.
  assert (HP : 0 < P18) by (vm_compute; reflexivity).
  destruct (t1 >=? -12 * G) eqn:E1; destruct (t2 >=? -12 * G) eqn:E2;
    rewrite Z.geb_leb in E1, E2;
    try apply Z.leb_le in E1; try apply Z.leb_le in E2; try apply Z.leb_gt in E1; try apply Z.leb_gt in E2.
  - pose proof (sqrt18_strict t1 t2 E1 H12 H2). nia.
  - lia.
  - (* t1 in the 36-digit regime, t2 in the 18-digit one *)
    assert (A : sqrt_ceil (price_of t1 * P36) <= sqrt_ceil (price_of (-12 * G - 1) * P36)).
    { destruct (Z.eq_dec t1 (-12 * G - 1)) as [->|N]; [lia|].
      pose proof (sqrt36_strict t1 (-12 * G - 1) H1 ltac:(lia) ltac:(unfold G; lia)). lia. }
    assert (B : sqrt_ceil (price_of (-12 * G)) <= sqrt_ceil (price_of t2)).
    { destruct (Z.eq_dec t2 (-12 * G)) as [->|N]; [lia|].
      pose proof (sqrt18_strict (-12 * G) t2 ltac:(lia) ltac:(lia) H2). lia. }
    pose proof junction. nia.
  - apply sqrt36_strict; assumption.
Qed.

Lemma tick_to_sqrt_price_strict_mono t1 t2 s1 s2 :
  MinInitializedTickV2 <= t1 -> t1 < t2 -> t2 <= MaxTick ->
  tick_to_sqrt_price t1 = Ok s1 -> tick_to_sqrt_price t2 = Ok s2 -> s1 < s2.
Proof.
  intros H1 H12 H2 E1 E2. consts.
  rewrite tick_to_sqrt_price_floor in E1, E2 by lia. inversion E1; inversion E2; subst.
  apply sqrt_of_strict_mono; unfold G; lia.
Qed.

(* the special tick below the initialisable range shares the sqrt price of MinInitializedTickV2 *)
Lemma tick_to_sqrt_price_min_current_v2 :
  tick_to_sqrt_price MinCurrentTickV2 = tick_to_sqrt_price MinInitializedTickV2.
Proof. vm_compute. reflexivity. Qed.

(* non-decreasing over the whole supported range, MinCurrentTickV2 included *)
Lemma tick_to_sqrt_price_mono t1 t2 s1 s2 :
  MinCurrentTickV2 <= t1 -> t1 <= t2 -> t2 <= MaxTick ->
  tick_to_sqrt_price t1 = Ok s1 -> tick_to_sqrt_price t2 = Ok s2 -> s1 <= s2.
Proof.
  intros H1 H12 H2 E1 E2. consts.
  destruct (Z.eq_dec t1 t2) as [->|N]; [rewrite E1 in E2; inversion E2; lia|].
  destruct (Z.eq_dec t1 MinCurrentTickV2) as [->|N1].
  - rewrite tick_to_sqrt_price_min_current_v2 in E1.
    destruct (Z.eq_dec t2 MinInitializedTickV2) as [->|N2]; [rewrite E1 in E2; inversion E2; lia|].
    pose proof (tick_to_sqrt_price_strict_mono MinInitializedTickV2 t2 s1 s2 ltac:(lia) ltac:(lia) H2 E1 E2). lia.
  - pose proof (tick_to_sqrt_price_strict_mono t1 t2 s1 s2 ltac:(lia) ltac:(lia) H2 E1 E2). lia.
Qed.

(** * Bounds *)
Lemma sqrt_bounds_val :
  MinSqrtPriceBigDec = 10 ^ 30 /\ MaxSqrtPriceBigDec = 10 ^ 55 /\
  sqrt_of (-12 * G) = 10 ^ 30 /\ sqrt_of (38 * G) = 10 ^ 55 /\ sqrt_of (-30 * G) = 10 ^ 21.
Proof. vm_compute. repeat split; reflexivity. Qed.

Lemma tick_to_sqrt_price_in_bounds t : MinInitializedTick <= t <= MaxTick ->
  exists s, tick_to_sqrt_price t = Ok s /\ MinSqrtPriceBigDec <= s <= MaxSqrtPriceBigDec.
Proof.
  intros H. consts. exists (sqrt_of t). split; [apply tick_to_sqrt_price_floor; lia|].
  destruct sqrt_bounds_val as (E1 & E2 & E3 & E4 & _). rewrite E1, E2, <- E3, <- E4. unfold G. split.
  - destruct (Z.eq_dec t (-12 * 9000000)) as [->|N]; [lia|].
    pose proof (sqrt_of_strict_mono (-12 * 9000000) t). unfold G in *. lia.
  - destruct (Z.eq_dec t (38 * 9000000)) as [->|N]; [lia|].
    pose proof (sqrt_of_strict_mono t (38 * 9000000)). unfold G in *. lia.
Qed.

Lemma tick_to_sqrt_price_in_bounds_v2 t : MinCurrentTickV2 <= t < MinInitializedTick ->
  exists s, tick_to_sqrt_price t = Ok s /\ 10 ^ 21 <= s < MinSqrtPriceBigDec.
Proof.
  intros H. consts.
  destruct sqrt_bounds_val as (E1 & _ & E3 & _ & E5). rewrite E1, <- E3.
  destruct (Z.eq_dec t MinCurrentTickV2) as [->|N].
  - rewrite tick_to_sqrt_price_min_current_v2, tick_to_sqrt_price_floor by lia.
    eexists; split; [reflexivity|]. rewrite Hc4_. fold G. rewrite E5, E3. split; [lia|]. vm_compute. reflexivity.
  - exists (sqrt_of t). split; [apply tick_to_sqrt_price_floor; lia|]. rewrite <- E5. unfold G. split.
    + destruct (Z.eq_dec t (-30 * 9000000)) as [->|N']; [lia|].
      pose proof (sqrt_of_strict_mono (-30 * 9000000) t). unfold G in *. lia.
    + pose proof (sqrt_of_strict_mono t (-12 * 9000000)). unfold G in *. lia.
Qed.

(* out-of-range ticks have no sqrt price *)
Lemma tick_to_sqrt_price_rejects t :
  (t < MinCurrentTickV2 -> tick_to_sqrt_price t = Err ETickMin) /\ (MaxTick < t -> tick_to_sqrt_price t = Err ETickMax).
Proof.
  split; intros H; unfold tick_to_sqrt_price;
    [rewrite tick_to_price_rejects_low by exact H|rewrite tick_to_price_rejects_high by exact H]; reflexivity.
Qed.
