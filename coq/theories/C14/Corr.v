(* C14 correspondence glue: run the model on a harness case and flatten its observables exactly as
   harness/c14drv prints them (error -> small enum, BigDec -> raw mantissa). *)
From Coq Require Import ZArith List Bool.
Import ListNotations.
From Osmo Require Import Base.Obs Base.DecModel Gen.C14_consts C14.Model.
Open Scope Z_scope.

Inductive case :=
| CT2P (tick : Z) (expect : list Z)                      (* indices, price, sqrt price of a tick *)
| CP2T (price : Z) (expect : list Z)                     (* CalculatePriceToTick *)
| CS2T (s spacing : Z) (expect : list Z)                 (* CalculateSqrtPriceToTick, SqrtPriceToTickRoundDownSpacing *)
| CRD (tick spacing : Z) (expect : list Z)               (* RoundDownTickToSpacing (spacing as int64) *)
| CVal (spacing lo hi : Z) (expect : list Z)             (* validateTickRangeIsValid *)
| CCanon (lo hi sl su spacing : Z) (expect : list Z)     (* roundTickToCanonicalPriceTick *)
| CCanonT (lo hi spacing : Z) (expect : list Z)          (* TicksToSqrtPrice; roundTickToCanonicalPriceTick *)
| CConsts (expect : list Z).

Definition res_z (r : result Z) : list Z :=
  match r with Ok v => [0; v] | Err e => [err_code e; 0] end.
Definition res_zz (r : result (Z * Z)) : list Z :=
  match r with Ok (a, b) => [0; a; b] | Err e => [err_code e; 0; 0] end.
Definition res_u (r : result unit) : list Z :=
  match r with Ok _ => [0] | Err e => [err_code e] end.
(* the driver prints [99] for a panic whatever the operation *)
Definition is_panic {A} (r : result A) : bool := match r with Err EPanic => true | _ => false end.
Definition cut (b : bool) (l : list Z) : list Z := if b then [99] else l.

(* SqrtPriceToTickRoundDownSpacing, sharing the evaluation of CalculateSqrtPriceToTick with the first observable *)
Definition s2t_spacing (r1 : result Z) (sp : Z) : result Z :=
  match r1 with Err e => Err e | Ok t => round_down_tick_to_spacing t (to_int64 sp) end.
Lemma s2t_spacing_eq s sp : s2t_spacing (calculate_sqrt_price_to_tick s) sp = sqrt_price_to_tick_round_down_spacing s sp.
Proof. reflexivity. Qed.

Definition model_obs (c : case) : list Z :=
  match c with
  | CT2P t _ =>
      let r1 := tick_to_additive_geometric_indices t in
      let r2 := tick_to_price t in
      let r3 := tick_to_sqrt_price t in
      cut (is_panic r1 || is_panic r2 || is_panic r3) (res_zz r1 ++ res_z r2 ++ res_z r3)
  | CP2T p _ => let r := calculate_price_to_tick p in cut (is_panic r) (res_z r)
  | CS2T s sp _ =>
      let r1 := calculate_sqrt_price_to_tick s in
      let r2 := s2t_spacing r1 sp in        (* = sqrt_price_to_tick_round_down_spacing s sp, see s2t_spacing_eq *)
      cut (is_panic r1 || is_panic r2) (res_z r1 ++ res_z r2)
  | CRD t sp _ => let r := round_down_tick_to_spacing t sp in cut (is_panic r) (res_z r)
  | CVal sp lo hi _ => let r := validate_tick_range_is_valid sp lo hi in cut (is_panic r) (res_u r)
  | CCanon lo hi sl su sp _ =>
      let r := round_tick_to_canonical_price_tick lo hi sl su sp in cut (is_panic r) (res_zz r)
  | CCanonT lo hi sp _ =>
      match ticks_to_sqrt_price lo hi with
      | Err e => cut (is_panic (@Err unit e)) [err_code e; 0; 0]
      | Ok (sl, su) => let r := round_tick_to_canonical_price_tick lo hi sl su sp in cut (is_panic r) (res_zz r)
      end
  | CConsts _ =>
      [MinInitializedTick; MaxTick; MinCurrentTick; MinInitializedTickV2; MinCurrentTickV2; ExponentAtPriceOne;
       MaxSpotPriceBigDec; MinSpotPriceBigDec; MinSpotPriceV2; MaxSqrtPriceBigDec; MinSqrtPriceBigDec] ++ AuthorizedTickSpacing
  end.

Definition c_expect (c : case) : list Z :=
  match c with
  | CT2P _ e | CP2T _ e | CS2T _ _ e | CRD _ _ e | CVal _ _ _ e | CCanon _ _ _ _ _ e | CCanonT _ _ _ e | CConsts e => e
  end.

Definition case_ok (c : case) : bool := zlist_eqb (model_obs c) (c_expect c).
