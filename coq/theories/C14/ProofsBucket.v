(* C14 proofs, part 4: sqrt price -> tick.  Soundness of CalculateSqrtPriceToTick (the returned tick's bucket
   contains the sqrt price) and completeness on the swap-reachable range (no sqrt price of the range is rejected:
   the candidate from the rounded price is the true tick or its successor), parametric in the decade. *)
From Coq Require Import ZArith Bool List Lia.
Import ListNotations.
From Osmo Require Import Base.DecModel Gen.C14_consts C14.Model C14.ProofsPrice C14.ProofsSqrt.
Open Scope Z_scope.
Ltac Zify.zify_post_hook ::= Z.to_euclidean_division_equations.

(** * chop_round (bankers rounding of d/p) stays between the neighbouring integers *)
Lemma chop_round_nonneg_cases p d : 0 < p -> Z.rem p 2 = 0 -> 0 <= d ->
  let q := Z.quot d p in let r := Z.rem d p in
  d = p * q + r /\ 0 <= r < p /\
  (chop_round p d = q \/ (chop_round p d = q + 1 /\ p <= 2 * r)) /\ (r = 0 -> chop_round p d = q).
Proof.
  intros Hp Hev Hd. cbv zeta. pose proof (Z.quot_rem' d p) as Hqr. pose proof (Z.rem_bound_pos d p Hd Hp) as Hr.
  split; [exact Hqr|]. split; [exact Hr|].
  unfold chop_round. tf (d <? 0) false. unfold chop_round_nonneg.
  destruct (Z.rem d p =? 0) eqn:E0.
  - split; [left; reflexivity|reflexivity].
  - apply Z.eqb_neq in E0. split; [|intros; lia].
    assert (Hh : 2 * Z.quot p 2 = p) by (clear - Hp Hev; lia).
    destruct (Z.rem d p ?= Z.quot p 2) eqn:Ec.
    + apply Z.compare_eq in Ec. destruct (Z.even (Z.quot d p)); [left; reflexivity|right; split; [reflexivity|lia]].
    + left; reflexivity.
    + apply Z.compare_gt_iff in Ec. right; split; [reflexivity|lia].
Qed.

Lemma chop_round_lower p d a : 0 < p -> Z.rem p 2 = 0 -> 0 <= d -> a * p <= d -> a <= chop_round p d.
Proof.
  intros Hp Hev Hd Ha. destruct (chop_round_nonneg_cases p d Hp Hev Hd) as (Hqr & Hr & [Hc|[Hc _]] & _); rewrite Hc; nia.
Qed.
Lemma chop_round_upper p d b : 0 < p -> Z.rem p 2 = 0 -> 0 <= d -> d <= b * p -> chop_round p d <= b.
Proof.
  intros Hp Hev Hd Hb. destruct (chop_round_nonneg_cases p d Hp Hev Hd) as (Hqr & Hr & [Hc|[Hc H2]] & _); rewrite Hc; nia.
Qed.
(* rounding up moves by at most half a unit *)
Lemma chop_round_near p d : 0 < p -> Z.rem p 2 = 0 -> 0 <= d -> 2 * (chop_round p d * p - d) <= p.
Proof.
  intros Hp Hev Hd. destruct (chop_round_nonneg_cases p d Hp Hev Hd) as (Hqr & Hr & [Hc|[Hc H2]] & _); rewrite Hc; nia.
Qed.

(** * the square of a sqrt price of the bucket [S(t), S(t+1)), rounded to 36 decimals *)
Definition root (t : Z) : Z := sqrt_ceil (price_of t).

Lemma sqrt_of_launch t : -12 * G <= t -> sqrt_of t = root t * P18.
Proof. intros H. unfold sqrt_of, root. tf (t >=? -12 * G) true. reflexivity. Qed.

Lemma root_facts t : -12 * G <= t <= 38 * G ->
  0 < root t /\ price_of t <= root t * root t /\ (root t - 1) * (root t - 1) < price_of t /\ 4 * (root t - 1) < step t.
Proof.
  intros H. unfold root.
  pose proof (price_of_pos t ltac:(unfold G in *; lia)) as Hp.
  pose proof (sqrt_ceil_sq_ge (price_of t) ltac:(lia)) as H1.
  pose proof (sqrt_ceil_pred_lt _ Hp) as H2.
  pose proof (sqrt_ceil_nonneg (price_of t) ltac:(lia)) as H0.
  pose proof (price_lt_step t ltac:(unfold G in *; lia)) as Hl.
  assert (HN : 10 ^ 18 <= step t) by (unfold step; apply pow10_le; unfold G in *; lia).
  set (r := sqrt_ceil (price_of t)) in *. set (N := step t) in *.
  split; [nia|]. split; [exact H1|]. split; [exact H2|].
  destruct (Z_lt_le_dec (4 * (r - 1)) N) as [L|L]; [exact L|exfalso].
  assert (N * N <= 16 * ((r - 1) * (r - 1))) by nia.
  assert (10 ^ 18 * N <= N * N) by nia.
  change (10 ^ 18) with 1000000000000000000 in *. change (10 ^ 7) with 10000000 in *. nia.
Qed.

Lemma bd_mul_bucket t s : -12 * G <= t < 38 * G -> sqrt_of t <= s < sqrt_of (t + 1) ->
  0 < s /\ price_of t <= bd_mul s s <= root (t + 1) * root (t + 1).
Proof.
  intros Ht Hs. rewrite !sqrt_of_launch in Hs by lia.
  destruct (root_facts t ltac:(lia)) as (R0 & R1 & _). destruct (root_facts (t + 1) ltac:(lia)) as (R0' & _).
  assert (HP : P18 * P18 = P36) by reflexivity. assert (HP18 : 0 < P18) by (vm_compute; reflexivity).
  assert (HP36 : 0 < P36) by (vm_compute; reflexivity).
  assert (Hs0 : 0 < s) by nia. split; [exact Hs0|].
  unfold bd_mul. split.
  - apply chop_round_lower; [exact HP36|reflexivity|nia|]. rewrite <- HP.
    assert (root t * P18 * (root t * P18) <= s * s) by nia. nia.
  - apply chop_round_upper; [exact HP36|reflexivity|nia|]. rewrite <- HP.
    assert (s * s <= root (t + 1) * P18 * (root (t + 1) * P18)) by nia. nia.
Qed.

(** * The precomputed decade table and the two searches *)
Lemma cache_has_in idx : -30 <= idx <= 37 -> cache_has idx = true.
Proof.
  intros H. unfold cache_has. destruct cache_ends_val as [E1 E2]. rewrite E1, E2.
  destruct (Z_lt_le_dec idx 0).
  - tf (-31 <? idx) true. tf (idx <? 0) true. cbn. apply orb_true_r.
  - tf (0 <=? idx) true. tf (idx <? 38) true. reflexivity.
Qed.

Lemma cache_entry idx : -30 <= idx <= 37 ->
  tick_exp_cache idx = Some (mkExp (10 ^ (36 + idx)) (10 ^ (37 + idx)) (10 ^ (30 + idx)) (G * idx)) /\
  cache_max_price idx = Some (10 ^ (37 + idx)) /\ cache_initial_price idx = Some (10 ^ (36 + idx)).
Proof.
  intros H. unfold tick_exp_cache, cache_max_price, cache_initial_price. rewrite cache_has_in by exact H.
  consts. rewrite Hc6_, Hgd_.
  rewrite !pow_ten_big_spec by lia.
  replace (36 + (idx + 1)) with (37 + idx) by lia. replace (36 + (-6 + idx)) with (30 + idx) by lia.
  repeat split; reflexivity.
Qed.

Lemma search_up_spec x : x <= 10 ^ 74 -> forall k idx fuel,
  idx = 37 - Z.of_nat k -> 0 <= idx -> (k <= fuel)%nat -> 10 ^ (36 + idx) < x ->
  exists j, search_up fuel x idx = Ok j /\ idx <= j <= 37 /\ 10 ^ (36 + j) < x <= 10 ^ (37 + j).
Proof.
  intros Hx. induction k as [|k IH]; intros idx fuel Hk H0 Hf Hlo.
  - assert (idx = 37) by lia. clear Hk. subst idx.
    destruct (cache_entry 37 ltac:(lia)) as (_ & Em & _).
    exists 37. split; [|split; [lia|split; [exact Hlo|exact Hx]]].
    destruct fuel; cbn [search_up]; rewrite Em; change (37 + 37) with 74; tf (10 ^ 74 <? x) false; reflexivity.
  - destruct (cache_entry idx ltac:(lia)) as (_ & Em & _).
    destruct fuel as [|f]; [lia|]. cbn [search_up]. rewrite Em.
    destruct (10 ^ (37 + idx) <? x) eqn:E.
    + apply Z.ltb_lt in E.
      destruct (IH (idx + 1) f ltac:(lia) ltac:(lia) ltac:(lia)) as (j & Hj & Hr & Hb).
      { replace (36 + (idx + 1)) with (37 + idx) by lia. exact E. }
      exists j. split; [exact Hj|]. split; [lia|exact Hb].
    + apply Z.ltb_ge in E. exists idx. split; [reflexivity|]. split; [lia|]. split; [exact Hlo|exact E].
Qed.

Lemma search_down_spec x : 10 ^ 6 <= x -> forall k idx fuel,
  idx = -30 + Z.of_nat k -> idx <= -1 -> (k <= fuel)%nat -> x <= 10 ^ (37 + idx) ->
  exists j, search_down fuel x idx = Ok j /\ -30 <= j <= idx /\ 10 ^ (36 + j) <= x <= 10 ^ (37 + j).
Proof.
  intros Hx. induction k as [|k IH]; intros idx fuel Hk H0 Hf Hhi.
  - assert (idx = -30) by lia. clear Hk. subst idx.
    destruct (cache_entry (-30) ltac:(lia)) as (_ & _ & Ei).
    exists (-30). split; [|split; [lia|split; [exact Hx|exact Hhi]]].
    destruct fuel; cbn [search_down]; rewrite Ei; change (36 + -30) with 6; tf (10 ^ 6 >? x) false; reflexivity.
  - destruct (cache_entry idx ltac:(lia)) as (_ & _ & Ei).
    destruct fuel as [|f]; [lia|]. cbn [search_down]. rewrite Ei.
    destruct (10 ^ (36 + idx) >? x) eqn:E; rewrite Z.gtb_ltb in E.
    + apply Z.ltb_lt in E.
      destruct (IH (idx - 1) f ltac:(lia) ltac:(lia) ltac:(lia)) as (j & Hj & Hr & Hb).
      { replace (37 + (idx - 1)) with (36 + idx) by lia. lia. }
      exists j. split; [exact Hj|]. split; [lia|exact Hb].
    + apply Z.ltb_ge in E. exists idx. split; [reflexivity|]. split; [lia|]. split; [exact E|exact Hhi].
Qed.

(** * Price -> tick inside the decade found *)
Definition core (x idx : Z) : result Z :=
  match tick_exp_cache idx with
  | None => Err EPanic
  | Some g =>
    let price_in_this_exponent := bd_sub x (initialPrice g) in
    if additiveIncrementPerTick g =? 0 then Err EPanic else
    let ticks_filled := bd_quo_qr price_in_this_exponent (additiveIncrementPerTick g) in
    let ti := bd_truncate_int ticks_filled in
    if negb (is_int64 ti) then Err EPanic else Ok (ti + initialTick g)
  end.

Lemma calculate_price_to_tick_unfold price :
  calculate_price_to_tick price =
  if price <? 0 then Err ENegPrice else
  if (price >? MaxSpotPriceBigDec) || (price <? MinSpotPriceV2) then Err EPriceBound else
  if price =? P36 then Ok 0 else
  let x := if price >=? MinSpotPriceBigDec then bd_chop_precision 18 price else price in
  match (if x >? P36 then search_up 400 x 0 else search_down 400 x (-1)) with
  | Err e => Err e
  | Ok idx => core x idx
  end.
Proof. reflexivity. Qed.

Lemma core_spec x idx : -30 <= idx <= 37 -> 10 ^ (36 + idx) <= x <= 10 ^ (37 + idx) ->
  let inc := 10 ^ (30 + idx) in let pin := x - 10 ^ 6 * inc in let F := pin / inc in
  0 <= F <= 9000000 /\
  exists ti, core x idx = Ok (ti + G * idx) /\
    (ti = F \/ (ti = F + 1 /\ ((F + 1) * inc - pin) * 10 ^ (42 - idx) <= 5 * 10 ^ 35)).
Proof.
  intros Hi Hx. cbv zeta.
  destruct (cache_entry idx Hi) as (Ec & _ & _).
  pose proof (pow10_gt0 (30 + idx) ltac:(lia)) as Hinc.
  pose proof (pow10_gt0 (42 - idx) ltac:(lia)) as Hm.
  assert (E36 : 10 ^ (36 + idx) = 10 ^ 6 * 10 ^ (30 + idx)).
  { replace (36 + idx) with (6 + (30 + idx)) by lia. apply pow10_add; lia. }
  assert (E37 : 10 ^ (37 + idx) = 10 ^ 7 * 10 ^ (30 + idx)).
  { replace (37 + idx) with (7 + (30 + idx)) by lia. apply pow10_add; lia. }
  assert (E72 : 10 ^ (30 + idx) * 10 ^ (42 - idx) = P36 * P36).
  { rewrite <- pow10_add by lia. replace (30 + idx + (42 - idx)) with 72 by lia. reflexivity. }
  set (inc := 10 ^ (30 + idx)) in *. set (m := 10 ^ (42 - idx)) in *.
  set (pin := x - 10 ^ 6 * inc). set (F := pin / inc).
  assert (Hpin : 0 <= pin <= 9000000 * inc) by (subst pin; lia).
  assert (HF : 0 <= F <= 9000000).
  { subst F. split; [apply Z.div_pos; lia|apply Z.div_le_upper_bound; lia]. }
  split; [exact HF|].
  assert (HFl : F * inc <= pin) by (subst F; rewrite Z.mul_comm; apply Z.mul_div_le; lia).
  assert (HFu : pin < (F + 1) * inc).
  { subst F. pose proof (Z.mod_pos_bound pin inc Hinc). pose proof (Z.div_mod pin inc ltac:(lia)). nia. }
  assert (HP36 : 0 < P36) by (vm_compute; reflexivity).
  unfold core. rewrite Ec. cbn [initialPrice additiveIncrementPerTick initialTick]. fold inc.
  tf (inc =? 0) false. rewrite bd_quo_qr_eq. unfold bd_sub, bd_quo, bd_truncate_int.
  rewrite E36. fold pin.
  assert (EP72 : P72 = m * inc) by (unfold P72; change (10 ^ 72) with (P36 * P36); lia).
  replace (pin * P72) with (pin * m * inc) by (rewrite EP72; ring).
  rewrite Z.quot_mul by lia.
  set (y := pin * m). assert (Hy : 0 <= y) by (subst y; nia).
  set (f := chop_round P36 y).
  assert (Hfl : F * P36 <= f).
  { subst f. apply chop_round_lower; [exact HP36|reflexivity|exact Hy|]. subst y. nia. }
  assert (Hfu : f <= (F + 1) * P36).
  { subst f. apply chop_round_upper; [exact HP36|reflexivity|exact Hy|]. subst y. nia. }
  assert (Hf0 : 0 <= f) by nia.
  rewrite Z.quot_div_nonneg by lia.
  assert (Hti : F <= f / P36 <= F + 1).
  { split; [apply Z.div_le_lower_bound; lia|apply Z.div_le_upper_bound; lia]. }
  exists (f / P36). split.
  - unfold is_int64, int64_min, int64_max.
    tf (- 2 ^ 63 <=? f / P36) true. tf (f / P36 <=? 2 ^ 63 - 1) true. cbn [andb negb].
    reflexivity.
  - destruct (Z.eq_dec (f / P36) F) as [E|E]; [left; exact E|right].
    assert (Et : f / P36 = F + 1) by lia. split; [exact Et|].
    assert (Hfe : f = (F + 1) * P36).
    { pose proof (Z.mul_div_le f P36 HP36). rewrite Et in H. lia. }
    pose proof (chop_round_near P36 y HP36 eq_refl Hy) as Hn. fold f in Hn. rewrite Hfe in Hn.
    subst y. change (5 * 10 ^ 35) with (P36 / 2).
    assert (2 * (((F + 1) * inc - pin) * m) <= P36) by nia.
    assert (P36 = 2 * (P36 / 2)) by (vm_compute; reflexivity). lia.
Qed.

(** * the price of the F-th tick of decade idx (F = 9*10^6 is the first tick of the next decade) *)
Lemma price_of_decade idx F : -30 <= idx -> 0 <= F <= 9000000 ->
  price_of (G * idx + F) = (10 ^ 6 + F) * 10 ^ (30 + idx).
Proof.
  intros Hi HF. unfold price_of, G.
  destruct (Z.eq_dec F 9000000) as [->|N].
  - replace ((9000000 * idx + 9000000) / 9000000) with (idx + 1) by lia.
    replace ((9000000 * idx + 9000000) mod 9000000) with 0 by lia.
    replace (30 + (idx + 1)) with (30 + idx + 1) by lia. rewrite pow10_S by lia. ring.
  - replace ((9000000 * idx + F) / 9000000) with idx by lia.
    replace ((9000000 * idx + F) mod 9000000) with F by lia. reflexivity.
Qed.

Lemma root_max : root (38 * G) * root (38 * G) = 10 ^ 74 /\ price_of (38 * G) = 10 ^ 74.
Proof. vm_compute. split; reflexivity. Qed.

Lemma price_of_le_inv t1 t2 : -30 * G <= t1 <= 38 * G -> -30 * G <= t2 <= 38 * G ->
  price_of t1 <= price_of t2 -> t1 <= t2.
Proof.
  intros H1 H2 Hp. destruct (Z_le_gt_dec t1 t2) as [L|L]; [exact L|].
  pose proof (price_of_strict_mono t2 t1 ltac:(lia) ltac:(lia) ltac:(lia)). lia.
Qed.
Lemma price_of_lt_inv t1 t2 : -30 * G <= t1 <= 38 * G -> -30 * G <= t2 <= 38 * G ->
  price_of t1 < price_of t2 -> t1 < t2.
Proof.
  intros H1 H2 Hp. destruct (Z_lt_ge_dec t1 t2) as [L|L]; [exact L|].
  pose proof (price_of_mono t2 t1 ltac:(lia) ltac:(lia) ltac:(lia)). lia.
Qed.

(** * The candidate tick computed from the rounded square is the true tick or its successor *)
Lemma candidate t p : -12 * G <= t < 38 * G ->
  price_of t <= p <= root (t + 1) * root (t + 1) ->
  calculate_price_to_tick p = Ok t \/ calculate_price_to_tick p = Ok (t + 1).
Proof.
  intros Ht Hp.
  destruct (root_facts (t + 1) ltac:(lia)) as (R0 & R1 & R2 & R3).
  set (r' := root (t + 1)) in *. set (v' := price_of (t + 1)) in *.
  set (e := 2 * r' - 2).
  assert (HU : r' * r' <= v' + e) by (subst e; nia).
  assert (He : 0 <= e /\ 2 * e < step (t + 1)) by (subst e; lia).
  assert (Hv : 10 ^ 24 <= price_of t).
  { pose proof (price_of_mono (-12 * G) t ltac:(unfold G; lia) ltac:(lia) ltac:(lia)) as Hm.
    replace (price_of (-12 * G)) with (10 ^ 24) in Hm by (vm_compute; reflexivity). exact Hm. }
  assert (Hnext : t + 2 <= 38 * G -> v' + e < price_of (t + 2)).
  { intros Hn. replace (t + 2) with (t + 1 + 1) by lia. rewrite price_succ by (unfold G in *; lia). fold v'. lia. }
  assert (Hp74 : p <= 10 ^ 74).
  { destruct (Z.eq_dec (t + 1) (38 * G)) as [E|E].
    - subst r'. rewrite E in Hp. destruct root_max as [Hr _]. lia.
    - pose proof (Hnext ltac:(lia)). pose proof (price_of_bounds (t + 2) ltac:(unfold G in *; lia)). lia. }
  destruct price_consts_val as (Hmax & Hminb & Hmin).
  rewrite calculate_price_to_tick_unfold. rewrite Hmax, Hminb, Hmin.
  tf (p <? 0) false. tf (p >? 10 ^ 74) false. tf (p <? 10 ^ 6) false. cbn [orb].
  destruct (p =? P36) eqn:E36.
  { apply Z.eqb_eq in E36.
    assert (P0 : price_of 0 = P36) by (vm_compute; reflexivity).
    assert (t <= 0) by (apply price_of_le_inv; [unfold G in *; lia|unfold G; lia|lia]).
    assert (-1 <= t).
    { assert (0 < t + 2); [|lia]. apply price_of_lt_inv; [unfold G; lia|unfold G in *; lia|].
      pose proof (Hnext ltac:(unfold G in *; lia)). lia. }
    destruct (Z.eq_dec t 0) as [->|N]; [left; reflexivity|right; f_equal; lia]. }
  apply Z.eqb_neq in E36.
  tf (p >=? 10 ^ 24) true. cbv zeta.
  (* the 18-decimal chop *)
  set (x := bd_chop_precision 18 p).
  assert (Hx : price_of t <= x <= p).
  { subst x. unfold bd_chop_precision. change (36 - 18) with 18.
    destruct (price_of_mult18 t ltac:(lia)) as [k Hk]. unfold P18 in Hk.
    assert (0 < 10 ^ 18) by (vm_compute; reflexivity).
    rewrite Z.quot_div_nonneg by lia.
    pose proof (Z.mul_div_le p (10 ^ 18) H). split; [|lia].
    rewrite Hk. assert (k <= p / 10 ^ 18) by (apply Z.div_le_lower_bound; lia). nia. }
  (* decade search *)
  assert (Hs : exists j, (if x >? P36 then search_up 400 x 0 else search_down 400 x (-1)) = Ok j /\
                         -30 <= j <= 37 /\ 10 ^ (36 + j) <= x <= 10 ^ (37 + j)).
  { destruct (x >? P36) eqn:Eg; rewrite Z.gtb_ltb in Eg.
    - apply Z.ltb_lt in Eg.
      destruct (search_up_spec x ltac:(lia) 37%nat 0 400%nat eq_refl ltac:(lia) ltac:(lia) Eg) as (j & Hj & Hr & Hb).
      exists j. split; [exact Hj|]. split; lia.
    - apply Z.ltb_ge in Eg.
      destruct (search_down_spec x ltac:(lia) 29%nat (-1) 400%nat eq_refl ltac:(lia) ltac:(lia) Eg) as (j & Hj & Hr & Hb).
      exists j. split; [exact Hj|]. split; lia. }
  destruct Hs as (j & Hj & Hjr & Hjb). rewrite Hj.
  destruct (core_spec x j Hjr Hjb) as (HF & ti & Hcore & Hti). cbv zeta in *.
  pose proof (pow10_gt0 (30 + j) ltac:(lia)) as Hinc.
  set (inc := 10 ^ (30 + j)) in *. set (pin := x - 10 ^ 6 * inc) in *. set (F := pin / inc) in *.
  assert (E37 : 10 ^ (37 + j) = 10 ^ 7 * inc).
  { subst inc. replace (37 + j) with (7 + (30 + j)) by lia. apply pow10_add; lia. }
  assert (E36' : 10 ^ (36 + j) = 10 ^ 6 * inc).
  { subst inc. replace (36 + j) with (6 + (30 + j)) by lia. apply pow10_add; lia. }
  assert (Hpin : 0 <= pin <= 9000000 * inc) by (subst pin; lia).
  assert (HFl : F * inc <= pin) by (subst F; rewrite Z.mul_comm; apply Z.mul_div_le; lia).
  assert (HFu : pin < (F + 1) * inc).
  { subst F. pose proof (Z.mod_pos_bound pin inc Hinc). pose proof (Z.div_mod pin inc ltac:(lia)). nia. }
  set (u := G * j + F).
  assert (Hur : -30 * G <= u <= 38 * G) by (subst u; unfold G; lia).
  assert (Pu : price_of u = (10 ^ 6 + F) * inc) by (subst u; apply price_of_decade; [lia|exact HF]).
  assert (Pux : price_of u <= x) by (rewrite Pu; subst pin; lia).
  (* u <= t + 1 *)
  assert (Hu1 : u <= t + 1).
  { destruct (Z_le_gt_dec u (t + 1)) as [L|L]; [exact L|exfalso].
    pose proof (price_of_mono (t + 2) u ltac:(unfold G in *; lia) ltac:(lia) ltac:(lia)).
    pose proof (Hnext ltac:(lia)). lia. }
  (* t <= u *)
  assert (Hu0 : t <= u).
  { destruct (Z_le_gt_dec t u) as [L|L]; [exact L|exfalso].
    destruct (Z.eq_dec F 9000000) as [EF|NF].
    - assert (pin = 9000000 * inc) by (rewrite EF in HFl; lia).
      assert (x = price_of u) by (rewrite Pu, EF; subst pin; lia).
      pose proof (price_of_strict_mono u t ltac:(lia) ltac:(lia) ltac:(lia)). lia.
    - assert (Pu1 : price_of (u + 1) = (10 ^ 6 + (F + 1)) * inc).
      { subst u. replace (G * j + F + 1) with (G * j + (F + 1)) by lia. apply price_of_decade; lia. }
      pose proof (price_of_mono (u + 1) t ltac:(lia) ltac:(lia) ltac:(lia)).
      assert (x < price_of (u + 1)) by (rewrite Pu1; subst pin; lia). lia. }
  rewrite Hcore. destruct Hti as [Eti|[Eti Hbump]].
  - rewrite Eti. replace (F + G * j) with u by (subst u; lia).
    destruct (Z.eq_dec u t) as [->|N]; [left; reflexivity|right; f_equal; lia].
  - rewrite Eti. replace (F + 1 + G * j) with (u + 1) by (subst u; lia).
    destruct (Z.eq_dec u t) as [Eu|N]; [right; f_equal; lia|exfalso].
    assert (Eu : u = t + 1) by lia.
    pose proof (pow10_gt0 (42 - j) ltac:(lia)) as Hm.
    assert (E72 : inc * 10 ^ (42 - j) = 10 ^ 72).
    { subst inc. rewrite <- pow10_add by lia. f_equal. lia. }
    set (m := 10 ^ (42 - j)) in *.
    destruct (Z.eq_dec F 9000000) as [EF|NF].
    + assert (pin = 9000000 * inc) by (rewrite EF in HFl; lia).
      assert ((F + 1) * inc - pin = inc) by (rewrite EF; lia).
      rewrite H0 in Hbump. rewrite E72 in Hbump. revert Hbump. vm_compute. intros Hb; apply Hb; reflexivity.
    + assert (Es : step (t + 1) = inc).
      { unfold step. rewrite <- Eu. subst u inc. f_equal. f_equal. unfold G. lia. }
      assert (Hxe : x <= price_of u + e) by (rewrite Eu; fold v'; lia).
      rewrite Pu in Hxe. rewrite Es in He.
      assert (Hgap : inc - e <= (F + 1) * inc - pin) by (subst pin; lia).
      assert (inc < 2 * (inc - e)) by lia.
      assert (10 ^ 72 < 2 * (((F + 1) * inc - pin) * m)) by nia.
      change (5 * 10 ^ 35) with 500000000000000000000000000000000000 in Hbump.
      change (10 ^ 72) with 1000000000000000000000000000000000000000000000000000000000000000000000000 in *.
      lia.
Qed.

(** * The +-1 correction of CalculateSqrtPriceToTick *)
Definition tail (s tick : Z) (oob : bool) : result Z :=
  match tick_to_sqrt_price (tick + 1) with
  | Err _ => Err ESqrtCalc
  | Ok sp1 =>
    if s >=? sp1 then
      match tick_to_sqrt_price (tick + 2) with
      | Err _ => Err ESqrtCalc
      | Ok sp2 =>
        if (negb oob && (s >=? sp2)) || (oob && (s >? sp2)) then Err ESqrtPriceToTick else
        if s =? sp2 then Ok (tick + 2) else Ok (tick + 1)
      end
    else
      match tick_to_sqrt_price tick with
      | Err _ => Err ESqrtCalc
      | Ok sp0 =>
        if s >=? sp0 then Ok tick else
        match tick_to_sqrt_price (tick - 1) with
        | Err _ => Err ESqrtCalc
        | Ok spm => if s <? spm then Err ESqrtPriceToTick else Ok (tick - 1)
        end
      end
  end.
Definition select (s tick0 : Z) : result Z :=
  if tick0 <? MinCurrentTick then Err ETickMin else
  if tick0 <=? MinInitializedTickV2 then tail s (MinInitializedTickV2 + 1) true
  else if tick0 >=? MaxTick - 1 then tail s (MaxTick - 2) true
  else tail s tick0 false.

Lemma calculate_sqrt_price_to_tick_unfold s :
  calculate_sqrt_price_to_tick s =
  let price := bd_mul s s in
  if negb (bd_fits price) then Err EPanic else
  match calculate_price_to_tick price with
  | Err e => Err e
  | Ok tick0 => select s tick0
  end.
Proof.
  unfold calculate_sqrt_price_to_tick, select, tail. rewrite bd_mul_qr_eq. cbv zeta.
  destruct (negb (bd_fits (bd_mul s s))); [reflexivity|].
  destruct (calculate_price_to_tick (bd_mul s s)) as [tick0|e]; [|reflexivity].
  destruct (tick0 <? MinCurrentTick); [reflexivity|].
  destruct (tick0 <=? MinInitializedTickV2); [reflexivity|].
  destruct (tick0 >=? MaxTick - 1); reflexivity.
Qed.

Definition in_bucket (s T : Z) : Prop :=
  sqrt_of T <= s /\ ((T < 38 * G /\ s < sqrt_of (T + 1)) \/ (T = 38 * G /\ s = sqrt_of T)).

(* whatever the candidate: a returned tick's bucket contains the sqrt price *)
Lemma tail_sound s k b T : -30 * G + 1 <= k <= 38 * G - 2 -> (b = true -> k = 38 * G - 2) ->
  tail s k b = Ok T -> k - 1 <= T <= k + 2 /\ in_bucket s T.
Proof.
  intros Hk Hb. unfold tail. consts.
  rewrite !tick_to_sqrt_price_floor by lia.
  pose proof (sqrt_of_strict_mono (k - 1) k ltac:(unfold G; lia) ltac:(lia) ltac:(unfold G; lia)) as M0.
  pose proof (sqrt_of_strict_mono k (k + 1) ltac:(unfold G; lia) ltac:(lia) ltac:(unfold G; lia)) as M1.
  pose proof (sqrt_of_strict_mono (k + 1) (k + 2) ltac:(unfold G; lia) ltac:(lia) ltac:(unfold G; lia)) as M2.
  unfold in_bucket, G.
  destruct (s >=? sqrt_of (k + 1)) eqn:E1; rewrite Z.geb_leb in E1.
  - apply Z.leb_le in E1.
    destruct (s >=? sqrt_of (k + 2)) eqn:E2; rewrite Z.geb_leb in E2;
      [apply Z.leb_le in E2|apply Z.leb_gt in E2].
    + destruct b; cbn [negb andb orb]; [|discriminate].
      destruct (s >? sqrt_of (k + 2)) eqn:E3; rewrite Z.gtb_ltb in E3; [discriminate|apply Z.ltb_ge in E3].
      tf (s =? sqrt_of (k + 2)) true. intros H; inversion H; subst T.
      specialize (Hb eq_refl). split; [lia|]. split; [lia|]. right. split; lia.
    + rewrite andb_false_r. cbn [orb].
      tf (s >? sqrt_of (k + 2)) false. rewrite andb_false_r.
      tf (s =? sqrt_of (k + 2)) false. intros H; inversion H; subst T.
      split; [lia|]. split; [lia|]. left. replace (k + 1 + 1) with (k + 2) by lia. split; lia.
  - apply Z.leb_gt in E1.
    destruct (s >=? sqrt_of k) eqn:E0; rewrite Z.geb_leb in E0.
    + apply Z.leb_le in E0. intros H; inversion H; subst T. split; [lia|]. split; [lia|]. left; split; lia.
    + apply Z.leb_gt in E0.
      destruct (s <? sqrt_of (k - 1)) eqn:Em; [discriminate|apply Z.ltb_ge in Em].
      intros H; inversion H; subst T. split; [lia|]. split; [lia|]. left.
      replace (k - 1 + 1) with k by lia. split; lia.
Qed.

Lemma select_sound s c T : c <= 38 * G -> select s c = Ok T -> MinCurrentTick - 1 <= T <= MaxTick /\ in_bucket s T.
Proof.
  intros Hc. unfold select. consts. rewrite Hc3_, Hc4_, Hc2_.
  destruct (c <? -12 * 9000000 - 1) eqn:E0; [discriminate|apply Z.ltb_ge in E0].
  tf (c <=? -30 * 9000000) false.
  destruct (c >=? 38 * 9000000 - 1) eqn:E1; rewrite Z.geb_leb in E1;
    [apply Z.leb_le in E1|apply Z.leb_gt in E1]; intros H.
  - destruct (tail_sound s (38 * 9000000 - 2) true T ltac:(unfold G; lia) ltac:(unfold G; lia) H). split; [lia|assumption].
  - destruct (tail_sound s c false T ltac:(unfold G; lia) ltac:(discriminate) H). split; [lia|assumption].
Qed.

(* a candidate equal to the true tick or its successor is corrected to the true tick *)
Lemma select_complete s t c : -12 * G - 1 <= t < 38 * G -> sqrt_of t <= s < sqrt_of (t + 1) ->
  c = t \/ c = t + 1 -> select s c = Ok t.
Proof.
  intros Ht Hs Hc. unfold select. consts. rewrite Hc3_, Hc4_, Hc2_. unfold G in *.
  tf (c <? -12 * 9000000 - 1) false. tf (c <=? -30 * 9000000) false.
  assert (M : forall a b, -30 * 9000000 <= a -> a < b -> b <= 38 * 9000000 -> sqrt_of a < sqrt_of b).
  { intros a b' H1 H2 H3. apply sqrt_of_strict_mono; unfold G; lia. }
  destruct (c >=? 38 * 9000000 - 1) eqn:E1; rewrite Z.geb_leb in E1;
    [apply Z.leb_le in E1|apply Z.leb_gt in E1]; unfold tail; rewrite !tick_to_sqrt_price_floor by lia.
  - (* clamped at the top: t is MaxTick-2 or MaxTick-1 *)
    replace (38 * 9000000 - 2 + 1) with (38 * 9000000 - 1) by lia.
    replace (38 * 9000000 - 2 + 2) with (38 * 9000000) by lia.
    destruct (Z.eq_dec t (38 * 9000000 - 2)) as [Et|Et].
    + subst t. replace (38 * 9000000 - 2 + 1) with (38 * 9000000 - 1) in Hs by lia.
      tf (s >=? sqrt_of (38 * 9000000 - 1)) false. tf (s >=? sqrt_of (38 * 9000000 - 2)) true. reflexivity.
    + assert (t = 38 * 9000000 - 1) by lia. subst t.
      replace (38 * 9000000 - 1 + 1) with (38 * 9000000) in Hs by lia.
      tf (s >=? sqrt_of (38 * 9000000 - 1)) true. cbn [negb andb orb].
      tf (s >? sqrt_of (38 * 9000000)) false. tf (s =? sqrt_of (38 * 9000000)) false. f_equal; lia.
  - destruct Hc as [->| ->].
    + tf (s >=? sqrt_of (t + 1)) false. tf (s >=? sqrt_of t) true. reflexivity.
    + pose proof (M (t + 1) (t + 1 + 1) ltac:(lia) ltac:(lia) ltac:(lia)).
      tf (s >=? sqrt_of (t + 1 + 1)) false. tf (s >=? sqrt_of (t + 1)) false.
      replace (t + 1 - 1) with t by lia. tf (s <? sqrt_of t) false. reflexivity.
Qed.

(* accepted prices are inside [MinSpotPriceV2, MaxSpotPrice] *)
Lemma price_to_tick_ok_range p c : calculate_price_to_tick p = Ok c -> 10 ^ 6 <= p <= 10 ^ 74.
Proof.
  rewrite calculate_price_to_tick_unfold. destruct price_consts_val as (Hmax & _ & Hmin). rewrite Hmax, Hmin.
  destruct (p <? 0); [discriminate|].
  destruct (p >? 10 ^ 74) eqn:E1; [discriminate|]. destruct (p <? 10 ^ 6) eqn:E2; [discriminate|].
  rewrite Z.gtb_ltb in E1. apply Z.ltb_ge in E1, E2. intros _. lia.
Qed.

(** * Main results *)
Lemma sqrt_price_to_tick_sound s T : calculate_sqrt_price_to_tick s = Ok T ->
  MinCurrentTick - 1 <= T <= MaxTick /\ in_bucket s T.
Proof.
  rewrite calculate_sqrt_price_to_tick_unfold. cbv zeta.
  destruct (negb (bd_fits (bd_mul s s))); [discriminate|].
  destruct (calculate_price_to_tick (bd_mul s s)) as [c|e] eqn:Ec; [|discriminate].
  intros H. apply (select_sound s c T); [|exact H].
  (* the candidate never exceeds MaxTick *)
  revert Ec. rewrite calculate_price_to_tick_unfold.
  destruct price_consts_val as (Hmax & Hminb & Hmin). rewrite Hmax, Hminb, Hmin.
  set (p := bd_mul s s).
  destruct (p <? 0); [discriminate|].
  destruct (p >? 10 ^ 74) eqn:E1; [discriminate|]. destruct (p <? 10 ^ 6) eqn:E2; [discriminate|]. cbn [orb].
  rewrite Z.gtb_ltb in E1. apply Z.ltb_ge in E1, E2.
  destruct (p =? P36); [intros Hc; inversion Hc; unfold G; lia|].
  cbv zeta. set (x := if p >=? 10 ^ 24 then bd_chop_precision 18 p else p).
  assert (Hx : 10 ^ 6 <= x <= 10 ^ 74).
  { subst x. destruct (p >=? 10 ^ 24) eqn:E3; [|lia]. rewrite Z.geb_leb in E3. apply Z.leb_le in E3.
    unfold bd_chop_precision. change (36 - 18) with 18.
    assert (0 < 10 ^ 18) by (vm_compute; reflexivity).
    rewrite Z.quot_div_nonneg by lia. pose proof (Z.mul_div_le p (10 ^ 18) H0).
    assert (10 ^ 6 <= p / 10 ^ 18) by (apply Z.div_le_lower_bound; [lia|]; change (10 ^ 18 * 10 ^ 6) with (10 ^ 24); lia).
    nia. }
  assert (Hs : exists j, (if x >? P36 then search_up 400 x 0 else search_down 400 x (-1)) = Ok j /\
                         -30 <= j <= 37 /\ 10 ^ (36 + j) <= x <= 10 ^ (37 + j)).
  { destruct (x >? P36) eqn:Eg; rewrite Z.gtb_ltb in Eg.
    - apply Z.ltb_lt in Eg.
      destruct (search_up_spec x ltac:(lia) 37%nat 0 400%nat eq_refl ltac:(lia) ltac:(lia) Eg) as (j & Hj & Hr & Hb).
      exists j. split; [exact Hj|]. split; lia.
    - apply Z.ltb_ge in Eg.
      destruct (search_down_spec x ltac:(lia) 29%nat (-1) 400%nat eq_refl ltac:(lia) ltac:(lia) Eg) as (j & Hj & Hr & Hb).
      exists j. split; [exact Hj|]. split; lia. }
  destruct Hs as (j & Hj & Hjr & Hjb). rewrite Hj.
  destruct (core_spec x j Hjr Hjb) as (HF & ti & Hcore & Hti). cbv zeta in *. rewrite Hcore.
  intros Hc. assert (Ec2 : c = ti + G * j) by congruence. clear Hc. subst c.
  destruct Hti as [->|[-> Hbump]]; [unfold G; lia|].
  (* a bump from F = 9*10^6 is impossible, so F + 1 <= 9*10^6 *)
  set (inc := 10 ^ (30 + j)) in *. set (pin := x - 10 ^ 6 * inc) in *. set (F := pin / inc) in *.
  destruct (Z.eq_dec F 9000000) as [EF|NF]; [exfalso|unfold G; lia].
  pose proof (pow10_gt0 (30 + j) ltac:(lia)) as Hinc. fold inc in Hinc.
  assert (E37 : 10 ^ (37 + j) = 10 ^ 7 * inc).
  { subst inc. replace (37 + j) with (7 + (30 + j)) by lia. apply pow10_add; lia. }
  assert (HFl : F * inc <= pin) by (subst F; rewrite Z.mul_comm; apply Z.mul_div_le; lia).
  assert (pin = 9000000 * inc) by (subst pin; rewrite EF in HFl; lia).
  assert (E72 : inc * 10 ^ (42 - j) = 10 ^ 72).
  { subst inc. rewrite <- pow10_add by lia. f_equal. lia. }
  assert ((F + 1) * inc - pin = inc) by (rewrite EF; lia).
  rewrite H1, E72 in Hbump. revert Hbump. vm_compute. intros Hb; apply Hb; reflexivity.
Qed.

Lemma sqrt_price_to_tick_bucket t s : -12 * G <= t < 38 * G -> sqrt_of t <= s < sqrt_of (t + 1) ->
  calculate_sqrt_price_to_tick s = Ok t.
Proof.
  intros Ht Hs. rewrite calculate_sqrt_price_to_tick_unfold. cbv zeta.
  destruct (bd_mul_bucket t s Ht Hs) as (Hs0 & Hp).
  assert (Hp74 : bd_mul s s <= 10 ^ 74).
  { destruct (candidate t (bd_mul s s) Ht Hp) as [Hc|Hc]; apply price_to_tick_ok_range in Hc; lia. }
  pose proof (price_of_pos t ltac:(unfold G in *; lia)).
  rewrite bd_fits_small by (split; [lia|]; eapply Z.le_lt_trans; [apply Hp74|]; vm_compute; reflexivity).
  cbn [negb].
  destruct (candidate t (bd_mul s s) Ht Hp) as [Hc|Hc]; rewrite Hc; (apply select_complete; [lia|exact Hs|auto]).
Qed.

Lemma sqrt_price_to_tick_top : calculate_sqrt_price_to_tick (sqrt_of (38 * G)) = Ok (38 * G).
Proof. vm_compute. reflexivity. Qed.

Lemma sqrt_price_to_tick_round_trip t : -12 * G <= t <= 38 * G -> calculate_sqrt_price_to_tick (sqrt_of t) = Ok t.
Proof.
  intros Ht. destruct (Z.eq_dec t (38 * G)) as [->|N]; [apply sqrt_price_to_tick_top|].
  apply sqrt_price_to_tick_bucket; [lia|]. split; [lia|].
  apply sqrt_of_strict_mono; unfold G in *; lia.
Qed.

(** * The bucket of MinCurrentTick = MinInitializedTick - 1 (its lower edge is a 36-digit root) *)
Lemma candidate_min_current p : price_of (-12 * G - 1) <= p <= 10 ^ 24 ->
  calculate_price_to_tick p = Ok (-12 * G - 1) \/ calculate_price_to_tick p = Ok (-12 * G).
Proof.
  intros Hp. assert (Pv : price_of (-12 * G - 1) = 9999999 * 10 ^ 17) by (vm_compute; reflexivity).
  rewrite Pv in Hp.
  destruct (Z.eq_dec p (10 ^ 24)) as [->|N]; [right; vm_compute; reflexivity|left].
  destruct price_consts_val as (Hmax & Hminb & Hmin).
  rewrite calculate_price_to_tick_unfold. rewrite Hmax, Hminb, Hmin.
  tf (p <? 0) false. tf (p >? 10 ^ 74) false. tf (p <? 10 ^ 6) false. cbn [orb].
  assert (HP : P36 = 10 ^ 36) by reflexivity.
  tf (p =? P36) false. tf (p >=? 10 ^ 24) false. cbv zeta. tf (p >? P36) false.
  destruct (search_down_spec p ltac:(lia) 29%nat (-1) 400%nat eq_refl ltac:(lia) ltac:(lia) ltac:(change (37 + -1) with 36; lia))
    as (j & Hj & Hr & Hb).
  assert (j = -13).
  { destruct (Z_le_gt_dec j (-14)).
    - assert (10 ^ (37 + j) <= 10 ^ 23) by (apply pow10_le; lia). lia.
    - destruct (Z_le_gt_dec j (-13)); [lia|].
      assert (10 ^ 24 <= 10 ^ (36 + j)) by (apply pow10_le; lia). lia. }
  subst j. rewrite Hj.
  destruct (core_spec p (-13) ltac:(lia) Hb) as (HF & ti & Hcore & Hti). cbv zeta in *.
  change (30 + -13) with 17 in *. rewrite Hcore.
  assert (E24 : 10 ^ 24 = 10 ^ 7 * 10 ^ 17) by reflexivity.
  assert (HA : 0 < 10 ^ 17) by reflexivity.
  assert (HB : 5 * 10 ^ 35 < 10 ^ 55) by reflexivity.
  change (42 - -13) with 55 in Hti. rewrite E24 in Hp, N.
  set (A := 10 ^ 17) in *. set (B := 10 ^ 55) in *. set (C := 5 * 10 ^ 35) in *.
  change (10 ^ 6) with 1000000 in *. change (10 ^ 7) with 10000000 in *.
  assert (EF : (p - 1000000 * A) / A = 8999999).
  { symmetry. apply (Z.div_unique _ _ _ (p - 9999999 * A)); lia. }
  rewrite EF in Hti. destruct Hti as [->|[-> Hbump]]; [f_equal; unfold G; lia|exfalso].
  assert (1 <= (8999999 + 1) * A - (p - 1000000 * A)) by lia.
  assert (B <= ((8999999 + 1) * A - (p - 1000000 * A)) * B) by nia. lia.
Qed.

Lemma sqrt_price_to_tick_bucket_min_current s :
  sqrt_of (-12 * G - 1) <= s < sqrt_of (-12 * G) -> calculate_sqrt_price_to_tick s = Ok (-12 * G - 1).
Proof.
  intros Hs. rewrite calculate_sqrt_price_to_tick_unfold. cbv zeta.
  assert (E1 : sqrt_of (-12 * G) = 10 ^ 30) by (vm_compute; reflexivity).
  assert (E0 : sqrt_of (-12 * G - 1) = sqrt_ceil (price_of (-12 * G - 1) * P36)) by reflexivity.
  assert (Pv : 0 < price_of (-12 * G - 1)) by (vm_compute; reflexivity).
  assert (HP36 : 0 < P36) by (vm_compute; reflexivity).
  pose proof (sqrt_ceil_sq_ge (price_of (-12 * G - 1) * P36) ltac:(nia)) as Hsq.
  pose proof (sqrt_ceil_nonneg (price_of (-12 * G - 1) * P36) ltac:(nia)) as Hn.
  rewrite E1, E0 in Hs. set (R := sqrt_ceil (price_of (-12 * G - 1) * P36)) in *.
  assert (Hp : price_of (-12 * G - 1) <= bd_mul s s <= 10 ^ 24).
  { unfold bd_mul. split.
    - apply chop_round_lower; [exact HP36|reflexivity|nia|]. nia.
    - apply chop_round_upper; [exact HP36|reflexivity|nia|].
      change (10 ^ 24 * P36) with (10 ^ 30 * 10 ^ 30). nia. }
  rewrite bd_fits_small by (split; [lia|]; eapply Z.le_lt_trans; [apply Hp|]; vm_compute; reflexivity).
  cbn [negb].
  assert (Hb : sqrt_of (-12 * G - 1) <= s < sqrt_of (-12 * G - 1 + 1)).
  { rewrite E0. replace (-12 * G - 1 + 1) with (-12 * G) by lia. rewrite E1. lia. }
  destruct (candidate_min_current _ Hp) as [Hc|Hc]; rewrite Hc;
    (apply select_complete; [unfold G; lia|exact Hb|lia]).
Qed.

(** * CalculatePriceToTick rejects prices outside [MinSpotPriceV2, MaxSpotPrice] *)
Lemma price_to_tick_rejects p :
  (p < 0 -> calculate_price_to_tick p = Err ENegPrice) /\
  (0 <= p < MinSpotPriceV2 \/ MaxSpotPriceBigDec < p -> calculate_price_to_tick p = Err EPriceBound).
Proof.
  rewrite calculate_price_to_tick_unfold. split; intros H.
  - tf (p <? 0) true. reflexivity.
  - destruct price_consts_val as (Hmax & _ & Hmin). rewrite Hmax, Hmin in *. tf (p <? 0) false.
    destruct H as [H|H]; [tf (p <? 10 ^ 6) true; rewrite orb_true_r|tf (p >? 10 ^ 74) true]; reflexivity.
Qed.

(** * tick -> price -> tick is the identity on the whole initialisable range (extended low range included) *)
Lemma price_round_trip t : -30 * G <= t <= 38 * G -> calculate_price_to_tick (price_of t) = Ok t.
Proof.
  intros Ht. pose proof (price_of_bounds t Ht) as Hb.
  destruct price_consts_val as (Hmax & Hminb & Hmin).
  rewrite calculate_price_to_tick_unfold. rewrite Hmax, Hminb, Hmin.
  set (x0 := price_of t) in *.
  tf (x0 <? 0) false. tf (x0 >? 10 ^ 74) false. tf (x0 <? 10 ^ 6) false. cbn [orb].
  assert (P0 : price_of 0 = P36) by (vm_compute; reflexivity).
  destruct (x0 =? P36) eqn:E36.
  { apply Z.eqb_eq in E36. f_equal. apply Z.le_antisymm; apply price_of_le_inv; unfold G in *; fold x0; lia. }
  cbv zeta.
  (* the chop is the identity on tick prices *)
  set (x := if x0 >=? 10 ^ 24 then bd_chop_precision 18 x0 else x0).
  assert (Ex : x = x0).
  { subst x. destruct (x0 >=? 10 ^ 24) eqn:E; [|reflexivity]. rewrite Z.geb_leb in E. apply Z.leb_le in E.
    assert (-12 * G <= t).
    { apply price_of_le_inv; [unfold G; lia|lia|]. replace (price_of (-12 * G)) with (10 ^ 24) by (vm_compute; reflexivity). exact E. }
    destruct (price_of_mult18 t H) as [k Hk]. fold x0 in Hk. unfold P18 in Hk.
    unfold bd_chop_precision. change (36 - 18) with 18. rewrite Hk.
    rewrite Z.quot_mul by (vm_compute; discriminate). reflexivity. }
  rewrite Ex. clear Ex x. apply Z.eqb_neq in E36.
  assert (Hs : exists j, (if x0 >? P36 then search_up 400 x0 0 else search_down 400 x0 (-1)) = Ok j /\
                         -30 <= j <= 37 /\ 10 ^ (36 + j) <= x0 <= 10 ^ (37 + j)).
  { destruct (x0 >? P36) eqn:Eg; rewrite Z.gtb_ltb in Eg.
    - apply Z.ltb_lt in Eg.
      destruct (search_up_spec x0 ltac:(lia) 37%nat 0 400%nat eq_refl ltac:(lia) ltac:(lia) Eg) as (j & Hj & Hr & Hb').
      exists j. split; [exact Hj|]. split; lia.
    - apply Z.ltb_ge in Eg.
      destruct (search_down_spec x0 ltac:(lia) 29%nat (-1) 400%nat eq_refl ltac:(lia) ltac:(lia) Eg) as (j & Hj & Hr & Hb').
      exists j. split; [exact Hj|]. split; lia. }
  destruct Hs as (j & Hj & Hjr & Hjb). rewrite Hj.
  destruct (core_spec x0 j Hjr Hjb) as (HF & ti & Hcore & Hti). cbv zeta in *. rewrite Hcore.
  pose proof (pow10_gt0 (30 + j) ltac:(lia)) as Hinc.
  set (inc := 10 ^ (30 + j)) in *. set (pin := x0 - 10 ^ 6 * inc) in *. set (F := pin / inc) in *.
  (* the decade found is the tick's own decade or the one below (when the price is a power of ten) *)
  assert (Hd : -30 <= t / G) by (apply Z.div_le_lower_bound; unfold G in *; lia).
  assert (Hjd : j <= t / G).
  { destruct (Z_le_gt_dec j (t / G)) as [L|L]; [exact L|exfalso].
    pose proof (price_lt_step t ltac:(lia)) as Hl. fold x0 in Hl. unfold step in Hl.
    assert (10 ^ 7 * 10 ^ (30 + t / G) <= 10 ^ (36 + j)).
    { rewrite <- pow10_add by lia. apply pow10_le. lia. }
    lia. }
  (* so the increment divides the price *)
  assert (Hdiv : exists q, pin = q * inc).
  { exists ((10 ^ 6 + t mod G) * 10 ^ (t / G - j) - 10 ^ 6). subst pin x0 inc. unfold price_of.
    replace (30 + t / G) with (t / G - j + (30 + j)) by lia. rewrite pow10_add by lia. ring. }
  destruct Hdiv as [q Hq].
  assert (EF : F = q) by (subst F; rewrite Hq; apply Z.div_mul; lia).
  assert (Eti : ti = F).
  { destruct Hti as [E|[E Hbump]]; [exact E|exfalso].
    assert ((F + 1) * inc - pin = inc) by (rewrite EF, Hq; ring).
    rewrite H in Hbump.
    assert (E72 : inc * 10 ^ (42 - j) = 10 ^ 72).
    { subst inc. rewrite <- pow10_add by lia. f_equal. lia. }
    rewrite E72 in Hbump. revert Hbump. vm_compute. intros Hb'; apply Hb'; reflexivity. }
  rewrite Eti. f_equal.
  assert (Pc : price_of (G * j + F) = x0).
  { rewrite price_of_decade by lia. fold inc. rewrite EF. subst pin. lia. }
  assert (Hc : -30 * G <= G * j + F <= 38 * G) by (unfold G; lia).
  replace (F + G * j) with (G * j + F) by lia.
  apply Z.le_antisymm; apply price_of_le_inv; try assumption; fold x0; lia.
Qed.

(** * CalculatePriceToTick alone: the tick of the price's bucket or its successor (never further off) *)
Lemma price_to_tick_near u p : -30 * G <= u < 38 * G -> price_of u <= p < price_of (u + 1) ->
  calculate_price_to_tick p = Ok u \/ calculate_price_to_tick p = Ok (u + 1).
Proof.
  intros Hu Hp.
  pose proof (price_of_bounds u ltac:(lia)) as Hb0. pose proof (price_of_bounds (u + 1) ltac:(lia)) as Hb1.
  destruct price_consts_val as (Hmax & Hminb & Hmin).
  rewrite calculate_price_to_tick_unfold. rewrite Hmax, Hminb, Hmin.
  tf (p <? 0) false. tf (p >? 10 ^ 74) false. tf (p <? 10 ^ 6) false. cbn [orb].
  destruct (p =? P36) eqn:E36.
  { apply Z.eqb_eq in E36. assert (P0 : price_of 0 = P36) by (vm_compute; reflexivity).
    assert (u <= 0) by (apply price_of_le_inv; [lia|unfold G; lia|lia]).
    assert (0 < u + 1) by (apply price_of_lt_inv; [unfold G; lia|lia|lia]).
    left. f_equal. lia. }
  apply Z.eqb_neq in E36. cbv zeta.
  set (x := if p >=? 10 ^ 24 then bd_chop_precision 18 p else p).
  assert (Hx : price_of u <= x <= p).
  { subst x. destruct (p >=? 10 ^ 24) eqn:E; [|lia]. rewrite Z.geb_leb in E. apply Z.leb_le in E.
    assert (-12 * G <= u).
    { assert (-12 * G < u + 1); [|lia]. apply price_of_lt_inv; [unfold G; lia|lia|].
      replace (price_of (-12 * G)) with (10 ^ 24) by (vm_compute; reflexivity). lia. }
    unfold bd_chop_precision. change (36 - 18) with 18.
    destruct (price_of_mult18 u H) as [k Hk]. unfold P18 in Hk.
    assert (0 < 10 ^ 18) by (vm_compute; reflexivity).
    rewrite Z.quot_div_nonneg by lia.
    pose proof (Z.mul_div_le p (10 ^ 18) H0). split; [|lia].
    rewrite Hk. assert (k <= p / 10 ^ 18) by (apply Z.div_le_lower_bound; lia). nia. }
  assert (Hs : exists j, (if x >? P36 then search_up 400 x 0 else search_down 400 x (-1)) = Ok j /\
                         -30 <= j <= 37 /\ 10 ^ (36 + j) <= x <= 10 ^ (37 + j)).
  { destruct (x >? P36) eqn:Eg; rewrite Z.gtb_ltb in Eg.
    - apply Z.ltb_lt in Eg.
      destruct (search_up_spec x ltac:(lia) 37%nat 0 400%nat eq_refl ltac:(lia) ltac:(lia) Eg) as (j & Hj & Hr & Hb).
      exists j. split; [exact Hj|]. split; lia.
    - apply Z.ltb_ge in Eg.
      destruct (search_down_spec x ltac:(lia) 29%nat (-1) 400%nat eq_refl ltac:(lia) ltac:(lia) Eg) as (j & Hj & Hr & Hb).
      exists j. split; [exact Hj|]. split; lia. }
  destruct Hs as (j & Hj & Hjr & Hjb). rewrite Hj.
  destruct (core_spec x j Hjr Hjb) as (HF & ti & Hcore & Hti). cbv zeta in *. rewrite Hcore.
  pose proof (pow10_gt0 (30 + j) ltac:(lia)) as Hinc.
  set (inc := 10 ^ (30 + j)) in *. set (pin := x - 10 ^ 6 * inc) in *. set (F := pin / inc) in *.
  assert (E37 : 10 ^ (37 + j) = 10 ^ 7 * inc).
  { subst inc. replace (37 + j) with (7 + (30 + j)) by lia. apply pow10_add; lia. }
  assert (E36' : 10 ^ (36 + j) = 10 ^ 6 * inc).
  { subst inc. replace (36 + j) with (6 + (30 + j)) by lia. apply pow10_add; lia. }
  assert (HFl : F * inc <= pin) by (subst F; rewrite Z.mul_comm; apply Z.mul_div_le; lia).
  assert (HFu : pin < (F + 1) * inc).
  { subst F. pose proof (Z.mod_pos_bound pin inc Hinc). pose proof (Z.div_mod pin inc ltac:(lia)). nia. }
  set (w := G * j + F).
  assert (Hwr : -30 * G <= w <= 38 * G) by (subst w; unfold G; lia).
  assert (Pw : price_of w = (10 ^ 6 + F) * inc) by (subst w; apply price_of_decade; [lia|exact HF]).
  assert (Ew : w = u).
  { apply Z.le_antisymm.
    - assert (w < u + 1); [|lia]. apply price_of_lt_inv; [lia|lia|]. rewrite Pw. subst pin. lia.
    - destruct (Z_le_gt_dec u w) as [L|L]; [exact L|exfalso].
      destruct (Z.eq_dec F 9000000) as [EF|NF].
      + assert (x = price_of w) by (rewrite Pw, EF; subst pin; rewrite EF in HFl; lia).
        pose proof (price_of_strict_mono w u ltac:(lia) ltac:(lia) ltac:(lia)). lia.
      + assert (Pw1 : price_of (w + 1) = (10 ^ 6 + (F + 1)) * inc).
        { subst w. replace (G * j + F + 1) with (G * j + (F + 1)) by lia. apply price_of_decade; lia. }
        pose proof (price_of_mono (w + 1) u ltac:(lia) ltac:(lia) ltac:(lia)).
        assert (x < price_of (w + 1)) by (rewrite Pw1; subst pin; lia). lia. }
  destruct Hti as [->|[-> _]]; [left|right]; f_equal; subst w; lia.
Qed.

(* ... and "or its successor" cannot be dropped: in the decades above 10^25 QuoMut rounds half-even before
   TruncateInt64, so a price within 5*10^(d-7) raw units below a tick price is mapped to that tick *)
Lemma price_to_tick_not_floor :
  let p := price_of (30 * G + 5) - 10 ^ 18 in
  price_of (30 * G + 4) <= p < price_of (30 * G + 5) /\ calculate_price_to_tick p = Ok (30 * G + 5).
Proof. vm_compute. repeat split; try reflexivity; intro; discriminate. Qed.
